#!/usr/bin/env python3
"""adopt_seed.py <Cxx> <name> [pkgdir] — verifies /tmp/seed/<Cxx>/OUT in a scratch worktree and,
if confirmed, stores it as /verif/seeded/<name>/ (patch.diff, demo_test.go, README.md, meta.json)."""
import json, os, shutil, subprocess, sys
prop, name = sys.argv[1], sys.argv[2]
pkg = sys.argv[3] if len(sys.argv) > 3 else "."
src = os.environ.get("SEED_ROOT", "/tmp/seed") + "/%s/OUT" % prop
r = subprocess.run(["python3", "/verif/tools/verify_seed.py", src, pkg], capture_output=True, text=True)
print(r.stdout[-1500:])
res = json.loads(r.stdout)
if not res.get("ok"):
    print("NOT CONFIRMED"); sys.exit(1)
d = "/verif/seeded/" + name
os.makedirs(d, exist_ok=True)
for f in ("patch.diff", "demo_test.go", "README.md"):
    if os.path.exists(os.path.join(src, f)):
        shutil.copy(os.path.join(src, f), os.path.join(d, f))
json.dump({"id": name, "property": prop, "origin": "independent sub-agent given only the property text and a scratch worktree",
           "demo_package_dir": pkg, "needs": "see README.md",
           "confirmed": {k: res[k] for k in ("applies", "compiles", "baseline_still_passes", "demo_without_change", "demo_with_change")},
           "ran": "tools/verify_seed.py (scratch worktree: baseline tests, demo with/without the change); tools/seeded.py (checks with the patch applied)"},
          open(os.path.join(d, "meta.json"), "w"), indent=1)
print("stored", d)
