#!/usr/bin/env bash
# Mutation self-test of the FOURTH part of the Go -> Lean translation (package suffix: lcp.go,
# segments.go; bitset.go; tools/extract/code_part4.go) and of LzProofs/GenSuffixProps*.lean,
# LzProofs/GenBitsetProps.lean.
#
# For every mutant: copy the repository to a fresh directory under /tmp, apply one small semantic
# change, regenerate LzModel/Generated/Code*.lean from the copy into a COPY of the lake
# project, and build the GenSuffixProps / GenBitsetProps modules there.
#   kind proof    : the build must FAIL (the failing theorems are listed)
#   kind extract  : the extractor must refuse a topic (exit status 3)
#   kind harmless : a behaviour-preserving rewrite — extractor and build must still succeed
# The working tree (<verif>/lean) is never touched; scratch-repo and the copy are removed.
#
# usage: ./gensuffix_selftest.sh     exit status 0 iff every mutant behaves as expected
set -u
export GOFLAGS=-mod=mod GOPROXY=off GOSUMDB=off GOTOOLCHAIN=local

HERE="$(cd "$(dirname "$0")/.." && pwd)"
REPO="${REPO:-/repo}"
SCRATCH="$(mktemp -d /tmp/pf-gensuffix-selftest.XXXXXX)"
LEAN="$SCRATCH/lean"
GEN="$LEAN/LzModel/Generated"
MUT="$(mktemp -d /tmp/pf-mutrepo.XXXXXX)/scratch-repo"   # scratch copies of the library live outside /verif and /repo
EXTRACT="$SCRATCH/extract"
TARGETS="${TARGETS:-LzProofs.GenSuffixProps LzProofs.GenSuffixPropsSeg LzProofs.GenBitsetProps}"
bad=0; good=0; total=0

cleanup() { rm -rf "$SCRATCH" "$MUT"; }
trap cleanup EXIT

cp -r "$HERE/lean" "$LEAN"
(cd "$HERE/tools/extract" && go build -o "$EXTRACT" .) || { echo "cannot build the extractor"; exit 1; }

failing_theorems() {
  grep -o 'error: LzProofs/Gen[A-Za-z]*\.lean:[0-9]*' "$1" | sed 's/error: //' | sort -u | while IFS=: read -r f ln; do
    awk -v L="$ln" -v F="$(basename "$f" .lean)" 'NR<=L && /^theorem /{name=$2} END{if (name=="") name="(import)"; print F ":" name}' "$LEAN/$f"
  done | sort -u | tr '\n' ' '
}
build() { (cd "$LEAN" && lake build $TARGETS) >"$1" 2>&1; }

# mutant <name> <kind> <file> <perl program>
mutant() {
  local name="$1" kind="$2" file="$3" prog="$4"
  total=$((total+1))
  rm -rf "$MUT"; cp -r "$REPO" "$MUT"; rm -rf "$MUT/.git"
  perl -0pi -e "$prog" "$MUT/$file"
  if cmp -s "$MUT/$file" "$REPO/$file"; then
    echo "ERROR    $name: the mutation did not apply to $file"; bad=$((bad+1)); return
  fi
  (cd "$MUT" && go build ./... >/dev/null 2>"$SCRATCH/gobuild.err") || {
    echo "ERROR    $name: the mutated repository does not compile: $(head -2 "$SCRATCH/gobuild.err" | tr '\n' ' ')"; bad=$((bad+1)); return; }
  "$EXTRACT" -repo "$MUT" -out "$SCRATCH/facts.lean" -code "$GEN/Code.lean" 2>"$SCRATCH/extract.err"
  local rc=$?
  local refused
  refused="$(grep -o 'topic [A-Za-z0-9]* REFUSED' "$SCRATCH/extract.err" | awk '{print $2}' | tr '\n' ' ' | sed 's/ $//')"
  case "$kind" in
  extract)
    if [ $rc -eq 3 ] && [ -n "$refused" ]; then
      echo "REFUSED  $name  [topics: $refused — $(grep -v REFUSED "$SCRATCH/extract.err" | head -1 | sed 's/^ *//')]"; good=$((good+1))
    else
      echo "ACCEPTED $name: the extractor accepted a construct it must refuse (status $rc)"; bad=$((bad+1))
    fi ;;
  proof)
    if [ $rc -ne 0 ]; then
      echo "ERROR    $name: extractor status $rc: $(head -3 "$SCRATCH/extract.err" | tr '\n' ' ')"; bad=$((bad+1))
    elif build "$SCRATCH/build.log"; then
      echo "SURVIVED $name: the proof modules still build"; bad=$((bad+1))
    else
      echo "KILLED   $name  [failing: $(failing_theorems "$SCRATCH/build.log")]"; good=$((good+1))
    fi ;;
  harmless)
    if [ $rc -ne 0 ]; then
      echo "BROKEN   $name: extractor status $rc: $(head -3 "$SCRATCH/extract.err" | tr '\n' ' ')"; bad=$((bad+1))
    elif build "$SCRATCH/build.log"; then
      echo "HARMLESS $name  [still builds]"; good=$((good+1))
    else
      echo "BROKEN   $name: a harmless rewrite breaks [$(failing_theorems "$SCRATCH/build.log")]"; bad=$((bad+1))
    fi ;;
  esac
}

echo "== baseline: code generated from $REPO, the proof modules build"
"$EXTRACT" -repo "$REPO" -out "$SCRATCH/facts.lean" -code "$GEN/Code.lean" || { echo "extractor failed on $REPO"; exit 1; }
diff -r "$GEN" "$HERE/lean/LzModel/Generated" >/dev/null || echo "   note: the Generated directory of the working tree is not up to date with $REPO"
build "$SCRATCH/base.log" || { echo "baseline build FAILED"; grep -A8 '^error' "$SCRATCH/base.log" | head -40; exit 1; }
echo "   ok"

echo "== mutants"
# --- suffix/lcp.go: _lcp
mutant "_lcp: zero entries are not stored"                   proof suffix/lcp.go 's/\t\tlcp\[k\] = l\n/\t\tif l != 0 {\n\t\t\tlcp[k] = l\n\t\t}\n/'
mutant "_lcp: lcp[0] = 0 not stored"                         proof suffix/lcp.go 's/\t\t\tlcp\[0\] = 0\n//'
mutant "_lcp: l-- without the l > 0 guard"                   proof suffix/lcp.go 's/\t\tif l > 0 \{\n\t\t\tl--\n\t\t\}\n/\t\tl--\n/'
mutant "_lcp: j = sa[k] instead of sa[k-1]"                  proof suffix/lcp.go 's/j := sa\[k-1\]/j := sa[k]/'
mutant "_lcp: l is not reset at k == 0"                      proof suffix/lcp.go 's/(lcp\[0\] = 0\n)\t\t\tl = 0\n/${1}/'
mutant "_lcp: l -= 2"                                        proof suffix/lcp.go 's/\t\t\tl--\n/\t\t\tl -= 2\n/'
# --- suffix/lcp.go: InvertSA
mutant "InvertSA: sainv[i] = j+1"                            proof suffix/lcp.go 's/sainv\[i\] = int32\(j\)/sainv[i] = int32(j) + 1/'
mutant "InvertSA: length check dropped"                      proof suffix/lcp.go 's/\tif len\(sa\) != len\(sainv\) \{\n\t\tpanic\(fmt\.Errorf\("suffix: len\(sa\)=%d != len\(sainv\)=%d",\n\t\t\tlen\(sa\), len\(sainv\)\)\)\n\t\}\n//'
# --- suffix/segments.go: Segments
mutant "Segments: clamp to MaxInt32-1"                       proof suffix/segments.go 's/maxLen = math\.MaxInt32\n/maxLen = math.MaxInt32 - 1\n/'
mutant "Segments: minLen < 0 accepted"                       proof suffix/segments.go 's/\tif minLen < 0 \{\n\t\tpanic\(fmt\.Errorf\("minLen=%d out of range", minLen\)\)\n\t\}\n//'
mutant "Segments: maxLen <= minLen returns"                  proof suffix/segments.go 's/if maxLen < minLen \|\|/if maxLen <= minLen ||/'
# --- suffix/segments.go: scanLCP
mutant "scanLCP: pop condition top.n > minLen"               proof suffix/segments.go 's/if top\.n >= minLen \{/if top.n > minLen {/'
mutant "scanLCP: push on n >= top.n"                         proof suffix/segments.go 's/case n > top\.n:/case n >= top.n:/'
mutant "scanLCP: wrong left boundary pushed (left+1)"        proof suffix/segments.go 's/stack = append\(stack, item\{n, left\}\)/stack = append(stack, item{n, left + 1})/'
mutant "scanLCP: left not updated after a pop"               proof suffix/segments.go 's/\t\t\tleft = top\.j\n//'
mutant "scanLCP: callback gets sa[top.j:j+1]"                proof suffix/segments.go 's/sa\[top\.j:j\]/sa[top.j:j+1]/'
mutant "scanLCP: lcp not clipped to maxLen"                  proof suffix/segments.go 's/\t\t\tif n > maxLen \{\n\t\t\t\tn = maxLen\n\t\t\t\}\n//'
mutant "scanLCP: scan starts at j = 0"                       proof suffix/segments.go 's/for j := int32\(1\); ; j\+\+/for j := int32(0); ; j++/'
# --- harmless rewrites: must still be accepted and proved
mutant "harmless: _lcp decrement written l -= 1"             harmless suffix/lcp.go 's/\t\t\tl--\n/\t\t\tl -= 1\n/'
mutant "harmless: _lcp guard written 0 < l"                  harmless suffix/lcp.go 's/if l > 0 \{/if 0 < l {/'
mutant "harmless: scanLCP stack made with capacity 64"       harmless suffix/segments.go 's/make\(\[\]item, 1, 16\)/make([]item, 1, 64)/'
mutant "harmless: Segments checks reordered (De Morgan free)" harmless suffix/segments.go 's/if maxLen < minLen \|\| len\(sa\) == 0 \|\| minLen > math\.MaxInt32 \{/if minLen > maxLen || len(sa) == 0 || minLen > math.MaxInt32 {/'
# --- constructs the value model cannot express: the extractor must refuse
mutant "alias: _lcp writes through a second slice variable"  extract suffix/lcp.go 's/(func _lcp\(.*?\{\n)/${1}\tout := lcp\n/s; s/\t\tlcp\[k\] = l\n/\t\tout[k] = l\n/'
mutant "InvertSA re-assigns the parameter it writes"         extract suffix/lcp.go 's/(\tfor j, i := range sa \{\n)/\tsainv = sainv[:len(sa)]\n${1}/'
# --- bitset.go
mutant "bitset.clear: off not reset"                         proof bitset.go 's/(func \(b \*bitset\) clear\(\) \{\n\tb\.a = b\.a\[:0\]\n)\tb\.off = 0\n/${1}/'
mutant "bitset.memberBefore: mask includes bit i"            proof bitset.go 's/m := uint64\(1\)<<uint\(i&63\) - 1/m := uint64(2)<<uint(i\&63) - 1/'
mutant "bitset.memberBefore: k <= len(b.a) (word boundary)"  proof bitset.go 's/(func \(b \*bitset\) memberBefore.*?)if k < len\(b\.a\) \{/${1}if k <= len(b.a) {/s'
mutant "bitset.memberBefore: 64 - LeadingZeros64 in the loop" proof bitset.go 's/\t\tj = 63 - bits\.LeadingZeros64\(b\.a\[k\]\)/\t\tj = 64 - bits.LeadingZeros64(b.a[k])/'
mutant "bitset.memberBefore: result (b.off+k)<<6 + j + 1"    proof bitset.go 's/(func \(b \*bitset\) memberBefore.*?)return \(b\.off\+k\)<<6 \+ j, true/${1}return (b.off+k)<<6 + j + 1, true/s'
mutant "bitset.memberAfter: i++ dropped"                     proof bitset.go 's/(func \(b \*bitset\) memberAfter.*?\{\n)\ti\+\+\n/${1}/s'
mutant "bitset.memberAfter: j <= 64"                         proof bitset.go 's/if j < 64 \{/if j <= 64 {/'
mutant "bitset.memberAfter: k > len(b.a) in the loop"        proof bitset.go 's/(\t\tk\+\+\n\t\tif k) >= (len\(b\.a\) \{)/${1} > ${2}/'
mutant "harmless: memberAfter mask written i&63"             harmless bitset.go 's/uint\(i&bsMask\)/uint(i\&63)/'
mutant "harmless: memberBefore -1 branch arms swapped"       harmless bitset.go 's/(func \(b \*bitset\) memberBefore.*?)if k < len\(b\.a\) \{\n(.*?)\t\} else \{\n(.*?)\t\}\n\tfor/${1}if k >= len(b.a) {\n${3}\t} else {\n${2}\t}\n\tfor/s'

echo "== summary: $good of $total mutants behaved as expected, $bad did not"
[ $bad -eq 0 ]
