// SPDX-FileCopyrightText: © 2021 Ulrich Kunitz
//
// SPDX-License-Identifier: BSD-3-Clause

package lz

import (
	"errors"
	"fmt"
	"io"
)

// DecoderConfig contains the parameters for the [DecoderBuffer] and [Decoder] types.
// The WindowSize must be smaller than the BufferSize. It is recommended to set
// the BufferSize twice as large as the WindowSize.
type DecoderConfig struct {
	// Size of the sliding dictionary window in bytes.
	WindowSize int
	// Maximum size of the buffer in bytes.
	BufferSize int
}

// SetDefaults sets the zero values in DecConfig to default values. Note that
// the default BufferSize is twice the WindowSize.
func (cfg *DecoderConfig) SetDefaults() {
	if cfg.WindowSize == 0 {
		cfg.WindowSize = 8 * miB
	}
	if cfg.BufferSize == 0 {
		cfg.BufferSize = 2 * cfg.WindowSize
	}
}

// Verify checks the parameters of the [DecConfig] value and returns an error
// for the first problem.
func (cfg *DecoderConfig) Verify() error {
	if !(1 <= cfg.BufferSize && int64(cfg.BufferSize) <= maxUint32) {
		return fmt.Errorf(
			"lz.DecConfig: BufferSize=%d out of range [%d..%d]",
			cfg.BufferSize, 1, int64(maxUint32))
	}
	if !(0 <= cfg.WindowSize && cfg.WindowSize < cfg.BufferSize) {
		return fmt.Errorf(
			"lz.DecConfig: WindowSize=%d out of range [%d..BufferSize=%d)",
			cfg.WindowSize, 0, cfg.BufferSize)
	}
	return nil
}

// DecoderBuffer provides a simple buffer for the decoding of LZ77 sequences.
type DecoderBuffer struct {
	// Data is the actual buffer. The end of the slice is also the head of
	// the dictionary window.
	Data []byte
	// R tracks the position of the reads from the buffer and must be less
	// or equal the length of the Data slice.
	R int
	// Off records the total offset and marks the end of the Data slice,
	// which is also the end of the dictionary window.
	Off int64

	// DecConfig provides the configuration parameters WindowSize and
	// BufferSize.
	DecoderConfig
}

// Init initializes the [DecoderBuffer] value.
func (b *DecoderBuffer) Init(cfg DecoderConfig) error {
	cfg.SetDefaults()
	var err error
	if err = cfg.Verify(); err != nil {
		return err
	}
	*b = DecoderBuffer{
		Data:          b.Data[:0],
		DecoderConfig: cfg,
	}
	if cap(b.Data) > b.BufferSize {
		b.BufferSize = cap(b.Data)
	}
	return nil
}

// Reset puts the DecoderBuffer back to the initialized status.
func (b *DecoderBuffer) Reset() {
	*b = DecoderBuffer{
		Data:          b.Data[:0],
		DecoderConfig: b.DecoderConfig,
	}
	if cap(b.Data) > b.BufferSize {
		b.BufferSize = cap(b.Data)
	}
}

// ByteAtEnd returns byte at end of the buffer
func (b *DecoderBuffer) ByteAtEnd(off int) byte {
	i := len(b.Data) - off
	if !(0 <= i && i < len(b.Data)) {
		return 0
	}
	return b.Data[i]
}

// Read reads decoded data from the buffer.
func (b *DecoderBuffer) Read(p []byte) (n int, err error) {
	n = copy(p, b.Data[b.R:])
	b.R += n
	return n, nil
}

// WriteTo writes the decoded data to the writer.
func (b *DecoderBuffer) WriteTo(w io.Writer) (n int64, err error) {
	p := b.Data[b.R:]
	k, err := w.Write(p)
	b.R += k
	if err == nil && k < len(p) {
		err = io.ErrShortWrite
	}
	return int64(k), err
}

// shrink shifts data in the buffer and returns the additional space in bytes
// that has been made available. Note that shrink will return 0 if it cannot
// provide more space.
//
// The method is private because it is called by the various write methods
// automatically.
func (b *DecoderBuffer) shrink(g int) int {
	if b.BufferSize < cap(b.Data) {
		b.BufferSize = cap(b.Data)
		if g <= b.BufferSize {
			return 0
		}
	}
	delta := doz(len(b.Data), b.WindowSize)
	if b.R < delta {
		delta = b.R
	}
	if delta == 0 {
		return 0
	}
	k := copy(b.Data, b.Data[delta:])
	b.Data = b.Data[:k]
	b.R -= delta
	return delta
}

// WriteByte writes a single byte into the buffer.
func (b *DecoderBuffer) WriteByte(c byte) error {
	g := len(b.Data) + 1
	if g > b.BufferSize {
		if g -= b.shrink(g); g > b.BufferSize {
			return ErrFullBuffer
		}
	}
	b.Data = append(b.Data, c)
	b.Off++
	return nil
}

// Write puts the slice into the buffer. The method will write the slice only
// fully or will return 0, [ErrFullBuffer].
func (b *DecoderBuffer) Write(p []byte) (n int, err error) {
	n = len(p)
	g := len(b.Data) + n
	if g > b.BufferSize {
		if g -= b.shrink(g); g > b.BufferSize {
			return 0, ErrFullBuffer
		}
	}
	b.Data = append(b.Data, p...)
	b.Off += int64(n)
	return n, nil
}

// WriteMatch puts the match at the end of the buffer. The match will only be
// written completely or n=0 and [ErrFullBuffer] will be returned.
func (b *DecoderBuffer) WriteMatch(m, o uint32) (n int, err error) {
	if o == 0 && m > 0 {
		return 0, errOffset
	}
	winLen := len(b.Data)
	if winLen > b.WindowSize {
		winLen = b.WindowSize
	}
	if int64(o) > int64(winLen) {
		return 0, errOffset
	}
	_m := int64(m)
	if a := b.BufferSize - len(b.Data); _m > int64(a) {
		b.shrink(int(_m) + len(b.Data))
		if a = b.BufferSize - len(b.Data); _m > int64(a) {
			if _m > int64(b.BufferSize-b.WindowSize) {
				// The match will never fit into the buffer.
				return 0, errMatchLen
			}
			return 0, ErrFullBuffer
		}
	}
	n = int(_m)
	off := int(o)
	for n > off {
		b.Data = append(b.Data, b.Data[len(b.Data)-off:]...)
		n -= off
		if n <= off {
			break
		}
		off <<= 1
	}
	// n <= off
	j := len(b.Data) - off
	b.Data = append(b.Data, b.Data[j:j+n]...)
	b.Off += _m
	return int(_m), nil
}

var (
	errLitLen   = errors.New("lz: LitLen out of range")
	errMatchLen = errors.New("lz: MatchLen out of range")
	errOffset   = errors.New("lz: Offset out of range")
)

// WriteBlock writes sequences from the block into the buffer. A single sequence
// will be written in an atomic manner, because the block value will not be
// modified. If there is not enough space in the buffer [ErrFullBuffer] will be
// returned.
//
// We are not limiting the growth of the array to BufferSize. We may consume
// more memory but we are faster.
//
// The return values n, k and l provide the number of bytes written into the
// buffer, the number of sequences as well as the number of literals.
func (b *DecoderBuffer) WriteBlock(blk Block) (n, k, l int, err error) {
	ld := len(b.Data)
	ll := len(blk.Literals)
	var s Seq
	for k, s = range blk.Sequences {
		if int64(s.LitLen) > int64(len(blk.Literals)) {
			err = errLitLen
			goto end
		}
		if s.Offset == 0 && s.MatchLen > 0 {
			err = errOffset
			goto end
		}
		winLen := len(b.Data) + int(s.LitLen)
		if winLen > b.WindowSize {
			winLen = b.WindowSize
		}
		if int64(s.Offset) > int64(winLen) {
			err = errOffset
			goto end
		}
		g := int64(s.LitLen) + int64(s.MatchLen)
		if a := b.BufferSize - len(b.Data); g > int64(a) {
			ld -= b.shrink(int(g) + len(b.Data))
			if a = b.BufferSize - len(b.Data); g > int64(a) {
				if g > int64(b.BufferSize-b.WindowSize) {
					// The sequence will never fit into the buffer.
					err = errMatchLen
				} else {
					err = ErrFullBuffer
				}
				goto end
			}
		}
		b.Data = append(b.Data, blk.Literals[:s.LitLen]...)
		blk.Literals = blk.Literals[s.LitLen:]
		n := int(s.MatchLen)
		off := int(s.Offset)
		for n > off {
			b.Data = append(b.Data, b.Data[len(b.Data)-off:]...)
			n -= off
			if n <= off {
				break
			}
			off <<= 1
		}
		// n <= off
		j := len(b.Data) - off
		b.Data = append(b.Data, b.Data[j:j+n]...)
	}
	k = len(blk.Sequences)
	{ // block required to allow goto over it.
		g := len(b.Data) + len(blk.Literals)
		if g > b.BufferSize {
			delta := b.shrink(g)
			ld -= delta
			if g -= delta; g > b.BufferSize {
				err = ErrFullBuffer
				goto end
			}
		}
	}
	b.Data = append(b.Data, blk.Literals...)
	blk.Literals = blk.Literals[:0]
end:
	n = len(b.Data) - ld
	b.Off += int64(n)
	l = ll - len(blk.Literals)
	return n, k, l, err
}

// Decoder decodes LZ77 sequences and writes them into the writer.
type Decoder struct {
	buf DecoderBuffer
	w   io.Writer
}

// NewDecoder creates a new decoder. The first issue with the configuration
// will be reported.
func NewDecoder(w io.Writer, cfg DecoderConfig) (*Decoder, error) {
	d := new(Decoder)
	err := d.Init(w, cfg)
	return d, err
}

// Init initializes the decoder. The first issue of the configuration value will
// be reported as error.
func (d *Decoder) Init(w io.Writer, cfg DecoderConfig) error {
	var err error
	if err = d.buf.Init(cfg); err != nil {
		return err
	}
	d.w = w
	return nil
}

// Reset initializes the decoder with a new io.Writer.
func (d *Decoder) Reset(w io.Writer) {
	d.buf.Reset()
	d.w = w
}

// Flush writes all remaining data in the buffer to the underlying writer.
func (d *Decoder) Flush() error {
	_, err := d.buf.WriteTo(d.w)
	return err
}

// WriteByte writes a single byte into the decoder.
func (d *Decoder) WriteByte(c byte) error {
	var err error
	for {
		err = d.buf.WriteByte(c)
		if err != ErrFullBuffer {
			return err
		}
		_, err = d.buf.WriteTo(d.w)
		if err != nil {
			return err
		}
	}
}

// Write writes the slice into the buffer.
func (d *Decoder) Write(p []byte) (n int, err error) {
	for len(p) > 0 {
		// A chunk of this size fits always after the buffer has been
		// flushed.
		q := p
		if m := d.buf.BufferSize - d.buf.WindowSize; len(q) > m {
			q = q[:m]
		}
		k, err := d.buf.Write(q)
		n += k
		p = p[k:]
		if err == nil {
			continue
		}
		if err != ErrFullBuffer {
			return n, err
		}
		if _, err = d.buf.WriteTo(d.w); err != nil {
			return n, err
		}
	}
	return n, nil
}

// WriteBlock writes the block into the decoder. It returns the number n of
// bytes, the number k of parsers and the number l of literal bytes written
// to the decoder.
func (d *Decoder) WriteBlock(blk Block) (n, k, l int, err error) {
	for {
		nn, kk, ll, err := d.buf.WriteBlock(blk)
		n += nn
		k += kk
		l += ll
		if err != ErrFullBuffer {
			return n, k, l, err
		}
		blk.Sequences = blk.Sequences[kk:]
		blk.Literals = blk.Literals[ll:]
		if len(blk.Sequences) == 0 {
			// Only the trailing literals remain, which can be
			// written in pieces.
			m, err := d.Write(blk.Literals)
			return n + m, k, l + m, err
		}
		_, err = d.buf.WriteTo(d.w)
		if err != nil {
			return n, k, l, err
		}
	}
}
