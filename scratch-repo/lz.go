// SPDX-FileCopyrightText: © 2021 Ulrich Kunitz
//
// SPDX-License-Identifier: BSD-3-Clause

// Package lz supports encoding and decoding of LZ77 sequences. A sequence, as
// described in the [Zstandard specification], consists of a literal copy
// command followed by a match copy command. The literal copy command is
// described by the length in literal bytes to be copied and the match command
// consists of the distance of the match to copy and the length of the match in
// bytes.
//
// A [Parser] is an encoder that converts a byte stream into blocks of
// sequences. A [Decoder] converts the block of sequences into the original
// decompressed byte stream.
//
// The actual basic Parser provided by the package support the SeqBuffer
// interface, which has methods for writing and reading from the buffer. A pure
// Parser is provided by the [Wrap] function.
//
// The module provides multiple parser implementations that provide different
// combinations of encoding speed  and compression ratios. Usually a slower
// parser will generate a better compression ratio.
//
// The [Decoder] slides the decompression window through a larger buffer
// implemented by [DecoderBuffer].
//
// The library supports the implementation of parsers outside of this package
// that can then be used by real compressors as provided by the
// [github.com/ulikunitz/xz] module.
//
// [Zstandard specification]: https://github.com/facebook/zstd/blob/dev/doc/zstd_compression_format.md
package lz

import (
	"encoding/json"
	"errors"
	"fmt"
	"io"
	"reflect"
)

// Kilobytes and Megabyte defined as the more precise kibibyte and mebibyte.
const (
	kiB = 1 << 10
	miB = 1 << 20
)

// Seq represents a single Lempel-Ziv 77 Parse describing a match,
// consisting of the offset, the length of the match and the number of
// literals preceding the match. The Aux field can be used on upper
// layers to store additional information.
type Seq struct {
	LitLen   uint32
	MatchLen uint32
	Offset   uint32
	Aux      uint32
}

// Len returns the complete length of the sequence.
func (s Seq) Len() int64 {
	return int64(s.MatchLen) + int64(s.LitLen)
}

// Block stores sequences and literals. Note that the sequences stores in the
// Sequences slice might not consume the whole Literals slice. They must be
// added to the decoded text after all the sequences have been decoded and their
// content added to the decoder buffer.
type Block struct {
	Sequences []Seq
	Literals  []byte
}

// Len computes the length of the block in bytes. It assumes that the sum of the
// literal lengths in the sequences doesn't exceed that length of the Literals
// byte slice.
func (b *Block) Len() int64 {
	n := int64(len(b.Literals))
	for _, s := range b.Sequences {
		n += int64(s.MatchLen)
	}
	return n
}

// Flags for the sequence function stored in the block structure.
const (
	// NoTrailingLiterals tells a parser that trailing literals don't
	// need to be included in the block.
	NoTrailingLiterals = 1 << iota
)

// ErrEmptyBuffer indicates that no more data is available in the buffer. It
// will be returned by the Parse method of [Parser].
var ErrEmptyBuffer = errors.New("lz: no more data in buffer")

// ErrFullBuffer indicates that the buffer is full. It will be returned by the
// Write and ReadFrom methods of the [Parser].
var ErrFullBuffer = errors.New("lz: buffer is full")

// Parser provides the basic interface of a Parser. Most of the functions are
// provided by the underlying [ParserBuffer].
type Parser interface {
	Parse(blk *Block, flags int) (n int, err error)
	Reset(data []byte) error
	Shrink() int
	ParserConfig() ParserConfig
	BufferConfig() BufConfig
	Write(p []byte) (n int, err error)
	ReadFrom(r io.Reader) (n int64, err error)
	ReadAt(p []byte, off int64) (n int, err error)
	ByteAt(off int64) (c byte, err error)
}

// ParserConfig generates  new parser instances. Note that the parser doesn't
// use ShrinkSize and BufferSize directly but we added it here, so it can be
// used for the WriteParser which provides a WriteCloser interface.
type ParserConfig interface {
	NewParser() (s Parser, err error)
	BufConfig() BufConfig
	SetBufConfig(bc BufConfig)
	SetDefaults()
	Verify() error
	Clone() ParserConfig
}

// BufConfig describes the various sizes relevant for the buffer. Note that
// ShrinkSize should be significantly smaller than BufferSize and at most 50% of
// it. The WindowSize is independent of the BufferSize, but usually the
// BufferSize should be larger or equal the WindowSize. The actual sequencing
// happens in blocks. A typical BlockSize 128 kByte as used by ZStandard
// specification.
type BufConfig struct {
	ShrinkSize int
	BufferSize int

	WindowSize int
	BlockSize  int
}

// BufferConfig returns itself, which will be used by the structures embedding
// the value.
func (cfg *BufConfig) BufferConfig() BufConfig { return *cfg }

func iVal(v reflect.Value, name string) int {
	return int(v.FieldByName(name).Int())
}

// bufferConfig reads the BufConfig from the parser configuration.
func bufferConfig(x ParserConfig) BufConfig {
	v := reflect.Indirect(reflect.ValueOf(x))
	bc := BufConfig{
		ShrinkSize: iVal(v, "ShrinkSize"),
		BufferSize: iVal(v, "BufferSize"),
		WindowSize: iVal(v, "WindowSize"),
		BlockSize:  iVal(v, "BlockSize"),
	}
	return bc
}

func setIVal(v reflect.Value, name string, i int) {
	v.FieldByName(name).SetInt(int64(i))
}

func setBufferConfig(x ParserConfig, bc BufConfig) {
	v := reflect.Indirect(reflect.ValueOf(x))
	setIVal(v, "ShrinkSize", bc.ShrinkSize)
	setIVal(v, "BufferSize", bc.BufferSize)
	setIVal(v, "WindowSize", bc.WindowSize)
	setIVal(v, "BlockSize", bc.BlockSize)
}

// parserConfigUnion must contain all fields for all parsers. Fields with the
// same name must have the same type.
type parserConfigUnion struct {
	Type        string
	ShrinkSize  int    `json:",omitempty"`
	BufferSize  int    `json:",omitempty"`
	WindowSize  int    `json:",omitempty"`
	BlockSize   int    `json:",omitempty"`
	InputLen    int    `json:",omitempty"`
	HashBits    int    `json:",omitempty"`
	InputLen1   int    `json:",omitempty"`
	HashBits1   int    `json:",omitempty"`
	InputLen2   int    `json:",omitempty"`
	HashBits2   int    `json:",omitempty"`
	MinMatchLen int    `json:",omitempty"`
	MaxMatchLen int    `json:",omitempty"`
	BucketSize  int    `json:",omitempty"`
	Cost        string `json:",omitempty"`
}

func unmarshalJSON(cfg ParserConfig, typ string, p []byte) error {
	var err error
	var s parserConfigUnion
	if err = json.Unmarshal(p, &s); err != nil {
		return err
	}
	if s.Type != typ {
		return fmt.Errorf("lz: Type property %q is not %q",
			s.Type, typ)
	}
	v := reflect.Indirect(reflect.ValueOf(cfg))
	vt := v.Type()
	w := reflect.ValueOf(s)
	n := v.NumField()
	for i := 0; i < n; i++ {
		name := vt.Field(i).Name
		y := w.FieldByName(name)
		v.Field(i).Set(y)
	}
	return nil
}

func marshalJSON(cfg ParserConfig, typ string) (p []byte, err error) {
	var s parserConfigUnion
	s.Type = typ
	v := reflect.Indirect(reflect.ValueOf(cfg))
	vt := v.Type()
	w := reflect.Indirect(reflect.ValueOf(&s))
	n := v.NumField()
	for i := 0; i < n; i++ {
		name := vt.Field(i).Name
		y := w.FieldByName(name)
		y.Set(v.Field(i))
	}
	p, err = json.Marshal(&s)
	return p, err
}

// Methods to the types defined above.

// Verify checks the buffer configuration. Note that window size and block size
// are independent of the rest of the other sizes only the shrink size must be
// less than the buffer size.
func (cfg *BufConfig) Verify() error {
	// We are taking care of the margin for tha hash parsers.
	maxSize := int64(maxUint32) - 7
	if int64(maxInt) < maxSize {
		maxSize = maxInt - 7
	}
	if !(1 <= cfg.BufferSize && int64(cfg.BufferSize) <= maxSize) {
		return fmt.Errorf("lz.BufferConfig: BufferSize=%d out of range [%d..%d]",
			cfg.BufferSize, 1, maxSize)
	}
	if !(0 <= cfg.ShrinkSize && cfg.ShrinkSize < cfg.BufferSize) {
		return fmt.Errorf("lz.BufferConfig: ShrinkSize=%d out of range [0..BufferSize=%d]",
			cfg.ShrinkSize, cfg.BufferSize)
	}
	if !(0 <= cfg.WindowSize && int64(cfg.WindowSize) <= maxSize) {
		return fmt.Errorf("lz.BufferConfig: WindowSize=%d out of range [%d..%d]",
			cfg.WindowSize, 0, maxSize)
	}
	if !(1 <= cfg.BlockSize && int64(cfg.BlockSize) <= maxSize) {
		return fmt.Errorf("lz.BufferConfig: cfg.BLockSize=%d out of range [%d..%d]",
			cfg.BlockSize, 1, maxSize)
	}
	return nil
}

// SetDefaults sets the defaults for the various size values. The defaults are
// given below.
//
//	BufferSize:   8 MiB
//	ShrinkSize:  32 KiB (or half of BufferSize, if it is smaller than 64 KiB)
//	WindowSize: BufferSize
//	BlockSize:  128 KiB
func (cfg *BufConfig) SetDefaults() {
	if cfg.WindowSize == 0 {
		cfg.WindowSize = 8 * miB
	}
	if cfg.BufferSize == 0 {
		cfg.BufferSize = cfg.WindowSize
	}
	if cfg.ShrinkSize == 0 {
		if cfg.BufferSize < 64*kiB {
			cfg.ShrinkSize = cfg.BufferSize >> 1
		} else {
			cfg.ShrinkSize = 32 * kiB
		}
	}
	if cfg.BlockSize == 0 {
		cfg.BlockSize = 128 * kiB
	}
}

// ParseJSON parses a JSON structure
func ParseJSON(p []byte) (s ParserConfig, err error) {
	var v struct{ Type string }
	if err = json.Unmarshal(p, &v); err != nil {
		return nil, err
	}

	switch v.Type {
	case "HP":
		var hpCfg HPConfig
		if err = json.Unmarshal(p, &hpCfg); err != nil {
			return nil, err
		}
		return &hpCfg, nil
	case "BHP":
		var bhpCfg BHPConfig
		if err = json.Unmarshal(p, &bhpCfg); err != nil {
			return nil, err
		}
		return &bhpCfg, nil
	case "DHP":
		var dhpCfg DHPConfig
		if err = json.Unmarshal(p, &dhpCfg); err != nil {
			return nil, err
		}
		return &dhpCfg, nil
	case "BDHP":
		var bdhpCfg BDHPConfig
		if err = json.Unmarshal(p, &bdhpCfg); err != nil {
			return nil, err
		}
		return &bdhpCfg, nil
	case "BUP":
		var buhpCfg BUPConfig
		if err = json.Unmarshal(p, &buhpCfg); err != nil {
			return nil, err
		}
		return &buhpCfg, nil
	case "GSAP":
		var gsapCfg GSAPConfig
		if err = json.Unmarshal(p, &gsapCfg); err != nil {
			return nil, err
		}
		return &gsapCfg, nil
	case "OSAP":
		var osapCfg OSAPConfig
		if err = json.Unmarshal(p, &osapCfg); err != nil {
			return nil, err
		}
		return &osapCfg, nil
	default:
		return nil, fmt.Errorf("lz: unknown parser name %q", v.Type)
	}
}
