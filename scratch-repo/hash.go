// SPDX-FileCopyrightText: © 2021 Ulrich Kunitz
//
// SPDX-License-Identifier: BSD-3-Clause

package lz

import (
	"errors"
	"fmt"
	"reflect"
)

// prime is used by [hashValue].
const prime = 9920624304325388887

// hashValue computes a hash from the string stored in x with the first byte
// stored on the lowest bits. The shift values ensures that only 64 - shift bits
// potential non-zero bits remain.
func hashValue(x uint64, shift uint) uint32 {
	return uint32((x * prime) >> shift)
}

// hashEntry is used for hashEntry. The value field allows a fast check whether
// a match has been found, which is cache-optimized.
type hashEntry struct {
	pos   uint32
	value uint32
}

// The hash implements a match finder and can be directly used in a parser.
type hash struct {
	table    []hashEntry
	mask     uint64
	shift    uint
	inputLen int
}

// init initializes the hash structure.
func (h *hash) init(inputLen, hashBits int) error {
	if !(2 <= inputLen && inputLen <= 8) {
		return fmt.Errorf("lz: inputLen must be in range [2,8]")
	}
	maxHashBits := 24
	if t := 8 * inputLen; t < maxHashBits {
		maxHashBits = t
	}
	if !(0 <= hashBits && hashBits <= maxHashBits) {
		return fmt.Errorf("lz: hashBits=%d; must be <= %d",
			hashBits, maxHashBits)
	}

	n := 1 << hashBits
	if n <= cap(h.table) {
		h.table = h.table[:n]
		for i := range h.table {
			h.table[i] = hashEntry{}
		}
	} else {
		h.table = make([]hashEntry, n)
	}

	h.mask = 1<<(uint(inputLen)*8) - 1
	h.shift = 64 - uint(hashBits)
	h.inputLen = inputLen

	return nil
}

// reset clears the hash table.
func (h *hash) reset() {
	for i := range h.table {
		h.table[i] = hashEntry{}
	}
}

// shiftOffsets removes delta from all positions in the hash table. Entries with
// positions smaller than delta will be cleared.
func (h *hash) shiftOffsets(delta uint32) {
	if delta == 0 {
		return
	}
	for i, e := range h.table {
		if e.pos < delta {
			h.table[i] = hashEntry{}
		} else {
			h.table[i].pos = e.pos - delta
		}
	}
}

// hashConfig provides the configuration for the hash match finder.
type hashConfig struct {
	InputLen int
	HashBits int
}

func hasVal(v reflect.Value, name string) bool {
	_, ok := v.Type().FieldByName(name)
	return ok
}

var errNoHash = errors.New("lz: cfg doesn't support a single hash")

func hashCfg(cfg ParserConfig) (hcfg hashConfig, err error) {
	v := reflect.Indirect(reflect.ValueOf(cfg))
	if !(hasVal(v, "InputLen") && hasVal(v, "HashBits")) {
		return hashConfig{}, errNoHash
	}
	hcfg = hashConfig{
		InputLen: iVal(v, "InputLen"),
		HashBits: iVal(v, "HashBits"),
	}
	return hcfg, nil
}

func setHashCfg(cfg ParserConfig, hcfg hashConfig) error {
	v := reflect.Indirect(reflect.ValueOf(cfg))
	if !(hasVal(v, "InputLen") && hasVal(v, "HashBits")) {
		return errNoHash
	}
	setIVal(v, "InputLen", hcfg.InputLen)
	setIVal(v, "HashBits", hcfg.HashBits)
	return nil
}

// SetDefaults sets the defaults of the HashConfig. The default input length
// is 3 and the hash bits are 18.
func (cfg *hashConfig) SetDefaults() {
	if cfg.InputLen == 0 {
		cfg.InputLen = 3
	}
	if cfg.HashBits == 0 {
		cfg.HashBits = 18
	}
}

// Verify checks the configuration parameters.
func (cfg *hashConfig) Verify() error {
	if !(2 <= cfg.InputLen && cfg.InputLen <= 8) {
		return fmt.Errorf("lz: InputLen must be in range [2..8]")
	}
	maxHashBits := 24
	if t := 8 * cfg.InputLen; t < maxHashBits {
		maxHashBits = t
	}
	if !(0 <= cfg.HashBits && cfg.HashBits <= maxHashBits) {
		return fmt.Errorf("lz: HashBits=%d; must be <= %d",
			cfg.HashBits, maxHashBits)
	}
	return nil
}

type hashDictionary struct {
	ParserBuffer
	hash
}

func (f *hashDictionary) init(cfg hashConfig, bcfg BufConfig) error {
	var err error
	if err = f.ParserBuffer.Init(bcfg); err != nil {
		return err
	}
	cfg.SetDefaults()
	if err = cfg.Verify(); err != nil {
		return err
	}
	err = f.hash.init(cfg.InputLen, cfg.HashBits)
	return err
}

func (f *hashDictionary) Reset(data []byte) error {
	var err error
	if err = f.ParserBuffer.Reset(data); err != nil {
		return err
	}
	f.hash.reset()
	return nil
}

func (f *hashDictionary) Shrink() int {
	delta := f.ParserBuffer.Shrink()
	if delta > 0 {
		f.hash.shiftOffsets(uint32(delta))
	}
	return delta
}

// ProcessSegment adds the hashes between position a and b into the hash.
func (f *hashDictionary) processSegment(a, b int) {
	if a < 0 {
		a = 0
	}
	c := len(f.Data) - f.inputLen + 1
	if c < b {
		b = c
	}
	if b <= 0 {
		return
	}

	_p := f.Data[:b+7]
	for i := a; i < b; i++ {
		x := _getLE64(_p[i:]) & f.mask
		f.table[hashValue(x, f.shift)] = hashEntry{
			pos:   uint32(i),
			value: uint32(x),
		}
	}
}

type dhConfig struct {
	H1 hashConfig
	H2 hashConfig
}

var errNoDoubleHash = errors.New(
	"lz: parser config doesn't support double hash")

func dhCfg(cfg ParserConfig) (c dhConfig, err error) {
	v := reflect.Indirect(reflect.ValueOf(cfg))
	var f bool
	f = hasVal(v, "InputLen1")
	f = f && hasVal(v, "InputLen2")
	f = f && hasVal(v, "HashBits1")
	f = f && hasVal(v, "HashBits2")
	if !f {
		return dhConfig{}, errNoDoubleHash
	}
	c = dhConfig{
		H1: hashConfig{
			InputLen: iVal(v, "InputLen1"),
			HashBits: iVal(v, "HashBits1"),
		},
		H2: hashConfig{
			InputLen: iVal(v, "InputLen2"),
			HashBits: iVal(v, "HashBits2"),
		},
	}
	return c, nil
}

func setDHCfg(cfg ParserConfig, c dhConfig) error {
	v := reflect.Indirect(reflect.ValueOf(cfg))
	var f bool
	f = hasVal(v, "InputLen1")
	f = f && hasVal(v, "InputLen2")
	f = f && hasVal(v, "HashBits1")
	f = f && hasVal(v, "HashBits2")
	if !f {
		return errNoDoubleHash
	}
	setIVal(v, "InputLen1", c.H1.InputLen)
	setIVal(v, "HashBits1", c.H1.HashBits)
	setIVal(v, "InputLen2", c.H2.InputLen)
	setIVal(v, "HashBits2", c.H2.HashBits)
	return nil
}

func (cfg *dhConfig) SetDefaults() {
	cfg.H1.SetDefaults()
	if cfg.H2.InputLen == 0 {
		if cfg.H1.InputLen < 5 {
			cfg.H2.InputLen = 6
		} else {
			cfg.H2.InputLen = 8
		}
	}
	cfg.H2.SetDefaults()
}

func (cfg *dhConfig) Verify() error {
	var err error
	if err = cfg.H1.Verify(); err != nil {
		return err
	}
	if err = cfg.H2.Verify(); err != nil {
		return err
	}
	il1, il2 := cfg.H1.InputLen, cfg.H2.InputLen
	if !(il1 < il2) {
		return fmt.Errorf("lz: inputLen1=%d must be < inputLen2=%d",
			il1, il2)
	}

	return nil
}

type doubleHashDictionary struct {
	ParserBuffer
	h1 hash
	h2 hash
}

func (f *doubleHashDictionary) init(cfg dhConfig, bcfg BufConfig) error {
	var err error
	if err = f.ParserBuffer.Init(bcfg); err != nil {
		return err
	}
	cfg.SetDefaults()
	if err = cfg.Verify(); err != nil {
		return err
	}
	if err = f.h1.init(cfg.H1.InputLen, cfg.H1.HashBits); err != nil {
		return err
	}
	err = f.h2.init(cfg.H2.InputLen, cfg.H2.HashBits)
	return err
}

func (f *doubleHashDictionary) Reset(data []byte) error {
	var err error
	if err = f.ParserBuffer.Reset(data); err != nil {
		return err
	}
	f.h1.reset()
	f.h2.reset()
	return nil
}

func (f *doubleHashDictionary) Shrink() int {
	delta := f.ParserBuffer.Shrink()
	if delta > 0 {
		f.h1.shiftOffsets(uint32(delta))
		f.h2.shiftOffsets(uint32(delta))
	}
	return delta
}

// processSegment adds the hashes between position a and b into the hash.
func (f *doubleHashDictionary) processSegment(a, b int) {
	if a < 0 {
		a = 0
	}
	h1, h2 := &f.h1, &f.h2

	b1, c1 := b, len(f.Data)-h1.inputLen+1
	if c1 < b1 {
		b1 = c1
	}
	if b1 < 0 {
		b1 = 0
	}
	b2, c2 := b, len(f.Data)-h2.inputLen+1
	if c2 < b2 {
		b2 = c2
	}
	if b2 < 0 {
		b2 = 0
	}

	_p := f.Data[:b1+7]
	for i := a; i < b2; i++ {
		x := _getLE64(_p[i:])
		x1, x2 := x&h1.mask, x&h2.mask
		h1.table[hashValue(x1, h1.shift)] = hashEntry{
			pos:   uint32(i),
			value: uint32(x1),
		}
		h2.table[hashValue(x2, h2.shift)] = hashEntry{
			pos:   uint32(i),
			value: uint32(x2),
		}
	}
	for i := b2; i < b1; i++ {
		x := _getLE64(_p[i:]) & h1.mask
		h1.table[hashValue(x, h1.shift)] = hashEntry{
			pos:   uint32(i),
			value: uint32(x),
		}
	}
}
