//go:build verif

package lz

// Exports for the verification harness in /verif. This file is only compiled
// with the build tag "verif"; it adds no behaviour to the package.

// VerifLcp exposes lcp.
func VerifLcp(p, q []byte) int { return lcp(p, q) }

// VerifLcs exposes lcs.
func VerifLcs(p, q []byte) int { return lcs(p, q) }

// VerifGetLE64 exposes getLE64.
func VerifGetLE64(p []byte) uint64 { return getLE64(p) }

// VerifHashValue exposes hashValue.
func VerifHashValue(x uint64, shift uint) uint32 { return hashValue(x, shift) }

// VerifPrime exposes the hash multiplier.
const VerifPrime = prime

// VerifBitset wraps the unexported bitset type.
type VerifBitset struct{ b bitset }

// Insert inserts the given members.
func (v *VerifBitset) Insert(i ...int) { v.b.insert(i...) }

// Clear removes all members.
func (v *VerifBitset) Clear() { v.b.clear() }

// MemberBefore returns the largest member less than i.
func (v *VerifBitset) MemberBefore(i int) (int, bool) { return v.b.memberBefore(i) }

// MemberAfter returns the smallest member larger than i.
func (v *VerifBitset) MemberAfter(i int) (int, bool) { return v.b.memberAfter(i) }

// Slice returns all members in increasing order.
func (v *VerifBitset) Slice() []int { return v.b.slice() }

// VerifBuf gives access to the decoder's buffer.
func (d *Decoder) VerifBuf() *DecoderBuffer { return &d.buf }

// VerifParserBuffer gives read access to the ParserBuffer embedded in the
// parsers of this package (nil for other implementations of Parser).
func VerifParserBuffer(p Parser) *ParserBuffer {
	switch x := p.(type) {
	case *hashParser:
		return &x.ParserBuffer
	case *backwardHashParser:
		return &x.ParserBuffer
	case *doubleHashParser:
		return &x.ParserBuffer
	case *bdhp:
		return &x.ParserBuffer
	case *bucketParser:
		return &x.ParserBuffer
	case *gsap:
		return &x.ParserBuffer
	case *optSuffixArrayParser:
		return &x.ParserBuffer
	}
	return nil
}
