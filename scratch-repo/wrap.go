// SPDX-FileCopyrightText: © 2021 Ulrich Kunitz
//
// SPDX-License-Identifier: BSD-3-Clause

package lz

import (
	"io"
)

// Wrap combines a reader and a Parser and makes a Parser. The user
// doesn't need to take care of filling the Parser with additional data. The
// returned parser returns EOF if no further data is available.
//
// Wrap chooses the minimum of 32 kbyte or half of the window size as shrink
// size.
func Wrap(r io.Reader, seq Parser) *WrappedParser {
	return &WrappedParser{r: r, s: seq}
}

// WrappedParser is returned by the Wrap function. It provides the Parse
// method and reads the data required automatically from the stored reader.
type WrappedParser struct {
	r io.Reader
	s Parser
}

// Parse creates a block of sequences but reads the required data from the
// reader if necessary. The function returns io.EOF if no further data is
// available.
func (s *WrappedParser) Parse(blk *Block, flags int) (n int, err error) {
	for {
		n, err = s.s.Parse(blk, flags)
		if err != ErrEmptyBuffer {
			return n, err
		}
		s.s.Shrink()
		if k, err := s.s.ReadFrom(s.r); k == 0 {
			if err == ErrFullBuffer {
				panic("unexpected ErrFullBuffer")
			}
			return 0, err
		}
	}
}

// Reset puts the WrappedParser in its initial state and changes the wrapped
// reader to another reader.
func (s *WrappedParser) Reset(r io.Reader) {
	if err := s.s.Reset(nil); err != nil {
		panic(err)
	}
	s.r = r
}
