// SPDX-FileCopyrightText: © 2021 Ulrich Kunitz
//
// SPDX-License-Identifier: BSD-3-Clause

package lz

import (
	"math/bits"
)

// _getLE64 loads a uint64 value from the p field. This function will be inlined
// and compiled into a simple move on little-endian 64 bit architectures.
//
// If p is too small the function will panic.
func _getLE64(p []byte) uint64 {
	_ = p[7]
	return uint64(p[0]) | uint64(p[1])<<8 | uint64(p[2])<<16 |
		uint64(p[3])<<24 | uint64(p[4])<<32 | uint64(p[5])<<40 |
		uint64(p[6])<<48 | uint64(p[7])<<56
}

// _getLE32 loads a uint32 value from the p field. This function will be inlined
// and compiled into a simple move on little-endian architectures.
//
// If p is too small the function will panic.
func _getLE32(p []byte) uint32 {
	_ = p[3]
	return uint32(p[0]) | uint32(p[1])<<8 | uint32(p[2])<<16 |
		uint32(p[3])<<24
}

// getLE64 reads the 64-bit little-endian representation independent of the
// length of slice p.
func getLE64(p []byte) uint64 {
	switch len(p) {
	case 0:
		return 0
	case 1:
		return uint64(p[0])
	case 2:
		_ = p[1]
		return uint64(p[0]) | uint64(p[1])<<8
	case 3:
		_ = p[2]
		return uint64(p[0]) | uint64(p[1])<<8 | uint64(p[2])<<16
	case 4:
		return uint64(_getLE32(p))
	case 5:
		_ = p[4]
		return uint64(_getLE32(p)) | uint64(p[4])<<32
	case 6:
		_ = p[5]
		return uint64(_getLE32(p)) | uint64(p[4])<<32 |
			uint64(p[5])<<40
	case 7:
		_ = p[6]
		return uint64(_getLE32(p)) | uint64(p[4])<<32 |
			uint64(p[5])<<40 | uint64(p[6])<<48
	default:
		return _getLE64(p)
	}
}

// lcp computes the length of the longest common prefix between p and q.
func lcp(p, q []byte) int {
	if len(q) > len(p) {
		p, q = q, p
	}
	n := 0
	for len(q) >= 8 {
		x := _getLE64(p) ^ _getLE64(q)
		k := bits.TrailingZeros64(x) >> 3
		n += k
		if k < 8 {
			return n
		}
		q = q[8:]
		p = p[8:]
	}
	if len(q) >= 4 {
		x := _getLE32(p) ^ _getLE32(q)
		k := bits.TrailingZeros32(x) >> 3
		n += k
		if k < 4 {
			return n
		}
		q = q[4:]
		p = p[4:]
	}
	for i, b := range q {
		if p[i] != b {
			break
		}
		n++
	}
	return n
}

// lcs computes the longest common suffix
func lcs(p, q []byte) int {
	if len(q) > len(p) {
		p, q = q, p
	}
	p = p[len(p)-len(q):]
	n := 0
	var i int
	for i = len(q) - 8; i >= 0; i -= 8 {
		x := _getLE64(p[i:]) ^ _getLE64(q[i:])
		k := bits.LeadingZeros64(x) >> 3
		n += k
		if k < 8 {
			return n
		}
	}
	i += 8
	if i > 0 {
		s := (8 - i) << 3
		x := getLE64(q) << s
		x ^= getLE64(p) << s
		k := bits.LeadingZeros64(x) >> 3
		if k > i {
			k = i
		}
		n += k
	}
	return n
}
