// SPDX-FileCopyrightText: © 2021 Ulrich Kunitz
//
// SPDX-License-Identifier: BSD-3-Clause

package lz

const (
	intSize   = 32 << (^uint(0) >> 63)
	maxInt    = 1<<(intSize-1) - 1
	maxUint32 = 1<<32 - 1
)

// iverson returns 1 or 0 depending whether the boolean parameter is true or
// false.
func iverson(f bool) int {
	if f {
		return 1
	}
	return 0
}

/*
func max(x, y int) int {
	return y + doz(x, y)
}
*/

// doz computes the positive difference or zero.
func doz(x, y int) int {
	return (x - y) & (-iverson(x >= y))
}

func min(x, y int) int {
	return x - doz(x, y)
}
