// SPDX-FileCopyrightText: © 2021 Ulrich Kunitz
//
// SPDX-License-Identifier: BSD-3-Clause

package lz

import (
	"bytes"
	"os"
	"testing"
)

func TestWindow_Write(t *testing.T) {
	const file = "testdata/enwik7"
	data, err := os.ReadFile(file)
	if err != nil {
		t.Fatalf("os.ReadFile(%q) error %s", file, err)
	}
	var w ParserBuffer
	const winSize = 1024
	cfg := BufConfig{
		WindowSize: winSize,
	}
	if err = w.Init(cfg); err != nil {
		t.Fatalf("w.Init(%d) error %s", winSize, err)
	}
	n, err := w.Write(data)
	if err != ErrFullBuffer {
		t.Fatalf("w.Write(data) return error %v; want %v",
			err, ErrFullBuffer)
	}
	if n != winSize {
		t.Fatalf("w.Write(data) wrote %d bytes; want %d",
			n, winSize)
	}
	if len(w.Data) != winSize {
		t.Fatalf("len(w.Data) is %d; want %d", len(w.Data), winSize)
	}
	if cap(w.Data) < winSize+7 {
		t.Fatalf("cap(w.Data) is %d; want >= %d", cap(w.Data), winSize+7)
	}
	if !bytes.Equal(w.Data, data[:winSize]) {
		t.Fatalf("w.Data doesn't equal data[:winSize]")
	}
}

func TestWindow_ReadFrom(t *testing.T) {
	const file = "testdata/enwik7"
	f, err := os.Open(file)
	if err != nil {
		t.Fatalf("os.Open(%q) error %s", file, err)
	}
	defer f.Close()
	var w ParserBuffer
	const winSize = 1024
	cfg := BufConfig{
		WindowSize: winSize,
	}
	if err = w.Init(cfg); err != nil {
		t.Fatalf("w.Init(%d) error %s", winSize, err)
	}
	n, err := w.ReadFrom(f)
	if err != ErrFullBuffer {
		t.Fatalf("w.ReadFrom(f) returns error %v; want %v",
			err, ErrFullBuffer)
	}
	if n != winSize {
		t.Fatalf("w.ReadFrom(f) read %d bytes; want %d",
			n, winSize)
	}
	if len(w.Data) != winSize {
		t.Fatalf("len(w.Data) is %d; want %d", len(w.Data), winSize)
	}
	if cap(w.Data) != winSize+7 {
		t.Fatalf("cap(w.Data) is %d; want %d", cap(w.Data), winSize+7)
	}
	f.Close()
	data, err := os.ReadFile(file)
	if err != nil {
		t.Fatalf("os.ReadFile(f)")
	}
	if !bytes.Equal(w.Data, data[:winSize]) {
		t.Fatalf("w.Data doesn't equal data[:winSize]")
	}
}

func TestWindow_shrink(t *testing.T) {
	const file = "testdata/enwik7"
	data, err := os.ReadFile(file)
	if err != nil {
		t.Fatalf("os.ReadFile(%q) error %s", file, err)
	}
	var w ParserBuffer
	const winSize = 1024
	const shrinkSize = 256
	cfg := BufConfig{
		WindowSize: winSize,
		ShrinkSize: shrinkSize,
	}
	if err = w.Init(cfg); err != nil {
		t.Fatalf("w.Init(%d) error %s", winSize, err)
	}
	_, err = w.Write(data)
	if err != ErrFullBuffer {
		t.Fatalf("w.Write(data) return error %v; want %v",
			err, ErrFullBuffer)
	}

	w.W = winSize

	w.Shrink()
	if w.W != shrinkSize {
		t.Fatalf("w.shrink() returned %d; want %d", w.W, shrinkSize)
	}

	if len(w.Data) != shrinkSize {
		t.Fatalf("len(w.Data) is %d; want %d", len(w.Data), shrinkSize)
	}
	if w.W != shrinkSize {
		t.Fatalf("w.W is %d; want %d", len(w.Data), shrinkSize)
	}
	wantOff := int64(winSize - shrinkSize)
	if w.Off != wantOff {
		t.Fatalf("w.Off is %d; want %d", w.Off, wantOff)
	}
}
