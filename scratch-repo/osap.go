// SPDX-FileCopyrightText: © 2021 Ulrich Kunitz
//
// SPDX-License-Identifier: BSD-3-Clause

package lz

import (
	"fmt"
	"math"
	"math/bits"
	"sort"
	"strings"

	"github.com/ulikunitz/lz/suffix"
	"golang.org/x/exp/slices"
)

// XZCost models the cost of the bits going into the XZ encoding. The maximum edge
// length is 273.
func XZCost(m, o uint32) uint64 {
	if o == 0 {
		return 9 * uint64(m)
	}

	c := uint64(0)
	m -= 2
	switch {
	case m < 8:
		c += 4
	case m < 16:
		c += 5
	default:
		c += 10
	}
	if d := o - 1; d < 4 {
		c += 4
	} else {
		c += 2 + uint64(bits.Len32(d))
	}
	return c
}

// OSAPConfig provides the configuration parameters for the Optimizing Suffix
// Array Parser (OSAP).
type OSAPConfig struct {
	ShrinkSize int
	BufferSize int
	WindowSize int
	BlockSize  int

	MinMatchLen int
	MaxMatchLen int

	Cost string
}

// Clone creates a copy of the configuration.
func (cfg *OSAPConfig) Clone() ParserConfig {
	x := *cfg
	return &x
}

// UnmarshalJSON parses the JSON value and sets the fields of OSAPConfig.
func (cfg *OSAPConfig) UnmarshalJSON(p []byte) error {
	*cfg = OSAPConfig{}
	return unmarshalJSON(cfg, "OSAP", p)
}

// MarshalJSON creates the JSON string for the configuration. Note that it adds
// a property Type with value "OSAP" to the structure.
func (cfg *OSAPConfig) MarshalJSON() (p []byte, err error) {
	return marshalJSON(cfg, "OSAP")
}

// BufConfig returns the [BufConfig] value for the OSAP configuration.
func (cfg *OSAPConfig) BufConfig() BufConfig {
	return bufferConfig(cfg)
}

// SetBufConfig sets the buffer configuration parameters of the parser
// configuration.
func (cfg *OSAPConfig) SetBufConfig(bc BufConfig) {
	setBufferConfig(cfg, bc)
}

// SetDefaults sets the defaults for the zero values of the the OSAP
// configuration.
func (cfg *OSAPConfig) SetDefaults() {
	bc := bufferConfig(cfg)
	if bc.BufferSize == 0 {
		bc.SetDefaults()
		bc.BufferSize = bc.WindowSize
	} else {
		bc.SetDefaults()
	}
	setBufferConfig(cfg, bc)

	if cfg.MinMatchLen == 0 {
		cfg.MinMatchLen = 3
	}
	if cfg.MaxMatchLen == 0 {
		cfg.MaxMatchLen = 273
	}

	if cfg.Cost == "" {
		cfg.Cost = "XZCost"
	}
}

// Verify verifies the configuration for the Optimizing Suffix Array Parser.
func (cfg *OSAPConfig) Verify() error {
	var err error
	bc := bufferConfig(cfg)
	if err = bc.Verify(); err != nil {
		return err
	}

	if !(2 <= cfg.MinMatchLen && cfg.MinMatchLen <= cfg.MaxMatchLen) {
		return fmt.Errorf("lz: MinMatchLen=%d must be in range [%d..MaxMatchLen=%d",
			cfg.MinMatchLen, 2, cfg.MaxMatchLen)
	}

	switch cfg.Cost {
	case "XZCost":
		break
	default:
		return fmt.Errorf("lz.OSAPConfig: Cost string must not be empty")
	}

	if !(int64(cfg.BufferSize) <= int64(math.MaxInt32)) {
		// The suffix array has int32 entries; computeEdges panics
		// for a larger buffer.
		return fmt.Errorf(
			"lz: BufferSize=%d; must not exceed MaxInt32=%d",
			cfg.BufferSize, math.MaxInt32)
	}

	return nil
}

// NewParser returns the Optimizing Parser Array Parser.
func (cfg *OSAPConfig) NewParser() (s Parser, err error) {
	osas := new(optSuffixArrayParser)
	if err = osas.init(*cfg); err != nil {
		return nil, err
	}
	return osas, nil
}

type edge struct {
	m uint32
	o uint32
}

type optSuffixArrayParser struct {
	ParserBuffer

	edgeBuf []edge
	edges   [][]edge
	start   int
	nEdges  int

	tmp []edge

	cost func(m, o uint32) uint64

	OSAPConfig
}

func (s *optSuffixArrayParser) ParserConfig() ParserConfig {
	return &s.OSAPConfig
}

func (s *optSuffixArrayParser) init(cfg OSAPConfig) error {
	cfg.SetDefaults()
	var err error
	if err = cfg.Verify(); err != nil {
		return err
	}
	bc := bufferConfig(&cfg)
	if err = s.ParserBuffer.Init(bc); err != nil {
		return err
	}

	s.resetEdges()

	switch cfg.Cost {
	case "XZCost":
		s.cost = XZCost
	}

	s.OSAPConfig = cfg
	return nil
}

func (s *optSuffixArrayParser) Reset(data []byte) error {
	err := s.ParserBuffer.Reset(data)
	if err != nil {
		return err
	}

	s.resetEdges()
	return nil
}

func (s *optSuffixArrayParser) Shrink() int {
	delta := s.ParserBuffer.Shrink()
	if delta > 0 {
		s.resetEdges()
	}
	return delta
}

/* TODO: remove
func reverse[T any](s []T) {
	i, j := 0, len(s)-1
	for i < j {
		s[i], s[j] = s[j], s[i]
		i++
		j--
	}
}
*/

const edgeStats = false

func computeEdgeStats(edges [][]edge) string {
	lengths := make([]int, len(edges))
	for i, e := range edges {
		lengths[i] = len(e)
	}
	sort.Slice(lengths, func(i, j int) bool {
		return lengths[i] < lengths[j]
	})
	var sb strings.Builder
	for i, p := range []int{0, 25, 50, 75, 90, 95, 99, 100} {
		if i > 0 {
			fmt.Fprint(&sb, ", ")
		}
		k := p * len(lengths) / 100
		if k >= len(lengths) {
			k = len(lengths) - 1
		}
		fmt.Fprintf(&sb, "%2d%% %d", p, lengths[k])
	}
	return sb.String()
}

func (s *optSuffixArrayParser) resetEdges() {
	s.edgeBuf = s.edgeBuf[:0]
	s.edges = s.edges[:0]
	s.start = 0
	s.nEdges = 0
	s.tmp = s.tmp[:0]
}

func (s *optSuffixArrayParser) computeEdges() {
	data := s.Data
	if len(data) > math.MaxInt32 {
		panic(fmt.Errorf("lz: len(data)=%d too large", len(data)))
	}

	// Right size edges slice of slice and clean it.
	s.start = s.W
	k := len(data) - s.start
	if k < cap(s.edges) {
		s.edges = s.edges[:k]
	} else {
		s.edges = make([][]edge, k)
	}
	k *= 4
	if k < cap(s.edgeBuf) {
		s.edgeBuf = s.edgeBuf[:k]
	} else {
		s.edgeBuf = make([]edge, k)
	}

	// We need to make the access to the edges slices cache friendly.
	// Statistics showed that 95% the edges entry will not have more than 4
	// entries.
	for i := range s.edges {
		k := i * 4
		s.edges[i] = s.edgeBuf[k : k : k+4]
	}
	s.nEdges = 0

	if len(data) == 0 {
		return
	}

	winStart := doz(s.W, s.WindowSize)

	// Compute suffix array sa, inverse suffix array sainv and the lcp
	// table.
	t := data[winStart:]
	sa := make([]int32, len(t))
	suffix.Sort(t, sa)
	lcp := make([]int32, len(sa))
	suffix.LCP(t, sa, nil, lcp)

	// Check for maximum length in the table.
	maxLen := int32(0)
	for _, n := range lcp {
		if n > maxLen {
			maxLen = n
		}
	}
	if int(maxLen) < s.MinMatchLen {
		// No repeat reaches the minimum match length, so there are no
		// edges. suffix.Segments would not report anything either, but it
		// panics for a minimum length above MaxInt32, which Verify accepts.
		return
	}

	// index offset to convert suffix indexes into edges indexes
	w := int32(winStart - s.start)

	// f is called for each segment of common prefixes. We sort the segment
	// and fill the edges entries using the predecessors. Note we never
	// have to compute the edge length or access the original text.
	f := func(m int, seg []int32) {
		/*
			slices.SortStableFunc(seg, func(x, y int32) bool {
				return x < y
			})
		*/
		/*
			slices.SortFunc(seg, func(x, y int32) bool {
				return x < y
			})
		*/
		slices.Sort(seg)
		for j := len(seg) - 1; j > 0; j-- {
			i := seg[j]
			// k is the index into the edges slice. If it is too
			// small we can stop.
			k := i + w
			if k < 0 {
				break
			}
			o := uint32(i - seg[j-1])
			if o > uint32(s.WindowSize) {
				continue
			}
			p := &s.edges[k]
			if len(*p) > 0 {
				if (*p)[len(*p)-1].o <= o {
					continue
				}
			}
			s.nEdges++
			*p = append(*p, edge{m: uint32(m), o: o})
		}
	}
	suffix.Segments(sa, lcp, s.MinMatchLen, int(maxLen), f)

	if edgeStats {
		fmt.Println(computeEdgeStats(s.edges))
	}

	/*
		// save memory and make access to the edges array more cache friendly.
		tmp := make([]edge, s.nEdges)
		j := 0
		for i, e := range s.edges {
			k := j + len(e)
			s.edges[i] = tmp[j:k:k]
			j = k
			copy(s.edges[i], e)
		}
	*/
}

// shortestPath appends the shortest path in reversed order
func (s *optSuffixArrayParser) shortestPath(p []edge, n int) []edge {
	k := s.W - s.start
	edges := s.edges[k : k+n]

	type opt struct {
		m, o uint32
		c    uint64
	}

	d := make([]opt, n+1)
	for i := range d {
		if i == 0 {
			continue
		}
		d[i] = opt{m: 1, o: 0, c: s.cost(uint32(i), 0)}
	}

	lit := s.cost(1, 0)
	for i, q := range edges {
		if i > 0 {
			if c := d[i-1].c + lit; c < d[i].c {
				d[i] = opt{m: 1, o: 0, c: c}
			}
		}
		ci := d[i].c
		maxLen := uint32(n - i)
		for k := len(q) - 1; k >= 0; k-- {
			max := q[k].m
			if max > maxLen {
				max = maxLen
			}
			o := q[k].o
			for m := uint32(s.MinMatchLen); m <= max; m++ {
				c := ci + s.cost(m, o)
				j := i + int(m)
				if c < d[j].c {
					d[j] = opt{m: m, o: o, c: c}
				}
			}
		}
	}

	if c := d[n-1].c + lit; c < d[n].c {
		d[n] = opt{m: 1, o: 0, c: c}
	}

	i := uint32(n)
	for i != 0 {
		m, o := d[i].m, d[i].o
		p = append(p, edge{m: m, o: o})
		i -= m
	}
	return p
}

func (s *optSuffixArrayParser) Parse(blk *Block, flags int) (n int, err error) {
	n = len(s.Data) - s.W
	if n > s.BlockSize {
		n = s.BlockSize
	}

	if blk == nil {
		if n == 0 {
			return 0, ErrEmptyBuffer
		}
		s.W += n
		return n, nil
	}

	blk.Sequences = blk.Sequences[:0]
	blk.Literals = blk.Literals[:0]

	if n == 0 {
		return 0, ErrEmptyBuffer
	}

	if s.W+n > s.start+len(s.edges) {
		s.computeEdges()
	}

	if s.nEdges == 0 {
		w := s.W
		s.W += n
		blk.Literals = append(blk.Literals, s.Data[w:s.W]...)
		return n, nil
	}

	sp := s.shortestPath(s.tmp[:0], n)
	i := uint32(s.W)
	litIndex := i
	p := s.Data[:s.W+n]
	for j := len(sp) - 1; j >= 0; j-- {
		e := sp[j]
		if e.o == 0 {
			i += e.m
			continue
		}
		q := p[litIndex:i]
		blk.Sequences = append(blk.Sequences,
			Seq{
				LitLen:   uint32(len(q)),
				MatchLen: e.m,
				Offset:   e.o,
			})
		blk.Literals = append(blk.Literals, q...)
		i += e.m
		litIndex = i
	}
	if flags&NoTrailingLiterals != 0 && len(blk.Sequences) > 0 {
		i = litIndex
	} else {
		blk.Literals = append(blk.Literals, p[litIndex:]...)
		i = uint32(len(p))
	}
	n = int(i) - s.W
	s.W = int(i)
	return n, nil
}
