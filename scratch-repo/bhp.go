// SPDX-FileCopyrightText: © 2021 Ulrich Kunitz
//
// SPDX-License-Identifier: BSD-3-Clause

package lz

import (
	"math/bits"
)

// BHPConfig provides the parameters for the backward hash parser.
type BHPConfig struct {
	ShrinkSize int
	BufferSize int
	WindowSize int
	BlockSize  int

	InputLen int
	HashBits int
}

// Clone creates a copy of the configuration.
func (cfg *BHPConfig) Clone() ParserConfig {
	x := *cfg
	return &x
}

// UnmarshalJSON parses the JSON value and sets the fields of BHPConfig.
func (cfg *BHPConfig) UnmarshalJSON(p []byte) error {
	*cfg = BHPConfig{}
	return unmarshalJSON(cfg, "BHP", p)
}

// MarshalJSON creates the JSON string for the configuration. Note that it adds
// a property Type with value "BHP" to the structure.
func (cfg *BHPConfig) MarshalJSON() (p []byte, err error) {
	return marshalJSON(cfg, "BHP")
}

// BufConfig returns the [BufConfig] value containing the buffer parameters.
func (cfg *BHPConfig) BufConfig() BufConfig {
	bc := bufferConfig(cfg)
	return bc
}

// SetBufConfig sets the buffer configuration parameters of the backward hash
// parser configuration.
func (cfg *BHPConfig) SetBufConfig(bc BufConfig) {
	setBufferConfig(cfg, bc)
}

// SetDefaults sets values that are zero to their defaults values.
func (cfg *BHPConfig) SetDefaults() {
	bc := bufferConfig(cfg)
	bc.SetDefaults()
	setBufferConfig(cfg, bc)
	h, _ := hashCfg(cfg)
	h.SetDefaults()
	setHashCfg(cfg, h)
}

// Verify checks the configuration for correctness.
func (cfg *BHPConfig) Verify() error {
	bc := bufferConfig(cfg)
	var err error
	if err = bc.Verify(); err != nil {
		return err
	}
	h, _ := hashCfg(cfg)
	err = h.Verify()
	return err
}

// NewParser creates a new Backward Hash Parser.
func (cfg BHPConfig) NewParser() (s Parser, err error) {
	bhs := new(backwardHashParser)
	if err = bhs.init(cfg); err != nil {
		return nil, err
	}
	return bhs, nil
}

// backwardHashParser allows the creation of sequence blocks using a simple
// hash table. It extends found matches by looking backward in the input stream.
type backwardHashParser struct {
	hashDictionary

	BHPConfig
}

// init initializes the backward hash parser. It returns an error if there is
// an issue with the configuration parameters.
func (s *backwardHashParser) init(cfg BHPConfig) error {
	cfg.SetDefaults()
	var err error
	if err = cfg.Verify(); err != nil {
		return err
	}

	hc, _ := hashCfg(&cfg)
	bc := bufferConfig(&cfg)
	if err = s.hashDictionary.init(hc, bc); err != nil {
		return err
	}

	s.BHPConfig = cfg
	return nil
}

// ParserConfig returns the [BHPConfig].
func (s *backwardHashParser) ParserConfig() ParserConfig {
	return &s.BHPConfig
}

// Parse converts the next block of k bytes to a sequences. The block will be
// overwritten. The method returns the number of bytes sequenced and any error
// encountered. It return ErrEmptyBuffer if there is no further data available.
//
// If blk is nil the search structures will be filled. This mode can be used to
// ignore segments of data.
func (s *backwardHashParser) Parse(blk *Block, flags int) (n int, err error) {
	n = len(s.Data) - s.W
	if n > s.BlockSize {
		n = s.BlockSize
	}

	if blk == nil {
		if n == 0 {
			return 0, ErrEmptyBuffer
		}
		t := s.W + n
		s.processSegment(s.W-s.inputLen+1, t)
		s.W = t
		return n, nil
	}

	blk.Sequences = blk.Sequences[:0]
	blk.Literals = blk.Literals[:0]

	if n == 0 {
		return 0, ErrEmptyBuffer
	}

	s.processSegment(s.W-s.inputLen+1, s.W)
	p := s.Data[:s.W+n]

	inputEnd := len(p) - s.inputLen + 1
	i := s.W
	litIndex := i

	minMatchLen := 3
	if s.inputLen < minMatchLen {
		minMatchLen = s.inputLen
	}

	// Ensure that we can use _getLE64 all the time.
	_p := s.Data[:inputEnd+7]

	for ; i < inputEnd; i++ {
		y := _getLE64(_p[i:])
		x := y & s.mask
		h := hashValue(x, s.shift)
		entry := s.table[h]
		v := uint32(x)
		s.table[h] = hashEntry{
			pos:   uint32(i),
			value: v,
		}
		if v != entry.value {
			continue
		}
		// potential match
		j := int(entry.pos)
		o := i - j
		if !(0 < o && o <= s.WindowSize) {
			continue
		}
		k := bits.TrailingZeros64(_getLE64(_p[j:])^y) >> 3
		if k > len(p)-int(i) {
			k = len(p) - int(i)
		}
		if k < minMatchLen {
			continue
		}
		if k == 8 {
			r := p[j+8:]
			q := p[i+8:]
			for len(q) >= 8 {
				x := _getLE64(r) ^ _getLE64(q)
				b := bits.TrailingZeros64(x) >> 3
				k += b
				if b < 8 {
					goto match
				}
				r = r[8:]
				q = q[8:]
			}
			if len(q) > 0 {
				x := getLE64(r) ^ getLE64(q)
				b := bits.TrailingZeros64(x) >> 3
				if b > len(q) {
					b = len(q)
				}
				k += b
			}
		match:
		}
		if back := i - litIndex; back > 0 {
			if back > j {
				back = j
			}
			m := lcs(p[j-back:j], p[:i])
			i -= m
			k += m
		}
		q := p[litIndex:i]
		blk.Sequences = append(blk.Sequences,
			Seq{
				MatchLen: uint32(k),
				LitLen:   uint32(len(q)),
				Offset:   uint32(o),
			})
		blk.Literals = append(blk.Literals, q...)
		litIndex = i + k
		b := litIndex
		if litIndex > inputEnd {
			b = inputEnd
		}
		for j = i + 1; j < b; j++ {
			x := _getLE64(_p[j:]) & s.mask
			h := hashValue(x, s.shift)
			s.table[h] = hashEntry{
				pos:   uint32(j),
				value: uint32(x),
			}
		}
		i = litIndex - 1
	}

	if flags&NoTrailingLiterals != 0 && len(blk.Sequences) > 0 {
		i = litIndex
	} else {
		blk.Literals = append(blk.Literals, p[litIndex:]...)
		i = len(p)
	}
	n = i - s.W
	s.W = i
	return n, nil
}
