// SPDX-FileCopyrightText: © 2021 Ulrich Kunitz
//
// SPDX-License-Identifier: BSD-3-Clause

package lz

import (
	"errors"
	"fmt"
	"io"
)

// ParserBuffer provides a base for Parser implementation. Since the package
// allows implementations outside of the package. All members are public.
type ParserBuffer struct {
	// actual buffer data
	Data []byte

	// w position of the head of the window in data.
	W int

	// off start of the data slice, counts all data written and discarded
	// from the buffer.
	Off int64

	BufConfig
}

// Init initializes the buffer. The function
// sets the defaults for the buffer configuration if required and verifies it.
// Errors will be reported.
func (b *ParserBuffer) Init(cfg BufConfig) error {
	cfg.SetDefaults()
	var err error
	if err = cfg.Verify(); err != nil {
		return err
	}
	*b = ParserBuffer{
		Data:      b.Data[:0],
		BufConfig: cfg,
	}
	return err
}

// Reset initializes the buffer with new data. The data slice requires a margin
// of 7 bytes for the hash parsers to be used directly. If there is no margin
// the data will be copied into a slice with enough capacity.
func (b *ParserBuffer) Reset(data []byte) error {
	if len(data) > b.BufferSize {
		return fmt.Errorf("lz: len(data)=%d larger than BufferSize=%d",
			len(data), b.BufferSize)
	}

	b.W = 0
	b.Off = 0

	if len(data) == 0 {
		b.Data = b.Data[:0]
		return nil
	}

	// Ensure the margin required for the hash parsers.
	margin := len(data) + 7
	if margin > cap(data) {
		if margin > cap(b.Data) {
			b.Data = make([]byte, len(data), margin)
		} else {
			b.Data = b.Data[:len(data)]
		}
		copy(b.Data, data)
	} else {
		b.Data = data
	}

	return nil
}

// Shrink will move the window head to the shrink size if it is larger. The
// amount of data discarded from the buffer, named delta, will be returned.
func (b *ParserBuffer) Shrink() int {
	delta := b.W - b.ShrinkSize
	if delta <= 0 {
		return 0
	}
	n := copy(b.Data, b.Data[delta:])
	b.Data = b.Data[:n]
	b.W = b.ShrinkSize
	b.Off += int64(delta)
	return delta
}

// grow will allocate more buffer data that will have enough space for t bytes
// or BufferSize bytes plus 7 bytes margin to support the hash parsers.
// Usually the size allocate will roughly more than twice the requested size to
// avoid repeated allocations.
func (b *ParserBuffer) grow(t int) {
	if t+7 <= cap(b.Data) {
		return
	}

	// We need always to calculate the margin.
	c := 2*int64(t) + 7
	// Don't do too many small allocations.
	if c < 1024 {
		c = 1024
	}
	if c >= int64(b.BufferSize)+7 {
		c = int64(b.BufferSize) + 7
	}
	// Allocate the buffer.
	p := b.Data
	b.Data = make([]byte, len(b.Data), c)
	copy(b.Data, p)
}

// Write writes data into the buffer. If not the complete p slice can be copied
// into the buffer, Write will return [ErrFullBuffer].
func (b *ParserBuffer) Write(p []byte) (n int, err error) {
	available := b.BufferSize - len(b.Data)
	if available < len(p) {
		p = p[:available]
		err = ErrFullBuffer
	}
	n = len(p)

	t := len(b.Data) + n
	if t+7 > cap(b.Data) {
		b.grow(t)
	}
	b.Data = append(b.Data, p...)
	return n, err
}

// ReadFrom reads the data from reader into the buffer. If there is an error it
// will be reported. If the buffer is full, [ErrFullBuffer] will be reported.
func (b *ParserBuffer) ReadFrom(r io.Reader) (n int64, err error) {
	const chunkSize = 32 << 10
	n = int64(len(b.Data))
	for {
		if len(b.Data) >= b.BufferSize {
			err = ErrFullBuffer
			break
		}
		t := min(len(b.Data)+chunkSize, b.BufferSize)
		if t+7 > cap(b.Data) {
			b.grow(t)
		}
		end := cap(b.Data) - 7
		if end > b.BufferSize {
			end = b.BufferSize
		}
		p := b.Data[len(b.Data):end]
		var k int
		k, err = r.Read(p)
		b.Data = b.Data[:len(b.Data)+k]
		if err != nil {
			break
		}
	}
	return int64(len(b.Data)) - n, err
}

// Errors returned by [SeqBuffer.ReadAt]
var (
	ErrOutOfBuffer = errors.New("lz: offset outside of buffer")
	ErrEndOfBuffer = errors.New("lz: end of buffer")
)

// ReadAt reads data from the buffer at position off. If off is is outside the
// buffer ErrOutOfBuffer will be reported. If there is not enough data to fill p
// ErrEndOfBuffer will be reported. See [SeqBuffer.PeekAt] for avoiding the
// copy.
func (b *ParserBuffer) ReadAt(p []byte, off int64) (n int, err error) {
	q, err := b.PeekAt(len(p), off)
	n = copy(p, q)
	return n, err
}

// PeekAt returns part of the internal data slice starting at total offset off.
// The total offset takes all data written to the buffer into account. If the
// off parameter is outside the current buffer ErrOutOfBuffer will be returned.
// If less than n bytes of data can be provided ErrEndOfBuffer will be returned.
func (b *ParserBuffer) PeekAt(n int, off int64) (p []byte, err error) {
	i := off - b.Off
	if !(0 <= i && i < int64(len(b.Data))) {
		return nil, ErrOutOfBuffer
	}
	p = b.Data[i:]
	if len(p) < n {
		err = ErrEndOfBuffer
	}
	return p, err
}

// ByteAt returns the byte at total offset off, if it can be provided. If off
// points to the end of the buffer, [ErrEndOfBuffer] will be returned otherwise
// [ErrOutOfBuffer].
func (b *ParserBuffer) ByteAt(off int64) (c byte, err error) {
	i := off - b.Off
	if !(0 <= i && i < int64(len(b.Data))) {
		if i == int64(len(b.Data)) {
			return 0, ErrEndOfBuffer
		}
		return 0, ErrOutOfBuffer
	}
	return b.Data[i], nil
}
