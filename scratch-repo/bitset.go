// SPDX-FileCopyrightText: © 2021 Ulrich Kunitz
//
// SPDX-License-Identifier: BSD-3-Clause

package lz

import (
	"fmt"
	"math/bits"
	"strings"
)

const bsMask = 1<<6 - 1

type bitset struct {
	// words of a
	a []uint64
	// number of zero words before a starts
	off int
}

/*
func (b *bitset) normalize() {
	var i, j int
	var x uint64
	nonZero := false
	for i, x = range b.a {
		if x != 0 {
			nonZero = true
			break
		}
	}
	if !nonZero {
		i = len(b.a)
	}
	for j = len(b.a) - 1; j >= i; j-- {
		if b.a[j] != 0 {
			break
		}
	}
	j++
	if 0 < i {
		a := b.a[:j-i]
		copy(a, b.a[i:])
		b.a = a
		b.off += i
	} else {
		b.a = b.a[:j]
	}
}
*/

func (b *bitset) support(min, max int) *bitset {
	kmin, kmax := min>>6, max>>6
	if b.off <= kmin && kmax < b.off+len(b.a) {
		return b
	}
	var y bitset
	d := 0
	if len(b.a) == 0 {
		b.off = kmin
		y.off = kmin
	} else if kmin < b.off {
		y.off = kmin
		d = b.off - y.off
	} else {
		y.off = b.off
	}
	n := kmax + 1 - y.off
	if n < d+len(b.a) {
		n = d + len(b.a)
	}
	if n > cap(b.a) {
		y.a = make([]uint64, n)
		copy(y.a[d:], b.a)
	} else {
		y.a = b.a[:n]
		k := copy(y.a[d:], b.a)
		for i := range y.a[:d] {
			y.a[i] = 0
		}
		d += k
		t := y.a[d:]
		for i := range t {
			t[i] = 0
		}
	}
	*b = y
	return b
}

func (b *bitset) insert(i ...int) *bitset {
	if len(i) == 0 {
		return b
	}
	min := i[0]
	max := min
	for _, j := range i[1:] {
		if j < min {
			min = j
		}
		if j > max {
			max = j
		}
	}
	if min < 0 {
		panic("lz: negative arguments to bitset insert")

	}
	b.support(min, max)
	for _, j := range i {
		k := j>>6 - b.off
		b.a[k] |= 1 << uint(j&63)
	}
	return b
}

/*
func (b *bitset) delete(i int) *bitset {
	k := i>>6 - b.off
	if !(0 <= k && k < len(b.a)) {
		// nothing todo
		return b
	}
	b.a[k] &^= 1 << uint(i&63)
	if k == 0 || k+1 == len(b.a) {
		b.normalize()
	}
	return b
}
*/

func (b *bitset) clear() {
	b.a = b.a[:0]
	b.off = 0
}

/*
func (b *bitset) member(i int) bool {
	k := (i >> 6) - b.off
	if !(0 <= k && k < len(b.a)) {
		return false
	}
	return b.a[k]&(1<<uint(i&63)) != 0
}
*/

/*
func (b *bitset) pop() int {
	n := 0
	for _, x := range b.a {
		n += bits.OnesCount64(x)
	}
	return n
}
*/

func (b *bitset) memberBefore(i int) (j int, ok bool) {
	k := i>>6 - b.off
	if k < 0 {
		return -1, false
	}
	if k < len(b.a) {
		m := uint64(1)<<uint(i&63) - 1
		j = 63 - bits.LeadingZeros64(b.a[k]&m)
	} else {
		k = len(b.a)
		j = -1
	}
	for {
		if j >= 0 {
			return (b.off+k)<<6 + j, true
		}
		k--
		if k < 0 {
			return -1, false
		}
		j = 63 - bits.LeadingZeros64(b.a[k])
	}
}

func (b *bitset) memberAfter(i int) (j int, ok bool) {
	i++
	k := i>>6 - b.off
	if k >= len(b.a) {
		return -1, false
	}
	if k >= 0 {
		m := ^(uint64(1)<<uint(i&bsMask) - 1)
		j = bits.TrailingZeros64(b.a[k] & m)
	} else {
		k = -1
		j = 64
	}
	for {
		if j < 64 {
			return (b.off+k)<<6 + j, true
		}
		k++
		if k >= len(b.a) {
			return -1, false
		}
		j = bits.TrailingZeros64(b.a[k])
	}
}

/*
func (b *bitset) firstMember() (j int, ok bool) {
	if len(b.a) == 0 {
		return -1, false
	}
	j = bits.TrailingZeros64(b.a[0])
	if j >= 64 {
		panic("b is not normalized")
	}
	return (b.off << 6) + j, true
}
*/

/*
func (b *bitset) clone(u *bitset) *bitset {
	if b == u {
		return b
	}
	b.off = u.off
	if len(u.a) > cap(b.a) {
		b.a = make([]uint64, len(u.a))
	} else {
		b.a = b.a[:len(u.a)]
	}
	copy(b.a, u.a)
	return b
}
*/

/*
func (b *bitset) intersect(u, v *bitset) *bitset {
	if u == v {
		return b.clone(u)
	}
	if u.off > v.off {
		u, v = v, u
	}
	s, t := u.off+len(u.a), v.off+len(v.a)
	if s <= v.off {
		b.off = 0
		b.a = b.a[:0]
		return b
	}
	var y bitset
	y.off = v.off
	n := min(s, t) - y.off
	if b == u || b == v || n > cap(b.a) {
		y.a = make([]uint64, n)
	} else {
		y.a = b.a[:n]
	}
	p, q := u.a[y.off-u.off:], v.a[y.off-v.off:]
	for k := range y.a {
		y.a[k] = p[k] & q[k]
	}
	y.normalize()
	*b = y
	return b
}
*/

func (b *bitset) slice() []int {
	var s []int
	for k, x := range b.a {
		base := (b.off + k) << 6
		for x != 0 {
			i := bits.TrailingZeros64(x)
			s = append(s, base+i)
			x &^= 1 << uint(i)
		}
	}
	return s
}

func (b *bitset) String() string {
	var sb strings.Builder
	sb.WriteByte('{')
	for i, j := range b.slice() {
		if i > 0 {
			sb.WriteString(", ")
		}
		fmt.Fprint(&sb, j)
	}
	sb.WriteByte('}')
	return sb.String()
}
