// SPDX-FileCopyrightText: © 2021 Ulrich Kunitz
//
// SPDX-License-Identifier: BSD-3-Clause

package lz

import (
	"bytes"
	"crypto/sha256"
	"io"
	"math/bits"
	"os"
	"testing"

	"github.com/google/go-cmp/cmp"
	"github.com/google/go-cmp/cmp/cmpopts"
)

func testParser(t *testing.T, cfg ParserConfig, p []byte) {
	cfg.SetDefaults()
	t.Logf("cfg.SetDefaults() %+v", cfg)
	if err := cfg.Verify(); err != nil {
		t.Skip()
	}
	bcfg := cfg.BufConfig()

	seq, err := cfg.NewParser()
	if err != nil {
		t.Fatalf("cfg.NewParser() error %s", err)
	}
	s := Wrap(bytes.NewReader(p), seq)

	var buffer bytes.Buffer
	var decoder Decoder
	err = decoder.Init(&buffer, DecoderConfig{WindowSize: bcfg.WindowSize})
	if err != nil {
		t.Fatalf("decoder.Init error %s", err)
	}

	var blk Block
	for {
		if _, err := s.Parse(&blk, 0); err != nil {
			if err == io.EOF {
				break
			}
			t.Fatalf("s.Parse error %s", err)
		}
		if _, _, _, err := decoder.WriteBlock(blk); err != nil {
			t.Fatalf("decoder.WriteBlock error %s", err)
		}
	}
	if err := decoder.Flush(); err != nil {
		t.Fatalf("decoder.Flush error %s", err)
	}

	q := buffer.Bytes()
	if diff := cmp.Diff(p, q, cmpopts.EquateEmpty()); diff != "" {
		t.Fatalf("decoded mismatch (+got -want):\n%s", diff)
	}
}

func FuzzBHP(f *testing.F) {
	f.Add(3, 5, []byte("=====foofoobarfoobar bartender===="))
	f.Fuzz(func(t *testing.T, inputLen int, hashBits int, p []byte) {
		cfg := &BHPConfig{
			WindowSize: 1024,
			BlockSize:  512,
			InputLen:   inputLen,
			HashBits:   hashBits,
		}
		testParser(t, cfg, p)
	})
}

func FuzzDHP(f *testing.F) {
	f.Add(3, 5, 4, 6, []byte("=====foofoobarfoobar bartender===="))
	f.Fuzz(func(t *testing.T,
		inputLen1, hashBits1 int,
		inputLen2, hashBits2 int,
		p []byte) {

		cfg := &DHPConfig{
			WindowSize: 1024,
			BlockSize:  512,
			InputLen1:  inputLen1,
			HashBits1:  hashBits1,
			InputLen2:  inputLen2,
			HashBits2:  hashBits2,
		}
		testParser(t, cfg, p)
	})
}

func FuzzBDHP(f *testing.F) {
	f.Add(3, 5, 4, 6, []byte("=====foofoobarfoobar bartender===="))
	f.Fuzz(func(t *testing.T,
		inputLen1, hashBits1 int,
		inputLen2, hashBits2 int,
		p []byte) {

		cfg := &BDHPConfig{
			WindowSize: 1024,
			BlockSize:  512,
			InputLen1:  inputLen1,
			InputLen2:  inputLen2,
			HashBits1:  hashBits1,
			HashBits2:  hashBits2,
		}
		testParser(t, cfg, p)
	})
}

func FuzzBUP(f *testing.F) {
	f.Add(3, 5, 8, []byte("=====foofoobarfoobar bartender===="))
	f.Fuzz(func(t *testing.T,
		inputLen, hashBits, bucketSize int,
		p []byte) {

		cfg := &BUPConfig{
			WindowSize: 1024,
			BlockSize:  512,
			InputLen:   inputLen,
			HashBits:   hashBits,
			BucketSize: bucketSize,
		}
		cfg.SetDefaults()
		// We need to limit the memory consumption for Fuzzing.
		if cfg.HashBits > 21 {
			t.Skip()
		}
		testParser(t, cfg, p)
	})
}

func FuzzGSAP(f *testing.F) {
	f.Add([]byte("=====foofoobarfoobar bartender===="))
	f.Fuzz(func(t *testing.T, p []byte) {
		cfg := &GSAPConfig{
			WindowSize: 1024,
			BlockSize:  512,
		}
		testParser(t, cfg, p)
	})
}

func FuzzOSAP(f *testing.F) {
	f.Add([]byte("abbababb"))
	f.Add([]byte("=====foofoobarfoobar bartender===="))
	f.Fuzz(func(t *testing.T, p []byte) {
		cfg := &OSAPConfig{
			BufferSize: 1024,
			WindowSize: 1024,
			BlockSize:  512,
		}
		testParser(t, cfg, p)
	})
}

func newTestParser(tb testing.TB, cfg ParserConfig) Parser {
	s, err := cfg.NewParser()
	if err != nil {
		tb.Fatalf("%+v.NewParser() error %s",
			cfg, err)
	}
	return s
}

// blockCost computes the cost of the block in bits.
func blockCost(blk *Block) int64 {
	c := int64(0)
	for _, seq := range blk.Sequences {
		l := int64(seq.MatchLen)
		l -= 2
		switch {
		case l < 8:
			c += 4
		case l < 16:
			c += 5
		default:
			c += 10
		}
		d := int64(seq.Offset) - 1
		if d < 4 {
			c += 4
		} else {
			c += 2 + int64(bits.Len64(uint64(d)))
		}
	}
	c += 9 * int64(len(blk.Literals))
	return c
}

func BenchmarkParsers(b *testing.B) {
	const enwik7 = "testdata/enwik7"
	benchmarks := []struct {
		name string
		cfg  ParserConfig
	}{
		{"HashParser-3", &HPConfig{
			WindowSize: 8 << 20,
			InputLen:   3,
			HashBits:   15,
		}},
		{"HashParser-4", &HPConfig{
			InputLen:   4,
			HashBits:   15,
			WindowSize: 8 << 20,
		}},
		{"HashParser-5", &HPConfig{
			InputLen:   5,
			HashBits:   15,
			WindowSize: 8 << 20,
		}},
		{"HashParser-8", &HPConfig{
			InputLen:   8,
			HashBits:   15,
			WindowSize: 8 << 20,
		}},
		{"BackwardHashParser-3", &BHPConfig{
			InputLen:   3,
			HashBits:   15,
			WindowSize: 8 << 20,
		}},
		{"BackwardHashParser-4", &BHPConfig{
			InputLen:   4,
			HashBits:   15,
			WindowSize: 8 << 20,
		}},
		{"BackwardHashParser-5", &BHPConfig{
			InputLen:   5,
			HashBits:   15,
			WindowSize: 8 << 20,
		}},
		{"BackwardHashParser-8", &BHPConfig{
			InputLen:   8,
			HashBits:   15,
			WindowSize: 8 << 20,
		}},
		{"DoubleHashParser-3,6", &DHPConfig{
			InputLen1:  2,
			HashBits1:  15,
			InputLen2:  6,
			HashBits2:  18,
			WindowSize: 8 << 20,
		}},
		{"DoubleHashParser-4,6", &DHPConfig{
			InputLen1:  4,
			HashBits1:  15,
			InputLen2:  6,
			HashBits2:  18,
			WindowSize: 8 << 20,
		}},
		{"BDHParser-3,6", &BDHPConfig{
			InputLen1:  3,
			HashBits1:  15,
			InputLen2:  6,
			HashBits2:  18,
			WindowSize: 8 << 20,
		}},
		{"BDHParser-4,6", &BDHPConfig{
			InputLen1:  4,
			HashBits1:  15,
			InputLen2:  6,
			HashBits2:  18,
			WindowSize: 8 << 20,
		}},
		{"GSAParser", &GSAPConfig{
			WindowSize: 8 << 20,
		}},
		{"BUParser-3-12", &BUPConfig{
			InputLen:   3,
			HashBits:   18,
			BucketSize: 12,
			WindowSize: 8 << 20,
		}},
		{"BUParser-3-100", &BUPConfig{
			InputLen:   3,
			HashBits:   18,
			BucketSize: 100,
			WindowSize: 8 << 20,
		}},
		{"OSAParser", &OSAPConfig{
			MinMatchLen: 2,
			MaxMatchLen: 273,
			Cost:        "XZCost",
			WindowSize:  512 << 10,
			BufferSize:  512 << 10,
		}},
	}

	for _, bm := range benchmarks {
		b.Run(bm.name, func(b *testing.B) {
			ws := newTestParser(b, bm.cfg)
			data, err := os.ReadFile(enwik7)
			if err != nil {
				b.Fatalf("io.ReadFile(%q) error %s", enwik7,
					err)
			}
			r := Wrap(bytes.NewReader(data), ws)
			b.SetBytes(int64(len(data)))
			var cost int64
			b.ResetTimer()
			for i := 0; i < b.N; i++ {
				var blk Block
			loop:
				for {
					_, err := r.Parse(&blk, 0)
					b.StopTimer()
					cost += blockCost(&blk)
					b.StartTimer()
					switch err {
					case nil:
						continue loop
					case io.EOF:
						break loop
					default:
						b.Fatalf("r.Parse(&blk) error %s", err)
					}
				}
				b.StopTimer()
				r.Reset(bytes.NewReader(data))
				b.StartTimer()
			}
			b.StopTimer()
			compressedBytes := (cost + 7) / 8
			uncompressedBytes := int64(b.N) * int64(len(data))
			b.ReportMetric(
				100*float64(compressedBytes)/
					float64(uncompressedBytes),
				"%_compression_ratio")
		})
	}
}

func BenchmarkDecoders(b *testing.B) {
	const enwik7 = "testdata/enwik7"
	benchmarks := []struct {
		name    string
		winSize int
		maxSize int
	}{
		{name: "Decoder", winSize: 1024 * 1024},
	}
	data, err := os.ReadFile(enwik7)
	if err != nil {
		b.Fatalf("os.ReadFile(%q) error %s", enwik7, err)
	}
	hd := sha256.New()
	hd.Write(data)
	sumData := hd.Sum(nil)
	for _, bm := range benchmarks {
		b.Run(bm.name, func(b *testing.B) {
			var blocks []Block
			hs, err := HPConfig{
				InputLen:   3,
				WindowSize: bm.winSize,
			}.NewParser()

			if err != nil {
				b.Fatalf("NewHashParser error %s", err)
			}
			s := Wrap(bytes.NewReader(data), hs)
			for {
				var blk Block
				_, err = s.Parse(&blk, 0)
				if err != nil {
					if err == io.EOF {
						break
					}
					b.Fatalf("s.Parse error %s", err)
				}
				blocks = append(blocks, blk)
			}
			b.SetBytes(int64(len(data)))

			var d interface {
				WriteBlock(blk Block) (k, l, n int, err error)
				Flush() error
				Reset(w io.Writer)
			}
			hw := sha256.New()

			d, err = NewDecoder(hw, DecoderConfig{
				WindowSize: bm.winSize,
				BufferSize: bm.maxSize,
			})
			if err != nil {
				b.Fatalf("NewDecoder error %s", err)
			}
			b.ResetTimer()
			b.StopTimer()
			for i := 0; i < b.N; i++ {
				hw.Reset()
				b.StartTimer()
				d.Reset(hw)
				for _, blk := range blocks {
					_, _, _, err := d.WriteBlock(blk)
					if err != nil {
						b.Fatalf("d.WriteBlock"+
							" error %s",
							err)
					}
				}
				if err = d.Flush(); err != nil {
					b.Fatalf("d.Flush() error %s", err)
				}
				b.StopTimer()
				sum := hw.Sum(nil)
				if !bytes.Equal(sum, sumData) {
					b.Fatalf("got hash %x; want %x", sum,
						sumData)
				}
			}
		})
	}
}

func TestParseJSON(t *testing.T) {
	const json = `
{
	"Type": "BUP",
	"BucketSize": 3
}
	`
	cfg, err := ParseJSON([]byte(json))
	if err != nil {
		t.Fatalf("ParseJSON error %s", err)
	}

	var bup *BUPConfig

	bup, ok := cfg.(*BUPConfig)
	if !ok {
		t.Fatalf("cfg is not a BUPConfig")
	}
	if bup.BucketSize != 3 {
		t.Fatalf("bup.BucketSize = %d; want 3", bup.BucketSize)
	}
	t.Logf("cfg: %+v", cfg)
}
