// SPDX-FileCopyrightText: © 2021 Ulrich Kunitz
//
// SPDX-License-Identifier: BSD-3-Clause

package lz

// bucketParser allows the creation of sequence blocks using a simple hash
// table.
type bucketParser struct {
	bucketDictionary

	BUPConfig
}

// BUPConfig provides the configuration parameters for the bucket hash parser.
type BUPConfig struct {
	ShrinkSize int
	BufferSize int
	WindowSize int
	BlockSize  int

	InputLen   int
	HashBits   int
	BucketSize int
}

// Clone creates a copy of the configuration.
func (cfg *BUPConfig) Clone() ParserConfig {
	x := *cfg
	return &x
}

// UnmarshalJSON parses the JSON value and sets the fields of BUPConfig.
func (cfg *BUPConfig) UnmarshalJSON(p []byte) error {
	*cfg = BUPConfig{}
	return unmarshalJSON(cfg, "BUP", p)
}

// MarshalJSON creates the JSON string for the configuration. Note that it adds
// a property Type with value "BUP" to the structure.
func (cfg *BUPConfig) MarshalJSON() (p []byte, err error) {
	return marshalJSON(cfg, "BUP")
}

// BufConfig returns the [BufConfig] value containing the buffer parameters.
func (cfg *BUPConfig) BufConfig() BufConfig {
	bc := bufferConfig(cfg)
	return bc
}

// SetBufConfig sets the buffer configuration parameters of the parser
// configuration.
func (cfg *BUPConfig) SetBufConfig(bc BufConfig) {
	setBufferConfig(cfg, bc)
}

// SetDefaults sets values that are zero to their defaults values.
func (cfg *BUPConfig) SetDefaults() {
	bc := bufferConfig(cfg)
	bc.SetDefaults()
	setBufferConfig(cfg, bc)
	b, _ := bucketCfg(cfg)
	b.SetDefaults()
	setBucketCfg(cfg, b)
}

// Verify checks the config for correctness.
func (cfg *BUPConfig) Verify() error {
	var err error
	bc := bufferConfig(cfg)
	if err = bc.Verify(); err != nil {
		return err
	}
	b, _ := bucketCfg(cfg)
	err = b.Verify()
	return err
}

// NewParser creates a new hash parser.
func (cfg BUPConfig) NewParser() (s Parser, err error) {
	buhs := new(bucketParser)
	if err = buhs.init(cfg); err != nil {
		return nil, err
	}
	return buhs, nil
}

func (s *bucketParser) ParserConfig() ParserConfig {
	return &s.BUPConfig
}

// init initializes the hash parser. It returns an error if there is an issue
// with the configuration parameters.
func (s *bucketParser) init(cfg BUPConfig) error {
	cfg.SetDefaults()
	var err error
	if err = cfg.Verify(); err != nil {
		return err
	}

	b, _ := bucketCfg(&cfg)
	bc := bufferConfig(&cfg)
	if err = s.bucketDictionary.init(b, bc); err != nil {
		return err
	}

	s.BUPConfig = cfg
	return nil
}

// Parse converts the next block to sequences. The contents of the blk
// variable will be overwritten. The method returns the number of bytes
// sequenced and any error encountered. It return ErrEmptyBuffer if there is no
// further data available.
//
// If blk is nil the search structures will be filled. This mode can be used to
// ignore segments of data.
func (s *bucketParser) Parse(blk *Block, flags int) (n int, err error) {
	n = len(s.Data) - s.W
	if n > s.BlockSize {
		n = s.BlockSize
	}

	if blk == nil {
		if n == 0 {
			return 0, ErrEmptyBuffer
		}
		t := s.W + n
		s.processSegment(s.W-s.inputLen+1, t)
		s.W = t
		return n, nil

	}

	blk.Sequences = blk.Sequences[:0]
	blk.Literals = blk.Literals[:0]

	if n == 0 {
		return 0, ErrEmptyBuffer
	}

	s.processSegment(s.W-s.inputLen+1, s.W)
	p := s.Data[:s.W+n]

	inputEnd := len(p) - s.inputLen + 1
	i := s.W
	litIndex := i

	minMatchLen := 3
	if s.inputLen < minMatchLen {
		minMatchLen = s.inputLen
	}

	// Ensure that we can use _getLE64 all the time.
	_p := s.Data[:inputEnd+7]

	for ; i < inputEnd; i++ {
		x := _getLE64(_p[i:]) & s.mask
		h := hashValue(x, s.shift)
		v := uint32(x)
		o, k := 0, 0
		for _, e := range s.bucket(h) {
			if v != e.val {
				// An entry with pos == 0 and val == 0 is not
				// necessarily an empty slot: it may describe
				// position 0 of zero bytes. So we cannot stop
				// here.
				continue
			}
			j := int(e.pos)
			oe := i - j
			if !(0 < oe && oe <= s.WindowSize) {
				continue
			}
			// We are are not immediately computing the match length
			// but check a  byte, whether there is a chance to
			// find a longer match than already found.
			if k > 0 && p[j+k-1] != p[i+k-1] {
				continue
			}
			ke := lcp(p[j:], p[i:])
			if ke < k || (ke == k && oe >= o) {
				continue
			}
			o, k = oe, ke
		}
		s.add(h, uint32(i), v)
		if k < minMatchLen {
			continue
		}
		q := p[litIndex:i]
		blk.Sequences = append(blk.Sequences,
			Seq{
				LitLen:   uint32(len(q)),
				MatchLen: uint32(k),
				Offset:   uint32(o),
			})
		blk.Literals = append(blk.Literals, q...)
		litIndex = i + k
		var b int
		if litIndex > inputEnd {
			b = inputEnd
		} else {
			b = litIndex
		}
		for j := i + 1; j < b; j++ {
			x := _getLE64(_p[j:]) & s.mask
			h := hashValue(x, s.shift)
			s.add(h, uint32(j), uint32(x))
		}
		i = litIndex - 1
	}

	if flags&NoTrailingLiterals != 0 && len(blk.Sequences) > 0 {
		i = litIndex
	} else {
		blk.Literals = append(blk.Literals, p[litIndex:]...)
		i = len(p)
	}
	n = i - s.W
	s.W = i
	return n, nil
}
