// SPDX-FileCopyrightText: © 2021 Ulrich Kunitz
//
// SPDX-License-Identifier: BSD-3-Clause

package lz

import (
	"math/bits"
)

// hashParser allows the creation of sequence blocks using a simple hash
// table.
type hashParser struct {
	hashDictionary

	HPConfig
}

// HPConfig provides the configuration parameters for the
// HashParser. Parser doesn't use ShrinkSize and and BufferSize itself,
// but it provides it to other code that have to handle the buffer.
type HPConfig struct {
	ShrinkSize int
	BufferSize int
	WindowSize int
	BlockSize  int

	InputLen int
	HashBits int
}

// Clone creates a copy of the configuration.
func (cfg *HPConfig) Clone() ParserConfig {
	x := *cfg
	return &x
}

// UnmarshalJSON converts the JSON into the HPConfig structure.
func (cfg *HPConfig) UnmarshalJSON(p []byte) error {
	*cfg = HPConfig{}
	return unmarshalJSON(cfg, "HP", p)
}

// MarshalJSON creates the JSON string for the configuration. Note that it adds
// a property Type with value "HP" to the structure.
func (cfg *HPConfig) MarshalJSON() (p []byte, err error) {
	return marshalJSON(cfg, "HP")
}

// BufConfig returns the [BufConfig] value containing the buffer parameters.
func (cfg *HPConfig) BufConfig() BufConfig {
	bc := bufferConfig(cfg)
	return bc
}

// SetBufConfig sets the buffer configuration parameters of the parser
// configuration.
func (cfg *HPConfig) SetBufConfig(bc BufConfig) {
	setBufferConfig(cfg, bc)
}

// SetDefaults sets values that are zero to their defaults values.
func (cfg *HPConfig) SetDefaults() {
	bc := bufferConfig(cfg)
	bc.SetDefaults()
	setBufferConfig(cfg, bc)
	h, _ := hashCfg(cfg)
	h.SetDefaults()
	setHashCfg(cfg, h)
}

// Verify checks the configuration for correctness.
func (cfg *HPConfig) Verify() error {
	bc := bufferConfig(cfg)
	var err error
	if err = bc.Verify(); err != nil {
		return err
	}
	h, _ := hashCfg(cfg)
	err = h.Verify()
	return err
}

// NewParser creates a new hash parser.
func (cfg HPConfig) NewParser() (s Parser, err error) {
	hs := new(hashParser)
	if err = hs.init(cfg); err != nil {
		return nil, err
	}
	return hs, nil
}

// init initializes the hash parser. It returns an error if there is an issue
// with the configuration parameters.
func (s *hashParser) init(cfg HPConfig) error {
	cfg.SetDefaults()
	var err error
	if err = cfg.Verify(); err != nil {
		return err
	}

	hc, _ := hashCfg(&cfg)
	bc := bufferConfig(&cfg)
	if err = s.hashDictionary.init(hc, bc); err != nil {
		return err
	}

	s.HPConfig = cfg
	return nil
}

// ParserConfig returns the [HPConfig].
func (s *hashParser) ParserConfig() ParserConfig {
	return &s.HPConfig
}

// Parse converts the next block to sequences. The contents of the blk variable
// will be overwritten. The method returns the number of bytes sequenced and any
// error encountered. It returns ErrEmptyBuffer if there is no further data
// available.
//
// If blk is nil the internal hash will be filled. This mode can be used to
// ignore segments of data.
func (s *hashParser) Parse(blk *Block, flags int) (n int, err error) {
	n = len(s.Data) - s.W
	if n > s.BlockSize {
		n = s.BlockSize
	}

	if blk == nil {
		if n == 0 {
			return 0, ErrEmptyBuffer
		}
		t := s.W + n
		s.processSegment(s.W-s.hash.inputLen+1, t)
		s.W = t
		return n, nil

	}

	blk.Sequences = blk.Sequences[:0]
	blk.Literals = blk.Literals[:0]

	if n == 0 {
		return 0, ErrEmptyBuffer
	}

	s.processSegment(s.W-s.inputLen+1, s.W)
	p := s.Data[:s.W+n]

	inputEnd := len(p) - s.inputLen + 1
	i := s.W
	litIndex := i
	var minMatchLen int
	if s.inputLen < 3 {
		minMatchLen = s.inputLen
	} else {
		minMatchLen = 3
	}

	// Ensure that we can use _getLE64 all the time.
	_p := s.Data[:inputEnd+7]

	for ; i < inputEnd; i++ {
		y := _getLE64(_p[i:])
		x := y & s.mask
		h := hashValue(x, s.shift)
		entry := s.table[h]
		v := uint32(x)
		s.table[h] = hashEntry{
			pos:   uint32(i),
			value: v,
		}
		if v != entry.value {
			continue
		}
		// potential match
		j := int(entry.pos)
		o := i - j
		if !(0 < o && o <= s.WindowSize) {
			continue
		}
		k := bits.TrailingZeros64(_getLE64(_p[j:])^y) >> 3
		if k > len(p)-i {
			k = len(p) - i
		}
		if k < minMatchLen {
			continue
		}
		if k == 8 {
			r := p[j+8:]
			q := p[i+8:]
			for len(q) >= 8 {
				x := _getLE64(r) ^ _getLE64(q)
				b := bits.TrailingZeros64(x) >> 3
				k += b
				if b < 8 {
					goto match
				}
				r = r[8:]
				q = q[8:]
			}
			if len(q) > 0 {
				x := getLE64(r) ^ getLE64(q)
				b := bits.TrailingZeros64(x) >> 3
				if b > len(q) {
					b = len(q)
				}
				k += b
			}
		match:
		}

		q := p[litIndex:i]
		blk.Sequences = append(blk.Sequences,
			Seq{
				LitLen:   uint32(len(q)),
				MatchLen: uint32(k),
				Offset:   uint32(o),
			})
		blk.Literals = append(blk.Literals, q...)
		litIndex = i + k
		var b int
		if litIndex > inputEnd {
			b = inputEnd
		} else {
			b = litIndex
		}
		for j = i + 1; j < b; j++ {
			x := _getLE64(_p[j:]) & s.mask
			h := hashValue(x, s.shift)
			s.table[h] = hashEntry{
				pos:   uint32(j),
				value: uint32(x),
			}
		}
		i = litIndex - 1
	}

	// len(blk.Sequences) > 0 checks that the literals are actually trailing
	// a sequence. If there is not a single sequence found, then we have to
	// add all literals to make progress.
	if flags&NoTrailingLiterals != 0 && len(blk.Sequences) > 0 {
		i = litIndex
	} else {
		blk.Literals = append(blk.Literals, p[litIndex:]...)
		i = len(p)
	}
	n = i - s.W
	s.W = i
	return n, nil
}
