// SPDX-FileCopyrightText: © 2021 Ulrich Kunitz
//
// SPDX-License-Identifier: BSD-3-Clause

package lz

import (
	"math/bits"
)

// BDHPConfig provides the configuration parameters for the Backward-looking
// Double Hash Parser.
type BDHPConfig struct {
	ShrinkSize int
	BufferSize int
	WindowSize int
	BlockSize  int

	InputLen1 int
	HashBits1 int
	InputLen2 int
	HashBits2 int
}

// UnmarshalJSON parses the JSON value and sets the fields of BDHPConfig.
func (cfg *BDHPConfig) UnmarshalJSON(p []byte) error {
	*cfg = BDHPConfig{}
	return unmarshalJSON(cfg, "BDHP", p)
}

// MarshalJSON creates the JSON string for the configuration. Note that it adds
// a property Type with value "BDHP" to the structure.
func (cfg *BDHPConfig) MarshalJSON() (p []byte, err error) {
	return marshalJSON(cfg, "BDHP")
}

// Clone creates a copy of the configuration.
func (cfg *BDHPConfig) Clone() ParserConfig {
	x := *cfg
	return &x
}

// BufConfig returns the [BufConfig] value containing the buffer parameters.
func (cfg *BDHPConfig) BufConfig() BufConfig {
	bc := bufferConfig(cfg)
	return bc
}

// SetBufConfig sets the buffer configuration.
func (cfg *BDHPConfig) SetBufConfig(bc BufConfig) {
	setBufferConfig(cfg, bc)
}

// Verify checks the configuration for errors.
func (cfg *BDHPConfig) Verify() error {
	var err error
	bc := bufferConfig(cfg)
	if err = bc.Verify(); err != nil {
		return err
	}
	d, _ := dhCfg(cfg)
	if err = d.Verify(); err != nil {
		return err
	}
	return nil
}

// SetDefaults uses the defaults for the configuration parameters that are set
// to zero.
func (cfg *BDHPConfig) SetDefaults() {
	bc := bufferConfig(cfg)
	bc.SetDefaults()
	setBufferConfig(cfg, bc)
	d, _ := dhCfg(cfg)
	d.SetDefaults()
	setDHCfg(cfg, d)
}

// NewParser creates a new DoubleHashParser.
func (cfg BDHPConfig) NewParser() (s Parser, err error) {
	bdhs := new(bdhp)
	if err = bdhs.init(cfg); err != nil {
		return nil, err
	}
	return bdhs, nil
}

// bdhp uses two hashes and tries to extend matches backward.
type bdhp struct {
	doubleHashDictionary

	BDHPConfig
}

// Config returns [BDHPConfig]
func (s *bdhp) ParserConfig() ParserConfig {
	return &s.BDHPConfig
}

// Init initializes the parser. The method returns an error if the configuration
// contains inconsistencies and the parser remains uninitialized.
func (s *bdhp) init(cfg BDHPConfig) error {
	cfg.SetDefaults()
	var err error
	if err = cfg.Verify(); err != nil {
		return err
	}

	dhc, _ := dhCfg(&cfg)
	bc := bufferConfig(&cfg)
	if err = s.doubleHashDictionary.init(dhc, bc); err != nil {
		return err
	}

	s.BDHPConfig = cfg
	return nil
}

// Parse computes the LZ77 sequence for the next block. It returns the number
// of bytes actually sequenced. ErrEmptyBuffer will be returned if there is no
// data to sequence.
func (s *bdhp) Parse(blk *Block, flags int) (n int, err error) {
	n = len(s.Data) - s.W
	if n > s.BlockSize {
		n = s.BlockSize
	}

	if blk == nil {
		if n == 0 {
			return 0, ErrEmptyBuffer
		}
		t := s.W + n
		s.processSegment(s.W-s.h2.inputLen+1, t)
		s.W = t
		return n, nil
	}

	blk.Sequences = blk.Sequences[:0]
	blk.Literals = blk.Literals[:0]

	if n == 0 {
		return 0, ErrEmptyBuffer
	}

	s.processSegment(s.W-s.h2.inputLen+1, s.W)

	p := s.Data[:s.W+n]

	e1 := len(p) - s.h1.inputLen + 1
	e2 := len(p) - s.h2.inputLen + 1

	i := s.W
	litIndex := i

	minMatchLen := 3
	if s.h1.inputLen < minMatchLen {
		minMatchLen = s.h1.inputLen
	}

	// Ensure that we can use _getLE64 all the time.
	_p := s.Data[:e1+7]

	for ; i < e2; i++ {
		y := _getLE64(_p[i:])
		x := y & s.h2.mask
		h := hashValue(x, s.h2.shift)
		entry := s.h2.table[h]
		v2 := uint32(x)
		pos := uint32(i)
		s.h2.table[h] = hashEntry{pos: pos, value: v2}

		x = y & s.h1.mask
		h = hashValue(x, s.h1.shift)
		entry1 := s.h1.table[h]
		v1 := uint32(x)
		s.h1.table[h] = hashEntry{pos: pos, value: v1}
		if v2 != entry.value {
			if v1 != entry1.value {
				continue
			}
			entry = entry1
		}
		// potential match
		j := int(entry.pos)
		o := i - j
		if !(0 < o && o <= s.WindowSize) {
			continue
		}
		k := bits.TrailingZeros64(_getLE64(_p[j:])^y) >> 3
		if k > len(p)-i {
			k = len(p) - i
		}
		if k < minMatchLen {
			continue
		}
		if k == 8 {
			r := p[j+8:]
			q := p[i+8:]
			for len(q) >= 8 {
				x := _getLE64(r) ^ _getLE64(q)
				b := bits.TrailingZeros64(x) >> 3
				k += b
				if b < 8 {
					goto match
				}
				r = r[8:]
				q = q[8:]
			}
			if len(q) > 0 {
				x := getLE64(r) ^ getLE64(q)
				b := bits.TrailingZeros64(x) >> 3
				if b > len(q) {
					b = len(q)
				}
				k += b
			}
		match:
		}
		if back := i - litIndex; back > 0 {
			if back > j {
				back = j
			}
			m := lcs(p[j-back:j], p[:i])
			i -= m
			k += m
		}
		q := p[litIndex:i]
		blk.Sequences = append(blk.Sequences,
			Seq{
				MatchLen: uint32(k),
				LitLen:   uint32(len(q)),
				Offset:   uint32(o),
			})
		blk.Literals = append(blk.Literals, q...)
		litIndex = i + k
		b := litIndex
		if litIndex > e2 {
			b = e2
		}
		for j = i + 1; j < b; j++ {
			y := _getLE64(_p[j:])

			pos := uint32(j)

			x = y & s.h1.mask
			h = hashValue(x, s.h1.shift)
			s.h1.table[h] = hashEntry{pos: pos, value: uint32(x)}
		}
		if j < litIndex {
			b = litIndex
			if litIndex > e1 {
				b = e1
			}
			for ; j < b; j++ {
				x := _getLE64(_p[j:]) & s.h1.mask
				h := hashValue(x, s.h1.shift)
				s.h1.table[h] = hashEntry{
					pos:   uint32(j),
					value: uint32(x),
				}
			}
		}
		i = litIndex - 1
	}
	for ; i < e1; i++ {
		y := _getLE64(_p[i:])
		x := y & s.h1.mask
		h := hashValue(x, s.h1.shift)
		entry := s.h1.table[h]
		v1 := uint32(x)
		s.h1.table[h] = hashEntry{
			pos:   uint32(i),
			value: v1,
		}
		if v1 != entry.value {
			continue
		}
		// potential match
		j := int(entry.pos)
		// j must not be less than window start
		o := i - j
		if !(0 < o && o <= s.WindowSize) {
			continue
		}
		k := bits.TrailingZeros64(_getLE64(_p[j:])^y) >> 3
		if k > len(p)-int(i) {
			k = len(p) - int(i)
		}
		if k < minMatchLen {
			continue
		}
		if k == 8 {
			r := p[j+8:]
			q := p[i+8:]
			for len(q) >= 8 {
				x := _getLE64(r) ^ _getLE64(q)
				b := bits.TrailingZeros64(x) >> 3
				k += b
				if b < 8 {
					goto match1
				}
				r = r[8:]
				q = q[8:]
			}
			if len(q) > 0 {
				x := getLE64(r) ^ getLE64(q)
				b := bits.TrailingZeros64(x) >> 3
				if b > len(q) {
					b = len(q)
				}
				k += b
			}
		match1:
		}
		if back := i - litIndex; back > 0 {
			if back > j {
				back = j
			}
			m := lcs(p[j-back:j], p[:i])
			i -= m
			k += m
		}
		q := p[litIndex:i]
		blk.Sequences = append(blk.Sequences,
			Seq{
				MatchLen: uint32(k),
				LitLen:   uint32(len(q)),
				Offset:   uint32(o),
			})
		blk.Literals = append(blk.Literals, q...)
		litIndex = i + k
		b := litIndex
		if b > e1 {
			b = e1
		}
		for ; j < b; j++ {
			x := _getLE64(_p[j:]) & s.h1.mask
			h := hashValue(x, s.h1.shift)
			s.h1.table[h] = hashEntry{
				pos:   uint32(j),
				value: uint32(x),
			}
		}
		i = litIndex - 1
	}

	if flags&NoTrailingLiterals != 0 && len(blk.Sequences) > 0 {
		i = litIndex
	} else {
		blk.Literals = append(blk.Literals, p[litIndex:]...)
		i = len(p)
	}
	n = int(i) - s.W
	s.W = int(i)
	return n, nil
}
