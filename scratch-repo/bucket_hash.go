// SPDX-FileCopyrightText: © 2021 Ulrich Kunitz
//
// SPDX-License-Identifier: BSD-3-Clause

package lz

import (
	"errors"
	"fmt"
	"reflect"
)

type bucketEntry struct {
	pos uint32
	val uint32
}

type bucketHash struct {
	buckets    []bucketEntry
	indexes    []byte
	mask       uint64
	shift      uint
	inputLen   int
	bucketSize int
}

func (bh *bucketHash) bucket(h uint32) []bucketEntry {
	k := int(h) * bh.bucketSize
	return bh.buckets[k : k+bh.bucketSize]
}

func (bh *bucketHash) add(h, pos, val uint32) {
	pi := &bh.indexes[h]
	i := int(*pi)
	k := int(h)*bh.bucketSize + i
	bh.buckets[k] = bucketEntry{pos, val}
	i++
	if i >= bh.bucketSize {
		i = 0
	}
	*pi = byte(i)
}

type bucketConfig struct {
	InputLen   int
	HashBits   int
	BucketSize int
}

var errNoBucketConfig = errors.New("lz: no bucket hash configuration")

func bucketCfg(cfg ParserConfig) (b bucketConfig, err error) {
	v := reflect.Indirect(reflect.ValueOf(cfg))
	f := hasVal(v, "InputLen")
	f = f && hasVal(v, "HashBits")
	f = f && hasVal(v, "BucketSize")
	if !f {
		return bucketConfig{}, errNoBucketConfig
	}
	b.InputLen = iVal(v, "InputLen")
	b.HashBits = iVal(v, "HashBits")
	b.BucketSize = iVal(v, "BucketSize")
	return b, nil
}

func setBucketCfg(cfg ParserConfig, b bucketConfig) error {
	v := reflect.Indirect(reflect.ValueOf(cfg))
	f := hasVal(v, "InputLen")
	f = f && hasVal(v, "HashBits")
	f = f && hasVal(v, "BucketSize")
	if !f {
		return errNoBucketConfig
	}
	setIVal(v, "InputLen", b.InputLen)
	setIVal(v, "HashBits", b.HashBits)
	setIVal(v, "BucketSize", b.BucketSize)
	return nil
}

func (cfg *bucketConfig) SetDefaults() {
	if cfg.InputLen == 0 {
		cfg.InputLen = 3
	}
	if cfg.HashBits == 0 {
		cfg.HashBits = 12
	}
	if cfg.BucketSize == 0 {
		cfg.BucketSize = 10
	}
}

func (cfg *bucketConfig) Verify() error {
	if !(2 <= cfg.InputLen && cfg.InputLen <= 8) {
		return fmt.Errorf(
			"lz: InputLen=%d; must be in range [2,8]", cfg.InputLen)
	}
	// We want to reduce the hash table size, which may lead to
	// out-of-memory conditions.
	maxHashBits := 23
	if t := 8 * cfg.InputLen; t < maxHashBits {
		maxHashBits = t
	}
	if !(0 <= cfg.HashBits && cfg.HashBits <= maxHashBits) {
		return fmt.Errorf("lz: HashBits=%d; must be <= %d",
			cfg.HashBits, maxHashBits)
	}
	if !(1 <= cfg.BucketSize && cfg.BucketSize <= 128) {
		return fmt.Errorf("lz: BucketSize=%d; must be in range [1,128]",
			cfg.BucketSize)
	}
	return nil
}

func (bh *bucketHash) init(cfg *bucketConfig) error {
	cfg.SetDefaults()
	var err error
	if err = cfg.Verify(); err != nil {
		return err
	}

	n := 1 << cfg.HashBits
	*bh = bucketHash{
		buckets:    make([]bucketEntry, n*cfg.BucketSize),
		indexes:    make([]byte, n),
		mask:       1<<(cfg.InputLen*8) - 1,
		shift:      64 - uint(cfg.HashBits),
		inputLen:   cfg.InputLen,
		bucketSize: cfg.BucketSize,
	}
	return nil
}

func (bh *bucketHash) reset() {
	for i := range bh.buckets {
		bh.buckets[i] = bucketEntry{}
	}
	for i := range bh.indexes {
		bh.indexes[i] = 0
	}
}

func (bh *bucketHash) shiftOffsets(delta uint32) {
	if delta == 0 {
		return
	}

	tmp := make([]bucketEntry, bh.bucketSize)
	for h, j := range bh.indexes {
		b := bh.bucket(uint32(h))
		i := 0
		for _, e := range b[j:] {
			if e.pos < delta {
				continue
			}
			e.pos -= delta
			tmp[i] = e
			i++
		}
		for _, e := range b[:j] {
			if e.pos < delta {
				continue
			}
			e.pos -= delta
			tmp[i] = e
			i++
		}
		copy(b, tmp[:i])
		if i >= bh.bucketSize {
			i = 0
		} else {
			p := b[i:]
			for k := range p {
				p[k] = bucketEntry{}
			}
		}
		bh.indexes[h] = byte(i)
	}
}

type bucketDictionary struct {
	ParserBuffer
	bucketHash
}

func (f *bucketDictionary) init(cfg bucketConfig, bcfg BufConfig) error {
	var err error
	if err = f.ParserBuffer.Init(bcfg); err != nil {
		return err
	}
	cfg.SetDefaults()
	if err = cfg.Verify(); err != nil {
		return err
	}
	err = f.bucketHash.init(&cfg)
	return err
}

func (f *bucketDictionary) Reset(data []byte) error {
	var err error
	if err = f.ParserBuffer.Reset(data); err != nil {
		return err
	}
	f.bucketHash.reset()
	return nil
}

func (f *bucketDictionary) Shrink() int {
	delta := f.ParserBuffer.Shrink()
	if delta > 0 {
		f.bucketHash.shiftOffsets(uint32(delta))
	}
	return delta
}

func (f *bucketDictionary) processSegment(a, b int) {
	if a < 0 {
		a = 0
	}
	c := len(f.Data) - f.inputLen + 1
	if c < b {
		b = c
	}
	if b <= 0 {
		return
	}

	_p := f.Data[:b+7]
	for i := a; i < b; i++ {
		x := _getLE64(_p[i:]) & f.mask
		f.add(hashValue(x, f.shift), uint32(i), uint32(x))
	}
}
