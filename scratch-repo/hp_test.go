// SPDX-FileCopyrightText: © 2021 Ulrich Kunitz
//
// SPDX-License-Identifier: BSD-3-Clause

package lz

import (
	"bytes"
	"crypto/sha256"
	"encoding/json"
	"flag"
	"fmt"
	"io"
	"os"
	"strings"
	"testing"
)

func TestHashParserSimple(t *testing.T) {
	const str = "=====foofoobarfoobar bartender===="

	var s hashParser
	err := s.init(HPConfig{
		WindowSize: 1024,
		BlockSize:  512,
		InputLen:   3,
	})

	if err != nil {
		t.Fatalf("s.Init error %s", err)
	}
	if _, err := s.Write([]byte(str)); err != nil {
		t.Fatalf("s.Writer error %s", err)
	}

	var blk Block
	n, err := s.Parse(&blk, 0)
	if err != nil {
		t.Fatalf("s.Parse error %s", err)
	}
	if n != len(str) {
		t.Fatalf("s.Parse returned %d; want %d", n, len(str))
	}
	t.Logf("sequences: %+v", blk.Sequences)
	t.Logf("len(sequences): %d", len(blk.Sequences))
	t.Logf("literals: %q", blk.Literals)
	if len(blk.Sequences) != 5 {
		t.Errorf("len(blk.Sequences)=%d; want %d",
			len(blk.Sequences), 5)
	}
	if len(blk.Literals) >= len(str) {
		t.Errorf("len(blk.Literals)=%d; should < %d",
			len(blk.Literals), len(str))
	}

	var buf bytes.Buffer
	var d Decoder
	if err := d.Init(&buf, DecoderConfig{WindowSize: 1024}); err != nil {
		t.Fatalf("dw.Init(%d) error %s", 1024, err)
	}
	m, k, l, err := d.WriteBlock(blk)
	if err != nil {
		t.Fatalf("dw.WriteBlock(blk) error %s", err)
	}
	if k != len(blk.Sequences) {
		t.Fatalf("dw.WriteBlock returned k=%d; want %d sequences",
			k, len(blk.Sequences))
	}
	if l != len(blk.Literals) {
		t.Fatalf("dw.WriteBlock returned l=%d; want %d literals",
			l, len(blk.Literals))
	}
	if m != len(str) {
		t.Fatalf("dw.WriteBlock(blk) returned %d; want %d bytes",
			m, len(str))
	}
	if err = d.Flush(); err != nil {
		t.Fatalf("d.Flush() error %s", err)
	}

	g := buf.String()
	if g != str {
		t.Fatalf("uncompressed string %q; want %q", g, str)
	}
	t.Logf("g: %q", g)
}

func FuzzHP(f *testing.F) {
	f.Add(3, 5, []byte("=====foofoobarfoobar bartender===="))
	f.Fuzz(func(t *testing.T, inputLen int, hashBits int, p []byte) {
		cfg := &HPConfig{
			WindowSize: 1024,
			BlockSize:  512,
			InputLen:   inputLen,
			HashBits:   hashBits,
		}
		testParser(t, cfg, p)
	})
}

func TestWrapOldHashParser(t *testing.T) {
	const (
		windowSize = 1024
		blockSize  = 512
		str        = "=====foofoobarfoobar bartender===="
	)

	cfg := HPConfig{
		WindowSize: windowSize,
		BlockSize:  blockSize,
		InputLen:   3,
	}
	ws, err := cfg.NewParser()
	if err != nil {
		t.Fatalf("NewHashParser error %s", err)
	}
	s := Wrap(strings.NewReader(str), ws)

	var builder strings.Builder
	var decoder Decoder
	decoder.Init(&builder, DecoderConfig{WindowSize: windowSize})

	var blk Block
	for {
		if _, err := s.Parse(&blk, 0); err != nil {
			if err == io.EOF {
				break
			}
			t.Fatalf("s.Parse error %s", err)
		}
		if _, _, _, err := decoder.WriteBlock(blk); err != nil {
			t.Fatalf("decoder.WriteBlock error %s", err)
		}
	}
	if err := decoder.Flush(); err != nil {
		t.Fatalf("decoder.Flush error %s", err)
	}

	g := builder.String()
	if g != str {
		t.Fatalf("got string %q; want %q", g, str)
	}
}

func TestHashParserEnwik7(t *testing.T) {
	const (
		enwik7     = "testdata/enwik7"
		blockSize  = 128 * 1024
		windowSize = 2*blockSize + 123
	)
	f, err := os.Open(enwik7)
	if err != nil {
		t.Fatalf("os.Open(%q) error %s", enwik7, err)
	}
	defer func() {
		if err = f.Close(); err != nil {
			t.Fatalf("f.Close() error %s", err)
		}
	}()
	h1 := sha256.New()
	r := io.TeeReader(f, h1)

	cfg := HPConfig{
		ShrinkSize: windowSize + 100,
		WindowSize: windowSize,
		BufferSize: 2 * windowSize,
		BlockSize:  blockSize,
		InputLen:   3,
	}
	ws, err := cfg.NewParser()
	if err != nil {
		t.Fatalf("NewHashParser(%+v) error %s", cfg, err)
	}
	s := Wrap(r, ws)

	h2 := sha256.New()
	var decoder Decoder
	if err = decoder.Init(h2, DecoderConfig{WindowSize: windowSize}); err != nil {
		t.Fatalf("decoder.Init() error %s", err)
	}

	var blk Block
	for {
		_, err = s.Parse(&blk, 0)
		if err != nil {
			if err == io.EOF {
				break
			}
			t.Fatalf("s.Parse error %s", err)
		}
		if len(blk.Sequences) == 0 {
			t.Fatalf("s.Parse doesn't compress")
		}
		if _, _, _, err := decoder.WriteBlock(blk); err != nil {
			t.Fatalf("decoder.WriteBlock error %s", err)
		}
	}
	if err := decoder.Flush(); err != nil {
		t.Fatalf("decoder.Flush error %s", err)
	}

	sum1 := h1.Sum(nil)
	sum2 := h2.Sum(nil)

	if !bytes.Equal(sum1, sum2) {
		t.Fatalf("decoded hash sum: %x; want %x", sum2, sum1)
	}
}

type loopReader struct {
	r io.ReadSeeker
}

func (ir *loopReader) Read(p []byte) (n int, err error) {
	n, err = ir.r.Read(p)
	if err != io.EOF {
		return n, err
	}
	if _, err = ir.r.Seek(0, io.SeekStart); err != nil {
		return n, err
	}
	if n == len(p) {
		return n, nil
	}
	var k int
	k, err = ir.r.Read(p[n:])
	n += k
	return n, err

}

func newLoopReader(r io.ReadSeeker) *loopReader {
	return &loopReader{r}
}

func TestLoopReader(t *testing.T) {
	const str = "The brown fox jumps ove the lazy dog."

	const size = 128
	r := io.LimitReader(newLoopReader(strings.NewReader(str)), size)

	var sb strings.Builder
	n, err := io.Copy(&sb, r)
	if err != nil {
		t.Fatalf("io.Copy(&sb, r) error %s", err)
	}
	if n != size {
		t.Fatalf("io.Copy(&sb. r) returns %d; want %d", n, size)
	}
	t.Logf("%q", sb.String())
}

var largeFlag = flag.Bool("large", false, "test large parameters")

func TestLargeParameters(t *testing.T) {
	if !*largeFlag {
		t.Skipf("use -large flag to execute test")
	}
	if testing.Short() {
		t.Skipf("test is slow")
	}
	const enwik7 = "testdata/enwik7"

	var tests = []struct {
		filename string
		size     int64
		cfg      HPConfig
	}{
		// 1 << 30 is a Gigabyte
		{enwik7, 1 << 30, HPConfig{
			WindowSize: 8 << 20,
			BlockSize:  128 * kiB,
			InputLen:   3,
		}},
	}

	for i, tc := range tests {
		tc := tc
		t.Run(fmt.Sprintf("%d", i+1), func(t *testing.T) {
			f, err := os.Open(tc.filename)
			if err != nil {
				t.Fatalf("os.Open(%q) error %s", tc.filename,
					err)
			}
			defer func() {
				if err := f.Close(); err != nil {
					t.Fatalf("f.Close() error %s", err)
				}
			}()
			r := io.LimitReader(newLoopReader(f), tc.size)
			ws, err := tc.cfg.NewParser()
			if err != nil {
				t.Fatalf("NewHashParser(%+v) error %s",
					tc.cfg, err)
			}
			h1, h2 := sha256.New(), sha256.New()
			s := Wrap(io.TeeReader(r, h1), ws)

			var d Decoder
			d.Init(h2, DecoderConfig{WindowSize: tc.cfg.WindowSize})

			var blk Block
			var n int64
			for {
				k, err := s.Parse(&blk, 0)
				n += int64(k)
				if err != nil {
					if err == io.EOF {
						break
					}
					t.Fatalf("s.Parse(&blk, 0) error %s",
						err)
				}

				if len(blk.Sequences) == 0 {
					t.Fatalf("no compression")
				}

				_, _, _, err = d.WriteBlock(blk)
				if err != nil {
					t.Fatalf("d.WriteBlock(blk) error %s",
						err)
				}

			}

			if err = d.Flush(); err != nil {
				t.Fatalf("d.Flush() error %s", err)
			}

			s1, s2 := h1.Sum(nil), h2.Sum(nil)
			if !bytes.Equal(s1, s2) {
				t.Fatalf("decompressed hash %x; want %x",
					s1, s2)
			}
		})
	}
}

func TestHP_JSON(t *testing.T) {
	a := HPConfig{
		WindowSize: 1024,
		InputLen:   4,
	}

	p, err := json.MarshalIndent(&a, "", "  ")
	if err != nil {
		t.Fatalf("json.MarshalIndent error %s", err)
	}
	t.Logf("json:\n%s", p)
	b := HPConfig{}
	err = json.Unmarshal(p, &b)
	if err != nil {
		t.Fatalf("json.Unmarshal error %s", err)
	}
	if b != a {
		t.Fatalf("json.Unmarshal returned %+v; want %+v", b, a)
	}

	s, err := ParseJSON(p)
	if err != nil {
		t.Fatalf("ParseJSON error %s", err)
	}
	c, ok := s.(*HPConfig)
	if !ok {
		t.Fatalf("ParseJSON returned %+v, no HPConfig", s)
	}

	if *c != a {
		t.Fatalf("ParseJSON returned %+v; want %+v", c, a)
	}
}
