// SPDX-FileCopyrightText: © 2021 Ulrich Kunitz
//
// SPDX-License-Identifier: BSD-3-Clause

// Package suffix provides a suffix sort algorithm.
//
// It is based on the DivSufSort algorithm as described in the
// [Dismantling DivSufSort] paper.
//
// [DivSufSort]: https://arxiv.org/pdf/1710.01896.pdf
package suffix

import (
	"fmt"
	"testing"
)

type config struct {
	sizeThreshold   int
	trSizeThreshold int
	t               *testing.T
}

// Sort computes the suffix array. The slice sa must have the same length as t.
func Sort(t []byte, sa []int32) {
	config{
		sizeThreshold: 7,
	}.sort(t, sa)
}

// sort computes the suffix array using the A, B and B* types.
func (cfg config) sort(t []byte, sa []int32) {
	// Look for a simple error.
	if len(t) != len(sa) {
		panic(fmt.Errorf("len(t)=%d is different from len(sa)=%d",
			len(t), len(sa)))
	}

	// Check for simple cases and return.
	switch len(t) {
	case 0:
		return
	case 1:
		sa[0] = 0
		return
	case 2:
		if t[0] < t[1] {
			sa[0], sa[1] = 0, 1
		} else {
			sa[0], sa[1] = 1, 0
		}
		return
	}

	// Count the A, B and B* types. We are also computing the B* positions.
	var aBuckets [256]int32
	bBuckets, bStarBuckets := newBBucketsPair()

	var c0, c1 int
	i := int32(len(t) - 1)
	c0 = int(t[i])
	m := len(sa)
scanLoop:
	for {
		for {
			aBuckets[c0]++
			i--
			if i < 0 {
				break scanLoop
			}
			c0, c1 = int(t[i]), c0
			if c0 < c1 {
				break
			}
		}
		bStarBuckets.inc(c0, c1)
		m--
		sa[m] = int32(i)
		for {
			i--
			if i < 0 {
				break scanLoop
			}
			c0, c1 = int(t[i]), c0
			if c0 > c1 {
				break
			}
			bBuckets.inc(c0, c1)
		}
	}
	// compute the total number of B* suffixes
	m = len(sa) - m

	// Compute offsets. A-offsets point to the start of the buckets in the
	// final SA. B-offsets point to the end of the buckets in the final SA.
	// B*-offsets point to the start of the buckets in the B*-only suffix
	// array.
	i = 0
	j := int32(0)
	for c0 = 0; c0 < sigma; c0++ {
		t := i + aBuckets[c0]
		aBuckets[c0] = i + j
		i = t + bBuckets.at(c0, c0)
		for c1 = c0 + 1; c1 < sigma; c1++ {
			j += bStarBuckets.at(c0, c1)
			bStarBuckets.set(c0, c1, j)
			i += bBuckets.at(c0, c1)
		}
	}

	if m > 0 {
		// Sort the B* buckets into their right position at the front of
		// the sa array. The value is negated if the B* substring equals
		// the preceding value.
		var l int
		for l, j = range sa[len(sa)-m : len(sa)-1] {
			c0, c1 = int(t[j]), int(t[j+1])
			i = bStarBuckets.dec(c0, c1)
			sa[i] = int32(l)
		}
		l, j = m-1, sa[len(sa)-1]
		c0, c1 = int(t[j]), int(t[j+1])
		li := bStarBuckets.dec(c0, c1)
		sa[li] = int32(l)

		s := cfg.newSsorter(sa[:m], t, sa[len(sa)-m:])

		c0 = sigma - 2
		j = int32(m)
		for j > 0 {
			for c1 = sigma - 1; c0 < c1; c1-- {
				i = bStarBuckets.at(c0, c1)
				if j-i > 1 {
					s.ssort(int(i), int(j), li == i)
				}
				j = i
			}
			c0--
		}

		/*
			if err := verifyAfterSsort(t, sa, m, bStarBuckets); err != nil {
				panic(fmt.Errorf("verifyAfterSsort error %w", err))
			}
		*/

		// The isa table will be filled by the ranks. Segments that are
		// equal are filled with the maximum rank of that value.
		// Segments with different substrings are marked with the number
		// of substrings in the first position.
		isa := sa[m : 2*m]
		for i = int32(m - 1); i >= 0; i-- {
			if sa[i] >= 0 {
				j = i
				for {
					isa[sa[i]] = i
					i--
					if i < 0 || sa[i] < 0 {
						break
					}
				}
				sa[i+1] = i - j
				if i <= 0 {
					// i will never equals zero
					break
				}
			}
			j = i
			for {
				sa[i] = ^sa[i]
				isa[sa[i]] = j
				i--
				if sa[i] >= 0 {
					break
				}
			}
			isa[sa[i]] = j
		}

		// fmt.Printf("#1 sa[:m=%d]=%d\n", m, sa[:m])
		// fmt.Printf("#1 isa=%d\n", isa)

		// sort B* suffixes using the ranks
		cfg.trSort(sa[:m], isa)

		// fmt.Printf("#2 sa[:m=%d]=%d\n", m, sa[:m])
		// fmt.Printf("#2 isa=%d\n", isa)

		/*
			if err := verifyAfterTrsort(t, sa, m); err != nil {
				panic(err)
			}
		*/

		// create correct suffix array of B* by scanning t
		i := int32(len(t) - 1)
		c0 = int(t[i])
		j = int32(m)
	loop2:
		for {
			c1 = c0
			i--
			for {
				if i < 0 {
					break loop2
				}
				c0 = int(t[i])
				if c0 < c1 {
					break
				}
				c1 = c0
				i--
			}
			k := i
			for {
				i--
				if i < 0 {
					break
				}
				c0, c1 = int(t[i]), c0
				if c0 > c1 {
					break
				}
			}
			if k-i == 1 {
				k = -k
			}
			j--
			sa[isa[j]] = k
			if i < 0 {
				break
			}
		}

		// Copy sa values for B* suffixes to the right place and compute
		// offsets for the end of B-suffixes. The B* offsets will now
		// contain at (c0,sigma-1) the first position of the B offsets.
		bBuckets.set(sigma-1, sigma-1, int32(len(t)))
		k := int32(m)
		// Get a slice for the end offsets of the A buckets.
		aBucketEnds := bStarBuckets.a[(sigma-1)*sigma : sigma*sigma-1]
		for c0 = sigma - 2; c0 >= 0; c0-- {
			i := aBuckets[c0+1]
			for c1 = sigma - 1; c0 < c1; c1-- {
				i1 := bBuckets.at(c0, c1)
				bBuckets.set(c0, c1, i)
				i -= i1
				j = bStarBuckets.at(c0, c1)
				i -= k - j
				copy(sa[i:], sa[j:k])
				k = j
			}
			aBucketEnds[c0] = i - bBuckets.at(c0, c0)
			bBuckets.set(c0, c0, i)
		}

		// induce B suffixes
		for c1 = sigma - 2; c1 >= 0; c1-- {
			i = aBuckets[c1+1] - 1
			k := aBucketEnds[c1]
			for ; i >= k; i-- {
				j = sa[i]
				sa[i] = -j
				if j <= 0 {
					continue
				}
				j--
				c0 = int(t[j])
				if j > 0 && int(t[j-1]) > c0 {
					// preceding suffix is A
					j = -j
				}
				sa[bBuckets.dec(c0, c1)] = j
			}
		}

	}

	// induce A suffixes

	// the last suffix is an A-type
	j = int32(len(t) - 1)
	c0, c1 = int(t[j-1]), int(t[j])
	if c0 < c1 {
		// preceding suffix is type B
		j = -j
	}
	sa[aBuckets[c1]] = j
	aBuckets[c1]++

	// Now we can actually induce.
	for i, j := range sa {
		if j <= 0 {
			sa[i] = -j
			continue
		}
		j--
		c0 = int(t[j])
		if j > 0 && int(t[j-1]) < c0 {
			j = -j
		}
		sa[aBuckets[c0]] = j
		aBuckets[c0]++
	}
}

// sigma is the size of the alphabet. For sorting bytes the size is 2^8 = 256.
const sigma = 256

type bBuckets struct {
	a *[sigma * sigma]int32
}

func (b *bBuckets) index(c0, c1 int) int {
	return c0*sigma + c1
}

func (b *bBuckets) at(c0, c1 int) int32     { return b.a[b.index(c0, c1)] }
func (b *bBuckets) inc(c0, c1 int)          { b.a[b.index(c0, c1)]++ }
func (b *bBuckets) set(c0, c1 int, n int32) { b.a[b.index(c0, c1)] = n }

func (b *bBuckets) dec(c0, c1 int) int32 {
	k := b.index(c0, c1)
	b.a[k]--
	return b.a[k]
}

type bStarBuckets struct {
	a *[sigma * sigma]int32
}

func (b *bStarBuckets) index(c0, c1 int) int {
	return c1*sigma + c0
}

func (b *bStarBuckets) at(c0, c1 int) int32     { return b.a[b.index(c0, c1)] }
func (b *bStarBuckets) inc(c0, c1 int)          { b.a[b.index(c0, c1)]++ }
func (b *bStarBuckets) set(c0, c1 int, n int32) { b.a[b.index(c0, c1)] = n }

func (b *bStarBuckets) dec(c0, c1 int) int32 {
	k := b.index(c0, c1)
	b.a[k]--
	return b.a[k]
}

func newBBucketsPair() (b *bBuckets, bStar *bStarBuckets) {
	var a [sigma * sigma]int32
	b = &bBuckets{a: &a}
	bStar = &bStarBuckets{a: &a}
	return b, bStar
}

// The functions below allow verifications for certain points in the sort
// routine.
/*
func bStarPositions(t []byte) []int32 {
	var a []int32
	var c0, c1 int
	i := int32(len(t) - 1)
	c0 = int(t[i])
scanLoop:
	for {
		for {
			i--
			if i < 0 {
				break scanLoop
			}
			c0, c1 = int(t[i]), c0
			if c0 < c1 {
				break
			}
		}
		a = append(a, int32(i))
		for {
			i--
			if i < 0 {
				break scanLoop
			}
			c0, c1 = int(t[i]), c0
			if c0 > c1 {
				break
			}
		}
	}
	for i := 0; i < len(a)/2; i++ {
		a[i], a[len(a)-1-i] = a[len(a)-1-i], a[i]
	}
	return a
}

// verifyBStarPositions verifies all B* positions stored at the end of sa.
func verifyBStarPositions(t []byte, sa []int32, m int) error {
	a := bStarPositions(t)
	if len(a) != m {
		return fmt.Errorf("m is %d; want %d", m, len(a))
	}
	b := sa[len(sa)-m:]
	for i, k := range a {
		if k != b[i] {
			return fmt.Errorf("sa[len(a)-m+%d]=%d; want %d",
				i, b[i], k)
		}
	}
	return nil
}

func bStarSubstring(t []byte, sa []int32, m int, i int) []byte {
	if i == m-1 {
		return t[sa[len(sa)-1]:]
	}
	j := len(sa) - m + i
	return t[sa[j] : sa[j+1]+2]
}

// verifyAfterSsort verifies that sa has the correct entries after substring
// sorting.
func verifyAfterSsort(t []byte, sa []int32, m int, bStarBuckets *bStarBuckets) error {
	var err error
	if err = verifyBStarPositions(t, sa, m); err != nil {
		return err
	}
	for i := 0; i < m-1; i++ {
		a, b := absNeg(sa[i]), absNeg(sa[i+1])
		u := bStarSubstring(t, sa, m, int(a))
		v := bStarSubstring(t, sa, m, int(b))
		switch bytes.Compare(u, v) {
		case 0:
			if sa[i+1] >= 0 {
				return fmt.Errorf("sa[%d]=%d >= 0; want < 0",
					i+1, sa[i+1])
			}
		case 1:
			return fmt.Errorf("substring for sa[%d]=%d > sa[%d]=%d",
				i, sa[i], i+1, sa[i+1])
		}

	}
	return nil
}

func verifyAfterTrsort(t []byte, sa []int32, m int) error {
	a := bStarPositions(t)
	if m != len(a) {
		return fmt.Errorf("m=%d; want %d", m, len(a))
	}
	isa := sa[m : 2*m]
	b := make([]int32, m)
	for i, r := range isa {
		b[r] = int32(i)
	}

	for i := 0; i < len(b)-1; i++ {
		u := t[a[b[i]]:]
		v := t[a[b[i+1]]:]
		if bytes.Compare(u, v) >= 0 {
			return fmt.Errorf("i=%d t[a[%d]=%d:] >= t[a[%d]=%d:],"+
				" b=%d, isa=%d",
				i, b[i], a[b[i]], b[i+1], a[b[i+1]], b, isa)
		}
	}

	return nil
}
*/
