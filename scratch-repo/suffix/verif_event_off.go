//go:build !verif

package suffix

// Events reported to the verification harness; without the build tag verif
// verifEvent is an empty function that the compiler removes.
const (
	verifBudgetFail = iota
	verifPartialCopy
)

func verifEvent(int) {}
