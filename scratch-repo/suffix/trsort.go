// SPDX-FileCopyrightText: © 2021 Ulrich Kunitz
//
// SPDX-License-Identifier: BSD-3-Clause

package suffix

import "fmt"

func (cfg config) trSort(sa []int32, isa []int32) {
	if cfg.trSizeThreshold == 0 {
		cfg.trSizeThreshold = 8
	}

	budget := budget{
		chance: ilog2(len(sa)) * 2 / 3,
		remain: len(sa),
		incval: len(sa),
	}

	for depth := 1; -sa[0] < int32(len(sa)); depth *= 2 {
		f := 0
		skip := 0
		unsorted := 0
		for {
			t := int(sa[f])
			if t < 0 {
				f -= t
				skip += t
			} else {
				if skip != 0 {
					sa[f+skip] = int32(skip)
					skip = 0
				}
				b := int(isa[t] + 1)
				if b-f > 1 {
					budget.count = 0
					cfg.trIntroSort(sa, isa, depth, f, b,
						&budget)
					if budget.count != 0 {
						unsorted += budget.count
					} else {
						skip = f - b
					}
				} else if b-f == 1 {
					skip = -1
				}
				f = b
			}
			if f >= len(sa) {
				break
			}
		}
		if skip != 0 {
			sa[f+skip] = int32(skip)
		}
		if unsorted == 0 {
			break
		}
	}
}

type stackEntry struct{ a, b, c, d, e int }

type stack []stackEntry

func (s *stack) push(a, b, c, d, e int) {
	*s = append(*s, stackEntry{a, b, c, d, e})
}

func (s *stack) pop() (a, b, c, d, e int) {
	k := len(*s) - 1
	entry := (*s)[k]
	*s = (*s)[:k]
	return entry.a, entry.b, entry.c, entry.d, entry.e
}

func (cfg config) trIntroSort(sa, isa []int32, depth, first, last int, budget *budget) {
	s := make(stack, 0, 96)
	var (
		a, b, c int
		v       int32
	)
	trlink := -1
	incr := depth
	limit := ilog2(last - first)
	for {
		switch limit {
		case -1:
			a, b = trPartition(sa, isa[depth-incr:], first, first,
				last, int32(last-1))
			if a < last {
				v = int32(a - 1)
				for c = first; c < a; c++ {
					isa[sa[c]] = v
				}
			}
			if b < last {
				v = int32(b - 1)
				for c = a; c < b; c++ {
					isa[sa[c]] = v
				}
			}
			if b-a > 1 {
				s.push(0, a, b, 0, 0)
				s.push(depth-incr, first, last, -2, trlink)
				trlink = len(s) - 2
			}
			if (a - first) <= (last - b) {
				if (a - first) > 1 {
					s.push(depth, b, last, ilog2(last-b),
						trlink)
					last = a
					limit = ilog2(a - first)
				} else if (last - b) > 1 {
					first = b
					limit = ilog2(last - b)
				} else {
					if len(s) == 0 {
						return
					}
					depth, first, last, limit, trlink =
						s.pop()
				}
			} else {
				if last-b > 1 {
					s.push(depth, first, a, ilog2(a-first),
						trlink)
					first = b
					limit = ilog2(last - b)
				} else if a-first > 1 {
					last = a
					limit = ilog2(a - first)
				} else {
					if len(s) == 0 {
						return
					}
					depth, first, last, limit, trlink =
						s.pop()
				}
			}
			continue
		case -2:
			if len(s) == 0 {
				return
			}
			var dd int
			_, a, b, dd, _ = s.pop()
			if dd == 0 {
				trCopy(sa, isa, first, a, b, last, depth)
			} else {
				if 0 <= trlink {
					s[trlink].d = -1
				}
				trPartialCopy(sa, isa, first, a, b, last, depth)
			}
			if len(s) == 0 {
				return
			}
			depth, first, last, limit, trlink = s.pop()
			continue
		case -3:
			if 0 <= sa[first] {
				a = first
				for {
					isa[sa[a]] = int32(a)
					a++
					if a >= last {
						break
					}
					if sa[a] < 0 {
						break
					}
				}
				first = a
			}
			if first < last {
				a = first
				for {
					sa[a] = ^sa[a]
					a++
					if sa[a] >= 0 {
						break
					}
				}
				var next int
				if isa[sa[a]] != isa[int32(depth)+sa[a]] {
					next = ilog2(a - first + 1)
				} else {
					next = -1
				}
				a++
				if a < last {
					v = int32(a - 1)
					for b = first; b < a; b++ {
						isa[sa[b]] = v
					}
				}

				if budget.check(a - first) {
					if (a - first) <= (last - a) {
						s.push(depth, a, last, -3,
							trlink)
						depth += incr
						last = a
						limit = next
					} else {
						if (last - a) > 1 {
							s.push(depth+incr,
								first, a, next,
								trlink)
							first = a
							limit = -3
						} else {
							depth += incr
							last = a
							limit = next
						}
					}
				} else {
					if trlink >= 0 {
						s[trlink].d = -1
					}
					if (last - a) > 1 {
						first = a
						limit = -3
					} else {
						if len(s) == 0 {
							return
						}
						depth, first, last, limit,
							trlink = s.pop()
					}
				}
			} else {
				if len(s) == 0 {
					return
				}
				depth, first, last, limit, trlink =
					s.pop()
			}
			continue
		}

		if limit < 0 {
			panic(fmt.Errorf("limit=%d negative", limit))
		}

		isaD := isa[depth:]

		if (last - first) <= cfg.trSizeThreshold {
			trInsertionSort(sa[first:last], isaD)
			limit = -3
			continue
		}

		limit--
		if limit < 0 {
			trHeapSort(sa[first:last], isaD)
			limit = -3
			continue
		}

		a = trPivot(sa, isaD, first, last)
		if a != first {
			sa[first], sa[a] = sa[a], sa[first]
		}
		v = isaD[sa[first]]

		a, b = trPartition(sa, isaD, first, first+1, last, v)
		if (last - first) != (b - a) {
			var next int
			if isa[sa[a]] != v {
				next = ilog2(b - a)
			} else {
				next = -1
			}

			v = int32(a - 1)
			for c = first; c < a; c++ {
				isa[sa[c]] = v
			}
			if b < last {
				v = int32(b - 1)
				for c = a; c < b; c++ {
					isa[sa[c]] = v
				}
			}

			if b-a > 1 && budget.check(b-a) {
				if a-first <= last-b {
					if (last - b) <= (b - a) {
						if a-first > 1 {
							s.push(depth+incr, a, b,
								next, trlink)
							s.push(depth, b, last,
								limit, trlink)
							last = a
						} else if last-b > 1 {
							s.push(depth+incr, a, b,
								next, trlink)
							first = b
						} else {
							depth += incr
							first = a
							last = b
							limit = next
						}
					} else if (a - first) <= (b - a) {
						if (a - first) > 1 {
							s.push(depth, b, last,
								limit, trlink)
							s.push(depth+incr, a, b,
								next, trlink)
							last = a
						} else {
							s.push(depth, b, last,
								limit, trlink)
							depth += incr
							first = a
							last = b
							limit = next
						}
					} else {
						s.push(depth, b, last, limit,
							trlink)
						s.push(depth, first, a, limit,
							trlink)
						depth += incr
						first = a
						last = b
						limit = next
					}
				} else {
					if (a - first) <= (b - a) {
						if (last - b) > 1 {
							s.push(depth+incr, a, b,
								next, trlink)
							s.push(depth, first, a,
								limit, trlink)
							first = b
						} else if (a - first) > 1 {
							s.push(depth+incr, a, b,
								next, trlink)
							last = a
						} else {
							depth += incr
							first = a
							last = b
							limit = next
						}
					} else if (last - b) <= (b - a) {
						if (last - b) > 1 {
							s.push(depth, first, a,
								limit, trlink)
							s.push(depth+incr, a, b,
								next, trlink)
							first = b
						} else {
							s.push(depth, first, a,
								limit, trlink)
							depth += incr
							first = a
							last = b
							limit = next
						}
					} else {
						s.push(depth, first, a,
							limit, trlink)
						s.push(depth, b, last,
							limit, trlink)
						depth += incr
						first = a
						last = b
						limit = next
					}
				}
			} else {
				if (b-a) > 1 && trlink >= 0 {
					s[trlink].d = -1
				}
				if (a - first) <= (last - b) {
					if (a - first) > 1 {
						s.push(depth, b, last,
							limit, trlink)
						last = a
					} else if (last - b) > 1 {
						first = b
					} else {
						if len(s) == 0 {
							return
						}
						depth, first, last, limit,
							trlink = s.pop()
					}
				} else {
					if (last - b) > 1 {
						s.push(depth, first, a,
							limit, trlink)
						first = b
					} else if (a - first) > 1 {
						last = a
					} else {
						if len(s) == 0 {
							return
						}
						depth, first, last, limit,
							trlink = s.pop()
					}
				}
			}
		} else {
			if budget.check(last - first) {
				limit = ilog2(last - first)
				depth += incr
			} else {
				if trlink >= 0 {
					s[trlink].d = -1
				}
				if len(s) == 0 {
					return
				}
				depth, first, last, limit, trlink = s.pop()
			}
		}
	}
}

func trMedian3(sa, isaD []int32, v1, v2, v3 int) int {
	y1, y2, y3 := isaD[sa[v1]], isaD[sa[v2]], isaD[sa[v3]]
	if y1 > y2 {
		v1, v2 = v2, v1
		y1, y2 = y2, y1
	}
	if y2 > y3 {
		if y1 > y3 {
			return v1
		}
		return v3
	}
	return v2
}

func trMedian5(sa, isaD []int32, v1, v2, v3, v4, v5 int) int {
	y1, y2, y3, y4, y5 := isaD[sa[v1]], isaD[sa[v2]], isaD[sa[v3]],
		isaD[sa[v4]], isaD[sa[v5]]
	if y2 > y3 {
		v2, v3 = v3, v2
		y2, y3 = y3, y2
	}
	if y4 > y5 {
		v4, v5 = v5, v4
		y4, y5 = y5, y4
	}
	if y2 > y4 {
		v4 = v2
		y4 = y2
		v3, v5 = v5, v3
		y3, y5 = y5, y3
	}
	if y1 > y3 {
		v1, v3 = v3, v1
		y1, y3 = y3, y1
	}
	if y1 > y4 {
		v4 = v1
		y4 = y1
		v3 = v5
		y3 = y5
	}
	if y3 > y4 {
		return v4
	}
	return v3
}

func trPivot(sa, isaD []int32, first, last int) int {
	t := last - first
	middle := first + t/2
	last--

	if t <= 512 {
		if t <= 32 {
			return trMedian3(sa, isaD, first, middle, last)
		}
		t >>= 2
		return trMedian5(sa, isaD, first, first+t, middle,
			last-t, last)
	}

	t >>= 3
	first = trMedian3(sa, isaD, first, first+t, first+(t<<1))
	middle = trMedian3(sa, isaD, middle-t, middle, middle+t)
	last = trMedian3(sa, isaD, last-(t<<1), last-t, last)
	return trMedian3(sa, isaD, first, middle, last)
}

func trPartition(sa, isaD []int32, first, middle, last int, v int32) (ra, rb int) {
	var x int32

	b := middle
	for {
		if b >= last {
			break
		}
		x = isaD[sa[b]]
		if x != v {
			break
		}
		b++
	}
	a := b
	if a < last && x < v {
		for {
			b++
			if b >= last {
				break
			}
			x = isaD[sa[b]]
			if x > v {
				break
			}
			if x == v {
				sa[a], sa[b] = sa[b], sa[a]
				a++
			}
		}
	}
	c := last
	for {
		c--
		if b >= c {
			break
		}
		x = isaD[sa[c]]
		if x != v {
			break
		}
	}
	d := c
	if b < d && x > v {
		for {
			c--
			if b >= c {
				break
			}
			x = isaD[sa[c]]
			if x < v {
				break
			}
			if x == v {
				sa[c], sa[d] = sa[d], sa[c]
				d--
			}
		}
	}

	for b < c {
		sa[b], sa[c] = sa[c], sa[b]
		for {
			b++
			if b >= c {
				break
			}
			x = isaD[sa[b]]
			if x > v {
				break
			}
			if x == v {
				sa[a], sa[b] = sa[b], sa[a]
				a++
			}
		}
		for {
			c--
			if b >= c {
				break
			}
			x = isaD[sa[c]]
			if x < v {
				break
			}
			if x == v {
				sa[c], sa[d] = sa[d], sa[c]
				d--
			}
		}
	}

	if a <= d {
		c = b - 1
		s := a - first
		t := b - a
		if s > t {
			s = t
		}
		e := first
		f := b - s
		for {
			if s <= 0 {
				break
			}
			sa[e], sa[f] = sa[f], sa[e]
			s--
			e++
			f++
		}
		s = d - c
		t = last - d - 1
		if s > t {
			s = t
		}
		e = b
		f = last - s
		for {
			if s <= 0 {
				break
			}
			sa[e], sa[f] = sa[f], sa[e]
			s--
			e++
			f++
		}
		first += b - a
		last -= d - c
	}
	return first, last
}

func trInsertionSort(sa []int32, isaD []int32) {
	for i := 1; i < len(sa); i++ {
		var r int32
		j := i - 1
		s, t := sa[j], sa[i]
		u := isaD[t]
	loop:
		for {
			r = u - isaD[s]
			if r >= 0 {
				if r == 0 {
					sa[j] = ^s
				}
				break loop
			}
			for {
				j--
				if j < 0 {
					break loop
				}
				if s = sa[j]; s >= 0 {
					continue loop
				}
			}
		}
		if j++; j < i {
			copy(sa[j+1:], sa[j:i])
			sa[j] = t
		}
	}
}

func trHeapSort(sa []int32, isaD []int32) {
	if len(sa) < 2 {
		return
	}
	var i, j int
	var k int32
	l, r := len(sa)>>1, len(sa)-1

	for {
		// H2
		if l > 0 {
			l--
			k = sa[l]
		} else {
			k = sa[r]
			sa[r] = sa[0]
			r--
			if r == 0 {
				sa[0] = k
				break
			}
		}

		// H3
		j = l

		y := isaD[k]
		for {
			// H4
			i, j = j, (j<<1)+1
			if j > r {
				break
			}

			// H5
			p := sa[j]
			u := isaD[p]
			if j < r {
				q := sa[j+1]
				v := isaD[q]
				if u < v {
					j++
					p, u = q, v
				}

			}

			// H6
			if y >= u {
				break
			}

			// H7
			sa[i] = p
		}

		// H8
		sa[i] = k
	}

	// lower equal values must be bitwise negated.
	k = sa[0]
	x := isaD[k]
	for i, l := range sa[1:] {
		y := isaD[l]
		if x == y {
			sa[i] = ^k
		}
		k, x = l, y
	}
}

func trCopy(sa, isa []int32, first, a, b, last, depth int) {
	v := int32(b - 1)
	d := a - 1
	var c int
	for c = first; c <= d; c++ {
		s := sa[c] - int32(depth)
		if 0 <= s && isa[s] == v {
			d++
			sa[d] = s
			isa[s] = int32(d)
		}
	}
	c = last - 1
	e := d + 1
	d = b
	for ; e < d; c-- {
		s := sa[c] - int32(depth)
		if 0 <= s && isa[s] == v {
			d--
			sa[d] = s
			isa[s] = int32(d)
		}
	}
}

func trPartialCopy(sa, isa []int32, first, a, b, last, depth int) {
	verifEvent(verifPartialCopy)
	v := int32(b - 1)
	newrank := int32(-1)
	lastrank := int32(-1)
	d := a - 1
	var c int
	for c = first; c <= d; c++ {
		s := sa[c] - int32(depth)
		if 0 <= s && isa[s] == v {
			d++
			sa[d] = s
			rank := isa[s+int32(depth)]
			if lastrank != rank {
				lastrank = rank
				newrank = int32(d)
			}
			isa[s] = newrank
		}
	}

	lastrank = -1
	var e int
	for e = d; first <= e; e-- {
		rank := isa[sa[e]]
		if lastrank != rank {
			lastrank = rank
			newrank = int32(e)
		}
		if newrank != rank {
			isa[sa[e]] = newrank
		}
	}

	lastrank = -1
	c = last - 1
	e = d + 1
	d = b
	for ; e < d; c-- {
		s := sa[c] - int32(depth)
		if 0 <= s && isa[s] == v {
			d--
			sa[d] = s
			rank := isa[s+int32(depth)]
			if lastrank != rank {
				lastrank = rank
				newrank = int32(d)
			}
			isa[s] = newrank
		}
	}
}

type budget struct {
	chance int
	remain int
	incval int
	count  int
}

func (b *budget) check(size int) bool {
	if size <= b.remain {
		b.remain -= size
		return true
	}
	if b.chance == 0 {
		b.count += size
		verifEvent(verifBudgetFail)
		return false
	}
	b.remain += b.incval - size
	b.chance--
	return true
}
