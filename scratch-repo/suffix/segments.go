// SPDX-FileCopyrightText: © 2021 Ulrich Kunitz
//
// SPDX-License-Identifier: BSD-3-Clause

package suffix

import (
	"fmt"
	"math"
)

func scanLCP(sa, lcp []int32, minLen, maxLen int32, f func(m int, s []int32)) {
	type item struct {
		n int32
		j int32
	}
	stack := make([]item, 1, 16)
	// stack[1] = item{0, 0} -- make function in line above set item[0] to
	// zero implicitly
scan:
	for j := int32(1); ; j++ {
		var n int32
		if j < int32(len(lcp)) {
			n = lcp[j]
			if n > maxLen {
				n = maxLen
			}
		} else {
			n = -1
		}
		left := j - 1
		for {
			top := stack[len(stack)-1]
			switch {
			case n > top.n:
				stack = append(stack, item{n, left})
				continue scan
			case n == top.n:
				continue scan
			}
			if top.n >= minLen {
				f(int(top.n), sa[top.j:j])
			}
			left = top.j
			stack = stack[:len(stack)-1]
			if len(stack) == 0 {
				break scan
			}
		}
	}
}

// Segments returns all segments of suffixes that share common prefixes of
// length n. The segments can be sorted or permuted in any way. The suffix array
// sa will be modified. As a consequence the segments can be in any order.
func Segments(sa, lcp []int32, minLen, maxLen int, f func(m int, segment []int32)) {
	if len(sa) != len(lcp) {
		panic(fmt.Errorf("len(sa)=%d != len(lcp)=%d", sa, lcp))
	}
	if minLen < 0 {
		panic(fmt.Errorf("minLen=%d out of range", minLen))
	}
	if maxLen < minLen || len(sa) == 0 || minLen > math.MaxInt32 {
		// The lcp values are int32: no common prefix reaches a minimum
		// length above MaxInt32.
		return
	}
	if maxLen > math.MaxInt32 {
		maxLen = math.MaxInt32
	}
	scanLCP(sa, lcp, int32(minLen), int32(maxLen), f)
}
