//go:build verif

package suffix

import "sync/atomic"

// Events reported to the verification harness (/verif): counters of rarely
// taken paths of the suffix sort so that the harness can tell whether its
// inputs reached them.
const (
	verifBudgetFail = iota
	verifPartialCopy
)

// VerifEvents counts the events; index by the constants above.
var VerifEvents [2]atomic.Int64

func verifEvent(k int) { VerifEvents[k].Add(1) }
