// SPDX-FileCopyrightText: © 2021 Ulrich Kunitz
//
// SPDX-License-Identifier: BSD-3-Clause

package suffix

import (
	"fmt"
	"math"
	"math/bits"
)

// _lcp provides actual functionality without the error checks.
//
// The algorithm used uses the phi function and the theorem regarding it.
func _lcp(t []byte, sa []int32, sainv []int32, lcp []int32) {
	l := int32(0)
	for i, k := range sainv {
		if k == 0 {
			lcp[0] = 0
			l = 0
			continue
		}
		j := sa[k-1] // j = phi(i)
		l += int32(matchLen(t[int32(i)+l:], t[j+l:]))
		lcp[k] = l
		if l > 0 {
			l--
		}
	}
}

// InvertSA computes the inverse of the suffix array.
func InvertSA(sa, sainv []int32) {
	if len(sa) != len(sainv) {
		panic(fmt.Errorf("suffix: len(sa)=%d != len(sainv)=%d",
			len(sa), len(sainv)))
	}
	for j, i := range sa {
		sainv[i] = int32(j)
	}
}

// LCP computes the LCP table for t. If sa and sainv are nil, they will be
// temporarily computed.
func LCP(t []byte, sa, sainv, lcp []int32) {
	if len(t) > math.MaxInt32 {
		panic(fmt.Errorf("suffix: len(t)=%d > MaxInt32", len(t)))
	}
	if len(sa) != len(t) {
		sa = make([]int32, len(t))
		Sort(t, sa)
	}
	if len(sainv) != len(sa) {
		sainv = make([]int32, len(sa))
		InvertSA(sa, sainv)
	}
	if len(lcp) != len(t) {
		panic(fmt.Errorf("suffix: len(lcp)=%d != len(t)=%d",
			len(lcp), len(t)))
	}

	_lcp(t, sa, sainv, lcp)
}

// matchLen computes the length of the common prefix between p and q.
func matchLen(p, q []byte) int {
	if len(q) > len(p) {
		p, q = q, p
	}
	n := 0
	for len(q) >= 8 {
		x := _getLE64(p) ^ _getLE64(q)
		k := bits.TrailingZeros64(x) >> 3
		n += k
		if k < 8 {
			return n
		}
		q = q[8:]
		p = p[8:]
	}
	if len(q) >= 4 {
		x := _getLE32(p) ^ _getLE32(q)
		k := bits.TrailingZeros32(x) >> 3
		n += k
		if k < 4 {
			return n
		}
		q = q[4:]
		p = p[4:]
	}
	for i, b := range q {
		if p[i] != b {
			break
		}
		n++
	}
	return n
}

// _getLE64 loads a uint64 value from the p field. This function will be inlined
// and compiled into a simple move on little-endian 64 bit architectures.
//
// If p is too small the function will panic.
func _getLE64(p []byte) uint64 {
	_ = p[7]
	return uint64(p[0]) | uint64(p[1])<<8 | uint64(p[2])<<16 |
		uint64(p[3])<<24 | uint64(p[4])<<32 | uint64(p[5])<<40 |
		uint64(p[6])<<48 | uint64(p[7])<<56
}

// _getLE32 loads a uint32 value from the p field. This function will be inlined
// and compiled into a simple move on little-endian architectures.
//
// If p is too small the function will panic.
func _getLE32(p []byte) uint32 {
	_ = p[3]
	return uint32(p[0]) | uint32(p[1])<<8 | uint32(p[2])<<16 |
		uint32(p[3])<<24
}
