// SPDX-FileCopyrightText: © 2021 Ulrich Kunitz
//
// SPDX-License-Identifier: BSD-3-Clause

package suffix

import (
	"testing"
)

func equalInt32s(a, b []int32) bool {
	if len(a) != len(b) {
		return false
	}
	for i, x := range a {
		if x != b[i] {
			return false
		}
	}
	return true
}

func TestTRSort(t *testing.T) {
	tests := []struct {
		a, r   []int32
		result []int32
	}{
		{
			a:      []int32{-1, 2, 1, 0, -1},
			r:      []int32{3, 3, 3, 0, 4},
			result: []int32{3, 2, 1, 0, 4},
		},
		{
			a:      []int32{-4, 8, 7, 0, 10, 2, 9, 1, -4, 11, 3, 5},
			r:      []int32{3, 7, 5, 10, 0, 11, 8, 2, 1, 7, 5, 9},
			result: []int32{3, 7, 5, 10, 0, 11, 8, 2, 1, 6, 4, 9},
		},
	}

	for _, tc := range tests {
		config{}.trSort(tc.a, tc.r)
		if !equalInt32s(tc.result, tc.r) {
			t.Fatalf("trSort returned %d; wanted %d", tc.r,
				tc.result)
		}
	}
}

func TestABAC(t *testing.T) {
	sa := []int32{0, 6, 5, 4, 3, 2, 1, -2, 8}
	isa := []int32{6, 6, 6, 6, 6, 6, 6, 7, 8}

	config{}.trSort(sa, isa)

	if len(isa) != 9 {
		t.Fatalf("len(isa) is %d; want %d", len(isa), 9)
	}

	for i, k := range isa {
		if int32(i) != k {
			t.Errorf("i=%d != k=%d", i, k)
		}
	}
}

func TestABBA(t *testing.T) {
	sa := []int32{-1, 2, 1, 0}
	isa := []int32{3, 3, 3, 0}
	isaWant := []int32{3, 2, 1, 0}

	config{}.trSort(sa, isa)

	if len(isa) != len(sa) {
		t.Fatalf("len(isa) is %d; want %d", len(isa), len(sa))
	}

	for i, k := range isa {
		if k != isaWant[i] {
			t.Errorf("isa[%d]=%d; want %d", i, k, isaWant[i])
		}
	}
}

func TestTRInsertionSort(t *testing.T) {
	tests := []struct{ sa, isaD, saWant []int32 }{
		{sa: []int32{1, 2, 0}, isaD: []int32{3, 3, 0},
			saWant: []int32{2, -2, 0}},
		{sa: []int32{0, 6, 5, 4, 3, 2, 1},
			isaD:   []int32{6, 6, 6, 6, 6, 6, 7},
			saWant: []int32{-1, -6, -5, -4, -3, 1, 6},
		},
	}
	for _, tc := range tests {
		sa := make([]int32, len(tc.sa))
		copy(sa, tc.sa)
		trInsertionSort(sa, tc.isaD)
		if !equalInt32s(sa, tc.saWant) {
			t.Fatalf("sa=%d; want %d; isaD=%d", sa, tc.saWant,
				tc.isaD)
		}
	}
}

func TestTRHeapSort(t *testing.T) {
	tests := []struct{ sa, isaD, saWant []int32 }{
		{sa: []int32{1, 2, 0}, isaD: []int32{3, 3, 0},
			saWant: []int32{2, -1, 1},
		},
		{sa: []int32{0, 6, 5, 4, 3, 2, 1},
			isaD:   []int32{6, 6, 6, 6, 6, 6, 7},
			saWant: []int32{-1, -6, -5, -4, -3, 1, 6},
		},
	}
	for _, tc := range tests {
		sa := make([]int32, len(tc.sa))
		copy(sa, tc.sa)
		trHeapSort(sa, tc.isaD)
		if !equalInt32s(sa, tc.saWant) {
			t.Fatalf("sa=%d; want %d; isaD=%d", sa, tc.saWant,
				tc.isaD)
		}
	}
}
