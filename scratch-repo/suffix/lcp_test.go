// SPDX-FileCopyrightText: © 2021 Ulrich Kunitz
//
// SPDX-License-Identifier: BSD-3-Clause

package suffix

import (
	"bytes"
	"testing"
)

func FuzzLCP(f *testing.F) {
	f.Add([]byte{})
	f.Add([]byte("a"))
	f.Add([]byte("ab"))
	f.Add([]byte("ba"))
	f.Add([]byte("ababbab"))
	f.Fuzz(func(t *testing.T, p []byte) {
		sa := make([]int32, len(p))
		Sort(p, sa)
		if len(sa) > 0 {
			for i, j1 := range sa[:len(sa)-1] {
				j2 := sa[i+1]
				if bytes.Compare(p[j1:], p[j2:]) > 0 {
					t.Fatalf("p[sa[%d]=%d:] > p[sa[%d]=%d:]",
						i, i+1, j1, j2)
				}
			}
		}
		lcp := make([]int32, len(p))
		LCP(p, sa, nil, lcp)
		for i, l := range lcp {
			if i == 0 {
				if l != 0 {
					t.Fatal("lcp[0] != 0")
				}
				continue
			}
			n := matchLen(p[sa[i-1]:], p[sa[i]:])
			if n != int(l) {
				t.Fatalf("lcp[%d] = %d; want %d",
					i, l, n)
			}
		}
	})
}
