// SPDX-FileCopyrightText: © 2021 Ulrich Kunitz
//
// SPDX-License-Identifier: BSD-3-Clause

package suffix

import (
	"bytes"
	"math/bits"
)

// TODO: rewrite heapSort so that it negates equal elements

type ssorter struct {
	a []int32
	t []byte
	p []int32
	config
}

func (cfg config) newSsorter(a []int32, t []byte, p []int32) *ssorter {
	s := &ssorter{
		a:      a,
		t:      t,
		p:      p,
		config: cfg,
	}

	return s
}

// sorts substrings in a[f:b]. The argument lastIndex indicates that the f
// refers to the last B* substring.
func (s *ssorter) ssort(f, b int, lastIndex bool) {
	i := f
	if lastIndex {
		i++
	}
	s.introSort(i, b)

	if !lastIndex || i == b {
		return
	}

	// The first element refers to the last B* substring in the text. We
	// have to put in the right place.
	t := s.a[f]
	x := s.t[s.p[t]+2:]
loop:
	for i < b {
		k := (i + b) >> 1
		r := bytes.Compare(x, s.substringNeg(k, 2))
		switch {
		case r < 0:
			b = k
		case r == 0:
			t = ^t
			b = k + 1
			break loop
		default:
			i = k + 1
		}
	}
	copy(s.a[f:], s.a[f+1:b])
	s.a[b-1] = t
}

func (s *ssorter) Len() int { return len(s.a) }

func (s *ssorter) Swap(i, j int) {
	s.a[i], s.a[j] = s.a[j], s.a[i]
}

// substring returns the B* substring starting at offset d. The method assumes
// that d is non-negative.
func (s *ssorter) substring(i, d int) []byte {
	k := s.a[i]
	b := s.p[k+1] + 2
	f := s.p[k] + int32(d)
	if f >= b {
		return nil
	}
	return s.t[f:b]
}

func (s *ssorter) substringK(k int32, d int) []byte {
	b := s.p[k+1] + 2
	f := s.p[k] + int32(d)
	if f >= b {
		return nil
	}
	return s.t[f:b]
}

func (s *ssorter) Less(i, j int) bool {
	x, y := s.substring(i, 2), s.substring(j, 2)
	return bytes.Compare(x, y) < 0
}

func (s *ssorter) LessD(i, j, d int) bool {
	x, y := s.substring(i, d), s.substring(j, d)
	return bytes.Compare(x, y) < 0
}

func absNeg(x int32) int32 {
	return x ^ (x >> 31)
}

// substring returns the B* substring starting at offset d. The method assumes
// that d is non-negative. The function can tolerate negated a entries.
func (s *ssorter) substringNeg(i, d int) []byte {
	k := absNeg(s.a[i])
	b := s.p[k+1] + 2
	f := s.p[k] + int32(d)
	if f >= b {
		return nil
	}
	return s.t[f:b]
}

func (s *ssorter) insertSortNeg(f, b, d int) {
	// TODO: rework using trInsetionSort as example; we might not
	// need substringNeg
	for i := f + 1; i < b; i++ {
		y := s.substringNeg(i, d)
		var j int
	innerLoop:
		for j = i - 1; j >= f; j-- {
			x := s.substringNeg(j, d)
			r := bytes.Compare(x, y)
			switch {
			case r < 0:
				break innerLoop
			case r == 0:
				s.a[i] = ^s.a[i]
				break innerLoop
			}
		}
		j++
		if j == i {
			continue
		}
		c := s.a[i]
		copy(s.a[j+1:], s.a[j:i])
		s.a[j] = c
	}
}

func (s *ssorter) heapSort(f, b, d int) {
	// TODO: Don't use insertSortNeg, but run your own loop for fixing
	// output.
	a := s.a[f:b]
	if len(a) < 2 {
		return
	}
	var i, j int
	var k int32
	var x, u, v []byte
	l, r := len(a)>>1, len(a)-1

	for {
		// H2
		if l > 0 {
			l--
			k = a[l]
		} else {
			k = a[r]
			a[r] = a[0]
			r--
			if r == 0 {
				a[0] = k
				s.insertSortNeg(f, b, d)
				return
			}
		}

		// H3
		j = l
		x = s.substringK(k, d)

		for {
			// H4
			i, j = j, (j<<1)+1
			if j > r {
				break
			}
			u = s.substringK(a[j], d)
			// H5
			if j < r {
				v = s.substringK(a[j+1], d)
				if bytes.Compare(u, v) < 0 {
					j++
					u = v
				}
			}
			// H6
			if bytes.Compare(x, u) >= 0 {
				break
			}
			// H7
			a[i] = a[j]
		}

		// H8
		a[i] = k
	}
}

func (s *ssorter) medianOf3(i, j, k, d int) int {
	td := s.t[d:]
	a, b, c := td[s.p[s.a[i]]], td[s.p[s.a[j]]], td[s.p[s.a[k]]]
	if b > c {
		j, k = k, j
		b, c = c, b
	}
	if a <= b {
		return j
	}
	if a <= c {
		return i
	}
	return k
}

func (s *ssorter) exchange(i, j, k int) {
	if j-i > k-j {
		j = i + k - j
	}
	for ; i < j; i++ {
		k--
		s.a[i], s.a[k] = s.a[k], s.a[i]
	}
}

// partition splits the area between f and b in three sections, less than the
// pivot, equal to the pivot, greater than the pivot. The returned flag eos
// signals if the equal section is at end of the substring.
func (s *ssorter) partition(f, b, m, d int) (e, g int) {
	if f < m {
		s.a[f], s.a[m] = s.a[m], s.a[f]
	}
	td := s.t[d:]
	p := td[s.p[s.a[f]]]
	u, v := f+1, b
	i, j := f+1, b
burn:
	for {
		for ; ; i++ {
			if i >= j {
				break burn
			}
			q := td[s.p[s.a[i]]]
			if q > p {
				break
			}
			if q < p {
				continue
			}
			s.a[u], s.a[i] = s.a[i], s.a[u]
			u++
		}
		j--
		for ; ; j-- {
			for i >= j {
				break burn
			}
			q := td[s.p[s.a[j]]]
			if q < p {
				break
			}
			if q > p {
				continue
			}
			v--
			s.a[j], s.a[v] = s.a[v], s.a[j]
		}
		s.a[i], s.a[j] = s.a[j], s.a[i]
		i++
	}
	s.exchange(f, u, i)
	s.exchange(i, v, b)
	return f + i - u, b - (v - i)
}

func ilog2(x int) int {
	return 63 - bits.LeadingZeros64(uint64(x))
}

func (s *ssorter) introSort(f, b int) {
	s.introSortLoop(f, b, 2, 2*ilog2(b-f))
}

func (s *ssorter) introSortLoop(f, b, d, depthLimit int) {
	for b-f > s.sizeThreshold {
		if depthLimit <= 0 {
			s.heapSort(f, b, d)
			return
		}
		m := s.medianOf3(f, f+(b-f)/2, b-1, d)
		e, g := s.partition(f, b, m, d)
		depthLimit--
		s.introSortLoop(f, e, d, depthLimit)
		// if the equal section is at end of substring, we don't need to
		// go further
		e = s.filterStringEnds(e, g, d+1)
		s.introSortLoop(e, g, d+1, depthLimit)
		f = g
	}
	s.insertSortNeg(f, b, d)
}

func (s *ssorter) filterStringEnds(f, b, d int) int {
	if d >= 4 {
		i := f
		// burn the candle from both ends
	burn:
		for {
			for {
				if f >= b {
					break burn
				}
				k := s.a[f]
				if s.p[k]+int32(d) < s.p[k+1]+2 {
					break
				}
				s.a[f] = ^k
				f++
			}
			b--
			for {
				if f >= b {
					break burn
				}
				if k := s.a[b]; s.p[k]+int32(d) >= s.p[k+1]+2 {
					break
				}
				b--
			}
			s.a[f], s.a[b] = ^s.a[b], s.a[f]
			f++
		}

		if f > i {
			s.a[i] = ^s.a[i]
		}
	}
	return f
}
