//go:build verif

package suffix

// Exports for the verification harness in /verif. This file is only compiled
// with the build tag "verif"; it adds no behaviour to the package.

// VerifSort runs the suffix sort with explicit thresholds so that the
// heapsort and the trsort budget paths can be reached on short inputs.
func VerifSort(t []byte, sa []int32, sizeThreshold, trSizeThreshold int) {
	config{
		sizeThreshold:   sizeThreshold,
		trSizeThreshold: trSizeThreshold,
	}.sort(t, sa)
}

// VerifMatchLen exposes matchLen.
func VerifMatchLen(p, q []byte) int { return matchLen(p, q) }
