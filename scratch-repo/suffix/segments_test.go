// SPDX-FileCopyrightText: © 2021 Ulrich Kunitz
//
// SPDX-License-Identifier: BSD-3-Clause

package suffix

import (
	"sort"
	"testing"
)

func logSALCP(t *testing.T, p []byte, sa, lcp []int32) {
	for j, i := range sa {
		t.Logf("%3d %3d %s", i, lcp[j], p[i:])
	}

}

func logSuffixes(t *testing.T, p []byte, s []int32) {
	for _, i := range s {
		t.Logf("%3d %s", i, p[i:])
	}
}

func TestSegments(t *testing.T) {
	tests := []string{
		"abbababb",
		"mississippi",
		"=====foofoobarfoobar bartender====",
	}
	for _, tc := range tests {
		tc := tc
		t.Run(tc, func(t *testing.T) {
			p := []byte(tc)
			sa := make([]int32, len(tc))
			Sort(p, sa)
			lcp := make([]int32, len(p))
			LCP(p, sa, nil, lcp)
			t.Log("## SuffixArray")
			logSALCP(t, p, sa, lcp)
			Segments(sa, lcp, 2, 10, func(n int, s []int32) {
				t.Logf("## Segment n=%d", n)
				sort.SliceStable(s, func(i, j int) bool {
					return s[i] < s[j]
				})
				logSuffixes(t, p, s)
			})
		})

	}

}
