// SPDX-FileCopyrightText: © 2021 Ulrich Kunitz
//
// SPDX-License-Identifier: BSD-3-Clause

package suffix

import (
	"bytes"
	"fmt"
	"io"
	"io/fs"
	"math/rand"
	"os"
	"strings"
	"testing"
)

func TestSort(t *testing.T) {

	tests := []string{
		"abbaabbaabbaabba",
		"ababababababababac",
		"cdcdcdcdccdd$",
		"banana",
		"christmas",
		"cba",
		"The brown fox jumps over the lazy dog.",
		"<mediawiki xmlns=\"http://www.mediawik",
	}

	for i, tc := range tests {
		t.Run(fmt.Sprintf("%02d", i), func(t *testing.T) {
			cfg := config{
				sizeThreshold: 7,
				t:             t,
			}
			text := []byte(tc)
			sa := make([]int32, len(text))
			cfg.sort(text, sa)
			if err := verifySuffixArray(text, sa); err != nil {
				t.Fatal(err)
			}
		})
	}
}

const testFile = "../testdata/enwik7"

func getData(file string) (data []byte, err error) {
	f, err := os.Open(file)
	if err != nil {
		return nil, err
	}
	defer f.Close()
	return io.ReadAll(io.LimitReader(f, 1000000))
}

func shorter(s []byte) string {
	if len(s) > 16 {
		return fmt.Sprintf("%s...", s[:16])
	}
	return string(s)
}

func TestEnwik6(t *testing.T) {
	cfg := config{
		sizeThreshold: 8,
		t:             t,
	}
	data, err := getData(testFile)
	if err != nil {
		t.Fatalf("getData(%q) error %s", testFile, err)
	}
	for n := len(data); n <= len(data); n++ {
		p := make([]byte, n)
		copy(p, data)
		sa := make([]int32, len(p))
		cfg.sort(p, sa)
		if err := verifySuffixArray(p, sa); err != nil {
			t.Fatal(err)
		}
	}
}

func TestEnwik6Debug(t *testing.T) {
	cfg := config{
		sizeThreshold: 8,
		t:             t,
	}
	data, err := getData(testFile)
	if err != nil {
		t.Fatalf("getData(%q) error %s", testFile, err)
	}
	// n := 662
	p := data[272:662]
	sa := make([]int32, len(p))
	cfg.sort(p, sa)
	if err := verifySuffixArray(p, sa); err != nil {
		t.Fatal(err)
	}
}

func TestFindIndexes(t *testing.T) {
	a := []int{0, 5, 7, 10, 14, 16, 18, 20, 29, 31, 35, 42, 44, 46, 48, 51,
		55, 58, 60, 66, 70, 74, 76, 85, 87, 89, 91, 93, 96, 98, 102,
		105, 110, 115, 117, 119, 121, 123, 131, 133, 140, 142, 144,
		147, 150, 152, 163, 165, 167, 172, 182, 184, 186, 190, 192,
		194, 198, 202, 204, 208, 210, 212, 216, 226, 228, 230, 234,
		236, 238, 242, 246, 249, 251, 254, 256, 258, 262, 272, 274,
		276, 280, 282, 284, 287, 291, 300, 302, 304, 308, 310, 312,
		315, 320, 324, 326, 328, 332, 342, 344, 346, 350, 352, 354,
		357, 361, 363, 366, 368, 370, 374, 384, 386, 388}
	for i, k := range a {
		if k == 384 {
			t.Logf("%d -> %d", i, k)
		}
		if k == 163 {
			t.Logf("%d -> %d", i, k)
		}
	}

	isa := []int{51, 103, 106, 71, 21, 107, 74, 40, 23, 56, 99, 73, 12, 102,
		105, 69, 111, 22, 101, 104, 37, 14, 54, 25, 76, 80, 58, 110,
		34, 72, 100, 0, 108, 16, 75, 79, 57, 109, 24, 55, 112, 11, 93,
		77, 15, 53, 31, 50, 92, 82, 27, 42, 84, 60, 2, 95, 10, 33, 70,
		17, 46, 88, 64, 26, 41, 83, 59, 1, 94, 9, 35, 68, 38, 18, 47,
		89, 65, 28, 43, 85, 61, 3, 96, 6, 13, 29, 44, 86, 62, 4, 97, 7,
		39, 19, 48, 90, 66, 30, 45, 87, 63, 5, 98, 8, 36, 78, 20, 49,
		91, 67, 32, 52, 81}
	for _, i := range []int{46, 110} {
		t.Logf("isa[%d]: %d", i, isa[i])
	}
}

func BenchmarkSizeThreshold(b *testing.B) {
	data, err := getData(testFile)
	if err != nil {
		b.Fatalf("getData(%q) error %s", testFile, err)
	}

	var cfg config
	for th := 4; th < 25; th++ {
		th := th
		b.Run(fmt.Sprintf("%d", th), func(b *testing.B) {
			p := make([]byte, len(data))
			copy(p, data)
			sa := make([]int32, len(p))
			b.SetBytes(int64(len(data)))
			cfg.sizeThreshold = th
			b.ResetTimer()
			for i := 0; i < b.N; i++ {
				cfg.sort(p, sa)
			}
		})
	}
}

func TestAbsNeg(t *testing.T) {
	tests := []struct{ x, y int32 }{
		{0, 0},
		{1, 1},
		{^1, 1},
		{1<<31 - 1, 1<<31 - 1},
		{^(1<<31 - 1), 1<<31 - 1},
	}
	for _, tc := range tests {
		y := absNeg(tc.x)
		if y != tc.y {
			t.Fatalf("absNeg(%d) returned %d; want %d",
				tc.x, y, tc.y)
		}
	}
}

type sortError struct {
	data    []byte
	sa      []int32
	i, j    int
	greater bool
}

func (err *sortError) Error() string {
	u := err.data[err.sa[err.i]:]
	v := err.data[err.sa[err.j]:]
	var rel string
	if err.greater {
		rel = ">"
	} else {
		rel = ">="
	}
	return fmt.Sprintf(
		"data[sa[%d]=%d:]=%s %s data[sa[%d]=%d:]=%s",
		err.i, err.sa[err.i], shorter(u), rel,
		err.j, err.sa[err.j], shorter(v))
}

func verifyPermutation(a []int32) error {
	b := make([]int32, len(a))
	for i := range b {
		b[i] = -1
	}
	for i, j := range a {
		if j < 0 {
			return fmt.Errorf("a[%d]=%d is negative;"+
				" want non-negative value", i, j)
		}
		if b[j] >= 0 {
			return fmt.Errorf("a[%d]=%d conflicts with a[%d]=%d",
				i, j, b[j], j)
		}
		b[j] = int32(i)
	}
	return nil
}

func verifySuffixArray(t []byte, sa []int32) error {
	if len(t) != len(sa) {
		return fmt.Errorf("len(t)=%d != len(sa)=%d", len(t), len(sa))
	}
	if len(sa) == 0 {
		return nil
	}
	// Check that the suffix array is actual a permutation.
	if err := verifyPermutation(sa); err != nil {
		return err
	}
	var (
		u, v []byte
	)
	// For data with a length less or equal 1 MiB we are doing a full
	// comparison of all suffixes.
	if len(sa) <= 1<<20 {
		v = t[sa[0]:]
		for i, k := range sa[1:] {
			u, v = v, t[k:]
			if bytes.Compare(u, v) >= 0 {
				return &sortError{sa: sa, data: t, i: i,
					j: i + 1}
			}
		}
		return nil
	}
	// Otherwise we are checking the first 10 kByte of each suffix.
	const (
		maxLen  = 10 << 10
		samples = 10000
	)
	v = t[sa[0]:]
	if len(v) > maxLen {
		v = v[:maxLen]
	}
	for i, k := range sa[1:] {
		u, v = v, t[k:]
		if len(v) > maxLen {
			v = v[:maxLen]
		}
		if bytes.Compare(u, v) > 0 {
			return &sortError{sa: sa, data: t, i: i, j: i + 1,
				greater: true}
		}
	}
	// For completeness we are taking samples with a comparison of the
	// full suffixes.
	for k := 0; k < samples; k++ {
		i := rand.Intn(len(sa))
		u = t[sa[i]:]
		v = t[sa[i+1]:]
		if bytes.Compare(u, v) >= 0 {
			return &sortError{sa: sa, data: t, i: i, j: i + 1}
		}
	}
	return nil
}

func TestCorpora(t *testing.T) {
	if testing.Short() {
		t.SkipNow()
	}
	const corporaDir = "../../testdata/corpora"
	corporaFS := os.DirFS(corporaDir)
	filenames, err := fs.Glob(corporaFS, "*/*")
	if err != nil {
		t.Fatalf("fs.Glob(corporaFS, %q) error %s",
			"*/*", err)
	}
	for _, fn := range filenames {
		filename := fn
		if strings.HasSuffix(filename, "README.md") {
			continue
		}
		ok := t.Run(filename, func(t *testing.T) {
			t.Parallel()
			data, err := fs.ReadFile(corporaFS, filename)
			if err != nil {
				t.Fatalf("fs.ReadFile(corporaFS, %q) error %s",
					filename, err)
			}
			p := make([]byte, len(data))
			copy(p, data)
			sa := make([]int32, len(data))
			Sort(p, sa)
			if err = verifySuffixArray(data, sa); err != nil {
				t.Error(err)
			}
		})
		if !ok {
			t.Fatal()
		}
	}
}

func TestVerifyPermutation(t *testing.T) {
	tests := [][]int32{
		{1, 1, 1},
		{-1, 2, 3},
	}
	for _, tc := range tests {
		if err := verifyPermutation(tc); err == nil {
			t.Fatalf("verifyPermutation(%d) returned no error", tc)
		}
	}
}

func TestVerifySuffixArray(t *testing.T) {
	tests := []struct {
		t  []byte
		sa []int32
	}{
		{t: []byte("abba"), sa: []int32{3, 2, 0, 1}},
	}
	for _, tc := range tests {
		if err := verifySuffixArray(tc.t, tc.sa); err == nil {
			t.Fatalf("verifySuffixArray(%q, %d) no error", tc.t,
				tc.sa)
		}
	}
}
