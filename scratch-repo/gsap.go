// SPDX-FileCopyrightText: © 2021 Ulrich Kunitz
//
// SPDX-License-Identifier: BSD-3-Clause

package lz

import (
	"fmt"
	"math"

	"github.com/ulikunitz/lz/suffix"
)

// GSAPConfig defines the configuration parameter for the greedy suffix array
// parser.
type GSAPConfig struct {
	ShrinkSize int
	BufferSize int
	WindowSize int
	BlockSize  int

	// minimum match len
	MinMatchLen int
}

// Clone creates a copy of the configuration.
func (cfg *GSAPConfig) Clone() ParserConfig {
	x := *cfg
	return &x
}

// UnmarshalJSON parses the JSON value and sets the fields of GSAPConfig.
func (cfg *GSAPConfig) UnmarshalJSON(p []byte) error {
	*cfg = GSAPConfig{}
	return unmarshalJSON(cfg, "GSAP", p)
}

// MarshalJSON creates the JSON string for the configuration. Note that it adds
// a property Type with value "GSAP" to the structure.
func (cfg *GSAPConfig) MarshalJSON() (p []byte, err error) {
	return marshalJSON(cfg, "GSAP")
}

// BufConfig returns the [BufConfig] value containing the buffer parameters.
func (cfg *GSAPConfig) BufConfig() BufConfig {
	bc := bufferConfig(cfg)
	return bc
}

// SetBufConfig sets the buffer configuration parameters of the parser
// configuration.
func (cfg *GSAPConfig) SetBufConfig(bc BufConfig) {
	setBufferConfig(cfg, bc)
}

// Verify checks the configuration for inconsistencies.
func (cfg *GSAPConfig) Verify() error {
	bc := bufferConfig(cfg)
	if err := bc.Verify(); err != nil {
		return err
	}
	if !(2 <= cfg.MinMatchLen) {
		return fmt.Errorf(
			"lz: MinMatchLen is %d; want >= 2",
			cfg.MinMatchLen)
	}
	if !(cfg.MinMatchLen <= cfg.WindowSize) {
		return fmt.Errorf(
			"lz: WindowSize is %d; must be >= MinMatchLen=%d",
			cfg.WindowSize, cfg.MinMatchLen)
	}
	if !(int64(cfg.WindowSize) <= int64(math.MaxInt32)) {
		// We manage positions only as uint32 values and so this limit
		// is necessary
		return fmt.Errorf(
			"lz: MaxSize=%d; must be less than MaxUint32=%d",
			cfg.WindowSize, maxUint32)
	}
	if !(int64(cfg.BufferSize) <= int64(math.MaxInt32)) {
		// The suffix array has int32 entries; sort panics for a
		// larger buffer.
		return fmt.Errorf(
			"lz: BufferSize=%d; must not exceed MaxInt32=%d",
			cfg.BufferSize, math.MaxInt32)
	}
	return nil
}

// SetDefaults sets configuration parameters to its defaults. The code doesn't
// provide consistency.
func (cfg *GSAPConfig) SetDefaults() {
	bc := bufferConfig(cfg)
	bc.SetDefaults()
	setBufferConfig(cfg, bc)
	if cfg.MinMatchLen == 0 {
		cfg.MinMatchLen = 3
	}
}

// NewParser generates a new parser using the configuration parameters in
// the structure.
func (cfg GSAPConfig) NewParser() (s Parser, err error) {
	gsas := new(gsap)
	err = gsas.init(cfg)
	if err != nil {
		return nil, err
	}
	return gsas, nil
}

// gsap provides a parser that uses a suffix array for
// the window and buffered data to create sequence. It looks for the two nearest
// entries that have the longest match.
//
// Since computing the suffix array is rather slow, it consumes a lot of CPU.
// Double Hash Parsers are achieving almost the same compression rate with
// much less CPU consumption.
type gsap struct {
	ParserBuffer

	// suffix array
	sa []int32
	// inverse suffix array
	isa []int32
	// bits marks the positions in the suffix array sa that have already
	// been processed
	bits bitset

	GSAPConfig
}

// init initializes the parser. If the configuration has inconsistencies or
// invalid values the method returns an error.
func (s *gsap) init(cfg GSAPConfig) error {
	bc := bufferConfig(&cfg)
	var err error
	if err = s.ParserBuffer.Init(bc); err != nil {
		return err
	}
	cfg.SetDefaults()
	if err = cfg.Verify(); err != nil {
		return err
	}

	s.sa = s.sa[:0]
	s.isa = s.isa[:0]
	s.bits.clear()
	s.GSAPConfig = cfg
	return nil
}

func (s *gsap) ParserConfig() ParserConfig {
	return &s.GSAPConfig
}

func (s *gsap) Reset(data []byte) error {
	var err error
	if err = s.ParserBuffer.Reset(data); err != nil {
		return err
	}
	s.sa = s.sa[:0]
	s.isa = s.isa[:0]
	s.bits.clear()
	return nil
}

func (s *gsap) Shrink() int {
	delta := s.ParserBuffer.Shrink()
	if delta > 0 {
		s.sa = s.sa[:0]
		s.isa = s.isa[:0]
		s.bits.clear()
	}
	return delta
}

// sort computes the suffix array and its inverse for the window and all
// buffered data. The bits bitmap marks all sa entries that are part of the
// window.
func (s *gsap) sort() {
	n := len(s.Data)
	if n > math.MaxInt32 {
		panic("n too large")
	}
	if n <= cap(s.sa) {
		s.sa = s.sa[:n]
	} else {
		s.sa = make([]int32, n)
	}
	suffix.Sort(s.Data, s.sa)
	if n <= cap(s.isa) {
		s.isa = s.isa[:n]
	} else {
		s.isa = make([]int32, n)
	}
	for i, j := range s.sa {
		s.isa[j] = int32(i)
	}
	s.bits.clear()
	for i := 0; i < s.W; i++ {
		s.bits.insert(int(s.isa[i]))
	}
}

// Parse computes the sequences for the next block. Data in the block will be
// overwritten. The NoTrailingLiterals flag is supported. It returns the number
// of bytes covered by the computed sequences. If the buffer is empty
// ErrEmptyBuffer will be returned.
//
// The method might compute the suffix array anew using the sort method.
func (s *gsap) Parse(blk *Block, flags int) (n int, err error) {
	n = len(s.Data) - s.W
	if n > s.BlockSize {
		n = s.BlockSize
	}

	if blk == nil {
		if n == 0 {
			return 0, ErrEmptyBuffer
		}
		s.W += n
		return n, nil
	}
	blk.Sequences = blk.Sequences[:0]
	blk.Literals = blk.Literals[:0]
	if n == 0 {
		return 0, ErrEmptyBuffer
	}
	i := s.W
	if i+n > len(s.sa) {
		s.sort()
	}

	p := s.Data[:i+n]
	litIndex := i
	for ; i < len(p); i++ {
		j := int(s.isa[i])
		s.bits.insert(j)
		k1, ok1 := s.bits.memberBefore(j)
		k2, ok2 := s.bits.memberAfter(j)
		var f, m int
		if ok1 {
			f = int(s.sa[k1])
			m = lcp(p[f:], p[i:])
		}
		if ok2 {
			f2 := int(s.sa[k2])
			m2 := lcp(p[f2:], p[i:])
			if m2 > m || (m2 == m && f2 > f) {
				f, m = f2, m2
			}
		}
		if m < s.MinMatchLen {
			continue
		}
		o := i - f
		if !(0 < o && o < s.WindowSize) {
			continue
		}
		q := p[litIndex:i]
		blk.Sequences = append(blk.Sequences,
			Seq{
				MatchLen: uint32(m),
				LitLen:   uint32(len(q)),
				Offset:   uint32(o),
			})
		blk.Literals = append(blk.Literals, q...)
		litIndex = i + m
		for i++; i < litIndex; i++ {
			s.bits.insert(int(s.isa[i]))
		}
		i--
	}

	if flags&NoTrailingLiterals != 0 && len(blk.Sequences) > 0 {
		if litIndex < len(p) {
			// The positions behind litIndex are marked in bits already
			// and will be parsed again; force a rebuild.
			s.sa = s.sa[:0]
		}
		i = litIndex
	} else {
		blk.Literals = append(blk.Literals, p[litIndex:]...)
		i = len(p)
	}

	n = i - s.W
	s.W = i
	return n, nil
}
