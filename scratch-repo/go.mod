module github.com/ulikunitz/lz

go 1.22.0

require (
	github.com/google/go-cmp v0.6.0
	golang.org/x/exp v0.0.0-20240325151524-a685a6edb6d8
)
