/-
  LzProofs.GenGSAPLoop — one iteration of the translated greedy loop of `(*gsap).Parse` (gsap_Parse_loop_1 with its inner
  loop gsap_Parse_loop_2, LzModel/Generated/CodeGSAPParse.lean) is one step of the word-level probe `GsapBits.gsapProbeW`,
  and the whole loop is `ProbeW.greedyLoopW (gsapProbeW ws mm)` (instance of `GenParse.greedy_generic`).

  The word-level model reads `sa`, `isa` with TOTAL accessors (`getD`), the Go text panics on an index out of range.  The
  loop invariant `Marks` (position-independent, so that `greedy_generic` applies) makes the two agree:
    every member `r` of the bitset is a rank `< N = len(sa) = len(isa)` of a position `sa[r] < e = len(p)`,
    `isa[i] < N` and `sa[isa[i]] = i` for every position `i < e`,
    and the word span `off + len(a)` of the bitset is at most `N/64 + 1` (bounds the fuel of `memberBefore/After`).
  No sorry, no axioms of its own.
-/
import LzProofs.GenGSAPLemmas
import LzProofs.GenParseShared
import LzProofs.GenHPParse
import LzProofs.GenCallByName

set_option linter.unusedSimpArgs false
set_option linter.unusedVariables false

namespace LZ.GenGSAP
open LZ LZ.Gen LZ.GenDec LZ.GenBuf LZ.GenHash LZ.GenSuffix LZ.GenBitset LZ.GsapBits LZ.GenHPParse LZ.GenParse LZ.GenBUPParse

/-! ## the bitset invariant of a block -/

/-- the invariant of the word-level bitset while the block `p = data[:e]` is parsed with a suffix array of `N` entries -/
structure Marks (N e : Nat) (saN : Array Nat) (w : BitsetW) : Prop where
  inv : BitsetW.WInv w
  mark : ∀ r, BitsetW.mem w r → r < N ∧ saN.getD r 0 < e
  span : w.len = 0 ∨ w.off + w.len ≤ N / 64 + 1

/-- one insert of `j` with `j / 64 < K`: the word span stays below `K` -/
theorem insert_span (b : BitsetW) (hb : BitsetW.WInv b) (j K : Nat) (hj : j / 64 < K)
    (h : b.len = 0 ∨ b.off + b.len ≤ K) :
    ∃ b', b.insert [j] = some b' ∧ BitsetW.WInv b' ∧ (∀ i, BitsetW.mem b' i ↔ (BitsetW.mem b i ∨ i = j)) ∧
      b'.off + b'.len ≤ K := by
  have hcov := BitsetW.support_covers b hb j j (Nat.le_refl _)
  have hinv := BitsetW.support_inv b hb j j
  obtain ⟨b', e, inv', o', l', m'⟩ := BitsetW.setBits_spec [j] _ hinv (fun x hx => by
    have : x = j := by simpa using hx
    subst this; exact hcov)
  refine ⟨b', e, inv', ?_, ?_⟩
  · intro i
    rw [m', BitsetW.support_mem b hb]
    simp
  · rw [o', l']
    rcases BitsetW.support_cases b hb j j with ⟨h1, h2, e1⟩ | ⟨hc, ho, hl, _⟩
    · rw [e1]; omega
    · rw [ho, hl]
      unfold BitsetW.supportN BitsetW.supportOffD
      simp only
      split <;> split <;> (try split) <;> simp only <;> omega

theorem marks_insert {N e : Nat} {saN : Array Nat} {w : BitsetW} (hm : Marks N e saN w) (j : Nat) (hj : j < N)
    (hs : saN.getD j 0 < e) :
    ∃ w', w.insert [j] = some w' ∧ Marks N e saN w' ∧ (∀ r, BitsetW.mem w' r ↔ (BitsetW.mem w r ∨ r = j)) := by
  obtain ⟨w', e1, i1, m1, s1⟩ := insert_span w hm.inv j (N / 64 + 1)
    (by have := Nat.div_le_div_right (c := 64) (Nat.le_of_lt hj); omega) hm.span
  refine ⟨w', e1, ⟨i1, ?_, Or.inr s1⟩, m1⟩
  intro r hr
  rcases (m1 r).1 hr with h | h
  · exact hm.mark r h
  · subst h; exact ⟨hj, hs⟩

/-- the ranks of the positions `a, …, a+n-1 < e` -/
theorem marks_insertRanks {N e : Nat} {saN isaN : Array Nat}
    (hrk : ∀ i, i < e → isaN.getD i 0 < N ∧ saN.getD (isaN.getD i 0) 0 = i) :
    ∀ (n a : Nat) (w : BitsetW), Marks N e saN w → a + n ≤ e →
      ∃ w', insertRanksW isaN w a n = some w' ∧ Marks N e saN w' := by
  intro n
  induction n with
  | zero => intro a w hm _; exact ⟨w, rfl, hm⟩
  | succ n ih =>
    intro a w hm ha
    obtain ⟨h1, h2⟩ := hrk a (by omega)
    obtain ⟨w1, e1, m1, _⟩ := marks_insert hm (isaN.getD a 0) h1 (by rw [h2]; omega)
    obtain ⟨w2, e2, m2⟩ := ih (a + 1) w1 m1 (by omega)
    exact ⟨w2, by simp only [insertRanksW, e1, e2], m2⟩

/-! ## the fixed part of the Go state during the loop -/

/-- what the loop does not change, and what is known about it -/
structure LoopFix (PB : Gen.ParserBuffer) (SA ISA : GSlice Int32) (CFG : Gen.GSAPConfig) (N e mm ws : Nat) : Prop where
  wsa : GWF SA
  wisa : GWF ISA
  nsa : NonNeg SA
  nisa : NonNeg ISA
  lsa : SA.len = N
  lisa : ISA.len = N
  eN : e ≤ N
  rk : ∀ i, i < N → (absI32 ISA).getD i 0 < N ∧ (absI32 SA).getD ((absI32 ISA).getD i 0) 0 = i
  cmm : CFG.MinMatchLen = (mm : Int)
  mm1 : 1 ≤ mm
  cws : ws = CFG.WindowSize.toNat
  ws0 : 0 ≤ CFG.WindowSize

/-- the invariant of the Go state for `greedy_generic` -/
def LInv (PB : Gen.ParserBuffer) (SA ISA : GSlice Int32) (CFG : Gen.GSAPConfig) (N e : Nat) (s : Gen.gsap) : Prop :=
  s.ParserBuffer = PB ∧ s.sa = SA ∧ s.isa = ISA ∧ s.GSAPConfig = CFG ∧ BSWF s.bits ∧ Marks N e (absI32 SA) (ofBS s.bits)

/-- the candidate of the rank neighbour below -/
def cand1 (saN : Array Nat) (p : List Byte) (i : Nat) : Option Nat → Nat × Nat
  | some k1 => (saN.getD k1 0, lcpLen (p.drop (saN.getD k1 0)) (p.drop i))
  | none => (0, 0)

/-- … and the choice between it and the candidate of the rank neighbour above -/
def cand2 (saN : Array Nat) (p : List Byte) (i : Nat) (fm : Nat × Nat) : Option Nat → Nat × Nat
  | some k2 =>
    if lcpLen (p.drop (saN.getD k2 0)) (p.drop i) > fm.2 ∨
        (lcpLen (p.drop (saN.getD k2 0)) (p.drop i) = fm.2 ∧ saN.getD k2 0 > fm.1)
    then (saN.getD k2 0, lcpLen (p.drop (saN.getD k2 0)) (p.drop i)) else fm
  | none => fm

theorem candW_eq2 (saN : Array Nat) (w : BitsetW) (p : List Byte) (i j : Nat) :
    candW saN w p i j = cand2 saN p i (cand1 saN p i (w.memberBefore j)) (w.memberAfter j) := by
  unfold candW cand1 cand2
  cases w.memberBefore j <;> cases w.memberAfter j <;> rfl

/-- `f = int(s.sa[k]); m = lcp(p[f:], p[i:])` for a member `k` of the bitset -/
theorem cand_one (lcp : Slice → Slice → Int) (hlcp : LcpSpec lcp) (SA : GSlice Int32) (hw : GWF SA) (hn : NonNeg SA)
    (A : List UInt8) (e i k : Nat) (hk : k < SA.len) (hf : (absI32 SA).getD k 0 ≤ e) (hi : i ≤ e) (he : e ≤ A.length)
    {β : Type} (F : Int × Int → Res β) :
    (Res.bind (GSlice.index (0 : Int32) SA (k : Int)) fun t_5 =>
      Res.bind (Slice.slice ({ arr := A, len := e } : Slice) t_5.toInt (Int.ofNat e)) fun t_6 =>
      Res.bind (Slice.slice ({ arr := A, len := e } : Slice) (i : Int) (Int.ofNat e)) fun t_7 =>
      F (t_5.toInt, lcp t_6 t_7)) =
    F ((((absI32 SA).getD k 0 : Nat) : Int),
       ((lcpLen ((A.take e).drop ((absI32 SA).getD k 0)) ((A.take e).drop i) : Nat) : Int)) := by
  rw [gindex_ok (0 : Int32) SA (k : Int) k rfl hk, bind_ok, read_i32 SA hw hn k hk]
  rw [slice_okI _ _ (Int.ofNat e) ((absI32 SA).getD k 0) e rfl rfl hf he, bind_ok,
    slice_okI _ (i : Int) (Int.ofNat e) i e rfl rfl hi he, bind_ok, hlcp]
  simp only [Slice.data, List.drop_take]

set_option maxHeartbeats 1000000 in
/-- **one iteration of the greedy loop = one step of `gsapProbeW`**, the loop function applied BY GO VARIABLE NAME
    (`gcall%`, LzProofs/GenCallByName.lean): this is the form `loops_eq` uses; the audited `loop1_step` below is the same
    statement with the positional application -/
theorem loop1_step_n (grow : Nat → Nat → Nat) (lcp : Slice → Slice → Int) (hlcp : LcpSpec lcp)
    (SS : Slice → GSlice Int32 → Res (GSlice Int32)) (BI : Gen.bitset → List Int → Res Gen.bitset) (hBI : InsertSpec BI)
    (PB : Gen.ParserBuffer) (SA ISA : GSlice Int32) (CFG : Gen.GSAPConfig) (N e mm ws : Nat)
    (hfix : LoopFix PB SA ISA CFG N e mm ws) (A : List UInt8) (he : e ≤ A.length)
    (fuel i li : Nat) (ia lia : Int) (s : Gen.gsap) (blk : Block')
    (hinv : LInv PB SA ISA CFG N e s) (hia : ia = (i : Int)) (hlia : lia = (li : Int)) (hi : i < e) (hli : li ≤ i)
    (hfuel : e + (N / 64 + 3) ≤ fuel + i) :
    ∃ r, gsapProbeW ws mm (ofGW s) (A.take e) i li = some r ∧
      ∃ s', LInv PB SA ISA CFG N e s' ∧ r.1 = ofGW s' ∧
        (gcall% gsap_Parse_loop_1 [grow := grow, lcp := lcp, suffix_Sort := SS, bitset_insert := BI,
            p := ({ arr := A, len := e } : Slice), fuel := fuel + 1, s := s, blk := blk, i := ia, litIndex := lia]) =
          (match r.2 with
          | none => (gcall% gsap_Parse_loop_1 [grow := grow, lcp := lcp, suffix_Sort := SS, bitset_insert := BI,
            p := ({ arr := A, len := e } : Slice), fuel := fuel, s := s', blk := blk, i := ia + 1, litIndex := lia])
          | some (st, k, o) =>
            (gcall% gsap_Parse_loop_1 [grow := grow, lcp := lcp, suffix_Sort := SS, bitset_insert := BI,
            p := ({ arr := A, len := e } : Slice), fuel := fuel, s := s', blk := 
              { Sequences := blk.Sequences ++ [seqRep { litLen := st - li, matchLen := k, offset := o }],
                Literals := Slice.append grow blk.Literals ((A.drop li).take (st - li)) }, i := ((st + k : Nat) : Int), litIndex := ((st + k : Nat) : Int)])) ∧
        (∀ st k o, r.2 = some (st, k, o) → st = i ∧ 1 ≤ k ∧ i + k ≤ e) := by
  obtain ⟨hpb, hsa, hisa, hcfg, hbs, hmk⟩ := hinv
  obtain ⟨pb, sa, isa, bits, cfg⟩ := s
  simp only at hpb hsa hisa hcfg hbs hmk
  subst hpb hsa hisa hcfg
  subst hia
  have hmm1 := hfix.mm1
  have hpl : (A.take e).length = e := by rw [List.length_take]; omega
  obtain ⟨hj1, hj2⟩ := hfix.rk i (Nat.lt_of_lt_of_le hi hfix.eN)
  generalize hjn : (absI32 isa).getD i 0 = jn at hj1 hj2
  obtain ⟨w1x, e1, m1, mem1⟩ := marks_insert hmk jn hj1 (by rw [hj2]; exact hi)
  obtain ⟨b1, w1, r1, e1', a1, hb1⟩ := insert_one BI hBI bits hbs jn
  have : w1 = w1x := by rw [e1] at e1'; exact (Option.some.inj e1').symm
  subst this
  have heN := hfix.eN
  have hb1len : b1.a.len + 1 < fuel := by
    have : b1.a.len = (ofBS b1).len := rfl
    have hsp := m1.span
    rw [← a1] at hsp
    omega
  have hb1len' : b1.a.len + 1 < fuel := hb1len
  -- the two neighbours
  have hmbP := BitsetW.memberBefore_isPred w1 jn
  have hmaP := BitsetW.memberAfter_isGE w1 jn
  have hk1 : ∀ k, w1.memberBefore jn = some k → k < sa.len ∧ (absI32 sa).getD k 0 ≤ e := by
    intro k hk; rw [hk] at hmbP
    have := m1.mark k hmbP.1
    rw [hfix.lsa]; omega
  have hk2 : ∀ k, w1.memberAfter jn = some k → k < sa.len ∧ (absI32 sa).getD k 0 ≤ e := by
    intro k hk; rw [hk] at hmaP
    have := m1.mark k hmaP.1
    rw [hfix.lsa]; omega
  obtain ⟨c, hc⟩ : ∃ c, c = candW (absI32 sa) w1 (A.take e) i jn := ⟨_, rfl⟩
  have hlc : ∀ f, lcpLen ((A.take e).drop f) ((A.take e).drop i) ≤ e - i := fun f => by
    have := BytesW.lcpLen_le_right ((A.take e).drop f) ((A.take e).drop i)
    rwa [List.length_drop, hpl] at this
  have hcle : c.2 ≤ e - i := by
    rw [hc]; unfold candW
    cases w1.memberBefore jn <;> cases w1.memberAfter jn <;> simp only
    · omega
    · split
      · exact hlc _
      · omega
    · exact hlc _
    · split
      · exact hlc _
      · exact hlc _
  -- the Go side in continuation form
  -- (the type of `R` is the result type of the loop function, whatever the order of its state tuple)
  have hGo : ∀ R : Res _,
      (c.2 < mm → (gcall% gsap_Parse_loop_1 [grow := grow, lcp := lcp, suffix_Sort := SS, bitset_insert := BI,
            p := ({ arr := A, len := e } : Slice), fuel := fuel, s := ⟨pb, sa, isa, b1, cfg⟩, blk := blk, i := (i : Int) + 1, litIndex := lia]) = R) →
      (¬ c.2 < mm → ¬ (c.1 < i ∧ i - c.1 < ws) →
        (gcall% gsap_Parse_loop_1 [grow := grow, lcp := lcp, suffix_Sort := SS, bitset_insert := BI,
            p := ({ arr := A, len := e } : Slice), fuel := fuel, s := ⟨pb, sa, isa, b1, cfg⟩, blk := blk, i := (i : Int) + 1, litIndex := lia]) = R) →
      (¬ c.2 < mm → (c.1 < i ∧ i - c.1 < ws) →
        (Res.bind (gcall% gsap_Parse_loop_2 [grow := grow, lcp := lcp, suffix_Sort := SS, bitset_insert := BI,
            litIndex := (i : Int) + (c.2 : Int), fuel := fuel, s := ⟨pb, sa, isa, b1, cfg⟩, i := (i : Int) + 1]) fun r =>
          (gcall% gsap_Parse_loop_1 [grow := grow, lcp := lcp, suffix_Sort := SS, bitset_insert := BI,
            p := ({ arr := A, len := e } : Slice), fuel := fuel, s := (gproj% gsap_Parse_loop_2 s ((), r)), blk := 
            { Sequences := blk.Sequences ++ [seqRep { litLen := i - li, matchLen := c.2, offset := i - c.1 }],
              Literals := Slice.append grow blk.Literals ((A.drop li).take (i - li)) }, i := (gproj% gsap_Parse_loop_2 i ((), r)) - 1 + 1, litIndex := (i : Int) + (c.2 : Int)])) = R) →
      (gcall% gsap_Parse_loop_1 [grow := grow, lcp := lcp, suffix_Sort := SS, bitset_insert := BI,
            p := ({ arr := A, len := e } : Slice), fuel := fuel + 1, s := ⟨pb, sa, isa, bits, cfg⟩, blk := blk, i := (i : Int), litIndex := lia]) = R := by
    intro R h1 h2 h3
    rw [gsap_Parse_loop_1]
    have hc1 : (i : Int) < Int.ofNat ({ arr := A, len := e } : Slice).len := by show (i : Int) < (e : Int); omega
    rw [if_pos hc1]
    rw [gindex_ok (0 : Int32) isa (i : Int) i rfl (by rw [hfix.lisa]; omega), bind_ok]
    simp only [read_i32 isa hfix.wisa hfix.nisa i (by rw [hfix.lisa]; omega), hjn, r1, bind_ok,
      gen_bitset_memberBefore fuel b1 hb1 jn hb1len', gen_bitset_memberAfter fuel b1 hb1 jn hb1len', a1]
    -- the rank neighbour below
    refine bind_trans (v := (((cand1 (absI32 sa) (A.take e) i (w1.memberBefore jn)).1 : Int),
      ((cand1 (absI32 sa) (A.take e) i (w1.memberBefore jn)).2 : Int))) ?_ ?_
    · cases hmb : w1.memberBefore jn with
      | none => simp only [ans, cand1]; rfl
      | some k1 =>
        simp only [ans, if_true, cand1]
        exact cand_one lcp hlcp sa hfix.wsa hfix.nsa A e i k1 (hk1 k1 hmb).1 (hk1 k1 hmb).2 (by omega) he Res.ok
    dsimp only
    rw [candW_eq2] at hc
    generalize cand1 (absI32 sa) (A.take e) i (w1.memberBefore jn) = fm1 at hc ⊢
    -- the rank neighbour above
    refine bind_trans (v := ((c.1 : Int), (c.2 : Int))) ?_ ?_
    · cases hma : w1.memberAfter jn with
      | none =>
        rw [hma] at hc
        simp only [ans, cand2] at hc ⊢
        rw [hc]; rfl
      | some k2 =>
        rw [hma] at hc
        have hx := gindex_ok (0 : Int32) sa (k2 : Int) k2 rfl (hk2 k2 hma).1
        have hxi := read_i32 sa hfix.wsa hfix.nsa k2 (hk2 k2 hma).1
        have hs1 := slice_okI ({ arr := A, len := e } : Slice) (((absI32 sa).getD k2 0 : Nat) : Int) (Int.ofNat e)
          ((absI32 sa).getD k2 0) e rfl rfl (hk2 k2 hma).2 he
        have hs2 := slice_okI ({ arr := A, len := e } : Slice) (i : Int) (Int.ofNat e) i e rfl rfl (by omega) he
        have hlcpv : ∀ p q, lcp p q = ((lcpLen p.data q.data : Nat) : Int) := hlcp
        simp only [ans, if_true, hx, bind_ok, hxi, hs1, hs2, hlcpv, Slice.data, List.drop_take]
        simp only [cand2, List.drop_take] at hc
        generalize (absI32 sa).getD k2 0 = f2 at hc ⊢
        generalize lcpLen (List.take (e - f2) (List.drop f2 A)) (List.take (e - i) (List.drop i A)) = m2 at hc ⊢
        -- the tie rule, in whatever (linear) spelling the Go text has
        by_cases hcc : m2 > fm1.2 ∨ m2 = fm1.2 ∧ f2 > fm1.1
        · rw [if_pos hcc] at hc
          rw [if_pos (by omega)]; rw [hc]
        · rw [if_neg hcc] at hc
          rw [if_neg (by omega)]; rw [hc]
    dsimp only
    -- the tests
    by_cases hA : c.2 < mm
    · rw [if_pos (by rw [hfix.cmm]; omega)]
      exact h1 hA
    rw [if_neg (by rw [hfix.cmm]; omega)]
    have hws := hfix.cws
    have hws0 := hfix.ws0
    by_cases hB : c.1 < i ∧ i - c.1 < ws
    · rw [if_neg (by omega)]
      rw [hlia, slice_okI _ _ _ li i rfl rfl hli (by show i ≤ A.length; omega), bind_ok]
      have ho : (i : Int) - (c.1 : Int) = ((i - c.1 : Nat) : Int) := by omega
      rw [ho]
      exact h3 hA hB
    · rw [if_pos (by omega)]
      exact h2 hA hB
  -- the model side
  rw [gsapProbeW_eq]
  simp only [ofGW, hjn, e1]
  rw [← hc]
  have hofb1 : ({ sa := absI32 sa, isa := absI32 isa, bits := w1 } : GsapDW) = ofGW ⟨pb, sa, isa, b1, cfg⟩ := by
    show _ = GsapDW.mk _ _ (ofBS b1); rw [a1]
  by_cases hA : c.2 < mm
  · rw [if_pos hA]
    refine ⟨_, rfl, ⟨pb, sa, isa, b1, cfg⟩, ⟨rfl, rfl, rfl, rfl, hb1, by rw [a1]; exact m1⟩, hofb1, ?_, ?_⟩
    · exact hGo _ (fun _ => rfl) (fun h => absurd hA h) (fun h => absurd hA h)
    · intro st k o h; cases h
  rw [if_neg hA]
  by_cases hB : c.1 < i ∧ i - c.1 < ws
  · rw [if_neg (fun hh => hh hB)]
    obtain ⟨bits', w', r6, k2, k3, k4⟩ := ranks_loop_eq BI hBI (fun fuel s i0 => (gcall% gsap_Parse_loop_2 [grow := grow, lcp := lcp, suffix_Sort := SS, bitset_insert := BI,
            litIndex := (i : Int) + (c.2 : Int), fuel := fuel, s := s, i := i0]))
      (fun _ => (i : Int) + (c.2 : Int)) (fun _ _ => rfl) (i + c.2) (fun fuel s i => by rw [gsap_Parse_loop_2])
      (c.2 - 1) fuel (i + 1) ((i : Int) + 1) ⟨pb, sa, isa, b1, cfg⟩ (by omega) (Or.inl (by omega)) (by omega) (by omega)
      hfix.wisa hfix.nisa (Or.inl (by show i + c.2 ≤ isa.len; rw [hfix.lisa]; omega)) hb1
    obtain ⟨w'', k5, k6⟩ := marks_insertRanks (fun a ha => hfix.rk a (by omega)) (c.2 - 1) (i + 1) w1 m1 (by omega)
    have k2' : insertRanksW (absI32 isa) w1 (i + 1) (c.2 - 1) = some w' := by rw [← a1]; exact k2
    have : w'' = w' := by rw [k5] at k2'; exact Option.some.inj k2'
    subst this
    rw [k5]
    refine ⟨_, rfl, ⟨pb, sa, isa, bits', cfg⟩, ⟨rfl, rfl, rfl, rfl, k4, by rw [k3]; exact k6⟩,
      by show _ = GsapDW.mk _ _ (ofBS bits'); rw [k3], ?_, ?_⟩
    · refine hGo _ (fun h => absurd h hA) (fun _ h => absurd hB h) (fun _ _ => ?_)
      have r6' : (gcall% gsap_Parse_loop_2 [grow := grow, lcp := lcp, suffix_Sort := SS, bitset_insert := BI,
            litIndex := (i : Int) + (c.2 : Int), fuel := fuel, s := ⟨pb, sa, isa, b1, cfg⟩, i := (i : Int) + 1]) =
          Res.ok (gstate% gsap_Parse_loop_2 [s := ⟨pb, sa, isa, bits', cfg⟩, i := ((i + 1 + (c.2 - 1) : Nat) : Int)]) := r6
      rw [r6', bind_ok]
      have h1 : ((i + 1 + (c.2 - 1) : Nat) : Int) - 1 + 1 = ((i + c.2 : Nat) : Int) := by omega
      have h2 : (i : Int) + (c.2 : Int) = ((i + c.2 : Nat) : Int) := by omega
      dsimp only
      rw [h1, h2]
    · intro st k o h
      injection h with h
      injection h with h1 h
      injection h with h2 h3
      subst h1 h2
      exact ⟨rfl, by omega, by omega⟩
  · rw [if_pos hB]
    refine ⟨_, rfl, ⟨pb, sa, isa, b1, cfg⟩, ⟨rfl, rfl, rfl, rfl, hb1, by rw [a1]; exact m1⟩, hofb1, ?_, ?_⟩
    · exact hGo _ (fun h => absurd h hA) (fun _ _ => rfl) (fun _ h => absurd h hB)
    · intro st k o h; cases h

set_option maxHeartbeats 1000000 in
/-- **one iteration of the greedy loop = one step of `gsapProbeW`** -/
theorem loop1_step (grow : Nat → Nat → Nat) (lcp : Slice → Slice → Int) (hlcp : LcpSpec lcp)
    (SS : Slice → GSlice Int32 → Res (GSlice Int32)) (BI : Gen.bitset → List Int → Res Gen.bitset) (hBI : InsertSpec BI)
    (PB : Gen.ParserBuffer) (SA ISA : GSlice Int32) (CFG : Gen.GSAPConfig) (N e mm ws : Nat)
    (hfix : LoopFix PB SA ISA CFG N e mm ws) (A : List UInt8) (he : e ≤ A.length)
    (fuel i li : Nat) (ia lia : Int) (s : Gen.gsap) (blk : Block')
    (hinv : LInv PB SA ISA CFG N e s) (hia : ia = (i : Int)) (hlia : lia = (li : Int)) (hi : i < e) (hli : li ≤ i)
    (hfuel : e + (N / 64 + 3) ≤ fuel + i) :
    ∃ r, gsapProbeW ws mm (ofGW s) (A.take e) i li = some r ∧
      ∃ s', LInv PB SA ISA CFG N e s' ∧ r.1 = ofGW s' ∧
        gsap_Parse_loop_1 grow lcp SS BI { arr := A, len := e } (fuel + 1) s blk ia lia =
          (match r.2 with
          | none => gsap_Parse_loop_1 grow lcp SS BI { arr := A, len := e } fuel s' blk (ia + 1) lia
          | some (st, k, o) =>
            gsap_Parse_loop_1 grow lcp SS BI { arr := A, len := e } fuel s'
              { Sequences := blk.Sequences ++ [seqRep { litLen := st - li, matchLen := k, offset := o }],
                Literals := Slice.append grow blk.Literals ((A.drop li).take (st - li)) }
              ((st + k : Nat) : Int) ((st + k : Nat) : Int)) ∧
        (∀ st k o, r.2 = some (st, k, o) → st = i ∧ 1 ≤ k ∧ i + k ≤ e) :=
  loop1_step_n grow lcp hlcp SS BI hBI PB SA ISA CFG N e mm ws hfix A he fuel i li ia lia s blk hinv hia hlia hi hli hfuel

/-! ## the whole loop -/

/-- **The greedy loop of `Parse`** (gsap_Parse_loop_1) is `ProbeW.greedyLoopW (gsapProbeW ws mm)` on the block
    `A[:e]`; instance of `GenParse.greedy_generic` (the state tuple of the generated loop is `(s, blk, i, litIndex)`,
    reordered for the generic lemma); every iteration may need `N/64 + 3` extra fuel (the word scans of
    `memberBefore` / `memberAfter`). -/
theorem loops_eq (grow : Nat → Nat → Nat) (lcp : Slice → Slice → Int) (hlcp : LcpSpec lcp)
    (SS : Slice → GSlice Int32 → Res (GSlice Int32)) (BI : Gen.bitset → List Int → Res Gen.bitset) (hBI : InsertSpec BI)
    (PB : Gen.ParserBuffer) (SA ISA : GSlice Int32) (CFG : Gen.GSAPConfig) (N e mm ws : Nat)
    (hfix : LoopFix PB SA ISA CFG N e mm ws) (A : List UInt8) (he : e ≤ A.length)
    (fuel w : Nat) (s : Gen.gsap) (blk : Block') (hinv : LInv PB SA ISA CFG N e s) (hw : w ≤ e)
    (hfuel : e + (N / 64 + 3) + 1 ≤ fuel + w)
    (hsq : blk.Sequences = []) (hlt : blk.Literals.data = []) (hswf : SWF blk.Literals) :
    ∃ (st' : LoopSt GsapDW) (s' : Gen.gsap) (blk' : Block'),
      ProbeW.greedyLoopW (gsapProbeW ws mm) (A.take e) e
        { dict := ofGW s, i := w, litIndex := w, seqs := [], lits := [] } = some st' ∧
      (gcall% gsap_Parse_loop_1 [grow := grow, lcp := lcp, suffix_Sort := SS, bitset_insert := BI,
            p := ({ arr := A, len := e } : Slice), fuel := fuel, s := s, blk := blk, i := (w : Int), litIndex := (w : Int)]) =
        Res.ok (gstate% gsap_Parse_loop_1 [s := s', blk := blk', i := (e : Int), litIndex := (st'.litIndex : Int)]) ∧
      LInv PB SA ISA CFG N e s' ∧ st'.dict = ofGW s' ∧ st'.i = e ∧ st'.litIndex ≤ e ∧ w ≤ st'.litIndex ∧
      blk'.Sequences = st'.seqs.map seqRep ∧ blk'.Literals.data = st'.lits ∧ SWF blk'.Literals := by
  let loopF : Nat → Int → Gen.gsap → Block' → Int → Res (Int × Gen.gsap × Block' × Int) :=
    fun fuel ia s blk lia =>
      Res.bind (gcall% gsap_Parse_loop_1 [grow := grow, lcp := lcp, suffix_Sort := SS, bitset_insert := BI,
            p := ({ arr := A, len := e } : Slice), fuel := fuel, s := s, blk := blk, i := ia, litIndex := lia]) fun r =>
        Res.ok (gproj% gsap_Parse_loop_1 i ((), r), gproj% gsap_Parse_loop_1 s ((), r),
          gproj% gsap_Parse_loop_1 blk ((), r), gproj% gsap_Parse_loop_1 litIndex ((), r))
  obtain ⟨st', s', blk', h1, h2, h3, h4, h5, h6, h7, h8, h9, h10, h11⟩ :=
    greedy_generic (gsapProbeW ws mm) loopF ofGW (LInv PB SA ISA CFG N e) grow A e e e (N / 64 + 3) 0
      (Nat.le_refl _) (Nat.le_refl _) he
      (fun fuel ia s blk lia hia => by
        show Res.bind (gcall% gsap_Parse_loop_1 [grow := grow, lcp := lcp, suffix_Sort := SS, bitset_insert := BI,
            p := ({ arr := A, len := e } : Slice), fuel := fuel + 1, s := s, blk := blk, i := ia, litIndex := lia]) _ = _
        rw [gsap_Parse_loop_1, if_neg (by show ¬ ia < (e : Int); exact hia)]
        rfl)
      (fun fuel i li ia lia s blk hI hia hlia _ hi hli hf => by
        obtain ⟨r, hr, s1, hI1, hr1, hstp, hb⟩ := loop1_step_n grow lcp hlcp SS BI hBI PB SA ISA CFG N e mm ws hfix A he
          fuel i li ia lia s blk hI hia hlia hi hli hf
        refine ⟨r, hr, s1, hI1, hr1, ?_, ?_⟩
        · show Res.bind (gcall% gsap_Parse_loop_1 [grow := grow, lcp := lcp, suffix_Sort := SS, bitset_insert := BI,
            p := ({ arr := A, len := e } : Slice), fuel := fuel + 1, s := s, blk := blk, i := ia, litIndex := lia]) _ = _
          rw [hstp]
          cases r.2 with
          | none => rfl
          | some x => rfl
        · intro st k o hh
          obtain ⟨a1, a2, a3⟩ := hb st k o hh
          subst a1
          exact ⟨hli, Nat.le_refl _, by omega, a3⟩)
      (e - w) fuel w w (w : Int) (w : Int) s blk [] [] (by omega) (Nat.zero_le _) hw (Nat.le_refl _) rfl rfl
      (by omega) hinv (by rw [hsq]; rfl) hlt hswf
  have hi' : st'.i = e := by omega
  have hdone : ProbeW.greedyLoopW (gsapProbeW ws mm) (A.take e) e st' = some st' :=
    ProbeW.greedyLoopW_done _ _ _ _ (by omega)
  refine ⟨st', s', blk', by rw [h1, hdone], ?_, h3, h4, hi', by omega, h11, h8, h9, h10⟩
  have h2' : Res.bind (gcall% gsap_Parse_loop_1 [grow := grow, lcp := lcp, suffix_Sort := SS, bitset_insert := BI,
            p := ({ arr := A, len := e } : Slice), fuel := fuel, s := s, blk := blk, i := (w : Int), litIndex := (w : Int)])
      (fun r => Res.ok (gproj% gsap_Parse_loop_1 i ((), r), gproj% gsap_Parse_loop_1 s ((), r),
        gproj% gsap_Parse_loop_1 blk ((), r), gproj% gsap_Parse_loop_1 litIndex ((), r))) =
      Res.ok ((st'.i : Int), s', blk', (st'.litIndex : Int)) := h2
  cases hL : (gcall% gsap_Parse_loop_1 [grow := grow, lcp := lcp, suffix_Sort := SS, bitset_insert := BI,
            p := ({ arr := A, len := e } : Slice), fuel := fuel, s := s, blk := blk, i := (w : Int), litIndex := (w : Int)]) with
  | ok r =>
    rw [hL, bind_ok] at h2'
    -- the components of the result by name; the tuple is put together again by eta
    injection h2' with h2'
    simp only [Prod.mk.injEq] at h2'
    obtain ⟨q1, q2, q3, q4⟩ := h2'
    rw [hi'] at q1
    rw [← q1, ← q2, ← q3, ← q4]
  | panic => rw [hL] at h2'; cases h2'
  | fuel => rw [hL] at h2'; cases h2'

/-! ## from `greedyLoopW` to the loop `gsapParseW` runs -/

/-- the loop state of `Parser.runGreedy ⟨probeW ws mm⟩` for a panic-free run -/
def liftSt (st : LoopSt GsapDW) : LoopSt (Option GsapDW) :=
  { dict := some st.dict, i := st.i, litIndex := st.litIndex, seqs := st.seqs, lits := st.lits }

theorem greedyLoopW_noneP (f : GsapDW → List Byte → Nat → Nat → Option (GsapDW × Option (Nat × Nat × Nat)))
    (p : List Byte) (stop : Nat) (st : LoopSt GsapDW) (h : st.i < stop) (hp : f st.dict p st.i st.litIndex = none) :
    ProbeW.greedyLoopW f p stop st = none := by
  rw [ProbeW.greedyLoopW]; simp only [h, dite_true]
  split
  · rfl
  · rename_i d2 heq; rw [hp] at heq; cases heq
  · rename_i d2 s2 k2 o2 heq; rw [hp] at heq; cases heq

theorem greedyLoopW_lift (ws mm : Nat) (p : List Byte) (stop : Nat) :
    ∀ (n : Nat) (st st' : LoopSt GsapDW), stop - st.i ≤ n →
      ProbeW.greedyLoopW (gsapProbeW ws mm) p stop st = some st' →
      greedyLoop ⟨probeW ws mm⟩ p stop (liftSt st) = liftSt st' := by
  intro n
  induction n with
  | zero =>
    intro st st' hn h
    have hi : ¬ st.i < stop := by omega
    rw [ProbeW.greedyLoopW_done _ _ _ _ hi] at h
    injection h with h; subst h
    exact greedyLoop_done _ _ _ _ hi
  | succ n ih =>
    intro st st' hn h
    by_cases hi : st.i < stop
    · cases hp : gsapProbeW ws mm st.dict p st.i st.litIndex with
      | none => rw [greedyLoopW_noneP _ _ _ _ hi hp] at h; cases h
      | some r =>
        obtain ⟨d, m⟩ := r
        cases m with
        | none =>
          rw [ProbeW.greedyLoopW_none _ _ _ _ d hi hp] at h
          have hp' : (⟨probeW ws mm⟩ : Finder (Option GsapDW)).probe (liftSt st).dict p (liftSt st).i (liftSt st).litIndex =
              (some d, none) := by
            show probeW ws mm (some st.dict) p st.i st.litIndex = _
            simp only [probeW, hp]
          rw [greedyLoop_none _ _ _ _ (some d) hi hp']
          exact ih { st with dict := d, i := st.i + 1 } st' (by show stop - (st.i + 1) ≤ n; omega) h
        | some x =>
          obtain ⟨s0, k, o⟩ := x
          have hp' : (⟨probeW ws mm⟩ : Finder (Option GsapDW)).probe (liftSt st).dict p (liftSt st).i (liftSt st).litIndex =
              (some d, some (s0, k, o)) := by
            show probeW ws mm (some st.dict) p st.i st.litIndex = _
            simp only [probeW, hp]
          by_cases hk : s0 + k > st.i
          · rw [ProbeW.greedyLoopW_some _ _ _ _ d s0 k o hi hp hk] at h
            rw [greedyLoop_some _ _ _ _ (some d) s0 k o hi hp' hk]
            exact ih _ st' (by show stop - (s0 + k) ≤ n; omega) h
          · rw [ProbeW.greedyLoopW_bad _ _ _ _ d s0 k o hi hp hk] at h
            injection h with h; subst h
            rw [ProbeW.greedyLoop_bad _ _ _ _ (some d) s0 k o hi hp' hk]
            rfl
    · rw [ProbeW.greedyLoopW_done _ _ _ _ hi] at h
      injection h with h; subst h
      exact greedyLoop_done _ _ _ _ hi

end LZ.GenGSAP

#print axioms LZ.GenGSAP.loop1_step_n
#print axioms LZ.GenGSAP.loop1_step
#print axioms LZ.GenGSAP.loops_eq
#print axioms LZ.GenGSAP.greedyLoopW_lift
