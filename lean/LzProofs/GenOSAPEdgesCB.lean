/-
  LzProofs.GenOSAPEdgesCB — the CLOSURE `f := func(m int, seg []int32) {…}` of osap.go `(*optSuffixArrayParser).computeEdges`,
  lambda-lifted by tools/extract (code_cblift.go) into the method `computeEdges_f(w int32, m int, seg []int32)` and
  translated (LzModel/Generated/CodeOSAPEdges.lean: `optSuffixArrayParser_computeEdges_f`, `…_f_loop_1`), against the
  model callback `LZ.edgeCallback` (LzModel/Sap.lean):

    SliceSortSpec        specification hypothesis of the opaque callee `slices.Sort(seg)`: the elements up to `len` become a
                         SORTED PERMUTATION of what they were, everything else (length, capacity, the array behind `len`)
                         is untouched
    cb_loop              the loop `for j := len(seg) - 1; j > 0; j--` over a strictly ascending segment = `edgeCallback`
                         over the descending list: the `k < 0` break, the offset `uint32(i - seg[j-1])`, the window test
                         `o > uint32(s.WindowSize)`, the re-use test `(*p)[len(*p)-1].o <= o`, `s.nEdges++`, the `append`
    gen_osap_edgeCB      the whole closure on a segment holding a list of DISTINCT naturals `< 2^31`: it sorts the segment
                         and leaves `edgeCallback ws woff m (sorted segment, descending)`
  No sorry, no axioms of its own.
-/
import LzModel.Generated.CodeOSAPEdges
import LzProofs.GenOSAPParseLemmas
import LzProofs.GenSuffixPropsSeg
import LzProofs.EdgesProps

set_option linter.unusedSimpArgs false
set_option linter.unusedVariables false

namespace LZ.GenOSAP
open LZ LZ.Gen LZ.GenBuf LZ.GenHash LZ.GenSuffix LZ.GenProps

/-- the naturals a segment of `sa` holds -/
def o32 (k : Nat) : Int32 := Int32.ofInt (k : Int)

theorem o32_toInt (k : Nat) (h : k < 2147483648) : (o32 k).toInt = (k : Int) :=
  i32_ofInt _ (by omega) (by omega)

/-- the specification assumed for `slices.Sort(seg)` on `[]int32` -/
def SliceSortSpec (slices_Sort : GSlice Int32 → Res (GSlice Int32)) : Prop :=
  ∀ (seg : GSlice Int32), GWF seg →
    ∃ seg', slices_Sort seg = Res.ok seg' ∧ seg'.len = seg.len ∧ seg'.arr.length = seg.arr.length ∧
      seg'.arr.drop seg.len = seg.arr.drop seg.len ∧ (seg'.arr.take seg.len).Perm (seg.arr.take seg.len) ∧
      (seg'.arr.take seg.len).Pairwise (fun a b => a.toInt ≤ b.toInt)

/-- only `edges` and `nEdges` differ -/
def EdgesFrame (s s' : Gen.optSuffixArrayParser) : Prop :=
  s' = { s with edges := s'.edges, nEdges := s'.nEdges }

theorem EdgesFrame.refl (s : Gen.optSuffixArrayParser) : EdgesFrame s s := rfl

theorem EdgesFrame.trans {a b c : Gen.optSuffixArrayParser} (h1 : EdgesFrame a b) (h2 : EdgesFrame b c) : EdgesFrame a c := by
  unfold EdgesFrame at *
  rw [h2, h1]

/-- `X[k] = append(X[k], e)` on the abstraction -/
theorem edgesAbs_append (grow : Nat → Nat → Nat) (es : GSlice (GSlice Gen.edge)) (hes : GWF es)
    (hq : ∀ q ∈ es.data, GWF q) (k : Nat) (hk : k < es.len) (e : Gen.edge) :
    let q := (es.arr[k]?).getD GSlice.nil
    let es' : GSlice (GSlice Gen.edge) := { es with arr := es.arr.set k (GSlice.append ({ m := 0, o := 0 } : Gen.edge) grow q [e]) }
    edgesAbs es' = (edgesAbs es).setIfInBounds k ((edgesAbs es).getD k [] ++ [edgeAbs e]) ∧ GWF es' ∧
      (∀ q' ∈ es'.data, GWF q') ∧ es'.len = es.len := by
  intro q es'
  have hkl : k < es.arr.length := by unfold GWF at hes; omega
  have hqm : q ∈ es.data := by
    have : es.data[k]? = some q := by
      rw [gdata_getElem?, if_pos hk, List.getElem?_eq_getElem hkl]
      show _ = some ((es.arr[k]?).getD GSlice.nil)
      rw [List.getElem?_eq_getElem hkl]; rfl
    exact List.mem_of_getElem? this
  have hqw := hq q hqm
  obtain ⟨a1, a2⟩ := gappend_data ({ m := 0, o := 0 } : Gen.edge) grow q hqw e
  have hcur : (edgesAbs es).getD k [] = q.data.map edgeAbs := by
    rw [Array.getD_eq_getD_getElem?, edgesAbs_getElem? hes k hk]; rfl
  refine ⟨?_, gset_wf hes k _, ?_, rfl⟩
  · show ((es'.data.map (fun q => q.data.map edgeAbs)).toArray) = _
    rw [gabs_set (fun q => q.data.map edgeAbs) es k _, a1, List.map_append, hcur]
    rfl
  · intro q' hq'
    have : es'.data = es.data.set k _ := gset_data es k _
    rw [this] at hq'
    rcases List.mem_or_eq_of_mem_set hq' with h | h
    · exact hq q' h
    · rw [h]; exact a2

/-! ## the three cases of one step of the model callback -/

theorem edgeCallback_break (ws : Nat) (woff : Int) (m i prev : Nat) (rest : List Nat) (edges : Array (List Edge)) (cnt : Nat)
    (hk : (i : Int) + woff < 0) :
    edgeCallback ws woff m (i :: prev :: rest) (edges, cnt) = (edges, cnt) := by
  unfold edgeCallback
  simp only [hk, if_true]

theorem edgeCallback_skip (ws : Nat) (woff : Int) (m i prev : Nat) (rest : List Nat) (edges : Array (List Edge)) (cnt : Nat)
    (hk : ¬ (i : Int) + woff < 0)
    (h : i - prev > ws ∨ ∃ e, (edges.getD ((i : Int) + woff).toNat []).getLast? = some e ∧ e.2 ≤ i - prev) :
    edgeCallback ws woff m (i :: prev :: rest) (edges, cnt) = edgeCallback ws woff m (prev :: rest) (edges, cnt) := by
  rw [edgeCallback]
  simp only [hk, if_false]
  rcases h with h | ⟨e, he, hle⟩
  · simp only [h, decide_true, Bool.true_or, if_true]
  · rw [he]
    simp only [hle, decide_true, Bool.or_true, if_true]

theorem edgeCallback_add (ws : Nat) (woff : Int) (m i prev : Nat) (rest : List Nat) (edges : Array (List Edge)) (cnt : Nat)
    (hk : ¬ (i : Int) + woff < 0) (h1 : ¬ i - prev > ws)
    (h2 : ∀ e, (edges.getD ((i : Int) + woff).toNat []).getLast? = some e → ¬ e.2 ≤ i - prev) :
    edgeCallback ws woff m (i :: prev :: rest) (edges, cnt) =
      edgeCallback ws woff m (prev :: rest)
        (edges.setIfInBounds ((i : Int) + woff).toNat (edges.getD ((i : Int) + woff).toNat [] ++ [(m, i - prev)]), cnt + 1) := by
  rw [edgeCallback]
  simp only [hk, if_false]
  cases he : (edges.getD ((i : Int) + woff).toNat []).getLast? with
  | none => simp only [h1, decide_false, Bool.or_false, Bool.false_eq_true, if_false]
  | some e =>
    have := h2 e he
    simp only [h1, this, decide_false, Bool.or_false, Bool.false_eq_true, if_false]

section Loop
variable (grow : Nat → Nat → Nat) (slices_Sort : GSlice Int32 → Res (GSlice Int32))

/-- **the loop of the closure** over a strictly ascending segment `xs` (as int32 values in `seg`), from index `j` down:
    `edgeCallback` over `xs[j], xs[j-1], …, xs[0]`. -/
theorem cb_loop (seg : GSlice Int32) (xs : List Nat) (hsw : GWF seg) (hsd : seg.data = xs.map o32)
    (hx31 : ∀ x ∈ xs, x < 2147483648) (hasc : xs.Pairwise (fun a b => a < b))
    (w : Int32) (woff : Int) (hw : w.toInt = woff) (hwr : -2147483648 < woff ∧ woff ≤ 0)
    (m : Int) (hm : 0 ≤ m ∧ m < 4294967296) :
    ∀ (j : Nat) (fuel : Nat) (s : Gen.optSuffixArrayParser), j < xs.length → j + 1 ≤ fuel → GWF s.edges →
      (∀ q ∈ s.edges.data, GWF q) → 0 ≤ s.nEdges → 0 ≤ s.OSAPConfig.WindowSize → s.OSAPConfig.WindowSize < 4294967296 →
      (∀ x ∈ xs, (x : Int) + woff < (s.edges.len : Int)) →
      ∃ s' j', optSuffixArrayParser_computeEdges_f_loop_1 grow slices_Sort seg w m fuel s (j : Int) = Res.ok (s', j') ∧
        (edgesAbs s'.edges, s'.nEdges.toNat) =
          edgeCallback s.OSAPConfig.WindowSize.toNat woff m.toNat ((xs.take (j + 1)).reverse)
            (edgesAbs s.edges, s.nEdges.toNat) ∧
        0 ≤ s'.nEdges ∧ GWF s'.edges ∧ (∀ q ∈ s'.edges.data, GWF q) ∧ s'.edges.len = s.edges.len ∧ EdgesFrame s s' := by
  have hlen : seg.len = xs.length := by
    have := gdata_length hsw
    rw [hsd, List.length_map] at this; exact this.symm
  have hget : ∀ i, (hi : i < xs.length) → (seg.arr[i]?).getD (0 : Int32) = o32 xs[i] := by
    intro i hi
    have h1 : seg.data[i]? = some (o32 xs[i]) := by rw [hsd, List.getElem?_map, List.getElem?_eq_getElem hi]; rfl
    rw [gdata_getElem?, if_pos (by omega)] at h1
    rw [h1]; rfl
  intro j
  induction j with
  | zero =>
    intro fuel s hj hf hE hq hn hws0 hws32 hb
    obtain ⟨f, rfl⟩ : ∃ f, fuel = f + 1 := ⟨fuel - 1, by omega⟩
    refine ⟨s, 0, ?_, ?_, hn, hE, hq, rfl, EdgesFrame.refl s⟩
    · unfold optSuffixArrayParser_computeEdges_f_loop_1
      rw [if_neg (by show ¬ ((0 : Nat) : Int) > 0; omega)]
      rfl
    · obtain ⟨x0, rest, hxs⟩ : ∃ x0 rest, xs = x0 :: rest := by
        cases xs with
        | nil => simp at hj
        | cons a b => exact ⟨a, b, rfl⟩
      subst hxs
      simp [edgeCallback]
  | succ j ih =>
    intro fuel s hj hf hE hq hn hws0 hws32 hb
    obtain ⟨f, rfl⟩ : ∃ f, fuel = f + 1 := ⟨fuel - 1, by omega⟩
    have hj0 : j < xs.length := by omega
    -- the two elements
    have hxi := hx31 xs[j + 1] (List.getElem_mem hj)
    have hxp := hx31 xs[j] (List.getElem_mem hj0)
    have hlt : xs[j] < xs[j + 1] := (List.pairwise_iff_getElem.1 hasc) j (j + 1) hj0 hj (by omega)
    have hdesc : (xs.take (j + 1 + 1)).reverse = xs[j + 1] :: xs[j] :: (xs.take j).reverse := by
      rw [List.take_add_one, List.getElem?_eq_getElem hj, List.take_add_one, List.getElem?_eq_getElem hj0]
      simp
    have hdesc1 : (xs.take (j + 1)).reverse = xs[j] :: (xs.take j).reverse := by
      rw [List.take_add_one, List.getElem?_eq_getElem hj0]
      simp
    rw [hdesc]
    have hk : ((o32 xs[j + 1]) + w).toInt = (xs[j + 1] : Int) + woff := by
      rw [i32_add _ _ (by rw [o32_toInt _ hxi, hw]; omega) (by rw [o32_toInt _ hxi, hw]; omega), o32_toInt _ hxi, hw]
    have hsub : ((o32 xs[j + 1]) - (o32 xs[j])).toInt = ((xs[j + 1] - xs[j] : Nat) : Int) := by
      rw [i32_sub _ _ (by rw [o32_toInt _ hxi, o32_toInt _ hxp]; omega) (by rw [o32_toInt _ hxi, o32_toInt _ hxp]; omega),
        o32_toInt _ hxi, o32_toInt _ hxp]
      omega
    have ho : (UInt32.ofInt ((o32 xs[j + 1]) - (o32 xs[j])).toInt).toNat = xs[j + 1] - xs[j] :=
      u32_ofInt _ _ hsub (by omega)
    have hwsn : (UInt32.ofInt s.OSAPConfig.WindowSize).toNat = s.OSAPConfig.WindowSize.toNat :=
      u32_ofInt _ _ (by omega) (by omega)
    unfold optSuffixArrayParser_computeEdges_f_loop_1
    rw [if_pos (by show ((j + 1 : Nat) : Int) > 0; omega),
      gindex_ok (0 : Int32) seg ((j + 1 : Nat) : Int) (j + 1) rfl (by omega), bind_ok, hget (j + 1) hj]
    simp only []
    by_cases hneg : (xs[j + 1] : Int) + woff < 0
    · -- break
      rw [if_pos ((i32_lt_iff _ _).2 (by rw [hk, i32_zero]; exact hneg)), edgeCallback_break _ _ _ _ _ _ _ _ hneg]
      exact ⟨s, _, rfl, rfl, hn, hE, hq, rfl, EdgesFrame.refl s⟩
    · rw [if_neg (fun hc => hneg (by have := (i32_lt_iff _ _).1 hc; rw [hk, i32_zero] at this; exact this))]
      have hjm : ((j + 1 : Nat) : Int) - 1 = (j : Int) := by omega
      rw [hjm, gindex_ok (0 : Int32) seg (j : Int) j rfl (by omega), bind_ok, hget j hj0]
      -- the index into the edge table
      obtain ⟨kN, hkN⟩ : ∃ kN : Nat, (xs[j + 1] : Int) + woff = (kN : Int) := ⟨((xs[j + 1] : Int) + woff).toNat, by omega⟩
      have hkl : kN < s.edges.len := by
        have := hb xs[j + 1] (List.getElem_mem hj)
        omega
      have hktn : ((xs[j + 1] : Int) + woff).toNat = kN := by omega
      by_cases hwin : xs[j + 1] - xs[j] > s.OSAPConfig.WindowSize.toNat
      · -- outside the window
        have hgt : UInt32.ofInt ((o32 xs[j + 1]) - (o32 xs[j])).toInt > UInt32.ofInt s.OSAPConfig.WindowSize := by
          show UInt32.ofInt s.OSAPConfig.WindowSize < _
          rw [UInt32.lt_iff_toNat_lt, ho, hwsn]; exact hwin
        rw [if_pos hgt, edgeCallback_skip _ _ _ _ _ _ _ _ hneg (Or.inl hwin)]
        obtain ⟨s', j', h1, h2, h3⟩ := ih f s hj0 (by omega) hE hq hn hws0 hws32 hb
        rw [hdesc1] at h2
        exact ⟨s', j', h1, h2, h3⟩
      · have hngt : ¬ UInt32.ofInt ((o32 xs[j + 1]) - (o32 xs[j])).toInt > UInt32.ofInt s.OSAPConfig.WindowSize := by
          intro hc
          have : UInt32.ofInt s.OSAPConfig.WindowSize < UInt32.ofInt ((o32 xs[j + 1]) - (o32 xs[j])).toInt := hc
          rw [UInt32.lt_iff_toNat_lt, ho, hwsn] at this
          exact hwin this
        rw [if_neg hngt]
        have hkI : ((o32 xs[j + 1]) + w).toInt = (kN : Int) := by rw [hk, hkN]
        rw [hkI, gindex_ok (GSlice.nil : GSlice Gen.edge) s.edges (kN : Int) kN rfl hkl, bind_ok, bind_ok]
        -- the edge list of position kN
        generalize hqd : (s.edges.arr[kN]?).getD (GSlice.nil : GSlice Gen.edge) = q
        have hkal : kN < s.edges.arr.length := by unfold GWF at hE; omega
        have hqm : q ∈ s.edges.data := by
          have : s.edges.data[kN]? = some q := by
            rw [gdata_getElem?, if_pos hkl, List.getElem?_eq_getElem hkal, ← hqd, List.getElem?_eq_getElem hkal]; rfl
          exact List.mem_of_getElem? this
        have hqw := hq q hqm
        have hcur : (edgesAbs s.edges).getD kN [] = q.data.map edgeAbs := by
          rw [Array.getD_eq_getD_getElem?, edgesAbs_getElem? hE kN hkl, hqd]; rfl
        have hql : q.data.length = q.len := gdata_length hqw
        -- the state after an append
        have happ : ∃ s' j', ((Res.ok q).bind fun t_5 =>
              Res.bind (GSlice.set s.edges (kN : Int) (GSlice.append ({ m := 0, o := 0 } : Gen.edge) grow t_5
                [({ m := UInt32.ofInt m, o := UInt32.ofInt ((o32 xs[j + 1]) - (o32 xs[j])).toInt } : Gen.edge)])) fun t_6 =>
              optSuffixArrayParser_computeEdges_f_loop_1 grow slices_Sort seg w m f
                { s with nEdges := s.nEdges + 1, edges := t_6 } (j : Int)) =
                Res.ok (s', j') ∧
              (edgesAbs s'.edges, s'.nEdges.toNat) =
                edgeCallback s.OSAPConfig.WindowSize.toNat woff m.toNat (xs[j] :: (xs.take j).reverse)
                  ((edgesAbs s.edges).setIfInBounds kN ((edgesAbs s.edges).getD kN [] ++ [(m.toNat, xs[j + 1] - xs[j])]),
                    s.nEdges.toNat + 1) ∧
              0 ≤ s'.nEdges ∧ GWF s'.edges ∧ (∀ q ∈ s'.edges.data, GWF q) ∧ s'.edges.len = s.edges.len ∧ EdgesFrame s s' := by
          rw [bind_ok, gset_ok s.edges (kN : Int) kN rfl hkl, bind_ok]
          obtain ⟨b1, b2, b3, b4⟩ := edgesAbs_append grow s.edges hE hq kN hkl
            ({ m := UInt32.ofInt m, o := UInt32.ofInt ((o32 xs[j + 1]) - (o32 xs[j])).toInt } : Gen.edge)
          rw [hqd] at b1 b2 b3 b4
          have he : edgeAbs ({ m := UInt32.ofInt m, o := UInt32.ofInt ((o32 xs[j + 1]) - (o32 xs[j])).toInt } : Gen.edge) =
              (m.toNat, xs[j + 1] - xs[j]) := by
            unfold edgeAbs
            simp only [ho]
            rw [u32_ofInt m.toNat m (by omega) (by omega)]
          rw [he] at b1
          obtain ⟨s', j', h1, h2, h3, h4, h5, h6, h7⟩ := ih f
            { s with nEdges := s.nEdges + 1,
                     edges := { s.edges with arr := s.edges.arr.set kN (GSlice.append ({ m := 0, o := 0 } : Gen.edge) grow q
                       [({ m := UInt32.ofInt m, o := UInt32.ofInt ((o32 xs[j + 1]) - (o32 xs[j])).toInt } : Gen.edge)]) } }
            hj0 (by omega) b2 b3 (by show 0 ≤ s.nEdges + 1; omega) hws0 hws32 (by intro x hx; have := hb x hx; exact this)
          refine ⟨s', j', h1, ?_, h3, h4, h5, h6, ?_⟩
          · rw [h2, hdesc1]
            show edgeCallback _ _ _ _ (edgesAbs _, (s.nEdges + 1).toNat) = _
            rw [b1]
            congr 2
            omega
          · unfold EdgesFrame at h7 ⊢
            rw [h7]
        by_cases hlen0 : q.len > 0
        · have hpos : Int.ofNat q.len > 0 := by simp only [Int.ofNat_eq_natCast]; omega
          have hidx : Int.ofNat q.len - 1 = ((q.len - 1 : Nat) : Int) := by simp only [Int.ofNat_eq_natCast]; omega
          rw [if_pos hpos]
          rw [bind_ok, bind_ok,
            gindex_ok ({ m := 0, o := 0 } : Gen.edge) q ((Int.ofNat q.len) - 1) (q.len - 1) hidx (by omega), bind_ok]
          generalize hlast : (q.arr[q.len - 1]?).getD ({ m := 0, o := 0 } : Gen.edge) = el
          have hgl : ((edgesAbs s.edges).getD kN []).getLast? = some (edgeAbs el) := by
            rw [hcur, List.getLast?_eq_getElem?, List.length_map, hql, List.getElem?_map, gdata_getElem?, if_pos (by omega)]
            have hqa : q.len - 1 < q.arr.length := by unfold GWF at hqw; omega
            rw [List.getElem?_eq_getElem hqa, ← hlast, List.getElem?_eq_getElem hqa]
            rfl
          by_cases hreuse : el.o.toNat ≤ xs[j + 1] - xs[j]
          · have hle : el.o ≤ UInt32.ofInt ((o32 xs[j + 1]) - (o32 xs[j])).toInt := by
              rw [UInt32.le_iff_toNat_le, ho]; exact hreuse
            rw [if_pos hle, edgeCallback_skip _ _ _ _ _ _ _ _ hneg (Or.inr ⟨edgeAbs el, by rw [hktn]; exact hgl, hreuse⟩)]
            obtain ⟨s', j', h1, h2, h3⟩ := ih f s hj0 (by omega) hE hq hn hws0 hws32 hb
            rw [hdesc1] at h2
            exact ⟨s', j', h1, h2, h3⟩
          · have hnle : ¬ el.o ≤ UInt32.ofInt ((o32 xs[j + 1]) - (o32 xs[j])).toInt := by
              intro hc
              rw [UInt32.le_iff_toNat_le, ho] at hc
              exact hreuse hc
            rw [if_neg hnle, edgeCallback_add _ _ _ _ _ _ _ _ hneg hwin (by
              intro e he
              rw [hktn, hgl] at he
              have : e = edgeAbs el := (Option.some.inj he).symm
              rw [this]; exact hreuse), hktn]
            exact happ
        · rw [if_neg (by show ¬ ((q.len : Nat) : Int) > 0; omega)]
          have hnil : (edgesAbs s.edges).getD kN [] = [] := by
            rw [hcur]
            have : q.data = [] := List.eq_nil_of_length_eq_zero (by omega)
            rw [this]; rfl
          rw [edgeCallback_add _ _ _ _ _ _ _ _ hneg hwin (by
            intro e he
            rw [hktn, hnil] at he
            cases he), hktn]
          exact happ

end Loop

/-! ## the whole closure -/

theorem i32n_o32 (y : Nat) (h : y < 2147483648) : i32n (o32 y) = y := by
  unfold i32n
  rw [o32_toInt y h]
  omega

/-- a list of int32 values that is a permutation of `ys.map o32` is `zs.map o32` for a permutation `zs` of `ys` -/
theorem perm_o32 (l : List Int32) (ys : List Nat) (hy : ∀ y ∈ ys, y < 2147483648) (h : l.Perm (ys.map o32)) :
    (l.map i32n).Perm ys ∧ l = (l.map i32n).map o32 := by
  constructor
  · have := h.map i32n
    rw [List.map_map] at this
    have e : ys.map (i32n ∘ o32) = ys := by
      conv => rhs; rw [← List.map_id ys]
      apply List.map_congr_left
      intro y hy'
      exact i32n_o32 y (hy y hy')
    rw [e] at this; exact this
  · rw [List.map_map]
    conv => lhs; rw [← List.map_id l]
    apply List.map_congr_left
    intro a ha
    obtain ⟨y, hy', rfl⟩ := List.mem_map.1 (h.subset ha)
    show o32 y = o32 (i32n (o32 y))
    rw [i32n_o32 y (hy y hy')]

/-- the model's sorted segment: strictly ascending for distinct elements, unique among the sorted permutations -/
theorem sorted_unique (ys zs : List Nat) (hp : zs.Perm ys) (hs : zs.Pairwise (fun a b => a ≤ b)) :
    zs = ys.mergeSort (fun a b => decide (a ≤ b)) := by
  have h1 : (ys.mergeSort (fun a b => decide (a ≤ b))).Pairwise (fun a b => decide (a ≤ b) = true) :=
    List.pairwise_mergeSort (le := fun a b => decide (a ≤ b))
      (fun a b c hab hbc => by simp only [decide_eq_true_eq] at *; omega)
      (fun a b => by simp only [Bool.or_eq_true, decide_eq_true_eq]; omega) ys
  have h1' : (ys.mergeSort (fun a b => decide (a ≤ b))).Pairwise (fun a b => a ≤ b) :=
    h1.imp (fun h => by simpa using h)
  exact List.Perm.eq_of_pairwise (le := fun a b => a ≤ b) (fun a b _ _ h1 h2 => by omega) hs h1'
    (hp.trans (List.mergeSort_perm ys _).symm)

theorem sorted_strict (ys : List Nat) (hn : ys.Nodup) :
    (ys.mergeSort (fun a b => decide (a ≤ b))).Pairwise (fun a b => a < b) := by
  have h1 : (ys.mergeSort (fun a b => decide (a ≤ b))).Pairwise (fun a b => decide (a ≤ b) = true) :=
    List.pairwise_mergeSort (le := fun a b => decide (a ≤ b))
      (fun a b c hab hbc => by simp only [decide_eq_true_eq] at *; omega)
      (fun a b => by simp only [Bool.or_eq_true, decide_eq_true_eq]; omega) ys
  have hn' : (ys.mergeSort (fun a b => decide (a ≤ b))).Nodup := (List.mergeSort_perm ys _).symm.nodup hn
  have := h1.and hn'
  exact this.imp (fun h => by
    obtain ⟨h1, h2⟩ := h
    simp only [decide_eq_true_eq] at h1
    omega)

/-- **the closure of `computeEdges`**, lambda-lifted: on a segment that holds a permutation of the distinct naturals `ys`
    (`< 2^31`) it sorts the segment (`slices.Sort`) and leaves what the model callback `edgeCallback` leaves for the model's
    sorted segment walked from the top.  `woff` is the captured `w = int32(winStart - s.start)`. -/
theorem gen_osap_edgeCB (grow : Nat → Nat → Nat) (fuel : Nat) (slices_Sort : GSlice Int32 → Res (GSlice Int32))
    (hS : SliceSortSpec slices_Sort) (s : Gen.optSuffixArrayParser) (w : Int32) (m : Int) (seg : GSlice Int32)
    (ys : List Nat) (hsw : GWF seg) (hsd : seg.data.Perm (ys.map o32)) (hy31 : ∀ y ∈ ys, y < 2147483648) (hnd : ys.Nodup)
    (woff : Int) (hw : w.toInt = woff) (hwr : -2147483648 < woff ∧ woff ≤ 0) (hm : 0 ≤ m ∧ m < 4294967296)
    (hfuel : seg.len + 1 ≤ fuel) (hE : GWF s.edges) (hq : ∀ q ∈ s.edges.data, GWF q) (hn : 0 ≤ s.nEdges)
    (hws0 : 0 ≤ s.OSAPConfig.WindowSize) (hws32 : s.OSAPConfig.WindowSize < 4294967296)
    (hb : ∀ y ∈ ys, (y : Int) + woff < (s.edges.len : Int)) :
    ∃ s' seg', optSuffixArrayParser_computeEdges_f grow fuel slices_Sort s w m seg = Res.ok (s', seg') ∧
      (edgesAbs s'.edges, s'.nEdges.toNat) =
        edgeCallback s.OSAPConfig.WindowSize.toNat woff m.toNat (ys.mergeSort (fun a b => decide (a ≤ b))).reverse
          (edgesAbs s.edges, s.nEdges.toNat) ∧
      0 ≤ s'.nEdges ∧ GWF s'.edges ∧ (∀ q ∈ s'.edges.data, GWF q) ∧ s'.edges.len = s.edges.len ∧ EdgesFrame s s' ∧
      seg'.len = seg.len ∧
      seg'.arr = (ys.mergeSort (fun a b => decide (a ≤ b))).map o32 ++ seg.arr.drop seg.len := by
  obtain ⟨seg', h1, h2, h3, h4, h5, h6⟩ := hS seg hsw
  have hsw' : GWF seg' := by unfold GWF at hsw ⊢; omega
  have hd' : seg'.data = seg'.arr.take seg.len := by unfold GSlice.data; rw [h2]
  have hperm : seg'.data.Perm (ys.map o32) := by rw [hd']; exact h5.trans hsd
  obtain ⟨p1, p2⟩ := perm_o32 seg'.data ys hy31 hperm
  have hsorted : (seg'.data.map i32n).Pairwise (fun a b => a ≤ b) := by
    rw [List.pairwise_map, hd']
    refine List.Pairwise.imp_of_mem ?_ h6
    intro a b ha hb hab
    have ha' : a ∈ ys.map o32 := (h5.trans hsd).subset ha
    have hb' : b ∈ ys.map o32 := (h5.trans hsd).subset hb
    obtain ⟨ya, hya, rfl⟩ := List.mem_map.1 ha'
    obtain ⟨yb, hyb, rfl⟩ := List.mem_map.1 hb'
    rw [i32n_o32 _ (hy31 _ hya), i32n_o32 _ (hy31 _ hyb)]
    rw [o32_toInt _ (hy31 _ hya), o32_toInt _ (hy31 _ hyb)] at hab
    omega
  have hxs := sorted_unique ys (seg'.data.map i32n) p1 hsorted
  generalize hxsd : ys.mergeSort (fun a b => decide (a ≤ b)) = xs at hxs ⊢
  have hsd' : seg'.data = xs.map o32 := by rw [← hxs]; exact p2
  have hxperm : xs.Perm ys := by rw [← hxsd]; exact List.mergeSort_perm ys _
  have hx31 : ∀ x ∈ xs, x < 2147483648 := fun x hx => hy31 x (hxperm.subset hx)
  have hasc : xs.Pairwise (fun a b => a < b) := by rw [← hxsd]; exact sorted_strict ys hnd
  have hlen : seg'.len = xs.length := by
    have := gdata_length hsw'
    rw [hsd', List.length_map] at this; exact this.symm
  have harr : seg'.arr = xs.map o32 ++ seg.arr.drop seg.len := by
    rw [← hsd', ← h4, hd']
    exact (List.take_append_drop seg.len seg'.arr).symm
  unfold optSuffixArrayParser_computeEdges_f
  rw [h1, bind_ok]
  simp only []
  by_cases h0 : xs.length = 0
  · -- an empty segment: the loop is not entered
    have hx0 : xs = [] := List.eq_nil_of_length_eq_zero h0
    obtain ⟨f, rfl⟩ : ∃ f, fuel = f + 1 := ⟨fuel - 1, by omega⟩
    have hl : optSuffixArrayParser_computeEdges_f_loop_1 grow slices_Sort seg' w m (f + 1) s ((Int.ofNat seg'.len) - 1) =
        Res.ok (s, (Int.ofNat seg'.len) - 1) := by
      unfold optSuffixArrayParser_computeEdges_f_loop_1
      rw [if_neg (by simp only [Int.ofNat_eq_natCast]; omega)]
    rw [hl, bind_ok]
    refine ⟨s, seg', rfl, ?_, hn, hE, hq, rfl, EdgesFrame.refl s, h2, harr⟩
    rw [hx0]; simp [edgeCallback]
  · have hj : (Int.ofNat seg'.len) - 1 = ((xs.length - 1 : Nat) : Int) := by simp only [Int.ofNat_eq_natCast]; omega
    obtain ⟨s', j', k1, k2, k3, k4, k5, k6, k7⟩ := cb_loop grow slices_Sort seg' xs hsw' hsd' hx31 hasc w woff hw hwr m hm
      (xs.length - 1) fuel s (by omega) (by omega) hE hq hn hws0 hws32
      (fun x hx => hb x (hxperm.subset hx))
    rw [hj, k1, bind_ok]
    refine ⟨s', seg', rfl, ?_, k3, k4, k5, k6, k7, h2, harr⟩
    rw [k2]
    have : xs.length - 1 + 1 = xs.length := by omega
    rw [this, List.take_length]

end LZ.GenOSAP

#print axioms LZ.GenOSAP.cb_loop
#print axioms LZ.GenOSAP.gen_osap_edgeCB
