/-
  LzProofs.GenBUPHistInit — initialisation of the bucket parser BUP: the model (`newParser .BUP`; LzModel/Parser.lean)
  equals the mechanical translation of
      bucket_hash.go   bucketHash.init, bucketDictionary.init     (topic BucketInit, CodeBucketInit.lean)
      bup.go           bucketParser.init
  for EVERY configuration, and the translated `init` on the zero value `new(bucketParser)` establishes the bundle
  `ParseOKU` of `gen_bup_parse` (non-vacuity of its hypotheses; until now shown for one configuration only,
  GenBUPParseEx).  Closes "Theorems for topic BucketInit" of notes/bup-readfrom-translate.md §7.

      gen_bucketHash_init     bucketHash.init on a configuration that is a `SetDefaults` image and verifies:
                              table = `BucketT.new` (two zeroed `make`s of `2^HashBits·BucketSize` / `2^HashBits`),
                              the table invariant `BOK`, the mask, the shift
      gen_bdict_init          bucketDictionary.init: buffer = `PBuf.init`, table as above
      gen_bup_init            bucketParser.init(cfg) vs newParser .BUP: rejected configurations leave the receiver
                              unchanged and return an error; accepted ones yield the model's fresh parser
      gen_bup_init_fresh      … for the receiver `new(bucketParser)`: exactly the model's fresh parser
      gen_bup_init_parseOK    … and `ParseOKU` holds
      gen_bup_init_go         the same, stated from the Go side: `bucketParser_init default cfg = Res.ok (s0, nil)`
  The proofs follow `gen_hp_init*` (GenHashPropsDict, GenHPParse), `gen_bhp_init*` (GenBHPHist), GenDHPInit.
  No sorry, no axioms of its own.
-/
import LzModel.Generated.CodeBucketInit
import LzProofs.GenBUPParse
import LzProofs.GenHashPropsDict
import LzProofs.ParseProps

set_option linter.unusedSimpArgs false
set_option linter.unusedVariables false

namespace LZ.GenBUPHist
open LZ LZ.Gen LZ.GenBuf LZ.GenHash LZ.GenHPParse LZ.GenBUPParse LZ.GenProps

/-! ## `bucketConfig`: `SetDefaults` is idempotent, what `Verify` accepts -/

theorem bucketDefaults_idem (c : Gen.bucketConfig) :
    bucketConfig_SetDefaults (bucketConfig_SetDefaults c) = bucketConfig_SetDefaults c := by
  obtain ⟨il, hb, bs⟩ := c
  simp only [bucketConfig_SetDefaults]
  repeat' split
  all_goals simp_all

/-- the arguments `bucketHash.init` accepts -/
def BInitOK (il hb bs : Int) : Prop := 2 ≤ il ∧ il ≤ 8 ∧ 0 ≤ hb ∧ hb ≤ 23 ∧ hb ≤ 8 * il ∧ 1 ≤ bs ∧ bs ≤ 128

theorem bucketVerify_initOK (c : Gen.bucketConfig) (h : bucketConfig_Verify c = Gen.Err.ok) :
    BInitOK c.InputLen c.HashBits c.BucketSize := by
  have := (gen_bucketVerify c).mp h
  rw [Bool.and_eq_true, hashVerify_iff, decide_eq_true_eq] at this
  simp only [Facts.maxBucketHashBits, Facts.minBucketSize, Facts.maxBucketSize] at this
  unfold BInitOK
  obtain ⟨⟨⟨a, b⟩, c1, d⟩, e, f⟩ := this
  by_cases h8 : 8 * c.InputLen < 23 <;> simp only [h8, if_true, if_false] at d <;> omega

theorem maskB_eq (il : Int) (h1 : 2 ≤ il) (h2 : il ≤ 8) :
    (shlU64 (1 : UInt64) (il * 8).toNat) - 1 = maskOf il.toNat := by
  have key : ∀ k : Fin 9, 2 ≤ k.val → (shlU64 (1 : UInt64) (((k.val : Nat) : Int) * 8).toNat) - 1 = maskOf k.val := by
    decide
  have := key ⟨il.toNat, by omega⟩ (by show 2 ≤ il.toNat; omega)
  have e : ((il.toNat : Nat) : Int) = il := by omega
  simpa only [e] using this

theorem bmake_eq (a b : Int) (h : 0 ≤ a ∧ a ≤ b) :
    Slice.make a b = Res.ok { arr := List.replicate b.toNat 0, len := a.toNat } := by
  unfold Slice.make
  simp only [h, and_self, if_true]

/-! ## `bucketHash.init` -/

/-- bucket_hash.go `bucketHash.init(cfg)` for a configuration that `SetDefaults` leaves alone and `Verify` accepts
    (what `bucketDictionary.init` passes after its own `SetDefaults` / `Verify`); the receiver's old tables are
    dropped (`make`), so nothing is assumed about them -/
theorem gen_bucketHash_init (g : Gen.bucketHash) (c : Gen.bucketConfig)
    (hdi : bucketConfig_SetDefaults c = c) (hv : bucketConfig_Verify c = Gen.Err.ok) :
    ∃ g', bucketHash_init g c = Res.ok (g', c, Gen.Err.ok) ∧
      ofBucket g' = BucketT.new c.InputLen.toNat c.HashBits.toNat c.BucketSize.toNat ∧ BOK g' ∧
      g'.mask = maskOf g'.inputLen.toNat ∧ g'.inputLen = c.InputLen ∧ g'.shift.toNat = 64 - c.HashBits.toNat := by
  obtain ⟨h1, h2, h3, h4, h5, h6, h7⟩ := bucketVerify_initOK c hv
  obtain ⟨bsN, hbsN⟩ : ∃ n : Nat, c.BucketSize = (n : Int) := ⟨c.BucketSize.toNat, by omega⟩
  have hbsN' : c.BucketSize.toNat = bsN := by omega
  have hmul : ((2 ^ c.HashBits.toNat : Nat) : Int) * c.BucketSize = ((2 ^ c.HashBits.toNat * bsN : Nat) : Int) := by
    rw [hbsN, Int.natCast_mul]
  have hsh := shift_eq c.HashBits h3 (by omega)
  have hmk := maskB_eq c.InputLen h1 h2
  have hbits : 64 - (64 - c.HashBits.toNat) = c.HashBits.toNat := by omega
  unfold bucketHash_init
  simp only [hdi, hv, ne_eq, not_true_eq_false, if_false]
  rw [shiftCount_ok _ h3]
  simp only [bind_ok, pow_cast]
  rw [hmul, gmake_eq _ _ _ ⟨Int.natCast_nonneg _, Int.le_refl _⟩]
  simp only [bind_ok]
  rw [bmake_eq _ _ ⟨Int.natCast_nonneg _, Int.le_refl _⟩]
  simp only [bind_ok]
  rw [shiftCount_ok _ (by omega)]
  simp only [bind_ok, Int.toNat_natCast]
  refine ⟨_, rfl, ?_, ?_, ?_, rfl, hsh⟩
  · apply bucketT_ext
    · simp only [GenHash.ofBucket, BucketT.new, GSlice.data, List.take_replicate, List.map_replicate, Array.toList_replicate,
        ofBEntry_zero', Nat.min_self, List.toList_toArray, hsh, hbits, hbsN']
    · simp only [GenHash.ofBucket, BucketT.new, Slice.data, List.take_replicate, List.map_replicate, Array.toList_replicate,
        UInt8.toNat_zero, Nat.min_self, List.toList_toArray, hsh, hbits]
    · rfl
    · simp only [GenHash.ofBucket, BucketT.new, hsh, hbits]
    · rfl
  · refine ⟨?_, ?_, h6, (by show c.BucketSize ≤ 256; omega), ?_, ?_, ?_⟩
    · simp only [GWF, List.length_replicate]; omega
    · simp only [SWF, List.length_replicate]; omega
    · simp only [hsh, hbits]
    · simp only [hsh, hbits, hbsN']
    · intro h hh
      show ((List.replicate (2 ^ c.HashBits.toNat) (0 : UInt8)).getD h 0).toNat < c.BucketSize.toNat
      have e : (List.replicate (2 ^ c.HashBits.toNat) (0 : UInt8)).getD h 0 = 0 := by
        rw [List.getD_eq_getElem?_getD, List.getElem?_replicate]
        split <;> rfl
      rw [e]
      show 0 < c.BucketSize.toNat
      omega
  · simpa using hmk

/-! ## `bucketDictionary.init` -/

/-- bucket_hash.go `bucketDictionary.init(cfg, bcfg)` for configurations that `SetDefaults` leaves alone and `Verify`
    accepts (what `bucketParser.init` passes after its own `SetDefaults` / `Verify`) -/
theorem gen_bdict_init (f : Gen.bucketDictionary) (c : Gen.bucketConfig) (bc : Gen.BufConfig)
    (hbi : BufConfig_SetDefaults bc = bc) (hvb : BufConfig_Verify bc = Gen.Err.ok)
    (hdi : bucketConfig_SetDefaults c = c) (hv : bucketConfig_Verify c = Gen.Err.ok) :
    ∃ f', bucketDictionary_init f c bc = Res.ok (f', Gen.Err.ok) ∧
      ofPB f'.ParserBuffer = { PBuf.init (ofCfg bc) with cap := f.ParserBuffer.Data.cap } ∧ PBWF f'.ParserBuffer ∧
      ofBucket f'.bucketHash = BucketT.new c.InputLen.toNat c.HashBits.toNat c.BucketSize.toNat ∧
      BOK f'.bucketHash ∧ f'.bucketHash.mask = maskOf f'.bucketHash.inputLen.toNat ∧
      f'.bucketHash.inputLen = c.InputLen ∧ f'.bucketHash.shift.toNat = 64 - c.HashBits.toNat := by
  obtain ⟨pb', hpi, hofpb, hpwf⟩ := (gen_pbuf_init f.ParserBuffer bc).2 (by rw [hbi]; exact hvb)
  obtain ⟨g', hg, hofg, hbok, hmask, hil, hsh⟩ := gen_bucketHash_init f.bucketHash c hdi hv
  unfold bucketDictionary_init
  simp only [hpi, bind_ok, ne_eq, not_true_eq_false, if_false, hdi, hv, hg]
  rw [hbi] at hofpb
  exact ⟨_, rfl, hofpb, hpwf, hofg, hbok, hmask, hil, hsh⟩

/-! ## `bucketParser.init` -/

/-- bup.go `bucketParser.init(cfg)`: `raw` is the configuration as the model sees it (`toBUP raw` the Go struct with
    the fields of `raw` that BUPConfig has) -/
theorem gen_bup_init (s : Gen.bucketParser) (raw : Cfg) :
    match newParser .BUP raw with
    | none => ∃ e, bucketParser_init s (toBUP raw) = Res.ok (s, e) ∧ e ≠ Gen.Err.ok
    | some p => ∃ s', bucketParser_init s (toBUP raw) = Res.ok (s', Gen.Err.ok) ∧
        ofBUPs s' = { p with buf := { p.buf with cap := s.bucketDictionary.ParserBuffer.Data.cap } } ∧
        PBWF s'.bucketDictionary.ParserBuffer ∧ BOK s'.bucketDictionary.bucketHash ∧
        s'.bucketDictionary.bucketHash.mask = maskOf s'.bucketDictionary.bucketHash.inputLen.toNat ∧
        s'.bucketDictionary.bucketHash.inputLen = s'.BUPConfig.InputLen ∧
        s'.bucketDictionary.bucketHash.shift.toNat = 64 - s'.BUPConfig.HashBits.toNat := by
  have hc : ofBUP (BUPConfig_SetDefaults (toBUP raw)) = setDefaults .BUP (raw.restrict .BUP) := by
    rw [gen_setDefaults_BUP, ofBUP_toBUP]
  have hv := gen_verify_BUP (BUPConfig_SetDefaults (toBUP raw))
  rw [hc] at hv
  unfold newParser
  simp only []
  by_cases hok : BUPConfig_Verify (BUPConfig_SetDefaults (toBUP raw)) = Gen.Err.ok
  · have hvm : verify .BUP (setDefaults .BUP (raw.restrict .BUP)) = true := hv.mp hok
    simp only [hvm, if_true]
    unfold bucketParser_init
    dsimp only
    have hparts : BufConfig_Verify ⟨(BUPConfig_SetDefaults (toBUP raw)).ShrinkSize, (BUPConfig_SetDefaults (toBUP raw)).BufferSize,
          (BUPConfig_SetDefaults (toBUP raw)).WindowSize, (BUPConfig_SetDefaults (toBUP raw)).BlockSize⟩ = Gen.Err.ok ∧
        bucketConfig_Verify ⟨(BUPConfig_SetDefaults (toBUP raw)).InputLen, (BUPConfig_SetDefaults (toBUP raw)).HashBits,
          (BUPConfig_SetDefaults (toBUP raw)).BucketSize⟩ = Gen.Err.ok := by
      have := hok
      simp only [BUPConfig_Verify] at this
      split at this
      · rename_i hne; exact absurd this hne
      · rename_i hne; exact ⟨Classical.not_not.mp hne, this⟩
    have hbc : ∃ b0 : Gen.BufConfig, (⟨(BUPConfig_SetDefaults (toBUP raw)).ShrinkSize, (BUPConfig_SetDefaults (toBUP raw)).BufferSize,
          (BUPConfig_SetDefaults (toBUP raw)).WindowSize, (BUPConfig_SetDefaults (toBUP raw)).BlockSize⟩ : Gen.BufConfig) =
        BufConfig_SetDefaults b0 := ⟨_, rfl⟩
    have hhc : ∃ h0 : Gen.bucketConfig, (⟨(BUPConfig_SetDefaults (toBUP raw)).InputLen, (BUPConfig_SetDefaults (toBUP raw)).HashBits,
          (BUPConfig_SetDefaults (toBUP raw)).BucketSize⟩ : Gen.bucketConfig) =
        bucketConfig_SetDefaults h0 := ⟨_, rfl⟩
    generalize BUPConfig_SetDefaults (toBUP raw) = c' at *
    obtain ⟨hvb, hvh⟩ := hparts
    obtain ⟨b0, hb0⟩ := hbc
    obtain ⟨h0, hh0⟩ := hhc
    have hbi : BufConfig_SetDefaults ⟨c'.ShrinkSize, c'.BufferSize, c'.WindowSize, c'.BlockSize⟩ =
        ⟨c'.ShrinkSize, c'.BufferSize, c'.WindowSize, c'.BlockSize⟩ := by rw [hb0, bufDefaults_idem]
    have hhi : bucketConfig_SetDefaults ⟨c'.InputLen, c'.HashBits, c'.BucketSize⟩ =
        ⟨c'.InputLen, c'.HashBits, c'.BucketSize⟩ := by rw [hh0, bucketDefaults_idem]
    obtain ⟨f', hf, hofpb, hpwf, hofg, hbok, hmask, hil, hsh⟩ := gen_bdict_init s.bucketDictionary
      ⟨c'.InputLen, c'.HashBits, c'.BucketSize⟩ ⟨c'.ShrinkSize, c'.BufferSize, c'.WindowSize, c'.BlockSize⟩ hbi hvb hhi hvh
    simp only [hok, ne_eq, not_true_eq_false, if_false, hf, bind_ok]
    refine ⟨_, rfl, ?_, hpwf, hbok, hmask, hil, hsh⟩
    simp only [ofBUPs, ofBDict, hofpb, hofg, freshDict, ← hc]
    rfl
  · have hvm : ¬ verify .BUP (setDefaults .BUP (raw.restrict .BUP)) = true := fun c => hok (hv.mpr c)
    simp only [hvm, if_false]
    unfold bucketParser_init
    simp only [hok, ne_eq, not_false_eq_true, if_true]
    exact ⟨_, rfl, hok⟩

/-- … for the receiver `new(bucketParser)` (all fields zero): exactly the model's fresh parser -/
theorem gen_bup_init_fresh (raw : Cfg) (p : Parser) (hp : newParser .BUP raw = some p) :
    ∃ s', bucketParser_init default (toBUP raw) = Res.ok (s', Gen.Err.ok) ∧ ofBUPs s' = p ∧
      PBWF s'.bucketDictionary.ParserBuffer ∧ BOK s'.bucketDictionary.bucketHash ∧
      s'.bucketDictionary.bucketHash.mask = maskOf s'.bucketDictionary.bucketHash.inputLen.toNat ∧
      s'.bucketDictionary.bucketHash.inputLen = s'.BUPConfig.InputLen ∧
      s'.bucketDictionary.bucketHash.shift.toNat = 64 - s'.BUPConfig.HashBits.toNat := by
  have := gen_bup_init default raw
  rw [hp] at this
  obtain ⟨s', h1, h2, h3⟩ := this
  refine ⟨s', h1, ?_, h3⟩
  rw [h2]
  unfold newParser at hp
  simp only [] at hp
  split at hp
  · simp only [Option.some.injEq] at hp
    subst hp; rfl
  · exact absurd hp (by simp)

/-- **`ParseOKU` is what `init` establishes** (non-vacuity of the hypotheses of `gen_bup_parse`), for EVERY
    configuration `NewParser` accepts: the translated `bucketParser.init` on `new(bucketParser)` yields a Go state that
    abstracts to the model's fresh parser and satisfies `ParseOKU`. -/
theorem gen_bup_init_parseOK (raw : Cfg) (p : Parser) (hp : newParser .BUP raw = some p) :
    ∃ s', bucketParser_init default (toBUP raw) = Res.ok (s', Gen.Err.ok) ∧ ofBUPs s' = p ∧ ParseOKU s' := by
  obtain ⟨s', h1, h2, hpwf, hbok, hmask, hilE, hshE⟩ := gen_bup_init_fresh raw p hp
  refine ⟨s', h1, h2, ?_⟩
  unfold newParser at hp
  simp only [] at hp
  split at hp
  · rename_i hv
    simp only [Option.some.injEq] at hp
    subst hp
    generalize setDefaults .BUP (raw.restrict .BUP) = c at hv h2
    have hhv : hashVerify c.inputLen c.hashBits Facts.maxBucketHashBits = true := by
      simp only [verify, Bool.and_eq_true] at hv; exact hv.1.2
    rw [GenProps.hashVerify_iff] at hhv
    simp only [Facts.maxBucketHashBits] at hhv
    obtain ⟨⟨hb1, hb2⟩, hb3, hb4⟩ := hhv
    have hb4' : c.hashBits ≤ 23 := by
      by_cases h8 : 8 * c.inputLen < 23 <;> simp only [h8, if_true, if_false] at hb4 <;> omega
    obtain ⟨_, hbs⟩ := verify_static .BUP c hv
    have hbv := verify_buf .BUP c hv
    simp only [bufVerify, Facts.maxUint32, Facts.margin] at hbv
    replace hbv := of_decide_eq_true hbv
    have hcfg : GenProps.ofBUP s'.BUPConfig = c := congrArg Parser.cfg h2
    have hbuf : ofPB s'.bucketDictionary.ParserBuffer = PBuf.init c.bufCfg := congrArg Parser.buf h2
    have hws : s'.bucketDictionary.ParserBuffer.BufConfig.WindowSize.toNat = c.windowSize.toNat :=
      congrArg (fun b => b.cfg.windowSize) hbuf
    have hbl : s'.bucketDictionary.ParserBuffer.BufConfig.BlockSize.toNat = c.blockSize.toNat :=
      congrArg (fun b => b.cfg.blockSize) hbuf
    have hw : s'.bucketDictionary.ParserBuffer.W.toNat = 0 := congrArg PBuf.w hbuf
    have hd : s'.bucketDictionary.ParserBuffer.Data.data = [] := congrArg PBuf.data hbuf
    have cW : s'.BUPConfig.WindowSize = c.windowSize := congrArg Cfg.windowSize hcfg
    have cB : s'.BUPConfig.BlockSize = c.blockSize := congrArg Cfg.blockSize hcfg
    have cI : s'.BUPConfig.InputLen = c.inputLen := congrArg Cfg.inputLen hcfg
    have cH : s'.BUPConfig.HashBits = c.hashBits := congrArg Cfg.hashBits hcfg
    have hlen : s'.bucketDictionary.ParserBuffer.Data.len = 0 := by
      have := data_length hpwf.data
      rw [hd] at this; exact this.symm
    have hbs' : 1 ≤ c.blockSize.toNat := hbs
    have hw0 := hpwf.w
    rw [cH] at hshE
    obtain ⟨⟨_, _⟩, _, ⟨hws0, _⟩, _⟩ := hbv
    exact ⟨⟨hpwf, hbok.gwf, hbok.swf⟩, hbok, by rw [cW, hws], by rw [cB, hbl], by rw [hilE], by rw [cB]; omega,
      by rw [cW]; exact hws0, by rw [hlen]; omega, by rw [hilE, cI]; omega, hmask, by omega, by omega,
      by rw [hlen]; decide⟩
  · exact absurd hp (by simp)

/-- **The same from the Go side.**  `cfg` is any `BUPConfig` for which the translated `bucketParser.init`, called on
    the zero value `new(bucketParser)`, returns `nil`: then the model's `NewParser` accepts it, the Go state abstracts
    to the model's fresh parser and satisfies `ParseOKU`. -/
theorem gen_bup_init_go (cfg : Gen.BUPConfig) (s0 : Gen.bucketParser)
    (hinit : bucketParser_init default cfg = Res.ok (s0, Gen.Err.ok)) :
    ∃ p, newParser .BUP (ofBUP cfg) = some p ∧ ofBUPs s0 = p ∧ ParseOKU s0 := by
  have hg := gen_bup_init default (ofBUP cfg)
  rw [toBUP_ofBUP] at hg
  cases hp : newParser .BUP (ofBUP cfg) with
  | none =>
    rw [hp] at hg
    obtain ⟨e, he, hne⟩ := hg
    rw [hinit] at he
    injection he with he
    injection he with _ he
    exact absurd he.symm hne
  | some p =>
    obtain ⟨s', h1, h2, h3⟩ := gen_bup_init_parseOK (ofBUP cfg) p hp
    rw [toBUP_ofBUP, hinit] at h1
    injection h1 with h1
    injection h1 with h1 _
    subst h1
    exact ⟨p, rfl, h2, h3⟩

end LZ.GenBUPHist

#print axioms LZ.GenBUPHist.gen_bucketHash_init
#print axioms LZ.GenBUPHist.gen_bdict_init
#print axioms LZ.GenBUPHist.gen_bup_init
#print axioms LZ.GenBUPHist.gen_bup_init_fresh
#print axioms LZ.GenBUPHist.gen_bup_init_parseOK
#print axioms LZ.GenBUPHist.gen_bup_init_go
