/-
  LzProofs.GlueLemmas — the glue between the suffix-array proofs (C09/C10, namespace `LZ`) and the
  OSAP/GSAP proofs (C11/C12, namespace `LZ.Sap`): the named hypotheses `SAOK` (for `gsapSort`)
  and `CEHyps` (for `computeEdges`) of the latter are instantiated from the former.

  This file imports only modules that are compatible with BOTH the suffix-array files
  (`Scan`, `Segments`, `SuffixProps`) and the parser files (`ParseProbe` … `ParseProps`); those two
  groups cannot be imported together because both declare a constant `LZ.ScanInv`.  Therefore
  the only facts that need `Scan.lean` — the C10 theorems about `Segments` — enter through the
  closed proposition `SegmentsFacts`; it is proved from the original C10 theorems in
  `GlueSuffix.lean` and (for use next to the parser files) from a verbatim copy of them in
  `GlueScanCopy.lean`.  Everything else (C09: suffix array, inverse, Kasai) is used directly.
-/
import LzProofs.SapHist
import LzProofs.Kasai
import LzProofs.PBufLemmas
namespace LZ.Sap

/-! ## 1. `SAOK` for `gsapSort` (C09 ⇒ hypothesis of C12) -/

/-- `saSpec t` is a suffix array of `t` (same proof as `saSpec_isSuffixArray` of
    `SuffixProps.lean`, restated here because that file imports `Scan.lean`) -/
theorem saSpec_isSA (t : List Byte) : IsSuffixArray t (saSpec t) := by
  refine ⟨List.mergeSort_perm _ _, ?_⟩
  exact List.pairwise_mergeSort (le := fun i j => lexLe (t.drop i) (t.drop j))
    (fun a b c => LZ.lexLe_trans _ _ _) (fun a b => LZ.lexLe_total' _ _) _

/-- the suffix array `Sort` produces and the inverse `InvertSA` computes satisfy `SAOK` -/
theorem saok_saSpec (t : List Byte) : SAOK t (saSpec t).toArray (invertSA (saSpec t).toArray) := by
  have h := saSpec_isSA t
  have hp := h.isPermOfRange
  exact SAOK_of_list t (saSpec t) h.1 h.2
    (fun j hj => invertSA_sa hp (List.getElem?_eq_getElem hj))
    (fun i hi => sa_invertSA hp hi)

/-- **`SAOK` holds for `gsap.sort()`** on every buffer — the named hypothesis of `C12_longest_*`. -/
theorem saok_gsapSort (data : List Byte) (w : Nat) :
    SAOK data (gsapSort data w).sa (gsapSort data w).isa :=
  saok_saSpec data

/-! ## 2. (H2): common prefixes are bounded by the LCP table -/

theorem lcpKasai_saSpec (t : List Byte) :
    lcpKasai t (saSpec t).toArray (invertSA (saSpec t).toArray) = (lcpSpec t (saSpec t)).toArray := by
  have h := saSpec_isSA t
  unfold lcpKasai
  exact kasaiLoop_correct h (invertSA_isInverse h.isPermOfRange) _ (by simp)

theorem getD_lcpSpec' (t : List Byte) (sa : List Nat) {x : Nat} (hx : x < sa.length) :
    (lcpSpec t sa).toArray.getD x 0 = specAt t sa x := by
  simp [lcpSpec_eq, Array.getD_eq_getD_getElem?, hx]

/-- the common prefix of the suffixes at the ranks `a < b` is at most the table entry `lcp[b]`
    (sandwich lemma: the suffix at rank `b-1` lies between them) -/
theorem sufL_le_lcp {t : List Byte} {sa : List Nat} (h : IsSuffixArray t sa) {a b : Nat}
    (hab : a < b) (hb : b < sa.length) :
    sufL t sa a b ≤ (lcpSpec t sa).toArray.getD b 0 := by
  rw [getD_lcpSpec' t sa hb]
  have hb0 : b ≠ 0 := by omega
  unfold specAt sufL
  rw [if_neg hb0]
  have ea : sa.getD a 0 = sa[a]'(by omega) := by
    simp [List.getElem?_eq_getElem (show a < sa.length by omega)]
  have eb : sa.getD b 0 = sa[b] := by simp [List.getElem?_eq_getElem hb]
  have eb1 : sa.getD (b - 1) 0 = sa[b - 1]'(by omega) := by
    simp [List.getElem?_eq_getElem (show b - 1 < sa.length by omega)]
  rw [ea, eb, eb1]
  have h1 := h.mono (a := a) (b := b - 1) (by omega) (by omega)
  have h2 := h.mono (a := b - 1) (b := b) (by omega) hb
  exact (LZ.sandwich _ _ _ h1 h2).2

/-! ## 3. `CEHyps` from the C10 facts -/

/-- **The C10 facts about `Segments`, as one closed proposition.**  For every text `t`: with the
    suffix array `saSpec t`, its inverse and the LCP table computed by `_lcp`, `Segments` called
    with `0 ≤ minLen ≤ maxLen ≤ MaxInt32` does not panic, and the callbacks it issues are exactly
    the groups of suffixes sharing a prefix: sound, complete, children first, without duplicates
    (`SegHyps`, whose fields have the shape of `C10_groups_sound`, `C10_groups_complete_unique`,
    `C10_groups_children_first`, `C10_groups_nodup`).
    Proved from those theorems: `segmentsFacts_holds` (GlueSuffix.lean). -/
def SegmentsFacts : Prop :=
  ∀ (t : List Byte) (minLen maxLen : Nat), minLen ≤ maxLen → maxLen ≤ 2147483647 →
    ∃ cbs, segments (saSpec t).length
        (lcpKasai t (saSpec t).toArray (invertSA (saSpec t).toArray)) (minLen : Int) (maxLen : Int)
        = some cbs ∧
      SegHyps t (saSpec t) minLen maxLen cbs

theorem foldl_max_le : ∀ (l : List Nat) (init B : Nat), init ≤ B → (∀ v ∈ l, v ≤ B) →
    l.foldl max init ≤ B
  | [], init, B, h, _ => h
  | x :: l, init, B, h, hl => by
    simp only [List.foldl_cons]
    apply foldl_max_le l _ B
    · have := hl x (by simp); omega
    · intro v hv; exact hl v (by simp [hv])

/-- every entry of the LCP table, hence its maximum, is at most the length of the text -/
theorem ceMaxLcp_le (data : List Byte) (w ws : Nat) : ceMaxLcp data w ws ≤ data.length := by
  unfold ceMaxLcp ceLcp
  rw [lcpKasai_saSpec, ← Array.foldl_toList]
  apply foldl_max_le _ _ _ (Nat.zero_le _)
  intro v hv
  rw [lcpSpec_eq] at hv
  obtain ⟨k, _, e⟩ := List.mem_map.1 hv
  rw [← e]
  refine Nat.le_trans (specAt_le _ _ k) ?_
  unfold ceT; simp

theorem ceMaxLen_le_length (data : List Byte) (w ws maxM : Nat) :
    ceMaxLen data w ws maxM ≤ data.length := by
  unfold ceMaxLen; have := ceMaxLcp_le data w ws; omega

theorem ceMaxLen_le_maxM (data : List Byte) (w ws maxM : Nat) :
    ceMaxLen data w ws maxM ≤ maxM := by
  unfold ceMaxLen; omega

/-- `CEHyps` whenever the `maxLen` argument `computeEdges` passes to `Segments` fits an `int32`
    (otherwise `Segments` panics — defect D18) -/
theorem ceHyps_of_maxLen (hS : SegmentsFacts) (data : List Byte) (w ws mm maxM : Nat)
    (hmax : ceMaxLen data w ws maxM ≤ 2147483647) : CEHyps data w ws mm maxM := by
  have h := saSpec_isSA (ceT data w ws)
  apply CEHyps_of data w ws mm maxM h.1
  · intro a b hab hb
    have := sufL_le_lcp h hab hb
    unfold ceLcp
    rw [lcpKasai_saSpec]
    exact this
  · intro hmm
    obtain ⟨cbs, h1, h2⟩ := hS (ceT data w ws) mm (ceMaxLen data w ws maxM) hmm hmax
    refine ⟨cbs, ?_, h2⟩
    unfold ceSegs segments32
    rw [if_neg (by omega)]
    exact h1

/-- **`CEHyps` holds** — the named hypothesis of `computeEdges_sound/_complete` and `C11_optimal*` —
    for every buffer of at most `MaxInt32` bytes (any window head, window size, `MinMatchLen`,
    `MaxMatchLen`), and for every buffer at all when `MaxMatchLen ≤ MaxInt32`. -/
theorem ceHyps_of_segFacts (hS : SegmentsFacts) (data : List Byte) (w ws mm maxM : Nat)
    (hb : data.length ≤ 2147483647 ∨ maxM ≤ 2147483647) : CEHyps data w ws mm maxM := by
  apply ceHyps_of_maxLen hS
  rcases hb with hb | hb
  · exact Nat.le_trans (ceMaxLen_le_length _ _ _ _) hb
  · exact Nat.le_trans (ceMaxLen_le_maxM _ _ _ _) hb

/-- when the `maxLen` argument does not fit an `int32`, `Segments` refuses and the edge table
    stays empty -/
theorem ceSegs_none_of_big (data : List Byte) (w ws mm maxM : Nat)
    (hbig : ¬ ceMaxLen data w ws maxM ≤ 2147483647) : ceSegs data w ws mm maxM = none := by
  unfold ceSegs segments32
  rw [if_pos]
  omega

/-- **Soundness of `computeEdges`, unconditionally** (relative to `SegmentsFacts` only): every
    edge stored for a block position is a genuine match inside the window.  No bound on the buffer
    length is needed for this half: where `Segments` would refuse, no edge is stored. -/
theorem computeEdges_sound_of_segFacts (hS : SegmentsFacts) (data : List Byte) (w ws mm maxM : Nat)
    {w' n : Nat} (hw' : w ≤ w') (hn : w' + n ≤ data.length) :
    EdgesSound (data.take (w' + n)) w' ws maxM n (computeEdges data w ws mm maxM).edges (w' - w) := by
  by_cases hmax : ceMaxLen data w ws maxM ≤ 2147483647
  · exact computeEdges_sound (ceHyps_of_maxLen hS data w ws mm maxM hmax) hw' hn
  · rw [computeEdges_none _ _ _ _ _ (Or.inr (ceSegs_none_of_big data w ws mm maxM hmax))]
    intro i mx o _ hmem
    rw [replicate_getD_nil] at hmem
    simp at hmem


/-! ## 4. the buffer never exceeds `BufferSize` along a history -/

/-- the buffer invariant `len(Data) ≤ BufferSize` (field `len_le` of `PBuf.PInv`) -/
def BufLen (s : Parser) : Prop := s.buf.data.length ≤ s.buf.cfg.bufferSize

theorem bufLen_write (s : Parser) (p : List Byte) (h : BufLen s) :
    BufLen (s.write p).1 ∧ (s.write p).1.buf.cfg = s.buf.cfg := by
  obtain ⟨c, hw, _⟩ := PBuf.write_spec s.buf p h
  have e : (s.write p).1.buf = (s.buf.write p).1 := rfl
  unfold BufLen at *
  rw [e, hw]
  simp only [List.length_append, List.length_take]
  exact ⟨by omega, trivial⟩

theorem bufLen_readFrom (s : Parser) (r : Reader) (h : BufLen s) :
    BufLen (s.readFrom r).1 ∧ (s.readFrom r).1.buf.cfg = s.buf.cfg := by
  obtain ⟨c, pre, hb, -, hn1, hn2, -⟩ :=
    PBuf.readFrom_master h (r := r) (b' := (s.buf.readFrom r).1) (r' := (s.buf.readFrom r).2.1)
      (n := (s.buf.readFrom r).2.2.1) (e := (s.buf.readFrom r).2.2.2) rfl
  have e : (s.readFrom r).1.buf = (s.buf.readFrom r).1 := rfl
  unfold BufLen at *
  rw [e, hb]
  simp only [List.length_append, List.length_take]
  exact ⟨by omega, trivial⟩

theorem bufLen_shrink (s : Parser) (h : BufLen s) :
    BufLen s.shrink.1 ∧ s.shrink.1.buf.cfg = s.buf.cfg ∧ s.shrink.1.kind = s.kind ∧
      s.shrink.1.cfg = s.cfg := by
  unfold Parser.shrink
  simp only
  split
  · exact ⟨h, rfl, rfl, rfl⟩
  · refine ⟨?_, ?_, rfl, rfl⟩
    · unfold BufLen at *
      simp only [PBuf.shrink_spec, List.length_drop]
      omega
    · simp only [PBuf.shrink_spec]

theorem bufLen_reset (s : Parser) (data : List Byte) (capExtra : Nat) (h : BufLen s) :
    BufLen (s.reset data capExtra).1 ∧ (s.reset data capExtra).1.buf.cfg = s.buf.cfg ∧
      (s.reset data capExtra).1.kind = s.kind ∧ (s.reset data capExtra).1.cfg = s.cfg := by
  unfold Parser.reset
  simp only
  split
  · refine ⟨?_, ?_, rfl, rfl⟩
    · by_cases hl : data.length ≤ s.buf.cfg.bufferSize
      · obtain ⟨c, hc, -⟩ := PBuf.reset_spec s.buf data capExtra hl
        unfold BufLen; simp only [hc]; exact hl
      · rename_i he
        rw [PBuf.reset_oversize s.buf data capExtra (by omega)] at he
        cases he
    · by_cases hl : data.length ≤ s.buf.cfg.bufferSize
      · obtain ⟨c, hc, -⟩ := PBuf.reset_spec s.buf data capExtra hl
        simp only [hc]
      · rename_i he
        rw [PBuf.reset_oversize s.buf data capExtra (by omega)] at he
        cases he
  · exact ⟨h, rfl, rfl, rfl⟩

theorem bufLen_parseNil (s : Parser) (h : BufLen s) :
    BufLen s.parseNil.1 ∧ s.parseNil.1.buf.cfg = s.buf.cfg ∧ s.parseNil.1.kind = s.kind ∧
      s.parseNil.1.cfg = s.cfg := by
  unfold Parser.parseNil
  simp only
  split
  · exact ⟨h, rfl, rfl, rfl⟩
  · exact ⟨h, rfl, rfl, rfl⟩

theorem bufLen_parse_osap (s : Parser) (o : OsapD) (hd : s.dict = .osap o) (flags : Nat)
    (h : BufLen s) :
    BufLen (s.parse flags).1 ∧ (s.parse flags).1.buf.cfg = s.buf.cfg ∧
      (s.parse flags).1.kind = s.kind ∧ (s.parse flags).1.cfg = s.cfg := by
  by_cases hn : s.blockN = 0
  · rw [parse_empty s flags hn]; exact ⟨h, rfl, rfl, rfl⟩
  · rw [parse_osap_eq s o hd flags hn]
    split
    · exact ⟨h, rfl, rfl, rfl⟩
    · exact ⟨h, rfl, rfl, rfl⟩

theorem bufLen_parse_gsap (s : Parser) (g : GsapD) (hd : s.dict = .gsap g) (flags : Nat)
    (h : BufLen s) :
    BufLen (s.parse flags).1 ∧ (s.parse flags).1.buf.cfg = s.buf.cfg := by
  by_cases hn : s.blockN = 0
  · rw [parse_empty s flags hn]; exact ⟨h, rfl⟩
  · rw [parse_gsap_eq s g hd flags hn]
    exact ⟨h, rfl⟩

/-- every operation of an OSAP parser keeps `len(Data) ≤ BufferSize`, the configuration and the
    kind -/
theorem bufLen_step_osap (s : Parser) (op : POp) {o : OsapD} (hd : s.dict = .osap o)
    (h : BufLen s) :
    BufLen (op.apply s) ∧ (op.apply s).buf.cfg = s.buf.cfg ∧ (op.apply s).kind = s.kind ∧
      (op.apply s).cfg = s.cfg := by
  cases op with
  | write p => exact ⟨(bufLen_write s p h).1, (bufLen_write s p h).2, rfl, rfl⟩
  | readFrom r => exact ⟨(bufLen_readFrom s r h).1, (bufLen_readFrom s r h).2, rfl, rfl⟩
  | parse f => exact bufLen_parse_osap s o hd f h
  | parseNil => exact bufLen_parseNil s h
  | shrink => exact bufLen_shrink s h
  | reset d c => exact bufLen_reset s d c h

/-- every operation of a GSAP parser keeps `len(Data) ≤ BufferSize` and the buffer configuration -/
theorem bufLen_step_gsap (s : Parser) (op : POp) {g : GsapD} (hd : s.dict = .gsap g)
    (h : BufLen s) : BufLen (op.apply s) ∧ (op.apply s).buf.cfg = s.buf.cfg := by
  cases op with
  | write p => exact bufLen_write s p h
  | readFrom r => exact bufLen_readFrom s r h
  | parse f => exact bufLen_parse_gsap s g hd f h
  | parseNil => exact ⟨(bufLen_parseNil s h).1, (bufLen_parseNil s h).2.1⟩
  | shrink => exact ⟨(bufLen_shrink s h).1, (bufLen_shrink s h).2.1⟩
  | reset d c => exact ⟨(bufLen_reset s d c h).1, (bufLen_reset s d c h).2.1⟩

theorem newParser_bufLen (k : Kind) (raw : Cfg) (s0 : Parser) (h0 : newParser k raw = some s0) :
    BufLen s0 := by
  unfold newParser at h0
  simp only at h0
  split at h0
  · cases h0; exact Nat.zero_le _
  · cases h0

/-! ## 5. C11 for every history, with `CEHyps` discharged -/

/-- the `int32` condition of D18 for a parser state: the buffer can never hold more than
    `MaxInt32` bytes, or matches are never longer than `MaxInt32` -/
def Int32OK (s : Parser) : Prop :=
  s.buf.cfg.bufferSize ≤ 2147483647 ∨ s.cfg.maxMatchLen.toNat ≤ 2147483647

theorem ceAt_of_bufLen (hS : SegmentsFacts) (s : Parser) (h : BufLen s) (hb : Int32OK s) :
    CEAt s := by
  apply ceHyps_of_segFacts hS
  rcases hb with hb | hb
  · left; exact Nat.le_trans h hb
  · right; exact hb

/-- the invariant of an OSAP history: the edge-table invariant `OsapHist`, the buffer bound, and
    the unchanged configuration -/
theorem osap_run_buf (hS : SegmentsFacts) (ops : List POp) : ∀ (s : Parser) {o : OsapD},
    s.dict = .osap o → OsapHist s o → BufLen s → Int32OK s →
    ∃ o', (runOps s ops).dict = .osap o' ∧ OsapHist (runOps s ops) o' ∧ BufLen (runOps s ops) ∧
      Int32OK (runOps s ops) ∧ (runOps s ops).buf.cfg = s.buf.cfg := by
  induction ops with
  | nil => intro s o hd h hl hb; exact ⟨o, hd, h, hl, hb, rfl⟩
  | cons op ops ih =>
    intro s o hd h hl hb
    obtain ⟨o', hd', h'⟩ := osap_step s op hd h (ceAt_of_bufLen hS s hl hb)
    obtain ⟨l1, l2, l3, l4⟩ := bufLen_step_osap s op hd hl
    have hb' : Int32OK (op.apply s) := by unfold Int32OK; rw [l2, l4]; exact hb
    obtain ⟨o'', a, b, c, d, e⟩ := ih (op.apply s) hd' h' l1 hb'
    exact ⟨o'', a, b, c, d, by rw [← l2]; exact e⟩

theorem newParser_osap_dict (raw : Cfg) (s0 : Parser) (h0 : newParser .OSAP raw = some s0) :
    s0.dict = .osap OsapD.empty := by
  unfold newParser at h0
  simp only at h0
  split at h0
  · cases h0; rfl
  · cases h0

/-- **C11 for every block of every history, relative to `SegmentsFacts` only.**  Start from a new
    OSAP parser whose configuration has `BufferSize ≤ MaxInt32` or `MaxMatchLen ≤ MaxInt32`, apply
    any sequence of `Write`, `ReadFrom`, `Parse(&blk, flags)`, `Parse(nil)`, `Shrink`, `Reset`;
    the next block emitted with flags 0 is an LZ77 parse of its bytes of minimum cost. -/
theorem C11_optimal_of_segFacts (hS : SegmentsFacts) (raw : Cfg) (s0 : Parser)
    (h0 : newParser .OSAP raw = some s0) (hb : Int32OK s0)
    (ops : List POp) (flags : Nat) (hf : flags % 2 = 0)
    (hn : (runOps s0 ops).blockN ≠ 0) :
    let s := runOps s0 ops
    ∃ o, s.dict = .osap o ∧
      LzParse (s.buf.data.take (s.buf.w + s.blockN)) s.buf.w s.buf.cfg.windowSize
        s.minMatch s.cfg.maxMatchLen.toNat s.blockN (osapPath s o) ∧
      ∀ π, LzParse (s.buf.data.take (s.buf.w + s.blockN)) s.buf.w s.buf.cfg.windowSize
          s.minMatch s.cfg.maxMatchLen.toNat s.blockN π →
        blockCost (s.parse flags).2.2.2 ≤ pathCost π := by
  intro s
  obtain ⟨o, hd, h, hl, hb', -⟩ := osap_run_buf hS ops s0 (newParser_osap_dict raw s0 h0)
    (OsapHist.empty s0) (newParser_bufLen _ raw s0 h0) hb
  exact ⟨o, hd, C11_optimal_hist s o hd flags hn hf h (ceAt_of_bufLen hS s hl hb')⟩

/-- the buffers along an OSAP history stay within `BufferSize`; the hypothesis `CEAt` of
    `C11_all_histories` holds for all of them -/
theorem ceAt_all_histories (hS : SegmentsFacts) (raw : Cfg) (s0 : Parser)
    (h0 : newParser .OSAP raw = some s0) (hb : Int32OK s0) (ops : List POp) :
    CEAt (runOps s0 ops) ∧ BufLen (runOps s0 ops) := by
  obtain ⟨o, hd, h, hl, hb', -⟩ := osap_run_buf hS ops s0 (newParser_osap_dict raw s0 h0)
    (OsapHist.empty s0) (newParser_bufLen _ raw s0 h0) hb
  exact ⟨ceAt_of_bufLen hS _ hl hb', hl⟩

/-! ## 6. C12 for every history, with `SAOK` discharged -/

/-- **C12 for every block of every history without `Parse(nil)`, unconditionally.**  Start from a
    new GSAP parser, apply any sequence of `Write`, `ReadFrom`, `Parse(&blk, flags)`, `Shrink`,
    `Reset`; in the next block every emitted match is real, inside the window, at least
    `MinMatchLen` long and exactly as long as the longest match any earlier buffered position
    offers (clipped at the block end); and if the block ends inside the window, every literal
    position had no earlier position offering `MinMatchLen` bytes. -/
theorem C12_longest_unconditional (raw : Cfg) (s0 : Parser) (h0 : newParser .GSAP raw = some s0)
    (ops : List POp) (hops : ∀ op ∈ ops, op.notNil) (flags : Nat)
    (hn : (runOps s0 ops).blockN ≠ 0) :
    let s := runOps s0 ops
    GreedySpec (s.buf.data.take (s.buf.w + s.blockN)) s.buf.cfg.windowSize s.minMatch
      (s.buf.w + s.blockN ≤ s.buf.cfg.windowSize) s.buf.w (s.parse flags).2.2.2.seqs ∧
    (s.buf.w + s.blockN ≤ s.buf.cfg.windowSize →
      ∀ q, endPos s.buf.w (s.parse flags).2.2.2.seqs ≤ q → q < s.buf.w + s.blockN →
        lpm (s.buf.data.take (s.buf.w + s.blockN)) q < s.minMatch) :=
  C12_all_histories raw s0 h0 ops hops flags hn saok_gsapSort

theorem gsap_run_buf (ops : List POp) (hops : ∀ op ∈ ops, op.notNil) :
    ∀ (s : Parser) {g : GsapD}, s.dict = .gsap g → GsapHist s g → 1 ≤ s.minMatch → BufLen s →
    ∃ g', (runOps s ops).dict = .gsap g' ∧ GsapHist (runOps s ops) g' ∧
      1 ≤ (runOps s ops).minMatch ∧ BufLen (runOps s ops) ∧
      (runOps s ops).buf.cfg = s.buf.cfg := by
  induction ops with
  | nil => intro s g hd h hmm hl; exact ⟨g, hd, h, hmm, hl, rfl⟩
  | cons op ops ih =>
    intro s g hd h hmm hl
    obtain ⟨g', hd', h'⟩ := gsap_step s op (hops op (by simp)) hd h hmm saok_gsapSort
    obtain ⟨hk, hc⟩ := apply_kind_cfg_gsap s op hd
    obtain ⟨l1, l2⟩ := bufLen_step_gsap s op hd hl
    obtain ⟨g'', a, b, c, d, e⟩ := ih (fun op' ho => hops op' (by simp [ho])) (op.apply s) hd' h'
      (by rw [minMatch_congr hk hc]; exact hmm) l1
    exact ⟨g'', a, b, c, d, by rw [← l2]; exact e⟩

theorem newParser_gsap_dict (raw : Cfg) (s0 : Parser) (h0 : newParser .GSAP raw = some s0) :
    s0.dict = .gsap GsapD.empty := by
  unfold newParser at h0
  simp only at h0
  split at h0
  · cases h0; rfl
  · cases h0

theorem GreedySpec.of_lit {p : List Byte} {ws mm : Nat} {lit : Prop} (hl : lit) :
    ∀ (ss : List Seq) (a : Nat), GreedySpec p ws mm lit a ss → GreedySpec p ws mm True a ss
  | [], _, _ => trivial
  | _ :: r, _, ⟨h1, h2, h3, h4, h5⟩ => ⟨fun _ => h1 hl, h2, h3, h4, GreedySpec.of_lit hl r _ h5⟩

/-- position `q` is emitted as a literal by a block that starts at `a` with the sequences `ss`:
    it lies in the literal run in front of some match, or behind the last match -/
def LitPos : Nat → List Seq → Nat → Prop
  | a, [], q => a ≤ q
  | a, s :: r, q => (a ≤ q ∧ q < a + s.litLen) ∨ LitPos (a + s.litLen + s.matchLen) r q

theorem lpm_lt_iff (p : List Byte) (q mm : Nat) :
    lpm p q < mm ↔ 1 ≤ mm ∧ ∀ f, f < q → lcpLen (p.drop f) (p.drop q) < mm := by
  unfold lpm
  constructor
  · intro h
    have h1 : lpmAt p q q ≤ mm - 1 := by omega
    refine ⟨by omega, fun f hf => ?_⟩
    have := (lpmAt_le_iff p q (mm - 1) q).1 h1 f hf
    omega
  · rintro ⟨h1, h2⟩
    have : lpmAt p q q ≤ mm - 1 := (lpmAt_le_iff p q (mm - 1) q).2 (fun f hf => by
      have := h2 f hf; omega)
    omega

theorem litPos_no_match {p : List Byte} {ws mm e : Nat} :
    ∀ (ss : List Seq) (a : Nat), GreedySpec p ws mm True a ss →
      (∀ q, endPos a ss ≤ q → q < e → lpm p q < mm) →
      ∀ q, q < e → LitPos a ss q → lpm p q < mm
  | [], a, _, ht, q, hq, hp => ht q hp hq
  | s :: r, a, ⟨h1, _, _, _, h5⟩, ht, q, hq, hp => by
    rcases hp with ⟨ha, hb⟩ | hp
    · exact h1 trivial q ha hb
    · exact litPos_no_match r _ h5 ht q hq hp

/-- **C12, literal clause from `BufferSize ≤ WindowSize`.**  "When the buffer is no larger than
    the window, a byte is emitted as a literal only if no earlier buffered position offers a match
    of at least `MinMatchLen` there": for a GSAP parser with `BufferSize ≤ WindowSize`, after any
    history without `Parse(nil)`, in the next block
    * the sequences satisfy `GreedySpec` with the literal clause switched on (`lit := True`), and
    * for every block position `q` that is emitted as a literal (in a literal run in front of a
      match, or behind the last match) and every earlier buffered position `f < q`, the common
      prefix of the block-clipped suffixes at `f` and `q` is shorter than `MinMatchLen`. -/
theorem C12_literal_only_if_buffer (raw : Cfg) (s0 : Parser) (h0 : newParser .GSAP raw = some s0)
    (hbw : s0.buf.cfg.bufferSize ≤ s0.buf.cfg.windowSize)
    (ops : List POp) (hops : ∀ op ∈ ops, op.notNil) (flags : Nat)
    (hn : (runOps s0 ops).blockN ≠ 0) :
    let s := runOps s0 ops
    let p := s.buf.data.take (s.buf.w + s.blockN)
    GreedySpec p s.buf.cfg.windowSize s.minMatch True s.buf.w (s.parse flags).2.2.2.seqs ∧
    ∀ q, q < s.buf.w + s.blockN → LitPos s.buf.w (s.parse flags).2.2.2.seqs q →
      ∀ f, f < q → lcpLen (p.drop f) (p.drop q) < s.minMatch := by
  intro s p
  have hmm : 1 ≤ s0.minMatch := by have := newParser_gsap_minMatch raw s0 h0; omega
  obtain ⟨g, hd, h, hmm', hl, hc⟩ := gsap_run_buf ops hops s0 (newParser_gsap_dict raw s0 h0)
    (GsapHist.empty s0) hmm (newParser_bufLen _ raw s0 h0)
  have hin : s.buf.w + s.blockN ≤ s.buf.cfg.windowSize := by
    have h1 := blockN_le s hn
    have h2 : s.buf.data.length ≤ s.buf.cfg.bufferSize := hl
    have h3 : s.buf.cfg = s0.buf.cfg := hc
    rw [h3] at h2 ⊢
    omega
  obtain ⟨c1, c2⟩ := C12_longest_hist s g hd flags hn hmm' h saok_gsapSort
  have c1' := GreedySpec.of_lit hin _ _ c1
  refine ⟨c1', ?_⟩
  intro q hq hp f hf
  exact ((lpm_lt_iff _ _ _).1 (litPos_no_match _ _ c1' (c2 hin) q hq hp)).2 f hf

/-- `Int32OK` in terms of the (defaults-completed) configuration `ParserConfig()` reports -/
theorem int32OK_of_cfg (raw : Cfg) (s0 : Parser) (h0 : newParser .OSAP raw = some s0)
    (h : s0.cfg.bufferSize ≤ 2147483647 ∨ s0.cfg.maxMatchLen ≤ 2147483647) : Int32OK s0 := by
  unfold newParser at h0
  simp only at h0
  split at h0
  · cases h0
    unfold Int32OK
    simp only [PBuf.init, Cfg.bufCfg] at h ⊢
    omega
  · cases h0

/-- the default `MaxMatchLen` (273) satisfies the D18 bound: a configuration that leaves
    `MaxMatchLen` unset is covered whatever its `BufferSize` -/
theorem int32OK_default (raw : Cfg) (s0 : Parser) (h0 : newParser .OSAP raw = some s0)
    (h : raw.maxMatchLen = 0) : Int32OK s0 := by
  apply int32OK_of_cfg raw s0 h0
  right
  unfold newParser at h0
  simp only at h0
  split at h0
  · cases h0
    simp only [setDefaults, Cfg.restrict, h, bufDefaults, ite_self, if_true]
    decide
  · cases h0

/-! ## non-vacuity: concrete configurations and histories meeting the hypotheses -/

theorem eq_some_getD {α} {o : Option α} (h : o.isSome = true) (d : α) : o = some (o.getD d) := by
  cases o with
  | none => cases h
  | some x => rfl

/-- an OSAP configuration `NewParser` accepts -/
def glueOsapCfg : Cfg :=
  { windowSize := 64, bufferSize := 64, blockSize := 32, shrinkSize := 16,
    minMatchLen := 2, maxMatchLen := 20 }

def glueOsap0 : Parser := (newParser .OSAP glueOsapCfg).getD default
theorem glueOsap0_new : newParser .OSAP glueOsapCfg = some glueOsap0 := eq_some_getD (by decide) _
theorem glueOsap0_int32 : Int32OK glueOsap0 := by unfold Int32OK; decide

/-- a history: `Write("ababab")`, `Parse(nil)`, `Shrink`, `Write("abab")` -/
def glueOps : List POp :=
  [.write [97, 98, 97, 98, 97, 98], .parseNil, .shrink, .write [97, 98, 97, 98]]
theorem glueOps_blockN : (runOps glueOsap0 glueOps).blockN ≠ 0 := by decide

/-- a GSAP configuration with `BufferSize ≤ WindowSize` that `NewParser` accepts -/
def glueGsapCfg : Cfg :=
  { windowSize := 64, bufferSize := 48, blockSize := 32, shrinkSize := 16, minMatchLen := 3 }

def glueGsap0 : Parser := (newParser .GSAP glueGsapCfg).getD default
theorem glueGsap0_new : newParser .GSAP glueGsapCfg = some glueGsap0 := eq_some_getD (by decide) _
theorem glueGsap0_bw : glueGsap0.buf.cfg.bufferSize ≤ glueGsap0.buf.cfg.windowSize := by decide

def glueOpsG : List POp :=
  [.write [97, 98, 97, 98, 97, 98], .shrink, .write [97, 98, 97, 98]]
theorem glueOpsG_notNil : ∀ op ∈ glueOpsG, op.notNil := by
  intro op h
  simp only [glueOpsG, List.mem_cons, List.not_mem_nil, or_false] at h
  rcases h with rfl | rfl | rfl <;> exact trivial
theorem glueOpsG_blockN : (runOps glueGsap0 glueOpsG).blockN ≠ 0 := by decide

/-- the hypotheses of `C12_longest_unconditional` and `C12_literal_only_if_buffer` are met -/
example := C12_longest_unconditional glueGsapCfg glueGsap0 glueGsap0_new glueOpsG glueOpsG_notNil 0
  glueOpsG_blockN
example := C12_literal_only_if_buffer glueGsapCfg glueGsap0 glueGsap0_new glueGsap0_bw glueOpsG
  glueOpsG_notNil 0 glueOpsG_blockN

/-- `SAOK` for the suffix array of `"abab"` (computed: `[2,0,3,1]`, inverse `[1,3,0,2]`) -/
example : SAOK exData (gsapSort exData 0).sa (gsapSort exData 0).isa := saok_gsapSort _ _

/-- `LitPos`: in a block starting at 4 with the sequences `(litLen 2, matchLen 3)`, `(1, 4)` the
    literal positions are 4, 5, 9 and everything from 14 on -/
example : LitPos 4 [⟨2, 3, 1, 0⟩, ⟨1, 4, 2, 0⟩] 5 ∧ LitPos 4 [⟨2, 3, 1, 0⟩, ⟨1, 4, 2, 0⟩] 9 ∧
    ¬ LitPos 4 [⟨2, 3, 1, 0⟩, ⟨1, 4, 2, 0⟩] 7 ∧ LitPos 4 [⟨2, 3, 1, 0⟩, ⟨1, 4, 2, 0⟩] 14 := by
  simp [LitPos]

/-! ## axioms -/

#print axioms saok_gsapSort
#print axioms sufL_le_lcp
#print axioms ceHyps_of_maxLen
#print axioms ceHyps_of_segFacts
#print axioms computeEdges_sound_of_segFacts
#print axioms bufLen_step_osap
#print axioms bufLen_step_gsap
#print axioms osap_run_buf
#print axioms C11_optimal_of_segFacts
#print axioms ceAt_all_histories
#print axioms C12_longest_unconditional
#print axioms gsap_run_buf
#print axioms C12_literal_only_if_buffer
#print axioms int32OK_of_cfg
#print axioms int32OK_default

end LZ.Sap
