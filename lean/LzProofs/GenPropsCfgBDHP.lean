/-
  LzProofs.GenPropsCfgBDHP — the parser configuration BDHPConfig (SetDefaults / Verify through the
  reflective helpers, which appear in the generated code as the field copies the extractor read
  from their source).  `ofBDHP` reads the generated struct as the model's union record `Cfg`
  (fields the kind does not have are zero), `toBDHP` is the inverse on `Cfg.restrict .BDHP`.
    G16 gen_setDefaults_BDHP   G17 gen_verify_BDHP   G18 gen_accepted_BDHP
  Part of the split of the former LzProofs/GenProps.lean: "the hand-written model equals the
  code that `tools/extract -code` regenerates from the Go source".  The generated code is
  emitted per topic (LzModel/Generated/Code<Topic>.lean); this file only imports the topic it
  talks about, so a Go function the translator refuses takes down this file and nothing else.
  Every theorem quantifies over ALL inputs; Go `int`/`int64` are unbounded `Int` on both sides
  (overflow is out of scope), `uint32`/`uint64` wrap around.  All names live in `LZ.GenProps`.
  The proofs are written against the MEANING of the generated functions (unfold, split every
  `if`, decide linear arithmetic), not against the shape of the generated term, so that
  behaviour-preserving rewrites of the Go source (De Morgan, swapped arms, reordered defaults,
  `x+x` for `2*x`, …) do not break them.
-/
import LzModel.Generated.CodeCfgBDHP
import LzProofs.GenPropsCfgBuf
import LzProofs.GenPropsCfgHash

set_option linter.unusedSimpArgs false

namespace LZ.GenProps
open LZ

def ofBDHP (c : Gen.BDHPConfig) : Cfg :=
  { shrinkSize := c.ShrinkSize, bufferSize := c.BufferSize, windowSize := c.WindowSize,
    blockSize := c.BlockSize,
    inputLen1 := c.InputLen1, hashBits1 := c.HashBits1, inputLen2 := c.InputLen2, hashBits2 := c.HashBits2 }

def toBDHP (c : Cfg) : Gen.BDHPConfig :=
  { ShrinkSize := c.shrinkSize, BufferSize := c.bufferSize, WindowSize := c.windowSize,
    BlockSize := c.blockSize,
    InputLen1 := c.inputLen1, HashBits1 := c.hashBits1, InputLen2 := c.inputLen2, HashBits2 := c.hashBits2 }

theorem ofBDHP_toBDHP (c : Cfg) : ofBDHP (toBDHP c) = c.restrict .BDHP := by
  simp [ofBDHP, toBDHP, Cfg.restrict, Kind.fields]

theorem toBDHP_ofBDHP (c : Gen.BDHPConfig) : toBDHP (ofBDHP c) = c := rfl

theorem gen_setDefaults_BDHP (c : Gen.BDHPConfig) :
    ofBDHP (Gen.BDHPConfig_SetDefaults c) = setDefaults .BDHP (ofBDHP c) := by
  simp only [Gen.BDHPConfig_SetDefaults, gen_helper, gen_bufDefaults', gen_dhDefaults]
  rfl

theorem gen_verify_BDHP (c : Gen.BDHPConfig) :
    Gen.BDHPConfig_Verify c = .ok ↔ verify .BDHP (ofBDHP c) = true := by
  -- the model side, grouped as (buffer check) && (double-hash check) …
  have e : verify .BDHP (ofBDHP c) = (bufVerify (ofBDHP c) &&
      (hashVerify c.InputLen1 c.HashBits1 Facts.maxHashBits &&
       hashVerify c.InputLen2 c.HashBits2 Facts.maxHashBits && decide (c.InputLen1 < c.InputLen2))) := by
    simp only [verify, ofBDHP, Bool.and_assoc]
    rfl
  -- … and what the two helper checks of the generated code mean (G09, G13)
  have hb : Gen.BufConfig_Verify ⟨c.ShrinkSize, c.BufferSize, c.WindowSize, c.BlockSize⟩ = .ok ↔ bufVerify (ofBDHP c) = true := gen_bufVerify _
  have hd := gen_dhVerify ⟨⟨c.InputLen1, c.HashBits1⟩, ⟨c.InputLen2, c.HashBits2⟩⟩
  dsimp only at hd
  rw [e, Bool.and_eq_true, ← hb, ← hd]
  -- the rest is propositional in the two results, whatever the shape of the generated function
  simp only [Gen.BDHPConfig_Verify, gen_helper]
  gen_cases

theorem gen_accepted_BDHP (c : Cfg) :
    accepted .BDHP c = true ↔ Gen.BDHPConfig_Verify (Gen.BDHPConfig_SetDefaults (toBDHP c)) = .ok := by
  rw [gen_verify_BDHP, gen_setDefaults_BDHP, ofBDHP_toBDHP]; rfl

end LZ.GenProps
