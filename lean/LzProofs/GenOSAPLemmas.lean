/-
  LzProofs.GenOSAPLemmas — abstraction maps between the translated osap.go (LzModel/Generated/CodeOSAPPath.lean:
  structures `edge`, `optSuffixArrayParser`, `optSuffixArrayParser_shortestPath_opt`) and the hand model
  (LzModel/Sap.lean: `Edge`, `Opt`, `OsapD`), shared by GenOSAPPath / GenOSAPParse / GenOSAPEdges / GenOSAPInit.
-/
import LzModel.Generated.CodeOSAPPath
import LzModel.Sap
import LzProofs.GenSuffixPropsBase
import LzProofs.GenPropsCost

set_option linter.unusedSimpArgs false

namespace LZ.GenOSAP
open LZ LZ.Gen LZ.GenBuf LZ.GenHash LZ.GenSuffix

/-- a Go `edge{m, o uint32}` as the model's pair -/
def edgeAbs (e : Gen.edge) : Edge := (e.m.toNat, e.o.toNat)

/-- the edge table `s.edges : [][]edge` (elements only, up to `len`) -/
def edgesAbs (es : GSlice (GSlice Gen.edge)) : Array (List Edge) :=
  (es.data.map (fun q => q.data.map edgeAbs)).toArray

/-- an entry of the DP table of `shortestPath` -/
def optAbs (x : Gen.optSuffixArrayParser_shortestPath_opt) : Opt := ⟨x.m.toNat, x.o.toNat, x.c.toNat⟩

/-! ## general-purpose lemmas (used by GenOSAPPath; nothing below mentions a translated function) -/

/-- the DP table `d []opt` of `shortestPath` (elements only) -/
def tabAbs (d : GSlice Gen.optSuffixArrayParser_shortestPath_opt) : Array Opt := (d.data.map optAbs).toArray

/-! ### element-wise abstractions `(s.data.map f).toArray` of a slice value -/

theorem gabs_size {α β : Type} (f : α → β) {s : GSlice α} (h : GWF s) : ((s.data.map f).toArray).size = s.len := by
  simp [gdata_length h]

theorem gabs_getElem? {α β : Type} (f : α → β) (z : α) {s : GSlice α} (h : GWF s) (i : Nat) (hi : i < s.len) :
    ((s.data.map f).toArray)[i]? = some (f ((s.arr[i]?).getD z)) := by
  unfold GWF at h
  have hl : i < s.arr.length := by omega
  simp [gdata_getElem?, hi, List.getElem?_eq_getElem hl]

theorem gabs_getElem?_none {α β : Type} (f : α → β) (s : GSlice α) (i : Nat) (hi : ¬ i < s.len) :
    ((s.data.map f).toArray)[i]? = none := by
  simp [gdata_getElem?, hi]

/-- a successful read of the abstraction is a read inside `len` -/
theorem gabs_getElem?_some {α β : Type} (f : α → β) (z : α) {s : GSlice α} (h : GWF s) (i : Nat) (x : β)
    (hx : ((s.data.map f).toArray)[i]? = some x) : i < s.len ∧ f ((s.arr[i]?).getD z) = x := by
  by_cases hi : i < s.len
  · rw [gabs_getElem? f z h i hi] at hx
    exact ⟨hi, Option.some.inj hx⟩
  · rw [gabs_getElem?_none f s i hi] at hx; cases hx

/-- writing element `j` of the slice = `setIfInBounds` on the abstraction -/
theorem gabs_set {α β : Type} (f : α → β) (s : GSlice α) (j : Nat) (v : α) :
    ((({ s with arr := s.arr.set j v } : GSlice α).data.map f).toArray) =
      ((s.data.map f).toArray).setIfInBounds j (f v) := by
  apply Array.ext_getElem?
  intro k
  simp only [GSlice.data, Array.getElem?_setIfInBounds, List.getElem?_toArray, List.getElem?_map,
    List.getElem?_take, List.getElem?_set, List.size_toArray, List.length_map, List.length_take,
    List.length_set]
  by_cases hk : k < s.len
  · by_cases hjk : j = k
    · subst hjk
      by_cases hl : j < s.arr.length
      · have : j < min s.len s.arr.length := by omega
        simp [hk, hl, this]
      · have : ¬ j < min s.len s.arr.length := by omega
        have hn : s.arr[j]? = none := List.getElem?_eq_none (by omega)
        simp [hk, hl, this, hn]
    · simp [hk, hjk]
  · by_cases hjk : j = k
    · subst hjk
      have : ¬ j < min s.len s.arr.length := by omega
      simp [hk, this]
    · simp [hk, hjk]

/-- the elements after a write inside `len` -/
theorem gset_data {α : Type} (s : GSlice α) (j : Nat) (v : α) :
    ({ s with arr := s.arr.set j v } : GSlice α).data = s.data.set j v := by
  unfold GSlice.data
  simp only
  rw [List.take_set]

theorem edgesAbs_size {es : GSlice (GSlice Gen.edge)} (h : GWF es) : (edgesAbs es).size = es.len :=
  gabs_size _ h

theorem edgesAbs_getElem? {es : GSlice (GSlice Gen.edge)} (h : GWF es) (i : Nat) (hi : i < es.len) :
    (edgesAbs es)[i]? = some (((es.arr[i]?).getD GSlice.nil).data.map edgeAbs) :=
  gabs_getElem? _ GSlice.nil h i hi

theorem tabAbs_size {d : GSlice Gen.optSuffixArrayParser_shortestPath_opt} (h : GWF d) : (tabAbs d).size = d.len :=
  gabs_size _ h

/-! ### `XZCost` -/

theorem xzCost_zero (m : Nat) : xzCost m 0 = 9 * m := by simp [xzCost]

/-- `XZCost(m, o)` of two uint32 values is below `2^36` (`9·m` for a literal run, at most 44 for a match) -/
theorem xzCost_lt (m o : Nat) (hm : m < 4294967296) (ho : o < 4294967296) : xzCost m o < 68719476736 := by
  unfold xzCost
  by_cases h0 : o = 0
  · simp only [h0, if_true]; omega
  · simp only [h0, if_false]
    have hl : Nat.log2 (o - 1) < 32 ∨ o - 1 = 0 := by
      by_cases hd : o - 1 = 0
      · exact Or.inr hd
      · exact Or.inl ((Nat.log2_lt hd).2 (by omega))
    split <;> split <;> (try split) <;> omega

/-- the dispatch on the field `cost` when it holds `XZCost` -/
theorem cost_ok (code : Int) (h : code = 1) (m o : UInt32) :
    Gen.optSuffixArrayParser_cost code m o = Res.ok (Gen.XZCost m o) := by
  unfold Gen.optSuffixArrayParser_cost
  simp only [h, if_true]

theorem gen_cost_toNat (m o : UInt32) : (Gen.XZCost m o).toNat = xzCost m.toNat o.toNat :=
  GenProps.gen_xzCost m o

theorem gen_cost_lt (m o : UInt32) : (Gen.XZCost m o).toNat < 68719476736 := by
  rw [gen_cost_toNat]
  exact xzCost_lt _ _ (UInt32.toNat_lt m) (UInt32.toNat_lt o)

/-- a uint64 sum that does not wrap -/
theorem u64_add (a b : UInt64) (h : a.toNat + b.toNat < 18446744073709551616) : (a + b).toNat = a.toNat + b.toNat := by
  rw [UInt64.toNat_add, Nat.mod_eq_of_lt (by omega)]

/-- `uint32(a)` of a non-negative `int` below `2^32` -/
theorem u32_ofInt (n : Nat) (a : Int) (ha : a = (n : Int)) (h : n < 4294967296) : (UInt32.ofInt a).toNat = n := by
  subst ha
  unfold UInt32.ofInt
  simp only [UInt32.toNat_ofNat', Nat.reducePow, Int.reducePow] at *
  omega

end LZ.GenOSAP
