/-
  LzProofs.GenOSAPHistGo — `CESpec` DISCHARGED for the TRANSLATED `(*optSuffixArrayParser).computeEdges` (topic OSAPEdges,
  LzProofs/GenOSAPEdges.lean `gen_osap_computeEdges`), and the theorems of LzProofs/GenOSAPHistRun.lean restated with the
  translated `computeEdges` as the callee of the translated `Parse` (`…_ce_go`): histories of OSAP run on translated Go text
  only.  What remains as hypotheses: the specifications of the four callees OUTSIDE osap.go —
      EdgeSpecs SS LCP SEG SRT   `suffix.Sort` (SortSpec), `suffix.LCP(t, sa, nil, lcp)` (LCPSpec), `suffix.Segments` as the
                                 function that returns the log of its callback calls (SegSpec; `segSpec_go`: it HOLDS for the
                                 translation of segments.go), `slices.Sort` (SliceSortSpec).

    cespec_go_small   the conclusion of `CESpec 2147483647` for `ceGo` on every state with `ParseOKO` and `WindowSize < 2^32`
                      (`computeEdges` reads `uint32(s.WindowSize)`; `ParseOKO` has no upper bound for it, `BufConfig.Verify`
                      has: `WindowSize ≤ 2^32 − 8`, which the history invariant carries: `BCOKO.wmax`)
    ceW, cespec_go    the callee that is `ceGo` for `WindowSize < 2^32` and the hand model `ceK` beyond satisfies `CESpec`
    parse_congr       `Parse` calls `computeEdges` on the state it is given and nowhere else
    runO_go           along every history from a state with `HistOKO`, running with `ceGo` IS running with `ceW`
    gen_osap_history_ce_go, C01/C02/C03/C11_go_text_osap_ce_go   the theorems with `ce := ceGo`
  No sorry, no axioms of its own.
-/
import LzProofs.GenOSAPEdges
import LzProofs.GenOSAPHistEx

set_option linter.unusedSimpArgs false
set_option linter.unusedVariables false

namespace LZ.GenOSAPHist
open LZ LZ.Gen LZ.GenBuf LZ.GenHash LZ.GenSuffix LZ.GenHPParse LZ.GenProps LZ.GenOSAP
open LZ.GenGSAP (SortSpec)
open LZ.GenHPHist (GOp GRes GOp.WF GOp.abs resAgree ResultsAgree ghostStep ghostRun parseErr_ok_iff step_parse_fst
  step_reset_fst bind_ok' GOpR GResR GOpR.WF GOpR.abs resAgreeR ResultsAgreeR ghostStepR ghostRunR genErr RFun RFSpec
  rfGo rfGo_spec)

/-- the specifications of the callees of `computeEdges` outside osap.go -/
structure EdgeSpecs (SS : Slice → GSlice Int32 → Res (GSlice Int32))
    (LCP : Slice → GSlice Int32 → GSlice Int32 → GSlice Int32 → Res (GSlice Int32))
    (SEG : GSlice Int32 → GSlice Int32 → Int → Int → Res (List (Int × GSlice Int32)))
    (SRT : GSlice Int32 → Res (GSlice Int32)) : Prop where
  sort : SortSpec SS
  lcp : LCPSpec LCP
  seg : SegSpec SEG
  ssort : SliceSortSpec SRT

section
variable {SS : Slice → GSlice Int32 → Res (GSlice Int32)}
  {LCP : Slice → GSlice Int32 → GSlice Int32 → GSlice Int32 → Res (GSlice Int32)}
  {SEG : GSlice Int32 → GSlice Int32 → Int → Int → Res (List (Int × GSlice Int32))}
  {SRT : GSlice Int32 → Res (GSlice Int32)}

/-- the TRANSLATED `computeEdges` as the callee of the translated `Parse` (`fuelE`: its own fuel) -/
def ceGo (grow : Nat → Nat → Nat) (fuelE : Nat) (SS : Slice → GSlice Int32 → Res (GSlice Int32))
    (LCP : Slice → GSlice Int32 → GSlice Int32 → GSlice Int32 → Res (GSlice Int32))
    (SEG : GSlice Int32 → GSlice Int32 → Int → Int → Res (List (Int × GSlice Int32)))
    (SRT : GSlice Int32 → Res (GSlice Int32)) : CEFun :=
  optSuffixArrayParser_computeEdges grow fuelE SS LCP SEG SRT

/-- **the conclusion of `CESpec` for the translated `computeEdges`**, for `WindowSize < 2^32` -/
theorem cespec_go_small (sp : EdgeSpecs SS LCP SEG SRT) (grow : Nat → Nat → Nat) (fuelE : Nat) (hf : 2147483648 ≤ fuelE)
    (s : Gen.optSuffixArrayParser) (o : OsapD) (hP : ParseOKO 2147483647 s) (hws : s.OSAPConfig.WindowSize < 4294967296)
    (hchk : Idx.computeEdgesChk (ofOSAPs s).buf.data (ofOSAPs s).buf.w (ofOSAPs s).buf.cfg.windowSize (ofOSAPs s).minMatch
      (ofOSAPs s).cfg.maxMatchLen.toNat = some o) :
    ∃ s', ceGo grow fuelE SS LCP SEG SRT s = Res.ok s' ∧ ofOD s' = o ∧ s'.ParserBuffer = s.ParserBuffer ∧
      s'.OSAPConfig = s.OSAPConfig ∧ s'.cost = s.cost ∧ s'.tmp = s.tmp ∧ 0 ≤ s'.start ∧ 0 ≤ s'.nEdges ∧ GWF s'.edges ∧
      (∀ q ∈ s'.edges.data, GWF q ∧ q.len ≤ 2147483647) := by
  have hdl : (ofOSAPs s).buf.data.length = s.ParserBuffer.Data.len := data_length hP.pb.data
  have hw : (ofOSAPs s).buf.w ≤ (ofOSAPs s).buf.data.length := by
    rw [hdl]
    show s.ParserBuffer.W.toNat ≤ _
    have := hP.w; have := hP.pb.w; omega
  have hlen : (ofOSAPs s).buf.data.length ≤ 2147483647 := by rw [hdl]; exact hP.small
  have ho : o = computeEdges (ofOSAPs s).buf.data (ofOSAPs s).buf.w (ofOSAPs s).buf.cfg.windowSize (ofOSAPs s).minMatch
      (ofOSAPs s).cfg.maxMatchLen.toNat := by
    rw [Idx.computeEdgesChk_eq _ _ _ _ _ hw hlen] at hchk
    exact (Option.some.inj hchk).symm
  obtain ⟨s', h1, h2, h3, h4, h5, h6, h7⟩ := gen_osap_computeEdges grow fuelE SS LCP SEG SRT sp.sort sp.lcp sp.seg sp.ssort s
    hP.pb hP.w hP.small hP.ws0 hws hP.mm0 hP.mmx (by have := hP.small; omega)
  have hod : ofOD s' = o := by
    rw [ho]
    show (⟨edgesAbs s'.edges, s'.start.toNat, s'.nEdges.toNat⟩ : OsapD) = _
    rw [h2]
    show computeEdges s.ParserBuffer.Data.data s.ParserBuffer.W.toNat s.OSAPConfig.WindowSize.toNat _ _ =
      computeEdges s.ParserBuffer.Data.data s.ParserBuffer.W.toNat s.ParserBuffer.BufConfig.WindowSize.toNat _ _
    rw [hP.cws]
    rfl
  unfold CEFrame at h3
  refine ⟨s', h1, hod, by rw [h3], by rw [h3], by rw [h3], by rw [h3], h4, h5, h6, ?_⟩
  intro q hq
  refine ⟨h7 q hq, ?_⟩
  -- at most len(Data) edges per position
  obtain ⟨i, hi, rfl⟩ := List.mem_iff_getElem.1 hq
  have hil : i < s'.edges.len := by rw [gdata_length h6] at hi; exact hi
  have hgi : (edgesAbs s'.edges)[i]? = some ((s'.edges.data[i]).data.map edgeAbs) := by
    rw [edgesAbs_getElem? h6 i hil]
    have h1 : s'.edges.data[i]? = some (s'.edges.data[i]) := List.getElem?_eq_getElem hi
    rw [gdata_getElem?, if_pos hil] at h1
    rw [h1]; rfl
  have hbound := Sap.computeEdges_len_le (ofOSAPs s).buf.data (ofOSAPs s).buf.w (ofOSAPs s).buf.cfg.windowSize
    (ofOSAPs s).minMatch (ofOSAPs s).cfg.maxMatchLen.toNat hw hlen i
  rw [← ho, ← hod] at hbound
  have hge : (ofOD s').edges.getD i [] = (s'.edges.data[i]).data.map edgeAbs := by
    show (edgesAbs s'.edges).getD i [] = _
    rw [Array.getD_eq_getD_getElem?, hgi]; rfl
  rw [hge, List.length_map, gdata_length (h7 _ (List.getElem_mem hi))] at hbound
  omega

/-- the callee that is the translated `computeEdges` wherever its `uint32(s.WindowSize)` is the model's window size, and
    the hand model beyond (no history reaches such a state: `BufConfig.Verify`) -/
def ceW (grow : Nat → Nat → Nat) (fuelE : Nat) (SS : Slice → GSlice Int32 → Res (GSlice Int32))
    (LCP : Slice → GSlice Int32 → GSlice Int32 → GSlice Int32 → Res (GSlice Int32))
    (SEG : GSlice Int32 → GSlice Int32 → Int → Int → Res (List (Int × GSlice Int32)))
    (SRT : GSlice Int32 → Res (GSlice Int32)) : CEFun :=
  fun s => if s.OSAPConfig.WindowSize < 4294967296 then ceGo grow fuelE SS LCP SEG SRT s else ceK s

/-- **`CESpec` discharged** -/
theorem cespec_go (sp : EdgeSpecs SS LCP SEG SRT) (grow : Nat → Nat → Nat) (fuelE : Nat) (hf : 2147483648 ≤ fuelE) :
    CESpec 2147483647 (ceW grow fuelE SS LCP SEG SRT) := by
  intro s o hP hchk
  unfold ceW
  by_cases hws : s.OSAPConfig.WindowSize < 4294967296
  · rw [if_pos hws]
    exact cespec_go_small sp grow fuelE hf s o hP hws hchk
  · rw [if_neg hws]
    exact cespec_ceK s o hP hchk

/-! ## `Parse` calls `computeEdges` on the state it is given, and nowhere else -/

theorem parse_loop1_congr (grow : Nat → Nat → Nat) (ce1 ce2 : CEFun) (sp : GSlice Gen.edge) (p : Slice) :
    ∀ (fuel : Nat) (blk : Gen.Block') (i li : UInt32) (j : Int),
    optSuffixArrayParser_Parse_loop_1 grow ce1 sp p fuel blk i li j =
      optSuffixArrayParser_Parse_loop_1 grow ce2 sp p fuel blk i li j := by
  intro fuel
  induction fuel with
  | zero => intro blk i li j; unfold optSuffixArrayParser_Parse_loop_1; rfl
  | succ f ih =>
    intro blk i li j
    rw [optSuffixArrayParser_Parse_loop_1, optSuffixArrayParser_Parse_loop_1]
    simp only [ih]

theorem parse_congr (grow : Nat → Nat → Nat) (fuel : Nat) (ce1 ce2 : CEFun) (s : Gen.optSuffixArrayParser)
    (h : ce1 s = ce2 s) (blk : Gen.Block') (flags : Int) :
    optSuffixArrayParser_Parse grow fuel ce1 s blk flags = optSuffixArrayParser_Parse grow fuel ce2 s blk flags := by
  unfold optSuffixArrayParser_Parse optSuffixArrayParser_Parse_nilable
  simp only [h, parse_loop1_congr grow ce1 ce2]

/-- on a state of a history the two callees agree -/
theorem ceW_eq {bc : BufCfg} (hbc : BCOKO bc) (grow : Nat → Nat → Nat) (fuelE : Nat) {t : Gen.optSuffixArrayParser}
    (h : HistOKO bc 2147483647 t) : ceGo grow fuelE SS LCP SEG SRT t = ceW grow fuelE SS LCP SEG SRT t := by
  unfold ceW
  have h1 := h.pok.cws
  have h2 := h.pok.ws0
  have h3 : t.ParserBuffer.BufConfig.WindowSize.toNat = bc.windowSize := congrArg BufCfg.windowSize h.cfg
  have h4 := hbc.wmax
  rw [if_pos (by omega)]

theorem stepO_go {bc : BufCfg} (hbc : BCOKO bc) (grow : Nat → Nat → Nat) (fuelE : Nat) (extra fuel : Nat)
    {t : Gen.optSuffixArrayParser} (h : HistOKO bc 2147483647 t) (op : GOpR) :
    stepO extra grow fuel (ceGo grow fuelE SS LCP SEG SRT) t op = stepO extra grow fuel (ceW grow fuelE SS LCP SEG SRT) t op := by
  cases op with
  | base op =>
    cases op with
    | write p => rfl
    | parse blk flags =>
      simp only [stepO]
      rw [parse_congr grow fuel _ _ t (ceW_eq hbc grow fuelE h)]
    | shrink => rfl
    | reset data => rfl
  | readFrom r => rfl

/-- **running with the translated `computeEdges` is running with `ceW`** along every history from a state with `HistOKO` -/
theorem runO_go {bc : BufCfg} (hbc : BCOKO bc) (sp : EdgeSpecs SS LCP SEG SRT) (grow : Nat → Nat → Nat) (fuelE : Nat)
    (hfE : 2147483648 ≤ fuelE) (extra fuel : Nat) (hfuel : bc.bufferSize + 2147483647 + 5 ≤ fuel)
    (raw : Cfg) (p0 : Parser) (h0 : newParser .OSAP raw = some p0) :
    ∀ (ops : List GOpR) (mops : List POp) (t : Gen.optSuffixArrayParser) (gh : Ghost), HistOKO bc 2147483647 t →
      (ofOSAPs t, gh) = runOps (p0, Ghost.init) mops → (∀ op ∈ ops, op.WF) →
      runO extra grow fuel (ceGo grow fuelE SS LCP SEG SRT) t ops = runO extra grow fuel (ceW grow fuelE SS LCP SEG SRT) t ops := by
  intro ops
  induction ops with
  | nil => intro _ _ _ _ _ _; rfl
  | cons op ops ih =>
    intro mops t gh h hreach hwf
    obtain ⟨t1, r, h1, h2, h3, h4, h5⟩ :=
      stepO_sim hbc _ (cespec_go sp grow fuelE hfE) extra grow fuel hfuel raw p0 h0 mops t gh h hreach op
        (hwf op (List.mem_cons_self ..))
    have hsg : step (ofOSAPs t, gh) op.abs = (ofOSAPs t1, ghostStepR gh op r) := by rw [h3, h4]
    have hreach1 : (ofOSAPs t1, ghostStepR gh op r) = runOps (p0, Ghost.init) (mops ++ [op.abs]) := by
      rw [runOps_snoc, ← hreach, hsg]
    have := ih (mops ++ [op.abs]) t1 (ghostStepR gh op r) h2 hreach1 (fun o ho => hwf o (List.mem_cons_of_mem _ ho))
    show Res.bind (stepO extra grow fuel (ceGo grow fuelE SS LCP SEG SRT) t op) _ =
      Res.bind (stepO extra grow fuel (ceW grow fuelE SS LCP SEG SRT) t op) _
    rw [stepO_go hbc grow fuelE extra fuel h op, h1, bind_ok', bind_ok']
    simp only []
    rw [this]

/-- … from `init` -/
theorem runO_go_init (cfg : Gen.OSAPConfig) (s0 : Gen.optSuffixArrayParser)
    (hinit : optSuffixArrayParser_init default cfg = Res.ok (s0, Gen.Err.ok))
    (h32 : s0.OSAPConfig.MinMatchLen < 4294967296) (sp : EdgeSpecs SS LCP SEG SRT)
    (grow : Nat → Nat → Nat) (fuelE : Nat) (hfE : 2147483648 ≤ fuelE) (extra fuel : Nat)
    (hfuel : s0.ParserBuffer.BufConfig.BufferSize.toNat + 2147483647 + 5 ≤ fuel)
    (ops : List GOpR) (hwf : ∀ op ∈ ops, op.WF) :
    runO extra grow fuel (ceGo grow fuelE SS LCP SEG SRT) s0 ops = runO extra grow fuel (ceW grow fuelE SS LCP SEG SRT) s0 ops := by
  obtain ⟨p, hp, h2, hbc, hH⟩ := hist_init 2147483647 cfg s0 hinit h32
  have hf : p.buf.cfg.bufferSize + 2147483647 + 5 ≤ fuel := by
    have : p.buf.cfg = ofCfg s0.ParserBuffer.BufConfig := hH.cfg.symm
    rw [this]; exact hfuel
  exact runO_go hbc sp grow fuelE hfE extra fuel hf (ofOSAP cfg) p hp ops [] s0 Ghost.init hH (by rw [h2]; rfl) hwf

/-- **`gen_osap_history` with the translated `computeEdges`**: every operation of the history is translated Go text of
    osap.go / parser_buffer.go; hypotheses: `EdgeSpecs` (callees outside osap.go), init returned nil, `MinMatchLen < 2^32`,
    fuel `BufferSize + 2^31 + 4` for `Parse` and `2^31` for `computeEdges`. -/
theorem gen_osap_history_ce_go (cfg : Gen.OSAPConfig) (s0 : Gen.optSuffixArrayParser)
    (hinit : optSuffixArrayParser_init default cfg = Res.ok (s0, Gen.Err.ok))
    (h32 : s0.OSAPConfig.MinMatchLen < 4294967296) (sp : EdgeSpecs SS LCP SEG SRT)
    (grow : Nat → Nat → Nat) (fuelE : Nat) (hfE : 2147483648 ≤ fuelE) (extra fuel : Nat)
    (hfuel : s0.ParserBuffer.BufConfig.BufferSize.toNat + 2147483647 + 5 ≤ fuel)
    (ops : List GOpR) (hwf : ∀ op ∈ ops, op.WF) :
    ∃ p t rs, newParser .OSAP (ofOSAP cfg) = some p ∧ ofOSAPs s0 = p ∧
      runO extra grow fuel (ceGo grow fuelE SS LCP SEG SRT) s0 ops = Res.ok (t, rs) ∧ ParseOKO 2147483647 t ∧
      ofOSAPs t = (runOps (p, Ghost.init) (ops.map GOpR.abs)).1 ∧
      ghostRunR Ghost.init ops rs = (runOps (p, Ghost.init) (ops.map GOpR.abs)).2 ∧
      ResultsAgreeR (p, Ghost.init) ops rs := by
  rw [runO_go_init cfg s0 hinit h32 sp grow fuelE hfE extra fuel hfuel ops hwf]
  exact gen_osap_history 2147483647 cfg s0 hinit h32 _ (cespec_go sp grow fuelE hfE) extra grow fuel hfuel ops hwf

/-- **C01 about the Go text of OSAP, `computeEdges` translated** -/
theorem C01_go_text_osap_ce_go (cfg : Gen.OSAPConfig) (s0 : Gen.optSuffixArrayParser)
    (hinit : optSuffixArrayParser_init default cfg = Res.ok (s0, Gen.Err.ok))
    (h32 : s0.OSAPConfig.MinMatchLen < 4294967296) (sp : EdgeSpecs SS LCP SEG SRT)
    (grow : Nat → Nat → Nat) (fuelE : Nat) (hfE : 2147483648 ≤ fuelE) (extra fuel : Nat)
    (hfuel : s0.ParserBuffer.BufConfig.BufferSize.toNat + 2147483647 + 5 ≤ fuel)
    (ops : List GOpR) (hwf : ∀ op ∈ ops, op.WF) :
    ∃ t rs, runO extra grow fuel (ceGo grow fuelE SS LCP SEG SRT) s0 ops = Res.ok (t, rs) ∧
      decode [] (ghostRunR Ghost.init ops rs).log =
        some ((ghostRunR Ghost.init ops rs).fed.take (ghostRunR Ghost.init ops rs).consumed) := by
  rw [runO_go_init cfg s0 hinit h32 sp grow fuelE hfE extra fuel hfuel ops hwf]
  exact C01_go_text_osap 2147483647 cfg s0 hinit h32 _ (cespec_go sp grow fuelE hfE) extra grow fuel hfuel ops hwf

/-- **C02 about the Go text of OSAP, `computeEdges` translated** -/
theorem C02_go_text_osap_ce_go (cfg : Gen.OSAPConfig) (s0 : Gen.optSuffixArrayParser)
    (hinit : optSuffixArrayParser_init default cfg = Res.ok (s0, Gen.Err.ok))
    (h32 : s0.OSAPConfig.MinMatchLen < 4294967296) (sp : EdgeSpecs SS LCP SEG SRT)
    (grow : Nat → Nat → Nat) (fuelE : Nat) (hfE : 2147483648 ≤ fuelE) (extra fuel : Nat)
    (hfuel : s0.ParserBuffer.BufConfig.BufferSize.toNat + 2147483647 + 5 ≤ fuel)
    (ops : List GOpR) (hwf : ∀ op ∈ ops, op.WF) :
    ∃ t rs, runO extra grow fuel (ceGo grow fuelE SS LCP SEG SRT) s0 ops = Res.ok (t, rs) ∧
      LogAll (fun pos e => ∀ n fl blk, e = .block n fl blk →
        SeqsAll (SeqWF s0.ParserBuffer.BufConfig.WindowSize.toNat s0.OSAPConfig.MinMatchLen.toNat) pos blk.seqs ∧
        litSum blk.seqs ≤ blk.lits.length) 0 (ghostRunR Ghost.init ops rs).log := by
  rw [runO_go_init cfg s0 hinit h32 sp grow fuelE hfE extra fuel hfuel ops hwf]
  exact C02_go_text_osap 2147483647 cfg s0 hinit h32 _ (cespec_go sp grow fuelE hfE) extra grow fuel hfuel ops hwf

/-- **C03 about the Go text of OSAP, `computeEdges` translated** -/
theorem C03_go_text_osap_ce_go (cfg : Gen.OSAPConfig) (s0 : Gen.optSuffixArrayParser)
    (hinit : optSuffixArrayParser_init default cfg = Res.ok (s0, Gen.Err.ok))
    (h32 : s0.OSAPConfig.MinMatchLen < 4294967296) (sp : EdgeSpecs SS LCP SEG SRT)
    (grow : Nat → Nat → Nat) (fuelE : Nat) (hfE : 2147483648 ≤ fuelE) (extra fuel : Nat)
    (hfuel : s0.ParserBuffer.BufConfig.BufferSize.toNat + 2147483647 + 5 ≤ fuel)
    (ops : List GOpR) (hwf : ∀ op ∈ ops, op.WF) :
    ∃ t rs, runO extra grow fuel (ceGo grow fuelE SS LCP SEG SRT) s0 ops = Res.ok (t, rs) ∧
      let g := ghostRunR Ghost.init ops rs
      LogAll (fun pos e => 1 ≤ e.n ∧ e.n ≤ s0.ParserBuffer.BufConfig.BlockSize.toNat ∧
        pos + e.n ≤ g.fed.length ∧
        ∀ n fl blk, e = .block n fl blk →
          blk.len = n ∧ expand (g.fed.take pos) blk = some (g.fed.take (pos + n)) ∧
          (fl % 2 = 1 → blk.seqs ≠ [] → blk.lits.length = litSum blk.seqs ∧ n = seqsSpan blk.seqs)) 0 g.log ∧
      logSpan g.log = g.consumed ∧ g.consumed ≤ g.fed.length := by
  rw [runO_go_init cfg s0 hinit h32 sp grow fuelE hfE extra fuel hfuel ops hwf]
  exact C03_go_text_osap 2147483647 cfg s0 hinit h32 _ (cespec_go sp grow fuelE hfE) extra grow fuel hfuel ops hwf

/-- **C11 about the Go text of OSAP, `computeEdges` translated**: the statement of `C11_go_text_osap` with the translated
    `computeEdges` as the callee of the history AND of the final `Parse`. -/
theorem C11_go_text_osap_ce_go (cfg : Gen.OSAPConfig) (s0 : Gen.optSuffixArrayParser)
    (hinit : optSuffixArrayParser_init default cfg = Res.ok (s0, Gen.Err.ok))
    (h32 : s0.OSAPConfig.MinMatchLen < 4294967296) (sp : EdgeSpecs SS LCP SEG SRT)
    (grow : Nat → Nat → Nat) (fuelE : Nat) (hfE : 2147483648 ≤ fuelE) (extra fuel : Nat)
    (hfuel : s0.ParserBuffer.BufConfig.BufferSize.toNat + 2147483647 + 5 ≤ fuel)
    (ops : List GOpR) (hwf : ∀ op ∈ ops, op.WF) (blk : Gen.Block') (flags : Int) (hfl : 0 ≤ flags)
    (hev : flags % 2 = 0) :
    ∃ t rs t' blk' n e, runO extra grow fuel (ceGo grow fuelE SS LCP SEG SRT) s0 ops = Res.ok (t, rs) ∧
      optSuffixArrayParser_Parse grow fuel (ceGo grow fuelE SS LCP SEG SRT) t blk flags = Res.ok (t', blk', n, e) ∧
      (blockLen t ≠ 0 →
        let W := t.ParserBuffer.W.toNat
        let p := t.ParserBuffer.Data.data.take (W + blockLen t)
        let ws := t.ParserBuffer.BufConfig.WindowSize.toNat
        let mm := t.OSAPConfig.MinMatchLen.toNat
        let mx := t.OSAPConfig.MaxMatchLen.toNat
        n = (blockLen t : Int) ∧ e = Gen.Err.ok ∧
        ∃ π, Sap.LzParse p W ws mm mx (blockLen t) π ∧ ofBlock blk' = renderPath p W π ∧
          Sap.blockCost (ofBlock blk') = Sap.pathCost π ∧
          ∀ π', Sap.LzParse p W ws mm mx (blockLen t) π' → Sap.pathCost π ≤ Sap.pathCost π') := by
  obtain ⟨t, rs, t', blk', n, e, k1, k2, k3⟩ := C11_go_text_osap 2147483647 cfg s0 hinit h32 _ (cespec_go sp grow fuelE hfE)
    extra grow fuel hfuel ops hwf blk flags hfl hev
  obtain ⟨p, t2, rs2, hp, h2, j1, hbc, j2, -⟩ := gen_osap_history_inv 2147483647 cfg s0 hinit h32 _ (cespec_go sp grow fuelE hfE)
    extra grow fuel hfuel ops hwf
  rw [k1] at j1
  injection j1 with j1
  injection j1 with j1 _
  subst j1
  refine ⟨t, rs, t', blk', n, e, ?_, ?_, k3⟩
  · rw [runO_go_init cfg s0 hinit h32 sp grow fuelE hfE extra fuel hfuel ops hwf]; exact k1
  · rw [parse_congr grow fuel _ _ t (ceW_eq hbc grow fuelE j2)]; exact k2

end

end LZ.GenOSAPHist

#print axioms LZ.GenOSAPHist.cespec_go_small
#print axioms LZ.GenOSAPHist.cespec_go
#print axioms LZ.GenOSAPHist.parse_congr
#print axioms LZ.GenOSAPHist.runO_go
#print axioms LZ.GenOSAPHist.gen_osap_history_ce_go
#print axioms LZ.GenOSAPHist.C01_go_text_osap_ce_go
#print axioms LZ.GenOSAPHist.C02_go_text_osap_ce_go
#print axioms LZ.GenOSAPHist.C03_go_text_osap_ce_go
#print axioms LZ.GenOSAPHist.C11_go_text_osap_ce_go
