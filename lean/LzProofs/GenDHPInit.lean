/-
  LzProofs.GenDHPInit — initialisation of the double hash parsers DHP and BDHP: the model (`newParser .DHP`,
  `newParser .BDHP`; LzModel/Parser.lean) equals the mechanical translation of
      hash.go  doubleHashDictionary.init    (CodeDHashDict.lean)
      dhp.go   doubleHashParser.init        (CodeDHPInit.lean)
      bdhp.go  bdhp.init                    (CodeBDHPInit.lean)
  and the translated `init` on the zero value establishes the invariant bundles `ParseOKD` / `ParseOKBD` of
  `gen_dhp_parse` / `gen_bdhp_parse` (non-vacuity of their hypotheses).  Closes "translated, no theorem yet" of
  GenHashPropsDict2.lean / notes/parse-translate.md §8.  No sorry, no axioms of its own.

      gen_ddict_init          doubleHashDictionary.init on configurations that are `SetDefaults` images and verify:
                              buffer = `PBuf.init` (capacity of the receiver's old array), tables = `HashT.new`
      gen_dhp_init            doubleHashParser.init(cfg) vs newParser .DHP: rejected configurations leave the
                              receiver unchanged and return an error; accepted ones yield the model's fresh parser
      gen_dhp_init_fresh      … for the receiver `new(doubleHashParser)`: exactly the model's fresh parser
      gen_dhp_init_parseOK    … and `ParseOKD` holds
      gen_bdhp_init, gen_bdhp_init_fresh, gen_bdhp_init_parseOK    the same for bdhp.go (`ParseOKBD`)
  The proofs follow `gen_hp_init*` (GenHashPropsDict.lean, GenHPParse.lean) and `gen_bhp_init*` (GenBHPHist.lean).
-/
import LzModel.Generated.CodeDHPInit
import LzModel.Generated.CodeBDHPInit
import LzProofs.GenHashPropsDict2
import LzProofs.GenPropsCfgDHP
import LzProofs.GenPropsCfgBDHP
import LzProofs.GenDHPParse
import LzProofs.GenBDHPParse
import LzProofs.ParseProps

set_option linter.unusedSimpArgs false
set_option linter.unusedVariables false

namespace LZ.GenDHPInit
open LZ LZ.Gen LZ.GenBuf LZ.GenHash LZ.GenProps LZ.GenDHPParse LZ.GenBDHPParse

/-! ## `dhConfig.SetDefaults` is idempotent -/

theorem dhDefaults_idem (d : Gen.dhConfig) :
    dhConfig_SetDefaults (dhConfig_SetDefaults d) = dhConfig_SetDefaults d := by
  obtain ⟨⟨il1, hb1⟩, ⟨il2, hb2⟩⟩ := d
  simp only [dhConfig_SetDefaults, hashConfig_SetDefaults]
  by_cases a : il1 = 0 <;> by_cases b : hb1 = 0 <;> by_cases c : il2 = 0 <;> by_cases e : hb2 = 0 <;>
    by_cases f : il1 < 5 <;> simp [a, b, c, e, f]

theorem dhVerify_parts (d : Gen.dhConfig) (h : dhConfig_Verify d = Gen.Err.ok) :
    InitOK d.H1.InputLen d.H1.HashBits ∧ InitOK d.H2.InputLen d.H2.HashBits ∧ d.H1.InputLen < d.H2.InputLen := by
  have := (gen_dhVerify d).mp h
  simp only [Bool.and_eq_true, decide_eq_true_eq] at this
  obtain ⟨⟨a, b⟩, c⟩ := this
  exact ⟨hashVerify_initOK _ ((gen_hashVerify _).mpr a), hashVerify_initOK _ ((gen_hashVerify _).mpr b), c⟩

/-! ## `doubleHashDictionary.init` -/

/-- hash.go `doubleHashDictionary.init(cfg, bcfg)` for configurations that `SetDefaults` leaves alone and `Verify`
    accepts (what `doubleHashParser.init` / `bdhp.init` pass after their own `SetDefaults` / `Verify`) -/
theorem gen_ddict_init (f : Gen.doubleHashDictionary) (dc : Gen.dhConfig) (bc : Gen.BufConfig)
    (hw1 : GWF f.h1.table) (hw2 : GWF f.h2.table)
    (hbi : BufConfig_SetDefaults bc = bc) (hvb : BufConfig_Verify bc = Gen.Err.ok)
    (hdi : dhConfig_SetDefaults dc = dc) (hvd : dhConfig_Verify dc = Gen.Err.ok) :
    ∃ f', doubleHashDictionary_init f dc bc = Res.ok (f', Gen.Err.ok) ∧
      ofPB f'.ParserBuffer = { PBuf.init (ofCfg bc) with cap := f.ParserBuffer.Data.cap } ∧
      ofHash f'.h1 = HashT.new dc.H1.InputLen.toNat dc.H1.HashBits.toNat ∧
      ofHash f'.h2 = HashT.new dc.H2.InputLen.toNat dc.H2.HashBits.toNat ∧ DDictWF f' := by
  obtain ⟨i1, i2, _⟩ := dhVerify_parts dc hvd
  obtain ⟨pb', hpi, hofpb, hpwf⟩ := (gen_pbuf_init f.ParserBuffer bc).2 (by rw [hbi]; exact hvb)
  obtain ⟨g1, hg1, hof1, hwf1⟩ := gen_hash_init f.h1 dc.H1.InputLen dc.H1.HashBits hw1 i1
  obtain ⟨g2, hg2, hof2, hwf2⟩ := gen_hash_init f.h2 dc.H2.InputLen dc.H2.HashBits hw2 i2
  unfold doubleHashDictionary_init
  simp only [hpi, bind_ok, ne_eq, not_true_eq_false, if_false, hdi, hvd, hg1, hg2]
  rw [hbi] at hofpb
  exact ⟨_, rfl, hofpb, hof1, hof2, ⟨hpwf, hwf1, hwf2⟩⟩

/-! ## DHP -/

/-- `doubleHashParser.init(cfg)`: `raw` is the configuration as the model sees it (`toDHP raw` the Go struct with
    the fields of `raw` that DHPConfig has) -/
theorem gen_dhp_init (s : Gen.doubleHashParser) (raw : Cfg) (hw1 : GWF s.doubleHashDictionary.h1.table)
    (hw2 : GWF s.doubleHashDictionary.h2.table) :
    match newParser .DHP raw with
    | none => ∃ e, doubleHashParser_init s (toDHP raw) = Res.ok (s, e) ∧ e ≠ Gen.Err.ok
    | some p => ∃ s', doubleHashParser_init s (toDHP raw) = Res.ok (s', Gen.Err.ok) ∧
        ofDHPs s' = { p with buf := { p.buf with cap := s.doubleHashDictionary.ParserBuffer.Data.cap } } ∧
        DDictWF s'.doubleHashDictionary := by
  have hc : ofDHP (DHPConfig_SetDefaults (toDHP raw)) = setDefaults .DHP (raw.restrict .DHP) := by
    rw [gen_setDefaults_DHP, ofDHP_toDHP]
  have hv := gen_verify_DHP (DHPConfig_SetDefaults (toDHP raw))
  rw [hc] at hv
  unfold newParser
  simp only []
  by_cases hok : DHPConfig_Verify (DHPConfig_SetDefaults (toDHP raw)) = Gen.Err.ok
  · have hvm : verify .DHP (setDefaults .DHP (raw.restrict .DHP)) = true := hv.mp hok
    simp only [hvm, if_true]
    unfold doubleHashParser_init
    dsimp only
    have hparts : BufConfig_Verify ⟨(DHPConfig_SetDefaults (toDHP raw)).ShrinkSize, (DHPConfig_SetDefaults (toDHP raw)).BufferSize,
          (DHPConfig_SetDefaults (toDHP raw)).WindowSize, (DHPConfig_SetDefaults (toDHP raw)).BlockSize⟩ = Gen.Err.ok ∧
        dhConfig_Verify ⟨⟨(DHPConfig_SetDefaults (toDHP raw)).InputLen1, (DHPConfig_SetDefaults (toDHP raw)).HashBits1⟩,
          ⟨(DHPConfig_SetDefaults (toDHP raw)).InputLen2, (DHPConfig_SetDefaults (toDHP raw)).HashBits2⟩⟩ = Gen.Err.ok := by
      have := hok
      simp only [DHPConfig_Verify] at this
      split at this
      · rename_i hne; exact absurd this hne
      · rename_i hne
        refine ⟨Classical.not_not.mp hne, ?_⟩
        split at this
        · rename_i hne2; exact absurd this hne2
        · rename_i hne2; exact Classical.not_not.mp hne2
    have hbc : ∃ b0 : Gen.BufConfig, (⟨(DHPConfig_SetDefaults (toDHP raw)).ShrinkSize, (DHPConfig_SetDefaults (toDHP raw)).BufferSize,
          (DHPConfig_SetDefaults (toDHP raw)).WindowSize, (DHPConfig_SetDefaults (toDHP raw)).BlockSize⟩ : Gen.BufConfig) =
        BufConfig_SetDefaults b0 := ⟨_, rfl⟩
    have hhc : ∃ d0 : Gen.dhConfig, (⟨⟨(DHPConfig_SetDefaults (toDHP raw)).InputLen1, (DHPConfig_SetDefaults (toDHP raw)).HashBits1⟩,
          ⟨(DHPConfig_SetDefaults (toDHP raw)).InputLen2, (DHPConfig_SetDefaults (toDHP raw)).HashBits2⟩⟩ : Gen.dhConfig) =
        dhConfig_SetDefaults d0 := ⟨_, rfl⟩
    generalize DHPConfig_SetDefaults (toDHP raw) = c' at *
    obtain ⟨hvb, hvh⟩ := hparts
    obtain ⟨b0, hb0⟩ := hbc
    obtain ⟨d0, hd0⟩ := hhc
    have hbi : BufConfig_SetDefaults ⟨c'.ShrinkSize, c'.BufferSize, c'.WindowSize, c'.BlockSize⟩ =
        ⟨c'.ShrinkSize, c'.BufferSize, c'.WindowSize, c'.BlockSize⟩ := by rw [hb0, bufDefaults_idem]
    have hdi : dhConfig_SetDefaults ⟨⟨c'.InputLen1, c'.HashBits1⟩, ⟨c'.InputLen2, c'.HashBits2⟩⟩ =
        ⟨⟨c'.InputLen1, c'.HashBits1⟩, ⟨c'.InputLen2, c'.HashBits2⟩⟩ := by rw [hd0, dhDefaults_idem]
    obtain ⟨f', hf, hofpb, hof1, hof2, hwf⟩ := gen_ddict_init s.doubleHashDictionary
      ⟨⟨c'.InputLen1, c'.HashBits1⟩, ⟨c'.InputLen2, c'.HashBits2⟩⟩
      ⟨c'.ShrinkSize, c'.BufferSize, c'.WindowSize, c'.BlockSize⟩ hw1 hw2 hbi hvb hdi hvh
    simp only [hok, ne_eq, not_true_eq_false, if_false, hf, bind_ok]
    refine ⟨_, rfl, ?_, hwf⟩
    simp only [ofDHPs, ofDDict, hofpb, hof1, hof2, freshDict, ← hc]
    rfl
  · have hvm : ¬ verify .DHP (setDefaults .DHP (raw.restrict .DHP)) = true := fun c => hok (hv.mpr c)
    simp only [hvm, if_false]
    unfold doubleHashParser_init
    simp only [hok, ne_eq, not_false_eq_true, if_true]
    exact ⟨_, rfl, hok⟩

/-- … for the receiver `new(doubleHashParser)` (all fields zero): exactly the model's fresh parser -/
theorem gen_dhp_init_fresh (raw : Cfg) (p : Parser) (hp : newParser .DHP raw = some p) :
    ∃ s', doubleHashParser_init default (toDHP raw) = Res.ok (s', Gen.Err.ok) ∧ ofDHPs s' = p ∧
      DDictWF s'.doubleHashDictionary := by
  have := gen_dhp_init default raw (by unfold GWF; exact Nat.le_refl 0) (by unfold GWF; exact Nat.le_refl 0)
  rw [hp] at this
  obtain ⟨s', h1, h2, h3⟩ := this
  refine ⟨s', h1, ?_, h3⟩
  rw [h2]
  unfold newParser at hp
  simp only [] at hp
  split at hp
  · simp only [Option.some.injEq] at hp
    subst hp; rfl
  · exact absurd hp (by simp)

/-- what `verify` of a double-hash kind says about the two hash configurations -/
theorem verify_double (k : Kind) (hk : k = .DHP ∨ k = .BDHP) (c : Cfg) (hv : verify k c = true) :
    (2 ≤ c.inputLen1 ∧ c.inputLen1 ≤ 8 ∧ 0 ≤ c.hashBits1 ∧ c.hashBits1 ≤ 24) ∧
    (2 ≤ c.inputLen2 ∧ c.inputLen2 ≤ 8 ∧ 0 ≤ c.hashBits2 ∧ c.hashBits2 ≤ 24) ∧ c.inputLen1 < c.inputLen2 := by
  have h : (hashVerify c.inputLen1 c.hashBits1 Facts.maxHashBits = true ∧
      hashVerify c.inputLen2 c.hashBits2 Facts.maxHashBits = true) ∧ c.inputLen1 < c.inputLen2 := by
    rcases hk with rfl | rfl <;>
      (simp only [verify, Bool.and_eq_true, decide_eq_true_eq] at hv; exact ⟨⟨hv.1.1.2, hv.1.2⟩, hv.2⟩)
  obtain ⟨⟨a, b⟩, c3⟩ := h
  rw [hashVerify_iff] at a b
  simp only [Facts.maxHashBits] at a b
  obtain ⟨⟨a1, a2⟩, a3, a4⟩ := a
  obtain ⟨⟨b1, b2⟩, b3, b4⟩ := b
  refine ⟨⟨a1, a2, a3, ?_⟩, ⟨b1, b2, b3, ?_⟩, c3⟩
  · by_cases h : 8 * c.inputLen1 < 24 <;> simp only [h, if_true, if_false] at a4 <;> omega
  · by_cases h : 8 * c.inputLen2 < 24 <;> simp only [h, if_true, if_false] at b4 <;> omega

/-- **`ParseOKD` is what `init` establishes** (non-vacuity of the hypotheses of `gen_dhp_parse`) -/
theorem gen_dhp_init_parseOK (raw : Cfg) (p : Parser) (hp : newParser .DHP raw = some p) :
    ∃ s', doubleHashParser_init default (toDHP raw) = Res.ok (s', Gen.Err.ok) ∧ ofDHPs s' = p ∧ ParseOKD s' := by
  obtain ⟨s', h1, h2, h3⟩ := gen_dhp_init_fresh raw p hp
  refine ⟨s', h1, h2, ?_⟩
  unfold newParser at hp
  simp only [] at hp
  split at hp
  · rename_i hv
    simp only [Option.some.injEq] at hp
    subst hp
    generalize setDefaults .DHP (raw.restrict .DHP) = c at hv h2
    obtain ⟨⟨a1, a2, a3, a4⟩, ⟨b1, b2, b3, b4⟩, c3⟩ := verify_double .DHP (Or.inl rfl) c hv
    obtain ⟨_, hbs⟩ := verify_static .DHP c hv
    have hcfg : ofDHP s'.DHPConfig = c := congrArg Parser.cfg h2
    have hbuf : ofPB s'.doubleHashDictionary.ParserBuffer = PBuf.init c.bufCfg := congrArg Parser.buf h2
    have hdict : Dict.double ⟨ofHash s'.doubleHashDictionary.h1, ofHash s'.doubleHashDictionary.h2⟩ =
        Dict.double ⟨HashT.new c.inputLen1.toNat c.hashBits1.toNat, HashT.new c.inputLen2.toNat c.hashBits2.toNat⟩ :=
      congrArg Parser.dict h2
    injection hdict with hdict
    injection hdict with hd1 hd2
    have hws : s'.doubleHashDictionary.ParserBuffer.BufConfig.WindowSize.toNat = c.windowSize.toNat :=
      congrArg (fun b => b.cfg.windowSize) hbuf
    have hbl : s'.doubleHashDictionary.ParserBuffer.BufConfig.BlockSize.toNat = c.blockSize.toNat :=
      congrArg (fun b => b.cfg.blockSize) hbuf
    have hw : s'.doubleHashDictionary.ParserBuffer.W.toNat = 0 := congrArg PBuf.w hbuf
    have hd : s'.doubleHashDictionary.ParserBuffer.Data.data = [] := congrArg PBuf.data hbuf
    have hil1 : s'.doubleHashDictionary.h1.inputLen.toNat = c.inputLen1.toNat := congrArg HashT.inputLen hd1
    have hil2 : s'.doubleHashDictionary.h2.inputLen.toNat = c.inputLen2.toNat := congrArg HashT.inputLen hd2
    have hhb1 : 64 - s'.doubleHashDictionary.h1.shift.toNat = c.hashBits1.toNat := congrArg HashT.hashBits hd1
    have hhb2 : 64 - s'.doubleHashDictionary.h2.shift.toNat = c.hashBits2.toNat := congrArg HashT.hashBits hd2
    have cW : s'.DHPConfig.WindowSize = c.windowSize := congrArg Cfg.windowSize hcfg
    have cB : s'.DHPConfig.BlockSize = c.blockSize := congrArg Cfg.blockSize hcfg
    have cI : s'.DHPConfig.InputLen1 = c.inputLen1 := congrArg Cfg.inputLen1 hcfg
    have hlen : s'.doubleHashDictionary.ParserBuffer.Data.len = 0 := by
      have := data_length h3.1.data
      rw [hd] at this; exact this.symm
    have hbs' : 1 ≤ c.blockSize.toNat := hbs
    have hw0 := h3.1.w
    have hs641 := h3.2.1.2.2.2.1
    have hs642 := h3.2.2.2.2.2.1
    have hi01 := h3.2.1.2.1
    have hi02 := h3.2.2.2.1
    exact ⟨h3, by rw [cW, hws], by rw [cB, hbl], by rw [cI, hil1], by rw [cB]; omega, by rw [hlen]; omega,
      by omega, by omega, by omega, by omega, by rw [hlen]; decide⟩
  · exact absurd hp (by simp)

/-! ## BDHP (bdhp.go `init` is dhp.go `init` modulo the type names, and so are the proofs) -/

/-- `bdhp.init(cfg)`: `raw` is the configuration as the model sees it (`toBDHP raw` the Go struct with
    the fields of `raw` that BDHPConfig has) -/
theorem gen_bdhp_init (s : Gen.bdhp) (raw : Cfg) (hw1 : GWF s.doubleHashDictionary.h1.table)
    (hw2 : GWF s.doubleHashDictionary.h2.table) :
    match newParser .BDHP raw with
    | none => ∃ e, bdhp_init s (toBDHP raw) = Res.ok (s, e) ∧ e ≠ Gen.Err.ok
    | some p => ∃ s', bdhp_init s (toBDHP raw) = Res.ok (s', Gen.Err.ok) ∧
        ofBDHPs s' = { p with buf := { p.buf with cap := s.doubleHashDictionary.ParserBuffer.Data.cap } } ∧
        DDictWF s'.doubleHashDictionary := by
  have hc : ofBDHP (BDHPConfig_SetDefaults (toBDHP raw)) = setDefaults .BDHP (raw.restrict .BDHP) := by
    rw [gen_setDefaults_BDHP, ofBDHP_toBDHP]
  have hv := gen_verify_BDHP (BDHPConfig_SetDefaults (toBDHP raw))
  rw [hc] at hv
  unfold newParser
  simp only []
  by_cases hok : BDHPConfig_Verify (BDHPConfig_SetDefaults (toBDHP raw)) = Gen.Err.ok
  · have hvm : verify .BDHP (setDefaults .BDHP (raw.restrict .BDHP)) = true := hv.mp hok
    simp only [hvm, if_true]
    unfold bdhp_init
    dsimp only
    have hparts : BufConfig_Verify ⟨(BDHPConfig_SetDefaults (toBDHP raw)).ShrinkSize, (BDHPConfig_SetDefaults (toBDHP raw)).BufferSize,
          (BDHPConfig_SetDefaults (toBDHP raw)).WindowSize, (BDHPConfig_SetDefaults (toBDHP raw)).BlockSize⟩ = Gen.Err.ok ∧
        dhConfig_Verify ⟨⟨(BDHPConfig_SetDefaults (toBDHP raw)).InputLen1, (BDHPConfig_SetDefaults (toBDHP raw)).HashBits1⟩,
          ⟨(BDHPConfig_SetDefaults (toBDHP raw)).InputLen2, (BDHPConfig_SetDefaults (toBDHP raw)).HashBits2⟩⟩ = Gen.Err.ok := by
      have := hok
      simp only [BDHPConfig_Verify] at this
      split at this
      · rename_i hne; exact absurd this hne
      · rename_i hne
        refine ⟨Classical.not_not.mp hne, ?_⟩
        split at this
        · rename_i hne2; exact absurd this hne2
        · rename_i hne2; exact Classical.not_not.mp hne2
    have hbc : ∃ b0 : Gen.BufConfig, (⟨(BDHPConfig_SetDefaults (toBDHP raw)).ShrinkSize, (BDHPConfig_SetDefaults (toBDHP raw)).BufferSize,
          (BDHPConfig_SetDefaults (toBDHP raw)).WindowSize, (BDHPConfig_SetDefaults (toBDHP raw)).BlockSize⟩ : Gen.BufConfig) =
        BufConfig_SetDefaults b0 := ⟨_, rfl⟩
    have hhc : ∃ d0 : Gen.dhConfig, (⟨⟨(BDHPConfig_SetDefaults (toBDHP raw)).InputLen1, (BDHPConfig_SetDefaults (toBDHP raw)).HashBits1⟩,
          ⟨(BDHPConfig_SetDefaults (toBDHP raw)).InputLen2, (BDHPConfig_SetDefaults (toBDHP raw)).HashBits2⟩⟩ : Gen.dhConfig) =
        dhConfig_SetDefaults d0 := ⟨_, rfl⟩
    generalize BDHPConfig_SetDefaults (toBDHP raw) = c' at *
    obtain ⟨hvb, hvh⟩ := hparts
    obtain ⟨b0, hb0⟩ := hbc
    obtain ⟨d0, hd0⟩ := hhc
    have hbi : BufConfig_SetDefaults ⟨c'.ShrinkSize, c'.BufferSize, c'.WindowSize, c'.BlockSize⟩ =
        ⟨c'.ShrinkSize, c'.BufferSize, c'.WindowSize, c'.BlockSize⟩ := by rw [hb0, bufDefaults_idem]
    have hdi : dhConfig_SetDefaults ⟨⟨c'.InputLen1, c'.HashBits1⟩, ⟨c'.InputLen2, c'.HashBits2⟩⟩ =
        ⟨⟨c'.InputLen1, c'.HashBits1⟩, ⟨c'.InputLen2, c'.HashBits2⟩⟩ := by rw [hd0, dhDefaults_idem]
    obtain ⟨f', hf, hofpb, hof1, hof2, hwf⟩ := gen_ddict_init s.doubleHashDictionary
      ⟨⟨c'.InputLen1, c'.HashBits1⟩, ⟨c'.InputLen2, c'.HashBits2⟩⟩
      ⟨c'.ShrinkSize, c'.BufferSize, c'.WindowSize, c'.BlockSize⟩ hw1 hw2 hbi hvb hdi hvh
    simp only [hok, ne_eq, not_true_eq_false, if_false, hf, bind_ok]
    refine ⟨_, rfl, ?_, hwf⟩
    simp only [ofBDHPs, ofDDict, hofpb, hof1, hof2, freshDict, ← hc]
    rfl
  · have hvm : ¬ verify .BDHP (setDefaults .BDHP (raw.restrict .BDHP)) = true := fun c => hok (hv.mpr c)
    simp only [hvm, if_false]
    unfold bdhp_init
    simp only [hok, ne_eq, not_false_eq_true, if_true]
    exact ⟨_, rfl, hok⟩

/-- … for the receiver `new(bdhp)` (all fields zero): exactly the model's fresh parser -/
theorem gen_bdhp_init_fresh (raw : Cfg) (p : Parser) (hp : newParser .BDHP raw = some p) :
    ∃ s', bdhp_init default (toBDHP raw) = Res.ok (s', Gen.Err.ok) ∧ ofBDHPs s' = p ∧
      DDictWF s'.doubleHashDictionary := by
  have := gen_bdhp_init default raw (by unfold GWF; exact Nat.le_refl 0) (by unfold GWF; exact Nat.le_refl 0)
  rw [hp] at this
  obtain ⟨s', h1, h2, h3⟩ := this
  refine ⟨s', h1, ?_, h3⟩
  rw [h2]
  unfold newParser at hp
  simp only [] at hp
  split at hp
  · simp only [Option.some.injEq] at hp
    subst hp; rfl
  · exact absurd hp (by simp)

/-- **`ParseOKBD` is what `init` establishes** (non-vacuity of the hypotheses of `gen_bdhp_parse`) -/
theorem gen_bdhp_init_parseOK (raw : Cfg) (p : Parser) (hp : newParser .BDHP raw = some p) :
    ∃ s', bdhp_init default (toBDHP raw) = Res.ok (s', Gen.Err.ok) ∧ ofBDHPs s' = p ∧ ParseOKBD s' := by
  obtain ⟨s', h1, h2, h3⟩ := gen_bdhp_init_fresh raw p hp
  refine ⟨s', h1, h2, ?_⟩
  unfold newParser at hp
  simp only [] at hp
  split at hp
  · rename_i hv
    simp only [Option.some.injEq] at hp
    subst hp
    generalize setDefaults .BDHP (raw.restrict .BDHP) = c at hv h2
    obtain ⟨⟨a1, a2, a3, a4⟩, ⟨b1, b2, b3, b4⟩, c3⟩ := verify_double .BDHP (Or.inr rfl) c hv
    obtain ⟨_, hbs⟩ := verify_static .BDHP c hv
    have hcfg : ofBDHP s'.BDHPConfig = c := congrArg Parser.cfg h2
    have hbuf : ofPB s'.doubleHashDictionary.ParserBuffer = PBuf.init c.bufCfg := congrArg Parser.buf h2
    have hdict : Dict.double ⟨ofHash s'.doubleHashDictionary.h1, ofHash s'.doubleHashDictionary.h2⟩ =
        Dict.double ⟨HashT.new c.inputLen1.toNat c.hashBits1.toNat, HashT.new c.inputLen2.toNat c.hashBits2.toNat⟩ :=
      congrArg Parser.dict h2
    injection hdict with hdict
    injection hdict with hd1 hd2
    have hws : s'.doubleHashDictionary.ParserBuffer.BufConfig.WindowSize.toNat = c.windowSize.toNat :=
      congrArg (fun b => b.cfg.windowSize) hbuf
    have hbl : s'.doubleHashDictionary.ParserBuffer.BufConfig.BlockSize.toNat = c.blockSize.toNat :=
      congrArg (fun b => b.cfg.blockSize) hbuf
    have hw : s'.doubleHashDictionary.ParserBuffer.W.toNat = 0 := congrArg PBuf.w hbuf
    have hd : s'.doubleHashDictionary.ParserBuffer.Data.data = [] := congrArg PBuf.data hbuf
    have hil1 : s'.doubleHashDictionary.h1.inputLen.toNat = c.inputLen1.toNat := congrArg HashT.inputLen hd1
    have hil2 : s'.doubleHashDictionary.h2.inputLen.toNat = c.inputLen2.toNat := congrArg HashT.inputLen hd2
    have hhb1 : 64 - s'.doubleHashDictionary.h1.shift.toNat = c.hashBits1.toNat := congrArg HashT.hashBits hd1
    have hhb2 : 64 - s'.doubleHashDictionary.h2.shift.toNat = c.hashBits2.toNat := congrArg HashT.hashBits hd2
    have cW : s'.BDHPConfig.WindowSize = c.windowSize := congrArg Cfg.windowSize hcfg
    have cB : s'.BDHPConfig.BlockSize = c.blockSize := congrArg Cfg.blockSize hcfg
    have cI : s'.BDHPConfig.InputLen1 = c.inputLen1 := congrArg Cfg.inputLen1 hcfg
    have hlen : s'.doubleHashDictionary.ParserBuffer.Data.len = 0 := by
      have := data_length h3.1.data
      rw [hd] at this; exact this.symm
    have hbs' : 1 ≤ c.blockSize.toNat := hbs
    have hw0 := h3.1.w
    have hs641 := h3.2.1.2.2.2.1
    have hs642 := h3.2.2.2.2.2.1
    have hi01 := h3.2.1.2.1
    have hi02 := h3.2.2.2.1
    exact ⟨h3, by rw [cW, hws], by rw [cB, hbl], by rw [cI, hil1], by rw [cB]; omega, by rw [hlen]; omega,
      by omega, by omega, by omega, by omega, by rw [hlen]; decide⟩
  · exact absurd hp (by simp)

end LZ.GenDHPInit

#print axioms LZ.GenDHPInit.gen_ddict_init
#print axioms LZ.GenDHPInit.gen_dhp_init
#print axioms LZ.GenDHPInit.gen_dhp_init_fresh
#print axioms LZ.GenDHPInit.gen_dhp_init_parseOK
#print axioms LZ.GenDHPInit.gen_bdhp_init
#print axioms LZ.GenDHPInit.gen_bdhp_init_fresh
#print axioms LZ.GenDHPInit.gen_bdhp_init_parseOK
