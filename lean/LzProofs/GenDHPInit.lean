/-
  LzProofs.GenDHPInit — initialisation of the double hash parsers DHP and BDHP: the model (`newParser .DHP`,
  `newParser .BDHP`; LzModel/Parser.lean) equals the mechanical translation of
      hash.go  doubleHashDictionary.init    (CodeDHashDict.lean)
      dhp.go   doubleHashParser.init        (CodeDHPInit.lean)
      bdhp.go  bdhp.init                    (CodeBDHPInit.lean)
  and the translated `init` on the zero value establishes the invariant bundles `ParseOKD` / `ParseOKBD` of
  `gen_dhp_parse` / `gen_bdhp_parse` (non-vacuity of their hypotheses).  Closes "translated, no theorem yet" of
  GenHashPropsDict2.lean / notes/parse-translate.md §8.  No sorry, no axioms of its own.

      gen_ddict_init          doubleHashDictionary.init on configurations that are `SetDefaults` images and verify:
                              buffer = `PBuf.init` (capacity of the receiver's old array), tables = `HashT.new`
      gen_dhp_init            doubleHashParser.init(cfg) vs newParser .DHP: rejected configurations leave the
                              receiver unchanged and return an error; accepted ones yield the model's fresh parser
      gen_dhp_init_fresh      … for the receiver `new(doubleHashParser)`: exactly the model's fresh parser
      gen_dhp_init_parseOK    … and `ParseOKD` holds
      gen_bdhp_init, gen_bdhp_init_fresh, gen_bdhp_init_parseOK    the same for bdhp.go (`ParseOKBD`)
  The proofs follow `gen_hp_init*` (GenHashPropsDict.lean, GenHPParse.lean) and `gen_bhp_init*` (GenBHPHist.lean).
  Shape independence: what the configurations satisfy after `SetDefaults` / `Verify` is derived from the MODEL through the
  ties of the configuration topics (`double_buf_fix`, `double_dh_fix`, `double_verify_parts`); only the three `init`
  functions are unfolded, and their `err` tests are decided by `init_simp` from the VALUE of `err`, in any spelling.
-/
import LzModel.Generated.CodeDHPInit
import LzModel.Generated.CodeBDHPInit
import LzProofs.GenHashPropsDict2
import LzProofs.GenPropsCfgDHP
import LzProofs.GenPropsCfgBDHP
import LzProofs.GenDHPParse
import LzProofs.GenBDHPParse
import LzProofs.ParseProps
import LzProofs.ConfigLemmas

set_option linter.unusedSimpArgs false
set_option linter.unusedVariables false

namespace LZ.GenDHPInit
open LZ LZ.Gen LZ.GenBuf LZ.GenHash LZ.GenProps LZ.GenDHPParse LZ.GenBDHPParse

/-! ## `dhConfig.SetDefaults` is idempotent

    Derived from the tie `gen_dhDefaults` (LzProofs/GenPropsCfgHash.lean: the generated function equals the double-hash
    part of the model's `setDefaults .DHP`) and a computation in the MODEL; the generated function is not unfolded
    here, so the spelling of its tests (`il1 < 5` / `il1 >= 5` with swapped arms, order of the defaults) is immaterial. -/

theorem dhDefaults_idem (d : Gen.dhConfig) :
    dhConfig_SetDefaults (dhConfig_SetDefaults d) = dhConfig_SetDefaults d := by
  obtain ⟨⟨il1, hb1⟩, ⟨il2, hb2⟩⟩ := d
  rw [gen_dhDefaults ⟨⟨il1, hb1⟩, ⟨il2, hb2⟩⟩, gen_dhDefaults]
  simp only [setDefaults, ofDh, bufDefaults, hashDefaults, Facts.dhSmallInputLen, Facts.defInputLen2Small,
    Facts.defInputLen2Large, Facts.defInputLen, Facts.defHashBits, Gen.dhConfig.mk.injEq, Gen.hashConfig.mk.injEq]
  refine ⟨⟨?_, ?_⟩, ?_, ?_⟩ <;> (repeat' split) <;> omega

theorem dhVerify_parts (d : Gen.dhConfig) (h : dhConfig_Verify d = Gen.Err.ok) :
    InitOK d.H1.InputLen d.H1.HashBits ∧ InitOK d.H2.InputLen d.H2.HashBits ∧ d.H1.InputLen < d.H2.InputLen := by
  have := (gen_dhVerify d).mp h
  simp only [Bool.and_eq_true, decide_eq_true_eq] at this
  obtain ⟨⟨a, b⟩, c⟩ := this
  exact ⟨hashVerify_initOK _ ((gen_hashVerify _).mpr a), hashVerify_initOK _ ((gen_hashVerify _).mpr b), c⟩

/-! ## the double-hash kinds of the model (`.DHP`, `.BDHP`)

    What `setDefaults` / `verify` of the model say about the helper configurations (`BufConfig`, `dhConfig`) that the Go
    code cuts out of the parser configuration.  Everything goes through the tie lemmas of the configuration topics
    (`gen_bufDefaults'`, `gen_dhDefaults`, `gen_bufVerify`, `gen_dhVerify`: LzProofs/GenPropsCfg*.lean) and the model; no
    generated function is unfolded, so `DHPConfig.Verify` / `BDHPConfig.Verify` / `SetDefaults` may be spelled in any
    way that keeps the ties `gen_verify_DHP`, `gen_setDefaults_DHP` (… `_BDHP`) provable. -/

/-- the buffer part of a `setDefaults` image is a fixed point of `BufConfig.SetDefaults` -/
theorem double_buf_fix (k : Kind) (hk : k = .DHP ∨ k = .BDHP) (x : Cfg) :
    BufConfig_SetDefaults ⟨(setDefaults k x).shrinkSize, (setDefaults k x).bufferSize, (setDefaults k x).windowSize,
        (setDefaults k x).blockSize⟩ =
      ⟨(setDefaults k x).shrinkSize, (setDefaults k x).bufferSize, (setDefaults k x).windowSize,
        (setDefaults k x).blockSize⟩ := by
  rw [gen_bufDefaults', Gen.BufConfig.mk.injEq]
  have h := setDefaults_idem' k x
  have e1 := congrArg Cfg.shrinkSize h
  have e2 := congrArg Cfg.bufferSize h
  have e3 := congrArg Cfg.windowSize h
  have e4 := congrArg Cfg.blockSize h
  rcases hk with rfl | rfl <;> exact ⟨e1, e2, e3, e4⟩

/-- the double-hash part of a `setDefaults` image is a fixed point of `dhConfig.SetDefaults` -/
theorem double_dh_fix (k : Kind) (hk : k = .DHP ∨ k = .BDHP) (x : Cfg) :
    dhConfig_SetDefaults ⟨⟨(setDefaults k x).inputLen1, (setDefaults k x).hashBits1⟩,
        ⟨(setDefaults k x).inputLen2, (setDefaults k x).hashBits2⟩⟩ =
      ⟨⟨(setDefaults k x).inputLen1, (setDefaults k x).hashBits1⟩,
        ⟨(setDefaults k x).inputLen2, (setDefaults k x).hashBits2⟩⟩ := by
  rw [gen_dhDefaults, Gen.dhConfig.mk.injEq, Gen.hashConfig.mk.injEq, Gen.hashConfig.mk.injEq]
  have h := setDefaults_idem' k x
  have e1 := congrArg Cfg.inputLen1 h
  have e2 := congrArg Cfg.hashBits1 h
  have e3 := congrArg Cfg.inputLen2 h
  have e4 := congrArg Cfg.hashBits2 h
  rcases hk with rfl | rfl <;> exact ⟨⟨e1, e2⟩, e3, e4⟩

/-- a configuration the model's `verify` accepts passes `BufConfig.Verify` and `dhConfig.Verify` -/
theorem double_verify_parts (k : Kind) (hk : k = .DHP ∨ k = .BDHP) (c : Cfg) (hv : verify k c = true) :
    BufConfig_Verify ⟨c.shrinkSize, c.bufferSize, c.windowSize, c.blockSize⟩ = Gen.Err.ok ∧
    dhConfig_Verify ⟨⟨c.inputLen1, c.hashBits1⟩, ⟨c.inputLen2, c.hashBits2⟩⟩ = Gen.Err.ok := by
  have h : bufVerify c = true ∧ hashVerify c.inputLen1 c.hashBits1 Facts.maxHashBits = true ∧
      hashVerify c.inputLen2 c.hashBits2 Facts.maxHashBits = true ∧ c.inputLen1 < c.inputLen2 := by
    rcases hk with rfl | rfl <;>
      (simp only [verify, Bool.and_eq_true, decide_eq_true_eq] at hv; exact ⟨hv.1.1.1, hv.1.1.2, hv.1.2, hv.2⟩)
  obtain ⟨a, b, c1, d⟩ := h
  refine ⟨(gen_bufVerify _).mpr a, (gen_dhVerify _).mpr ?_⟩
  simp only [Bool.and_eq_true, decide_eq_true_eq]
  exact ⟨⟨b, c1⟩, d⟩

/-- simp set that decides the `err != nil` / `err == nil` tests of the translated `init` functions once the value of
    `err` is known (`Err.ok ≠ Err.ok`, `¬Err.ok = Err.ok`, `Err.ok = Err.ok`, `False`/`True` from a hypothesis), in
    either spelling and with either arm first; no condition is spelled out in the proofs below -/
macro "init_simp" "[" ls:Lean.Parser.Tactic.simpLemma,* "]" : tactic =>
  `(tactic| simp only [$ls,*, bind_ok, ne_eq, not_true_eq_false, not_false_eq_true, Classical.not_not, eq_self,
      reduceCtorEq, if_true, if_false, ↓reduceIte])

/-! ## `doubleHashDictionary.init` -/

/-- hash.go `doubleHashDictionary.init(cfg, bcfg)` for configurations that `SetDefaults` leaves alone and `Verify`
    accepts (what `doubleHashParser.init` / `bdhp.init` pass after their own `SetDefaults` / `Verify`) -/
theorem gen_ddict_init (f : Gen.doubleHashDictionary) (dc : Gen.dhConfig) (bc : Gen.BufConfig)
    (hw1 : GWF f.h1.table) (hw2 : GWF f.h2.table)
    (hbi : BufConfig_SetDefaults bc = bc) (hvb : BufConfig_Verify bc = Gen.Err.ok)
    (hdi : dhConfig_SetDefaults dc = dc) (hvd : dhConfig_Verify dc = Gen.Err.ok) :
    ∃ f', doubleHashDictionary_init f dc bc = Res.ok (f', Gen.Err.ok) ∧
      ofPB f'.ParserBuffer = { PBuf.init (ofCfg bc) with cap := f.ParserBuffer.Data.cap } ∧
      ofHash f'.h1 = HashT.new dc.H1.InputLen.toNat dc.H1.HashBits.toNat ∧
      ofHash f'.h2 = HashT.new dc.H2.InputLen.toNat dc.H2.HashBits.toNat ∧ DDictWF f' := by
  obtain ⟨i1, i2, _⟩ := dhVerify_parts dc hvd
  obtain ⟨pb', hpi, hofpb, hpwf⟩ := (gen_pbuf_init f.ParserBuffer bc).2 (by rw [hbi]; exact hvb)
  obtain ⟨g1, hg1, hof1, hwf1⟩ := gen_hash_init f.h1 dc.H1.InputLen dc.H1.HashBits hw1 i1
  obtain ⟨g2, hg2, hof2, hwf2⟩ := gen_hash_init f.h2 dc.H2.InputLen dc.H2.HashBits hw2 i2
  unfold doubleHashDictionary_init
  init_simp [hpi, hdi, hvd, hg1, hg2]
  rw [hbi] at hofpb
  exact ⟨_, rfl, hofpb, hof1, hof2, ⟨hpwf, hwf1, hwf2⟩⟩

/-! ## DHP -/

/-- `doubleHashParser.init(cfg)`: `raw` is the configuration as the model sees it (`toDHP raw` the Go struct with
    the fields of `raw` that DHPConfig has) -/
theorem gen_dhp_init (s : Gen.doubleHashParser) (raw : Cfg) (hw1 : GWF s.doubleHashDictionary.h1.table)
    (hw2 : GWF s.doubleHashDictionary.h2.table) :
    match newParser .DHP raw with
    | none => ∃ e, doubleHashParser_init s (toDHP raw) = Res.ok (s, e) ∧ e ≠ Gen.Err.ok
    | some p => ∃ s', doubleHashParser_init s (toDHP raw) = Res.ok (s', Gen.Err.ok) ∧
        ofDHPs s' = { p with buf := { p.buf with cap := s.doubleHashDictionary.ParserBuffer.Data.cap } } ∧
        DDictWF s'.doubleHashDictionary := by
  have hc : ofDHP (DHPConfig_SetDefaults (toDHP raw)) = setDefaults .DHP (raw.restrict .DHP) := by
    rw [gen_setDefaults_DHP, ofDHP_toDHP]
  have hv := gen_verify_DHP (DHPConfig_SetDefaults (toDHP raw))
  rw [hc] at hv
  unfold newParser
  simp only []
  by_cases hok : DHPConfig_Verify (DHPConfig_SetDefaults (toDHP raw)) = Gen.Err.ok
  · have hvm : verify .DHP (setDefaults .DHP (raw.restrict .DHP)) = true := hv.mp hok
    simp only [hvm, if_true]
    -- what the model says about the two helper configurations, transported to the Go struct along `hc`
    have hparts := double_verify_parts .DHP (Or.inl rfl) _ hvm
    have hbi := double_buf_fix .DHP (Or.inl rfl) (raw.restrict .DHP)
    have hdi := double_dh_fix .DHP (Or.inl rfl) (raw.restrict .DHP)
    rw [← hc] at hparts hbi hdi
    unfold doubleHashParser_init
    dsimp only
    generalize DHPConfig_SetDefaults (toDHP raw) = c' at *
    obtain ⟨hvb, hvh⟩ := hparts
    obtain ⟨f', hf, hofpb, hof1, hof2, hwf⟩ := gen_ddict_init s.doubleHashDictionary
      ⟨⟨c'.InputLen1, c'.HashBits1⟩, ⟨c'.InputLen2, c'.HashBits2⟩⟩
      ⟨c'.ShrinkSize, c'.BufferSize, c'.WindowSize, c'.BlockSize⟩ hw1 hw2 hbi hvb hdi hvh
    init_simp [hok, hf]
    refine ⟨_, rfl, ?_, hwf⟩
    simp only [ofDHPs, ofDDict, hofpb, hof1, hof2, freshDict, ← hc]
    rfl
  · have hvm : ¬ verify .DHP (setDefaults .DHP (raw.restrict .DHP)) = true := fun c => hok (hv.mpr c)
    simp only [hvm, if_false]
    unfold doubleHashParser_init
    init_simp [hok]
    exact ⟨_, rfl, hok⟩

/-- … for the receiver `new(doubleHashParser)` (all fields zero): exactly the model's fresh parser -/
theorem gen_dhp_init_fresh (raw : Cfg) (p : Parser) (hp : newParser .DHP raw = some p) :
    ∃ s', doubleHashParser_init default (toDHP raw) = Res.ok (s', Gen.Err.ok) ∧ ofDHPs s' = p ∧
      DDictWF s'.doubleHashDictionary := by
  have := gen_dhp_init default raw (by unfold GWF; exact Nat.le_refl 0) (by unfold GWF; exact Nat.le_refl 0)
  rw [hp] at this
  obtain ⟨s', h1, h2, h3⟩ := this
  refine ⟨s', h1, ?_, h3⟩
  rw [h2]
  unfold newParser at hp
  simp only [] at hp
  split at hp
  · simp only [Option.some.injEq] at hp
    subst hp; rfl
  · exact absurd hp (by simp)

/-- what `verify` of a double-hash kind says about the two hash configurations -/
theorem verify_double (k : Kind) (hk : k = .DHP ∨ k = .BDHP) (c : Cfg) (hv : verify k c = true) :
    (2 ≤ c.inputLen1 ∧ c.inputLen1 ≤ 8 ∧ 0 ≤ c.hashBits1 ∧ c.hashBits1 ≤ 24) ∧
    (2 ≤ c.inputLen2 ∧ c.inputLen2 ≤ 8 ∧ 0 ≤ c.hashBits2 ∧ c.hashBits2 ≤ 24) ∧ c.inputLen1 < c.inputLen2 := by
  have h : (hashVerify c.inputLen1 c.hashBits1 Facts.maxHashBits = true ∧
      hashVerify c.inputLen2 c.hashBits2 Facts.maxHashBits = true) ∧ c.inputLen1 < c.inputLen2 := by
    rcases hk with rfl | rfl <;>
      (simp only [verify, Bool.and_eq_true, decide_eq_true_eq] at hv; exact ⟨⟨hv.1.1.2, hv.1.2⟩, hv.2⟩)
  obtain ⟨⟨a, b⟩, c3⟩ := h
  rw [hashVerify_iff] at a b
  simp only [Facts.maxHashBits] at a b
  obtain ⟨⟨a1, a2⟩, a3, a4⟩ := a
  obtain ⟨⟨b1, b2⟩, b3, b4⟩ := b
  refine ⟨⟨a1, a2, a3, ?_⟩, ⟨b1, b2, b3, ?_⟩, c3⟩
  · by_cases h : 8 * c.inputLen1 < 24 <;> simp only [h, if_true, if_false] at a4 <;> omega
  · by_cases h : 8 * c.inputLen2 < 24 <;> simp only [h, if_true, if_false] at b4 <;> omega

/-- **`ParseOKD` is what `init` establishes** (non-vacuity of the hypotheses of `gen_dhp_parse`) -/
theorem gen_dhp_init_parseOK (raw : Cfg) (p : Parser) (hp : newParser .DHP raw = some p) :
    ∃ s', doubleHashParser_init default (toDHP raw) = Res.ok (s', Gen.Err.ok) ∧ ofDHPs s' = p ∧ ParseOKD s' := by
  obtain ⟨s', h1, h2, h3⟩ := gen_dhp_init_fresh raw p hp
  refine ⟨s', h1, h2, ?_⟩
  unfold newParser at hp
  simp only [] at hp
  split at hp
  · rename_i hv
    simp only [Option.some.injEq] at hp
    subst hp
    generalize setDefaults .DHP (raw.restrict .DHP) = c at hv h2
    obtain ⟨⟨a1, a2, a3, a4⟩, ⟨b1, b2, b3, b4⟩, c3⟩ := verify_double .DHP (Or.inl rfl) c hv
    obtain ⟨_, hbs⟩ := verify_static .DHP c hv
    have hcfg : ofDHP s'.DHPConfig = c := congrArg Parser.cfg h2
    have hbuf : ofPB s'.doubleHashDictionary.ParserBuffer = PBuf.init c.bufCfg := congrArg Parser.buf h2
    have hdict : Dict.double ⟨ofHash s'.doubleHashDictionary.h1, ofHash s'.doubleHashDictionary.h2⟩ =
        Dict.double ⟨HashT.new c.inputLen1.toNat c.hashBits1.toNat, HashT.new c.inputLen2.toNat c.hashBits2.toNat⟩ :=
      congrArg Parser.dict h2
    injection hdict with hdict
    injection hdict with hd1 hd2
    have hws : s'.doubleHashDictionary.ParserBuffer.BufConfig.WindowSize.toNat = c.windowSize.toNat :=
      congrArg (fun b => b.cfg.windowSize) hbuf
    have hbl : s'.doubleHashDictionary.ParserBuffer.BufConfig.BlockSize.toNat = c.blockSize.toNat :=
      congrArg (fun b => b.cfg.blockSize) hbuf
    have hw : s'.doubleHashDictionary.ParserBuffer.W.toNat = 0 := congrArg PBuf.w hbuf
    have hd : s'.doubleHashDictionary.ParserBuffer.Data.data = [] := congrArg PBuf.data hbuf
    have hil1 : s'.doubleHashDictionary.h1.inputLen.toNat = c.inputLen1.toNat := congrArg HashT.inputLen hd1
    have hil2 : s'.doubleHashDictionary.h2.inputLen.toNat = c.inputLen2.toNat := congrArg HashT.inputLen hd2
    have hhb1 : 64 - s'.doubleHashDictionary.h1.shift.toNat = c.hashBits1.toNat := congrArg HashT.hashBits hd1
    have hhb2 : 64 - s'.doubleHashDictionary.h2.shift.toNat = c.hashBits2.toNat := congrArg HashT.hashBits hd2
    have cW : s'.DHPConfig.WindowSize = c.windowSize := congrArg Cfg.windowSize hcfg
    have cB : s'.DHPConfig.BlockSize = c.blockSize := congrArg Cfg.blockSize hcfg
    have cI : s'.DHPConfig.InputLen1 = c.inputLen1 := congrArg Cfg.inputLen1 hcfg
    have hlen : s'.doubleHashDictionary.ParserBuffer.Data.len = 0 := by
      have := data_length h3.1.data
      rw [hd] at this; exact this.symm
    have hbs' : 1 ≤ c.blockSize.toNat := hbs
    have hw0 := h3.1.w
    have hs641 := h3.2.1.2.2.2.1
    have hs642 := h3.2.2.2.2.2.1
    have hi01 := h3.2.1.2.1
    have hi02 := h3.2.2.2.1
    exact ⟨h3, by rw [cW, hws], by rw [cB, hbl], by rw [cI, hil1], by rw [cB]; omega, by rw [hlen]; omega,
      by omega, by omega, by omega, by omega, by rw [hlen]; decide⟩
  · exact absurd hp (by simp)

/-! ## BDHP (bdhp.go `init` is dhp.go `init` modulo the type names, and so are the proofs) -/

/-- `bdhp.init(cfg)`: `raw` is the configuration as the model sees it (`toBDHP raw` the Go struct with
    the fields of `raw` that BDHPConfig has) -/
theorem gen_bdhp_init (s : Gen.bdhp) (raw : Cfg) (hw1 : GWF s.doubleHashDictionary.h1.table)
    (hw2 : GWF s.doubleHashDictionary.h2.table) :
    match newParser .BDHP raw with
    | none => ∃ e, bdhp_init s (toBDHP raw) = Res.ok (s, e) ∧ e ≠ Gen.Err.ok
    | some p => ∃ s', bdhp_init s (toBDHP raw) = Res.ok (s', Gen.Err.ok) ∧
        ofBDHPs s' = { p with buf := { p.buf with cap := s.doubleHashDictionary.ParserBuffer.Data.cap } } ∧
        DDictWF s'.doubleHashDictionary := by
  have hc : ofBDHP (BDHPConfig_SetDefaults (toBDHP raw)) = setDefaults .BDHP (raw.restrict .BDHP) := by
    rw [gen_setDefaults_BDHP, ofBDHP_toBDHP]
  have hv := gen_verify_BDHP (BDHPConfig_SetDefaults (toBDHP raw))
  rw [hc] at hv
  unfold newParser
  simp only []
  by_cases hok : BDHPConfig_Verify (BDHPConfig_SetDefaults (toBDHP raw)) = Gen.Err.ok
  · have hvm : verify .BDHP (setDefaults .BDHP (raw.restrict .BDHP)) = true := hv.mp hok
    simp only [hvm, if_true]
    have hparts := double_verify_parts .BDHP (Or.inr rfl) _ hvm
    have hbi := double_buf_fix .BDHP (Or.inr rfl) (raw.restrict .BDHP)
    have hdi := double_dh_fix .BDHP (Or.inr rfl) (raw.restrict .BDHP)
    rw [← hc] at hparts hbi hdi
    unfold bdhp_init
    dsimp only
    generalize BDHPConfig_SetDefaults (toBDHP raw) = c' at *
    obtain ⟨hvb, hvh⟩ := hparts
    obtain ⟨f', hf, hofpb, hof1, hof2, hwf⟩ := gen_ddict_init s.doubleHashDictionary
      ⟨⟨c'.InputLen1, c'.HashBits1⟩, ⟨c'.InputLen2, c'.HashBits2⟩⟩
      ⟨c'.ShrinkSize, c'.BufferSize, c'.WindowSize, c'.BlockSize⟩ hw1 hw2 hbi hvb hdi hvh
    init_simp [hok, hf]
    refine ⟨_, rfl, ?_, hwf⟩
    simp only [ofBDHPs, ofDDict, hofpb, hof1, hof2, freshDict, ← hc]
    rfl
  · have hvm : ¬ verify .BDHP (setDefaults .BDHP (raw.restrict .BDHP)) = true := fun c => hok (hv.mpr c)
    simp only [hvm, if_false]
    unfold bdhp_init
    init_simp [hok]
    exact ⟨_, rfl, hok⟩

/-- … for the receiver `new(bdhp)` (all fields zero): exactly the model's fresh parser -/
theorem gen_bdhp_init_fresh (raw : Cfg) (p : Parser) (hp : newParser .BDHP raw = some p) :
    ∃ s', bdhp_init default (toBDHP raw) = Res.ok (s', Gen.Err.ok) ∧ ofBDHPs s' = p ∧
      DDictWF s'.doubleHashDictionary := by
  have := gen_bdhp_init default raw (by unfold GWF; exact Nat.le_refl 0) (by unfold GWF; exact Nat.le_refl 0)
  rw [hp] at this
  obtain ⟨s', h1, h2, h3⟩ := this
  refine ⟨s', h1, ?_, h3⟩
  rw [h2]
  unfold newParser at hp
  simp only [] at hp
  split at hp
  · simp only [Option.some.injEq] at hp
    subst hp; rfl
  · exact absurd hp (by simp)

/-- **`ParseOKBD` is what `init` establishes** (non-vacuity of the hypotheses of `gen_bdhp_parse`) -/
theorem gen_bdhp_init_parseOK (raw : Cfg) (p : Parser) (hp : newParser .BDHP raw = some p) :
    ∃ s', bdhp_init default (toBDHP raw) = Res.ok (s', Gen.Err.ok) ∧ ofBDHPs s' = p ∧ ParseOKBD s' := by
  obtain ⟨s', h1, h2, h3⟩ := gen_bdhp_init_fresh raw p hp
  refine ⟨s', h1, h2, ?_⟩
  unfold newParser at hp
  simp only [] at hp
  split at hp
  · rename_i hv
    simp only [Option.some.injEq] at hp
    subst hp
    generalize setDefaults .BDHP (raw.restrict .BDHP) = c at hv h2
    obtain ⟨⟨a1, a2, a3, a4⟩, ⟨b1, b2, b3, b4⟩, c3⟩ := verify_double .BDHP (Or.inr rfl) c hv
    obtain ⟨_, hbs⟩ := verify_static .BDHP c hv
    have hcfg : ofBDHP s'.BDHPConfig = c := congrArg Parser.cfg h2
    have hbuf : ofPB s'.doubleHashDictionary.ParserBuffer = PBuf.init c.bufCfg := congrArg Parser.buf h2
    have hdict : Dict.double ⟨ofHash s'.doubleHashDictionary.h1, ofHash s'.doubleHashDictionary.h2⟩ =
        Dict.double ⟨HashT.new c.inputLen1.toNat c.hashBits1.toNat, HashT.new c.inputLen2.toNat c.hashBits2.toNat⟩ :=
      congrArg Parser.dict h2
    injection hdict with hdict
    injection hdict with hd1 hd2
    have hws : s'.doubleHashDictionary.ParserBuffer.BufConfig.WindowSize.toNat = c.windowSize.toNat :=
      congrArg (fun b => b.cfg.windowSize) hbuf
    have hbl : s'.doubleHashDictionary.ParserBuffer.BufConfig.BlockSize.toNat = c.blockSize.toNat :=
      congrArg (fun b => b.cfg.blockSize) hbuf
    have hw : s'.doubleHashDictionary.ParserBuffer.W.toNat = 0 := congrArg PBuf.w hbuf
    have hd : s'.doubleHashDictionary.ParserBuffer.Data.data = [] := congrArg PBuf.data hbuf
    have hil1 : s'.doubleHashDictionary.h1.inputLen.toNat = c.inputLen1.toNat := congrArg HashT.inputLen hd1
    have hil2 : s'.doubleHashDictionary.h2.inputLen.toNat = c.inputLen2.toNat := congrArg HashT.inputLen hd2
    have hhb1 : 64 - s'.doubleHashDictionary.h1.shift.toNat = c.hashBits1.toNat := congrArg HashT.hashBits hd1
    have hhb2 : 64 - s'.doubleHashDictionary.h2.shift.toNat = c.hashBits2.toNat := congrArg HashT.hashBits hd2
    have cW : s'.BDHPConfig.WindowSize = c.windowSize := congrArg Cfg.windowSize hcfg
    have cB : s'.BDHPConfig.BlockSize = c.blockSize := congrArg Cfg.blockSize hcfg
    have cI : s'.BDHPConfig.InputLen1 = c.inputLen1 := congrArg Cfg.inputLen1 hcfg
    have hlen : s'.doubleHashDictionary.ParserBuffer.Data.len = 0 := by
      have := data_length h3.1.data
      rw [hd] at this; exact this.symm
    have hbs' : 1 ≤ c.blockSize.toNat := hbs
    have hw0 := h3.1.w
    have hs641 := h3.2.1.2.2.2.1
    have hs642 := h3.2.2.2.2.2.1
    have hi01 := h3.2.1.2.1
    have hi02 := h3.2.2.2.1
    exact ⟨h3, by rw [cW, hws], by rw [cB, hbl], by rw [cI, hil1], by rw [cB]; omega, by rw [hlen]; omega,
      by omega, by omega, by omega, by omega, by rw [hlen]; decide⟩
  · exact absurd hp (by simp)

end LZ.GenDHPInit

#print axioms LZ.GenDHPInit.gen_ddict_init
#print axioms LZ.GenDHPInit.gen_dhp_init
#print axioms LZ.GenDHPInit.gen_dhp_init_fresh
#print axioms LZ.GenDHPInit.gen_dhp_init_parseOK
#print axioms LZ.GenDHPInit.gen_bdhp_init
#print axioms LZ.GenDHPInit.gen_bdhp_init_fresh
#print axioms LZ.GenDHPInit.gen_bdhp_init_parseOK
