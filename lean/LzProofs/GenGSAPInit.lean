/-
  LzProofs.GenGSAPInit — the translated `(*gsap).Reset`, `(*gsap).Shrink` and `(*gsap).init` of gsap.go (topic GSAPInit of
  tools/extract, code_opq.go; LzModel/Generated/CodeGSAPInit.lean) against the buffer model (`PBuf.reset`, `PBuf.shrink`,
  `PBuf.init`: GenBufPropsP) and the word-level dictionary (`GsapDW.reset`: `s.sa = s.sa[:0]; s.isa = s.isa[:0];
  s.bits.clear()` — the backing array of the bitset with its stale contents is kept).  Nothing is opaque here.

    gen_gsap_reset   Reset(data): buffer = PBuf.reset; on success the dictionary is `GsapDW.reset`, on error unchanged
    gen_gsap_shrink  Shrink(): buffer = PBuf.shrink; the dictionary is reset iff delta > 0
    gen_gsap_init    init(cfg): the error paths, and on success buffer = PBuf.init, dictionary reset, config stored
  No sorry, no axioms of its own.
-/
import LzModel.Generated.CodeGSAPInit
import LzProofs.GenGSAPLemmas

set_option linter.unusedSimpArgs false
set_option linter.unusedVariables false

namespace LZ.GenGSAP
open LZ LZ.Gen LZ.GenBuf LZ.GenHash LZ.GenSuffix LZ.GenBitset LZ.GsapBits

/-- `x[:0]` on an int32 slice: no panic, the empty array -/
theorem trunc0 (x : GSlice Int32) :
    GSlice.slice x 0 (0 : Int) = Res.ok { arr := x.arr.drop 0, len := 0 - 0 } ∧
      absI32 ({ arr := x.arr.drop 0, len := 0 - 0 } : GSlice Int32) = #[] ∧
      GWF ({ arr := x.arr.drop 0, len := 0 - 0 } : GSlice Int32) :=
  ⟨gslice_ok x 0 (0 : Int) 0 0 rfl rfl (Nat.le_refl 0) (Nat.zero_le _), by simp [absI32, GSlice.data],
    by unfold GWF; simp⟩

/-- the three statements `s.sa = s.sa[:0]; s.isa = s.isa[:0]; s.bits.clear()` -/
theorem drop_dict (s : Gen.gsap) (hbs : BSWF s.bits) {β : Type} (F : Gen.gsap → Res β) :
    ∃ s', (Res.bind (GSlice.slice s.sa 0 (0 : Int)) fun t_2 =>
        Res.bind (GSlice.slice s.isa 0 (0 : Int)) fun t_3 =>
        Res.bind (bitset_clear s.bits) fun r_4 => F { s with sa := t_2, isa := t_3, bits := r_4 }) = F s' ∧
      s'.ParserBuffer = s.ParserBuffer ∧ s'.GSAPConfig = s.GSAPConfig ∧ ofGW s' = (ofGW s).reset ∧
      s'.sa.len = 0 ∧ s'.isa.len = 0 ∧ GWF s'.sa ∧ GWF s'.isa ∧ BSWF s'.bits := by
  obtain ⟨b1, r5, a5, w5⟩ := gen_bitset_clear s.bits hbs
  refine ⟨⟨s.ParserBuffer, { arr := s.sa.arr.drop 0, len := 0 - 0 }, { arr := s.isa.arr.drop 0, len := 0 - 0 }, b1,
    s.GSAPConfig⟩, ?_, rfl, rfl, ?_, rfl, rfl, (trunc0 s.sa).2.2, (trunc0 s.isa).2.2, w5⟩
  · rw [(trunc0 s.sa).1, bind_ok, (trunc0 s.isa).1, bind_ok, r5, bind_ok]
  · show ({ sa := absI32 _, isa := absI32 _, bits := ofBS b1 } : GsapDW) = _
    rw [(trunc0 s.sa).2.1, (trunc0 s.isa).2.1, a5]
    rfl

/-- **`Reset(data)`** -/
theorem gen_gsap_reset (s : Gen.gsap) (hpb : PBWF s.ParserBuffer) (hbs : BSWF s.bits) (data : Slice) (hdat : SWF data) :
    ∃ s' e, gsap_Reset s data = Res.ok (s', e) ∧
      ofPB s'.ParserBuffer = (PBuf.reset (ofPB s.ParserBuffer) data.data (data.cap - data.len)).1 ∧
      errOfReset e = some (PBuf.reset (ofPB s.ParserBuffer) data.data (data.cap - data.len)).2 ∧
      PBWF s'.ParserBuffer ∧ s'.GSAPConfig = s.GSAPConfig ∧ BSWF s'.bits ∧
      (e = Gen.Err.ok → ofGW s' = (ofGW s).reset ∧ s'.sa.len = 0 ∧ s'.isa.len = 0 ∧ GWF s'.sa ∧ GWF s'.isa) ∧
      (e ≠ Gen.Err.ok → s'.sa = s.sa ∧ s'.isa = s.isa ∧ s'.bits = s.bits) := by
  obtain ⟨b', e, hb, hof, herr, hwf⟩ := gen_pbuf_reset s.ParserBuffer hpb data hdat
  unfold gsap_Reset
  rw [hb, bind_ok]
  by_cases he : e = Gen.Err.ok
  · simp only [he, ne_eq, not_true_eq_false, if_false]
    obtain ⟨s', h1, h2, h3, h4, h5, h6, h7, h8, h9⟩ := drop_dict { s with ParserBuffer := b' } hbs
      (fun t => Res.ok (t, Gen.Err.ok))
    refine ⟨s', Gen.Err.ok, h1, by rw [h2]; exact hof, by rw [← he]; exact herr, by rw [h2]; exact hwf, h3, h9,
      fun _ => ⟨h4, h5, h6, h7, h8⟩, fun hc => absurd rfl hc⟩
  · simp only [he, ne_eq, not_false_eq_true, if_true]
    exact ⟨_, e, rfl, hof, herr, hwf, rfl, hbs, fun hc => absurd hc he, fun _ => ⟨rfl, rfl, rfl⟩⟩

/-- **`Shrink()`** -/
theorem gen_gsap_shrink (s : Gen.gsap) (hpb : PBWF s.ParserBuffer) (hbs : BSWF s.bits)
    (hw : s.ParserBuffer.W - s.ParserBuffer.BufConfig.ShrinkSize ≤ s.ParserBuffer.Data.len) :
    ∃ s', gsap_Shrink s = Res.ok (s', ((PBuf.shrink (ofPB s.ParserBuffer)).2 : Int)) ∧
      ofPB s'.ParserBuffer = (PBuf.shrink (ofPB s.ParserBuffer)).1 ∧ PBWF s'.ParserBuffer ∧
      s'.GSAPConfig = s.GSAPConfig ∧ BSWF s'.bits ∧
      ((PBuf.shrink (ofPB s.ParserBuffer)).2 > 0 →
        ofGW s' = (ofGW s).reset ∧ s'.sa.len = 0 ∧ s'.isa.len = 0 ∧ GWF s'.sa ∧ GWF s'.isa) ∧
      ((PBuf.shrink (ofPB s.ParserBuffer)).2 = 0 → s'.sa = s.sa ∧ s'.isa = s.isa ∧ s'.bits = s.bits) := by
  obtain ⟨b', hb, hof, hwf⟩ := gen_pbuf_shrink s.ParserBuffer hpb hw
  unfold gsap_Shrink
  rw [hb, bind_ok]
  generalize (PBuf.shrink (ofPB s.ParserBuffer)).2 = d
  by_cases hd : d > 0
  · have hd' : ((d : Nat) : Int) > 0 := by omega
    simp only [hd', if_true]
    obtain ⟨s', h1, h2, h3, h4, h5, h6, h7, h8, h9⟩ := drop_dict { s with ParserBuffer := b' } hbs
      (fun t => Res.ok t)
    rw [h1, bind_ok]
    exact ⟨s', rfl, by rw [h2]; exact hof, by rw [h2]; exact hwf, h3, h9, fun _ => ⟨h4, h5, h6, h7, h8⟩,
      fun hc => by omega⟩
  · have hd' : ¬ ((d : Nat) : Int) > 0 := by omega
    simp only [hd', if_false, bind_ok]
    exact ⟨_, rfl, hof, hwf, rfl, hbs, fun hc => absurd hc hd, fun _ => ⟨rfl, rfl, rfl⟩⟩

/-- **`init(cfg)`**: the buffer configuration is rejected ⇒ that error, parser unchanged; accepted but the parser
    configuration rejected ⇒ that error, only the buffer initialised; both accepted ⇒ `nil`, the buffer is `PBuf.init`
    of the defaults-completed buffer configuration, the dictionary is reset, the defaults-completed configuration
    is stored. -/
theorem gen_gsap_init (s : Gen.gsap) (hbs : BSWF s.bits) (cfg : Gen.GSAPConfig) :
    let bc : Gen.BufConfig := ⟨cfg.ShrinkSize, cfg.BufferSize, cfg.WindowSize, cfg.BlockSize⟩
    (BufConfig_Verify (BufConfig_SetDefaults bc) ≠ Gen.Err.ok →
      gsap_init s cfg = Res.ok (s, BufConfig_Verify (BufConfig_SetDefaults bc))) ∧
    (BufConfig_Verify (BufConfig_SetDefaults bc) = Gen.Err.ok →
      ∃ b', ofPB b' = { PBuf.init (ofCfg (BufConfig_SetDefaults bc)) with cap := s.ParserBuffer.Data.cap } ∧ PBWF b' ∧
        (GSAPConfig_Verify (GSAPConfig_SetDefaults cfg) ≠ Gen.Err.ok →
          gsap_init s cfg = Res.ok ({ s with ParserBuffer := b' }, GSAPConfig_Verify (GSAPConfig_SetDefaults cfg))) ∧
        (GSAPConfig_Verify (GSAPConfig_SetDefaults cfg) = Gen.Err.ok →
          ∃ s', gsap_init s cfg = Res.ok (s', Gen.Err.ok) ∧ s'.ParserBuffer = b' ∧
            s'.GSAPConfig = GSAPConfig_SetDefaults cfg ∧ ofGW s' = (ofGW s).reset ∧
            s'.sa.len = 0 ∧ s'.isa.len = 0 ∧ GWF s'.sa ∧ GWF s'.isa ∧ BSWF s'.bits)) := by
  intro bc
  obtain ⟨hbad, hgood⟩ := gen_pbuf_init s.ParserBuffer bc
  refine ⟨fun hne => ?_, fun hok => ?_⟩
  · unfold gsap_init
    simp only []
    rw [hbad hne, bind_ok]
    simp only [hne, ne_eq, not_false_eq_true, if_true]
  · obtain ⟨b', hb, hof, hwf⟩ := hgood hok
    refine ⟨b', hof, hwf, fun hne => ?_, fun hok2 => ?_⟩
    · unfold gsap_init
      simp only []
      rw [hb, bind_ok]
      simp only [ne_eq, not_true_eq_false, if_false, hne, not_false_eq_true, if_true]
    · obtain ⟨s', h1, h2, h3, h4, h5, h6, h7, h8, h9⟩ := drop_dict { s with ParserBuffer := b' } hbs
        (fun t => Res.ok ({ t with GSAPConfig := GSAPConfig_SetDefaults cfg }, Gen.Err.ok))
      refine ⟨{ s' with GSAPConfig := GSAPConfig_SetDefaults cfg }, ?_, h2, rfl, h4, h5, h6, h7, h8, h9⟩
      unfold gsap_init
      simp only []
      rw [hb, bind_ok]
      simp only [ne_eq, not_true_eq_false, if_false, hok2]
      exact h1

end LZ.GenGSAP

#print axioms LZ.GenGSAP.gen_gsap_reset
#print axioms LZ.GenGSAP.gen_gsap_shrink
#print axioms LZ.GenGSAP.gen_gsap_init
