/-
  LzProofs.GenGSAPInit — the translated `(*gsap).Reset`, `(*gsap).Shrink` and `(*gsap).init` of gsap.go (topic GSAPInit of
  tools/extract, code_opq.go; LzModel/Generated/CodeGSAPInit.lean) against the buffer model (`PBuf.reset`, `PBuf.shrink`,
  `PBuf.init`: GenBufPropsP) and the word-level dictionary (`GsapDW.reset`: `s.sa = s.sa[:0]; s.isa = s.isa[:0];
  s.bits.clear()` — the backing array of the bitset with its stale contents is kept).  Nothing is opaque here.

    gen_gsap_reset   Reset(data): buffer = PBuf.reset; on success the dictionary is `GsapDW.reset`, on error unchanged
    gen_gsap_shrink  Shrink(): buffer = PBuf.shrink; the dictionary is reset iff delta > 0
    gen_gsap_init    init(cfg): the error paths, and on success buffer = PBuf.init, dictionary reset, config stored
  No sorry, no axioms of its own.
-/
import LzModel.Generated.CodeGSAPInit
import LzProofs.GenGSAPLemmas

set_option linter.unusedSimpArgs false
set_option linter.unusedVariables false

namespace LZ.GenGSAP
open LZ LZ.Gen LZ.GenBuf LZ.GenHash LZ.GenSuffix LZ.GenBitset LZ.GsapBits

/-- `x[:0]` on an int32 slice: no panic, the empty array -/
theorem trunc0 (x : GSlice Int32) :
    GSlice.slice x 0 (0 : Int) = Res.ok { arr := x.arr.drop 0, len := 0 - 0 } ∧
      absI32 ({ arr := x.arr.drop 0, len := 0 - 0 } : GSlice Int32) = #[] ∧
      GWF ({ arr := x.arr.drop 0, len := 0 - 0 } : GSlice Int32) :=
  ⟨gslice_ok x 0 (0 : Int) 0 0 rfl rfl (Nat.le_refl 0) (Nat.zero_le _), by simp [absI32, GSlice.data],
    by unfold GWF; simp⟩

/-- `x[:0]` evaluates (the first part of `trunc0` as a rewrite rule) -/
theorem trunc0_eq (x : GSlice Int32) :
    GSlice.slice x 0 (0 : Int) = Res.ok { arr := x.arr.drop 0, len := 0 - 0 } := (trunc0 x).1

/-- the parser after the three statements `s.sa = s.sa[:0]; s.isa = s.isa[:0]; s.bits.clear()` — in whatever order the
    Go text has them (the three fields are independent); `b1` is the cleared bitset -/
@[reducible] def dropped (s : Gen.gsap) (b1 : Gen.bitset) : Gen.gsap :=
  ⟨s.ParserBuffer, { arr := s.sa.arr.drop 0, len := 0 - 0 }, { arr := s.isa.arr.drop 0, len := 0 - 0 }, b1,
    s.GSAPConfig⟩

/-- what is known about `dropped`: the text of the three statements is not mentioned, the proofs below evaluate it as
    it comes (`trunc0_eq`, the `clear` equation, `bind_ok`) -/
theorem drop_facts (s : Gen.gsap) (hbs : BSWF s.bits) :
    ∃ b1, bitset_clear s.bits = Res.ok b1 ∧ ofGW (dropped s b1) = (ofGW s).reset ∧
      GWF (dropped s b1).sa ∧ GWF (dropped s b1).isa ∧ BSWF b1 := by
  obtain ⟨b1, r5, a5, w5⟩ := gen_bitset_clear s.bits hbs
  refine ⟨b1, r5, ?_, (trunc0 s.sa).2.2, (trunc0 s.isa).2.2, w5⟩
  show ({ sa := absI32 _, isa := absI32 _, bits := ofBS b1 } : GsapDW) = _
  rw [(trunc0 s.sa).2.1, (trunc0 s.isa).2.1, a5]
  rfl

/-- decide the FIRST `if` of the goal from the context by omega, whatever the spelling of its test and whichever arm -/
local macro "gi_ite" : tactic => `(tactic| first | rw [if_pos (by omega)] | rw [if_neg (by omega)])

/-- **`Reset(data)`** -/
theorem gen_gsap_reset (s : Gen.gsap) (hpb : PBWF s.ParserBuffer) (hbs : BSWF s.bits) (data : Slice) (hdat : SWF data) :
    ∃ s' e, gsap_Reset s data = Res.ok (s', e) ∧
      ofPB s'.ParserBuffer = (PBuf.reset (ofPB s.ParserBuffer) data.data (data.cap - data.len)).1 ∧
      errOfReset e = some (PBuf.reset (ofPB s.ParserBuffer) data.data (data.cap - data.len)).2 ∧
      PBWF s'.ParserBuffer ∧ s'.GSAPConfig = s.GSAPConfig ∧ BSWF s'.bits ∧
      (e = Gen.Err.ok → ofGW s' = (ofGW s).reset ∧ s'.sa.len = 0 ∧ s'.isa.len = 0 ∧ GWF s'.sa ∧ GWF s'.isa) ∧
      (e ≠ Gen.Err.ok → s'.sa = s.sa ∧ s'.isa = s.isa ∧ s'.bits = s.bits) := by
  obtain ⟨b', e, hb, hof, herr, hwf⟩ := gen_pbuf_reset s.ParserBuffer hpb data hdat
  -- the test on the error is decided in either spelling (`err != nil`, `nil == err`, `err == nil` with swapped arms)
  by_cases he : e = Gen.Err.ok
  · subst he
    obtain ⟨b1, r5, h4, h7, h8, h9⟩ := drop_facts { s with ParserBuffer := b' } hbs
    have r5' : bitset_clear s.bits = Res.ok b1 := r5
    refine ⟨dropped { s with ParserBuffer := b' } b1, Gen.Err.ok, ?_, hof, herr, hwf, rfl, h9,
      fun _ => ⟨h4, rfl, rfl, h7, h8⟩, fun hc => absurd rfl hc⟩
    unfold gsap_Reset
    rw [hb, bind_ok]
    simp only [ne_eq, eq_self, not_true_eq_false, not_false_eq_true, if_true, if_false, trunc0_eq, r5', bind_ok]
    try rfl
  · have he' : ¬ Gen.Err.ok = e := fun h => he h.symm
    refine ⟨{ s with ParserBuffer := b' }, e, ?_, hof, herr, hwf, rfl, hbs, fun hc => absurd hc he,
      fun _ => ⟨rfl, rfl, rfl⟩⟩
    unfold gsap_Reset
    rw [hb, bind_ok]
    simp only [he, he', ne_eq, eq_self, not_true_eq_false, not_false_eq_true, if_true, if_false]
    try rfl

/-- **`Shrink()`** -/
theorem gen_gsap_shrink (s : Gen.gsap) (hpb : PBWF s.ParserBuffer) (hbs : BSWF s.bits)
    (hw : s.ParserBuffer.W - s.ParserBuffer.BufConfig.ShrinkSize ≤ s.ParserBuffer.Data.len) :
    ∃ s', gsap_Shrink s = Res.ok (s', ((PBuf.shrink (ofPB s.ParserBuffer)).2 : Int)) ∧
      ofPB s'.ParserBuffer = (PBuf.shrink (ofPB s.ParserBuffer)).1 ∧ PBWF s'.ParserBuffer ∧
      s'.GSAPConfig = s.GSAPConfig ∧ BSWF s'.bits ∧
      ((PBuf.shrink (ofPB s.ParserBuffer)).2 > 0 →
        ofGW s' = (ofGW s).reset ∧ s'.sa.len = 0 ∧ s'.isa.len = 0 ∧ GWF s'.sa ∧ GWF s'.isa) ∧
      ((PBuf.shrink (ofPB s.ParserBuffer)).2 = 0 → s'.sa = s.sa ∧ s'.isa = s.isa ∧ s'.bits = s.bits) := by
  obtain ⟨b', hb, hof, hwf⟩ := gen_pbuf_shrink s.ParserBuffer hpb hw
  generalize (PBuf.shrink (ofPB s.ParserBuffer)).2 = d at hb ⊢
  -- the test on `delta` is decided by omega in whatever spelling / arm order (`gi_ite`)
  by_cases hd : d > 0
  · obtain ⟨b1, r5, h4, h7, h8, h9⟩ := drop_facts { s with ParserBuffer := b' } hbs
    have r5' : bitset_clear s.bits = Res.ok b1 := r5
    refine ⟨dropped { s with ParserBuffer := b' } b1, ?_, hof, hwf, rfl, h9, fun _ => ⟨h4, rfl, rfl, h7, h8⟩,
      fun hc => by omega⟩
    unfold gsap_Shrink
    rw [hb, bind_ok]
    try dsimp only
    gi_ite
    simp only [trunc0_eq, r5', bind_ok]
    try rfl
  · refine ⟨{ s with ParserBuffer := b' }, ?_, hof, hwf, rfl, hbs, fun hc => absurd hc hd, fun _ => ⟨rfl, rfl, rfl⟩⟩
    unfold gsap_Shrink
    rw [hb, bind_ok]
    try dsimp only
    gi_ite
    try simp only [bind_ok]
    try rfl

/-- **`init(cfg)`**: the buffer configuration is rejected ⇒ that error, parser unchanged; accepted but the parser
    configuration rejected ⇒ that error, only the buffer initialised; both accepted ⇒ `nil`, the buffer is `PBuf.init`
    of the defaults-completed buffer configuration, the dictionary is reset, the defaults-completed configuration
    is stored. -/
theorem gen_gsap_init (s : Gen.gsap) (hbs : BSWF s.bits) (cfg : Gen.GSAPConfig) :
    let bc : Gen.BufConfig := ⟨cfg.ShrinkSize, cfg.BufferSize, cfg.WindowSize, cfg.BlockSize⟩
    (BufConfig_Verify (BufConfig_SetDefaults bc) ≠ Gen.Err.ok →
      gsap_init s cfg = Res.ok (s, BufConfig_Verify (BufConfig_SetDefaults bc))) ∧
    (BufConfig_Verify (BufConfig_SetDefaults bc) = Gen.Err.ok →
      ∃ b', ofPB b' = { PBuf.init (ofCfg (BufConfig_SetDefaults bc)) with cap := s.ParserBuffer.Data.cap } ∧ PBWF b' ∧
        (GSAPConfig_Verify (GSAPConfig_SetDefaults cfg) ≠ Gen.Err.ok →
          gsap_init s cfg = Res.ok ({ s with ParserBuffer := b' }, GSAPConfig_Verify (GSAPConfig_SetDefaults cfg))) ∧
        (GSAPConfig_Verify (GSAPConfig_SetDefaults cfg) = Gen.Err.ok →
          ∃ s', gsap_init s cfg = Res.ok (s', Gen.Err.ok) ∧ s'.ParserBuffer = b' ∧
            s'.GSAPConfig = GSAPConfig_SetDefaults cfg ∧ ofGW s' = (ofGW s).reset ∧
            s'.sa.len = 0 ∧ s'.isa.len = 0 ∧ GWF s'.sa ∧ GWF s'.isa ∧ BSWF s'.bits)) := by
  intro bc
  obtain ⟨hbad, hgood⟩ := gen_pbuf_init s.ParserBuffer bc
  refine ⟨fun hne => ?_, fun hok => ?_⟩
  · have hne' : ¬ Gen.Err.ok = BufConfig_Verify (BufConfig_SetDefaults bc) := fun h => hne h.symm
    unfold gsap_init
    simp only []
    rw [hbad hne, bind_ok]
    simp only [hne, hne', ne_eq, eq_self, not_true_eq_false, not_false_eq_true, if_true, if_false]
  · obtain ⟨b', hb, hof, hwf⟩ := hgood hok
    refine ⟨b', hof, hwf, fun hne => ?_, fun hok2 => ?_⟩
    · have hne' : ¬ Gen.Err.ok = GSAPConfig_Verify (GSAPConfig_SetDefaults cfg) := fun h => hne h.symm
      unfold gsap_init
      simp only []
      rw [hb, bind_ok]
      simp only [ne_eq, eq_self, not_true_eq_false, not_false_eq_true, if_false, if_true, hne, hne']
    · obtain ⟨b1, r5, h4, h7, h8, h9⟩ := drop_facts { s with ParserBuffer := b' } hbs
      have r5' : bitset_clear s.bits = Res.ok b1 := r5
      refine ⟨{ dropped { s with ParserBuffer := b' } b1 with GSAPConfig := GSAPConfig_SetDefaults cfg }, ?_, rfl, rfl,
        h4, rfl, rfl, h7, h8, h9⟩
      unfold gsap_init
      simp only []
      rw [hb, bind_ok]
      simp only [ne_eq, eq_self, not_true_eq_false, not_false_eq_true, if_false, if_true, hok2, trunc0_eq, r5', bind_ok]
      try rfl

end LZ.GenGSAP

#print axioms LZ.GenGSAP.gen_gsap_reset
#print axioms LZ.GenGSAP.gen_gsap_shrink
#print axioms LZ.GenGSAP.gen_gsap_init
