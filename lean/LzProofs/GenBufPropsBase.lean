/-
  LzProofs.GenBufPropsBase — what the ParserBuffer and the DecoderBuffer theorems share: the
  slice lemmas (`SWF`, `slice_ok`, `copy_spec`, `append_spec`, …) over the second prelude
  (`Gen.Slice`, `Gen.Res`) and the reading of the package-level error variables (`errOf`,
  `errVars_distinct`).  It imports no translated function.
  Part of the split of the former LzProofs/GenBufProps.lean (the generated code is emitted per
  topic: LzModel/Generated/CodePBuf.lean, CodeDBuf.lean, CodeSlicePrelude.lean, CodeErrVars.lean),
  so that a construct the translator refuses in decoder_buffer.go does not take the ParserBuffer
  theorems down, and vice versa.  All names live in `LZ.GenBuf`.
-/
import LzModel.Generated.CodeSlicePrelude
import LzModel.Generated.CodeErrVars
import LzModel.PBuf
import LzModel.DecBuf

set_option linter.unusedSimpArgs false
set_option linter.unusedVariables false

namespace LZ.GenBuf
open LZ LZ.Gen

/-! ## shape-independent comparison of a generated function with its canonical form

The proofs below were written against the text the translator emitted for the Go source at
that time.  A behaviour-preserving rewrite of the Go source (De Morgan, early returns, swapped
arms, `t+t` for `2*t`, hoisted locals) changes that text.  To keep the proofs, every function
whose proof depends on the shape has a *canonical form* (`gen_*_unfold` / `*_canon`), and the
equation "generated = canonical" is proved by `gen_eq`: split every `if` on both sides; a pair
of branches is either contradictory (linear arithmetic) or has equal leaves (syntactically, or
up to linear arithmetic in the arguments). -/

macro "gen_eq_leaf" : tactic =>
  `(tactic| first
    | rfl
    | (exfalso; omega)
    | (congr <;> first | rfl | omega)
    | (congr 1; funext _; (repeat' split) <;> first | rfl | (exfalso; omega) | (congr <;> first | rfl | omega)))

macro "gen_eq" : tactic =>
  `(tactic| ((try dsimp only) <;> (repeat' split) <;> gen_eq_leaf))

/-! ## slices -/

/-- representation invariant of a slice value: the length does not exceed the capacity -/
def SWF (s : Slice) : Prop := s.len ≤ s.arr.length

@[simp] theorem bind_ok {α β : Type} (a : α) (f : α → Res β) : Res.bind (Res.ok a) f = f a := rfl
@[simp] theorem bind_panic {α β : Type} (f : α → Res β) : Res.bind (Res.panic : Res α) f = Res.panic := rfl
@[simp] theorem bind_fuel {α β : Type} (f : α → Res β) : Res.bind (Res.fuel : Res α) f = Res.fuel := rfl

/-- `if` in the argument of a bind: used by the canonical-form lemmas to get rid of `if`s under
    the binder of the continuation (`split` cannot split those) -/
theorem bind_ite {α β : Type} (c : Prop) [Decidable c] (a b : Res α) (f : α → Res β) :
    Res.bind (if c then a else b) f = if c then Res.bind a f else Res.bind b f := by
  split <;> rfl

theorem data_length {s : Slice} (h : SWF s) : s.data.length = s.len := by
  unfold Slice.data; unfold SWF at h; simp [List.length_take]; omega

theorem slice_ok (s : Slice) (i j : Nat) (hij : i ≤ j) (hj : j ≤ s.arr.length) :
    Slice.slice s (i : Int) (j : Int) = Res.ok { arr := s.arr.drop i, len := j - i } := by
  unfold Slice.slice Slice.cap
  have : (0 : Int) ≤ i ∧ (i : Int) ≤ j ∧ (j : Int) ≤ Int.ofNat s.arr.length := by
    refine ⟨by omega, by omega, ?_⟩
    show (j : Int) ≤ (s.arr.length : Int); omega
  simp only [this, and_self, if_true, Int.toNat_natCast]

theorem slice_panic (s : Slice) (i j : Int) (h : i < 0 ∨ j < i ∨ (s.arr.length : Int) < j) :
    Slice.slice s i j = Res.panic := by
  unfold Slice.slice Slice.cap
  have : ¬ ((0 : Int) ≤ i ∧ i ≤ j ∧ j ≤ Int.ofNat s.arr.length) := by
    intro ⟨h1, h2, h3⟩
    have h3' : j ≤ (s.arr.length : Int) := h3
    omega
  simp only [this, if_false]

theorem natmin_le (a b : Nat) : Nat.min a b = if a ≤ b then a else b := by
  show Min.min a b = _
  exact Nat.min_def

/-- shifting the contents down by `d`: `n := copy(s, s[d:]); s = s[:n]` -/
theorem shift_down (s : Slice) (h : SWF s) (d : Nat) (hd : d ≤ s.len) :
    let c := Slice.copy s { arr := s.arr.drop d, len := s.len - d }
    c.2 = ((s.len - d : Nat) : Int) ∧
    ∃ s', Slice.slice c.1 0 ((s.len - d : Nat) : Int) = Res.ok s' ∧ s'.data = s.data.drop d ∧
      s'.arr.length = s.arr.length ∧ s'.len = s.len - d := by
  unfold SWF at h
  have hm : Nat.min s.len (s.len - d) = s.len - d := by rw [natmin_le]; split <;> omega
  simp only [Slice.copy, hm, Int.ofNat_eq_natCast, true_and]
  have h0 : ((0 : Nat) : Int) = 0 := rfl
  rw [← h0, slice_ok]
  · refine ⟨_, rfl, ?_, ?_, ?_⟩
    · simp only [Slice.data, List.drop_zero, Nat.sub_zero]
      rw [List.take_append_of_le_length (by simp only [List.length_take, List.length_drop]; omega)]
      rw [List.take_take, Nat.min_self, List.drop_take]
    · simp only [List.drop_zero, List.length_append, List.length_take, List.length_drop]; omega
    · simp
  · omega
  · simp only [List.length_append, List.length_take, List.length_drop]; omega

theorem take_data_eq (s : Slice) (n : Nat) (h : n ≤ s.len) : s.data.take n = s.arr.take n := by
  unfold Slice.data
  rw [List.take_take]
  congr 1; omega

/-- `copy(d, s)`: count, contents, length and capacity of the modified `d` -/
theorem copy_spec (d s : Slice) (hd : SWF d) (hs : SWF s) :
    (Slice.copy d s).2 = ((Min.min d.len s.len : Nat) : Int) ∧
    (Slice.copy d s).1.data = s.data.take d.len ++ d.data.drop (Min.min d.len s.len) ∧
    (Slice.copy d s).1.len = d.len ∧ (Slice.copy d s).1.arr.length = d.arr.length := by
  unfold SWF at hd hs
  have hm : Nat.min d.len s.len = Min.min d.len s.len := rfl
  simp only [Slice.copy, hm, Int.ofNat_eq_natCast, true_and]
  refine ⟨?_, ?_⟩
  · simp only [Slice.data]
    rw [List.take_append, List.take_take, List.take_take, List.drop_take]
    simp only [List.length_take]
    congr 1
    · congr 1; omega
    · congr 1; omega
  · simp only [List.length_append, List.length_take, List.length_drop]; omega

theorem index_spec (s : Slice) (h : SWF s) (i : Nat) (hi : i < s.len) :
    Slice.index s (i : Int) = Res.ok ((s.data[i]?).getD 0) := by
  unfold Slice.index
  have : (0 : Int) ≤ (i : Int) ∧ (i : Int) < Int.ofNat s.len := by
    refine ⟨by omega, ?_⟩; show (i : Int) < (s.len : Int); omega
  simp only [this, and_self, if_true, Int.toNat_natCast, Slice.data, List.getD_eq_getElem?_getD,
    List.getElem?_take, hi]

theorem append_spec (g : Nat → Nat → Nat) (s : Slice) (h : SWF s) (bs : List UInt8) :
    (Slice.append g s bs).data = s.data ++ bs ∧ (Slice.append g s bs).len = s.len + bs.length ∧
    (Slice.append g s bs).arr.length =
      (if s.len + bs.length ≤ s.arr.length then s.arr.length
       else s.len + bs.length + (g s.arr.length (s.len + bs.length) - (s.len + bs.length))) := by
  unfold SWF at h
  unfold Slice.append Slice.cap
  by_cases hc : s.len + bs.length ≤ s.arr.length
  · simp only [hc, if_true, Slice.data, List.length_append, List.length_take, List.length_drop, true_and]
    refine ⟨?_, by omega⟩
    rw [List.take_append_of_le_length (by simp only [List.length_append, List.length_take]; omega)]
    rw [List.take_of_length_le (by simp only [List.length_append, List.length_take]; omega)]
  · simp only [hc, if_false, Slice.data, List.length_append, List.length_take, List.length_replicate, true_and]
    refine ⟨?_, by omega⟩
    rw [List.take_append_of_le_length (by simp only [List.length_append, List.length_take]; omega)]
    rw [List.take_of_length_le (by simp only [List.length_append, List.length_take]; omega)]

theorem make_ok (n c : Nat) (h : n ≤ c) : Slice.make (n : Int) (c : Int) = Res.ok { arr := List.replicate c 0, len := n } := by
  unfold Slice.make
  have : (0 : Int) ≤ (n : Int) ∧ (n : Int) ≤ (c : Int) := ⟨by omega, by omega⟩
  simp only [this, and_self, if_true, Int.toNat_natCast]

theorem make_panic (n c : Int) (h : n < 0 ∨ c < n) : Slice.make n c = Res.panic := by
  unfold Slice.make
  have : ¬ ((0 : Int) ≤ n ∧ n ≤ c) := by omega
  simp only [this, if_false]

/-! ## errors -/

/-- the model error a generated error value stands for; `none` for every other value -/
def errOf (e : Gen.Err) : Option LZ.Err :=
  if e = Gen.Err.ok then some .ok
  else if e = Gen.ErrFullBuffer then some .full
  else if e = Gen.ErrOutOfBuffer then some .outOfBuffer
  else if e = Gen.ErrEndOfBuffer then some .endOfBuffer
  else if e = Gen.errOffset then some .offset
  else if e = Gen.errMatchLen then some .matchLen
  else if e = Gen.errLitLen then some .litLen
  else none

@[simp] theorem errOf_ok : errOf Gen.Err.ok = some .ok := by decide
@[simp] theorem errOf_full : errOf Gen.ErrFullBuffer = some .full := by decide
@[simp] theorem errOf_oob : errOf Gen.ErrOutOfBuffer = some .outOfBuffer := by decide
@[simp] theorem errOf_eob : errOf Gen.ErrEndOfBuffer = some .endOfBuffer := by decide
@[simp] theorem errOf_offset : errOf Gen.errOffset = some .offset := by decide
@[simp] theorem errOf_matchLen : errOf Gen.errMatchLen = some .matchLen := by decide
@[simp] theorem errOf_litLen : errOf Gen.errLitLen = some .litLen := by decide

/-- the error variables are pairwise distinct, and distinct from `nil` -/
theorem errVars_distinct :
    [Gen.Err.ok, Gen.ErrFullBuffer, Gen.ErrOutOfBuffer, Gen.ErrEndOfBuffer, Gen.errOffset, Gen.errMatchLen,
     Gen.errLitLen].Nodup := by
  decide

end LZ.GenBuf

/-! ### axiom audit (printed on every build) -/
#print axioms LZ.GenBuf.errVars_distinct

/-! ## shape-independent reasoning about generated code (added for the robustness work)

`okAnd r P` — the computation `r` returns normally with a value satisfying `P`.  A theorem
`∃ b', f … = Res.ok (b', v) ∧ Q b'` is proved by unfolding `f`, splitting every `if`, and
showing `okAnd leaf P` for every leaf — no leaf has to be written down. -/
namespace LZ.GenBuf
open LZ LZ.Gen

def okAnd {α : Type} (r : Res α) (P : α → Prop) : Prop := ∃ a, r = Res.ok a ∧ P a

theorem okAnd_ok {α : Type} (a : α) (P : α → Prop) : okAnd (Res.ok a) P ↔ P a :=
  ⟨fun ⟨_, e, h⟩ => by cases e; exact h, fun h => ⟨a, rfl, h⟩⟩

/-- `s[i:j]` with `Int` bounds (any expressions; the side condition is linear arithmetic) -/
theorem slice_ok_and (s : Slice) (i j : Int) (h : 0 ≤ i ∧ i ≤ j ∧ j ≤ (s.arr.length : Int)) :
    Slice.slice s i j = Res.ok { arr := s.arr.drop i.toNat, len := j.toNat - i.toNat } := by
  unfold Slice.slice Slice.cap
  have : (0 : Int) ≤ i ∧ i ≤ j ∧ j ≤ Int.ofNat s.arr.length := h
  simp only [this, and_self, if_true]

/-- the slice after `s = s[:copy(s, s[d:])]` -/
def shifted (s : Slice) (d : Nat) : Slice :=
  match Slice.slice (Slice.copy s { arr := s.arr.drop d, len := s.len - d }).1 0
      (Slice.copy s { arr := s.arr.drop d, len := s.len - d }).2 with
  | Res.ok t => t
  | _ => s

/-- `s[:copy(s, t)]` where `t` is `s[i:]` (as `slice_ok_and` leaves it) -/
theorem shift_copy (s : Slice) (h : SWF s) (i : Int) (hi : 0 ≤ i ∧ i ≤ (s.len : Int)) (n : Nat)
    (hn : n = s.len - i.toNat) :
    Slice.slice (Slice.copy s { arr := s.arr.drop i.toNat, len := n }).1 0
      (Slice.copy s { arr := s.arr.drop i.toNat, len := n }).2 = Res.ok (shifted s i.toNat) := by
  subst hn
  obtain ⟨hc, s', hs', _⟩ := shift_down s h i.toNat (by omega)
  unfold shifted
  rw [hc, hs']

theorem shifted_spec (s : Slice) (h : SWF s) (d : Nat) (hd : d ≤ s.len) :
    (shifted s d).data = s.data.drop d ∧ (shifted s d).arr.length = s.arr.length ∧
    (shifted s d).len = s.len - d := by
  obtain ⟨hc, s', hs', h1, h2, h3⟩ := shift_down s h d hd
  have : shifted s d = s' := by unfold shifted; rw [hc, hs']
  rw [this]; exact ⟨h1, h2, h3⟩

theorem shifted_data (s : Slice) (h : SWF s) (d D : Nat) (hd : d ≤ s.len) (e : d = D) :
    (shifted s d).data = s.data.drop D := e ▸ (shifted_spec s h d hd).1

theorem shifted_cap (s : Slice) (h : SWF s) (d : Nat) (hd : d ≤ s.len) :
    (shifted s d).arr.length = s.arr.length := (shifted_spec s h d hd).2.1

theorem shifted_swf (s : Slice) (h : SWF s) (d : Nat) (hd : d ≤ s.len) : SWF (shifted s d) := by
  obtain ⟨_, h2, h3⟩ := shifted_spec s h d hd
  unfold SWF at *; omega

theorem drop_of_eq_zero {α : Type} (l : List α) (D : Nat) (h : D = 0) : l = l.drop D := by
  subst h; rfl

end LZ.GenBuf
