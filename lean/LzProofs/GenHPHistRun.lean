/-
  LzProofs.GenHPHistRun — HISTORIES of translated operations of the hash parser HP, and C01 stated about the
  translation of the Go text.  No sorry, no axioms of its own.

  `GOp`    one call on a Go `*hashParser`: `Write(p)`, `Parse(&blk, flags)`, `Shrink()`, `Reset(data)` — the methods of
           `hashParser` that `tools/extract` translates (LzProofs/GenHPHist.lean explains the promotion through the
           embedded structs; `ReadFrom` is not translated, `Parse(nil, …)` is excluded by the topic assumption).
           The arguments are Go VALUES: `p`, `data : Gen.Slice` (backing array and length, so `cap(data)` is what it is
           in Go), `blk : Gen.Block'` (the block the caller passes in, with whatever it holds), `flags : Int`.
  `GRes`   what the call returns (and, for `Parse`, the block after the call).
  `runG grow fuel s ops`   executes the TRANSLATED functions one after the other, threading the Go state; `grow` is the
           capacity policy of `append`, `fuel` the bound handed to the loops of `Parse`.
  `GOp.WF` the domain: slices have `len ≤ cap` (every Go slice has), `flags ≥ 0` (the model's flags are natural
           numbers; `Parse` tests `flags&1`).
  `ghostRun`  the bookkeeping of C01 computed from the Go calls and the Go results alone: the bytes accepted since the
           last successful `Reset`, the sum of the `n` of the successful `Parse` calls, the blocks they returned
           (`ofBlock`: the fields of `Seq` as natural numbers).

  Theorems
    stepG_sim / runG_sim   from ANY Go state with `HistOK` (GenHPHist), for every list of well-formed operations: `runG`
                     is `Res.ok`; `HistOK` (hence `ParseOK`) holds in the state reached; that state abstracts to the
                     model state `runOps` reaches with the abstracted operations; every result equals the model's
                     (`ResultsAgree`); `ghostRun` is the model's ghost.
    runG_append      the states `runG` passes through are the final states of `runG` on the prefixes
    gen_hp_history   the same from `hashParser.init` on `new(hashParser)` for every configuration it accepts
    gen_hp_history_states   … and `ParseOK` holds after every prefix of the history (every reached state)
    C01_go_text_hp   C01 about the translation: for every configuration `cfg` with `hashParser.init(cfg) = nil`, every
                     growth policy, every history of well-formed calls, `runG` does not panic and the reference decoder
                     applied to the blocks RETURNED BY THE TRANSLATED `Parse` yields exactly the consumed prefix of the
                     bytes ACCEPTED BY THE TRANSLATED `Write` / `Reset`.  The hand model does not occur in the
                     statement (only the reference decoder `decode`/`expand` and the record `Ghost`).
    C02_go_text_hp, C03_go_text_hp   likewise the well-formedness of every sequence and the tiling of the stream.
-/
import LzProofs.GenHPHist

set_option linter.unusedSimpArgs false
set_option linter.unusedVariables false

namespace LZ.GenHPHist
open LZ LZ.Gen LZ.GenBuf LZ.GenHash LZ.GenHPParse LZ.GenProps

/-- one call on a Go `*hashParser` -/
inductive GOp where
  | write (p : Slice)
  | parse (blk : Gen.Block') (flags : Int)
  | shrink
  | reset (data : Slice)
deriving Repr

/-- what the call returned -/
inductive GRes where
  | write (n : Int) (err : Gen.Err)
  | parse (blk : Gen.Block') (n : Int) (err : Gen.Err)
  | shrink (delta : Int)
  | reset (err : Gen.Err)
deriving Repr, DecidableEq

/-- the domain of the theorems: Go slices have `len ≤ cap`; `flags ≥ 0` -/
def GOp.WF : GOp → Prop
  | .write p => SWF p
  | .parse _ flags => 0 ≤ flags
  | .shrink => True
  | .reset data => SWF data

/-- one call, on the translated functions -/
def stepG (grow : Nat → Nat → Nat) (fuel : Nat) (s : Gen.hashParser) : GOp → Res (Gen.hashParser × GRes)
  | .write p => Res.bind (hp_Write grow s p) fun r => Res.ok (r.1, .write r.2.1 r.2.2)
  | .parse blk flags =>
    Res.bind (hashParser_Parse grow fuel s blk flags) fun r => Res.ok (r.1, .parse r.2.1 r.2.2.1 r.2.2.2)
  | .shrink => Res.bind (hp_Shrink s) fun r => Res.ok (r.1, .shrink r.2)
  | .reset data => Res.bind (hp_Reset s data) fun r => Res.ok (r.1, .reset r.2)

/-- a history of calls; the results in order -/
def runG (grow : Nat → Nat → Nat) (fuel : Nat) : Gen.hashParser → List GOp → Res (Gen.hashParser × List GRes)
  | s, [] => Res.ok (s, [])
  | s, op :: ops =>
    Res.bind (stepG grow fuel s op) fun r =>
    Res.bind (runG grow fuel r.1 ops) fun q => Res.ok (q.1, r.2 :: q.2)

/-- the model operation a Go call stands for -/
def GOp.abs : GOp → POp
  | .write p => .write p.data
  | .parse _ flags => .parse flags.toNat
  | .shrink => .shrink
  | .reset data => .reset data.data (data.cap - data.len)

/-- the result of one Go call equals the result of the model operation on the model state `m` -/
def resAgree (m : Parser) : GOp → GRes → Prop
  | .write p, .write n e => n = ((m.write p.data).2.1 : Int) ∧ errOf e = some (m.write p.data).2.2
  | .parse _ flags, .parse blk' n e =>
    n = ((m.parse flags.toNat).2.1 : Int) ∧ e = parseErr (m.parse flags.toNat).2.2.1 ∧
    ofBlock blk' = (m.parse flags.toNat).2.2.2 ∧ SWF blk'.Literals
  | .shrink, .shrink d => d = (m.shrink.2 : Int)
  | .reset data, .reset e => errOfReset e = some (m.reset data.data (data.cap - data.len)).2
  | _, _ => False

/-- … along a history -/
def ResultsAgree : Parser × Ghost → List GOp → List GRes → Prop
  | _, [], [] => True
  | sg, op :: ops, r :: rs => resAgree sg.1 op r ∧ ResultsAgree (step sg op.abs) ops rs
  | _, _, _ => False

/-- the C01 bookkeeping from the Go calls and results alone -/
def ghostStep (g : Ghost) : GOp → GRes → Ghost
  | .write p, .write n _ => { g with fed := g.fed ++ p.data.take n.toNat }
  | .parse _ flags, .parse blk' n e =>
    if e = Gen.Err.ok then
      { g with consumed := g.consumed + n.toNat, log := g.log ++ [.block n.toNat flags.toNat (ofBlock blk')] }
    else g
  | .reset data, .reset e => if e = Gen.Err.ok then { fed := data.data, consumed := 0, log := [] } else g
  | _, _ => g

def ghostRun : Ghost → List GOp → List GRes → Ghost
  | g, op :: ops, r :: rs => ghostRun (ghostStep g op r) ops rs
  | g, _, _ => g

/-! ## one step -/

theorem bind_ok' {α β : Type} (a : α) (f : α → Res β) : Res.bind (Res.ok a) f = f a := rfl


theorem parseErr_ok_iff (e : LZ.Err) (h : e = .ok ∨ e = .empty) : parseErr e = Gen.Err.ok ↔ e = .ok := by
  rcases h with rfl | rfl
  · exact ⟨fun _ => rfl, fun _ => rfl⟩
  · constructor
    · intro hc; exact absurd hc (by decide)
    · intro hc; cases hc

theorem step_parse_fst (sg : Parser × Ghost) (flags : Nat) : (step sg (.parse flags)).1 = (sg.1.parse flags).1 := by
  simp only [step]; split <;> rfl

theorem step_reset_fst (sg : Parser × Ghost) (d : List Byte) (c : Nat) :
    (step sg (.reset d c)).1 = (sg.1.reset d c).1 := by
  simp only [step]; split <;> rfl

theorem stepG_sim {bc : BufCfg} (hbc : BCOK bc) (grow : Nat → Nat → Nat) (fuel : Nat) (hfuel : bc.bufferSize + 3 ≤ fuel)
    (t : Gen.hashParser) (g : Ghost) (h : HistOK bc t) (op : GOp) (hop : op.WF) :
    ∃ t' r, stepG grow fuel t op = Res.ok (t', r) ∧ HistOK bc t' ∧
      ofHPs t' = (step (ofHPs t, g) op.abs).1 ∧ ghostStep g op r = (step (ofHPs t, g) op.abs).2 ∧
      resAgree (ofHPs t) op r := by
  cases op with
  | write p =>
    obtain ⟨t', n, e, h1, h2, h3, h4, h5, h6⟩ := hist_write hbc grow t h p hop
    refine ⟨t', .write n e, ?_, h2, h3, ?_, h4, h5⟩
    · simp only [stepG, h1]; rfl
    · simp only [ghostStep, step, GOp.abs, h4, Int.toNat_natCast]
  | parse blk flags =>
    obtain ⟨t', blk', h1, h2, h3, h4, h5, h6⟩ := hist_parse hbc grow fuel t h blk flags hop (by have := h.len; omega)
    refine ⟨t', .parse blk' _ _, ?_, h2, ?_, ?_, rfl, rfl, h4, h5⟩
    · simp only [stepG, h1]; rfl
    · rw [GOp.abs, step_parse_fst]; exact h3
    · simp only [ghostStep, step, GOp.abs, parseErr_ok_iff _ h6, Int.toNat_natCast, h4]
      split <;> rfl
  | shrink =>
    obtain ⟨t', h1, h2, h3⟩ := hist_shrink hbc t h
    refine ⟨t', .shrink _, ?_, h2, h3, rfl, rfl⟩
    simp only [stepG, h1]; rfl
  | reset data =>
    obtain ⟨t', e, h1, h2, h3, h4⟩ := hist_reset hbc t h data hop
    refine ⟨t', .reset e, ?_, h2, ?_, ?_, h4⟩
    · simp only [stepG, h1]; rfl
    · rw [GOp.abs, step_reset_fst]; exact h3
    · simp only [ghostStep, step, GOp.abs, errOfReset_ok_iff e _ h4]
      split <;> rfl

/-! ## histories -/

/-- **Simulation**, from any Go state satisfying the invariant. -/
theorem runG_sim {bc : BufCfg} (hbc : BCOK bc) (grow : Nat → Nat → Nat) (fuel : Nat) (hfuel : bc.bufferSize + 3 ≤ fuel) :
    ∀ (ops : List GOp) (t : Gen.hashParser) (g : Ghost), HistOK bc t → (∀ op ∈ ops, op.WF) →
      ∃ t' rs, runG grow fuel t ops = Res.ok (t', rs) ∧ HistOK bc t' ∧
        ofHPs t' = (runOps (ofHPs t, g) (ops.map GOp.abs)).1 ∧
        ghostRun g ops rs = (runOps (ofHPs t, g) (ops.map GOp.abs)).2 ∧
        ResultsAgree (ofHPs t, g) ops rs := by
  intro ops
  induction ops with
  | nil => intro t g h _; exact ⟨t, [], rfl, h, rfl, rfl, trivial⟩
  | cons op ops ih =>
    intro t g h hwf
    obtain ⟨t1, r, h1, h2, h3, h4, h5⟩ :=
      stepG_sim hbc grow fuel hfuel t g h op (hwf op (List.mem_cons_self ..))
    obtain ⟨t', rs, k1, k2, k3, k4, k5⟩ := ih t1 (ghostStep g op r) h2 (fun o ho => hwf o (List.mem_cons_of_mem _ ho))
    have hsg : step (ofHPs t, g) op.abs = (ofHPs t1, ghostStep g op r) := by
      rw [h3, h4]
    refine ⟨t', r :: rs, ?_, k2, ?_, ?_, h5, ?_⟩
    · show Res.bind (stepG grow fuel t op) _ = _
      rw [h1]
      show Res.bind (runG grow fuel t1 ops) _ = _
      rw [k1]; rfl
    · show _ = (runOps (step (ofHPs t, g) op.abs) (ops.map GOp.abs)).1
      rw [hsg]; exact k3
    · show ghostRun (ghostStep g op r) ops rs = (runOps (step (ofHPs t, g) op.abs) (ops.map GOp.abs)).2
      rw [hsg]; exact k4
    · show ResultsAgree (step (ofHPs t, g) op.abs) ops rs
      rw [hsg]; exact k5

/-- the states a history passes through are the final states of its prefixes -/
theorem runG_append (grow : Nat → Nat → Nat) (fuel : Nat) : ∀ (a b : List GOp) (s : Gen.hashParser),
    runG grow fuel s (a ++ b) =
      Res.bind (runG grow fuel s a) fun r => Res.bind (runG grow fuel r.1 b) fun q => Res.ok (q.1, r.2 ++ q.2) := by
  intro a
  induction a with
  | nil =>
    intro b s
    simp only [List.nil_append, runG, bind_ok', List.nil_append]
    cases runG grow fuel s b with
    | ok v => rfl
    | panic => rfl
    | fuel => rfl
  | cons op a ih =>
    intro b s
    simp only [List.cons_append, runG]
    cases hs : stepG grow fuel s op with
    | ok v =>
      simp only [bind_ok', ih]
      cases runG grow fuel v.1 a with
      | ok w =>
        simp only [bind_ok']
        cases runG grow fuel w.1 b with
        | ok u => rfl
        | panic => rfl
        | fuel => rfl
      | panic => rfl
      | fuel => rfl
    | panic => rfl
    | fuel => rfl

/-- **`gen_hp_history`.**  `hashParser.init(cfg)` on `new(hashParser)` returned `nil`; then for every history of
    well-formed calls the translated functions never panic and never run out of fuel, the state reached satisfies
    `ParseOK`, abstracts to the state the model reaches from `NewParser` with the abstracted history, and every
    returned value — `n`, the error, the block — is the model's. -/
theorem gen_hp_history (cfg : Gen.HPConfig) (s0 : Gen.hashParser)
    (hinit : hashParser_init default cfg = Res.ok (s0, Gen.Err.ok))
    (grow : Nat → Nat → Nat) (fuel : Nat)
    (hfuel : s0.hashDictionary.ParserBuffer.BufConfig.BufferSize.toNat + 3 ≤ fuel)
    (ops : List GOp) (hwf : ∀ op ∈ ops, op.WF) :
    ∃ p t rs, newParser .HP (ofHP cfg) = some p ∧ ofHPs s0 = p ∧
      runG grow fuel s0 ops = Res.ok (t, rs) ∧ ParseOK t ∧
      ofHPs t = (runOps (p, Ghost.init) (ops.map GOp.abs)).1 ∧
      ghostRun Ghost.init ops rs = (runOps (p, Ghost.init) (ops.map GOp.abs)).2 ∧
      ResultsAgree (p, Ghost.init) ops rs := by
  obtain ⟨p, hp, h2, hbc, hH⟩ := hist_init cfg s0 hinit
  have hf : p.buf.cfg.bufferSize + 3 ≤ fuel := by
    have : p.buf.cfg = ofCfg s0.hashDictionary.ParserBuffer.BufConfig := hH.cfg.symm
    rw [this]; exact hfuel
  obtain ⟨t, rs, k1, k2, k3, k4, k5⟩ := runG_sim hbc grow fuel hf ops s0 Ghost.init hH hwf
  rw [h2] at k3 k4 k5
  exact ⟨p, t, rs, hp, h2, k1, k2.pok, k3, k4, k5⟩

/-- … and `ParseOK` holds in EVERY state the history passes through: after every prefix `ops.take k` the run is
    `Res.ok` with a state satisfying `ParseOK`, and the whole run continues from that state (`runG_append`). -/
theorem gen_hp_history_states (cfg : Gen.HPConfig) (s0 : Gen.hashParser)
    (hinit : hashParser_init default cfg = Res.ok (s0, Gen.Err.ok))
    (grow : Nat → Nat → Nat) (fuel : Nat)
    (hfuel : s0.hashDictionary.ParserBuffer.BufConfig.BufferSize.toNat + 3 ≤ fuel)
    (ops : List GOp) (hwf : ∀ op ∈ ops, op.WF) (k : Nat) :
    ∃ tk rk t rs', runG grow fuel s0 (ops.take k) = Res.ok (tk, rk) ∧ ParseOK tk ∧
      runG grow fuel tk (ops.drop k) = Res.ok (t, rs') ∧ runG grow fuel s0 ops = Res.ok (t, rk ++ rs') := by
  obtain ⟨p, hp, h2, hbc, hH⟩ := hist_init cfg s0 hinit
  have hf : p.buf.cfg.bufferSize + 3 ≤ fuel := by
    have : p.buf.cfg = ofCfg s0.hashDictionary.ParserBuffer.BufConfig := hH.cfg.symm
    rw [this]; exact hfuel
  obtain ⟨tk, rk, k1, k2, -⟩ := runG_sim hbc grow fuel hf (ops.take k) s0 Ghost.init hH
    (fun o ho => hwf o (List.mem_of_mem_take ho))
  obtain ⟨t, rs', j1, -⟩ := runG_sim hbc grow fuel hf (ops.drop k) tk Ghost.init k2
    (fun o ho => hwf o (List.mem_of_mem_drop ho))
  refine ⟨tk, rk, t, rs', k1, k2.pok, j1, ?_⟩
  have := runG_append grow fuel (ops.take k) (ops.drop k) s0
  rw [List.take_append_drop, k1, bind_ok'] at this
  simp only at this
  rw [this, j1]; rfl

/-! ## the property theorems about the translation -/

/-- **C01 about the Go text of HP.**  `cfg` is any configuration for which the translated `hashParser.init`, called
    on the zero value, returns `nil`.  Run any history of `Write(p)`, `Parse(&blk, flags)`, `Shrink()`, `Reset(data)`
    (slices with `len ≤ cap`, `flags ≥ 0`) on the TRANSLATED functions, with any capacity policy for `append` and any
    `fuel ≥ BufferSize + 3`.  Then no call panics or runs out of fuel, and the reference decoder, applied to the blocks
    the translated `Parse` returned since the last successful `Reset`, yields exactly the first `consumed` bytes of
    what the translated `Write` / `Reset` accepted since then, `consumed` = the sum of the returned `n`. -/
theorem C01_go_text_hp (cfg : Gen.HPConfig) (s0 : Gen.hashParser)
    (hinit : hashParser_init default cfg = Res.ok (s0, Gen.Err.ok))
    (grow : Nat → Nat → Nat) (fuel : Nat)
    (hfuel : s0.hashDictionary.ParserBuffer.BufConfig.BufferSize.toNat + 3 ≤ fuel)
    (ops : List GOp) (hwf : ∀ op ∈ ops, op.WF) :
    ∃ t rs, runG grow fuel s0 ops = Res.ok (t, rs) ∧
      decode [] (ghostRun Ghost.init ops rs).log =
        some ((ghostRun Ghost.init ops rs).fed.take (ghostRun Ghost.init ops rs).consumed) := by
  obtain ⟨p, t, rs, hp, -, h1, -, -, h4, -⟩ := gen_hp_history cfg s0 hinit grow fuel hfuel ops hwf
  refine ⟨t, rs, h1, ?_⟩
  rw [h4]
  exact C01_roundtrip .HP (ofHP cfg) p hp (histHyp_of_ne .HP p (by decide)) (ops.map GOp.abs)

/-- **C02 about the Go text of HP**: every sequence of every block the translated `Parse` returned has
    `1 ≤ Offset ≤ WindowSize`, `Offset ≤` the stream bytes before its match, `MatchLen ≥ min(3, InputLen)`, `Aux = 0`,
    and the `LitLen`s of a block do not exceed its literals. -/
theorem C02_go_text_hp (cfg : Gen.HPConfig) (s0 : Gen.hashParser)
    (hinit : hashParser_init default cfg = Res.ok (s0, Gen.Err.ok))
    (grow : Nat → Nat → Nat) (fuel : Nat)
    (hfuel : s0.hashDictionary.ParserBuffer.BufConfig.BufferSize.toNat + 3 ≤ fuel)
    (ops : List GOp) (hwf : ∀ op ∈ ops, op.WF) :
    ∃ t rs, runG grow fuel s0 ops = Res.ok (t, rs) ∧
      LogAll (fun pos e => ∀ n fl blk, e = .block n fl blk →
        SeqsAll (SeqWF s0.hashDictionary.ParserBuffer.BufConfig.WindowSize.toNat
          (Min.min 3 s0.HPConfig.InputLen.toNat)) pos blk.seqs ∧
        litSum blk.seqs ≤ blk.lits.length) 0 (ghostRun Ghost.init ops rs).log := by
  obtain ⟨p, t, rs, hp, h0, h1, -, -, h4, -⟩ := gen_hp_history cfg s0 hinit grow fuel hfuel ops hwf
  subst h0
  refine ⟨t, rs, h1, ?_⟩
  rw [h4]
  exact C02_wellformed .HP (ofHP cfg) _ hp (histHyp_of_ne .HP _ (by decide)) (ops.map GOp.abs)

/-- **C03 about the Go text of HP**: the blocks tile the consumed stream — each has `1 ≤ n ≤ BlockSize`, represents
    exactly `n` bytes (`Block.Len`), expands the stream up to its start to the stream up to its end; the `n` add up
    to `consumed`, which never exceeds what was fed. -/
theorem C03_go_text_hp (cfg : Gen.HPConfig) (s0 : Gen.hashParser)
    (hinit : hashParser_init default cfg = Res.ok (s0, Gen.Err.ok))
    (grow : Nat → Nat → Nat) (fuel : Nat)
    (hfuel : s0.hashDictionary.ParserBuffer.BufConfig.BufferSize.toNat + 3 ≤ fuel)
    (ops : List GOp) (hwf : ∀ op ∈ ops, op.WF) :
    ∃ t rs, runG grow fuel s0 ops = Res.ok (t, rs) ∧
      let g := ghostRun Ghost.init ops rs
      LogAll (fun pos e => 1 ≤ e.n ∧ e.n ≤ s0.hashDictionary.ParserBuffer.BufConfig.BlockSize.toNat ∧
        pos + e.n ≤ g.fed.length ∧
        ∀ n fl blk, e = .block n fl blk →
          blk.len = n ∧ expand (g.fed.take pos) blk = some (g.fed.take (pos + n)) ∧
          (fl % 2 = 1 → blk.seqs ≠ [] → blk.lits.length = litSum blk.seqs ∧ n = seqsSpan blk.seqs)) 0 g.log ∧
      logSpan g.log = g.consumed ∧ g.consumed ≤ g.fed.length := by
  obtain ⟨p, t, rs, hp, h0, h1, -, -, h4, -⟩ := gen_hp_history cfg s0 hinit grow fuel hfuel ops hwf
  subst h0
  refine ⟨t, rs, h1, ?_⟩
  intro g
  have hg : g = (runOps (ofHPs s0, Ghost.init) (ops.map GOp.abs)).2 := h4
  have := C03_contiguous .HP (ofHP cfg) _ hp (histHyp_of_ne .HP _ (by decide)) (ops.map GOp.abs)
  obtain ⟨a1, a2, a3, a4⟩ := this
  rw [hg]
  exact ⟨a1, a2, a4⟩

end LZ.GenHPHist

#print axioms LZ.GenHPHist.stepG_sim
#print axioms LZ.GenHPHist.runG_sim
#print axioms LZ.GenHPHist.runG_append
#print axioms LZ.GenHPHist.gen_hp_history
#print axioms LZ.GenHPHist.gen_hp_history_states
#print axioms LZ.GenHPHist.C01_go_text_hp
#print axioms LZ.GenHPHist.C02_go_text_hp
#print axioms LZ.GenHPHist.C03_go_text_hp
