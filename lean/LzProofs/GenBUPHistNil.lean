/-
  LzProofs.GenBUPHistNil — histories of the translated operations of the bucket parser BUP WITH `Parse(nil, flags)`, and
  property C14 about the Go text (port of LzProofs/GenHPHistNil.lean).  Continues GenBUPHist / GenBUPShrink /
  GenBUPHistRun (whose per-operation lemmas are reused unchanged); the new operation is
  `bucketParser_Parse_nilable … true ghost flags` (LzProofs/GenBUPParseNil.lean).  No sorry, no axioms of its own.

    hist_parseNil       one `Parse(nil)`: never panics, returns the model's `n` / error, hands the ghost block back
                        unchanged, preserves `HistOKU`, changes only `W` and the table (needs neither `LcpSpec` nor
                        `ShiftSpec`)
    GOpN, stepN, runN   a call = a call of GenBUPHistRun (`Write`, `ReadFrom`, `Parse(&blk)`, `Reset`, `Shrink`) or
                        `parseNil ghost flags` (every ghost value, every `flags`, also negative)
    runN_sim, gen_bup_history_nil   the simulation (model operation `.parseNil`, ghost log entry `Event.skip`)
    C01_go_text_bup_nil C01 for histories WITH `Parse(nil)`: the log — blocks and the skipped bytes verbatim — decodes
                        to the consumed prefix;  C03_go_text_bup_nil, C14_skip_go_text_bup likewise
    C14_go_text_bup     after ANY such history: `Parse(nil, flags)` returns the same `n` and error as `Parse(&blk, 0)`
                        from the same state, leaves the same `Data` and `W`, `n = min(BlockSize, len(Data) - W)`,
                        `ErrEmptyBuffer` iff `n = 0`, and writes nothing (the ghost block comes back unchanged)
  `lcp` / `SO` are the opaque callees of `Parse(&blk)` / `Shrink` under `LcpSpec lcp` / `ShiftSpec SO`, as in
  GenBUPHistRun.
-/
import LzProofs.GenBUPParseNil
import LzProofs.GenBUPHistRun
import LzProofs.GenHPHistNil
import LzProofs.GenNilShared

set_option linter.unusedSimpArgs false
set_option linter.unusedVariables false

namespace LZ.GenBUPHist
open LZ LZ.Gen LZ.GenBuf LZ.GenHash LZ.GenHPParse LZ.GenBUPParse LZ.GenProps LZ.GenNil
open LZ.GenHPHist (BCOK RFun RFSpec genErr rfGo rfGo_spec bind_ok' parseErr_ok_iff slice_ext step_parseNil_fst)

theorem hist_parseNil {bc : BufCfg} (hbc : BCOK bc) (grow : Nat → Nat → Nat) (fuel : Nat) (lcp : Slice → Slice → Int)
    (t : Gen.bucketParser)
    (h : HistOKU bc t) (ghost : Gen.Block') (flags : Int)
    (hfuel : t.bucketDictionary.ParserBuffer.Data.len + 2 ≤ fuel) :
    ∃ t', bucketParser_Parse_nilable grow fuel lcp t true ghost flags =
        Res.ok (t', ghost, (((ofBUPs t).parseNil).2.1 : Int), parseErr ((ofBUPs t).parseNil).2.2) ∧
      HistOKU bc t' ∧ ofBUPs t' = ((ofBUPs t).parseNil).1 ∧
      t'.bucketDictionary.ParserBuffer.Data = t.bucketDictionary.ParserBuffer.Data ∧
      t'.bucketDictionary.ParserBuffer.W = (((ofBUPs t).parseNil).1.buf.w : Int) := by
  have hil8 : t.bucketDictionary.bucketHash.inputLen ≤ 8 := by
    have h1 := h.pok.il1
    have h2 := h.pok.cil
    have h3 := h.il8
    omega
  obtain ⟨t', h1, h2, h3, h4, -, -, -, -, -, -, g', h5⟩ :=
    gen_bup_parseNil_model grow fuel lcp t ghost flags h.pok hfuel h.cap hil8
  subst h5
  exact ⟨_, h1, ⟨h4, h.cfg, h.len, h.cap, h.il8⟩, h2, rfl, rfl⟩

/-! ## histories with `Parse(nil)` -/

inductive GOpN where
  | r (op : GOpU)
  /-- `Parse(nil, flags)`; `ghost` is the value that accompanies the nil flag (never looked at) -/
  | parseNil (ghost : Gen.Block') (flags : Int)

inductive GResN where
  | r (res : GResU)
  /-- the block value handed back (the ghost), `n`, the error -/
  | parseNil (blk : Gen.Block') (n : Int) (err : Gen.Err)

def GOpN.WF : GOpN → Prop
  | .r op => op.WF
  | .parseNil _ _ => True

def GOpN.abs : GOpN → POp
  | .r op => op.abs
  | .parseNil _ _ => .parseNil

def stepN (RF : RFun) (grow : Nat → Nat → Nat) (fuel : Nat) (lcp : Slice → Slice → Int) (SO : SOFun)
    (s : Gen.bucketParser) : GOpN → Res (Gen.bucketParser × GResN)
  | .r op => Res.bind (stepU RF grow fuel lcp SO s op) fun x => Res.ok (x.1, .r x.2)
  | .parseNil ghost flags =>
    Res.bind (bucketParser_Parse_nilable grow fuel lcp s true ghost flags) fun x =>
      Res.ok (x.1, .parseNil x.2.1 x.2.2.1 x.2.2.2)

def runN (RF : RFun) (grow : Nat → Nat → Nat) (fuel : Nat) (lcp : Slice → Slice → Int) (SO : SOFun) :
    Gen.bucketParser → List GOpN → Res (Gen.bucketParser × List GResN)
  | s, [] => Res.ok (s, [])
  | s, op :: ops =>
    Res.bind (stepN RF grow fuel lcp SO s op) fun x =>
    Res.bind (runN RF grow fuel lcp SO x.1 ops) fun q => Res.ok (q.1, x.2 :: q.2)

def resAgreeN (m : Parser) : GOpN → GResN → Prop
  | .r op, .r res => resAgreeU m op res
  | .parseNil ghost _, .parseNil blk' n e =>
    n = ((m.parseNil).2.1 : Int) ∧ e = parseErr (m.parseNil).2.2 ∧ blk' = ghost
  | _, _ => False

def ResultsAgreeN : Parser × Ghost → List GOpN → List GResN → Prop
  | _, [], [] => True
  | sg, op :: ops, r :: rs => resAgreeN sg.1 op r ∧ ResultsAgreeN (step sg op.abs) ops rs
  | _, _, _ => False

/-- the C01 / C14 bookkeeping from the Go calls and results alone: a successful `Parse(nil)` hands the next `n` bytes of
    the stream to the decoder verbatim -/
def ghostStepN (g : Ghost) : GOpN → GResN → Ghost
  | .r op, .r res => ghostStepU g op res
  | .parseNil _ _, .parseNil _ n e =>
    if e = Gen.Err.ok then
      { g with consumed := g.consumed + n.toNat, log := g.log ++ [.skip ((g.fed.drop g.consumed).take n.toNat)] }
    else g
  | _, _ => g

def ghostRunN : Ghost → List GOpN → List GResN → Ghost
  | g, op :: ops, r :: rs => ghostRunN (ghostStepN g op r) ops rs
  | g, _, _ => g

theorem stepN_sim {bc : BufCfg} (hbc : BCOK bc) (RF : RFun) (hRF : RFSpec RF) (grow : Nat → Nat → Nat) (fuel : Nat)
    (lcp : Slice → Slice → Int) (hlcp : LcpSpec lcp)
    (SO : SOFun) (hSO : ShiftSpec SO)
    (hfuel : bc.bufferSize + 3 ≤ fuel) (t : Gen.bucketParser) (g : Ghost) (h : HistOKU bc t) (op : GOpN) (hop : op.WF) :
    ∃ t' r, stepN RF grow fuel lcp SO t op = Res.ok (t', r) ∧ HistOKU bc t' ∧
      ofBUPs t' = (step (ofBUPs t, g) op.abs).1 ∧ ghostStepN g op r = (step (ofBUPs t, g) op.abs).2 ∧
      resAgreeN (ofBUPs t) op r := by
  cases op with
  | r op =>
    obtain ⟨t', r, h1, h2, h3, h4, h5⟩ := stepU_sim hbc RF hRF grow fuel lcp hlcp SO hSO hfuel t g h op hop
    refine ⟨t', .r r, ?_, h2, h3, h4, h5⟩
    simp only [stepN, h1]; rfl
  | parseNil ghost flags =>
    obtain ⟨t', h1, h2, h3, -, -⟩ := hist_parseNil hbc grow fuel lcp t h ghost flags (by have := h.len; omega)
    refine ⟨t', .parseNil ghost _ _, ?_, h2, ?_, ?_, rfl, rfl, rfl⟩
    · simp only [stepN, h1]; rfl
    · rw [GOpN.abs, step_parseNil_fst]; exact h3
    · simp only [ghostStepN, step, GOpN.abs, parseErr_ok_iff _ (parseNil_err _), Int.toNat_natCast]
      split <;> rfl

theorem runN_sim {bc : BufCfg} (hbc : BCOK bc) (RF : RFun) (hRF : RFSpec RF) (grow : Nat → Nat → Nat) (fuel : Nat)
    (lcp : Slice → Slice → Int) (hlcp : LcpSpec lcp)
    (SO : SOFun) (hSO : ShiftSpec SO)
    (hfuel : bc.bufferSize + 3 ≤ fuel) :
    ∀ (ops : List GOpN) (t : Gen.bucketParser) (g : Ghost), HistOKU bc t → (∀ op ∈ ops, op.WF) →
      ∃ t' rs, runN RF grow fuel lcp SO t ops = Res.ok (t', rs) ∧ HistOKU bc t' ∧
        ofBUPs t' = (runOps (ofBUPs t, g) (ops.map GOpN.abs)).1 ∧
        ghostRunN g ops rs = (runOps (ofBUPs t, g) (ops.map GOpN.abs)).2 ∧
        ResultsAgreeN (ofBUPs t, g) ops rs := by
  intro ops
  induction ops with
  | nil => intro t g h _; exact ⟨t, [], rfl, h, rfl, rfl, trivial⟩
  | cons op ops ih =>
    intro t g h hwf
    obtain ⟨t1, r, h1, h2, h3, h4, h5⟩ :=
      stepN_sim hbc RF hRF grow fuel lcp hlcp SO hSO hfuel t g h op (hwf op (List.mem_cons_self ..))
    obtain ⟨t', rs, k1, k2, k3, k4, k5⟩ := ih t1 (ghostStepN g op r) h2 (fun o ho => hwf o (List.mem_cons_of_mem _ ho))
    have hsg : step (ofBUPs t, g) op.abs = (ofBUPs t1, ghostStepN g op r) := by
      rw [h3, h4]
    refine ⟨t', r :: rs, ?_, k2, ?_, ?_, h5, ?_⟩
    · show Res.bind (stepN RF grow fuel lcp SO t op) _ = _
      rw [h1]
      show Res.bind (runN RF grow fuel lcp SO t1 ops) _ = _
      rw [k1]; rfl
    · show _ = (runOps (step (ofBUPs t, g) op.abs) (ops.map GOpN.abs)).1
      rw [hsg]; exact k3
    · show ghostRunN (ghostStepN g op r) ops rs = (runOps (step (ofBUPs t, g) op.abs) (ops.map GOpN.abs)).2
      rw [hsg]; exact k4
    · show ResultsAgreeN (step (ofBUPs t, g) op.abs) ops rs
      rw [hsg]; exact k5

/-- the simulation from `bucketParser.init` for histories of Write / ReadFrom / Parse(&blk) / Parse(nil) / Reset / Shrink,
    every operation a translated function (`ReadFrom` against the scripted reader) -/
theorem gen_bup_history_nil (cfg : Gen.BUPConfig) (s0 : Gen.bucketParser)
    (hinit : bucketParser_init default cfg = Res.ok (s0, Gen.Err.ok))
    (extra : Nat) (grow : Nat → Nat → Nat) (fuel : Nat) (lcp : Slice → Slice → Int) (hlcp : LcpSpec lcp)
    (SO : SOFun) (hSO : ShiftSpec SO)
    (hfuel : s0.bucketDictionary.ParserBuffer.BufConfig.BufferSize.toNat + 3 ≤ fuel)
    (ops : List GOpN) (hwf : ∀ op ∈ ops, op.WF) :
    ∃ p t rs, newParser .BUP (ofBUP cfg) = some p ∧ ofBUPs s0 = p ∧
      runN (rfGo extra) grow fuel lcp SO s0 ops = Res.ok (t, rs) ∧ HistOKU p.buf.cfg t ∧ BCOK p.buf.cfg ∧
      p.buf.cfg.bufferSize + 3 ≤ fuel ∧
      ofBUPs t = (runOps (p, Ghost.init) (ops.map GOpN.abs)).1 ∧
      ghostRunN Ghost.init ops rs = (runOps (p, Ghost.init) (ops.map GOpN.abs)).2 ∧
      ResultsAgreeN (p, Ghost.init) ops rs := by
  obtain ⟨p, hp, h2, hbc, hH⟩ := hist_init cfg s0 hinit
  have hf : p.buf.cfg.bufferSize + 3 ≤ fuel := by
    have : p.buf.cfg = ofCfg s0.bucketDictionary.ParserBuffer.BufConfig := hH.cfg.symm
    rw [this]; exact hfuel
  obtain ⟨t, rs, k1, k2, k3, k4, k5⟩ :=
    runN_sim hbc (rfGo extra) (rfGo_spec extra) grow fuel lcp hlcp SO hSO hf ops s0 Ghost.init hH hwf
  rw [h2] at k3 k4 k5
  exact ⟨p, t, rs, hp, h2, k1, k2, hbc, hf, k3, k4, k5⟩

/-! ## the property theorems -/

/-- **C01 about the Go text of BUP, histories WITH `Parse(nil)`.**  Run any history of `Write`, `ReadFrom`,
    `Parse(&blk, flags)`, `Parse(nil, flags)`, `Reset`, `Shrink` on the translated functions.  No call panics or runs out
    of fuel, and the reference decoder, applied to what the calls produced since the last successful `Reset` — the blocks
    of `Parse(&blk)` and, for every `Parse(nil)` that returned `n > 0`, the next `n` bytes of the stream VERBATIM
    (`Event.skip`) —, yields exactly the first `consumed` bytes fed, `consumed` = the sum of all returned `n`.  So blocks
    parsed after a skipped segment are correct for a decoder that received the skipped bytes verbatim (they may
    reference them as match sources). -/
theorem C01_go_text_bup_nil (cfg : Gen.BUPConfig) (s0 : Gen.bucketParser)
    (hinit : bucketParser_init default cfg = Res.ok (s0, Gen.Err.ok))
    (extra : Nat) (grow : Nat → Nat → Nat) (fuel : Nat) (lcp : Slice → Slice → Int) (hlcp : LcpSpec lcp)
    (SO : SOFun) (hSO : ShiftSpec SO)
    (hfuel : s0.bucketDictionary.ParserBuffer.BufConfig.BufferSize.toNat + 3 ≤ fuel)
    (ops : List GOpN) (hwf : ∀ op ∈ ops, op.WF) :
    ∃ t rs, runN (rfGo extra) grow fuel lcp SO s0 ops = Res.ok (t, rs) ∧
      decode [] (ghostRunN Ghost.init ops rs).log =
        some ((ghostRunN Ghost.init ops rs).fed.take (ghostRunN Ghost.init ops rs).consumed) := by
  obtain ⟨p, t, rs, hp, -, h1, -, -, -, -, h4, -⟩ :=
    gen_bup_history_nil cfg s0 hinit extra grow fuel lcp hlcp SO hSO hfuel ops hwf
  refine ⟨t, rs, h1, ?_⟩
  rw [h4]
  exact C01_roundtrip .BUP (ofBUP cfg) p hp (histHyp_of_ne .BUP p (by decide)) (ops.map GOpN.abs)

/-- **C03 about the Go text of BUP, histories WITH `Parse(nil)`**: blocks and skipped segments tile the consumed stream. -/
theorem C03_go_text_bup_nil (cfg : Gen.BUPConfig) (s0 : Gen.bucketParser)
    (hinit : bucketParser_init default cfg = Res.ok (s0, Gen.Err.ok))
    (extra : Nat) (grow : Nat → Nat → Nat) (fuel : Nat) (lcp : Slice → Slice → Int) (hlcp : LcpSpec lcp)
    (SO : SOFun) (hSO : ShiftSpec SO)
    (hfuel : s0.bucketDictionary.ParserBuffer.BufConfig.BufferSize.toNat + 3 ≤ fuel)
    (ops : List GOpN) (hwf : ∀ op ∈ ops, op.WF) :
    ∃ t rs, runN (rfGo extra) grow fuel lcp SO s0 ops = Res.ok (t, rs) ∧
      let g := ghostRunN Ghost.init ops rs
      LogAll (fun pos e => 1 ≤ e.n ∧ e.n ≤ s0.bucketDictionary.ParserBuffer.BufConfig.BlockSize.toNat ∧
        pos + e.n ≤ g.fed.length ∧
        ∀ n fl blk, e = .block n fl blk →
          blk.len = n ∧ expand (g.fed.take pos) blk = some (g.fed.take (pos + n)) ∧
          (fl % 2 = 1 → blk.seqs ≠ [] → blk.lits.length = litSum blk.seqs ∧ n = seqsSpan blk.seqs)) 0 g.log ∧
      logSpan g.log = g.consumed ∧ g.consumed ≤ g.fed.length := by
  obtain ⟨p, t, rs, hp, h0, h1, -, -, -, -, h4, -⟩ :=
    gen_bup_history_nil cfg s0 hinit extra grow fuel lcp hlcp SO hSO hfuel ops hwf
  subst h0
  refine ⟨t, rs, h1, ?_⟩
  intro g
  have hg : g = (runOps (ofBUPs s0, Ghost.init) (ops.map GOpN.abs)).2 := h4
  have := C03_contiguous .BUP (ofBUP cfg) _ hp (histHyp_of_ne .BUP _ (by decide)) (ops.map GOpN.abs)
  obtain ⟨a1, a2, a3, a4⟩ := this
  rw [hg]
  exact ⟨a1, a2, a4⟩

/-- **C14 (skipped bytes verbatim) about the Go text of BUP**: every skip entry of the log is a non-empty segment of at
    most `BlockSize` bytes and IS the segment of the fed stream at its position. -/
theorem C14_skip_go_text_bup (cfg : Gen.BUPConfig) (s0 : Gen.bucketParser)
    (hinit : bucketParser_init default cfg = Res.ok (s0, Gen.Err.ok))
    (extra : Nat) (grow : Nat → Nat → Nat) (fuel : Nat) (lcp : Slice → Slice → Int) (hlcp : LcpSpec lcp)
    (SO : SOFun) (hSO : ShiftSpec SO)
    (hfuel : s0.bucketDictionary.ParserBuffer.BufConfig.BufferSize.toNat + 3 ≤ fuel)
    (ops : List GOpN) (hwf : ∀ op ∈ ops, op.WF) :
    ∃ t rs, runN (rfGo extra) grow fuel lcp SO s0 ops = Res.ok (t, rs) ∧
      let g := ghostRunN Ghost.init ops rs
      LogAll (fun pos e => ∀ b, e = .skip b →
        1 ≤ b.length ∧ b.length ≤ s0.bucketDictionary.ParserBuffer.BufConfig.BlockSize.toNat ∧
        b = (g.fed.drop pos).take b.length) 0 g.log := by
  obtain ⟨p, t, rs, hp, h0, h1, -, -, -, -, h4, -⟩ :=
    gen_bup_history_nil cfg s0 hinit extra grow fuel lcp hlcp SO hSO hfuel ops hwf
  subst h0
  refine ⟨t, rs, h1, ?_⟩
  intro g
  have hg : g = (runOps (ofBUPs s0, Ghost.init) (ops.map GOpN.abs)).2 := h4
  rw [hg]
  exact C14_skip_verbatim .BUP (ofBUP cfg) _ hp (histHyp_of_ne .BUP _ (by decide)) (ops.map GOpN.abs)

/-- **C14 about the Go text of BUP.**  After ANY history of the translated `Write`, `ReadFrom`, `Parse(&blk)`,
    `Parse(nil)`, `Reset`, `Shrink` from `bucketParser.init`, let `t` be the Go state reached.  For every `flags`, every
    ghost value and every block `blk` of the caller: the translated `Parse(nil, flags)` and the translated
    `Parse(&blk, 0)`, both run from `t`, return THE SAME `n` and THE SAME error, and leave THE SAME buffer `Data` and THE
    SAME `W`; `n = min(BlockSize, len(Data) - W)`; the error is `ErrEmptyBuffer` if `n = 0` and `nil` otherwise;
    `Parse(nil)` hands the ghost block back unchanged (it writes nothing) and leaves `Data` as it was.  (That repeated
    calls drain the buffer follows: each call with `n > 0` advances `W` by `n`; see also `C14_drains`.) -/
theorem C14_go_text_bup (cfg : Gen.BUPConfig) (s0 : Gen.bucketParser)
    (hinit : bucketParser_init default cfg = Res.ok (s0, Gen.Err.ok))
    (extra : Nat) (grow : Nat → Nat → Nat) (fuel : Nat) (lcp : Slice → Slice → Int) (hlcp : LcpSpec lcp)
    (SO : SOFun) (hSO : ShiftSpec SO)
    (hfuel : s0.bucketDictionary.ParserBuffer.BufConfig.BufferSize.toNat + 3 ≤ fuel)
    (ops : List GOpN) (hwf : ∀ op ∈ ops, op.WF) (ghost blk : Gen.Block') (flags : Int) :
    ∃ t rs, runN (rfGo extra) grow fuel lcp SO s0 ops = Res.ok (t, rs) ∧
      ∃ t1 t2 blk' n e,
        bucketParser_Parse_nilable grow fuel lcp t true ghost flags = Res.ok (t1, ghost, n, e) ∧
        bucketParser_Parse grow fuel lcp t blk 0 = Res.ok (t2, blk', n, e) ∧
        t1.bucketDictionary.ParserBuffer.Data = t2.bucketDictionary.ParserBuffer.Data ∧
        t1.bucketDictionary.ParserBuffer.W = t2.bucketDictionary.ParserBuffer.W ∧
        t1.bucketDictionary.ParserBuffer.Data = t.bucketDictionary.ParserBuffer.Data ∧
        t1.bucketDictionary.ParserBuffer.W = t.bucketDictionary.ParserBuffer.W + n ∧
        n = Min.min t.BUPConfig.BlockSize
          ((t.bucketDictionary.ParserBuffer.Data.len : Int) - t.bucketDictionary.ParserBuffer.W) ∧
        (n = 0 → e = Gen.ErrEmptyBuffer ∧ t1 = t) ∧ (n ≠ 0 → e = Gen.Err.ok) := by
  obtain ⟨p, t, rs, hp, h0, h1, hH, hbc, hf, h3, -, -⟩ :=
    gen_bup_history_nil cfg s0 hinit extra grow fuel lcp hlcp SO hSO hfuel ops hwf
  refine ⟨t, rs, h1, ?_⟩
  have hlen := hH.len
  obtain ⟨t1, e1, hH1, m1, d1, w1⟩ := hist_parseNil hbc grow fuel lcp t hH ghost flags (by omega)
  obtain ⟨t2, blk', e2, m2, st2, -, -, -, pk2⟩ :=
    gen_bup_parse_model grow fuel lcp hlcp t blk 0 hH.pok (Int.le_refl 0) (by omega)
      (ofBUP cfg) p hp (ops.map GOpN.abs) h3
  have hM := C14_same_n_greedy_reachable .BUP (by decide) (ofBUP cfg) p hp (ops.map GOpN.abs) 0 rfl
  simp only at hM
  rw [← h3] at hM
  obtain ⟨c1, c2, c3, c6⟩ := hM
  have hz : (0 : Int).toNat = 0 := rfl
  rw [hz] at e2 m2
  rw [← c1, ← c2] at e2
  -- the buffers
  have hb12 : ofPB t1.bucketDictionary.ParserBuffer = ofPB t2.bucketDictionary.ParserBuffer := by
    have a1 : (ofBUPs t1).buf = _ := congrArg Parser.buf m1
    have a2 : (ofBUPs t2).buf = _ := congrArg Parser.buf m2
    exact a1.trans (c3.trans a2.symm)
  have hdata : t1.bucketDictionary.ParserBuffer.Data = t2.bucketDictionary.ParserBuffer.Data := by
    refine slice_ext _ _ hH1.pok.wf.1.data pk2.wf.1.data (congrArg PBuf.data hb12) ?_
    rw [d1]
    exact st2.symm
  have hW : t1.bucketDictionary.ParserBuffer.W = t2.bucketDictionary.ParserBuffer.W := by
    have a : t1.bucketDictionary.ParserBuffer.W.toNat = t2.bucketDictionary.ParserBuffer.W.toNat := congrArg PBuf.w hb12
    have b1 := hH1.pok.wf.1.w
    have b2 := pk2.wf.1.w
    omega
  -- `n`
  have hdl := hH.dataLen
  have hcbs := hH.pok.cbs
  have hbs0 := hH.pok.bs0
  have hWle := hH.pok.w
  have hW0 := hH.pok.wf.1.w
  have hwN : (ofBUPs t).buf.w = t.bucketDictionary.ParserBuffer.W.toNat := rfl
  have hbsN : (ofBUPs t).buf.cfg.blockSize = t.bucketDictionary.ParserBuffer.BufConfig.BlockSize.toNat := rfl
  have hn : (((ofBUPs t).parseNil.2.1 : Nat) : Int) =
      Min.min t.BUPConfig.BlockSize
        ((t.bucketDictionary.ParserBuffer.Data.len : Int) - t.bucketDictionary.ParserBuffer.W) := by
    rw [c6, hdl, hwN, hbsN, ← hcbs]
    int_omega
  have hbn : (ofBUPs t).parseNil.2.1 = (ofBUPs t).blockN := parseNil_n _
  have hwsum : t1.bucketDictionary.ParserBuffer.W =
      t.bucketDictionary.ParserBuffer.W + (((ofBUPs t).parseNil.2.1 : Nat) : Int) := by
    rw [w1, Parser.parseNil_buf, hbn]
    show (((ofBUPs t).buf.w + (ofBUPs t).blockN : Nat) : Int) = _
    rw [hwN]; omega
  refine ⟨t1, t2, blk', _, _, e1, e2, hdata, hW, d1, hwsum, hn, ?_, ?_⟩
  · intro hn0
    have h0 : (ofBUPs t).blockN = 0 := by rw [← hbn]; omega
    rw [Parser.parseNil_empty _ h0]
    refine ⟨rfl, ?_⟩
    have hg : blockNU t = 0 := by
      rw [hn0] at hn
      unfold blockNU
      split <;> int_omega
    have := gen_bup_parseNil_empty grow fuel lcp t ghost flags hg
    rw [this] at e1
    injection e1 with e1
    exact (congrArg Prod.fst e1).symm
  · intro hn0
    have h0 : (ofBUPs t).blockN ≠ 0 := by rw [← hbn]; omega
    obtain ⟨s', hs, -⟩ := Parser.parseNil_ok _ h0
    rw [hs]; rfl

end LZ.GenBUPHist

#print axioms LZ.GenBUPHist.hist_parseNil
#print axioms LZ.GenBUPHist.stepN_sim
#print axioms LZ.GenBUPHist.runN_sim
#print axioms LZ.GenBUPHist.gen_bup_history_nil
#print axioms LZ.GenBUPHist.C01_go_text_bup_nil
#print axioms LZ.GenBUPHist.C03_go_text_bup_nil
#print axioms LZ.GenBUPHist.C14_skip_go_text_bup
#print axioms LZ.GenBUPHist.C14_go_text_bup
