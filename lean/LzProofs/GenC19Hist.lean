/-
  LzProofs.GenC19Hist — property C19 (maximality of the emitted matches) about the TRANSLATION of the Go text of the
  hash parsers HP, BHP, DHP, BDHP.  No sorry, no axioms of its own.

  The maximality clauses are proved at history level on the model (LzProofs/C19Hist.lean:
  `C19_maximal_reachable_log`, per call `C19_right_maximal_reachable`, `C19_left_maximal_reachable`).  The history
  theorems `gen_hp_history` / `gen_bhp_history` / `gen_dhp_history` / `gen_bdhp_history` say that every value the translated functions
  return is the model's and that the bookkeeping `ghostRun` — computed from the Go calls and the Go results alone, the
  blocks read through `ofBlock` — is the model's ghost.  Hence:

    C19_go_text_hp, C19_go_text_dhp    every event of the log of every history of translated calls satisfies
        `EventMax g.fed false BlockSize` (C19Hist): the block `(n, flags, ofBlock blk')` returned by the translated
        `Parse` at stream position `pos` saw a block prefix ending at `lim` (`pos + n ≤ lim ≤ pos + BlockSize`,
        `lim ≤ |fed|`, `lim = pos + n` without `NoTrailingLiterals`) and every match of it lies inside that prefix,
        has `1 ≤ Offset ≤` its stream position, and ends at `lim` or before a byte of the stream `fed` that differs from the
        byte `Offset` back (`SeqMaxStream`): RIGHT-MAXIMAL w.r.t. the bytes fed.
    C19_go_text_bhp, C19_go_text_bdhp  `EventMax g.fed true BlockSize`: in addition LEFT-MAXIMAL — no literal is pending
        before the match, or its source starts at the first byte the buffer held at the time of the call (`base`), or the
        bytes of `fed` before the match and before its source differ.
    C19_right_go_text_hp / _bhp / _dhp / _bdhp, C19_left_go_text_bhp / _bdhp   the two clauses spelled out without `EventMax`
        (the statements of `C19_right_maximal_reachable_log`, `C19_left_maximal_reachable_log`).
  `g = ghostRun Ghost.init ops rs`; the log holds the blocks since the last successful `Reset`, and histories are
  prefix-closed, so EVERY block the translated `Parse` returns in any history is covered (it is the last event of the
  log of the history that ends with its call).  The statements mention the translated functions, `ghostRun` / `ofBlock`
  and the predicates of C19Hist on streams of bytes; no `Parser`, `runOps`, `POp`.
  Not transported: the third clause of C19 (`Parser.LongestNearest`: the candidates of a probe live in the search
  structure of the model state; a Go-text statement needs the tables through `ofHash`).
-/
import LzProofs.C19Hist
import LzProofs.GenHPHistRun
import LzProofs.GenBHPHistRun
import LzProofs.GenDHPHistRun
import LzProofs.GenBDHPHistRun

set_option linter.unusedSimpArgs false
set_option linter.unusedVariables false

namespace LZ.GenC19Hist
open LZ LZ.Gen LZ.GenBuf LZ.GenHash LZ.GenHPParse LZ.GenBHPParse LZ.GenDHPParse LZ.GenBDHPParse LZ.GenProps
open LZ.GenHPHist (GOp GRes GOp.WF GOp.abs ghostRun)

/-- the right clause of `EventMax`, spelled out (the event predicate of `C19_right_maximal_reachable_log`) -/
def EventRightMax (fed : List Byte) (bs : Nat) (pos : Nat) (e : Event) : Prop :=
  ∀ n fl blk, e = .block n fl blk →
    ∃ lim, pos + n ≤ lim ∧ lim ≤ pos + bs ∧ lim ≤ fed.length ∧
      ((fl % 2 = 0 ∨ blk.seqs = []) → lim = pos + n) ∧
      SeqsAll (fun q sq => q + sq.litLen + sq.matchLen ≤ lim ∧
        (q + sq.litLen + sq.matchLen = lim ∨
          fed[q + sq.litLen + sq.matchLen]? ≠ fed[q + sq.litLen + sq.matchLen - sq.offset]?)) pos blk.seqs

/-- the left clause of `EventMax`, spelled out (the event predicate of `C19_left_maximal_reachable_log`) -/
def EventLeftMax (fed : List Byte) (pos : Nat) (e : Event) : Prop :=
  ∀ n fl blk, e = .block n fl blk →
    ∃ base, base ≤ pos ∧
      SeqsAll (fun q sq => sq.litLen = 0 ∨ sq.offset = q + sq.litLen - base ∨
        fed[q + sq.litLen - 1]? ≠ fed[q + sq.litLen - 1 - sq.offset]?) pos blk.seqs

theorem eventMax_right {fed : List Byte} {back : Bool} {bs pos : Nat} {e : Event} (h : EventMax fed back bs pos e) :
    EventRightMax fed bs pos e := by
  intro n fl blk heq
  subst heq
  obtain ⟨base, lim, -, b2, b3, b4, b5, b6⟩ := h
  exact ⟨lim, b2, b3, b4, b5, SeqsAll.mono (fun q sq h => ⟨h.1, h.2.2.2.1⟩) _ _ b6⟩

theorem eventMax_left {fed : List Byte} {bs pos : Nat} {e : Event} (h : EventMax fed true bs pos e) :
    EventLeftMax fed pos e := by
  intro n fl blk heq
  subst heq
  obtain ⟨base, lim, b1, -, -, -, -, b6⟩ := h
  exact ⟨base, b1, SeqsAll.mono (fun q sq h => h.2.2.2.2 rfl) _ _ b6⟩

/-! ## HP -/

/-- **C19 about the Go text of HP** (right-maximality w.r.t. the bytes fed; `EventMax … false`) -/
theorem C19_go_text_hp (cfg : Gen.HPConfig) (s0 : Gen.hashParser)
    (hinit : hashParser_init default cfg = Res.ok (s0, Gen.Err.ok))
    (grow : Nat → Nat → Nat) (fuel : Nat)
    (hfuel : s0.hashDictionary.ParserBuffer.BufConfig.BufferSize.toNat + 3 ≤ fuel)
    (ops : List GOp) (hwf : ∀ op ∈ ops, op.WF) :
    ∃ t rs, GenHPHist.runG grow fuel s0 ops = Res.ok (t, rs) ∧
      let g := ghostRun Ghost.init ops rs
      LogAll (EventMax g.fed false s0.hashDictionary.ParserBuffer.BufConfig.BlockSize.toNat) 0 g.log := by
  obtain ⟨p, t, rs, hp, h0, h1, -, -, h4, -⟩ := GenHPHist.gen_hp_history cfg s0 hinit grow fuel hfuel ops hwf
  subst h0
  refine ⟨t, rs, h1, ?_⟩
  intro g
  have hg : g = (runOps (ofHPs s0, Ghost.init) (ops.map GOp.abs)).2 := h4
  rw [hg]
  exact C19_maximal_reachable_log .HP (by decide) (ofHP cfg) _ hp false (by simp) (ops.map GOp.abs)

theorem C19_right_go_text_hp (cfg : Gen.HPConfig) (s0 : Gen.hashParser)
    (hinit : hashParser_init default cfg = Res.ok (s0, Gen.Err.ok))
    (grow : Nat → Nat → Nat) (fuel : Nat)
    (hfuel : s0.hashDictionary.ParserBuffer.BufConfig.BufferSize.toNat + 3 ≤ fuel)
    (ops : List GOp) (hwf : ∀ op ∈ ops, op.WF) :
    ∃ t rs, GenHPHist.runG grow fuel s0 ops = Res.ok (t, rs) ∧
      let g := ghostRun Ghost.init ops rs
      LogAll (EventRightMax g.fed s0.hashDictionary.ParserBuffer.BufConfig.BlockSize.toNat) 0 g.log := by
  obtain ⟨t, rs, h1, h2⟩ := C19_go_text_hp cfg s0 hinit grow fuel hfuel ops hwf
  exact ⟨t, rs, h1, LogAll.mono (fun pos e he => eventMax_right he) _ _ h2⟩

/-! ## BHP -/

/-- **C19 about the Go text of BHP** (right- and left-maximality w.r.t. the bytes fed; `EventMax … true`); `lcs` is
    the opaque callee of the translation of bhp.go under `LcsSpec` -/
theorem C19_go_text_bhp (cfg : Gen.BHPConfig) (s0 : Gen.backwardHashParser)
    (hinit : backwardHashParser_init default cfg = Res.ok (s0, Gen.Err.ok))
    (grow : Nat → Nat → Nat) (fuel : Nat) (lcs : Slice → Slice → Int) (hlcs : LcsSpec lcs)
    (hfuel : 2 * s0.hashDictionary.ParserBuffer.BufConfig.BufferSize.toNat + 3 ≤ fuel)
    (ops : List GOp) (hwf : ∀ op ∈ ops, op.WF) :
    ∃ t rs, GenBHPHist.runG grow fuel lcs s0 ops = Res.ok (t, rs) ∧
      let g := ghostRun Ghost.init ops rs
      LogAll (EventMax g.fed true s0.hashDictionary.ParserBuffer.BufConfig.BlockSize.toNat) 0 g.log := by
  obtain ⟨p, t, rs, hp, h0, h1, -, -, h4, -⟩ :=
    GenBHPHist.gen_bhp_history cfg s0 hinit grow fuel lcs hlcs hfuel ops hwf
  subst h0
  refine ⟨t, rs, h1, ?_⟩
  intro g
  have hg : g = (runOps (ofBHPs s0, Ghost.init) (ops.map GOp.abs)).2 := h4
  rw [hg]
  exact C19_maximal_reachable_log .BHP (by decide) (ofBHP cfg) _ hp true (fun _ => Or.inl rfl) (ops.map GOp.abs)

theorem C19_right_go_text_bhp (cfg : Gen.BHPConfig) (s0 : Gen.backwardHashParser)
    (hinit : backwardHashParser_init default cfg = Res.ok (s0, Gen.Err.ok))
    (grow : Nat → Nat → Nat) (fuel : Nat) (lcs : Slice → Slice → Int) (hlcs : LcsSpec lcs)
    (hfuel : 2 * s0.hashDictionary.ParserBuffer.BufConfig.BufferSize.toNat + 3 ≤ fuel)
    (ops : List GOp) (hwf : ∀ op ∈ ops, op.WF) :
    ∃ t rs, GenBHPHist.runG grow fuel lcs s0 ops = Res.ok (t, rs) ∧
      let g := ghostRun Ghost.init ops rs
      LogAll (EventRightMax g.fed s0.hashDictionary.ParserBuffer.BufConfig.BlockSize.toNat) 0 g.log := by
  obtain ⟨t, rs, h1, h2⟩ := C19_go_text_bhp cfg s0 hinit grow fuel lcs hlcs hfuel ops hwf
  exact ⟨t, rs, h1, LogAll.mono (fun pos e he => eventMax_right he) _ _ h2⟩

theorem C19_left_go_text_bhp (cfg : Gen.BHPConfig) (s0 : Gen.backwardHashParser)
    (hinit : backwardHashParser_init default cfg = Res.ok (s0, Gen.Err.ok))
    (grow : Nat → Nat → Nat) (fuel : Nat) (lcs : Slice → Slice → Int) (hlcs : LcsSpec lcs)
    (hfuel : 2 * s0.hashDictionary.ParserBuffer.BufConfig.BufferSize.toNat + 3 ≤ fuel)
    (ops : List GOp) (hwf : ∀ op ∈ ops, op.WF) :
    ∃ t rs, GenBHPHist.runG grow fuel lcs s0 ops = Res.ok (t, rs) ∧
      let g := ghostRun Ghost.init ops rs
      LogAll (EventLeftMax g.fed) 0 g.log := by
  obtain ⟨t, rs, h1, h2⟩ := C19_go_text_bhp cfg s0 hinit grow fuel lcs hlcs hfuel ops hwf
  exact ⟨t, rs, h1, LogAll.mono (fun pos e he => eventMax_left he) _ _ h2⟩

/-! ## DHP -/

/-- **C19 about the Go text of DHP** (right-maximality w.r.t. the bytes fed; `EventMax … false`) -/
theorem C19_go_text_dhp (cfg : Gen.DHPConfig) (s0 : Gen.doubleHashParser)
    (hinit : doubleHashParser_init default cfg = Res.ok (s0, Gen.Err.ok))
    (grow : Nat → Nat → Nat) (fuel : Nat)
    (hfuel : 2 * s0.doubleHashDictionary.ParserBuffer.BufConfig.BufferSize.toNat + 3 ≤ fuel)
    (ops : List GOp) (hwf : ∀ op ∈ ops, op.WF) :
    ∃ t rs, GenDHPHist.runG grow fuel s0 ops = Res.ok (t, rs) ∧
      let g := ghostRun Ghost.init ops rs
      LogAll (EventMax g.fed false s0.doubleHashDictionary.ParserBuffer.BufConfig.BlockSize.toNat) 0 g.log := by
  obtain ⟨p, t, rs, hp, h0, h1, -, -, h4, -⟩ := GenDHPHist.gen_dhp_history cfg s0 hinit grow fuel hfuel ops hwf
  subst h0
  refine ⟨t, rs, h1, ?_⟩
  intro g
  have hg : g = (runOps (ofDHPs s0, Ghost.init) (ops.map GOp.abs)).2 := h4
  rw [hg]
  exact C19_maximal_reachable_log .DHP (by decide) (ofDHP cfg) _ hp false (by simp) (ops.map GOp.abs)

theorem C19_right_go_text_dhp (cfg : Gen.DHPConfig) (s0 : Gen.doubleHashParser)
    (hinit : doubleHashParser_init default cfg = Res.ok (s0, Gen.Err.ok))
    (grow : Nat → Nat → Nat) (fuel : Nat)
    (hfuel : 2 * s0.doubleHashDictionary.ParserBuffer.BufConfig.BufferSize.toNat + 3 ≤ fuel)
    (ops : List GOp) (hwf : ∀ op ∈ ops, op.WF) :
    ∃ t rs, GenDHPHist.runG grow fuel s0 ops = Res.ok (t, rs) ∧
      let g := ghostRun Ghost.init ops rs
      LogAll (EventRightMax g.fed s0.doubleHashDictionary.ParserBuffer.BufConfig.BlockSize.toNat) 0 g.log := by
  obtain ⟨t, rs, h1, h2⟩ := C19_go_text_dhp cfg s0 hinit grow fuel hfuel ops hwf
  exact ⟨t, rs, h1, LogAll.mono (fun pos e he => eventMax_right he) _ _ h2⟩

/-! ## BDHP -/

/-- **C19 about the Go text of BDHP** (right- and left-maximality w.r.t. the bytes fed; `EventMax … true`); `lcs` is
    the opaque callee of the translation of bdhp.go under `LcsSpec` -/
theorem C19_go_text_bdhp (cfg : Gen.BDHPConfig) (s0 : Gen.bdhp)
    (hinit : bdhp_init default cfg = Res.ok (s0, Gen.Err.ok))
    (grow : Nat → Nat → Nat) (fuel : Nat) (lcs : Slice → Slice → Int) (hlcs : LcsSpec lcs)
    (hfuel : 2 * s0.doubleHashDictionary.ParserBuffer.BufConfig.BufferSize.toNat + 3 ≤ fuel)
    (ops : List GOp) (hwf : ∀ op ∈ ops, op.WF) :
    ∃ t rs, GenBDHPHist.runG grow fuel lcs s0 ops = Res.ok (t, rs) ∧
      let g := ghostRun Ghost.init ops rs
      LogAll (EventMax g.fed true s0.doubleHashDictionary.ParserBuffer.BufConfig.BlockSize.toNat) 0 g.log := by
  obtain ⟨p, t, rs, hp, h0, h1, -, -, h4, -⟩ :=
    GenBDHPHist.gen_bdhp_history cfg s0 hinit grow fuel lcs hlcs hfuel ops hwf
  subst h0
  refine ⟨t, rs, h1, ?_⟩
  intro g
  have hg : g = (runOps (ofBDHPs s0, Ghost.init) (ops.map GOp.abs)).2 := h4
  rw [hg]
  exact C19_maximal_reachable_log .BDHP (by decide) (ofBDHP cfg) _ hp true (fun _ => Or.inr rfl) (ops.map GOp.abs)

theorem C19_right_go_text_bdhp (cfg : Gen.BDHPConfig) (s0 : Gen.bdhp)
    (hinit : bdhp_init default cfg = Res.ok (s0, Gen.Err.ok))
    (grow : Nat → Nat → Nat) (fuel : Nat) (lcs : Slice → Slice → Int) (hlcs : LcsSpec lcs)
    (hfuel : 2 * s0.doubleHashDictionary.ParserBuffer.BufConfig.BufferSize.toNat + 3 ≤ fuel)
    (ops : List GOp) (hwf : ∀ op ∈ ops, op.WF) :
    ∃ t rs, GenBDHPHist.runG grow fuel lcs s0 ops = Res.ok (t, rs) ∧
      let g := ghostRun Ghost.init ops rs
      LogAll (EventRightMax g.fed s0.doubleHashDictionary.ParserBuffer.BufConfig.BlockSize.toNat) 0 g.log := by
  obtain ⟨t, rs, h1, h2⟩ := C19_go_text_bdhp cfg s0 hinit grow fuel lcs hlcs hfuel ops hwf
  exact ⟨t, rs, h1, LogAll.mono (fun pos e he => eventMax_right he) _ _ h2⟩

theorem C19_left_go_text_bdhp (cfg : Gen.BDHPConfig) (s0 : Gen.bdhp)
    (hinit : bdhp_init default cfg = Res.ok (s0, Gen.Err.ok))
    (grow : Nat → Nat → Nat) (fuel : Nat) (lcs : Slice → Slice → Int) (hlcs : LcsSpec lcs)
    (hfuel : 2 * s0.doubleHashDictionary.ParserBuffer.BufConfig.BufferSize.toNat + 3 ≤ fuel)
    (ops : List GOp) (hwf : ∀ op ∈ ops, op.WF) :
    ∃ t rs, GenBDHPHist.runG grow fuel lcs s0 ops = Res.ok (t, rs) ∧
      let g := ghostRun Ghost.init ops rs
      LogAll (EventLeftMax g.fed) 0 g.log := by
  obtain ⟨t, rs, h1, h2⟩ := C19_go_text_bdhp cfg s0 hinit grow fuel lcs hlcs hfuel ops hwf
  exact ⟨t, rs, h1, LogAll.mono (fun pos e he => eventMax_left he) _ _ h2⟩

end LZ.GenC19Hist

#print axioms LZ.GenC19Hist.C19_go_text_hp
#print axioms LZ.GenC19Hist.C19_right_go_text_hp
#print axioms LZ.GenC19Hist.C19_go_text_bhp
#print axioms LZ.GenC19Hist.C19_right_go_text_bhp
#print axioms LZ.GenC19Hist.C19_left_go_text_bhp
#print axioms LZ.GenC19Hist.C19_go_text_dhp
#print axioms LZ.GenC19Hist.C19_right_go_text_dhp
#print axioms LZ.GenC19Hist.C19_go_text_bdhp
#print axioms LZ.GenC19Hist.C19_right_go_text_bdhp
#print axioms LZ.GenC19Hist.C19_left_go_text_bdhp
