/-
  LzProofs.GenPropsCfgHash — hash.go: hashConfig, dhConfig.
    G10 gen_hashDefaults  G11 gen_hashVerify (+ gen_hashVerify_error1/2)
    G12 gen_dhDefaults    G13 gen_dhVerify
  Part of the split of the former LzProofs/GenProps.lean: "the hand-written model equals the
  code that `tools/extract -code` regenerates from the Go source".  The generated code is
  emitted per topic (LzModel/Generated/Code<Topic>.lean); this file only imports the topic it
  talks about, so a Go function the translator refuses takes down this file and nothing else.
  Every theorem quantifies over ALL inputs; Go `int`/`int64` are unbounded `Int` on both sides
  (overflow is out of scope), `uint32`/`uint64` wrap around.  All names live in `LZ.GenProps`.
  The proofs are written against the MEANING of the generated functions (unfold, split every
  `if`, decide linear arithmetic), not against the shape of the generated term, so that
  behaviour-preserving rewrites of the Go source (De Morgan, swapped arms, reordered defaults,
  `x+x` for `2*x`, …) do not break them.
-/
import LzModel.Generated.CodeCfgHash
import LzProofs.GenPropsBase

set_option linter.unusedSimpArgs false

namespace LZ.GenProps
open LZ

/-- G10 `(*hashConfig).SetDefaults` -/
theorem gen_hashDefaults (c : Gen.hashConfig) :
    ((Gen.hashConfig_SetDefaults c).InputLen, (Gen.hashConfig_SetDefaults c).HashBits)
      = hashDefaults c.InputLen c.HashBits := by
  obtain ⟨il, hb⟩ := c
  simp only [Gen.hashConfig_SetDefaults, gen_helper, hashDefaults, Facts.defInputLen, Facts.defHashBits]
  repeat' split
  all_goals simp_all

theorem gen_hashDefaults' (h : Gen.hashConfig) : Gen.hashConfig_SetDefaults h =
    ⟨(hashDefaults h.InputLen h.HashBits).1, (hashDefaults h.InputLen h.HashBits).2⟩ := by
  rw [← gen_hashDefaults]

/-- G11 `(*hashConfig).Verify` -/
theorem gen_hashVerify (c : Gen.hashConfig) :
    Gen.hashConfig_Verify c = .ok ↔ hashVerify c.InputLen c.HashBits Facts.maxHashBits = true := by
  rw [hashVerify_iff]
  obtain ⟨il, hb⟩ := c
  simp only [Gen.hashConfig_Verify, gen_helper, Facts.maxHashBits]
  repeat' split
  all_goals simp only [reduceCtorEq, false_iff, true_iff]
  all_goals omega

theorem gen_hashVerify_error1 (c : Gen.hashConfig) :
    Gen.hashConfig_Verify c = .error 1 ↔ ¬(2 ≤ c.InputLen ∧ c.InputLen ≤ 8) := by
  simp only [Gen.hashConfig_Verify, gen_helper]
  repeat' split
  all_goals simp only [reduceCtorEq, Gen.Err.error.injEq, false_iff, true_iff]
  all_goals omega

theorem gen_hashVerify_error2 (c : Gen.hashConfig) :
    Gen.hashConfig_Verify c = .error 2 ↔
      (2 ≤ c.InputLen ∧ c.InputLen ≤ 8) ∧ ¬(0 ≤ c.HashBits ∧ c.HashBits ≤ min (8 * c.InputLen) 24) := by
  simp only [Gen.hashConfig_Verify, gen_helper]
  repeat' split
  all_goals simp only [reduceCtorEq, Gen.Err.error.injEq, false_iff, true_iff]
  all_goals omega

def ofDh (d : Gen.dhConfig) : Cfg :=
  { inputLen1 := d.H1.InputLen, hashBits1 := d.H1.HashBits,
    inputLen2 := d.H2.InputLen, hashBits2 := d.H2.HashBits }

/-- G12 `(*dhConfig).SetDefaults`: the double-hash part of `setDefaults .DHP` -/
theorem gen_dhDefaults (d : Gen.dhConfig) : Gen.dhConfig_SetDefaults d =
    ⟨⟨(setDefaults .DHP (ofDh d)).inputLen1, (setDefaults .DHP (ofDh d)).hashBits1⟩,
     ⟨(setDefaults .DHP (ofDh d)).inputLen2, (setDefaults .DHP (ofDh d)).hashBits2⟩⟩ := by
  obtain ⟨⟨il1, hb1⟩, ⟨il2, hb2⟩⟩ := d
  simp only [Gen.dhConfig_SetDefaults, gen_helper, gen_hashDefaults', setDefaults, ofDh, bufDefaults, hashDefaults,
    Facts.dhSmallInputLen, Facts.defInputLen2Small, Facts.defInputLen2Large, Facts.defInputLen,
    Facts.defHashBits]
  repeat' split
  all_goals simp_all
  all_goals omega

/-- G13 `(*dhConfig).Verify`: the double-hash part of `verify .DHP` -/
theorem gen_dhVerify (d : Gen.dhConfig) :
    Gen.dhConfig_Verify d = .ok ↔
      (hashVerify d.H1.InputLen d.H1.HashBits Facts.maxHashBits &&
       hashVerify d.H2.InputLen d.H2.HashBits Facts.maxHashBits &&
       decide (d.H1.InputLen < d.H2.InputLen)) = true := by
  simp only [Bool.and_eq_true, decide_eq_true_eq, ← gen_hashVerify, Gen.dhConfig_Verify]
  repeat' split
  all_goals simp_all
  all_goals omega

end LZ.GenProps
