/-
  LzProofs.ParseBuf — the facts about `ParserBuffer` operations the parser history proofs
  need: which fields an operation changes, that `Write`/`ReadFrom` only append, that
  `Shrink` only drops a prefix, and the capacity invariant behind the 7-byte margin.
-/
import LzModel.PBuf
namespace LZ
namespace PBuf

/-- the capacity invariant: a non-empty buffer has 7 spare bytes behind `len(Data)` -/
def CapOK (b : PBuf) : Prop := b.data = [] ∨ b.data.length + Facts.margin ≤ b.cap

/-- the new capacity `grow(t)` chooses -/
def growCap (b : PBuf) (t : Nat) : Nat :=
  let c := 2 * t + Facts.margin
  let c := if c < Facts.growMin then Facts.growMin else c
  if c ≥ b.cfg.bufferSize + Facts.margin then b.cfg.bufferSize + Facts.margin else c

theorem grow_eq (b : PBuf) (t : Nat) :
    b.grow t = if t + Facts.margin ≤ b.cap then some b
      else if b.data.length ≤ growCap b t then some { b with cap := growCap b t } else none := rfl

theorem growCap_ge (b : PBuf) (t : Nat) (ht : t ≤ b.cfg.bufferSize) : t + Facts.margin ≤ growCap b t := by
  unfold growCap
  simp only []
  split <;> split <;> omega

theorem grow_frame (b : PBuf) (t : Nat) (b' : PBuf) (h : b.grow t = some b') :
    b'.data = b.data ∧ b'.w = b.w ∧ b'.off = b.off ∧ b'.cfg = b.cfg ∧
      (t ≤ b.cfg.bufferSize → b.cap ≤ b'.cap ∧ t + Facts.margin ≤ b'.cap) := by
  rw [grow_eq] at h
  split at h
  · simp only [Option.some.injEq] at h; subst h
    exact ⟨rfl, rfl, rfl, rfl, fun _ => ⟨Nat.le_refl _, by assumption⟩⟩
  · split at h
    · simp only [Option.some.injEq] at h; subst h
      refine ⟨rfl, rfl, rfl, rfl, fun ht => ?_⟩
      have := growCap_ge b t ht
      simp only
      omega
    · simp at h

/-- `Write` appends the accepted prefix of `p` and changes nothing else but the capacity -/
theorem write_frame (b : PBuf) (p : List Byte) :
    (b.write p).1.data = b.data ++ p.take (b.write p).2.1 ∧ (b.write p).2.1 ≤ p.length ∧
    (b.write p).1.w = b.w ∧ (b.write p).1.off = b.off ∧ (b.write p).1.cfg = b.cfg ∧
    (CapOK b → CapOK (b.write p).1) := by
  unfold write
  split
  · simp
  · rename_i hbs
    simp only []
    generalize hq : (if b.cfg.bufferSize - b.data.length < p.length then
      (p.take (b.cfg.bufferSize - b.data.length), Err.full) else (p, Err.ok)) = q
    have hq1 : q.1 = p.take q.1.length ∧ q.1.length ≤ p.length ∧
        b.data.length + q.1.length ≤ b.cfg.bufferSize := by
      rw [← hq]; split
      · simp; omega
      · simp; omega
    obtain ⟨q1, q2⟩ := q
    simp only at hq1 ⊢
    split
    · simp
    · rename_i b' hg
      have hfr : b'.data = b.data ∧ b'.w = b.w ∧ b'.off = b.off ∧ b'.cfg = b.cfg ∧
          b.data.length + q1.length + Facts.margin ≤ b'.cap := by
        split at hg
        · obtain ⟨a1, a2, a3, a4, a5⟩ := grow_frame b _ b' hg
          exact ⟨a1, a2, a3, a4, (a5 hq1.2.2).2⟩
        · simp only [Option.some.injEq] at hg; subst hg
          exact ⟨rfl, rfl, rfl, rfl, by omega⟩
      obtain ⟨a1, a2, a3, a4, a5⟩ := hfr
      simp only
      refine ⟨?_, hq1.2.1, a2, a3, a4, ?_⟩
      · rw [a1, ← hq1.1]
      · intro _
        right
        simp only [List.length_append, a1]
        split <;> omega

theorem shrink_frame (b : PBuf) :
    (b.shrink).1.data = b.data.drop (b.shrink).2 ∧ (b.shrink).1.w + (b.shrink).2 = b.w ∧
    (b.shrink).1.off = b.off + (b.shrink).2 ∧ (b.shrink).1.cfg = b.cfg ∧
    (b.shrink).1.cap = b.cap ∧ ((b.shrink).2 = 0 → (b.shrink).1 = b) := by
  unfold shrink
  split
  · simp
  · simp only []
    refine ⟨trivial, by omega, trivial, trivial, trivial, fun h => by omega⟩

theorem reset_frame (b : PBuf) (data : List Byte) (capExtra : Nat) :
    ((b.reset data capExtra).2 = .ok ∧ (b.reset data capExtra).1.data = data ∧
      (b.reset data capExtra).1.w = 0 ∧ (b.reset data capExtra).1.off = 0 ∧
      (b.reset data capExtra).1.cfg = b.cfg ∧ CapOK (b.reset data capExtra).1) ∨
    ((b.reset data capExtra).2 ≠ .ok ∧ (b.reset data capExtra).1 = b) := by
  unfold reset
  split
  · right; simp
  · left
    split
    · rename_i h0
      refine ⟨rfl, ?_, rfl, rfl, rfl, Or.inl rfl⟩
      simp only; exact (List.length_eq_zero_iff.mp h0).symm
    · simp only []
      split
      · refine ⟨rfl, rfl, rfl, rfl, rfl, Or.inr ?_⟩
        simp only; split <;> omega
      · refine ⟨rfl, rfl, rfl, rfl, rfl, Or.inr ?_⟩
        simp only; omega

/-- what `ReadFrom`'s loop does to the buffer: it appends a prefix of the reader's payload -/
def ReadFrame (b : PBuf) (r : Reader) (b' : PBuf) : Prop :=
  ∃ k, k ≤ r.payload.length ∧ b'.data = b.data ++ r.payload.take k ∧
    b'.w = b.w ∧ b'.off = b.off ∧ b'.cfg = b.cfg ∧ (CapOK b → CapOK b')

theorem ReadFrame.refl (b : PBuf) (r : Reader) : ReadFrame b r b :=
  ⟨0, by omega, by simp, rfl, rfl, rfl, id⟩

theorem growStep (b : PBuf) (t : Nat) (b' : PBuf) (ht : t ≤ b.cfg.bufferSize)
    (hg : (if t + Facts.margin > b.cap then b.grow t else some b) = some b') :
    b'.data = b.data ∧ b'.w = b.w ∧ b'.off = b.off ∧ b'.cfg = b.cfg ∧ b.cap ≤ b'.cap := by
  split at hg
  · obtain ⟨a1, a2, a3, a4, a5⟩ := grow_frame b t b' hg
    exact ⟨a1, a2, a3, a4, (a5 ht).1⟩
  · simp only [Option.some.injEq] at hg; subst hg
    exact ⟨rfl, rfl, rfl, rfl, Nat.le_refl _⟩

theorem ReadFrame.of_grown (b : PBuf) (r : Reader) (b' : PBuf)
    (h : b'.data = b.data ∧ b'.w = b.w ∧ b'.off = b.off ∧ b'.cfg = b.cfg ∧ b.cap ≤ b'.cap) :
    ReadFrame b r b' := by
  obtain ⟨a1, a2, a3, a4, a5⟩ := h
  refine ⟨0, by omega, by simp [a1], a2, a3, a4, ?_⟩
  intro hc
  rcases hc with hc | hc
  · left; rw [a1]; exact hc
  · right; rw [a1]; omega

/-- one successful `Read` into the spare capacity -/
theorem ReadFrame.of_read (b : PBuf) (r : Reader) (b' : PBuf) (n : Nat)
    (h : b'.data = b.data ∧ b'.w = b.w ∧ b'.off = b.off ∧ b'.cfg = b.cfg ∧ b.cap ≤ b'.cap)
    (hn : n ≤ r.payload.length) (hcap : Facts.margin ≤ b'.cap)
    (hsz : b'.data.length + n ≤ b'.cap - Facts.margin) :
    ReadFrame b r { b' with data := b'.data ++ r.payload.take n } := by
  obtain ⟨a1, a2, a3, a4, a5⟩ := h
  refine ⟨n, hn, by simp [a1], a2, a3, a4, ?_⟩
  intro _
  right
  simp only [List.length_append, List.length_take]
  omega

theorem ReadFrame.trans (b : PBuf) (r : Reader) (b1 : PBuf) (n : Nat) (rest : List (Nat × Nat))
    (b2 : PBuf) (h1 : ReadFrame b r b1) (hn : b1.data = b.data ++ r.payload.take n)
    (hnl : n ≤ r.payload.length)
    (h2 : ReadFrame b1 { payload := r.payload.drop n, resps := rest } b2) : ReadFrame b r b2 := by
  obtain ⟨k1, c0, c1, c2, c3, c4, c5⟩ := h1
  obtain ⟨k2, d0, d1, d2, d3, d4, d5⟩ := h2
  simp only [List.length_drop] at d0
  refine ⟨n + k2, by omega, ?_, by rw [d2, c2], by rw [d3, c3], by rw [d4, c4], fun h => d5 (c5 h)⟩
  rw [d1, hn, List.append_assoc, ← List.take_add]

theorem readLoop_frame (b : PBuf) (r : Reader) : ReadFrame b r (b.readLoop r).1 := by
  fun_induction readLoop b r with
  | case1 b r h => exact ReadFrame.refl b r
  | case2 b r h t hg => exact ReadFrame.refl b r
  | case3 b r h t b' hg e hc =>
    exact ReadFrame.of_grown b r b' (growStep b t b' (Nat.min_le_right _ _) (by simpa using hg))
  | case4 b r h t b' hg e hc hr =>
    exact ReadFrame.of_grown b r b' (growStep b t b' (Nat.min_le_right _ _) (by simpa using hg))
  | case5 b r h t b' hg e hc mx ec rest hr sz n r' b'' hec =>
    have hgr := growStep b t b' (Nat.min_le_right _ _) (by simpa using hg)
    have hn : n ≤ r.payload.length ∧ n ≤ sz := by
      simp only [n, min3]; omega
    exact ReadFrame.of_read b r b' n hgr hn.1 (by omega) (by simp only [sz, e] at hn; omega)
  | case6 b r h t b' hg e hc mx ec rest hr sz n r' b'' hec ih =>
    have hgr := growStep b t b' (Nat.min_le_right _ _) (by simpa using hg)
    have hn : n ≤ r.payload.length ∧ n ≤ sz := by
      simp only [n, min3]; omega
    have h1 := ReadFrame.of_read b r b' n hgr hn.1 (by omega) (by simp only [sz, e] at hn; omega)
    exact ReadFrame.trans b r b'' n rest _ h1 (by simp only [b'', hgr.1]) hn.1 ih

/-- `ReadFrom` appends exactly the first `n` bytes of the reader's payload -/
theorem readFrom_frame (b : PBuf) (r : Reader) :
    (b.readFrom r).1.data = b.data ++ r.payload.take (b.readFrom r).2.2.1 ∧
    (b.readFrom r).2.2.1 ≤ r.payload.length ∧
    (b.readFrom r).1.w = b.w ∧ (b.readFrom r).1.off = b.off ∧ (b.readFrom r).1.cfg = b.cfg ∧
    (CapOK b → CapOK (b.readFrom r).1) := by
  obtain ⟨k, c0, c1, c2, c3, c4, c5⟩ := readLoop_frame b r
  have hn : (b.readFrom r).2.2.1 = k := by
    show (b.readLoop r).1.data.length - b.data.length = k
    rw [c1]; simp; omega
  have h1 : (b.readFrom r).1 = (b.readLoop r).1 := rfl
  rw [hn, h1]
  exact ⟨c1, c0, c2, c3, c4, c5⟩

end PBuf
end LZ
