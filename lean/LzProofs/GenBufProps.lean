/-
  LzProofs.GenBufProps — umbrella of GenBufPropsBase (slices, error variables), GenBufPropsP
  (ParserBuffer, B01–B08), GenBufPropsD (DecoderBuffer, D01–D07) and GenBufPropsDCopy
  (WriteMatch / WriteBlock, D08–D10): the hand-written models of `ParserBuffer` (LzModel/PBuf.lean) and
  `DecoderBuffer` (LzModel/DecBuf.lean) equal the code that `tools/extract -code` regenerates
  from parser_buffer.go / decoder_buffer.go (second part of LzModel/Generated/Code.lean:
  byte slices as values `Gen.Slice`, panics and loop fuel as `Gen.Res`, error variables).

  Abstraction maps: `ofPB : Gen.ParserBuffer → PBuf`, `ofDB : Gen.DecoderBuffer → DecBuf`
  (Go ints ↦ naturals by `Int.toNat`, `Data ↦ Data.data = arr.take len`, `cap = arr.length`),
  `errOf : Gen.Err → Option LZ.Err` (the package-level error variables; `none` for any other
  value), `ofSeq`, `ofBlock`.  Representation invariants (explicit hypotheses, shown to be
  preserved): `SWF s : s.len ≤ s.arr.length`, `PBWF b` / `DBWF b`: `SWF b.Data` and the int
  fields the model stores as naturals are ≥ 0.  Every theorem quantifies over ALL states and
  inputs satisfying the stated hypotheses, every growth function `g` (with `GrowOK g :
  ∀ c n, n ≤ g c n` where `append` may reallocate), and every sufficient fuel.

  Index (B = ParserBuffer, D = DecoderBuffer; referred to by NOTES.md):
    B01 gen_pbuf_shrink (+ gen_pbuf_shrink_panic)   B02 gen_pbuf_byteAt    B03 gen_pbuf_peekAt
    B04 gen_pbuf_readAt   B05 gen_pbuf_reset   B06 gen_pbuf_grow   B07 gen_pbuf_write   B08 gen_pbuf_init
    D01 gen_dbuf_init   D02 gen_dbuf_reset   D03 gen_dbuf_byteAtEnd   D04 gen_dbuf_read (+ gen_dbuf_read_panic)
    D05 gen_dbuf_shrink   D06 gen_dbuf_writeByte   D07 gen_dbuf_write
    D08 gen_dbuf_writeMatch (loop: loop_spec / loop_spec0 / copyTail_spec)
    D09 gen_dbuf_writeBlock (range loop with `goto end`: wb_loop_spec)
    D10 gen_dbuf_lenInv / gen_dbuf_init_lenInv (the invariant `len(Data) ≤ BufferSize` of D08/D09)
    writeMatch_discrepancy (a concrete state outside of that invariant on which code and model differ)
  The lemmas `gen_*_unfold`, `loop_unfold`, `wb_loop_cons`, `wb_loop_nil`, `wb_loop2_eq` state the
  syntactic shape of the generated definitions (proved by `rfl`/unfolding); they are the first
  thing that breaks when the Go source changes.
-/
import LzProofs.GenBufPropsP
import LzProofs.GenBufPropsD
import LzProofs.GenBufPropsDCopy
