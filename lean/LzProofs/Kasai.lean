/-
  LzProofs.Kasai — correctness of the φ/Kasai loop `lcpKasai` (`_lcp` in lcp.go).
-/
import LzProofs.SuffixLemmas
namespace LZ

/-- the specified LCP value at rank `k` (the body of `lcpSpec`) -/
def specAt (t : List Byte) (sa : List Nat) (k : Nat) : Nat :=
  if k = 0 then 0 else lcpLen (t.drop (sa.getD (k-1) 0)) (t.drop (sa.getD k 0))

theorem lcpSpec_eq (t : List Byte) (sa : List Nat) :
    lcpSpec t sa = (List.range sa.length).map (specAt t sa) := rfl

theorem specAt_le (t : List Byte) (sa : List Nat) (k : Nat) : specAt t sa k ≤ t.length := by
  unfold specAt
  split
  · omega
  · exact Nat.le_trans (lcpLen_le_left _ _) (by simp)

namespace IsSuffixArray
variable {t : List Byte} {sa : List Nat}

theorem some_lt (h : IsSuffixArray t sa) {k i : Nat} (hk : sa[k]? = some i) :
    k < sa.length ∧ i < t.length := by
  obtain ⟨hk', e⟩ := List.getElem?_eq_some_iff.1 hk
  exact ⟨hk', e ▸ h.getElem_lt k hk'⟩

theorem mono? (h : IsSuffixArray t sa) {a b i j : Nat} (hab : a ≤ b) (ha : sa[a]? = some i)
    (hb : sa[b]? = some j) : lexLe (t.drop i) (t.drop j) = true := by
  obtain ⟨ha', e1⟩ := List.getElem?_eq_some_iff.1 ha
  obtain ⟨hb', e2⟩ := List.getElem?_eq_some_iff.1 hb
  subst e1 e2
  exact h.mono hab hb'

theorem rank_le? (h : IsSuffixArray t sa) {a b i j : Nat} (ha : sa[a]? = some i)
    (hb : sa[b]? = some j) (hle : lexLe (t.drop i) (t.drop j) = true) : a ≤ b := by
  obtain ⟨ha', e1⟩ := List.getElem?_eq_some_iff.1 ha
  obtain ⟨hb', e2⟩ := List.getElem?_eq_some_iff.1 hb
  subst e1 e2
  exact h.rank_le_of_lexLe ha' hb' hle

theorem inj? (h : IsSuffixArray t sa) {a b i : Nat} (ha : sa[a]? = some i)
    (hb : sa[b]? = some i) : a = b := by
  obtain ⟨ha', e1⟩ := List.getElem?_eq_some_iff.1 ha
  obtain ⟨hb', e2⟩ := List.getElem?_eq_some_iff.1 hb
  exact h.getElem_inj ha' hb' (e1.trans e2.symm)

theorem surj? (h : IsSuffixArray t sa) {i : Nat} (hi : i < t.length) :
    ∃ k : Nat, sa[k]? = some i := by
  have : i ∈ sa := (h.mem_iff i).2 hi
  obtain ⟨k, hk, e⟩ := List.getElem_of_mem this
  exact ⟨k, by rw [List.getElem?_eq_getElem hk, e]⟩

theorem isPermOfRange (h : IsSuffixArray t sa) : IsPermOfRange sa := by
  unfold IsPermOfRange; rw [h.length_eq]; exact h.1

end IsSuffixArray

theorem specAt_pos {t : List Byte} {sa : List Nat} {k i j : Nat} (hk : k ≠ 0)
    (hki : sa[k]? = some i) (hkj : sa[k-1]? = some j) :
    specAt t sa k = lcpLen (t.drop j) (t.drop i) := by
  simp [specAt, hk, hki, hkj]

/-- **Kasai's lemma** (`lcp[rank(i+1)] ≥ lcp[rank i] − 1`): if `j` precedes `i` in the suffix
    array, then the suffix `i+1` shares at least `lcp(j,i) − 1` bytes with *its* predecessor. -/
theorem kasai_key {t : List Byte} {sa : List Nat} (h : IsSuffixArray t sa) {k k2 i j : Nat}
    (hk : k ≠ 0) (hki : sa[k]? = some i) (hkj : sa[k-1]? = some j)
    (hk2 : sa[k2]? = some (i+1)) :
    lcpLen (t.drop j) (t.drop i) - 1 ≤ specAt t sa k2 := by
  by_cases hL : lcpLen (t.drop j) (t.drop i) ≤ 1
  · omega
  have hL2 : 2 ≤ lcpLen (t.drop j) (t.drop i) := by omega
  have hji : lexLe (t.drop j) (t.drop i) = true := h.mono? (Nat.sub_le k 1) hkj hki
  have hle1 : lexLe (t.drop (j+1)) (t.drop (i+1)) = true := by
    have := lexLe_drop_one _ _ hji (by omega)
    simpa [List.drop_drop] using this
  have hl1 : lcpLen (t.drop j) (t.drop i) = 1 + lcpLen (t.drop (j+1)) (t.drop (i+1)) := by
    have := lcpLen_drop 1 _ _ (show 1 ≤ lcpLen (t.drop j) (t.drop i) by omega)
    simpa [List.drop_drop] using this
  -- `j+1` is a position of the text
  have hj1 : j + 1 < t.length := by
    have := lcpLen_le_left (t.drop (j+1)) (t.drop (i+1))
    simp only [List.length_drop] at this
    omega
  obtain ⟨k3, hk3⟩ := h.surj? hj1
  have h32 : k3 ≤ k2 := h.rank_le? hk3 hk2 hle1
  have hne : k3 ≠ k2 := by
    intro e
    subst e
    rw [hk3] at hk2
    have hij : j = i := by simpa using hk2
    subst hij
    have := h.inj? hki hkj
    omega
  have hk2pos : k2 ≠ 0 := by omega
  have hk2lt := (h.some_lt hk2).1
  have hp : k2 - 1 < sa.length := by omega
  have hk2p : sa[k2-1]? = some sa[k2-1] := List.getElem?_eq_getElem hp
  rw [specAt_pos hk2pos hk2 hk2p]
  have s := sandwich (t.drop (j+1)) (t.drop sa[k2-1]) (t.drop (i+1))
    (h.mono? (by omega) hk3 hk2p) (h.mono? (Nat.sub_le k2 1) hk2p hk2)
  omega

/-! ### the loop with explicit range checks -/

/-- `kasaiLoop` with every index / slice operation of `_lcp` checked: `none` = Go would panic
    (`sainv[i]`, `sa[k-1]`, `t[i+l:]`, `t[j+l:]`, `lcp[k] = …`). -/
def kasaiLoopChk (t : List Byte) (sa isa : Array Nat) : Nat → Nat → Nat → Array Nat → Option (Array Nat)
  | 0, _, _, lcp => some lcp
  | fuel+1, i, l, lcp =>
    match isa[i]? with
    | none => none
    | some k =>
      if k = 0 then
        if 0 < lcp.size then kasaiLoopChk t sa isa fuel (i+1) 0 (lcp.setIfInBounds 0 0) else none
      else
        match sa[k-1]? with
        | none => none
        | some j =>
          if i + l ≤ t.length ∧ j + l ≤ t.length ∧ k < lcp.size then
            let l' := l + lcpLen (t.drop (i + l)) (t.drop (j + l))
            kasaiLoopChk t sa isa fuel (i+1) (l' - 1) (lcp.setIfInBounds k l')
          else none

/-- whenever the checked loop succeeds, the unchecked model computes the same array -/
theorem kasaiLoop_of_chk (t : List Byte) (sa isa : Array Nat) :
    ∀ fuel i l lcp r, kasaiLoopChk t sa isa fuel i l lcp = some r →
      kasaiLoop t sa isa fuel i l lcp = r := by
  intro fuel
  induction fuel with
  | zero => intro i l lcp r h; simpa [kasaiLoopChk, kasaiLoop] using h
  | succ fuel ih =>
    intro i l lcp r h
    unfold kasaiLoopChk at h
    unfold kasaiLoop
    split at h
    · exact absurd h (by simp)
    · rename_i k hk
      have hk' : isa.getD i 0 = k := by simp [hk]
      simp only [hk']
      by_cases hk0 : k = 0
      · simp only [hk0, if_true] at h ⊢
        split at h
        · exact ih _ _ _ _ h
        · exact absurd h (by simp)
      · simp only [hk0, if_false] at h ⊢
        split at h
        · exact absurd h (by simp)
        · rename_i j hj
          have hj' : sa.getD (k-1) 0 = j := by simp [hj]
          simp only [hj']
          split at h
          · exact ih _ _ _ _ h
          · exact absurd h (by simp)

/-- loop invariant ⇒ result -/
theorem kasaiLoopChk_spec {t : List Byte} {sa : List Nat} (h : IsSuffixArray t sa)
    (isa : Array Nat) (hsize : isa.size = t.length)
    (hisa : ∀ i, i < t.length → ∃ k, isa[i]? = some k ∧ sa[k]? = some i) :
    ∀ fuel i l lcp, i + fuel = t.length → lcp.size = t.length →
      (∀ k, isa[i]? = some k → l ≤ specAt t sa k) →
      (∀ k j, sa[k]? = some j → j < i → lcp[k]? = some (specAt t sa k)) →
      ∃ r, kasaiLoopChk t sa.toArray isa fuel i l lcp = some r ∧ r.size = t.length ∧
        ∀ k, k < t.length → r[k]? = some (specAt t sa k) := by
  intro fuel
  induction fuel with
  | zero =>
    intro i l lcp hi hsz _ hdone
    refine ⟨lcp, rfl, hsz, fun k hk => ?_⟩
    have hk' : k < sa.length := by rw [h.length_eq]; exact hk
    have := h.getElem_lt k hk'
    exact hdone k sa[k] (List.getElem?_eq_getElem hk') (by omega)
  | succ fuel ih =>
    intro i l lcp hi hsz hl hdone
    have hi' : i < t.length := by omega
    obtain ⟨k, hik, hki⟩ := hisa i hi'
    have hklt : k < t.length := by have := (h.some_lt hki).1; rw [h.length_eq] at this; exact this
    unfold kasaiLoopChk
    simp only [hik]
    by_cases hk0 : k = 0
    · subst hk0
      simp only [if_true, hsz, show 0 < t.length by omega]
      apply ih (i+1) 0 _ (by omega) (by simpa using hsz)
      · intro k _; omega
      · intro k j hkj hj
        by_cases e : j = i
        · subst e
          have := h.inj? hkj hki
          subst this
          rw [Array.getElem?_setIfInBounds_self_of_lt (by omega)]
          simp [specAt]
        · have hne : 0 ≠ k := by
            intro e'; subst e'
            rw [hki] at hkj; exact e (by simpa using hkj.symm)
          rw [Array.getElem?_setIfInBounds_ne hne]
          exact hdone k j hkj (by omega)
    · simp only [hk0, if_false]
      have hkm : k - 1 < sa.length := by rw [h.length_eq]; omega
      have hkj : sa[k-1]? = some sa[k-1] := List.getElem?_eq_getElem hkm
      generalize hjdef : sa[k-1] = j at hkj
      have hkj' : sa.toArray[k-1]? = some j := by simpa using hkj
      simp only [hkj']
      have hspec := specAt_pos (t := t) hk0 hki hkj
      have hl' := hl k hik
      rw [hspec, lcpLen_comm] at hl'
      -- the running value never exceeds the true value, hence the slices are in range
      have hil : i + l ≤ t.length := by
        have := lcpLen_le_left (t.drop i) (t.drop j)
        simp only [List.length_drop] at this; omega
      have hjl : j + l ≤ t.length := by
        have hjlt := (h.some_lt hkj).2
        have := lcpLen_le_right (t.drop i) (t.drop j)
        simp only [List.length_drop] at this; omega
      simp only [hil, hjl, hsz, hklt, and_self, if_true]
      have hval : l + lcpLen (t.drop (i + l)) (t.drop (j + l)) = specAt t sa k := by
        have := lcpLen_drop l _ _ hl'
        rw [hspec, lcpLen_comm (t.drop j) (t.drop i), this]
        simp [List.drop_drop]
      rw [hval]
      apply ih (i+1) _ _ (by omega) (by simpa using hsz)
      · intro k2 hk2
        have hi1 : i + 1 < t.length := by
          have := (Array.getElem?_eq_some_iff.1 hk2).1
          omega
        obtain ⟨k2', hk2', hk2s⟩ := hisa (i+1) hi1
        rw [hk2] at hk2'
        cases hk2'
        rw [hspec]
        exact kasai_key h hk0 hki hkj hk2s
      · intro k' j' hkj' hj'
        by_cases e : j' = i
        · subst e
          have := h.inj? hkj' hki
          subst this
          rw [Array.getElem?_setIfInBounds_self_of_lt (by omega)]
        · have hne : k ≠ k' := by
            intro e'; subst e'
            rw [hki] at hkj'; exact e (by simpa using hkj'.symm)
          rw [Array.getElem?_setIfInBounds_ne hne]
          exact hdone k' j' hkj' (by omega)

/-- `isa` is the inverse permutation of `sa` (as produced by `invertSA`) -/
def IsInverse (sa : List Nat) (isa : Array Nat) : Prop :=
  isa.size = sa.length ∧ ∀ i, i < sa.length → ∃ k : Nat, isa[i]? = some k ∧ sa[k]? = some i

theorem invertSA_isInverse {sa : List Nat} (hp : IsPermOfRange sa) :
    IsInverse sa (invertSA sa.toArray) := by
  refine ⟨by simp [invertSA_size], fun i hi => ?_⟩
  obtain ⟨k, h1, _, h3⟩ := sa_invertSA hp hi
  exact ⟨k, h1, h3⟩

/-- The checked Kasai loop, started on *any* `lcp` array of the right length (previous contents
    are irrelevant), never fails and produces exactly the specified LCP table. -/
theorem kasaiChk_correct {t : List Byte} {sa : List Nat} (h : IsSuffixArray t sa)
    {isa : Array Nat} (hinv : IsInverse sa isa) (lcp0 : Array Nat) (h0 : lcp0.size = t.length) :
    kasaiLoopChk t sa.toArray isa isa.size 0 0 lcp0 = some (lcpSpec t sa).toArray := by
  have hlen := h.length_eq
  have hsize : isa.size = t.length := by rw [hinv.1, hlen]
  obtain ⟨r, hr, hrs, hrv⟩ := kasaiLoopChk_spec h isa hsize
    (fun i hi => hinv.2 i (by omega)) isa.size 0 0 lcp0 (by omega) h0
    (fun k _ => Nat.zero_le _) (fun k j _ hj => absurd hj (Nat.not_lt_zero _))
  rw [hr]
  congr 1
  apply Array.ext_getElem?
  intro k
  by_cases hk : k < t.length
  · rw [hrv k hk, lcpSpec_eq]
    simp [hlen, hk]
  · rw [Array.getElem?_eq_none (by omega), Array.getElem?_eq_none (by simp [lcpSpec_eq, hlen]; omega)]

theorem kasaiLoop_correct {t : List Byte} {sa : List Nat} (h : IsSuffixArray t sa)
    {isa : Array Nat} (hinv : IsInverse sa isa) (lcp0 : Array Nat) (h0 : lcp0.size = t.length) :
    kasaiLoop t sa.toArray isa isa.size 0 0 lcp0 = (lcpSpec t sa).toArray :=
  kasaiLoop_of_chk _ _ _ _ _ _ _ _ (kasaiChk_correct h hinv lcp0 h0)

end LZ
