/-
  LzProofs.GenOSAPParse — the translated `(*optSuffixArrayParser).Parse` of osap.go (topic OSAPParse of tools/extract;
  LzModel/Generated/CodeOSAPParse.lean) returns what the range-checked model `Idx.parseOsapChk`
  (LzProofs/IdxOsap.lean) returns: same `n`, error, sequences, literals, new state; explicit fuel
  `len(Data) + B + 5`; the invariant bundle `ParseOKO` is preserved.

  Translated: `Parse` and its loop over the path; `shortestPath` (topic OSAPPath) enters through its specification
  `SPSpec` (theorems `*_sp`), which is `gen_osap_shortestPath` of LzProofs.GenOSAPPath (`spSpec_holds`; final theorems
  without the hypothesis).  OPAQUE state-passing callee: `computeEdges` under `CESpec B` (`B` = bound on the number of
  edges per position).  Topic assumption `blk != nil`.  Definitions (`ofOD`, `ofOSAPs`, `SPSpec`, `ParseOKO`, `CESpec`)
  and the loop lemma `parse_loop_eq`: LzProofs.GenOSAPParseLemmas.

    gen_osap_parse_empty     nothing to parse ⇒ (0, ErrEmptyBuffer), every fuel
    parseOsapChk_some        (model side) what a successful `parseOsapChk` on a non-empty block consists of
    parse_prep               `if s.W+n > s.start+len(s.edges) { s.computeEdges() }` on both sides
    gen_osap_parse(_sp)      translated Parse = parseOsapChk (whenever the latter is `some`)
    gen_osap_parse_model(_sp)  … = the list-level `Parser.parse` on reachable states (`Idx.osap_parseChk_reachable`)
  The Go side is walked ONCE per branch (`unfold`, `bind_ok`, `bind_trans` per join, `if_pos / if_neg` with conditions
  discharged by `omega`); the clamp of `n` is accepted in both spellings `>` / `>=`.
  No uint32 wrap-around of `i`, `litIndex`: positions are `≤ W + n ≤ len(Data) ≤ MaxInt32` (`Sap.shortestPath_len` through
  `Idx.shortestPathChk_eq`); `len(sp) ≤ n` (fuel of the checked back-tracking) bounds the fuel of the loop.
  No sorry, no axioms of its own.
-/
import LzProofs.GenOSAPParseLemmas
import LzProofs.GenOSAPPath

set_option linter.unusedSimpArgs false
set_option linter.unusedVariables false

namespace LZ.GenOSAP
open LZ LZ.Gen LZ.GenBuf LZ.GenHash LZ.GenSuffix LZ.GenHPParse LZ.GenProps

/-- `n` of `Parse`: `min (len(s.Data) - s.W) s.BlockSize` in Go `int` arithmetic -/
def blockNO (s : Gen.optSuffixArrayParser) : Int :=
  if (Int.ofNat s.ParserBuffer.Data.len) - s.ParserBuffer.W > s.OSAPConfig.BlockSize then s.OSAPConfig.BlockSize
  else (Int.ofNat s.ParserBuffer.Data.len) - s.ParserBuffer.W

/-- nothing to parse ⇒ `(0, ErrEmptyBuffer)`, the block is emptied, the parser is unchanged; every `grow`, `fuel` -/
theorem gen_osap_parse_empty (grow : Nat → Nat → Nat) (fuel : Nat)
    (ce : Gen.optSuffixArrayParser → Res Gen.optSuffixArrayParser)
    (s : Gen.optSuffixArrayParser) (blk : Gen.Block') (flags : Int) (h : blockNO s = 0) :
    optSuffixArrayParser_Parse grow fuel ce s blk flags = Res.ok (s, resetBlk blk, (0 : Int), ErrEmptyBuffer) := by
  have hs : Slice.slice blk.Literals 0 (0 : Int) = Res.ok { arr := blk.Literals.arr, len := 0 } := by
    unfold Slice.slice
    simp [Slice.cap]
  unfold blockNO at h
  unfold optSuffixArrayParser_Parse optSuffixArrayParser_Parse_nilable; simp only [Bool.false_eq_true]
  by_cases hgt : (Int.ofNat s.ParserBuffer.Data.len) - s.ParserBuffer.W > s.OSAPConfig.BlockSize
  · have hB : s.OSAPConfig.BlockSize = 0 := by simpa only [hgt, if_true] using h
    have hge : (Int.ofNat s.ParserBuffer.Data.len) - s.ParserBuffer.W ≥ s.OSAPConfig.BlockSize := by omega
    simp only [hgt, hge, if_true, if_false, hs, bind_ok, resetBlk]
    simp only [hB, if_true]
  · have hL : (Int.ofNat s.ParserBuffer.Data.len) - s.ParserBuffer.W = 0 := by simpa only [hgt, if_false] using h
    by_cases hge : (Int.ofNat s.ParserBuffer.Data.len) - s.ParserBuffer.W ≥ s.OSAPConfig.BlockSize
    · have hB : s.OSAPConfig.BlockSize = 0 := by omega
      simp only [hgt, hge, if_true, if_false, hs, bind_ok, resetBlk]
      simp only [hB, hL, if_true]
    · simp only [hgt, hge, if_true, if_false, hs, bind_ok, resetBlk]
      simp only [hL, if_true]

/-! ## the model side: what a successful `parseOsapChk` on a non-empty block consists of -/

theorem parseOsapChk_some (s : Parser) (o : OsapD) (flags : Nat) (r : Parser × Nat × LZ.Err × Block)
    (hn : s.blockN ≠ 0) (h : Idx.parseOsapChk s o flags = some r) :
    ∃ o1, (if s.buf.w + s.blockN > o.start + o.edges.size then
             Idx.computeEdgesChk s.buf.data s.buf.w s.buf.cfg.windowSize s.minMatch s.cfg.maxMatchLen.toNat
           else some o) = some o1 ∧
      ((o1.nEdges = 0 ∧ ∃ lits, Idx.sliceChk s.buf.data s.buf.w (s.buf.w + s.blockN) = some lits ∧
          r = ({ s with buf := { s.buf with w := s.buf.w + s.blockN }, dict := .osap o1 }, s.blockN, .ok, ⟨[], lits⟩)) ∨
       (o1.nEdges ≠ 0 ∧ o1.start ≤ s.buf.w ∧ ∃ path p r',
          Idx.shortestPathChk s.minMatch s.blockN o1.edges (s.buf.w - o1.start) = some path ∧
          Idx.sliceToChk s.buf.data (s.buf.w + s.blockN) = some p ∧
          Idx.pathToSeqsChk p path s.buf.w s.buf.w [] [] = some r' ∧
          ((flags % 2 = 1 ∧ r'.1 ≠ [] ∧
              r = ({ s with buf := { s.buf with w := r'.2.2.2 }, dict := .osap o1 }, r'.2.2.2 - s.buf.w, .ok,
                    ⟨r'.1, r'.2.1⟩)) ∨
           (¬ (flags % 2 = 1 ∧ r'.1 ≠ []) ∧ ∃ tail, Idx.sliceFromChk p r'.2.2.2 = some tail ∧
              r = ({ s with buf := { s.buf with w := p.length }, dict := .osap o1 }, p.length - s.buf.w, .ok,
                    ⟨r'.1, r'.2.1 ++ tail⟩))))) := by
  unfold Idx.parseOsapChk at h
  simp only [hn, if_false] at h
  cases hE : (if s.buf.w + s.blockN > o.start + o.edges.size then
      Idx.computeEdgesChk s.buf.data s.buf.w s.buf.cfg.windowSize s.minMatch s.cfg.maxMatchLen.toNat
    else some o) with
  | none => rw [hE] at h; cases h
  | some o1 =>
    rw [hE] at h
    simp only at h
    refine ⟨o1, rfl, ?_⟩
    by_cases h0 : o1.nEdges = 0
    · left
      simp only [h0, if_true] at h
      cases hS : Idx.sliceChk s.buf.data s.buf.w (s.buf.w + s.blockN) with
      | none => rw [hS] at h; cases h
      | some lits =>
        rw [hS] at h
        injection h with h
        exact ⟨h0, lits, rfl, h.symm⟩
    · right
      simp only [h0, if_false] at h
      by_cases hst : o1.start ≤ s.buf.w
      · simp only [hst, if_true] at h
        cases hP : Idx.shortestPathChk s.minMatch s.blockN o1.edges (s.buf.w - o1.start) with
        | none => rw [hP] at h; cases h
        | some path =>
          rw [hP] at h
          simp only at h
          cases hT : Idx.sliceToChk s.buf.data (s.buf.w + s.blockN) with
          | none => rw [hT] at h; cases h
          | some p =>
            rw [hT] at h
            simp only at h
            cases hR : Idx.pathToSeqsChk p path s.buf.w s.buf.w [] [] with
            | none => rw [hR] at h; cases h
            | some r' =>
              rw [hR] at h
              simp only at h
              refine ⟨h0, hst, path, p, r', rfl, rfl, hR, ?_⟩
              by_cases hc : flags % 2 = 1 ∧ r'.1 ≠ []
              · left
                rw [if_pos hc] at h
                injection h with h
                exact ⟨hc.1, hc.2, h.symm⟩
              · right
                rw [if_neg hc] at h
                cases hF : Idx.sliceFromChk p r'.2.2.2 with
                | none => rw [hF] at h; cases h
                | some tail =>
                  rw [hF] at h
                  injection h with h
                  exact ⟨hc, tail, rfl, h.symm⟩
      · simp only [hst, if_false] at h
        cases h

/-! ## the state after `Parse` -/

/-- the Go state after `Parse`: only `W` moves -/
@[reducible] def withWO (s : Gen.optSuffixArrayParser) (w : Int) : Gen.optSuffixArrayParser :=
  { s with ParserBuffer := { s.ParserBuffer with W := w } }

/-- what the rest of `Parse` needs of the state after `if s.W+n > s.start+len(s.edges) { s.computeEdges() }` -/
structure Prep (B : Nat) (s s1 : Gen.optSuffixArrayParser) : Prop where
  pb : s1.ParserBuffer = s.ParserBuffer
  cfg : s1.OSAPConfig = s.OSAPConfig
  cost : s1.cost = s.cost
  tmp : s1.tmp = s.tmp
  st0 : 0 ≤ s1.start
  ne0 : 0 ≤ s1.nEdges
  stw : s1.start ≤ s1.ParserBuffer.W
  wedges : GWF s1.edges
  wq : ∀ q ∈ s1.edges.data, GWF q ∧ q.len ≤ B

theorem ofOSAPs_withW (B : Nat) (s s1 : Gen.optSuffixArrayParser) (hp : Prep B s s1) (x : Nat) :
    ofOSAPs (withWO s1 (x : Int)) =
      { ofOSAPs s with buf := { (ofOSAPs s).buf with w := x }, dict := .osap (ofOD s1) } := by
  unfold ofOSAPs withWO
  simp only [hp.cfg]
  unfold ofPB
  simp only [hp.pb, Int.toNat_natCast]
  rfl

theorem parseOKO_withW (B : Nat) (s s1 : Gen.optSuffixArrayParser) (h : ParseOKO B s) (hp : Prep B s s1) (x : Nat)
    (h1 : s.ParserBuffer.W ≤ (x : Int)) (h2 : x ≤ s.ParserBuffer.Data.len) : ParseOKO B (withWO s1 (x : Int)) := by
  have hpb := hp.pb
  have hcfg := hp.cfg
  have hstw := hp.stw
  rw [hpb] at hstw
  refine ⟨?_, hp.wedges, hp.wq, ?_, ?_, hp.st0, hp.ne0, ?_, ?_, ?_, ?_, ?_, ?_, ?_, ?_, ?_, ?_⟩
  · show PBWF { s1.ParserBuffer with W := (x : Int) }
    rw [hpb]
    exact ⟨h.pb.data, by show (0 : Int) ≤ (x : Int); omega, h.pb.off, h.pb.ss, h.pb.bs⟩
  · show GWF s1.tmp
    rw [hp.tmp]; exact h.wtmp
  · show s1.cost = 1
    rw [hp.cost]; exact h.cost
  · show s1.start ≤ (x : Int)
    omega
  · show s1.OSAPConfig.BlockSize.toNat = s1.ParserBuffer.BufConfig.BlockSize.toNat
    rw [hcfg, hpb]; exact h.cbs
  · show 0 ≤ s1.OSAPConfig.BlockSize
    rw [hcfg]; exact h.bs0
  · show 0 ≤ s1.OSAPConfig.MinMatchLen
    rw [hcfg]; exact h.mm0
  · show s1.OSAPConfig.MinMatchLen < 4294967296
    rw [hcfg]; exact h.mm32
  · show (x : Int) ≤ ((s1.ParserBuffer.Data.len : Nat) : Int)
    rw [hpb]; omega
  · show s1.ParserBuffer.Data.len ≤ 2147483647
    rw [hpb]; exact h.small
  · show s1.OSAPConfig.WindowSize.toNat = s1.ParserBuffer.BufConfig.WindowSize.toNat
    rw [hcfg, hpb]; exact h.cws
  · show 0 ≤ s1.OSAPConfig.WindowSize
    rw [hcfg]; exact h.ws0
  · show s1.OSAPConfig.MinMatchLen ≤ s1.OSAPConfig.MaxMatchLen
    rw [hcfg]; exact h.mmx

/-- **`if s.W+n > s.start+len(s.edges) { s.computeEdges() }`** on both sides -/
theorem parse_prep (B : Nat) (ce : Gen.optSuffixArrayParser → Res Gen.optSuffixArrayParser) (hCE : CESpec B ce)
    (s : Gen.optSuffixArrayParser) (h : ParseOKO B s) (Wn nN : Nat) (hW : s.ParserBuffer.W = (Wn : Int)) (o1 : OsapD)
    (hm : (if Wn + nN > (ofOD s).start + (ofOD s).edges.size then
             Idx.computeEdgesChk (ofOSAPs s).buf.data Wn (ofOSAPs s).buf.cfg.windowSize
               (ofOSAPs s).minMatch (ofOSAPs s).cfg.maxMatchLen.toNat
           else some (ofOD s)) = some o1) :
    ∃ s1, (s.ParserBuffer.W + (nN : Int) > s.start + Int.ofNat s.edges.len → ce s = Res.ok s1) ∧
      (¬ s.ParserBuffer.W + (nN : Int) > s.start + Int.ofNat s.edges.len → s1 = s) ∧ ofOD s1 = o1 ∧ Prep B s s1 := by
  have hsz : (ofOD s).edges.size = s.edges.len := edgesAbs_size h.wedges
  have hst : (ofOD s).start = s.start.toNat := rfl
  have hst0 := h.st0
  rw [hsz, hst] at hm
  by_cases hre : Wn + nN > s.start.toNat + s.edges.len
  · rw [if_pos hre] at hm
    have hs3 : (ofOSAPs s).buf.w = Wn := by show s.ParserBuffer.W.toNat = Wn; omega
    obtain ⟨s', c1, c2, c3, c4, c5, c6, c7, c8, c9, c10⟩ := hCE s o1 h (by rw [hs3]; exact hm)
    have hs1 := computeEdgesChk_start _ _ _ _ _ _ hm
    have hs2 : s'.start.toNat = o1.start := congrArg OsapD.start c2
    refine ⟨s', fun _ => c1, fun hc => absurd (by show s.ParserBuffer.W + (nN : Int) > s.start + (s.edges.len : Int); omega) hc,
      c2, c3, c4, c5, c6, c7, c8, ?_, c9, c10⟩
    rw [c3, hW]
    omega
  · rw [if_neg hre] at hm
    injection hm with hm
    refine ⟨s, fun hc => absurd (show s.ParserBuffer.W + (nN : Int) > s.start + (s.edges.len : Int) from hc) (by omega),
      fun _ => rfl, hm, rfl, rfl, rfl, rfl, h.st0, h.ne0, h.stw, h.wedges, h.wq⟩

/-- decide the FIRST `if` of the goal (outermost, leftmost) from the context, whatever the spelling of its test
    (operand order, `≠`/`=` with swapped arms, De Morgan) and whichever arm is taken; atoms like `iand flags 1` are opaque
    to omega, `Int.ofNat` is normalised when plain omega fails -/
macro "os_ite" : tactic =>
  `(tactic| first | rw [if_pos (by omega)] | rw [if_neg (by omega)] | rw [if_pos (by int_omega)] | rw [if_neg (by int_omega)])

set_option maxHeartbeats 2000000 in
/-- **`Parse` = `parseOsapChk`**: whenever the range-checked model returns a result, the translated Go text returns
    its representation (no panic, no fuel exhaustion), and the invariant bundle holds again. -/
theorem gen_osap_parse_sp (B : Nat) (grow : Nat → Nat → Nat) (fuel : Nat)
    (ce : Gen.optSuffixArrayParser → Res Gen.optSuffixArrayParser) (hSP : SPSpec) (hCE : CESpec B ce)
    (s : Gen.optSuffixArrayParser) (blk : Gen.Block') (flags : Int) (h : ParseOKO B s) (hfl : 0 ≤ flags)
    (hfuel : s.ParserBuffer.Data.len + B + 5 ≤ fuel) :
    ∀ (P' : Parser) (n : Nat) (e : LZ.Err) (b : Block),
      Idx.parseOsapChk (ofOSAPs s) (ofOD s) flags.toNat = some (P', n, e, b) →
      ∃ t blk', optSuffixArrayParser_Parse grow fuel ce s blk flags = Res.ok (t, blk', (n : Int), parseErr e) ∧
        ofOSAPs t = P' ∧ (e = .ok ∨ e = .empty) ∧
        blk'.Sequences = b.seqs.map seqRep ∧ blk'.Literals.data = b.lits ∧ SWF blk'.Literals ∧ ParseOKO B t := by
  intro P' n e b hchk
  have hpb := h.pb
  have hD : SWF s.ParserBuffer.Data := hpb.data
  have hD' : s.ParserBuffer.Data.len ≤ s.ParserBuffer.Data.arr.length := hD
  have hdl : s.ParserBuffer.Data.data.length = s.ParserBuffer.Data.len := data_length hD
  obtain ⟨Wn, hWn⟩ : ∃ Wn : Nat, s.ParserBuffer.W = (Wn : Int) := ⟨s.ParserBuffer.W.toNat, by have := hpb.w; omega⟩
  have hWn' : s.ParserBuffer.W.toNat = Wn := by omega
  have hWl : Wn ≤ s.ParserBuffer.Data.len := by have := h.w; omega
  have hbs0 := h.bs0
  have hsmall := h.small
  have hbN : (ofOSAPs s).blockN = Min.min (s.ParserBuffer.Data.len - Wn) s.OSAPConfig.BlockSize.toNat := by
    show Min.min (s.ParserBuffer.Data.data.length - s.ParserBuffer.W.toNat) s.ParserBuffer.BufConfig.BlockSize.toNat = _
    rw [hdl, h.cbs, hWn']
  have hnG : (if (Int.ofNat s.ParserBuffer.Data.len) - s.ParserBuffer.W > s.OSAPConfig.BlockSize
      then s.OSAPConfig.BlockSize else (Int.ofNat s.ParserBuffer.Data.len) - s.ParserBuffer.W) =
      (((ofOSAPs s).blockN : Nat) : Int) := by
    rw [hbN, hWn]
    show (if (s.ParserBuffer.Data.len : Int) - _ > _ then _ else (s.ParserBuffer.Data.len : Int) - _) = _
    split <;> omega
  -- the same clamp spelled `n >= s.BlockSize` (a harmless rewrite of the Go text)
  have hnG' : (if (Int.ofNat s.ParserBuffer.Data.len) - s.ParserBuffer.W ≥ s.OSAPConfig.BlockSize
      then s.OSAPConfig.BlockSize else (Int.ofNat s.ParserBuffer.Data.len) - s.ParserBuffer.W) =
      (((ofOSAPs s).blockN : Nat) : Int) := by
    rw [hbN, hWn]
    show (if (s.ParserBuffer.Data.len : Int) - _ ≥ _ then _ else (s.ParserBuffer.Data.len : Int) - _) = _
    split <;> omega
  by_cases hn : (ofOSAPs s).blockN = 0
  · have hg : blockNO s = 0 := by unfold blockNO; rw [hnG, hn]; rfl
    unfold Idx.parseOsapChk at hchk
    simp only [hn, if_true] at hchk
    injection hchk with hchk
    simp only [Prod.mk.injEq] at hchk
    obtain ⟨e1, e2, e3, e4⟩ := hchk
    subst e1 e2 e3 e4
    exact ⟨s, resetBlk blk, gen_osap_parse_empty grow fuel ce s blk flags hg, rfl, Or.inr rfl, rfl, rfl,
      Nat.zero_le _, h⟩
  obtain ⟨o1, hE, hcases⟩ := parseOsapChk_some _ _ _ _ hn hchk
  have hw0 : (ofOSAPs s).buf.w = Wn := hWn'
  generalize hnN : (ofOSAPs s).blockN = nN at hn hbN hnG hnG' hE hcases
  rw [hw0] at hE hcases
  have hLlen : Wn + nN ≤ s.ParserBuffer.Data.len := by omega
  have hn0 : ¬ ((nN : Int) = 0) := by omega
  obtain ⟨s1, hs1a, hs1b, hod1, hprep⟩ := parse_prep B ce hCE s h Wn nN hWn o1 hE
  have hpb1 := hprep.pb
  have hW1 : s1.ParserBuffer.W = (Wn : Int) := by rw [hpb1]; exact hWn
  have hD1 : s1.ParserBuffer.Data = s.ParserBuffer.Data := by rw [hpb1]
  have hs0 : Slice.slice blk.Literals 0 (0 : Int) = Res.ok { arr := blk.Literals.arr, len := 0 } := by
    unfold Slice.slice
    simp [Slice.cap]
  have hne1 : s1.nEdges = 0 ↔ o1.nEdges = 0 := by
    have h1 : o1.nEdges = s1.nEdges.toNat := by rw [← hod1]; rfl
    have h2 := hprep.ne0
    omega
  rcases hcases with ⟨h0, lits, hS, hr⟩ | ⟨h0, hst, path, pL, r', hP, hT, hR, hfin⟩
  · -- no edges: the block is all literals
    simp only [Prod.mk.injEq] at hr
    obtain ⟨e1, e2, e3, e4⟩ := hr
    subst e1 e3 e4
    have e2' : nN = n := e2.symm
    subst e2'
    have hz : s1.nEdges = 0 := hne1.mpr h0
    have hlits : lits = (s.ParserBuffer.Data.arr.drop Wn).take nN := by
      unfold Idx.sliceChk at hS
      rw [if_pos ⟨by omega, by show Wn + nN ≤ s.ParserBuffer.Data.data.length; omega⟩] at hS
      injection hS with hS
      rw [← hS]
      show ((s.ParserBuffer.Data.arr.take s.ParserBuffer.Data.len).drop Wn).take (Wn + nN - Wn) = _
      rw [take_drop_take _ _ _ _ hLlen]
      congr 1; omega
    subst hlits
    refine ⟨withWO s1 ((Wn + nN : Nat) : Int),
      { Sequences := [], Literals := Slice.append grow { arr := blk.Literals.arr, len := 0 }
          ((s.ParserBuffer.Data.arr.drop Wn).take nN) }, ?_, ?_, Or.inl rfl, rfl, ?_,
      swf_append grow _ (Nat.zero_le _) _, parseOKO_withW B s s1 h hprep _ (by omega) hLlen⟩
    · unfold optSuffixArrayParser_Parse optSuffixArrayParser_Parse_nilable; simp only [Bool.false_eq_true]
      simp only [if_false]
      simp only [hnG, hnG']
      rw [hs0, bind_ok]
      try dsimp only
      os_ite
      refine bind_trans (v := s1) ?_ ?_
      · by_cases hre : s.ParserBuffer.W + (nN : Int) > s.start + Int.ofNat s.edges.len
        · os_ite; rw [hs1a hre, bind_ok]
        · os_ite; rw [hs1b hre]
      try dsimp only
      rw [if_pos hz]
      rw [slice_okI s1.ParserBuffer.Data s1.ParserBuffer.W (s1.ParserBuffer.W + (nN : Int)) Wn (Wn + nN) hW1
        (by rw [hW1]; omega) (by omega) (by rw [hD1]; omega), bind_ok]
      have e1 : s1.ParserBuffer.W + (nN : Int) = ((Wn + nN : Nat) : Int) := by rw [hW1]; omega
      have e2 : ({ arr := s1.ParserBuffer.Data.arr.drop Wn, len := Wn + nN - Wn } : Slice).data =
          (s.ParserBuffer.Data.arr.drop Wn).take nN := by
        rw [hD1]
        show (s.ParserBuffer.Data.arr.drop Wn).take (Wn + nN - Wn) = _
        congr 1; omega
      rw [e1, e2]
      rfl
    · rw [ofOSAPs_withW B s s1 hprep, hod1]
    · show (Slice.append grow _ _).data = _
      rw [(append_spec grow _ (Nat.zero_le _) _).1]
      rfl
  · -- the shortest path and its conversion
    have hz : ¬ s1.nEdges = 0 := fun hc => h0 (hne1.mp hc)
    have hk0 : 0 ≤ s1.ParserBuffer.W - s1.start := by have := hprep.stw; omega
    have hmm : (ofOSAPs s).minMatch = s1.OSAPConfig.MinMatchLen.toNat := by rw [hprep.cfg]; rfl
    have hed : o1.edges = edgesAbs s1.edges := by rw [← hod1]; rfl
    have hk : Wn - o1.start = (s1.ParserBuffer.W - s1.start).toNat := by
      rw [← hod1, hW1]
      show Wn - s1.start.toNat = _
      have := hprep.st0
      omega
    rw [hmm, hed, hk] at hP
    obtain ⟨hplen, hpsum⟩ := shortestPathChk_facts _ _ _ _ _ hn hP
    obtain ⟨sp, hsp, hspd, hspw⟩ := hSP grow fuel s1 { arr := s1.tmp.arr.drop 0, len := 0 - 0 } (nN : Int) path
      (by rw [hprep.cost]; exact h.cost) (by omega) hk0 hprep.wedges (fun q hq => (hprep.wq q hq).1)
      (by rw [hprep.cfg]; exact h.mm0) (by rw [hprep.cfg]; exact h.mm32) (by show 0 - 0 ≤ _; omega)
      (fun q hq => by have := (hprep.wq q hq).2; rw [Int.toNat_natCast]; omega)
      (by rw [Int.toNat_natCast]; exact hP)
    have hspd' : sp.data.map edgeAbs = path.reverse := by simpa [GSlice.data] using hspd
    have hsplen : sp.len = path.length := by
      have := congrArg List.length hspd'
      simpa [gdata_length hspw] using this
    have hπ : ((sp.data.take sp.len).map edgeAbs).reverse = path := by
      rw [List.take_of_length_le (by rw [gdata_length hspw]; exact Nat.le_refl _), hspd', List.reverse_reverse]
    have hpL : pL = s.ParserBuffer.Data.arr.take (Wn + nN) := by
      unfold Idx.sliceToChk at hT
      rw [if_pos (by show Wn + nN ≤ s.ParserBuffer.Data.data.length; omega)] at hT
      injection hT with hT
      rw [← hT]
      show (s.ParserBuffer.Data.arr.take s.ParserBuffer.Data.len).take (Wn + nN) = _
      rw [List.take_take, Nat.min_eq_left hLlen]
    subst hpL
    obtain ⟨hri, hrl1, hrl2⟩ := pathToSeqsChk_facts _ _ _ _ _ _ _ (Nat.le_refl _) hR
    rw [hpsum] at hri
    obtain ⟨blk2, i2, li2, j2, hloop, hseq2, hlit2, hswf2, hi2, hli2⟩ :=
      parse_loop_eq grow ce sp hspw { arr := s1.ParserBuffer.Data.arr, len := Wn + nN }
        (by show Wn + nN ≤ s1.ParserBuffer.Data.arr.length; rw [hD1]; omega)
        sp.len path (Nat.le_refl _) hπ fuel { Sequences := [], Literals := { arr := blk.Literals.arr, len := 0 } }
        (UInt32.ofInt s1.ParserBuffer.W) (UInt32.ofInt s1.ParserBuffer.W) (Int.ofNat sp.len - 1) Wn Wn [] [] r' rfl
        (by omega) (toNat_ofInt32 Wn _ hW1 (by omega)) (toNat_ofInt32 Wn _ hW1 (by omega)) (by omega) rfl rfl
        (Nat.zero_le _) (by rw [hD1]; exact hR)
    have hli2le : li2.toNat ≤ Wn + nN := by omega
    have hParse : optSuffixArrayParser_Parse grow fuel ce s blk flags =
        if iand flags 1 ≠ 0 ∧ Int.ofNat blk2.Sequences.length > 0 then
          Res.ok (withWO s1 (Int.ofNat li2.toNat), blk2, Int.ofNat li2.toNat - s1.ParserBuffer.W, Gen.Err.ok)
        else Res.ok (withWO s1 (Int.ofNat (Wn + nN)),
          ({ Sequences := blk2.Sequences,
             Literals := Slice.append grow blk2.Literals
               ((s.ParserBuffer.Data.arr.take (Wn + nN)).drop li2.toNat) } : Block'),
          Int.ofNat (Wn + nN) - s1.ParserBuffer.W, Gen.Err.ok) := by
      unfold optSuffixArrayParser_Parse optSuffixArrayParser_Parse_nilable; simp only [Bool.false_eq_true]
      simp only [if_false]
      simp only [hnG, hnG']
      rw [hs0, bind_ok]
      try dsimp only
      os_ite
      refine bind_trans (v := s1) ?_ ?_
      · by_cases hre : s.ParserBuffer.W + (nN : Int) > s.start + Int.ofNat s.edges.len
        · os_ite; rw [hs1a hre, bind_ok]
        · os_ite; rw [hs1b hre]
      try dsimp only
      rw [if_neg hz, gslice_ok s1.tmp 0 (0 : Int) 0 0 rfl rfl (Nat.le_refl 0) (Nat.zero_le _), bind_ok, hsp, bind_ok]
      try dsimp only
      rw [slice_okI s1.ParserBuffer.Data 0 (s1.ParserBuffer.W + (nN : Int)) 0 (Wn + nN) rfl
        (by rw [hW1]; omega) (Nat.zero_le _) (by rw [hD1]; omega), bind_ok]
      simp only [List.drop_zero, Nat.sub_zero]
      rw [hloop, bind_ok]
      try dsimp only
      by_cases hcnd : iand flags 1 ≠ 0 ∧ Int.ofNat blk2.Sequences.length > 0
      · -- the Go test in any spelling (conjuncts in either order, De Morgan with the arms swapped, `<= 0` for `> 0`)
        refine Eq.trans ?_ (if_pos hcnd).symm
        os_ite
        rw [bind_ok]
      · refine Eq.trans ?_ (if_neg hcnd).symm
        os_ite
        rw [slice_okI { arr := s1.ParserBuffer.Data.arr, len := Wn + nN } (Int.ofNat li2.toNat) (Int.ofNat (Wn + nN))
          li2.toNat (Wn + nN) rfl rfl hli2le
          (by show Wn + nN ≤ s1.ParserBuffer.Data.arr.length; rw [hD1]; omega), bind_ok, bind_ok]
        try dsimp only
        have e1 : (UInt32.ofInt (Int.ofNat (Wn + nN))).toNat = Wn + nN := toNat_ofInt32 (Wn + nN) _ rfl (by omega)
        have e2 : ({ arr := s1.ParserBuffer.Data.arr.drop li2.toNat, len := Wn + nN - li2.toNat } : Slice).data =
            (s.ParserBuffer.Data.arr.take (Wn + nN)).drop li2.toNat := by
          rw [hD1]; exact data_drop _ _ _
        rw [e1, e2]
    have hslen : blk2.Sequences.length = r'.1.length := by rw [hseq2, List.length_map]
    rcases hfin with ⟨hf1, hf2, hr⟩ | ⟨hf, tail, hF, hr⟩
    · -- NoTrailingLiterals and at least one sequence: the block ends at `litIndex`
      simp only [Prod.mk.injEq] at hr
      obtain ⟨e1, e2, e3, e4⟩ := hr
      subst e1 e3 e4
      have hne : r'.1.length ≠ 0 := fun hc => hf2 (List.eq_nil_of_length_eq_zero hc)
      have hcnd : iand flags 1 ≠ 0 ∧ Int.ofNat blk2.Sequences.length > 0 :=
        ⟨(iand_one flags hfl).mpr hf1, by show (blk2.Sequences.length : Int) > 0; omega⟩
      rw [if_pos hcnd] at hParse
      have hnI : Int.ofNat li2.toNat - s1.ParserBuffer.W = (n : Int) := by
        rw [hW1, e2]
        show (li2.toNat : Int) - (Wn : Int) = _
        omega
      refine ⟨withWO s1 (Int.ofNat li2.toNat), blk2, ?_, ?_, Or.inl rfl, hseq2, hlit2, hswf2,
        parseOKO_withW B s s1 h hprep li2.toNat (by rw [hWn]; omega) (by omega)⟩
      · rw [hParse, hnI]; rfl
      · show ofOSAPs (withWO s1 ((li2.toNat : Nat) : Int)) = _
        rw [ofOSAPs_withW B s s1 hprep, hod1, hli2]
    · -- otherwise the tail literals are appended and the block ends at `W + n`
      simp only [Prod.mk.injEq] at hr
      obtain ⟨e1, e2, e3, e4⟩ := hr
      subst e1 e3 e4
      have hcnd : ¬ (iand flags 1 ≠ 0 ∧ Int.ofNat blk2.Sequences.length > 0) := by
        intro ⟨h1, h2⟩
        apply hf
        refine ⟨(iand_one flags hfl).mp h1, ?_⟩
        intro hc
        have h2' : (blk2.Sequences.length : Int) > 0 := h2
        rw [hslen, hc] at h2'
        exact absurd h2' (by decide)
      have hplen2 : (s.ParserBuffer.Data.arr.take (Wn + nN)).length = Wn + nN := by rw [List.length_take]; omega
      have htail : tail = (s.ParserBuffer.Data.arr.take (Wn + nN)).drop r'.2.2.2 := by
        unfold Idx.sliceFromChk at hF
        rw [if_pos (by rw [hplen2]; omega)] at hF
        injection hF with hF
        exact hF.symm
      rw [if_neg hcnd] at hParse
      have hnI : Int.ofNat (Wn + nN) - s1.ParserBuffer.W = (n : Int) := by
        rw [hW1, e2, hplen2]
        show ((Wn + nN : Nat) : Int) - (Wn : Int) = _
        omega
      refine ⟨withWO s1 (Int.ofNat (Wn + nN)),
        ({ Sequences := blk2.Sequences,
           Literals := Slice.append grow blk2.Literals
             ((s.ParserBuffer.Data.arr.take (Wn + nN)).drop li2.toNat) } : Block'), ?_, ?_, Or.inl rfl, hseq2, ?_,
        swf_append grow _ hswf2 _, parseOKO_withW B s s1 h hprep (Wn + nN) (by rw [hWn]; omega) hLlen⟩
      · rw [hParse, hnI]; rfl
      · show ofOSAPs (withWO s1 ((Wn + nN : Nat) : Int)) = _
        rw [ofOSAPs_withW B s s1 hprep, hod1, hplen2]
      · show (Slice.append grow blk2.Literals _).data = _
        rw [(append_spec grow _ hswf2 _).1, hlit2, htail, hli2]

/-- **Go text → list-level model**, `shortestPath` under `SPSpec`.  For a Go state whose abstraction is reachable through
    the API (`Idx.osap_parseChk_reachable`: the range-checked model succeeds there and equals `Parser.parse`), the
    translated `Parse` does not panic and returns the representation of the LIST-LEVEL model `Parser.parse`; the new Go
    state represents the new model state. -/
theorem gen_osap_parse_model_sp (B : Nat) (grow : Nat → Nat → Nat) (fuel : Nat)
    (ce : Gen.optSuffixArrayParser → Res Gen.optSuffixArrayParser) (hSP : SPSpec) (hCE : CESpec B ce)
    (s : Gen.optSuffixArrayParser) (blk : Gen.Block') (flags : Int) (h : ParseOKO B s) (hfl : 0 ≤ flags)
    (hfuel : s.ParserBuffer.Data.len + B + 5 ≤ fuel)
    (raw : Cfg) (s0 : Parser) (h0 : newParser .OSAP raw = some s0) (ops : List POp)
    (hreach : ofOSAPs s = (runOps (s0, Ghost.init) ops).1) :
    ∃ t blk', optSuffixArrayParser_Parse grow fuel ce s blk flags =
        Res.ok (t, blk', (((ofOSAPs s).parse flags.toNat).2.1 : Int), parseErr ((ofOSAPs s).parse flags.toNat).2.2.1) ∧
      ((ofOSAPs s).parse flags.toNat).1 = ofOSAPs t ∧
      blk'.Sequences = ((ofOSAPs s).parse flags.toNat).2.2.2.seqs.map seqRep ∧
      blk'.Literals.data = ((ofOSAPs s).parse flags.toNat).2.2.2.lits ∧ SWF blk'.Literals ∧ ParseOKO B t := by
  have hm : ∃ o, (runOps (s0, Ghost.init) ops).1.dict = .osap o ∧
      Idx.parseOsapChk (runOps (s0, Ghost.init) ops).1 o flags.toNat =
        some ((runOps (s0, Ghost.init) ops).1.parse flags.toNat) :=
    Idx.osap_parseChk_reachable raw s0 h0 ops flags.toNat
  rw [← hreach] at hm
  obtain ⟨o, hd, hp⟩ := hm
  have ho : o = ofOD s := by
    have hd' : Dict.osap (ofOD s) = Dict.osap o := hd
    injection hd' with hd'
    exact hd'.symm
  subst ho
  obtain ⟨t, blk', h1, h2, _, h4, h5, h6, h7⟩ := gen_osap_parse_sp B grow fuel ce hSP hCE s blk flags h hfl hfuel
    ((ofOSAPs s).parse flags.toNat).1 ((ofOSAPs s).parse flags.toNat).2.1 ((ofOSAPs s).parse flags.toNat).2.2.1
    ((ofOSAPs s).parse flags.toNat).2.2.2 hp
  exact ⟨t, blk', h1, h2.symm, h4, h5, h6, h7⟩

/-! ## with the translated `shortestPath` (LzProofs.GenOSAPPath) -/

/-- `SPSpec` holds: it is `gen_osap_shortestPath` -/
theorem spSpec_holds : SPSpec :=
  fun grow fuel s p n path a1 a2 a3 a4 a5 a6 a7 a8 a9 a10 =>
    gen_osap_shortestPath grow fuel s p n path a1 a2 a3 a4 a5 a6 a7 a8 a9 a10

/-- **`Parse` = `parseOsapChk`** (`shortestPath` translated and proved; `computeEdges` opaque under `CESpec`):
    whenever the range-checked model returns a result, the translated Go text returns its representation (no panic, no
    fuel exhaustion) and `ParseOKO` holds again. -/
theorem gen_osap_parse (B : Nat) (grow : Nat → Nat → Nat) (fuel : Nat)
    (ce : Gen.optSuffixArrayParser → Res Gen.optSuffixArrayParser) (hCE : CESpec B ce)
    (s : Gen.optSuffixArrayParser) (blk : Gen.Block') (flags : Int) (h : ParseOKO B s) (hfl : 0 ≤ flags)
    (hfuel : s.ParserBuffer.Data.len + B + 5 ≤ fuel) :
    ∀ (P' : Parser) (n : Nat) (e : LZ.Err) (b : Block),
      Idx.parseOsapChk (ofOSAPs s) (ofOD s) flags.toNat = some (P', n, e, b) →
      ∃ t blk', optSuffixArrayParser_Parse grow fuel ce s blk flags = Res.ok (t, blk', (n : Int), parseErr e) ∧
        ofOSAPs t = P' ∧ (e = .ok ∨ e = .empty) ∧
        blk'.Sequences = b.seqs.map seqRep ∧ blk'.Literals.data = b.lits ∧ SWF blk'.Literals ∧ ParseOKO B t :=
  gen_osap_parse_sp B grow fuel ce spSpec_holds hCE s blk flags h hfl hfuel

/-- **Go text → list-level model** (`shortestPath` translated and proved; `computeEdges` opaque under `CESpec`) -/
theorem gen_osap_parse_model (B : Nat) (grow : Nat → Nat → Nat) (fuel : Nat)
    (ce : Gen.optSuffixArrayParser → Res Gen.optSuffixArrayParser) (hCE : CESpec B ce)
    (s : Gen.optSuffixArrayParser) (blk : Gen.Block') (flags : Int) (h : ParseOKO B s) (hfl : 0 ≤ flags)
    (hfuel : s.ParserBuffer.Data.len + B + 5 ≤ fuel)
    (raw : Cfg) (s0 : Parser) (h0 : newParser .OSAP raw = some s0) (ops : List POp)
    (hreach : ofOSAPs s = (runOps (s0, Ghost.init) ops).1) :
    ∃ t blk', optSuffixArrayParser_Parse grow fuel ce s blk flags =
        Res.ok (t, blk', (((ofOSAPs s).parse flags.toNat).2.1 : Int), parseErr ((ofOSAPs s).parse flags.toNat).2.2.1) ∧
      ((ofOSAPs s).parse flags.toNat).1 = ofOSAPs t ∧
      blk'.Sequences = ((ofOSAPs s).parse flags.toNat).2.2.2.seqs.map seqRep ∧
      blk'.Literals.data = ((ofOSAPs s).parse flags.toNat).2.2.2.lits ∧ SWF blk'.Literals ∧ ParseOKO B t :=
  gen_osap_parse_model_sp B grow fuel ce spSpec_holds hCE s blk flags h hfl hfuel raw s0 h0 ops hreach

/-! ## non-vacuity: the translated `Parse` run on a small state -/

section Examples

/-- `Data = "abab"`, `W = start = 0`, edge table `[[], [], [(2,2)], []]` covering the block (so `computeEdges` is not
    called), `BlockSize = 8`, `MinMatchLen = 2`, `cost = XZCost` -/
def exP : Gen.optSuffixArrayParser :=
  { (default : Gen.optSuffixArrayParser) with
    ParserBuffer :=
      { Data := { arr := [97, 98, 97, 98, 0, 0], len := 4 }
        W := 0
        Off := 0
        BufConfig := { ShrinkSize := 0, BufferSize := 16, WindowSize := 8, BlockSize := 8 } }
    cost := 1
    nEdges := 1
    OSAPConfig :=
      { ShrinkSize := 0, BufferSize := 16, WindowSize := 8, BlockSize := 8, MinMatchLen := 2, MaxMatchLen := 273,
        Cost := "XZCost" }
    edges := { arr := [GSlice.nil, GSlice.nil, { arr := [{ m := 2, o := 2 }], len := 1 }, GSlice.nil], len := 4 } }

example : ParseOKO 4 exP := by
  refine ⟨⟨?_, ?_, ?_, ?_, ?_⟩, ?_, ?_, ?_, ?_, ?_, ?_, ?_, ?_, ?_, ?_, ?_, ?_, ?_, ?_, ?_, ?_⟩ <;>
    first | decide | (unfold GWF; decide) | (unfold SWF; decide)

-- the checked model: two literals, then the match (2, 2); with NoTrailingLiterals the same (no tail here)
#guard (Idx.parseOsapChk (ofOSAPs exP) (ofOD exP) 0).map (fun r => (r.2.1, r.2.2.2)) ==
  some (4, ⟨[⟨2, 2, 2, 0⟩], [97, 98]⟩)
-- the translated Go text, `computeEdges := panic` (never called here)
#guard (match optSuffixArrayParser_Parse (fun _ n => 2 * n) 20 (fun _ => Res.panic) exP default 0 with
        | Res.ok (t, blk', n, e) =>
          n == 4 && e == Gen.Err.ok && t.ParserBuffer.W == 4 && blk'.Sequences == [⟨2, 2, 2, 0⟩] &&
            blk'.Literals.data == [97, 98]
        | _ => false)
-- too little fuel is reported as `Res.fuel`
#guard (match optSuffixArrayParser_Parse (fun _ n => 2 * n) 2 (fun _ => Res.panic) exP default 0 with
        | Res.fuel => true | _ => false)
-- a block the table does not cover calls `computeEdges`
#guard (match optSuffixArrayParser_Parse (fun _ n => 2 * n) 20 (fun _ => Res.panic)
          { exP with edges := { arr := [], len := 0 } } default 0 with
        | Res.panic => true | _ => false)

end Examples

end LZ.GenOSAP

#print axioms LZ.GenOSAP.gen_osap_parse_empty
#print axioms LZ.GenOSAP.parse_loop_eq
#print axioms LZ.GenOSAP.parse_prep
#print axioms LZ.GenOSAP.gen_osap_parse_sp
#print axioms LZ.GenOSAP.gen_osap_parse_model_sp
#print axioms LZ.GenOSAP.spSpec_holds
#print axioms LZ.GenOSAP.gen_osap_parse
#print axioms LZ.GenOSAP.gen_osap_parse_model
