/-
  LzProofs.GenBUPShrink — `Shrink` of the bucket parser BUP about the Go text.

  bucket_hash.go `(*bucketDictionary).Shrink` IS translated (LzModel/Generated/CodeBUPShrink.lean, topic BUPShrink of
  tools/extract/code_opq.go); its callee `(*bucketHash).shiftOffsets` is an OPAQUE STATE-PASSING METHOD
  (`bucketHash_shiftOffsets : bucketHash → UInt32 → Res bucketHash`, a parameter of the translated function): it takes
  `b := bh.bucket(h)` and writes through `b` (`copy(b, tmp[:i])`, `p := b[i:]; p[k] = …`) while `bh.buckets` is live, which
  the value model of slices cannot express.  Its specification against the model's `BucketT.shiftOffsets` is the hypothesis
  `ShiftSpec` below — the status `lcs` / `lcp` / `suffix.Sort` / `bitset.insert` have; the tie for `shiftOffsets` itself stays
  by correspondence (hand model `BucketT.shiftOffsets`, LzModel/Hash.lean).  No sorry, no axioms of its own.

    ShiftSpec SO          on tables satisfying `BOK`, for `delta > 0`: `SO g delta` is `Res.ok g'` with
                          `ofBucket g' = (ofBucket g).shiftOffsets delta`, `BOK g'`, scalar fields unchanged
    shiftK, shiftK_spec   the hypothesis is SATISFIABLE (a witness computed from the model)
    gen_bup_shrink        translated `bucketDictionary.Shrink` = `Parser.shrink` (same `delta`, new state; `BOK` kept)
    bup_Shrink            the promoted method `s.Shrink()` for `s *bucketParser`
    hist_shrink           `HistOKU` is preserved; the model's `delta`
-/
import LzModel.Generated.CodeBUPShrink
import LzProofs.GenBUPHist

set_option linter.unusedSimpArgs false
set_option linter.unusedVariables false

namespace LZ.GenBUPHist
open LZ LZ.Gen LZ.GenBuf LZ.GenHash LZ.GenHPParse LZ.GenBUPParse LZ.GenProps
open LZ.GenHPHist (BCOK capOK_shrink)

/-- the type of the opaque `(*bucketHash).shiftOffsets` -/
abbrev SOFun := Gen.bucketHash → UInt32 → Res Gen.bucketHash

/-- **specification of the opaque callee** `(*bucketHash).shiftOffsets(delta)` against the model's
    `BucketT.shiftOffsets`: on a table with the invariant `BOK` (what `init` establishes and `add` / `reset` keep) and
    for `delta > 0` it does not panic, yields the model's table, keeps `BOK` and never writes the scalar fields. -/
def ShiftSpec (SO : SOFun) : Prop :=
  ∀ (g : Gen.bucketHash) (delta : UInt32), BOK g → 0 < delta.toNat →
    ∃ g', SO g delta = Res.ok g' ∧ ofBucket g' = (ofBucket g).shiftOffsets delta.toNat ∧ BOK g' ∧ SameCfg g g'

theorem mshrink_bucket (s : Parser) (bk : BucketT) (hd : s.dict = .bucket bk) :
    s.shrink = if s.buf.shrink.2 = 0 then (s, 0)
      else ({ s with buf := s.buf.shrink.1, dict := .bucket (bk.shiftOffsets s.buf.shrink.2) }, s.buf.shrink.2) := by
  simp only [Parser.shrink, hd]

/-- **translated `bucketDictionary.Shrink` = the model's `Parser.shrink`**, under `ShiftSpec` for the opaque callee -/
theorem gen_bup_shrink (SO : SOFun) (hSO : ShiftSpec SO) (c : Cfg) (f : Gen.bucketDictionary) (h : BDictWF f)
    (hbok : BOK f.bucketHash)
    (hw : f.ParserBuffer.W - f.ParserBuffer.BufConfig.ShrinkSize ≤ f.ParserBuffer.Data.len)
    (hW : f.ParserBuffer.W < 4294967296) :
    ∃ f', bucketDictionary_Shrink SO f = Res.ok (f', ((Parser.shrink (ofBDict c f)).2 : Int)) ∧
      ofBDict c f' = (Parser.shrink (ofBDict c f)).1 ∧ BDictWF f' ∧ BOK f'.bucketHash ∧
      SameCfg f.bucketHash f'.bucketHash := by
  obtain ⟨hpb, hh⟩ := h
  obtain ⟨b', hb, hof, hwf⟩ := gen_pbuf_shrink f.ParserBuffer hpb hw
  unfold bucketDictionary_Shrink
  rw [hb]
  simp only [bind_ok]
  rw [mshrink_bucket (ofBDict c f) (ofBucket f.bucketHash) rfl]
  have hbuf : (ofBDict c f).buf = ofPB f.ParserBuffer := rfl
  rw [hbuf]
  rcases hr : PBuf.shrink (ofPB f.ParserBuffer) with ⟨rb, d⟩
  rw [hr] at hof
  simp only
  have hdlt : d < 2 ^ 32 := by
    have : d = (PBuf.shrink (ofPB f.ParserBuffer)).2 := by rw [hr]
    rw [this]; unfold PBuf.shrink
    have hw0 := hpb.w
    split
    · simp
    · simp only [ofPB]; omega
  by_cases hd : d = 0
  · subst hd
    have hrb : rb = ofPB f.ParserBuffer := by
      have e : rb = (PBuf.shrink (ofPB f.ParserBuffer)).1 := by rw [hr]
      rw [e]
      exact (PBuf.shrink_frame _).2.2.2.2.2 (by rw [hr])
    simp only [if_true]
    split
    all_goals first
      | (exfalso; omega)
      | ((try simp only [bind_ok])
         refine ⟨_, rfl, ?_, ⟨hwf, hh⟩, hbok, SameCfg.refl _⟩
         simp only [ofBDict, hof, hrb])
  · have hdt : (UInt32.ofInt (d : Int)).toNat = d := toNat_ofInt32_small d hdlt
    obtain ⟨g', hg, hofg, hbg, hsc⟩ := hSO f.bucketHash (UInt32.ofInt (d : Int)) hbok (by rw [hdt]; omega)
    simp only [hd, if_false]
    split
    all_goals first
      | (exfalso; omega)
      | (simp only [hg, bind_ok]
         refine ⟨_, rfl, ?_, ⟨hwf, hbg.gwf, hbg.swf⟩, hbg, hsc⟩
         simp only [ofBDict, hof, hofg, hdt])

/-! ## the promoted method and the history step -/

/-- `s.Shrink()` for `s *bucketParser`: `bucketDictionary.Shrink` on the embedded dictionary -/
def bup_Shrink (SO : SOFun) (s : Gen.bucketParser) : Res (Gen.bucketParser × Int) :=
  Res.bind (bucketDictionary_Shrink SO s.bucketDictionary) fun r =>
  Res.ok ({ s with bucketDictionary := r.1 }, r.2)

theorem hist_shrink {bc : BufCfg} (hbc : BCOK bc) (SO : SOFun) (hSO : ShiftSpec SO) (t : Gen.bucketParser)
    (h : HistOKU bc t) :
    ∃ t', bup_Shrink SO t = Res.ok (t', ((ofBUPs t).shrink.2 : Int)) ∧ HistOKU bc t' ∧
      ofBUPs t' = (ofBUPs t).shrink.1 := by
  have hW := h.pok.w
  have hS := h.pok.small
  have hss := h.pok.wf.1.ss
  obtain ⟨f', hf, hof, hwf, hbok, hsc⟩ := gen_bup_shrink SO hSO (ofBUP t.BUPConfig) t.bucketDictionary h.pok.wf h.pok.bok
    (by omega) (by omega)
  unfold bup_Shrink
  rw [hf]
  refine ⟨_, rfl, ?_, hof⟩
  have hbuf : ofPB f'.ParserBuffer = (ofBUPs t).shrink.1.buf := congrArg Parser.buf hof
  have hbuf' : ofPB f'.ParserBuffer = ofPB t.bucketDictionary.ParserBuffer ∨
      ofPB f'.ParserBuffer = (ofPB t.bucketDictionary.ParserBuffer).shrink.1 := by
    rcases shrink_eq (ofBUPs t) with he | ⟨-, -, hb, -, -⟩
    · left; rw [hbuf, he]; rfl
    · right; rw [hbuf, hb]; rfl
  have hmw : (ofPB t.bucketDictionary.ParserBuffer).w ≤ (ofPB t.bucketDictionary.ParserBuffer).data.length := h.hw
  have hml : (ofPB t.bucketDictionary.ParserBuffer).data.length ≤ bc.bufferSize := by
    have := h.mlen; rw [h.mcfg] at this; exact this
  refine histOKU_update hbc h f' hwf.1 hbok hsc ?_ ?_ ?_ ?_
  · rcases hbuf' with e | e
    · rw [e]; exact h.cfg
    · rw [e, (PBuf.shrink_frame _).2.2.2.1]; exact h.cfg
  · rcases hbuf' with e | e
    · rw [e]; exact hmw
    · obtain ⟨a1, a2, a3, a4, a5, a6⟩ := PBuf.shrink_frame (ofPB t.bucketDictionary.ParserBuffer)
      rw [e, a1, List.length_drop]; omega
  · rcases hbuf' with e | e
    · rw [e]; exact hml
    · obtain ⟨a1, a2, a3, a4, a5, a6⟩ := PBuf.shrink_frame (ofPB t.bucketDictionary.ParserBuffer)
      rw [e, a1, List.length_drop]; omega
  · rcases hbuf' with e | e
    · rw [e]; exact h.cap
    · rw [e]; exact capOK_shrink _ h.cap

end LZ.GenBUPHist

#print axioms LZ.GenBUPHist.gen_bup_shrink
#print axioms LZ.GenBUPHist.hist_shrink
