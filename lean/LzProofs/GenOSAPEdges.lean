/-
  LzProofs.GenOSAPEdges — the translated `(*optSuffixArrayParser).computeEdges` of osap.go (topic OSAPEdges of tools/extract;
  LzModel/Generated/CodeOSAPEdges.lean) against the model `LZ.computeEdges` (LzModel/Sap.lean) / the range-checked
  `Idx.computeEdgesChk` (LzProofs/IdxOsap.lean).  OPAQUE callees and their specification hypotheses:
      suffix.Sort(t, sa)              SortSpec        (LzProofs/GenGSAPLemmas.lean: `sa` becomes `saSpec t`)
      suffix.LCP(t, sa, nil, lcp)     LCPSpec         (`lcp` becomes the table `lcpKasai t sa (invertSA sa)` of the model)
      slices.Sort(seg)                SliceSortSpec   (LzProofs/GenOSAPEdgesCB.lean: a sorted permutation)
      suffix.Segments(sa, lcp, …, f)  SegSpec         the parameter that returns the LOG of the callback calls: it is what the
                                                      translation of `suffix.Segments` returns (`gen_segments`, LzProofs/
                                                      GenSuffixPropsSeg.lean) — `segSpec_go`: the hypothesis holds for it
  Results:
    window_loop            `for i := range s.edges { k := i*4; s.edges[i] = s.edgeBuf[k:k:k+4] }`: every element an empty window
    maxscan                `for _, n := range lcp { if n > maxLen { maxLen = n } }` = the maximum of the table
    lam_of_segHyps         the windows of `Segments` are laminar in the order of the callbacks
    gen_osap_computeEdges  the translation = `LZ.computeEdges`; only `edgeBuf`, `edges`, `start`, `nEdges` change
  No sorry, no axioms of its own.
-/
import LzProofs.GenOSAPEdgesFold
import LzProofs.GenGSAPLemmas
import LzProofs.GlueSuffix
import LzProofs.GenPropsInts

set_option linter.unusedSimpArgs false
set_option linter.unusedVariables false

namespace LZ.GenOSAP
open LZ LZ.Gen LZ.GenBuf LZ.GenHash LZ.GenSuffix LZ.GenProps
open LZ.GenGSAP (SortSpec)
open LZ.GenHPParse (slice_okI data_drop swf_drop)

/-! ## the specifications of the opaque callees -/

/-- the specification assumed for `suffix.LCP(t, sa, nil, lcp)` when `sa` is the suffix array of `t` (so it is not
    recomputed) and `sainv` is missing (computed in a local array): `lcp` becomes the LCP table of the model -/
def LCPSpec (suffix_LCP : Slice → GSlice Int32 → GSlice Int32 → GSlice Int32 → Res (GSlice Int32)) : Prop :=
  ∀ (t : Slice) (sa lcp : GSlice Int32), SWF t → t.len ≤ 2147483647 → GWF sa → sa.len = t.len →
    sa.data = (saSpec t.data).map (fun (k : Nat) => Int32.ofInt (k : Int)) → GWF lcp → lcp.len = t.len →
    ∃ lcp', suffix_LCP t sa GSlice.nil lcp = Res.ok lcp' ∧ GWF lcp' ∧ lcp'.len = t.len ∧ NonNeg lcp' ∧
      absI32 lcp' = lcpKasai t.data (saSpec t.data).toArray (invertSA (saSpec t.data).toArray)

/-- the parameter `suffix_Segments` returns the log of the callback calls of `suffix.Segments`: the statement of
    `gen_segments` about the translation of segments.go -/
def SegSpec (suffix_Segments : GSlice Int32 → GSlice Int32 → Int → Int → Res (List (Int × GSlice Int32))) : Prop :=
  ∀ (sa lcp : GSlice Int32) (minLen maxLen : Int), GWF sa → GWF lcp → NonNeg lcp → lcp.len ≤ 2147483647 →
    suffix_Segments sa lcp minLen maxLen =
      match segments sa.len (absI32 lcp) minLen maxLen with
      | none => Res.panic
      | some cbs => Res.ok (cbs.map (LZ.GenSuffix.cbOf sa))

/-- **`SegSpec` holds for the TRANSLATION of `suffix.Segments`** (topic SuffixSegments), with fuel for every table of at most
    `MaxInt32` entries -/
theorem segSpec_go (grow : Nat → Nat → Nat) (fuel : Nat) (hf : 2 * 2147483647 + 3 ≤ fuel) :
    SegSpec (fun sa lcp a b => suffix_Segments grow fuel sa lcp a b) := by
  intro sa lcp a b hsa hl hnn h31
  exact gen_segments grow fuel sa lcp a b hsa hl hnn h31 (by omega)

/-! ## the window loop -/

section Loops
variable (grow : Nat → Nat → Nat) (fuel : Nat)
  (suffix_Sort : Slice → GSlice Int32 → Res (GSlice Int32))
  (suffix_LCP : Slice → GSlice Int32 → GSlice Int32 → GSlice Int32 → Res (GSlice Int32))
  (suffix_Segments : GSlice Int32 → GSlice Int32 → Int → Int → Res (List (Int × GSlice Int32)))
  (slices_Sort : GSlice Int32 → Res (GSlice Int32))

/-- the elements of `s.edges` from index `i0` on are empty slices -/
def EmptyFrom (es : GSlice (GSlice Gen.edge)) (i0 i1 : Nat) : Prop :=
  ∀ idx, i0 ≤ idx → idx < i1 → ((es.arr[idx]?).getD GSlice.nil).len = 0

/-- **`for i := range s.edges { k := i * 4; s.edges[i] = s.edgeBuf[k : k : k+4] }`** -/
theorem window_loop (k : Int) : ∀ (rest i : Nat) (s : Gen.optSuffixArrayParser), i + rest = s.edges.len →
    s.edges.len ≤ s.edges.arr.length → 4 * s.edges.len ≤ s.edgeBuf.arr.length → EmptyFrom s.edges 0 i →
    ∃ s', optSuffixArrayParser_computeEdges_loop_1 grow fuel suffix_Sort suffix_LCP suffix_Segments slices_Sort k rest (i : Int) s =
        Res.ok s' ∧ s' = { s with edges := s'.edges } ∧ s'.edges.len = s.edges.len ∧
      s'.edges.arr.length = s.edges.arr.length ∧ EmptyFrom s'.edges 0 s.edges.len := by
  intro rest
  induction rest with
  | zero =>
    intro i s hi hE hB hem
    refine ⟨s, ?_, rfl, rfl, rfl, ?_⟩
    · unfold optSuffixArrayParser_computeEdges_loop_1; rfl
    · have : i = s.edges.len := by omega
      rw [← this]; exact hem
  | succ rest ih =>
    intro i s hi hE hB hem
    have hil : i < s.edges.len := by omega
    unfold optSuffixArrayParser_computeEdges_loop_1
    simp only []
    have hc : (0 : Int) ≤ (i : Int) * 4 ∧ (i : Int) * 4 ≤ (i : Int) * 4 + 4 ∧
        (i : Int) * 4 + 4 ≤ (Int.ofNat s.edgeBuf.arr.length) := by
      simp only [Int.ofNat_eq_natCast]; omega
    rw [if_pos hc, bind_ok, gset_ok s.edges (i : Int) i rfl hil, bind_ok]
    have hnext : ((i : Int) + 1) = ((i + 1 : Nat) : Int) := by omega
    rw [hnext]
    generalize hwv : ({ arr := (s.edgeBuf.arr.drop ((i : Int) * 4).toNat).take ((i : Int) * 4 + 4 - (i : Int) * 4).toNat, len := 0 } : GSlice Gen.edge) = wv
    have hwl : wv.len = 0 := by rw [← hwv]
    obtain ⟨s', h1, h2, h3, h4, h5⟩ := ih (i + 1) { s with edges := { s.edges with arr := s.edges.arr.set i wv } }
      (by show i + 1 + rest = s.edges.len; omega)
      (by show s.edges.len ≤ (s.edges.arr.set i _).length; rw [List.length_set]; exact hE)
      hB
      (by
        intro idx h0 h1
        show (((s.edges.arr.set i _)[idx]?).getD GSlice.nil).len = 0
        by_cases he : idx = i
        · subst he
          rw [List.getElem?_set_self (by omega)]; exact hwl
        · rw [List.getElem?_set_ne (fun hc => he hc.symm)]
          exact hem idx h0 (by omega))
    refine ⟨s', h1, ?_, h3, ?_, h5⟩
    · rw [h2]
    · rw [h4]; show (s.edges.arr.set i _).length = _; rw [List.length_set]

/-- a table whose elements are all empty is the empty table of the model -/
theorem edgesAbs_empty (es : GSlice (GSlice Gen.edge)) (hE : GWF es) (h : EmptyFrom es 0 es.len) :
    edgesAbs es = Array.replicate es.len [] ∧ ∀ q ∈ es.data, GWF q := by
  constructor
  · apply Array.ext_getElem?
    intro i
    by_cases hi : i < es.len
    · rw [edgesAbs_getElem? hE i hi, Array.getElem?_replicate, if_pos hi]
      have := h i (Nat.zero_le _) hi
      have hd : ((es.arr[i]?).getD GSlice.nil).data = [] := by unfold GSlice.data; rw [this]; rfl
      rw [hd]; rfl
    · rw [Array.getElem?_replicate, if_neg hi]
      exact gabs_getElem?_none _ es i hi
  · intro q hq
    obtain ⟨i, hi, rfl⟩ := List.mem_iff_getElem.1 hq
    have hil : i < es.len := by rw [gdata_length hE] at hi; exact hi
    have hial : i < es.arr.length := by unfold GWF at hE; omega
    have h1 : es.data[i]? = some (es.data[i]) := List.getElem?_eq_getElem hi
    rw [gdata_getElem?, if_pos hil] at h1
    have := h i (Nat.zero_le _) hil
    rw [h1] at this
    simp only [Option.getD_some] at this
    unfold GWF; rw [this]; exact Nat.zero_le _

/-! ## the maximum of the LCP table -/

theorem foldl_max_i32n (l : List Int32) (hnn : ∀ x ∈ l, 0 ≤ x.toInt) : ∀ (acc : Nat), acc < 2147483648 →
    (l.map i32n).foldl max acc < 2147483648 := by
  induction l with
  | nil => intro acc h; exact h
  | cons x r ih =>
    intro acc h
    simp only [List.map_cons, List.foldl_cons]
    apply ih (fun y hy => hnn y (List.mem_cons_of_mem _ hy))
    have := i32_range x
    have := hnn x List.mem_cons_self
    unfold i32n
    omega

/-- **`for _, n := range lcp { if n > maxLen { maxLen = n } }`** -/
theorem maxscan (lcp : GSlice Int32) (hl : GWF lcp) (hnn : NonNeg lcp) : ∀ (rest i : Nat) (acc : Int32), i + rest = lcp.len →
    0 ≤ acc.toInt →
    ∃ r, optSuffixArrayParser_computeEdges_loop_2 grow fuel suffix_Sort suffix_LCP suffix_Segments slices_Sort lcp rest (i : Int) acc =
        Res.ok r ∧ 0 ≤ r.toInt ∧ r.toInt.toNat = ((lcp.data.drop i).map i32n).foldl max acc.toInt.toNat := by
  intro rest
  induction rest with
  | zero =>
    intro i acc hi ha
    refine ⟨acc, ?_, ha, ?_⟩
    · unfold optSuffixArrayParser_computeEdges_loop_2; rfl
    · have : lcp.data.drop i = [] := List.drop_eq_nil_of_le (by rw [gdata_length hl]; omega)
      rw [this]; rfl
  | succ rest ih =>
    intro i acc hi ha
    have hil : i < lcp.len := by omega
    have hial : i < lcp.arr.length := by unfold GWF at hl; omega
    unfold optSuffixArrayParser_computeEdges_loop_2
    rw [gindex_ok (0 : Int32) lcp (i : Int) i rfl hil, bind_ok]
    simp only []
    have hnext : ((i : Int) + 1) = ((i + 1 : Nat) : Int) := by omega
    rw [hnext]
    have hx := hnn i hil
    generalize hxe : (lcp.arr[i]?).getD (0 : Int32) = x at hx
    have hdrop : lcp.data.drop i = x :: lcp.data.drop (i + 1) := by
      have hdi : i < lcp.data.length := by rw [gdata_length hl]; exact hil
      rw [List.drop_eq_getElem_cons hdi]
      congr 1
      have h1 : lcp.data[i]? = some (lcp.data[i]) := List.getElem?_eq_getElem hdi
      rw [gdata_getElem?, if_pos hil] at h1
      rw [← hxe, h1]; rfl
    rw [hdrop]
    simp only [List.map_cons, List.foldl_cons]
    by_cases hgt : x > acc
    · obtain ⟨r, h1, h2, h3⟩ := ih (i + 1) x (by omega) hx
      refine ⟨r, ?_, h2, ?_⟩
      · simp only [hgt, if_true]; exact h1
      · rw [h3]
        have : acc.toInt < x.toInt := (i32_lt_iff _ _).1 hgt
        congr 1
        unfold i32n; omega
    · obtain ⟨r, h1, h2, h3⟩ := ih (i + 1) acc (by omega) ha
      refine ⟨r, ?_, h2, ?_⟩
      · simp only [hgt, if_false]; exact h1
      · rw [h3]
        have : ¬ acc.toInt < x.toInt := fun hc => hgt ((i32_lt_iff _ _).2 hc)
        congr 1
        unfold i32n; omega

end Loops

/-! ## laminarity -/

/-- the windows of the callbacks of `Segments` are laminar in the order of the list -/
theorem lam_of_segHyps {t : List Byte} {saL : List Nat} {minLen maxLen : Nat} {cbs : List Callback}
    (H : Sap.SegHyps t saL minLen maxLen cbs) : Lam cbs := by
  unfold Lam
  refine List.Pairwise.imp_of_mem ?_ H.order
  intro c1 c2 h1 h2 hord
  obtain ⟨m1, lo1, hi1⟩ := c1
  obtain ⟨m2, lo2, hi2⟩ := c2
  simp only at hord ⊢
  obtain ⟨-, -, a3, -⟩ := H.sound _ _ _ h1
  obtain ⟨-, -, b3, -⟩ := H.sound _ _ _ h2
  by_cases hsh : Nat.max lo1 lo2 < Nat.min hi1 hi2
  · right
    have hr1 : lo1 ≤ Nat.max lo1 lo2 := Nat.le_max_left _ _
    have hr2 : lo2 ≤ Nat.max lo1 lo2 := Nat.le_max_right _ _
    have hr3 : Nat.min hi1 hi2 ≤ hi1 := Nat.min_le_left _ _
    have hr4 : Nat.min hi1 hi2 ≤ hi2 := Nat.min_le_right _ _
    have hm := hord (Nat.max lo1 lo2) hr1 (by omega) hr2 (by omega)
    exact H.nested h1 h2 hr1 (by omega) hr2 (by omega) (by omega)
  · left
    have : Nat.max lo1 lo2 = lo1 ∨ Nat.max lo1 lo2 = lo2 := by
      rcases Nat.le_total lo1 lo2 with h | h
      · right; exact Nat.max_eq_right h
      · left; exact Nat.max_eq_left h
    have : Nat.min hi1 hi2 = hi1 ∨ Nat.min hi1 hi2 = hi2 := by
      rcases Nat.le_total hi1 hi2 with h | h
      · left; exact Nat.min_eq_left h
      · right; exact Nat.min_eq_right h
    omega

/-! ## `computeEdges` -/

/-- only `edgeBuf`, `edges`, `start`, `nEdges` differ -/
def CEFrame (s s' : Gen.optSuffixArrayParser) : Prop :=
  s' = { s with edgeBuf := s'.edgeBuf, edges := s'.edges, start := s'.start, nEdges := s'.nEdges }

set_option maxHeartbeats 1600000 in
/-- **`computeEdges` = the model `LZ.computeEdges`.**  For a state whose buffer satisfies `W ≤ len(Data) ≤ MaxInt32`, with
    `0 ≤ WindowSize < 2^32` and `0 ≤ MinMatchLen ≤ MaxMatchLen`, under the specifications of the four opaque callees, the
    translated Go text does not panic (fuel `len(Data) + 1`), the edge table it leaves abstracts to the model's, and only
    `edgeBuf`, `edges`, `start`, `nEdges` change. -/
theorem gen_osap_computeEdges (grow : Nat → Nat → Nat) (fuel : Nat)
    (SS : Slice → GSlice Int32 → Res (GSlice Int32))
    (LCP : Slice → GSlice Int32 → GSlice Int32 → GSlice Int32 → Res (GSlice Int32))
    (SEG : GSlice Int32 → GSlice Int32 → Int → Int → Res (List (Int × GSlice Int32)))
    (SRT : GSlice Int32 → Res (GSlice Int32))
    (hSS : SortSpec SS) (hL : LCPSpec LCP) (hG : SegSpec SEG) (hR : SliceSortSpec SRT)
    (s : Gen.optSuffixArrayParser) (hpb : PBWF s.ParserBuffer)
    (hw : s.ParserBuffer.W ≤ s.ParserBuffer.Data.len) (hsmall : s.ParserBuffer.Data.len ≤ 2147483647)
    (hws0 : 0 ≤ s.OSAPConfig.WindowSize) (hws32 : s.OSAPConfig.WindowSize < 4294967296)
    (hmm0 : 0 ≤ s.OSAPConfig.MinMatchLen) (hmmx : s.OSAPConfig.MinMatchLen ≤ s.OSAPConfig.MaxMatchLen)
    (hfuel : s.ParserBuffer.Data.len + 1 ≤ fuel) :
    ∃ s', optSuffixArrayParser_computeEdges grow fuel SS LCP SEG SRT s = Res.ok s' ∧
      (⟨edgesAbs s'.edges, s'.start.toNat, s'.nEdges.toNat⟩ : OsapD) =
        computeEdges s.ParserBuffer.Data.data s.ParserBuffer.W.toNat s.OSAPConfig.WindowSize.toNat
          s.OSAPConfig.MinMatchLen.toNat s.OSAPConfig.MaxMatchLen.toNat ∧
      CEFrame s s' ∧ 0 ≤ s'.start ∧ 0 ≤ s'.nEdges ∧ GWF s'.edges ∧ (∀ q ∈ s'.edges.data, GWF q) := by
  have hW0 := hpb.w
  have hdl : s.ParserBuffer.Data.data.length = s.ParserBuffer.Data.len := data_length hpb.data
  obtain ⟨Wn, hWn⟩ : ∃ Wn : Nat, s.ParserBuffer.W = (Wn : Int) := ⟨s.ParserBuffer.W.toNat, by omega⟩
  have hWt : s.ParserBuffer.W.toNat = Wn := by omega
  generalize hn : s.ParserBuffer.Data.len = n at hw hsmall hfuel hdl
  unfold optSuffixArrayParser_computeEdges
  simp only []
  rw [if_neg (by simp only [Int.ofNat_eq_natCast, hn]; omega)]
  have hK : Int.ofNat s.ParserBuffer.Data.len - s.ParserBuffer.W = ((n - Wn : Nat) : Int) := by
    simp only [Int.ofNat_eq_natCast, hn]; omega
  have hK4 : ((n - Wn : Nat) : Int) * 4 = ((4 * (n - Wn) : Nat) : Int) := by omega
  rw [hK, hK4]
  -- `s.edges` is cut or made to `len(data) - s.start` elements
  obtain ⟨E0, hE0l, hE0c, hst1⟩ : ∃ E0 : GSlice (GSlice Gen.edge), E0.len = n - Wn ∧ E0.len ≤ E0.arr.length ∧
      (if ((n - Wn : Nat) : Int) < Int.ofNat s.edges.cap then
        (s.edges.slice 0 ((n - Wn : Nat) : Int)).bind fun t_1 => Res.ok { s with edges := t_1, start := s.ParserBuffer.W }
      else (GSlice.make GSlice.nil ((n - Wn : Nat) : Int) ((n - Wn : Nat) : Int)).bind fun t_1 =>
        Res.ok { s with edges := t_1, start := s.ParserBuffer.W }) =
        Res.ok { s with edges := E0, start := s.ParserBuffer.W } := by
    by_cases hc : ((n - Wn : Nat) : Int) < Int.ofNat s.edges.cap
    · have hcap : n - Wn ≤ s.edges.arr.length := by
        simp only [Int.ofNat_eq_natCast, GSlice.cap] at hc; omega
      refine ⟨{ arr := s.edges.arr.drop 0, len := n - Wn - 0 }, by simp, by simp; omega, ?_⟩
      rw [if_pos hc, gslice_ok s.edges 0 _ 0 (n - Wn) rfl rfl (Nat.zero_le _) hcap, bind_ok]
    · refine ⟨{ arr := List.replicate (n - Wn) GSlice.nil, len := n - Wn }, rfl, by simp, ?_⟩
      rw [if_neg hc, gmake_ok GSlice.nil _ _ (n - Wn) (n - Wn) rfl rfl (Nat.le_refl _), bind_ok]
  rw [hst1, bind_ok]
  simp only []
  obtain ⟨B0, hB0c, hst2⟩ : ∃ B0 : GSlice Gen.edge, 4 * (n - Wn) ≤ B0.arr.length ∧
      (if ((4 * (n - Wn) : Nat) : Int) < Int.ofNat s.edgeBuf.cap then
        (s.edgeBuf.slice 0 ((4 * (n - Wn) : Nat) : Int)).bind fun t_4 =>
          Res.ok ({ s with edges := E0, start := s.ParserBuffer.W, edgeBuf := t_4 } : Gen.optSuffixArrayParser)
      else (GSlice.make ({ m := 0, o := 0 } : Gen.edge) ((4 * (n - Wn) : Nat) : Int) ((4 * (n - Wn) : Nat) : Int)).bind fun t_4 =>
        Res.ok ({ s with edges := E0, start := s.ParserBuffer.W, edgeBuf := t_4 } : Gen.optSuffixArrayParser)) =
        Res.ok { s with edges := E0, start := s.ParserBuffer.W, edgeBuf := B0 } := by
    by_cases hc : ((4 * (n - Wn) : Nat) : Int) < Int.ofNat s.edgeBuf.cap
    · have hcap : 4 * (n - Wn) ≤ s.edgeBuf.arr.length := by
        simp only [Int.ofNat_eq_natCast, GSlice.cap] at hc; omega
      refine ⟨{ arr := s.edgeBuf.arr.drop 0, len := 4 * (n - Wn) - 0 }, by simp; omega, ?_⟩
      rw [if_pos hc, gslice_ok s.edgeBuf 0 _ 0 (4 * (n - Wn)) rfl rfl (Nat.zero_le _) hcap, bind_ok]
    · refine ⟨{ arr := List.replicate (4 * (n - Wn)) { m := 0, o := 0 }, len := 4 * (n - Wn) }, by simp, ?_⟩
      rw [if_neg hc, gmake_ok ({ m := 0, o := 0 } : Gen.edge) _ _ (4 * (n - Wn)) (4 * (n - Wn)) rfl rfl (Nat.le_refl _), bind_ok]
  rw [hst2, bind_ok]
  simp only []
  clear hst1 hst2
  -- the window loop
  obtain ⟨s3, h31, h32, h33, h34, h35⟩ := window_loop grow fuel SS LCP SEG SRT ((4 * (n - Wn) : Nat) : Int) E0.len 0
    { s with edges := E0, start := s.ParserBuffer.W, edgeBuf := B0 } (by simp) hE0c (by show 4 * E0.len ≤ B0.arr.length; omega)
    (by intro idx _ h; omega)
  have h31' : optSuffixArrayParser_computeEdges_loop_1 grow fuel SS LCP SEG SRT ((4 * (n - Wn) : Nat) : Int) E0.len 0
      { s with edges := E0, start := s.ParserBuffer.W, edgeBuf := B0 } = Res.ok s3 := h31
  rw [h31', bind_ok]
  clear h31 h31'
  simp only at h33 h34 h35
  generalize hE1 : s3.edges = E1 at h32 h33 h34 h35
  subst h32
  clear hE1
  simp only []
  have hE1w : GWF E1 := by unfold GWF; omega
  obtain ⟨hab, hqw⟩ := edgesAbs_empty E1 hE1w (by rw [h33]; exact h35)
  rw [h33, hE0l] at hab
  by_cases hn0 : n = 0
  · -- nothing buffered
    rw [if_pos (by simp only [Int.ofNat_eq_natCast, hn]; omega)]
    refine ⟨_, rfl, ?_, rfl, hW0, Int.le_refl _, hE1w, hqw⟩
    rw [Sap.computeEdges_none _ _ _ _ _ (Or.inl (by omega))]
    simp only [hab, hdl, hWt, Int.toNat_zero]
  · rw [if_neg (by simp only [Int.ofNat_eq_natCast, hn]; omega)]
    -- the text `t := data[winStart:]`
    obtain ⟨WSn, hWSn⟩ : ∃ WSn : Nat, s.OSAPConfig.WindowSize = (WSn : Int) := ⟨s.OSAPConfig.WindowSize.toNat, by omega⟩
    have hWSt : s.OSAPConfig.WindowSize.toNat = WSn := by omega
    have hdz : doz s.ParserBuffer.W s.OSAPConfig.WindowSize = ((Wn - WSn : Nat) : Int) := by
      rw [gen_doz_toNat, hWn, hWSn]; omega
    rw [hdz]
    generalize ha : Wn - WSn = a at hdz ⊢
    have haW : a ≤ Wn := by omega
    have hD := hpb.data
    unfold SWF at hD
    rw [slice_okI s.ParserBuffer.Data (a : Int) (Int.ofNat s.ParserBuffer.Data.len) a n rfl
      (by simp only [Int.ofNat_eq_natCast, hn]) (by omega) (by omega), bind_ok]
    simp only []
    generalize htd : ({ arr := s.ParserBuffer.Data.arr.drop a, len := n - a } : Slice) = t
    have htl : t.len = n - a := by rw [← htd]
    have htw : SWF t := by rw [← htd]; exact swf_drop _ _ _ (by omega)
    have htdata : t.data = Sap.ceT s.ParserBuffer.Data.data Wn WSn := by
      rw [← htd, data_drop]
      show (s.ParserBuffer.Data.arr.take n).drop a = (s.ParserBuffer.Data.arr.take s.ParserBuffer.Data.len).drop (Wn - WSn)
      rw [hn, ha]
    have htdl : t.data.length = n - a := by rw [data_length htw, htl]
    rw [gmake_ok (0 : Int32) (Int.ofNat (n - a)) (Int.ofNat (n - a)) (n - a) (n - a) rfl rfl (Nat.le_refl _), bind_ok]
    -- suffix.Sort
    obtain ⟨sa, hs1, hs2, hs3, hs4⟩ := hSS t { arr := List.replicate (n - a) (0 : Int32), len := n - a } htw
      (by unfold GWF; simp) (by rw [htl]) (by omega)
    rw [hs1, bind_ok]
    simp only at hs3
    rw [gmake_ok (0 : Int32) (Int.ofNat sa.len) (Int.ofNat sa.len) (n - a) (n - a)
      (by simp only [Int.ofNat_eq_natCast, hs3]) (by simp only [Int.ofNat_eq_natCast, hs3]) (Nat.le_refl _), bind_ok]
    -- suffix.LCP
    obtain ⟨lcp, hl1, hl2, hl3, hl4, hl5⟩ := hL t sa { arr := List.replicate (n - a) (0 : Int32), len := n - a } htw
      (by omega) hs2 (by rw [hs3, htl]) hs4 (by unfold GWF; simp) (by rw [htl])
    rw [hl1, bind_ok]
    -- the maximum of the table
    obtain ⟨r13, hm1, hm2, hm3⟩ := maxscan grow fuel SS LCP SEG SRT lcp hl2 hl4 lcp.len 0 0 (by simp) (by decide)
    have hm1' : optSuffixArrayParser_computeEdges_loop_2 grow fuel SS LCP SEG SRT lcp lcp.len 0 0 = Res.ok r13 := hm1
    rw [hm1', bind_ok]
    clear hm1 hm1'
    have hlcpE : absI32 lcp = Sap.ceLcp s.ParserBuffer.Data.data Wn WSn := by
      rw [hl5, htdata]; rfl
    have hmax : r13.toInt.toNat = Sap.ceMaxLcp s.ParserBuffer.Data.data Wn WSn := by
      rw [hm3]
      unfold Sap.ceMaxLcp
      rw [← hlcpE]
      unfold absI32
      rw [← Array.foldl_toList]
      simp only [List.drop_zero]
      rfl
    obtain ⟨Mx, hMx⟩ : ∃ Mx : Nat, s.OSAPConfig.MaxMatchLen = (Mx : Int) := ⟨s.OSAPConfig.MaxMatchLen.toNat, by omega⟩
    obtain ⟨Mm, hMm⟩ : ∃ Mm : Nat, s.OSAPConfig.MinMatchLen = (Mm : Int) := ⟨s.OSAPConfig.MinMatchLen.toNat, by omega⟩
    have hMxt : s.OSAPConfig.MaxMatchLen.toNat = Mx := by omega
    have hMmt : s.OSAPConfig.MinMatchLen.toNat = Mm := by omega
    have hr13 := i32_range r13
    -- the clamp
    -- (the condition in any spelling that is linear arithmetic: `int(maxLen) > s.MaxMatchLen`, `>=`, swapped sides)
    first
      | (obtain ⟨mlen, hmlen⟩ : ∃ x : Int32, (if r13.toInt > s.OSAPConfig.MaxMatchLen then Int32.ofInt s.OSAPConfig.MaxMatchLen else r13) = x := ⟨_, rfl⟩
         rw [hmlen])
      | (obtain ⟨mlen, hmlen⟩ : ∃ x : Int32, (if r13.toInt ≥ s.OSAPConfig.MaxMatchLen then Int32.ofInt s.OSAPConfig.MaxMatchLen else r13) = x := ⟨_, rfl⟩
         rw [hmlen])
      | (obtain ⟨mlen, hmlen⟩ : ∃ x : Int32, (if s.OSAPConfig.MaxMatchLen < r13.toInt then Int32.ofInt s.OSAPConfig.MaxMatchLen else r13) = x := ⟨_, rfl⟩
         rw [hmlen])
      | (obtain ⟨mlen, hmlen⟩ : ∃ x : Int32, (if s.OSAPConfig.MaxMatchLen ≤ r13.toInt then Int32.ofInt s.OSAPConfig.MaxMatchLen else r13) = x := ⟨_, rfl⟩
         rw [hmlen])
    have hml : mlen.toInt = ((Sap.ceMaxLen s.ParserBuffer.Data.data Wn WSn Mx : Nat) : Int) := by
      unfold Sap.ceMaxLen
      rw [← hmax, ← hmlen]
      split
      · rename_i hc
        rw [i32_ofInt _ (by omega) (by omega)]; omega
      · rename_i hc
        omega
    have hcl := Sap.ceMaxLen_le_length s.ParserBuffer.Data.data Wn WSn Mx
    rw [hdl] at hcl
    rw [hWt, hWSt, hMxt, hMmt]
    by_cases hearly : mlen.toInt < s.OSAPConfig.MinMatchLen
    · -- no repeat reaches MinMatchLen
      rw [if_pos hearly]
      refine ⟨_, rfl, ?_, rfl, hW0, Int.le_refl _, hE1w, hqw⟩
      have hlt : Sap.ceMaxLen s.ParserBuffer.Data.data Wn WSn Mx < Mm := by omega
      cases hseg : Sap.ceSegs s.ParserBuffer.Data.data Wn WSn Mm Mx with
      | none =>
        rw [Sap.computeEdges_none _ _ _ _ _ (Or.inr hseg)]
        simp only [hab, hdl, hWt, Int.toNat_zero]
      | some cbs =>
        have : cbs = [] := Sap.ceSegs_lt hlt hseg
        subst this
        rw [Sap.computeEdges_some _ _ _ _ _ (by omega) hseg]
        simp only [hab, hdl, hWt, Int.toNat_zero, List.foldl_nil]
    · rw [if_neg hearly]
      -- the callbacks of `Segments`
      have hC := Sap.ceHyps_of_segFacts Sap.segmentsFacts_holds s.ParserBuffer.Data.data Wn WSn Mm Mx (Or.inl (by omega))
      obtain ⟨cbs, hseg, H⟩ := hC.segs (by omega)
      have hsaL : (saSpec t.data).length = n - a := by rw [(Sap.saSpec_isSA t.data).length_eq, htdl]
      rw [← htdata] at H
      have hsegm : segments sa.len (absI32 lcp) s.OSAPConfig.MinMatchLen mlen.toInt = some cbs := by
        unfold Sap.ceSegs segments32 at hseg
        rw [if_neg (by omega)] at hseg
        rw [hlcpE, hml, hMm, hs3]
        rw [← htdata, List.size_toArray, hsaL] at hseg
        exact hseg
      rw [hG sa lcp s.OSAPConfig.MinMatchLen mlen.toInt hs2 hl2 hl4 (by omega), hsegm]
      simp only []
      rw [bind_ok]
      have hwoff : (Int32.ofInt ((a : Int) - s.ParserBuffer.W)).toInt = (a : Int) - (Wn : Int) := by
        rw [hWn, i32_ofInt _ (by omega) (by omega)]
      obtain ⟨s', sa', j1, j2, j3, j4, j5, j6, j7⟩ := calls_eq grow fuel SRT hR (saSpec t.data)
        (by
          intro x hx
          have := ((Sap.saSpec_isSA t.data).1.mem_iff).1 hx
          simp only [List.mem_range] at this
          omega)
        H.sa_nodup sa (Int32.ofInt ((a : Int) - s.ParserBuffer.W)) ((a : Int) - (Wn : Int)) hwoff (by omega)
        (by rw [hsaL]; omega) cbs
        { s with edges := E1, start := s.ParserBuffer.W, edgeBuf := B0, nEdges := 0 } sa
        (by
          intro c hc
          obtain ⟨m, lo, hi⟩ := c
          obtain ⟨b1, b2, b3, b4, -⟩ := H.sound m lo hi hc
          exact ⟨b3, b4, by show m < 4294967296; omega⟩)
        (lam_of_segHyps H) (by rw [hs3, hsaL]) hs2 rfl
        (by
          intro c hc
          obtain ⟨m, lo, hi⟩ := c
          obtain ⟨b1, b2, b3, b4, -⟩ := H.sound m lo hi hc
          have hd : sa.arr.take sa.len = (saSpec t.data).map o32 := hs4
          show (win sa.arr lo hi).Perm (win ((saSpec t.data).map o32) lo hi)
          rw [← hd]
          unfold win
          rw [List.drop_take, List.take_take, Nat.min_eq_left (by rw [hs3, ← hsaL]; omega)])
        hE1w hqw (Int.le_refl _) hws0 hws32
        (by
          intro x hx
          have := ((Sap.saSpec_isSA t.data).1.mem_iff).1 hx
          simp only [List.mem_range] at this
          show (x : Int) + ((a : Int) - (Wn : Int)) < (E1.len : Int)
          rw [h33, hE0l]
          omega)
      rw [j1, bind_ok]
      simp only at j2 j6
      refine ⟨s', rfl, ?_, ?_, ?_, j3, j4, j5⟩
      · rw [Sap.computeEdges_some _ _ _ _ _ (by omega) hseg]
        have e1 := congrArg Prod.fst j2
        have e2 := congrArg Prod.snd j2
        simp only at e1 e2
        rw [hWSt, hab, Int.toNat_zero, htdata] at e1 e2
        have : s'.start = s.ParserBuffer.W := by rw [j7]
        rw [ha, hdl, e1, e2, this, hWt]
      · unfold CEFrame
        unfold EdgesFrame at j7
        rw [j7]
      · have : s'.start = s.ParserBuffer.W := by rw [j7]
        rw [this]; exact hW0

end LZ.GenOSAP

#print axioms LZ.GenOSAP.segSpec_go
#print axioms LZ.GenOSAP.window_loop
#print axioms LZ.GenOSAP.maxscan
#print axioms LZ.GenOSAP.lam_of_segHyps
#print axioms LZ.GenOSAP.gen_osap_computeEdges
