/-
  LzProofs.GenHPHistRF2 — the hypothesis `RFSpec` of LzProofs/GenHPHistRF.lean DISCHARGED: `ParserBuffer.ReadFrom` is
  now translated (topic PBufReadFrom, tools/extract/code_lend.go; LzModel/Generated/CodePBufReadFrom.lean) and
  LzProofs/GenPBufReadFrom.lean proves that the translation, with `io.Reader.Read` instantiated by the model's scripted
  reader (`GenBuf.mRead`), is `PBuf.readFrom`.  So histories of the hash parser HP that contain `ReadFrom` are executed
  on translated Go text only:

    rfGo extra            the translated `ReadFrom` against the scripted reader, fuel = script length + 1 (+ any extra)
    rfGo_spec             `RFSpec (rfGo extra)`
    gen_hp_history_rf_go  `gen_hp_history_rf` without the hypothesis
    C01_go_text_hp_rf_go  `C01_go_text_hp_rf` without the hypothesis: Write / ReadFrom / Parse / Shrink / Reset / init are
                          all the translated functions
  What stays trusted about `ReadFrom`: the reading of `r.Read(p)` as an opaque state-passing callee that may write the
  window it is lent (code_iface.go, code_lend.go) and the choice of the scripted reader as its instance (it can mimic
  every sequence of `(n ≤ len(p), err)` answers, incl. `(0, nil)`; it cannot return `n > len(p)` or `n < 0`).
  No sorry, no axioms of its own.
-/
import LzProofs.GenHPHistRF
import LzProofs.GenPBufReadFrom

set_option linter.unusedSimpArgs false
set_option linter.unusedVariables false

namespace LZ.GenHPHist
open LZ LZ.Gen LZ.GenBuf LZ.GenHash LZ.GenHPParse LZ.GenProps

theorem rfErr_eq_genErr : GenBuf.rfErr = genErr := by
  funext e
  cases e <;> rfl

/-- the translated `(*ParserBuffer).ReadFrom` run against the scripted reader; the fuel is computed from the script
    (one iteration per answer, one more for the `io.EOF` of the exhausted script), `extra` is arbitrary -/
def rfGo (extra : Nat) : RFun := fun b r => ParserBuffer_ReadFrom (r.resps.length + 1 + extra) mRead b r

/-- **`RFSpec` holds for the translated `ReadFrom`** -/
theorem rfGo_spec (extra : Nat) : RFSpec (rfGo extra) := by
  intro b r hwf hcap hlen _
  obtain ⟨b', h1, h2, h3⟩ := gen_pbuf_readFrom b hwf hcap hlen r (r.resps.length + 1 + extra) (by omega)
  refine ⟨b', ?_, h2, h3⟩
  unfold rfGo
  rw [h1, rfErr_eq_genErr]

/-- the simulation from `hashParser.init` for histories with `ReadFrom`, every operation a translated function -/
theorem gen_hp_history_rf_go (cfg : Gen.HPConfig) (s0 : Gen.hashParser)
    (hinit : hashParser_init default cfg = Res.ok (s0, Gen.Err.ok))
    (extra : Nat) (grow : Nat → Nat → Nat) (fuel : Nat)
    (hfuel : s0.hashDictionary.ParserBuffer.BufConfig.BufferSize.toNat + 3 ≤ fuel)
    (ops : List GOpR) (hwf : ∀ op ∈ ops, op.WF) :
    ∃ p t rs, newParser .HP (ofHP cfg) = some p ∧ ofHPs s0 = p ∧
      runGR (rfGo extra) grow fuel s0 ops = Res.ok (t, rs) ∧ ParseOK t ∧
      ofHPs t = (runOps (p, Ghost.init) (ops.map GOpR.abs)).1 ∧
      ghostRunR Ghost.init ops rs = (runOps (p, Ghost.init) (ops.map GOpR.abs)).2 ∧
      ResultsAgreeR (p, Ghost.init) ops rs :=
  gen_hp_history_rf cfg s0 hinit (rfGo extra) (rfGo_spec extra) grow fuel hfuel ops hwf

/-- **C01 about the Go text of HP, histories of Write / ReadFrom / Parse / Shrink / Reset** — no hypothesis about
    `ReadFrom` is left: it is the translated function run against the scripted reader. -/
theorem C01_go_text_hp_rf_go (cfg : Gen.HPConfig) (s0 : Gen.hashParser)
    (hinit : hashParser_init default cfg = Res.ok (s0, Gen.Err.ok))
    (extra : Nat) (grow : Nat → Nat → Nat) (fuel : Nat)
    (hfuel : s0.hashDictionary.ParserBuffer.BufConfig.BufferSize.toNat + 3 ≤ fuel)
    (ops : List GOpR) (hwf : ∀ op ∈ ops, op.WF) :
    ∃ t rs, runGR (rfGo extra) grow fuel s0 ops = Res.ok (t, rs) ∧
      decode [] (ghostRunR Ghost.init ops rs).log =
        some ((ghostRunR Ghost.init ops rs).fed.take (ghostRunR Ghost.init ops rs).consumed) :=
  C01_go_text_hp_rf cfg s0 hinit (rfGo extra) (rfGo_spec extra) grow fuel hfuel ops hwf

end LZ.GenHPHist

#print axioms LZ.GenHPHist.rfGo_spec
#print axioms LZ.GenHPHist.gen_hp_history_rf_go
#print axioms LZ.GenHPHist.C01_go_text_hp_rf_go
