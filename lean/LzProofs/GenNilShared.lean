/-
  LzProofs.GenNilShared — what the `Gen*HistNil` modules share (model level; no generated code is mentioned).

    C14_same_n_greedy            `LzProofs.SmallPropsParser.C14_parseNil_same_n` for the six greedy kinds, re-proved on top
                                 of ParseProps alone (SmallPropsParser imports GlueProps, whose `LZ.step_fst` clashes with
                                 the one of SafeProps, which the history modules import): `Parse(nil)` and `Parse(&blk,
                                 flags)` without `NoTrailingLiterals` return the same `n = min(BlockSize, unparsed)` and
                                 error and leave equal buffers
    C14_same_n_greedy_reachable  in every state reachable from `NewParser` (kind ≠ OSAP)
    parseNil_err, parseNil_n     the error of `parseNil` is `.ok` / `.empty`; its `n` is `blockN`
-/
import LzProofs.ParseProps

namespace LZ.GenNil
open LZ

theorem parseNil_err (s : Parser) : s.parseNil.2.2 = .ok ∨ s.parseNil.2.2 = .empty := by
  by_cases hn : s.blockN = 0
  · rw [Parser.parseNil_empty s hn]; exact Or.inr rfl
  · obtain ⟨s', h, -⟩ := Parser.parseNil_ok s hn
    rw [h]; exact Or.inl rfl

theorem parseNil_n (s : Parser) : s.parseNil.2.1 = s.blockN := by
  by_cases h0 : s.blockN = 0
  · rw [Parser.parseNil_empty _ h0, h0]
  · obtain ⟨s', hs, -⟩ := Parser.parseNil_ok _ h0
    rw [hs]

theorem C14_same_n_greedy (s : Parser) (flags : Nat) (hf : flags % 2 = 0) (hs : StateOK s) (hg : Greedy s) :
    s.parseNil.2.1 = (s.parse flags).2.1 ∧
    s.parseNil.2.2 = (s.parse flags).2.2.1 ∧
    s.parseNil.1.buf = (s.parse flags).1.buf ∧
    s.parseNil.2.1 = min s.buf.cfg.blockSize (s.buf.data.length - s.buf.w) := by
  have hbn : s.blockN = min s.buf.cfg.blockSize (s.buf.data.length - s.buf.w) := by
    unfold Parser.blockN; omega
  by_cases hn : s.blockN = 0
  · rw [Parser.parseNil_empty s hn, Parser.parse_empty s flags hn]
    exact ⟨rfl, rfl, rfl, by simp only; omega⟩
  · obtain ⟨s1, h1, -, -, hb1⟩ := Parser.parseNil_ok s hn
    obtain ⟨s2, n, blk, hp, hok, -⟩ :=
      Parser.parse_greedy_ok s flags hs.w_le hn hs.minMatch (Parser.marginOK_of_cap s hs.cap hn) hg
    have hl := s.blockPrefix_length hs.w_le
    have hfull := hok.block.full (Or.inl hf)
    rw [hl] at hfull
    have hnn : n = s.blockN := by omega
    subst hnn
    rw [h1, hp]
    refine ⟨rfl, rfl, ?_, hbn⟩
    show s1.buf = s2.buf
    rw [hb1, hok.buf]

theorem C14_same_n_greedy_reachable (k : Kind) (hk : k ≠ .OSAP) (raw : Cfg) (s0 : Parser)
    (h0 : newParser k raw = some s0) (ops : List POp) (flags : Nat) (hf : flags % 2 = 0) :
    let s := (runOps (s0, Ghost.init) ops).1
    s.parseNil.2.1 = (s.parse flags).2.1 ∧
    s.parseNil.2.2 = (s.parse flags).2.2.1 ∧
    s.parseNil.1.buf = (s.parse flags).1.buf ∧
    s.parseNil.2.1 = min s.buf.cfg.blockSize (s.buf.data.length - s.buf.w) := by
  intro s
  obtain ⟨hs, hg⟩ := reachable_stateOK k raw s0 h0 hk ops
  exact C14_same_n_greedy s flags hf hs hg

end LZ.GenNil

#print axioms LZ.GenNil.C14_same_n_greedy_reachable
