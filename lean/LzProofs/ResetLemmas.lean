/-
  LzProofs.ResetLemmas — helper lemmas for property C13 (Reset ≙ fresh parser; determinism).

  Part A: the *shape* of the search structures (table sizes and the constant parameters
          `inputLen`, `hashBits`, `bucketSize`) is preserved by every dictionary operation,
          so `clear` of any reachable dictionary equals the dictionary `freshDict` creates.
  Part B: the history invariant `RInv` (kind/cfg constant, margin invariant of the buffer,
          dictionary shape) and its preservation by all six operations (any reader).
  Part C: observational equivalence (`ObsEq` = equal up to `buf.cap`) is a bisimulation for
          write / readFrom (error-free readers) / parse / parseNil / shrink / reset.
-/
import LzProofs.WrapProps
import LzProofs.ParseHist
namespace LZ

/-! ## Part A: shapes -/

namespace HashT

/-- the table has `2 ^ hb` slots and the parameters are `il`, `hb` -/
def Shape (il hb : Nat) (h : HashT) : Prop :=
  h.tbl.size = 2 ^ hb ∧ h.inputLen = il ∧ h.hashBits = hb

theorem shape_new (il hb : Nat) : (HashT.new il hb).Shape il hb := by
  simp [Shape, HashT.new]

theorem Shape.clear {il hb : Nat} {h : HashT} (hs : h.Shape il hb) : h.clear.Shape il hb := by
  obtain ⟨a, b, c⟩ := hs
  exact ⟨by simp [HashT.clear, a], b, c⟩

/-- `clear` of a table of the right shape is the table `new` creates -/
theorem Shape.clear_eq {il hb : Nat} {h : HashT} (hs : h.Shape il hb) :
    h.clear = HashT.new il hb := by
  obtain ⟨a, b, c⟩ := hs
  cases h
  simp only [HashT.clear, HashT.new] at *
  subst b c
  rw [a]

theorem Shape.insert {il hb : Nat} {h : HashT} (hs : h.Shape il hb) (p : List Byte) (i : Nat) :
    (h.insert p i).Shape il hb := by
  obtain ⟨a, b, c⟩ := hs
  exact ⟨by simp [HashT.insert, a], b, c⟩

theorem Shape.setEntry {il hb : Nat} {h : HashT} (hs : h.Shape il hb) (idx : Nat) (e : Nat × Nat) :
    ({ h with tbl := h.tbl.setIfInBounds idx e } : HashT).Shape il hb := by
  obtain ⟨a, b, c⟩ := hs
  exact ⟨by simp [a], b, c⟩

theorem Shape.insertRange {il hb : Nat} (p : List Byte) (n : Nat) :
    ∀ {h : HashT} (a : Nat), h.Shape il hb → (h.insertRange p a n).Shape il hb := by
  induction n with
  | zero => intro h a hs; exact hs
  | succ n ih => intro h a hs; exact ih (a + 1) (hs.insert p a)

theorem Shape.shiftOffsets {il hb : Nat} {h : HashT} (hs : h.Shape il hb) (delta : Nat) :
    (h.shiftOffsets delta).Shape il hb := by
  obtain ⟨a, b, c⟩ := hs
  unfold HashT.shiftOffsets
  split
  · exact ⟨a, b, c⟩
  · exact ⟨by simp [a], b, c⟩

end HashT

theorem processSegment1_shape {il hb : Nat} {h : HashT} (hs : h.Shape il hb) (data : List Byte)
    (a b : Int) : (processSegment1 h data a b).Shape il hb := by
  unfold processSegment1
  simp only []
  repeat' split
  all_goals first | exact hs | exact HashT.Shape.insertRange _ _ _ hs

theorem processSegment2_shape {il1 hb1 il2 hb2 : Nat} {h1 h2 : HashT} (hs1 : h1.Shape il1 hb1)
    (hs2 : h2.Shape il2 hb2) (data : List Byte) (a b : Int) :
    (processSegment2 h1 h2 data a b).1.Shape il1 hb1 ∧
    (processSegment2 h1 h2 data a b).2.Shape il2 hb2 := by
  unfold processSegment2
  simp only []
  exact ⟨HashT.Shape.insertRange _ _ _ (HashT.Shape.insertRange _ _ _ hs1),
    HashT.Shape.insertRange _ _ _ hs2⟩

theorem hpProbe_shape {il hb : Nat} (ws mm ie : Nat) (back : Bool) {h : HashT}
    (hs : h.Shape il hb) (p : List Byte) (i li : Nat) :
    (hpProbe ws mm ie back h p i li).1.Shape il hb := by
  unfold hpProbe
  simp only []
  repeat' split
  all_goals first
    | exact hs.setEntry _ _
    | exact HashT.Shape.insertRange _ _ _ (hs.setEntry _ _)

/-- shape of the two tables of a double-hash dictionary -/
def Hash2.Shape (il1 hb1 il2 hb2 : Nat) (d : Hash2) : Prop :=
  d.h1.Shape il1 hb1 ∧ d.h2.Shape il2 hb2

theorem dhpProbe_shape {il1 hb1 il2 hb2 : Nat} (ws mm e1 e2 : Nat) (back : Bool) {d : Hash2}
    (hs : d.Shape il1 hb1 il2 hb2) (p : List Byte) (i li : Nat) :
    (dhpProbe ws mm e1 e2 back d p i li).1.Shape il1 hb1 il2 hb2 := by
  obtain ⟨hs1, hs2⟩ := hs
  unfold dhpProbe
  simp only []
  repeat' split
  all_goals first
    | exact ⟨hs1.setEntry _ _, hs2.setEntry _ _⟩
    | exact ⟨hs1.setEntry _ _, hs2⟩
    | exact ⟨HashT.Shape.insertRange _ _ _ (hs1.setEntry _ _), hs2.setEntry _ _⟩
    | exact ⟨HashT.Shape.insertRange _ _ _ (hs1.setEntry _ _),
        HashT.Shape.insertRange _ _ _ (hs2.setEntry _ _)⟩
    | exact ⟨HashT.Shape.insertRange _ _ _ (hs1.setEntry _ _), hs2⟩

/-! ### bucket hash -/

theorem length_flatten_const {α : Type} (bs : Nat) :
    ∀ (L : List (List α)), (∀ l ∈ L, l.length = bs) → L.flatten.length = L.length * bs := by
  intro L
  induction L with
  | nil => intro _; simp
  | cons l L ih =>
    intro h
    simp only [List.flatten_cons, List.length_append, List.length_cons]
    rw [ih (fun x hx => h x (List.mem_cons_of_mem _ hx)), h l (List.mem_cons_self ..), Nat.add_mul]
    omega

namespace BucketT

/-- `2 ^ hb` buckets of `bs` slots each, one ring index per bucket, parameters `il`, `hb`, `bs` -/
def Shape (il hb bs : Nat) (b : BucketT) : Prop :=
  b.buckets.size = 2 ^ hb * bs ∧ b.indexes.size = 2 ^ hb ∧
  b.inputLen = il ∧ b.hashBits = hb ∧ b.bucketSize = bs

theorem shape_new (il hb bs : Nat) : (BucketT.new il hb bs).Shape il hb bs := by
  simp [Shape, BucketT.new]

theorem Shape.clear {il hb bs : Nat} {b : BucketT} (hs : b.Shape il hb bs) :
    b.clear.Shape il hb bs := by
  obtain ⟨a1, a2, a3, a4, a5⟩ := hs
  exact ⟨by simp [BucketT.clear, a1], by simp [BucketT.clear, a2], a3, a4, a5⟩

theorem Shape.clear_eq {il hb bs : Nat} {b : BucketT} (hs : b.Shape il hb bs) :
    b.clear = BucketT.new il hb bs := by
  obtain ⟨a1, a2, a3, a4, a5⟩ := hs
  cases b
  simp only [BucketT.clear, BucketT.new] at *
  subst a3 a4 a5
  rw [a1, a2]

theorem Shape.add {il hb bs : Nat} {b : BucketT} (hs : b.Shape il hb bs) (h pos val : Nat) :
    (b.add h pos val).Shape il hb bs := by
  obtain ⟨a1, a2, a3, a4, a5⟩ := hs
  exact ⟨by simp [BucketT.add, a1], by simp [BucketT.add, a2], a3, a4, a5⟩

theorem Shape.insert {il hb bs : Nat} {b : BucketT} (hs : b.Shape il hb bs) (p : List Byte)
    (i : Nat) : (b.insert p i).Shape il hb bs := hs.add _ _ _

theorem Shape.insertRange {il hb bs : Nat} (p : List Byte) (n : Nat) :
    ∀ {b : BucketT} (a : Nat), b.Shape il hb bs → (b.insertRange p a n).Shape il hb bs := by
  induction n with
  | zero => intro b a hs; exact hs
  | succ n ih => intro b a hs; exact ih (a + 1) (hs.insert p a)

/-- a shifted bucket has exactly `bs` slots again (given at most `bs` before) -/
theorem shiftBucket_length (bs delta : Nat) (bucket : List (Nat × Nat)) (j : Nat)
    (hb : bucket.length ≤ bs) : (shiftBucket bs delta bucket j).1.length = bs := by
  unfold shiftBucket
  simp only [List.length_append, List.length_replicate, List.length_map]
  have h1 := List.length_filter_le (fun e : Nat × Nat => decide (¬ e.1 < delta))
    (bucket.drop j ++ bucket.take j)
  simp only [List.length_append, List.length_drop, List.length_take] at h1
  omega

theorem Shape.shiftOffsets {il hb bs : Nat} {b : BucketT} (hs : b.Shape il hb bs) (delta : Nat) :
    (b.shiftOffsets delta).Shape il hb bs := by
  obtain ⟨a1, a2, a3, a4, a5⟩ := hs
  unfold BucketT.shiftOffsets
  split
  · exact ⟨a1, a2, a3, a4, a5⟩
  · refine ⟨?_, ?_, a3, a4, a5⟩
    · simp only [List.size_toArray]
      rw [length_flatten_const b.bucketSize]
      · simp [a2, a5]
      · intro l hl
        simp only [List.map_map, List.mem_map, List.mem_range, Function.comp] at hl
        obtain ⟨h, _, rfl⟩ := hl
        apply shiftBucket_length
        simp only [Array.length_toList, Array.size_extract]
        rw [Nat.add_mul]
        omega
    · simp [a2]

end BucketT

theorem processSegmentB_shape {il hb bs : Nat} {b : BucketT} (hs : b.Shape il hb bs)
    (data : List Byte) (a e : Int) : (processSegmentB b data a e).Shape il hb bs := by
  unfold processSegmentB
  simp only []
  repeat' split
  all_goals first | exact hs | exact BucketT.Shape.insertRange _ _ _ hs

theorem bupProbe_shape {il hb bs : Nat} (ws mm ie : Nat) {b : BucketT} (hs : b.Shape il hb bs)
    (p : List Byte) (i li : Nat) : (bupProbe ws mm ie b p i li).1.Shape il hb bs := by
  unfold bupProbe
  simp only []
  repeat' split
  all_goals first
    | exact hs.add _ _ _
    | exact BucketT.Shape.insertRange _ _ _ (hs.add _ _ _)

/-! ### the greedy loop keeps any dictionary invariant its finder keeps -/

theorem greedyLoop_dict {δ} (F : Finder δ) (P : δ → Prop) (p : List Byte) (stop : Nat)
    (hF : ∀ d i li, P d → P (F.probe d p i li).1) :
    ∀ st : LoopSt δ, P st.dict → P (greedyLoop F p stop st).dict := by
  intro st
  induction st using greedyLoop.induct F p stop with
  | case1 st h d hp ih =>
    intro hP
    rw [greedyLoop]; simp only [h, dite_true]
    rw [hp]
    apply ih
    have := hF st.dict st.i st.litIndex hP
    rw [hp] at this; exact this
  | case2 st h d s k o hp hk q ih =>
    intro hP
    rw [greedyLoop]; simp only [h, dite_true]
    rw [hp]
    simp only [hk, dite_true]
    apply ih
    have := hF st.dict st.i st.litIndex hP
    rw [hp] at this; exact this
  | case3 st h d s k o hp hk =>
    intro hP
    rw [greedyLoop]; simp only [h, dite_true]
    rw [hp]
    simp only [hk, dite_false]
    have := hF st.dict st.i st.litIndex hP
    rw [hp] at this; exact this
  | case4 st h =>
    intro hP
    rw [greedyLoop]; simp only [h, dite_false]
    exact hP

theorem runGreedy_dict {δ} (F : Finder δ) (P : δ → Prop) (d : δ) (p : List Byte) (w stop flags : Nat)
    (hF : ∀ d i li, P d → P (F.probe d p i li).1) (hd : P d) :
    P (Parser.runGreedy F d p w stop flags).1 := by
  unfold Parser.runGreedy
  exact greedyLoop_dict F P p stop hF _ hd

/-- the search structure has the shape `freshDict k c` creates: the variant belonging to the kind,
    table sizes `2 ^ hashBits` (× `bucketSize`), and the parameters stored in the tables are
    those of the configuration.  Nothing is said about the table *contents*. -/
def DictShape (k : Kind) (c : Cfg) : Dict → Prop
  | .single h => (k = .HP ∨ k = .BHP) ∧ h.Shape c.inputLen.toNat c.hashBits.toNat
  | .double d => (k = .DHP ∨ k = .BDHP) ∧
      d.Shape c.inputLen1.toNat c.hashBits1.toNat c.inputLen2.toNat c.hashBits2.toNat
  | .bucket b => k = .BUP ∧ b.Shape c.inputLen.toNat c.hashBits.toNat c.bucketSize.toNat
  | .gsap _ => k = .GSAP
  | .osap _ => k = .OSAP

theorem dictShape_fresh (k : Kind) (c : Cfg) : DictShape k c (freshDict k c) := by
  cases k <;> simp [freshDict, DictShape, HashT.shape_new, BucketT.shape_new, Hash2.Shape]

namespace Parser
theorem parse_panic (s : Parser) (flags : Nat) (hn : s.blockN ≠ 0) (hm : ¬ s.MarginOK) :
    s.parse flags = (s, 0, .panic, ⟨[], []⟩) := by
  have hm := Classical.not_not.mp hm
  unfold dictInputLen blockPrefix at hm
  unfold parse
  simp only [hn, if_false]
  exact if_pos hm
end Parser

theorem parse_dictShape {k : Kind} {c : Cfg} (s : Parser) (flags : Nat)
    (h : DictShape k c s.dict) : DictShape k c (s.parse flags).1.dict := by
  by_cases hn : s.blockN = 0
  · rw [Parser.parse_empty s flags hn]; exact h
  by_cases hm : s.MarginOK
  · cases hd : s.dict with
    | single t =>
      rw [hd] at h
      rw [Parser.parse_single s flags t hd hn hm]
      refine ⟨h.1, ?_⟩
      apply runGreedy_dict _ (HashT.Shape c.inputLen.toNat c.hashBits.toNat)
      · intro d i li hd; exact hpProbe_shape _ _ _ _ hd _ _ _
      · exact processSegment1_shape h.2 _ _ _
    | double t =>
      rw [hd] at h
      rw [Parser.parse_double s flags t hd hn hm]
      refine ⟨h.1, ?_⟩
      apply runGreedy_dict _
        (Hash2.Shape c.inputLen1.toNat c.hashBits1.toNat c.inputLen2.toNat c.hashBits2.toNat)
      · intro d i li hd; exact dhpProbe_shape _ _ _ _ _ hd _ _ _
      · exact processSegment2_shape h.2.1 h.2.2 _ _ _
    | bucket t =>
      rw [hd] at h
      rw [Parser.parse_bucket s flags t hd hn hm]
      refine ⟨h.1, ?_⟩
      apply runGreedy_dict _ (BucketT.Shape c.inputLen.toNat c.hashBits.toNat c.bucketSize.toNat)
      · intro d i li hd; exact bupProbe_shape _ _ _ hd _ i li
      · exact processSegmentB_shape h.2 _ _ _
    | gsap g =>
      rw [hd] at h
      rw [Parser.parse_gsap s flags g hd hn]
      exact h
    | osap o =>
      rw [hd] at h
      rw [Parser.parse_osap s flags o hd hn]
      simp only []
      split <;> exact h
  · rw [Parser.parse_panic s flags hn hm]; exact h

theorem parseNil_dictShape {k : Kind} {c : Cfg} (s : Parser) (h : DictShape k c s.dict) :
    DictShape k c s.parseNil.1.dict := by
  unfold Parser.parseNil
  simp only []
  split
  · exact h
  · cases hd : s.dict with
    | single t => rw [hd] at h; exact ⟨h.1, processSegment1_shape h.2 _ _ _⟩
    | double t =>
      rw [hd] at h
      exact ⟨h.1, processSegment2_shape h.2.1 h.2.2 _ _ _⟩
    | bucket t => rw [hd] at h; exact ⟨h.1, processSegmentB_shape h.2 _ _ _⟩
    | gsap g => rw [hd] at h; exact h
    | osap o => rw [hd] at h; exact h

theorem shrink_dictShape {k : Kind} {c : Cfg} (s : Parser) (h : DictShape k c s.dict) :
    DictShape k c s.shrink.1.dict := by
  unfold Parser.shrink
  simp only []
  split
  · exact h
  · cases hd : s.dict with
    | single t => rw [hd] at h; exact ⟨h.1, h.2.shiftOffsets _⟩
    | double t => rw [hd] at h; exact ⟨h.1, h.2.1.shiftOffsets _, h.2.2.shiftOffsets _⟩
    | bucket t => rw [hd] at h; exact ⟨h.1, h.2.shiftOffsets _⟩
    | gsap g => rw [hd] at h; exact h
    | osap o => rw [hd] at h; exact h

/-- **the key fact**: clearing a dictionary of the right shape gives exactly the fresh one -/
theorem clearDict_eq_fresh {k : Kind} {c : Cfg} (s : Parser) (h : DictShape k c s.dict) :
    s.clearDict = freshDict k c := by
  unfold Parser.clearDict
  cases hd : s.dict with
  | single t =>
    rw [hd] at h
    obtain ⟨hk, hs⟩ := h
    simp only [hs.clear_eq]
    rcases hk with rfl | rfl <;> rfl
  | double t =>
    rw [hd] at h
    obtain ⟨hk, hs1, hs2⟩ := h
    simp only [hs1.clear_eq, hs2.clear_eq]
    rcases hk with rfl | rfl <;> rfl
  | bucket t =>
    rw [hd] at h
    obtain ⟨hk, hs⟩ := h
    simp only [hs.clear_eq]
    subst hk; rfl
  | gsap g => rw [hd] at h; have h : k = .GSAP := h; subst h; rfl
  | osap o => rw [hd] at h; have h : k = .OSAP := h; subst h; rfl

theorem reset_dictShape {k : Kind} {c : Cfg} (s : Parser) (data : List Byte) (ce : Nat)
    (h : DictShape k c s.dict) : DictShape k c (s.reset data ce).1.dict := by
  unfold Parser.reset
  simp only []
  split
  · show DictShape k c s.clearDict
    rw [clearDict_eq_fresh s h]; exact dictShape_fresh k c
  · exact h

/-! ## Part B: operations with outputs, the history invariant -/

/-- what the caller of an operation observes -/
inductive POut where
  | write (n : Nat) (e : Err)
  /-- count, error and the bytes the reader still holds -/
  | readFrom (n : Nat) (e : Err) (rest : List Byte)
  | parse (n : Nat) (e : Err) (blk : Block)
  | parseNil (n : Nat) (e : Err)
  | shrink (delta : Nat)
  | reset (e : Err)
deriving DecidableEq, Repr

namespace Parser

/-- one operation: new state and what the caller sees -/
def stepOut (s : Parser) : POp → Parser × POut
  | .write p => ((s.write p).1, .write (s.write p).2.1 (s.write p).2.2)
  | .readFrom rd =>
    ((s.readFrom rd).1, .readFrom (s.readFrom rd).2.2.1 (s.readFrom rd).2.2.2 (s.readFrom rd).2.1.payload)
  | .parse flags =>
    ((s.parse flags).1, .parse (s.parse flags).2.1 (s.parse flags).2.2.1 (s.parse flags).2.2.2)
  | .parseNil => (s.parseNil.1, .parseNil s.parseNil.2.1 s.parseNil.2.2)
  | .shrink => (s.shrink.1, .shrink s.shrink.2)
  | .reset data ce => ((s.reset data ce).1, .reset (s.reset data ce).2)

/-- a history: final state and the list of everything the caller saw -/
def runOut (s : Parser) : List POp → Parser × List POut
  | [] => (s, [])
  | op :: ops => (((s.stepOut op).1.runOut ops).1, (s.stepOut op).2 :: ((s.stepOut op).1.runOut ops).2)

end Parser

/-- `runOps` of LzProofs.ParseHist (with ghost state) visits the same parser states -/
theorem step_fst (s : Parser) (g : Ghost) (op : POp) : (step (s, g) op).1 = (s.stepOut op).1 := by
  cases op <;> simp only [step, Parser.stepOut] <;> split <;> rfl

theorem runOps_fst (ops : List POp) : ∀ (s : Parser) (g : Ghost),
    (runOps (s, g) ops).1 = (s.runOut ops).1 := by
  induction ops with
  | nil => intro s g; rfl
  | cons op ops ih =>
    intro s g
    show (runOps (step (s, g) op) ops).1 = _
    have : step (s, g) op = ((s.stepOut op).1, (step (s, g) op).2) := by
      rw [← step_fst s g op]
    rw [this, ih]
    rfl

namespace PBuf

/-- the buffer invariant needed here (no ghost stream, nothing about `W`): at most `BufferSize`
    bytes, and non-empty data have the 7 byte margin.  Implied by `BufOK` and by `PInv`. -/
def MarginInv (b : PBuf) : Prop := b.data.length ≤ b.cfg.bufferSize ∧ b.CapOK

theorem marginInv_of_bufOK {b : PBuf} (h : BufOK b) : MarginInv b := ⟨h.2.1, h.2.2⟩

theorem marginInv_init (cfg : BufCfg) : MarginInv (init cfg) := ⟨Nat.zero_le _, Or.inl rfl⟩

theorem MarginInv.write {b : PBuf} (h : MarginInv b) (p : List Byte) : MarginInv (b.write p).1 := by
  refine ⟨?_, (write_frame b p).2.2.2.2.2 h.2⟩
  obtain ⟨c, hw, -⟩ := write_spec b p h.1
  have := h.1
  rw [hw]
  simp only [List.length_append, List.length_take]
  omega

theorem MarginInv.readFrom {b : PBuf} (h : MarginInv b) (r : Reader) :
    MarginInv (b.readFrom r).1 := by
  refine ⟨?_, (readFrom_frame b r).2.2.2.2.2 h.2⟩
  have e : b.readFrom r = ((b.readFrom r).1, (b.readFrom r).2.1, (b.readFrom r).2.2.1,
    (b.readFrom r).2.2.2) := rfl
  obtain ⟨c, pre, hb, -, h1, h2, -⟩ := readFrom_master h.1 e
  rw [hb]
  simp only [List.length_append, List.length_take]
  omega

theorem MarginInv.shrink {b : PBuf} (h : MarginInv b) : MarginInv b.shrink.1 := by
  rw [shrink_spec]
  obtain ⟨h1, h2⟩ := h
  refine ⟨by simp only [List.length_drop]; omega, ?_⟩
  rcases h2 with h2 | h2
  · left; simp [h2]
  · right; simp only [List.length_drop]; omega

theorem MarginInv.reset {b : PBuf} (h : MarginInv b) (data : List Byte) (ce : Nat) :
    MarginInv (b.reset data ce).1 := by
  by_cases hd : b.cfg.bufferSize < data.length
  · rw [reset_oversize b data ce hd]; exact h
  · obtain ⟨c, hc, hm⟩ := reset_spec b data ce (by omega)
    rw [hc]
    exact ⟨by simp only; omega, hm⟩

theorem MarginInv.setW {b : PBuf} (h : MarginInv b) (w : Nat) : MarginInv { b with w := w } := h

end PBuf

namespace Parser

theorem parse_kind_cfg (s : Parser) (flags : Nat) :
    (s.parse flags).1.kind = s.kind ∧ (s.parse flags).1.cfg = s.cfg := by
  unfold Parser.parse
  simp only []
  repeat' split
  all_goals exact ⟨rfl, rfl⟩

theorem parseNil_kind_cfg (s : Parser) :
    s.parseNil.1.kind = s.kind ∧ s.parseNil.1.cfg = s.cfg := by
  unfold Parser.parseNil
  simp only []
  split <;> exact ⟨rfl, rfl⟩

theorem shrink_kind_cfg (s : Parser) :
    s.shrink.1.kind = s.kind ∧ s.shrink.1.cfg = s.cfg := by
  unfold Parser.shrink
  simp only []
  split <;> exact ⟨rfl, rfl⟩

theorem reset_kind_cfg (s : Parser) (data : List Byte) (ce : Nat) :
    (s.reset data ce).1.kind = s.kind ∧ (s.reset data ce).1.cfg = s.cfg := by
  unfold Parser.reset
  simp only []
  split <;> exact ⟨rfl, rfl⟩

theorem reset_buf (s : Parser) (data : List Byte) (ce : Nat) :
    (s.reset data ce).1.buf = (s.buf.reset data ce).1 ∧ (s.reset data ce).2 = (s.buf.reset data ce).2 := by
  unfold Parser.reset
  simp only []
  split
  · exact ⟨rfl, rfl⟩
  · rename_i he
    refine ⟨?_, rfl⟩
    rcases PBuf.reset_frame s.buf data ce with ⟨h, -⟩ | ⟨-, h⟩
    · exact absurd h he
    · exact h.symm

theorem reset_dict (s : Parser) (data : List Byte) (ce : Nat) :
    (s.reset data ce).1.dict = if (s.reset data ce).2 = .ok then s.clearDict else s.dict := by
  unfold Parser.reset
  simp only []
  split
  · simp
  · simp

/-- the buffer after any operation, in terms of the buffer operation -/
theorem stepOut_marginInv (s : Parser) (op : POp) (h : s.buf.MarginInv) :
    (s.stepOut op).1.buf.MarginInv := by
  cases op with
  | write p => exact h.write p
  | readFrom r => exact h.readFrom r
  | parse flags =>
    show (s.parse flags).1.buf.MarginInv
    rw [parse_frame]; exact h
  | parseNil =>
    show s.parseNil.1.buf.MarginInv
    rw [parseNil_buf]; exact h
  | shrink =>
    show s.shrink.1.buf.MarginInv
    rw [shrink_buf]; exact h.shrink
  | reset data ce =>
    show (s.reset data ce).1.buf.MarginInv
    rw [(reset_buf s data ce).1]; exact h.reset data ce

end Parser

/-- Invariant of all states reachable from `NewParser`: kind and configuration are constant,
    the buffer configuration is the one derived from the configuration, the buffer has the
    margin invariant, and the dictionary has the shape of a fresh one. -/
structure RInv (k : Kind) (c : Cfg) (s : Parser) : Prop where
  kind : s.kind = k
  cfg : s.cfg = c
  bcfg : s.buf.cfg = c.bufCfg
  buf : s.buf.MarginInv
  dict : DictShape k c s.dict

theorem newParser_rinv (k : Kind) (raw : Cfg) (s0 : Parser) (h : newParser k raw = some s0) :
    RInv k s0.cfg s0 ∧ s0.dict = freshDict k s0.cfg ∧ s0.buf = PBuf.init s0.cfg.bufCfg := by
  unfold newParser at h
  simp only [] at h
  split at h
  · simp only [Option.some.injEq] at h
    subst h
    exact ⟨⟨rfl, rfl, rfl, PBuf.marginInv_init _, dictShape_fresh _ _⟩, rfl, rfl⟩
  · simp at h

theorem PBuf.write_cfg (b : PBuf) (p : List Byte) : (b.write p).1.cfg = b.cfg :=
  (PBuf.write_frame b p).2.2.2.2.1

theorem PBuf.readFrom_cfg (b : PBuf) (r : Reader) : (b.readFrom r).1.cfg = b.cfg :=
  (PBuf.readFrom_frame b r).2.2.2.2.1

theorem PBuf.reset_cfg (b : PBuf) (data : List Byte) (ce : Nat) : (b.reset data ce).1.cfg = b.cfg := by
  rcases PBuf.reset_frame b data ce with ⟨-, -, -, -, h, -⟩ | ⟨-, h⟩
  · exact h
  · rw [h]

theorem RInv.step {k : Kind} {c : Cfg} {s : Parser} (h : RInv k c s) (op : POp) :
    RInv k c (s.stepOut op).1 := by
  obtain ⟨h1, h2, h3, h4, h5⟩ := h
  refine ⟨?_, ?_, ?_, Parser.stepOut_marginInv s op h4, ?_⟩
  · cases op with
    | write p => exact h1
    | readFrom r => exact h1
    | parse flags => exact (Parser.parse_kind_cfg s flags).1.trans h1
    | parseNil => exact (Parser.parseNil_kind_cfg s).1.trans h1
    | shrink => exact (Parser.shrink_kind_cfg s).1.trans h1
    | reset data ce => exact (Parser.reset_kind_cfg s data ce).1.trans h1
  · cases op with
    | write p => exact h2
    | readFrom r => exact h2
    | parse flags => exact (Parser.parse_kind_cfg s flags).2.trans h2
    | parseNil => exact (Parser.parseNil_kind_cfg s).2.trans h2
    | shrink => exact (Parser.shrink_kind_cfg s).2.trans h2
    | reset data ce => exact (Parser.reset_kind_cfg s data ce).2.trans h2
  · cases op with
    | write p => exact (PBuf.write_cfg s.buf p).trans h3
    | readFrom r => exact (PBuf.readFrom_cfg s.buf r).trans h3
    | parse flags =>
      show (s.parse flags).1.buf.cfg = _
      rw [Parser.parse_frame]; exact h3
    | parseNil =>
      show s.parseNil.1.buf.cfg = _
      rw [Parser.parseNil_buf]; exact h3
    | shrink =>
      show s.shrink.1.buf.cfg = _
      rw [Parser.shrink_buf, (PBuf.shrink_frame s.buf).2.2.2.1]; exact h3
    | reset data ce =>
      show (s.reset data ce).1.buf.cfg = _
      rw [(Parser.reset_buf s data ce).1, PBuf.reset_cfg]; exact h3
  · cases op with
    | write p => exact h5
    | readFrom r => exact h5
    | parse flags => exact parse_dictShape s flags h5
    | parseNil => exact parseNil_dictShape s h5
    | shrink => exact shrink_dictShape s h5
    | reset data ce => exact reset_dictShape s data ce h5

theorem RInv.run {k : Kind} {c : Cfg} (ops : List POp) :
    ∀ {s : Parser}, RInv k c s → RInv k c (s.runOut ops).1 := by
  induction ops with
  | nil => intro s h; exact h
  | cons op ops ih => intro s h; exact ih (h.step op)

open PBuf

/-! ## Part C: observational equivalence is a bisimulation -/

/-- observational equivalence of two parser states: equal in everything but the capacity of
    the buffer's backing array (`buf.cap`) -/
def ObsEq (s t : Parser) : Prop :=
  s.kind = t.kind ∧ s.cfg = t.cfg ∧ s.dict = t.dict ∧ s.buf.data = t.buf.data ∧
  s.buf.w = t.buf.w ∧ s.buf.off = t.buf.off ∧ s.buf.cfg = t.buf.cfg

/-- `ObsEq` is `Parser.Sim` of LzProofs.WrapProps -/
theorem obsEq_iff_sim (s t : Parser) : ObsEq s t ↔ Parser.Sim s t := Iff.rfl

theorem ObsEq.refl (s : Parser) : ObsEq s s := ⟨rfl, rfl, rfl, rfl, rfl, rfl, rfl⟩

theorem ObsEq.symm {s t : Parser} (h : ObsEq s t) : ObsEq t s :=
  ⟨h.1.symm, h.2.1.symm, h.2.2.1.symm, h.2.2.2.1.symm, h.2.2.2.2.1.symm, h.2.2.2.2.2.1.symm,
   h.2.2.2.2.2.2.symm⟩

theorem ObsEq.trans {s t u : Parser} (h : ObsEq s t) (h' : ObsEq t u) : ObsEq s u :=
  ⟨h.1.trans h'.1, h.2.1.trans h'.2.1, h.2.2.1.trans h'.2.2.1, h.2.2.2.1.trans h'.2.2.2.1,
   h.2.2.2.2.1.trans h'.2.2.2.2.1, h.2.2.2.2.2.1.trans h'.2.2.2.2.2.1,
   h.2.2.2.2.2.2.trans h'.2.2.2.2.2.2⟩

theorem ObsEq.sameView {s t : Parser} (h : ObsEq s t) : SameView s.buf t.buf := h.2.2.2

/-- equal up to `cap` and equal `cap` means equal -/
theorem ObsEq.eq_of_cap {s t : Parser} (h : ObsEq s t) (hc : s.buf.cap = t.buf.cap) : s = t := by
  have := Parser.Sim.eq_withCap h
  rw [this, ← hc]
  rfl

/-- two calls the caller cannot tell apart: identical arguments, except that the spare capacity
    of a slice handed to `Reset` and the chunking of an error-free reader may differ -/
inductive POp.Similar : POp → POp → Prop
  | write (p : List Byte) : Similar (.write p) (.write p)
  | readFrom (ra rb : Reader) (hp : ra.payload = rb.payload) (ha : FillR ra) (hb : FillR rb) :
      Similar (.readFrom ra) (.readFrom rb)
  | parse (flags : Nat) : Similar (.parse flags) (.parse flags)
  | parseNil : Similar .parseNil .parseNil
  | shrink : Similar .shrink .shrink
  | reset (data : List Byte) (ce ce' : Nat) : Similar (.reset data ce) (.reset data ce')

/-- the operations of the restricted histories: every reader is error free (`FillR`) -/
def POp.FillOK : POp → Prop
  | .readFrom r => FillR r
  | _ => True

theorem POp.Similar.of_fillOK {op : POp} (h : op.FillOK) : POp.Similar op op := by
  cases op with
  | write p => exact .write p
  | readFrom r => exact .readFrom r r rfl h h
  | parse flags => exact .parse flags
  | parseNil => exact .parseNil
  | shrink => exact .shrink
  | reset d ce => exact .reset d ce ce

/-- two histories the caller cannot tell apart -/
inductive OpsSimilar : List POp → List POp → Prop
  | nil : OpsSimilar [] []
  | cons {a b : POp} {as bs : List POp} : POp.Similar a b → OpsSimilar as bs →
      OpsSimilar (a :: as) (b :: bs)

theorem OpsSimilar.of_fillOK : ∀ {ops : List POp}, (∀ op ∈ ops, op.FillOK) → OpsSimilar ops ops
  | [], _ => .nil
  | op :: ops, h => .cons (POp.Similar.of_fillOK (h op (List.mem_cons_self ..)))
      (OpsSimilar.of_fillOK (ops := ops) fun o ho => h o (List.mem_cons_of_mem _ ho))

namespace Parser

theorem parseNil_withCap (s : Parser) (c : Nat) :
    (s.withCap c).parseNil = (s.parseNil.1.withCap c, s.parseNil.2) := by
  obtain ⟨kind, cfg, buf, dict⟩ := s
  unfold Parser.parseNil
  simp only [Parser.withCap, Parser.blockN]
  by_cases h : min (buf.data.length - buf.w) buf.cfg.blockSize = 0
  · simp only [h, if_true]
  · simp only [h, if_false]

theorem write_obs {s t : Parser} (h : ObsEq s t) (hs : s.buf.MarginInv) (p : List Byte) :
    ObsEq (s.write p).1 (t.write p).1 ∧ (s.write p).2 = (t.write p).2 := by
  obtain ⟨g1, g2⟩ := sameView_write h.sameView hs.1 p
  exact ⟨⟨h.1, h.2.1, h.2.2.1, g1⟩, g2⟩

theorem readFrom_obs {s t : Parser} (h : ObsEq s t) (hs : s.buf.MarginInv) {ra rb : Reader}
    (hp : ra.payload = rb.payload) (hfa : FillR ra) (hfb : FillR rb) :
    ObsEq (s.readFrom ra).1 (t.readFrom rb).1 ∧
    (s.readFrom ra).2.1.payload = (t.readFrom rb).2.1.payload ∧
    (s.readFrom ra).2.2 = (t.readFrom rb).2.2 := by
  obtain ⟨g1, g2, g3⟩ :=
    sameView_readFrom_fill h.sameView hs.1 hp (hfa.fillScript _) (hfb.fillScript _)
  exact ⟨⟨h.1, h.2.1, h.2.2.1, g1⟩, g2, g3⟩

theorem parse_obs {s t : Parser} (h : ObsEq s t) (hs : s.buf.MarginInv) (ht : t.buf.MarginInv)
    (flags : Nat) :
    ObsEq (s.parse flags).1 (t.parse flags).1 ∧ (s.parse flags).2 = (t.parse flags).2 := by
  by_cases hw : s.buf.w ≤ s.buf.data.length
  · have ha : BufOK s.buf := ⟨hw, hs.1, hs.2⟩
    have hb : BufOK t.buf := ⟨by rw [← h.2.2.2.2.1, ← h.2.2.2.1]; exact hw, ht.1, ht.2⟩
    exact Parser.parse_sim h flags ha hb
  · have h1 : s.blockN = 0 := by unfold Parser.blockN; omega
    have h2 : t.blockN = 0 := by unfold Parser.blockN; rw [← h.2.2.2.2.1, ← h.2.2.2.1]; omega
    rw [parse_empty s flags h1, parse_empty t flags h2]
    exact ⟨h, rfl⟩

theorem parseNil_obs {s t : Parser} (h : ObsEq s t) :
    ObsEq s.parseNil.1 t.parseNil.1 ∧ s.parseNil.2 = t.parseNil.2 := by
  rw [Parser.Sim.eq_withCap h, parseNil_withCap]
  exact ⟨Parser.sim_withCap _ _, rfl⟩

theorem shrink_obs {s t : Parser} (h : ObsEq s t) :
    ObsEq s.shrink.1 t.shrink.1 ∧ s.shrink.2 = t.shrink.2 := by
  rw [Parser.Sim.eq_withCap h, Parser.shrink_withCap]
  exact ⟨Parser.sim_withCap _ _, rfl⟩

theorem clearDict_congr {s t : Parser} (h : s.dict = t.dict) : s.clearDict = t.clearDict := by
  unfold Parser.clearDict; rw [h]

theorem reset_obs {s t : Parser} (h : ObsEq s t) (data : List Byte) (ce ce' : Nat) :
    ObsEq (s.reset data ce).1 (t.reset data ce').1 ∧ (s.reset data ce).2 = (t.reset data ce').2 := by
  obtain ⟨g1, g2⟩ := sameView_reset h.sameView data ce ce'
  have e : (s.reset data ce).2 = (t.reset data ce').2 := by
    rw [(reset_buf s data ce).2, (reset_buf t data ce').2]; exact g2
  refine ⟨⟨?_, ?_, ?_, ?_⟩, e⟩
  · rw [(reset_kind_cfg s data ce).1, (reset_kind_cfg t data ce').1]; exact h.1
  · rw [(reset_kind_cfg s data ce).2, (reset_kind_cfg t data ce').2]; exact h.2.1
  · rw [reset_dict, reset_dict, e, clearDict_congr h.2.2.1, h.2.2.1]
  · rw [(reset_buf s data ce).1, (reset_buf t data ce').1]; exact g1

/-- **bisimulation step**: observationally equivalent states answer indistinguishable calls
    with identical outputs and move to observationally equivalent states -/
theorem obs_step {s t : Parser} (h : ObsEq s t) (hs : s.buf.MarginInv) (ht : t.buf.MarginInv)
    {op op' : POp} (ho : POp.Similar op op') :
    ObsEq (s.stepOut op).1 (t.stepOut op').1 ∧ (s.stepOut op).2 = (t.stepOut op').2 := by
  cases ho with
  | write p =>
    obtain ⟨g1, g2⟩ := write_obs h hs p
    refine ⟨g1, ?_⟩
    show POut.write _ _ = POut.write _ _
    rw [g2]
  | readFrom ra rb hp ha hb =>
    obtain ⟨g1, g2, g3⟩ := readFrom_obs h hs hp ha hb
    refine ⟨g1, ?_⟩
    show POut.readFrom _ _ _ = POut.readFrom _ _ _
    rw [g2, g3]
  | parse flags =>
    obtain ⟨g1, g2⟩ := parse_obs h hs ht flags
    refine ⟨g1, ?_⟩
    show POut.parse _ _ _ = POut.parse _ _ _
    rw [g2]
  | parseNil =>
    obtain ⟨g1, g2⟩ := parseNil_obs h
    refine ⟨g1, ?_⟩
    show POut.parseNil _ _ = POut.parseNil _ _
    rw [g2]
  | shrink =>
    obtain ⟨g1, g2⟩ := shrink_obs h
    refine ⟨g1, ?_⟩
    show POut.shrink _ = POut.shrink _
    rw [g2]
  | reset data ce ce' =>
    obtain ⟨g1, g2⟩ := reset_obs h data ce ce'
    refine ⟨g1, ?_⟩
    show POut.reset _ = POut.reset _
    rw [g2]

/-- bisimulation over whole histories -/
theorem obs_run {ops ops' : List POp} (ho : OpsSimilar ops ops') :
    ∀ {s t : Parser}, ObsEq s t → s.buf.MarginInv → t.buf.MarginInv →
      ObsEq (s.runOut ops).1 (t.runOut ops').1 ∧ (s.runOut ops).2 = (t.runOut ops').2 := by
  induction ho with
  | nil => intro s t h _ _; exact ⟨h, rfl⟩
  | cons hop _ ih =>
    intro s t h hs ht
    obtain ⟨g1, g2⟩ := obs_step h hs ht hop
    obtain ⟨i1, i2⟩ := ih g1 (stepOut_marginInv s _ hs) (stepOut_marginInv t _ ht)
    refine ⟨i1, ?_⟩
    show _ :: _ = _ :: _
    rw [g2, i2]

end Parser
end LZ
