/-
  LzProofs.GenHPHistEx — non-vacuity of LzProofs/GenHPHistRun.lean: a concrete history executed on the TRANSLATED
  functions (`runG`), checked by kernel evaluation (`decide`), and the instance of `C01_go_text_hp` for it.

  Configuration: ShrinkSize 8, BufferSize 32, WindowSize 16, BlockSize 16, InputLen 3, HashBits 4.
  History: Write("abcabcabcabcabcabc"); Parse(&blk, 0); Shrink(); Write("xyzxyzabcabcQ"); Parse(&blk, NoTrailingLiterals);
           Parse(&blk, 0); Parse(&blk, 0) [empty]; Reset("hello hello hello"); Parse(&blk, 0).
-/
import LzProofs.GenHPHistRun

namespace LZ.GenHPHist
open LZ LZ.Gen LZ.GenBuf LZ.GenHash LZ.GenHPParse LZ.GenProps

def exCfg : Gen.HPConfig :=
  { ShrinkSize := 8, BufferSize := 32, WindowSize := 16, BlockSize := 16, InputLen := 3, HashBits := 4 }

/-- the capacity policy of `append` (never consulted in this history: no `append` reallocates) -/
def exGrow : Nat → Nat → Nat := fun _ n => n

/-- a Go slice with `cap = len` -/
def sliceOf (l : List UInt8) : Slice := { arr := l, len := l.length }

/-- "abcabcabcabcabcabc" -/
def exA : List UInt8 := [97, 98, 99, 97, 98, 99, 97, 98, 99, 97, 98, 99, 97, 98, 99, 97, 98, 99]
/-- "xyzxyzabcabcQ" -/
def exB : List UInt8 := [120, 121, 122, 120, 121, 122, 97, 98, 99, 97, 98, 99, 81]
/-- "hello hello hello" -/
def exC : List UInt8 := [104, 101, 108, 108, 111, 32, 104, 101, 108, 108, 111, 32, 104, 101, 108, 108, 111]

def exOps : List GOp :=
  [ .write (sliceOf exA), .parse default 0, .shrink, .write (sliceOf exB), .parse default 1, .parse default 0,
    .parse default 0, .reset (sliceOf exC), .parse default 0 ]

/-- the state `hashParser.init(exCfg)` leaves in `new(hashParser)` -/
def exS0 : Gen.hashParser :=
  match hashParser_init default exCfg with
  | .ok (s, _) => s
  | _ => default

theorem exInit : hashParser_init default exCfg = Res.ok (exS0, Gen.Err.ok) := by decide +kernel

theorem exWF : ∀ op ∈ exOps, op.WF := by
  intro op hop
  simp only [exOps, List.mem_cons, List.not_mem_nil, or_false] at hop
  rcases hop with rfl | rfl | rfl | rfl | rfl | rfl | rfl | rfl | rfl <;>
    first | trivial | exact Nat.le_refl _ | (show (0 : Int) ≤ _; decide)

/-- the values the translated functions return, in order -/
def exResults : List GRes :=
  [ .write 18 Gen.Err.ok,
    -- "abc" + match(len 13, offset 3): 16 bytes = BlockSize
    .parse { Sequences := [{ LitLen := 3, MatchLen := 13, Offset := 3, Aux := 0 }],
             Literals := { arr := [97, 98, 99], len := 3 } } 16 Gen.Err.ok,
    .shrink 8,
    .write 13 Gen.Err.ok,
    -- NoTrailingLiterals: the block ends with its last match, 14 of the 15 buffered bytes
    .parse { Sequences := [{ LitLen := 5, MatchLen := 3, Offset := 3, Aux := 0 },
                           { LitLen := 2, MatchLen := 4, Offset := 12, Aux := 0 }],
             Literals := { arr := [98, 99, 120, 121, 122, 97, 98], len := 7 } } 14 Gen.Err.ok,
    -- the trailing "Q"
    .parse { Sequences := [], Literals := { arr := [81], len := 1 } } 1 Gen.Err.ok,
    .parse { Sequences := [], Literals := { arr := [], len := 0 } } 0 Gen.ErrEmptyBuffer,
    .reset Gen.Err.ok,
    .parse { Sequences := [{ LitLen := 6, MatchLen := 10, Offset := 6, Aux := 0 }],
             Literals := { arr := [104, 101, 108, 108, 111, 32], len := 6 } } 16 Gen.Err.ok ]

/-- the run on the translated functions, evaluated by the kernel -/
theorem exRun : (match runG exGrow 40 exS0 exOps with | .ok r => some r.2 | _ => none) = some exResults := by
  decide +kernel

/-- the bookkeeping computed from the calls and the results: after the `Reset` 17 bytes were fed, 16 consumed, one
    block -/
theorem exGhost :
    (ghostRun Ghost.init exOps exResults).fed = exC ∧ (ghostRun Ghost.init exOps exResults).consumed = 16 ∧
    (ghostRun Ghost.init exOps exResults).log.length = 1 := by decide +kernel

/-- the bookkeeping before the `Reset`: 31 bytes fed, all consumed, three blocks, and they decode to those bytes -/
theorem exGhost7 :
    (ghostRun Ghost.init (exOps.take 7) (exResults.take 7)).fed = exA ++ exB ∧
    (ghostRun Ghost.init (exOps.take 7) (exResults.take 7)).consumed = 31 ∧
    decode [] (ghostRun Ghost.init (exOps.take 7) (exResults.take 7)).log = some (exA ++ exB) := by decide +kernel

/-- `C01_go_text_hp` for this history -/
example := C01_go_text_hp exCfg exS0 exInit exGrow 40 (by decide +kernel) exOps exWF
example := gen_hp_history exCfg exS0 exInit exGrow 40 (by decide +kernel) exOps exWF

end LZ.GenHPHist

#print axioms LZ.GenHPHist.exInit
#print axioms LZ.GenHPHist.exRun
#print axioms LZ.GenHPHist.exGhost
#print axioms LZ.GenHPHist.exGhost7
