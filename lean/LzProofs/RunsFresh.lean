/-
  LzProofs.RunsFresh — the *freshness invariant* of the hash tables of HP / BHP (single table):

    `h.Fresh data w` : every position `q` with `q + inputLen ≤ w` (all key bytes parsed) is indexed
    and the slot of its key holds a position `≥ q`.

  It holds for the table of a fresh parser and is preserved by `Write`, `ReadFrom`, `Parse` (any
  flags), `Parse(nil)`, `Shrink` and `Reset`.
-/
import LzProofs.RunsLemmas
namespace LZ
open PBuf

/-- the freshness invariant of one table -/
def HashT.Fresh (h : HashT) (data : List Byte) (w : Nat) : Prop :=
  ∀ q, q + h.inputLen ≤ w → q ≤ (h.slot (h.key data q)).1

theorem HashT.Fresh.cov {h : HashT} {data : List Byte} {w : Nat} (hf : h.Fresh data w) :
    h.Cov data (w + 1 - h.inputLen) := fun q hq => hf q (by omega)

theorem HashT.Cov.fresh {h : HashT} {data : List Byte} {w : Nat}
    (hc : h.Cov data (w + 1 - h.inputLen)) : h.Fresh data w := fun q hq => hc q (by omega)

theorem HashT.Fresh.zero (h : HashT) (data : List Byte) (hil : 1 ≤ h.inputLen) : h.Fresh data 0 := by
  intro q hq; omega

/-- `Write` / `ReadFrom` only append -/
theorem HashT.Fresh.append {h : HashT} {data : List Byte} {w : Nat} (hf : h.Fresh data w)
    (hw : w ≤ data.length) (x : List Byte) : h.Fresh (data ++ x) w := by
  intro q hq
  rw [key_append h data x q (by omega)]
  exact hf q hq

/-! ### `shiftOffsets` -/

theorem HashT.shiftOffsets_inputLen (h : HashT) (delta : Nat) :
    (h.shiftOffsets delta).inputLen = h.inputLen := by
  unfold HashT.shiftOffsets; split <;> rfl

theorem HashT.shiftOffsets_hashBits (h : HashT) (delta : Nat) :
    (h.shiftOffsets delta).hashBits = h.hashBits := by
  unfold HashT.shiftOffsets; split <;> rfl

theorem HashT.slot_shiftOffsets (h : HashT) (delta : Nat) (hd : delta ≠ 0) (x : UInt64) :
    (h.shiftOffsets delta).slot x =
      if (h.slot x).1 < delta then (0, 0) else ((h.slot x).1 - delta, (h.slot x).2) := by
  unfold HashT.shiftOffsets
  rw [if_neg hd]
  unfold HashT.slot
  simp only
  rw [Array.getD_eq_getD_getElem?, Array.getElem?_map, Array.getD_eq_getD_getElem?]
  cases h.tbl[hashValue x h.hashBits]? with
  | none =>
    simp only [Option.map_none, Option.getD_none]
    rw [if_pos (by omega)]
  | some e => simp only [Option.map_some, Option.getD_some]

theorem HashT.Fresh.shift {h : HashT} {data : List Byte} {w : Nat} (hf : h.Fresh data w)
    (delta : Nat) (hd : delta ≠ 0) (hdw : delta ≤ w) :
    (h.shiftOffsets delta).Fresh (data.drop delta) (w - delta) := by
  intro q hq
  rw [HashT.shiftOffsets_inputLen] at hq
  have hk : (h.shiftOffsets delta).key (data.drop delta) q = h.key data (delta + q) := by
    rw [← key_drop]
    unfold HashT.key
    rw [HashT.shiftOffsets_inputLen]
  have := hf (delta + q) (by omega)
  rw [hk, HashT.slot_shiftOffsets h delta hd, if_neg (by omega)]
  simp only
  omega

/-! ### `clear` -/

theorem HashT.clear_inputLen (h : HashT) : h.clear.inputLen = h.inputLen := rfl

/-! ### `Parse(nil)` -/

theorem processSegment1_fresh (h : HashT) (data : List Byte) (w n : Nat) (hs : h.SizeOK)
    (hil : 1 ≤ h.inputLen) (hf : h.Fresh data w) (hwn : w + n ≤ data.length) :
    (processSegment1 h data ((w : Int) - h.inputLen + 1) ((w + n : Nat) : Int)).Fresh data (w + n) := by
  apply HashT.Cov.fresh
  rw [processSegment1_inputLen]
  exact processSegment1_cov h data w _ _ hs hf.cov (by omega) (by omega)

/-! ### `Parse`: the probe keeps the coverage -/

theorem hpProbe_inputLen (ws mm ie : Nat) (back : Bool) (h : HashT) (p : List Byte) (i li : Nat) :
    (hpProbe ws mm ie back h p i li).1.inputLen = h.inputLen := by
  rw [hpProbe_eq]
  split
  · exact HashT.insertRange_inputLen _ _ _ _
  · rfl

/-- the dictionary invariant of the HP / BHP loop at loop position `a` -/
def HpC (il : Nat) (p : List Byte) (d : HashT) (a : Nat) : Prop :=
  d.SizeOK ∧ d.inputLen = il ∧ d.Cov p a

/-- after the greedy loop of HP / BHP every position below `inputEnd` is covered -/
theorem hp_loop_cov (ws mm ie : Nat) (back : Bool) (hmm : 1 ≤ mm) (p : List Byte) (il : Nat)
    (st : LoopSt HashT) (hli : st.litIndex ≤ st.i) (hC : HpC il p st.dict (min st.i ie)) :
    HpC il p (greedyLoop ⟨hpProbe ws mm ie back⟩ p ie st).dict ie := by
  apply greedyLoop_cov ⟨hpProbe ws mm ie back⟩ p ie (HpC il p) ?_ ?_ st hli hC
  · intro d i li d' hli hlt ⟨c1, c2, c3⟩ hp
    have h1 := (hpProbe_cov ws mm ie back hmm d p i li hli c1 c3).1 d' hp
    have h2 := hpProbe_inputLen ws mm ie back d p i li
    rw [show hpProbe ws mm ie back d p i li = (d', none) from hp] at h2
    exact ⟨h1.1, by rw [h2]; exact c2, h1.2⟩
  · intro d i li d' s k o hli hlt ⟨c1, c2, c3⟩ hp
    have h1 := (hpProbe_cov ws mm ie back hmm d p i li hli c1 c3).2 d' s k o hp
    have h2 := hpProbe_inputLen ws mm ie back d p i li
    rw [show hpProbe ws mm ie back d p i li = (d', some (s, k, o)) from hp] at h2
    exact ⟨h1.1, h1.2.1, by rw [h2]; exact c2, h1.2.2⟩

namespace Parser

theorem runGreedy_w {δ} (F : Finder δ) (d : δ) (p : List Byte) (w stop flags : Nat) :
    (runGreedy F d p w stop flags).2.1 =
      (finishBlock p flags (greedyLoop F p stop { dict := d, i := w, litIndex := w, seqs := [], lits := [] })).1 :=
  rfl

theorem runGreedy_w_even {δ} (F : Finder δ) (d : δ) (p : List Byte) (w stop flags : Nat)
    (hf : flags % 2 = 0) : (runGreedy F d p w stop flags).2.1 = p.length := by
  rw [runGreedy_w]; unfold finishBlock; rw [if_neg (by omega)]

/-- `Parse` of HP / BHP keeps the freshness invariant (any flags, any data) -/
theorem parse_single_fresh (s : Parser) (flags : Nat) (h : HashT) (hd : s.dict = .single h)
    (hs : h.SizeOK) (hf : h.Fresh s.buf.data s.buf.w)
    (hw : s.buf.w ≤ s.buf.data.length) (hn : s.blockN ≠ 0) (hm : s.MarginOK) (hmm : 1 ≤ s.minMatch) :
    ∃ h', (s.parse flags).1.dict = .single h' ∧ h'.SizeOK ∧ h'.inputLen = h.inputLen ∧
      h'.Fresh s.buf.data (s.parse flags).1.buf.w := by
  rw [parse_single s flags h hd hn hm]
  simp only []
  have hl := s.blockPrefix_length hw
  have hN := s.blockN_le
  have hil1 := processSegment1_inputLen h s.buf.data ((s.buf.w : Int) - h.inputLen + 1) s.buf.w
  generalize hh1 : processSegment1 h s.buf.data ((s.buf.w : Int) - h.inputLen + 1) s.buf.w = h1 at hil1
  have hs1 : h1.SizeOK := by rw [← hh1]; exact sizeOK_processSegment1 hs _ _ _
  generalize hie : s.blockPrefix.length + 1 - h1.inputLen = ie
  -- coverage at loop entry
  have hc1 : h1.Cov s.blockPrefix (min s.buf.w ie) := by
    have hc := processSegment1_cov h s.buf.data s.buf.w (s.buf.w : Int) (min s.buf.w ie) hs hf.cov
      (by omega) (by omega)
    rw [hh1] at hc
    apply hc.congr
    intro q hq
    unfold blockPrefix
    exact key_take h1 s.buf.data _ q (by omega)
  have hv := hpProbe_verifying s.buf.cfg.windowSize s.minMatch ie (s.kind == .BHP) s.blockPrefix
  have hblk := runGreedy_ok ⟨hpProbe s.buf.cfg.windowSize s.minMatch ie (s.kind == .BHP)⟩ h1 s.blockPrefix
    s.buf.cfg.windowSize s.minMatch s.buf.w ie flags _ (hv.probeOK hmm) (hv.probeSeq hmm) (by omega)
  have hle := hblk.le_len
  have hfin := hp_loop_cov s.buf.cfg.windowSize s.minMatch ie (s.kind == .BHP) hmm s.blockPrefix
    h.inputLen { dict := h1, i := s.buf.w, litIndex := s.buf.w, seqs := [], lits := [] }
    (Nat.le_refl _) ⟨hs1, hil1, hc1⟩
  rw [← runGreedy_fst _ _ _ _ _ flags] at hfin
  obtain ⟨f1, f2, f3⟩ := hfin
  refine ⟨_, rfl, f1, f2, ?_⟩
  intro q hq
  rw [f2] at hq
  have := f3 q (by omega)
  have hk : (runGreedy ⟨hpProbe s.buf.cfg.windowSize s.minMatch ie (s.kind == .BHP)⟩ h1 s.blockPrefix
        s.buf.w ie flags).1.key s.blockPrefix q =
      (runGreedy ⟨hpProbe s.buf.cfg.windowSize s.minMatch ie (s.kind == .BHP)⟩ h1 s.blockPrefix
        s.buf.w ie flags).1.key s.buf.data q :=
    key_take _ s.buf.data (s.buf.w + s.blockN) q (by rw [f2]; omega)
  rw [hk] at this
  exact this

end Parser

end LZ
