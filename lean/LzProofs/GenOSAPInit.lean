/-
  LzProofs.GenOSAPInit — the translated `(*optSuffixArrayParser).resetEdges`, `Reset`, `Shrink` and `init` of osap.go
  (topic OSAPInit of tools/extract; LzModel/Generated/CodeOSAPInit.lean) against the buffer model (`PBuf.reset`,
  `PBuf.shrink`, `PBuf.init`: GenBufPropsP) and the model dictionary `OsapD` (LzModel/Sap.lean): `resetEdges` leaves
  `OsapD.empty`, as `Parser.reset` / `Parser.shrink` / `newParser .OSAP` do (LzModel/Parser.lean).  The exact analogue of
  GenGSAPInit.lean.  Nothing is opaque here.

    gen_osap_resetEdges  resetEdges(): never panics; edgeBuf, edges, tmp truncated (backing arrays kept), start = nEdges = 0
    gen_osap_reset       Reset(data): buffer = PBuf.reset; on success the dictionary is `OsapD.empty`, on error unchanged
    gen_osap_shrink      Shrink(): buffer = PBuf.shrink; the dictionary is emptied iff delta > 0
    gen_osap_init        init(cfg): the error paths, and on success buffer = PBuf.init, dictionary empty, cost = XZCost,
                         config stored
    osap_init_bc         after an accepted Verify the ParserBuffer.Init error path of init is dead
    gen_osap_reset_model / gen_osap_shrink_model   the same against `Parser.reset` / `Parser.shrink` on `osapOf s`
    gen_osap_init_model  init(toOSAP raw) vs `newParser .OSAP raw`; gen_osap_init_fresh for the zero receiver
    gen_osap_init_inv    the facts `init` establishes (the fields of `ParseOKO` except `MinMatchLen < 2^32`, which
                         `Verify` does not check)
  No sorry, no axioms of its own.
-/
import LzModel.Generated.CodeOSAPInit
import LzModel.Parser
import LzProofs.GenOSAPLemmas
import LzProofs.GenBufPropsP
import LzProofs.GenPropsCfgOSAP

set_option linter.unusedSimpArgs false
set_option linter.unusedVariables false

namespace LZ.GenOSAP
open LZ LZ.Gen LZ.GenBuf LZ.GenHash LZ.GenProps

/-- the model dictionary a Go `optSuffixArrayParser` stands for (the same abstraction as `ofOD` of GenOSAPParse) -/
def odOf (s : Gen.optSuffixArrayParser) : OsapD := ⟨edgesAbs s.edges, s.start.toNat, s.nEdges.toNat⟩

/-- `x[:0]` on any slice: no panic, no elements, the backing array kept -/
theorem gtrunc0 {α : Type} (x : GSlice α) :
    GSlice.slice x 0 (0 : Int) = Res.ok { arr := x.arr, len := 0 } ∧ GWF ({ arr := x.arr, len := 0 } : GSlice α) :=
  ⟨gslice_ok x 0 (0 : Int) 0 0 rfl rfl (Nat.le_refl 0) (Nat.zero_le _), by unfold GWF; exact Nat.zero_le _⟩

/-- `x[:0]` evaluates (the first part of `gtrunc0` as a rewrite rule) -/
theorem gtrunc0_eq {α : Type} (x : GSlice α) :
    GSlice.slice x 0 (0 : Int) = Res.ok { arr := x.arr, len := 0 } := (gtrunc0 x).1

/-- decide the FIRST `if` of the goal from the context by omega, whatever the spelling of its test and whichever arm -/
local macro "oi_ite" : tactic => `(tactic| first | rw [if_pos (by omega)] | rw [if_neg (by omega)])

/-- an edge table of length 0 is the empty table -/
theorem edgesAbs_len0 (es : GSlice (GSlice Gen.edge)) (h : es.len = 0) : edgesAbs es = #[] := by
  unfold edgesAbs GSlice.data
  rw [h]
  rfl

theorem odOf_empty (s : Gen.optSuffixArrayParser) (he : s.edges.len = 0) (hs : s.start = 0) (hn : s.nEdges = 0) :
    odOf s = OsapD.empty := by
  unfold odOf OsapD.empty
  rw [edgesAbs_len0 _ he, hs, hn]
  rfl

/-- what `resetEdges()` leaves behind: the empty dictionary; `edgeBuf`, `edges`, `tmp` truncated to length 0 with
    their backing arrays (and so their capacities) kept -/
structure EdgesReset (s s' : Gen.optSuffixArrayParser) : Prop where
  od : odOf s' = OsapD.empty
  start : s'.start = 0
  nEdges : s'.nEdges = 0
  lbuf : s'.edgeBuf.len = 0
  ledges : s'.edges.len = 0
  ltmp : s'.tmp.len = 0
  abuf : s'.edgeBuf.arr = s.edgeBuf.arr
  aedges : s'.edges.arr = s.edges.arr
  atmp : s'.tmp.arr = s.tmp.arr
  wbuf : GWF s'.edgeBuf
  wedges : GWF s'.edges
  wtmp : GWF s'.tmp

/-- the five fields `resetEdges()` writes are untouched -/
structure EdgesKept (s s' : Gen.optSuffixArrayParser) : Prop where
  buf : s'.edgeBuf = s.edgeBuf
  edges : s'.edges = s.edges
  start : s'.start = s.start
  nEdges : s'.nEdges = s.nEdges
  tmp : s'.tmp = s.tmp

theorem EdgesKept.od {s s' : Gen.optSuffixArrayParser} (h : EdgesKept s s') : odOf s' = odOf s := by
  unfold odOf
  rw [h.edges, h.start, h.nEdges]

/-- **`resetEdges()`**: `s.edgeBuf = s.edgeBuf[:0]; s.edges = s.edges[:0]; s.start = 0; s.nEdges = 0; s.tmp = s.tmp[:0]` -/
theorem gen_osap_resetEdges (s : Gen.optSuffixArrayParser) :
    ∃ s', optSuffixArrayParser_resetEdges s = Res.ok s' ∧
      s'.ParserBuffer = s.ParserBuffer ∧ s'.cost = s.cost ∧ s'.OSAPConfig = s.OSAPConfig ∧
      EdgesReset s s' := by
  refine ⟨⟨s.ParserBuffer, { arr := s.edgeBuf.arr, len := 0 }, { arr := s.edges.arr, len := 0 }, 0, 0,
    { arr := s.tmp.arr, len := 0 }, s.cost, s.OSAPConfig⟩, ?_, rfl, rfl, rfl,
    ⟨odOf_empty _ rfl rfl rfl, rfl, rfl, rfl, rfl, rfl, rfl, rfl, rfl,
      (gtrunc0 s.edgeBuf).2, (gtrunc0 s.edges).2, (gtrunc0 s.tmp).2⟩⟩
  -- the five statements are evaluated as they come, in whatever order the text has them (the fields are independent)
  unfold optSuffixArrayParser_resetEdges
  simp only [gtrunc0_eq, bind_ok]
  try rfl

/-- `resetEdges()` on a state whose `ParserBuffer` was just replaced -/
theorem resetEdges_pb (s : Gen.optSuffixArrayParser) (b : Gen.ParserBuffer) :
    ∃ s', optSuffixArrayParser_resetEdges { s with ParserBuffer := b } = Res.ok s' ∧
      s'.ParserBuffer = b ∧ s'.cost = s.cost ∧ s'.OSAPConfig = s.OSAPConfig ∧ EdgesReset s s' := by
  obtain ⟨s', h1, h2, h3, h4, h5⟩ := gen_osap_resetEdges { s with ParserBuffer := b }
  exact ⟨s', h1, h2, h3, h4, ⟨h5.od, h5.start, h5.nEdges, h5.lbuf, h5.ledges, h5.ltmp, h5.abuf, h5.aedges, h5.atmp,
    h5.wbuf, h5.wedges, h5.wtmp⟩⟩

/-- **`Reset(data)`** -/
theorem gen_osap_reset (s : Gen.optSuffixArrayParser) (hpb : PBWF s.ParserBuffer) (data : Slice) (hdat : SWF data) :
    ∃ s' e, optSuffixArrayParser_Reset s data = Res.ok (s', e) ∧
      ofPB s'.ParserBuffer = (PBuf.reset (ofPB s.ParserBuffer) data.data (data.cap - data.len)).1 ∧
      errOfReset e = some (PBuf.reset (ofPB s.ParserBuffer) data.data (data.cap - data.len)).2 ∧
      PBWF s'.ParserBuffer ∧ s'.OSAPConfig = s.OSAPConfig ∧ s'.cost = s.cost ∧
      (e = Gen.Err.ok → EdgesReset s s') ∧
      (e ≠ Gen.Err.ok → EdgesKept s s') := by
  obtain ⟨b', e, hb, hof, herr, hwf⟩ := gen_pbuf_reset s.ParserBuffer hpb data hdat
  -- the test on the error is decided in either spelling (`err != nil`, `nil == err`, `err == nil` with swapped arms)
  by_cases he : e = Gen.Err.ok
  · subst he
    obtain ⟨s', h1, h2, h3, h4, h5⟩ := resetEdges_pb s b'
    refine ⟨s', Gen.Err.ok, ?_, by rw [h2]; exact hof, herr, by rw [h2]; exact hwf, h4, h3,
      fun _ => h5, fun hc => absurd rfl hc⟩
    unfold optSuffixArrayParser_Reset
    rw [hb, bind_ok]
    simp only [ne_eq, eq_self, not_true_eq_false, not_false_eq_true, if_true, if_false, h1, bind_ok]
    try rfl
  · have he' : ¬ Gen.Err.ok = e := fun h => he h.symm
    refine ⟨{ s with ParserBuffer := b' }, e, ?_, hof, herr, hwf, rfl, rfl, fun hc => absurd hc he,
      fun _ => ⟨rfl, rfl, rfl, rfl, rfl⟩⟩
    unfold optSuffixArrayParser_Reset
    rw [hb, bind_ok]
    simp only [he, he', ne_eq, eq_self, not_true_eq_false, not_false_eq_true, if_true, if_false]
    try rfl

/-- **`Shrink()`** -/
theorem gen_osap_shrink (s : Gen.optSuffixArrayParser) (hpb : PBWF s.ParserBuffer)
    (hw : s.ParserBuffer.W - s.ParserBuffer.BufConfig.ShrinkSize ≤ s.ParserBuffer.Data.len) :
    ∃ s', optSuffixArrayParser_Shrink s = Res.ok (s', ((PBuf.shrink (ofPB s.ParserBuffer)).2 : Int)) ∧
      ofPB s'.ParserBuffer = (PBuf.shrink (ofPB s.ParserBuffer)).1 ∧ PBWF s'.ParserBuffer ∧
      s'.OSAPConfig = s.OSAPConfig ∧ s'.cost = s.cost ∧
      ((PBuf.shrink (ofPB s.ParserBuffer)).2 > 0 → EdgesReset s s') ∧
      ((PBuf.shrink (ofPB s.ParserBuffer)).2 = 0 → EdgesKept s s') := by
  obtain ⟨b', hb, hof, hwf⟩ := gen_pbuf_shrink s.ParserBuffer hpb hw
  generalize (PBuf.shrink (ofPB s.ParserBuffer)).2 = d at hb ⊢
  -- the test on `delta` is decided by omega in whatever spelling / arm order (`oi_ite`)
  by_cases hd : d > 0
  · obtain ⟨s', h1, h2, h3, h4, h5⟩ := resetEdges_pb s b'
    refine ⟨s', ?_, by rw [h2]; exact hof, by rw [h2]; exact hwf, h4, h3, fun _ => h5, fun hc => by omega⟩
    unfold optSuffixArrayParser_Shrink
    rw [hb, bind_ok]
    try dsimp only
    oi_ite
    simp only [h1, bind_ok]
    try rfl
  · refine ⟨{ s with ParserBuffer := b' }, ?_, hof, hwf, rfl, rfl, fun hc => absurd hc hd,
      fun _ => ⟨rfl, rfl, rfl, rfl, rfl⟩⟩
    unfold optSuffixArrayParser_Shrink
    rw [hb, bind_ok]
    try dsimp only
    oi_ite
    try simp only [bind_ok]
    try rfl

/-! ## `init` -/

/-- `bufferConfig(&cfg)` after `cfg.SetDefaults()` is `BufConfig.SetDefaults` of the buffer fields of `cfg` -/
theorem osap_defaults_buf (cfg : Gen.OSAPConfig) :
    (⟨(OSAPConfig_SetDefaults cfg).ShrinkSize, (OSAPConfig_SetDefaults cfg).BufferSize,
      (OSAPConfig_SetDefaults cfg).WindowSize, (OSAPConfig_SetDefaults cfg).BlockSize⟩ : Gen.BufConfig) =
      BufConfig_SetDefaults ⟨cfg.ShrinkSize, cfg.BufferSize, cfg.WindowSize, cfg.BlockSize⟩ := by
  rw [gen_bufDefaults']
  have h := gen_setDefaults_OSAP cfg
  have h1 : (OSAPConfig_SetDefaults cfg).ShrinkSize = _ := congrArg Cfg.shrinkSize h
  have h2 : (OSAPConfig_SetDefaults cfg).BufferSize = _ := congrArg Cfg.bufferSize h
  have h3 : (OSAPConfig_SetDefaults cfg).WindowSize = _ := congrArg Cfg.windowSize h
  have h4 : (OSAPConfig_SetDefaults cfg).BlockSize = _ := congrArg Cfg.blockSize h
  rw [h1, h2, h3, h4]
  rfl

/-- `BufConfig.SetDefaults` is idempotent -/
theorem bufDefaults_idem' (c : Gen.BufConfig) :
    BufConfig_SetDefaults (BufConfig_SetDefaults c) = BufConfig_SetDefaults c := by
  obtain ⟨ss, bs, ws, bl⟩ := c
  simp only [Gen.BufConfig_SetDefaults, Gen.BufConfig.mk.injEq]
  grind

/-- what an accepted `OSAPConfig` says: the buffer part is accepted, the cost function is `XZCost` -/
theorem osap_verify_parts (c : Gen.OSAPConfig) (h : OSAPConfig_Verify c = Gen.Err.ok) :
    BufConfig_Verify ⟨c.ShrinkSize, c.BufferSize, c.WindowSize, c.BlockSize⟩ = Gen.Err.ok ∧ c.Cost = "XZCost" ∧
      2 ≤ c.MinMatchLen ∧ c.MinMatchLen ≤ c.MaxMatchLen ∧ c.BufferSize ≤ 2147483647 := by
  -- through the tie `gen_verify_OSAP` and the model's `verify`: the text of `OSAPConfig.Verify` is not looked at here
  have hv := (gen_verify_OSAP c).mp h
  simp only [verify, Bool.and_eq_true, decide_eq_true_eq] at hv
  obtain ⟨⟨⟨hb, hm⟩, hc⟩, hs⟩ := hv
  exact ⟨(gen_bufVerify _).mpr hb, hc, hm.1, hm.2, hs⟩

/-- after an accepted `cfg.Verify()` the call `s.ParserBuffer.Init(bufferConfig(&cfg))` cannot fail: its own
    `SetDefaults` changes nothing and its `Verify` is the one already passed -/
theorem osap_init_bc (cfg : Gen.OSAPConfig) (h : OSAPConfig_Verify (OSAPConfig_SetDefaults cfg) = Gen.Err.ok) :
    let c := OSAPConfig_SetDefaults cfg
    BufConfig_SetDefaults ⟨c.ShrinkSize, c.BufferSize, c.WindowSize, c.BlockSize⟩ =
        ⟨c.ShrinkSize, c.BufferSize, c.WindowSize, c.BlockSize⟩ ∧
      BufConfig_Verify (BufConfig_SetDefaults ⟨c.ShrinkSize, c.BufferSize, c.WindowSize, c.BlockSize⟩) = Gen.Err.ok := by
  intro c
  have hi : BufConfig_SetDefaults ⟨c.ShrinkSize, c.BufferSize, c.WindowSize, c.BlockSize⟩ =
      ⟨c.ShrinkSize, c.BufferSize, c.WindowSize, c.BlockSize⟩ := by
    show BufConfig_SetDefaults ⟨(OSAPConfig_SetDefaults cfg).ShrinkSize, (OSAPConfig_SetDefaults cfg).BufferSize,
      (OSAPConfig_SetDefaults cfg).WindowSize, (OSAPConfig_SetDefaults cfg).BlockSize⟩ = _
    rw [osap_defaults_buf, bufDefaults_idem']
  exact ⟨hi, by rw [hi]; exact (osap_verify_parts c h).1⟩

/-- **`init(cfg)`**: the parser configuration (defaults completed) is rejected ⇒ that error, parser unchanged;
    accepted but `ParserBuffer.Init` fails (dead: `osap_init_bc`) ⇒ that error, parser unchanged; both accepted ⇒ `nil`,
    the buffer is `PBuf.init` of the buffer configuration, the dictionary is empty, `cost` is `XZCost`, the
    defaults-completed configuration is stored. -/
theorem gen_osap_init (s : Gen.optSuffixArrayParser) (cfg : Gen.OSAPConfig) :
    let c := OSAPConfig_SetDefaults cfg
    let bc : Gen.BufConfig := ⟨c.ShrinkSize, c.BufferSize, c.WindowSize, c.BlockSize⟩
    (OSAPConfig_Verify c ≠ Gen.Err.ok → optSuffixArrayParser_init s cfg = Res.ok (s, OSAPConfig_Verify c)) ∧
    (OSAPConfig_Verify c = Gen.Err.ok →
      (BufConfig_Verify (BufConfig_SetDefaults bc) ≠ Gen.Err.ok →
        optSuffixArrayParser_init s cfg = Res.ok (s, BufConfig_Verify (BufConfig_SetDefaults bc))) ∧
      (BufConfig_Verify (BufConfig_SetDefaults bc) = Gen.Err.ok →
        ∃ s', optSuffixArrayParser_init s cfg = Res.ok (s', Gen.Err.ok) ∧
          ofPB s'.ParserBuffer =
            { PBuf.init (ofCfg (BufConfig_SetDefaults bc)) with cap := s.ParserBuffer.Data.cap } ∧
          PBWF s'.ParserBuffer ∧ s'.OSAPConfig = c ∧ s'.cost = 1 ∧ EdgesReset s s')) := by
  intro c bc
  obtain ⟨hbad, hgood⟩ := gen_pbuf_init s.ParserBuffer bc
  refine ⟨fun hne => ?_, fun hok => ⟨fun hne => ?_, fun hok2 => ?_⟩⟩
  · -- the tests on the two errors are decided in either spelling / arm order
    have hne0 : ¬ OSAPConfig_Verify (OSAPConfig_SetDefaults cfg) = Gen.Err.ok := hne
    have hne0' : ¬ Gen.Err.ok = OSAPConfig_Verify (OSAPConfig_SetDefaults cfg) := fun h => hne h.symm
    unfold optSuffixArrayParser_init
    simp only []
    simp only [hne0, hne0', ne_eq, eq_self, not_true_eq_false, not_false_eq_true, if_true, if_false]
    try rfl
  · have hk0 : OSAPConfig_Verify (OSAPConfig_SetDefaults cfg) = Gen.Err.ok := hok
    have hne' : ¬ Gen.Err.ok = BufConfig_Verify (BufConfig_SetDefaults bc) := fun h => hne h.symm
    unfold optSuffixArrayParser_init
    simp only []
    simp only [hk0, ne_eq, eq_self, not_true_eq_false, not_false_eq_true, if_true, if_false]
    rw [hbad hne, bind_ok]
    simp only [hne, hne', ne_eq, eq_self, not_true_eq_false, not_false_eq_true, if_true, if_false]
    try rfl
  · obtain ⟨b', hb, hof, hwf⟩ := hgood hok2
    obtain ⟨s', h1, h2, h3, h4, h5⟩ := resetEdges_pb s b'
    have hcost : (OSAPConfig_SetDefaults cfg).Cost = "XZCost" := (osap_verify_parts c hok).2.1
    refine ⟨{ s' with cost := 1, OSAPConfig := c }, ?_, by rw [← h2] at hof; exact hof, by rw [← h2] at hwf; exact hwf,
      rfl, rfl, ⟨odOf_empty _ h5.ledges h5.start h5.nEdges, h5.start, h5.nEdges, h5.lbuf, h5.ledges, h5.ltmp, h5.abuf,
        h5.aedges, h5.atmp, h5.wbuf, h5.wedges, h5.wtmp⟩⟩
    have hk0 : OSAPConfig_Verify (OSAPConfig_SetDefaults cfg) = Gen.Err.ok := hok
    unfold optSuffixArrayParser_init
    simp only []
    simp only [hk0, ne_eq, eq_self, not_true_eq_false, not_false_eq_true, if_true, if_false]
    rw [hb, bind_ok]
    simp only [ne_eq, eq_self, not_true_eq_false, not_false_eq_true, if_true, if_false, h1, bind_ok, hcost]
    try rfl

/-! ## the model parser (`LzModel/Parser.lean`): `newParser .OSAP`, `Parser.reset`, `Parser.shrink` -/

/-- the model parser state a Go `optSuffixArrayParser` stands for (the same as `ofOSAPs` of GenOSAPParseLemmas) -/
def osapOf (s : Gen.optSuffixArrayParser) : Parser :=
  ⟨.OSAP, ofOSAP s.OSAPConfig, ofPB s.ParserBuffer, .osap (odOf s)⟩

theorem oi_pbuf_reset_err (b : PBuf) (d : List Byte) (c : Nat) (h : (PBuf.reset b d c).2 ≠ .ok) :
    (PBuf.reset b d c).1 = b := by
  unfold PBuf.reset at h ⊢
  by_cases h1 : d.length > b.cfg.bufferSize
  · simp only [h1, if_true]
  · exfalso; apply h
    simp only [h1, if_false]
    (repeat' split) <;> rfl

theorem oi_errOfReset_ok_iff (e : Gen.Err) (m : LZ.Err) (h : errOfReset e = some m) : e = Gen.Err.ok ↔ m = .ok := by
  unfold errOfReset at h
  split at h
  · rename_i h1; simp only [Option.some.injEq] at h; subst h; simp [h1]
  · rename_i h1; split at h
    · simp only [Option.some.injEq] at h; subst h; simp [h1]
    · simp at h

/-- **`Reset(data)` vs `Parser.reset`** -/
theorem gen_osap_reset_model (s : Gen.optSuffixArrayParser) (hpb : PBWF s.ParserBuffer) (data : Slice)
    (hdat : SWF data) :
    ∃ s' e, optSuffixArrayParser_Reset s data = Res.ok (s', e) ∧
      osapOf s' = (Parser.reset (osapOf s) data.data (data.cap - data.len)).1 ∧
      errOfReset e = some (Parser.reset (osapOf s) data.data (data.cap - data.len)).2 ∧
      PBWF s'.ParserBuffer ∧ s'.cost = s.cost ∧
      (e = Gen.Err.ok → EdgesReset s s') ∧ (e ≠ Gen.Err.ok → EdgesKept s s') := by
  obtain ⟨s', e, h1, hof, herr, hwf, hcfg, hcost, hr1, hr2⟩ := gen_osap_reset s hpb data hdat
  have hiff := oi_errOfReset_ok_iff e _ herr
  rcases hr : PBuf.reset (ofPB s.ParserBuffer) data.data (data.cap - data.len) with ⟨rb, re⟩
  rw [hr] at hof herr hiff
  have hpr : Parser.reset (osapOf s) data.data (data.cap - data.len) =
      if re = .ok then ({ osapOf s with buf := rb, dict := .osap OsapD.empty }, re) else (osapOf s, re) := by
    simp only [Parser.reset, osapOf, hr, Parser.clearDict]
  rw [hpr]
  refine ⟨s', e, h1, ?_, ?_, hwf, hcost, hr1, hr2⟩
  · by_cases he : e = Gen.Err.ok
    · have hre : re = .ok := hiff.mp he
      simp only [hre, if_true]
      simp only [osapOf, hof, hcfg, (hr1 he).od]
    · have hre : re ≠ .ok := fun c => he (hiff.mpr c)
      simp only [hre, if_false]
      have : rb = ofPB s.ParserBuffer := by
        have := oi_pbuf_reset_err (ofPB s.ParserBuffer) data.data (data.cap - data.len) (by rw [hr]; exact hre)
        rw [hr] at this; exact this
      simp only [osapOf, hof, hcfg, (hr2 he).od, this]
  · by_cases hre : re = .ok
    · simp only [hre, if_true]; rw [← hre]; exact herr
    · simp only [hre, if_false]; exact herr

/-- **`Shrink()` vs `Parser.shrink`** -/
theorem gen_osap_shrink_model (s : Gen.optSuffixArrayParser) (hpb : PBWF s.ParserBuffer)
    (hw : s.ParserBuffer.W - s.ParserBuffer.BufConfig.ShrinkSize ≤ s.ParserBuffer.Data.len) :
    ∃ s', optSuffixArrayParser_Shrink s = Res.ok (s', ((Parser.shrink (osapOf s)).2 : Int)) ∧
      osapOf s' = (Parser.shrink (osapOf s)).1 ∧ PBWF s'.ParserBuffer ∧ s'.cost = s.cost ∧
      ((Parser.shrink (osapOf s)).2 > 0 → EdgesReset s s') ∧
      ((Parser.shrink (osapOf s)).2 = 0 → EdgesKept s s') := by
  obtain ⟨s', h1, hof, hwf, hcfg, hcost, hr1, hr2⟩ := gen_osap_shrink s hpb hw
  rcases hr : PBuf.shrink (ofPB s.ParserBuffer) with ⟨rb, d⟩
  rw [hr] at h1 hof hr1 hr2
  have hps : Parser.shrink (osapOf s) =
      if d = 0 then (osapOf s, 0) else ({ osapOf s with buf := rb, dict := .osap OsapD.empty }, d) := by
    simp only [Parser.shrink, osapOf, hr]
  rw [hps]
  by_cases hd : d = 0
  · subst hd
    have hrb : rb = ofPB s.ParserBuffer := by
      have e : rb = (PBuf.shrink (ofPB s.ParserBuffer)).1 := by rw [hr]
      have e2 : (PBuf.shrink (ofPB s.ParserBuffer)).2 = 0 := by rw [hr]
      rw [e]; unfold PBuf.shrink at e2 ⊢
      split
      · rfl
      · rename_i hn; rw [if_neg hn] at e2; simp only at e2; omega
    rw [if_pos rfl]
    refine ⟨s', h1, ?_, hwf, hcost, hr1, hr2⟩
    simp only [osapOf, hof, hcfg, (hr2 rfl).od, hrb]
  · rw [if_neg hd]
    refine ⟨s', h1, ?_, hwf, hcost, hr1, hr2⟩
    simp only [osapOf, hof, hcfg, (hr1 (by show d > 0; omega)).od]

/-- **`init(cfg)` vs `newParser .OSAP`**: `raw` is the configuration as the model sees it (`toOSAP raw` the Go struct
    with the fields of `raw` that OSAPConfig has).  Rejected ⇒ an error, the receiver unchanged; accepted ⇒ the model's
    fresh parser (with the capacity of the receiver's old buffer), `cost` is `XZCost`. -/
theorem gen_osap_init_model (s : Gen.optSuffixArrayParser) (raw : Cfg) :
    match newParser .OSAP raw with
    | none => ∃ e, optSuffixArrayParser_init s (toOSAP raw) = Res.ok (s, e) ∧ e ≠ Gen.Err.ok
    | some p => ∃ s', optSuffixArrayParser_init s (toOSAP raw) = Res.ok (s', Gen.Err.ok) ∧
        osapOf s' = { p with buf := { p.buf with cap := s.ParserBuffer.Data.cap } } ∧
        PBWF s'.ParserBuffer ∧ s'.cost = 1 ∧ EdgesReset s s' := by
  have hc : ofOSAP (OSAPConfig_SetDefaults (toOSAP raw)) = setDefaults .OSAP (raw.restrict .OSAP) := by
    rw [gen_setDefaults_OSAP, ofOSAP_toOSAP]
  have hv := gen_verify_OSAP (OSAPConfig_SetDefaults (toOSAP raw))
  rw [hc] at hv
  obtain ⟨hbad, hgood⟩ := gen_osap_init s (toOSAP raw)
  unfold newParser
  simp only []
  by_cases hok : OSAPConfig_Verify (OSAPConfig_SetDefaults (toOSAP raw)) = Gen.Err.ok
  · have hvm : verify .OSAP (setDefaults .OSAP (raw.restrict .OSAP)) = true := hv.mp hok
    simp only [hvm, if_true]
    obtain ⟨hi, hvb⟩ := osap_init_bc (toOSAP raw) hok
    obtain ⟨s', h1, hof, hwf, hcfg, hcost, hr⟩ := (hgood hok).2 hvb
    refine ⟨s', h1, ?_, hwf, hcost, hr⟩
    rw [hi] at hof
    simp only [osapOf, hof, hcfg, hr.od, freshDict, ← hc]
    rfl
  · have hvm : ¬ verify .OSAP (setDefaults .OSAP (raw.restrict .OSAP)) = true := fun c => hok (hv.mpr c)
    simp only [hvm, if_false]
    exact ⟨_, hbad hok, hok⟩

/-- … for the receiver `new(optSuffixArrayParser)` (all fields zero): exactly the model's fresh parser -/
theorem gen_osap_init_fresh (raw : Cfg) (p : Parser) (hp : newParser .OSAP raw = some p) :
    ∃ s', optSuffixArrayParser_init default (toOSAP raw) = Res.ok (s', Gen.Err.ok) ∧ osapOf s' = p ∧
      PBWF s'.ParserBuffer ∧ s'.cost = 1 ∧ EdgesReset default s' := by
  have := gen_osap_init_model default raw
  rw [hp] at this
  obtain ⟨s', h1, h2, h3⟩ := this
  refine ⟨s', h1, ?_, h3⟩
  rw [h2]
  unfold newParser at hp
  simp only [] at hp
  split at hp
  · simp only [Option.some.injEq] at hp
    subst hp; rfl
  · exact absurd hp (by simp)

/-- **what `init` establishes** (the representation invariant `ParseOKO` of GenOSAPParseLemmas, field by field — except
    its `mm32 : MinMatchLen < 2^32`, which `Verify` does NOT guarantee: it only checks `2 ≤ MinMatchLen ≤ MaxMatchLen`).
    Every accepted configuration, every receiver. -/
theorem gen_osap_init_inv (s : Gen.optSuffixArrayParser) (cfg : Gen.OSAPConfig)
    (hok : OSAPConfig_Verify (OSAPConfig_SetDefaults cfg) = Gen.Err.ok) :
    ∃ s', optSuffixArrayParser_init s cfg = Res.ok (s', Gen.Err.ok) ∧
      s'.OSAPConfig = OSAPConfig_SetDefaults cfg ∧
      PBWF s'.ParserBuffer ∧ GWF s'.edges ∧ s'.edges.data = [] ∧ GWF s'.tmp ∧ s'.cost = 1 ∧
      s'.start = 0 ∧ s'.nEdges = 0 ∧ s'.ParserBuffer.W = 0 ∧ s'.ParserBuffer.Data.len = 0 ∧
      s'.OSAPConfig.BlockSize.toNat = s'.ParserBuffer.BufConfig.BlockSize.toNat ∧ 1 ≤ s'.OSAPConfig.BlockSize ∧
      s'.OSAPConfig.WindowSize.toNat = s'.ParserBuffer.BufConfig.WindowSize.toNat ∧ 0 ≤ s'.OSAPConfig.WindowSize ∧
      2 ≤ s'.OSAPConfig.MinMatchLen ∧ s'.OSAPConfig.MinMatchLen ≤ s'.OSAPConfig.MaxMatchLen ∧
      s'.OSAPConfig.BufferSize ≤ 2147483647 ∧ s'.OSAPConfig.Cost = "XZCost" := by
  obtain ⟨hi, hvb⟩ := osap_init_bc cfg hok
  obtain ⟨s', h1, hof, hwf, hcfg, hcost, hr⟩ := ((gen_osap_init s cfg).2 hok).2 hvb
  rw [hi] at hof
  obtain ⟨hvb', hxz, hm2, hmm, hbs⟩ := osap_verify_parts _ hok
  have hbv := (bufVerify_iff _).mp ((gen_bufVerify _).mp hvb')
  simp only [ofBuf] at hbv
  have hw : s'.ParserBuffer.W.toNat = 0 := congrArg PBuf.w hof
  have hd : s'.ParserBuffer.Data.data = [] := congrArg PBuf.data hof
  have hc : ofCfg s'.ParserBuffer.BufConfig = ofCfg _ := congrArg PBuf.cfg hof
  have hbl : s'.ParserBuffer.BufConfig.BlockSize.toNat = _ := congrArg BufCfg.blockSize hc
  have hws : s'.ParserBuffer.BufConfig.WindowSize.toNat = _ := congrArg BufCfg.windowSize hc
  have hw0 := hwf.w
  have hdl := data_length hwf.data
  rw [hd] at hdl
  refine ⟨s', h1, hcfg, hwf, hr.wedges, ?_, hr.wtmp, hcost, hr.start, hr.nEdges, by omega, hdl.symm, ?_, ?_, ?_, ?_,
    ?_, ?_, ?_, ?_⟩
  · unfold GSlice.data; rw [hr.ledges]; rfl
  all_goals rw [hcfg]
  · exact hbl.symm
  · exact hbv.2.2.2.1
  · exact hws.symm
  · exact hbv.2.2.1.1
  · exact hm2
  · exact hmm
  · exact hbs
  · exact hxz

end LZ.GenOSAP

#print axioms LZ.GenOSAP.gen_osap_resetEdges
#print axioms LZ.GenOSAP.gen_osap_reset
#print axioms LZ.GenOSAP.gen_osap_shrink
#print axioms LZ.GenOSAP.osap_init_bc
#print axioms LZ.GenOSAP.gen_osap_init
#print axioms LZ.GenOSAP.gen_osap_reset_model
#print axioms LZ.GenOSAP.gen_osap_shrink_model
#print axioms LZ.GenOSAP.gen_osap_init_model
#print axioms LZ.GenOSAP.gen_osap_init_fresh
#print axioms LZ.GenOSAP.gen_osap_init_inv
