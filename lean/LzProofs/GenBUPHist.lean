/-
  LzProofs.GenBUPHist — `ParseOKU` (GenBUPParse) as an INVARIANT of the translated operations of the bucket parser BUP,
  operation by operation (port of LzProofs/GenHPHist.lean + GenHPHistRF.lean).  No sorry, no axioms of its own.

  Subject: the functions `tools/extract` regenerates from the Go text
      bup.go             bucketParser.init / Parse            Gen.bucketParser_init / _Parse   (CodeBucketInit, CodeBUPParse)
      bucket_hash.go     bucketDictionary.Reset               Gen.bucketDictionary_Reset       (CodeBucketDict)
      parser_buffer.go   ParserBuffer.Write / ReadFrom        Gen.ParserBuffer_Write / _ReadFrom (CodePBuf, CodePBufReadFrom)
  `Write`, `ReadFrom`, `Reset` of a `*bucketParser` are the PROMOTED methods of the embedded `bucketDictionary` /
  `ParserBuffer` (bup.go declares only `init`, `Parse`, `ParserConfig`): `bup_Write`, `bup_ReadFrom`, `bup_Reset` below
  are the translated function on the embedded field followed by a record update.
  `bucketDictionary.Shrink` / `bucketHash.shiftOffsets` are NOT translated (sub-slices that alias the table and are
  written through); THERE IS NO SHRINK OPERATION HERE.  `lcp` (bytes.go) is an opaque callee of the translated `Parse`
  under `LcpSpec lcp` (GenBUPParseLemmas), an explicit hypothesis of everything that runs `Parse`.

  Invariant `HistOKU bc t` on the GENERATED state `t : Gen.bucketParser`: `ParseOKU t`, the buffer configuration is
  `bc`, `len(Data) ≤ BufferSize`, the capacity invariant `CapOK` (empty or 7 spare bytes), `InputLen ≤ 8`.
  `BCOK bc` (GenHPHist): `BufferSize, WindowSize ≤ 2^32 - 8` (what `BufConfig.Verify` enforces).

  Results (each for every growth policy of `append`, every state with `HistOKU`):
    hist_write     `bup_Write` does not panic, returns the model's `(n, err)`, abstracts to `Parser.write`, keeps `HistOKU`
    hist_reset     `bup_Reset`  …  `Parser.reset`     for every Go slice `data` (`len ≤ cap`)
    hist_readFrom  `bup_ReadFrom RF` … `Parser.readFrom` for every `RF` with `GenHPHist.RFSpec RF` — in particular the
                   TRANSLATED `ReadFrom` run against the scripted reader, `GenHPHist.rfGo extra` (`rfGo_spec`)
    hist_parse     `bucketParser_Parse` … `Parser.parse` for `flags ≥ 0`, `fuel ≥ len(Data) + 3`, `LcpSpec lcp`; the block
                   returned ABSTRACTS (`ofBlock`) to the model's block
    hist_init      `bucketParser.init` on `new(bucketParser)` with an accepted configuration establishes `HistOKU`
  A remark on the tie: the conclusion of `gen_bup_reset` (GenHashPropsDict2) speaks about the ABSTRACTION of the new
  dictionary and `BDictWF` only; `gen_bup_parse` needs `BOK` and the stored `mask` of the Go table as well, and the mask
  is not part of the abstraction.  `bdict_reset_frame` below supplies them from the translated text of `Reset`
  (the table after `Reset` is the old one or the old one with both slices `clear`ed); with it no hypothesis of a
  per-function theorem is left that `HistOKU` does not imply.
  The history-level statements are in LzProofs/GenBUPHistRun.lean.
-/
import LzProofs.GenBUPHistInit
import LzProofs.GenHPHistRF2

set_option linter.unusedSimpArgs false
set_option linter.unusedVariables false

namespace LZ.GenBUPHist
open LZ LZ.Gen LZ.GenBuf LZ.GenHash LZ.GenHPParse LZ.GenBUPParse LZ.GenProps
open LZ.GenHPHist (BCOK mwrite_eq mem_le_sum seqsAll_mem ofSeq_seqRep mparse_frame RFun RFSpec genErr mreadFrom_eq
  errOfCode_ne_panic rfGo rfGo_spec)

/-! ## the promoted methods -/

/-- `s.Write(p)` for `s *bucketParser`: `ParserBuffer.Write` on the embedded buffer -/
def bup_Write (grow : Nat → Nat → Nat) (s : Gen.bucketParser) (p : Slice) : Res (Gen.bucketParser × Int × Gen.Err) :=
  Res.bind (ParserBuffer_Write grow s.bucketDictionary.ParserBuffer p) fun r =>
  Res.ok ({ s with bucketDictionary := { s.bucketDictionary with ParserBuffer := r.1 } }, r.2.1, r.2.2)

/-- `s.Reset(data)` for `s *bucketParser`: `bucketDictionary.Reset` on the embedded dictionary -/
def bup_Reset (s : Gen.bucketParser) (data : Slice) : Res (Gen.bucketParser × Gen.Err) :=
  Res.bind (bucketDictionary_Reset s.bucketDictionary data) fun r =>
  Res.ok ({ s with bucketDictionary := r.1 }, r.2)

/-- `s.ReadFrom(r)` for `s *bucketParser`: promoted from the embedded `ParserBuffer`; `RF` is (a rendering of)
    `(*ParserBuffer).ReadFrom`, e.g. the translated function against the scripted reader `GenHPHist.rfGo extra` -/
def bup_ReadFrom (RF : RFun) (s : Gen.bucketParser) (r : Reader) : Res (Gen.bucketParser × Reader × Int × Gen.Err) :=
  Res.bind (RF s.bucketDictionary.ParserBuffer r) fun x =>
  Res.ok ({ s with bucketDictionary := { s.bucketDictionary with ParserBuffer := x.1 } }, x.2.1, x.2.2.1, x.2.2.2)

/-! ## the invariant -/

/-- the invariant of a history of translated operations on a Go `bucketParser` -/
structure HistOKU (bc : BufCfg) (t : Gen.bucketParser) : Prop where
  pok : ParseOKU t
  cfg : ofCfg t.bucketDictionary.ParserBuffer.BufConfig = bc
  len : t.bucketDictionary.ParserBuffer.Data.len ≤ bc.bufferSize
  cap : (ofPB t.bucketDictionary.ParserBuffer).CapOK
  il8 : t.BUPConfig.InputLen.toNat ≤ 8

theorem HistOKU.dataLen {bc : BufCfg} {t : Gen.bucketParser} (h : HistOKU bc t) :
    (ofBUPs t).buf.data.length = t.bucketDictionary.ParserBuffer.Data.len := data_length h.pok.wf.1.data

theorem HistOKU.hw {bc : BufCfg} {t : Gen.bucketParser} (h : HistOKU bc t) :
    (ofBUPs t).buf.w ≤ (ofBUPs t).buf.data.length := by
  rw [h.dataLen]
  have h1 := h.pok.w
  have h2 := h.pok.wf.1.w
  show t.bucketDictionary.ParserBuffer.W.toNat ≤ _
  omega

theorem HistOKU.mlen {bc : BufCfg} {t : Gen.bucketParser} (h : HistOKU bc t) :
    (ofBUPs t).buf.data.length ≤ (ofBUPs t).buf.cfg.bufferSize := by
  rw [h.dataLen]
  show _ ≤ (ofCfg t.bucketDictionary.ParserBuffer.BufConfig).bufferSize
  rw [h.cfg]; exact h.len

theorem HistOKU.mcfg {bc : BufCfg} {t : Gen.bucketParser} (h : HistOKU bc t) : (ofBUPs t).buf.cfg = bc := h.cfg

/-- `HistOKU` after an operation that replaced the embedded dictionary: what has to be known about the new one -/
theorem histOKU_update {bc : BufCfg} (hbc : BCOK bc) {t : Gen.bucketParser} (h : HistOKU bc t)
    (f' : Gen.bucketDictionary) (hpb : PBWF f'.ParserBuffer) (hbok : BOK f'.bucketHash)
    (hsc : SameCfg t.bucketDictionary.bucketHash f'.bucketHash)
    (hcfg : (ofPB f'.ParserBuffer).cfg = bc)
    (hw : (ofPB f'.ParserBuffer).w ≤ (ofPB f'.ParserBuffer).data.length)
    (hlen : (ofPB f'.ParserBuffer).data.length ≤ bc.bufferSize)
    (hcap : (ofPB f'.ParserBuffer).CapOK) :
    HistOKU bc { t with bucketDictionary := f' } := by
  have hdl : (ofPB f'.ParserBuffer).data.length = f'.ParserBuffer.Data.len := data_length hpb.data
  rw [hdl] at hw hlen
  obtain ⟨hm, hs, hi, hb⟩ := hsc
  have hc : ofCfg f'.ParserBuffer.BufConfig = ofCfg t.bucketDictionary.ParserBuffer.BufConfig := hcfg.trans h.cfg.symm
  have hws : f'.ParserBuffer.BufConfig.WindowSize.toNat = t.bucketDictionary.ParserBuffer.BufConfig.WindowSize.toNat :=
    congrArg BufCfg.windowSize hc
  have hbs : f'.ParserBuffer.BufConfig.BlockSize.toNat = t.bucketDictionary.ParserBuffer.BufConfig.BlockSize.toNat :=
    congrArg BufCfg.blockSize hc
  have hW0 := hpb.w
  have hw' : f'.ParserBuffer.W.toNat ≤ f'.ParserBuffer.Data.len := hw
  have := hbc.bmax
  refine ⟨⟨⟨hpb, hbok.gwf, hbok.swf⟩, hbok, ?_, ?_, ?_, h.pok.bs0, h.pok.ws0, ?_, ?_, ?_, ?_, ?_, ?_⟩, hcfg, hlen, hcap,
    h.il8⟩
  · show t.BUPConfig.WindowSize.toNat = f'.ParserBuffer.BufConfig.WindowSize.toNat
    rw [hws]; exact h.pok.cws
  · show t.BUPConfig.BlockSize.toNat = f'.ParserBuffer.BufConfig.BlockSize.toNat
    rw [hbs]; exact h.pok.cbs
  · show t.BUPConfig.InputLen.toNat = f'.bucketHash.inputLen.toNat
    rw [hi]; exact h.pok.cil
  · show f'.ParserBuffer.W ≤ (f'.ParserBuffer.Data.len : Int)
    omega
  · show 1 ≤ f'.bucketHash.inputLen
    rw [hi]; exact h.pok.il1
  · show f'.bucketHash.mask = maskOf f'.bucketHash.inputLen.toNat
    rw [hm, hi]; exact h.pok.mask
  · show 32 ≤ f'.bucketHash.shift.toNat
    rw [hs]; exact h.pok.sh
  · show f'.bucketHash.shift.toNat ≤ 64
    rw [hs]; exact h.pok.sh2
  · show f'.ParserBuffer.Data.len < 4294967296
    omega

/-- the abstraction after the embedded buffer was replaced -/
theorem ofBUPs_buf (t : Gen.bucketParser) (b' : Gen.ParserBuffer) :
    ofBUPs { t with bucketDictionary := { t.bucketDictionary with ParserBuffer := b' } } =
      { ofBUPs t with buf := ofPB b' } := rfl

/-! ## Write -/

theorem hist_write {bc : BufCfg} (hbc : BCOK bc) (grow : Nat → Nat → Nat) (t : Gen.bucketParser) (h : HistOKU bc t)
    (p : Slice) (hp : SWF p) :
    ∃ t' n e, bup_Write grow t p = Res.ok (t', n, e) ∧ HistOKU bc t' ∧
      ofBUPs t' = ((ofBUPs t).write p.data).1 ∧ n = (((ofBUPs t).write p.data).2.1 : Int) ∧
      errOf e = some ((ofBUPs t).write p.data).2.2 ∧
      (((ofBUPs t).write p.data).2.2 = .ok ∨ ((ofBUPs t).write p.data).2.2 = .full) := by
  have hA := gen_pbuf_write grow t.bucketDictionary.ParserBuffer h.pok.wf.1 p hp
  obtain ⟨c, hc, hcm⟩ := PBuf.write_spec (ofPB t.bucketDictionary.ParserBuffer) p.data h.mlen
  obtain ⟨a1, a2, a3, a4, a5, a6⟩ := PBuf.write_frame (ofPB t.bucketDictionary.ParserBuffer) p.data
  have herr : (PBuf.write (ofPB t.bucketDictionary.ParserBuffer) p.data).2.2 = .ok ∨
      (PBuf.write (ofPB t.bucketDictionary.ParserBuffer) p.data).2.2 = .full := by
    rw [hc]; simp only []; split
    · right; rfl
    · left; rfl
  rw [mwrite_eq]
  simp only []
  show ∃ t' n e, bup_Write grow t p = Res.ok (t', n, e) ∧ HistOKU bc t' ∧
      ofBUPs t' = { ofBUPs t with buf := (PBuf.write (ofPB t.bucketDictionary.ParserBuffer) p.data).1 } ∧
      n = ((PBuf.write (ofPB t.bucketDictionary.ParserBuffer) p.data).2.1 : Int) ∧
      errOf e = some (PBuf.write (ofPB t.bucketDictionary.ParserBuffer) p.data).2.2 ∧ _
  unfold bup_Write
  cases hr : ParserBuffer_Write grow t.bucketDictionary.ParserBuffer p with
  | ok v =>
    obtain ⟨b', n, e⟩ := v
    rw [hr] at hA
    obtain ⟨_, hof, hn, he, hwf⟩ := hA
    refine ⟨_, n, e, rfl, ?_, ?_, hn, he, herr⟩
    · refine histOKU_update hbc h { t.bucketDictionary with ParserBuffer := b' } hwf h.pok.bok (SameCfg.refl _) ?_ ?_ ?_ ?_
      · show (ofPB b').cfg = bc
        rw [hof, a5]; exact h.cfg
      · show (ofPB b').w ≤ (ofPB b').data.length
        rw [hof, a3, a1, List.length_append]
        have h2 : (ofPB t.bucketDictionary.ParserBuffer).w ≤ (ofPB t.bucketDictionary.ParserBuffer).data.length := h.hw
        omega
      · show (ofPB b').data.length ≤ bc.bufferSize
        rw [hof, hc]
        simp only [List.length_append, List.length_take]
        have h2 : (ofPB t.bucketDictionary.ParserBuffer).cfg.bufferSize = bc.bufferSize := by rw [h.cfg.symm]; rfl
        have h1' : (ofPB t.bucketDictionary.ParserBuffer).data.length ≤ (ofPB t.bucketDictionary.ParserBuffer).cfg.bufferSize :=
          h.mlen
        omega
      · show (ofPB b').CapOK
        rw [hof]; exact a6 h.cap
    · rw [ofBUPs_buf, hof]
  | panic =>
    rw [hr] at hA
    have hA' : (PBuf.write (ofPB t.bucketDictionary.ParserBuffer) p.data).2.2 = .panic := hA
    rcases herr with h1 | h1 <;> rw [h1] at hA' <;> cases hA'
  | fuel =>
    rw [hr] at hA
    exact absurd hA (by intro hc; exact hc)

/-! ## Reset -/

/-- the cleared ring indexes are zero -/
theorem bclear_getD (s : Slice) (hs : SWF s) (h : Nat) (hh : h < s.len) : (Slice.clear s).arr.getD h 0 = 0 := by
  have hs' : s.len ≤ s.arr.length := hs
  unfold Slice.clear
  have hm : Min.min s.len s.arr.length = s.len := by omega
  simp only [hm]
  rw [List.getD_eq_getElem?_getD, List.getElem?_append_left (by rw [List.length_replicate]; exact hh),
    List.getElem?_replicate, if_pos hh]
  rfl

/-- `BOK` and the scalar fields after `bucketHash.reset`'s two `clear`s -/
theorem bok_clear (g : Gen.bucketHash) (hb : BOK g) :
    BOK { g with buckets := GSlice.clear ({ pos := 0, val := 0 } : bucketEntry) g.buckets, indexes := Slice.clear g.indexes } := by
  obtain ⟨hgwf, hswf, hbs1, hbs2, hil, hbl, hring⟩ := hb
  refine ⟨gclear_wf _ _ hgwf, bclear_wf _ hswf, hbs1, hbs2, ?_, ?_, ?_⟩
  · show (Slice.clear g.indexes).len = _
    rw [bclear_len]; exact hil
  · show (GSlice.clear _ g.buckets).len = _
    rw [gclear_len]; exact hbl
  · intro h hh
    have hh' : h < g.indexes.len := by rw [← bclear_len g.indexes]; exact hh
    show ((Slice.clear g.indexes).arr.getD h 0).toNat < g.bucketSize.toNat
    rw [bclear_getD g.indexes hswf h hh']
    show 0 < g.bucketSize.toNat
    omega

/-- what the TRANSLATED `bucketDictionary.Reset` does to the Go table beyond its abstraction: the table invariant
    `BOK` is kept and the scalar fields (`mask`, `shift`, `inputLen`, `bucketSize`) are not written -/
theorem bdict_reset_frame (f f' : Gen.bucketDictionary) (data : Slice) (e : Gen.Err)
    (h : bucketDictionary_Reset f data = Res.ok (f', e)) (hb : BOK f.bucketHash) :
    BOK f'.bucketHash ∧ SameCfg f.bucketHash f'.bucketHash := by
  unfold bucketDictionary_Reset at h
  cases hr : ParserBuffer_Reset f.ParserBuffer data with
  | ok v =>
    rw [hr] at h
    simp only [bind_ok] at h
    split at h
    · injection h with h
      injection h with h1 _
      subst h1
      exact ⟨hb, SameCfg.refl _⟩
    · unfold bucketHash_reset at h
      simp only [bind_ok] at h
      injection h with h
      injection h with h1 _
      subst h1
      exact ⟨bok_clear _ hb, ⟨rfl, rfl, rfl, rfl⟩⟩
  | panic => rw [hr] at h; cases h
  | fuel => rw [hr] at h; cases h

theorem hist_reset {bc : BufCfg} (hbc : BCOK bc) (t : Gen.bucketParser) (h : HistOKU bc t) (data : Slice)
    (hdat : SWF data) :
    ∃ t' e, bup_Reset t data = Res.ok (t', e) ∧ HistOKU bc t' ∧
      ofBUPs t' = ((ofBUPs t).reset data.data (data.cap - data.len)).1 ∧
      errOfReset e = some ((ofBUPs t).reset data.data (data.cap - data.len)).2 := by
  obtain ⟨f', e, hf, hof, herr, hwf⟩ := gen_bup_reset (ofBUP t.BUPConfig) t.bucketDictionary h.pok.wf data hdat
  obtain ⟨hbok', hsc'⟩ := bdict_reset_frame _ _ _ _ hf h.pok.bok
  unfold bup_Reset
  rw [hf]
  refine ⟨_, e, rfl, ?_, hof, herr⟩
  have hbuf : ofPB f'.ParserBuffer = ((ofBUPs t).reset data.data (data.cap - data.len)).1.buf := congrArg Parser.buf hof
  have hmw : (ofPB t.bucketDictionary.ParserBuffer).w ≤ (ofPB t.bucketDictionary.ParserBuffer).data.length := h.hw
  have hml : (ofPB t.bucketDictionary.ParserBuffer).data.length ≤ bc.bufferSize := by
    have := h.mlen; rw [h.mcfg] at this; exact this
  refine histOKU_update hbc h f' hwf.1 hbok' hsc' ?_ ?_ ?_ ?_
  all_goals
    rcases reset_eq (ofBUPs t) data.data (data.cap - data.len) with ⟨-, hs⟩ | ⟨-, -, -, hb, hbe, -, -⟩
    · rw [hbuf, hs]
      first | exact h.cfg | exact hmw | exact hml | exact h.cap
    · rw [hbuf, hb]
      have hbe' : (PBuf.reset (ofPB t.bucketDictionary.ParserBuffer) data.data (data.cap - data.len)).2 = .ok := hbe
      rcases PBuf.reset_frame (ofPB t.bucketDictionary.ParserBuffer) data.data (data.cap - data.len) with
        ⟨-, b1, b2, b3, b4, b5⟩ | ⟨b0, -⟩
      · show _
        first
          | (show (PBuf.reset (ofPB t.bucketDictionary.ParserBuffer) data.data (data.cap - data.len)).1.cfg = bc
             rw [b4]; exact h.cfg)
          | (show (PBuf.reset (ofPB t.bucketDictionary.ParserBuffer) data.data (data.cap - data.len)).1.w ≤ _
             rw [b2]; exact Nat.zero_le _)
          | (show (PBuf.reset (ofPB t.bucketDictionary.ParserBuffer) data.data (data.cap - data.len)).1.data.length ≤ bc.bufferSize
             rw [b1]
             have hno : ¬ (ofPB t.bucketDictionary.ParserBuffer).cfg.bufferSize < data.data.length := by
               intro hc
               have := (PBuf.reset_err_iff _ data.data (data.cap - data.len)).mpr hc
               rw [hbe'] at this; cases this
             have hcc : (ofPB t.bucketDictionary.ParserBuffer).cfg.bufferSize = bc.bufferSize := by rw [← h.cfg]; rfl
             omega)
          | exact b5
      · exact absurd hbe' b0

/-! ## ReadFrom -/

theorem hist_readFrom {bc : BufCfg} (hbc : BCOK bc) (RF : RFun) (hRF : RFSpec RF) (t : Gen.bucketParser)
    (h : HistOKU bc t) (r : Reader) :
    ∃ t', bup_ReadFrom RF t r = Res.ok (t', ((ofBUPs t).readFrom r).2.1, (((ofBUPs t).readFrom r).2.2.1 : Int),
        genErr ((ofBUPs t).readFrom r).2.2.2) ∧ HistOKU bc t' ∧ ofBUPs t' = ((ofBUPs t).readFrom r).1 := by
  rw [mreadFrom_eq]
  simp only []
  show ∃ t', bup_ReadFrom RF t r = Res.ok (t', (PBuf.readFrom (ofPB t.bucketDictionary.ParserBuffer) r).2.1,
      ((PBuf.readFrom (ofPB t.bucketDictionary.ParserBuffer) r).2.2.1 : Int),
      genErr (PBuf.readFrom (ofPB t.bucketDictionary.ParserBuffer) r).2.2.2) ∧ HistOKU bc t' ∧
      ofBUPs t' = { ofBUPs t with buf := (PBuf.readFrom (ofPB t.bucketDictionary.ParserBuffer) r).1 }
  have hml : (ofPB t.bucketDictionary.ParserBuffer).data.length ≤ (ofPB t.bucketDictionary.ParserBuffer).cfg.bufferSize :=
    h.mlen
  have hmw : (ofPB t.bucketDictionary.ParserBuffer).w ≤ (ofPB t.bucketDictionary.ParserBuffer).data.length := h.hw
  obtain ⟨c, pre, hb, -, hn1, hn2, hm, -, -, hcase⟩ :=
    PBuf.readFrom_master hml (r := r) (b' := (PBuf.readFrom (ofPB t.bucketDictionary.ParserBuffer) r).1)
      (r' := (PBuf.readFrom (ofPB t.bucketDictionary.ParserBuffer) r).2.1)
      (n := (PBuf.readFrom (ofPB t.bucketDictionary.ParserBuffer) r).2.2.1)
      (e := (PBuf.readFrom (ofPB t.bucketDictionary.ParserBuffer) r).2.2.2) rfl
  have hnp : (PBuf.readFrom (ofPB t.bucketDictionary.ParserBuffer) r).2.2.2 ≠ .panic := by
    rcases hcase with ⟨h1, -⟩ | ⟨h1, -⟩ | ⟨mx, ec, -, -, h1⟩
    · rw [h1]; intro hc; cases hc
    · rw [h1]; intro hc; cases hc
    · rw [h1]; exact errOfCode_ne_panic ec
  obtain ⟨b', hrf, hof, hwf⟩ := hRF t.bucketDictionary.ParserBuffer r h.pok.wf.1 h.cap hml hnp
  unfold bup_ReadFrom
  rw [hrf]
  refine ⟨_, rfl, ?_, ?_⟩
  · have hcfgE : (ofPB t.bucketDictionary.ParserBuffer).cfg.bufferSize = bc.bufferSize := by rw [← h.cfg]; rfl
    refine histOKU_update hbc h { t.bucketDictionary with ParserBuffer := b' } hwf h.pok.bok (SameCfg.refl _) ?_ ?_ ?_ ?_
    · show (ofPB b').cfg = bc
      rw [hof, hb]; exact h.cfg
    · show (ofPB b').w ≤ (ofPB b').data.length
      rw [hof, hb]; simp only [List.length_append]; omega
    · show (ofPB b').data.length ≤ bc.bufferSize
      rw [hof, hb]; simp only [List.length_append, List.length_take]; omega
    · show (ofPB b').CapOK
      rw [hof, hb]
      have hc := h.cap
      unfold PBuf.CapOK at hc ⊢
      rcases hm hc with ⟨h1, h2⟩ | h2
      · left; simp only; rw [h1, h2]; rfl
      · right; simp only [List.length_append, List.length_take]; omega
  · rw [ofBUPs_buf, hof]

/-! ## Parse -/

theorem hist_parse {bc : BufCfg} (hbc : BCOK bc) (grow : Nat → Nat → Nat) (fuel : Nat) (lcp : Slice → Slice → Int)
    (hlcp : LcpSpec lcp) (t : Gen.bucketParser)
    (h : HistOKU bc t) (blk : Gen.Block') (flags : Int) (hfl : 0 ≤ flags)
    (hfuel : t.bucketDictionary.ParserBuffer.Data.len + 3 ≤ fuel) :
    ∃ t' blk', bucketParser_Parse grow fuel lcp t blk flags =
        Res.ok (t', blk', (((ofBUPs t).parse flags.toNat).2.1 : Int), parseErr ((ofBUPs t).parse flags.toNat).2.2.1) ∧
      HistOKU bc t' ∧ ofBUPs t' = ((ofBUPs t).parse flags.toNat).1 ∧
      ofBlock blk' = ((ofBUPs t).parse flags.toNat).2.2.2 ∧ SWF blk'.Literals ∧
      (((ofBUPs t).parse flags.toNat).2.2.1 = .ok ∨ ((ofBUPs t).parse flags.toNat).2.2.1 = .empty) := by
  have hil1 := h.pok.il1
  have hcil := h.pok.cil
  have hil8 := h.il8
  have hb : ProbeW.Backing (ofBUPs t) (staleOfU t) := staleOfU_length t h.pok.wf.1.data
  have hd : ProbeW.HashDictOK (ofBUPs t).dict := by
    show 1 ≤ t.bucketDictionary.bucketHash.inputLen.toNat ∧ t.bucketDictionary.bucketHash.inputLen.toNat ≤ 8
    omega
  have hmm3 : (ofBUPs t).minMatch = Min.min 3 t.BUPConfig.InputLen.toNat := rfl
  have hW := ProbeW.parseW_eq (ofBUPs t) (staleOfU t) flags.toNat h.hw hb h.cap hd (by rw [hmm3]; omega)
  have hnot : ∀ o, (ofBUPs t).dict ≠ .osap o := by intro o ho; cases ho
  have hbm := hbc.bmax
  have hwm := hbc.wmax
  obtain ⟨f1, f2, f3, f4⟩ := mparse_frame (ofBUPs t) flags.toNat h.hw (by rw [hmm3]; omega) h.cap hnot 4294967288
    (by have := h.mlen; rw [h.mcfg] at this; omega) (by rw [h.mcfg]; exact hwm)
  have hm := gen_bup_parse grow fuel lcp hlcp t blk flags h.pok hfl hfuel
  rw [hW] at hm
  generalize (ofBUPs t).parse flags.toNat = R at hm f1 f2 f3 f4 ⊢
  obtain ⟨s', n, e, b⟩ := R
  simp only at hm f1 f2 f3 f4 ⊢
  obtain ⟨t', blk', h1, h2, h3, h4, h5, h6, h7, h8⟩ := hm
  refine ⟨t', blk', h1, ?_, h2, ?_, h7, h4⟩
  · have hbuf : ofPB t'.bucketDictionary.ParserBuffer = _ := (congrArg Parser.buf h2).trans f1
    have hcfgP : ofBUP t'.BUPConfig = ofBUP t.BUPConfig := (congrArg Parser.cfg h2).trans f2
    have hHP : t'.BUPConfig = t.BUPConfig := by
      have := congrArg toBUP hcfgP
      rw [toBUP_ofBUP, toBUP_ofBUP] at this; exact this
    refine ⟨h8, ?_, ?_, ?_, by rw [hHP]; exact h.il8⟩
    · have : (ofPB t'.bucketDictionary.ParserBuffer).cfg = (ofPB t.bucketDictionary.ParserBuffer).cfg := by rw [hbuf]; rfl
      exact this.trans h.cfg
    · have e : (ofPB t'.bucketDictionary.ParserBuffer).data = (ofPB t.bucketDictionary.ParserBuffer).data := by rw [hbuf]; rfl
      have e2 := congrArg List.length e
      have d1 : (ofPB t'.bucketDictionary.ParserBuffer).data.length = t'.bucketDictionary.ParserBuffer.Data.len :=
        data_length h8.wf.1.data
      have d2 : (ofPB t.bucketDictionary.ParserBuffer).data.length = t.bucketDictionary.ParserBuffer.Data.len :=
        data_length h.pok.wf.1.data
      have := h.len
      omega
    · have hc := h.cap
      unfold PBuf.CapOK at hc ⊢
      rw [hbuf]; exact hc
  · have hmap : List.map (ofSeq ∘ seqRep) b.seqs = b.seqs := by
      conv => rhs; rw [← List.map_id b.seqs]
      apply List.map_congr_left
      intro q hq
      obtain ⟨g1, g2, g3, g4⟩ := f4 q hq
      exact ofSeq_seqRep q (by omega) (by omega) (by omega) g4
    unfold ofBlock
    rw [h5, h6, List.map_map, hmap]

/-! ## init -/

/-- `bucketParser.init(cfg)` on `new(bucketParser)`: if it returns `nil`, the configuration is one the model's
    `NewParser` accepts, the Go state abstracts to the model's fresh parser, and `HistOKU` holds for its buffer
    configuration -/
theorem hist_init (cfg : Gen.BUPConfig) (s0 : Gen.bucketParser)
    (hinit : bucketParser_init default cfg = Res.ok (s0, Gen.Err.ok)) :
    ∃ p, newParser .BUP (ofBUP cfg) = some p ∧ ofBUPs s0 = p ∧ BCOK p.buf.cfg ∧ HistOKU p.buf.cfg s0 := by
  obtain ⟨p, hp, h2, h3⟩ := gen_bup_init_go cfg s0 hinit
  refine ⟨p, hp, h2, ?_⟩
  unfold newParser at hp
  simp only [] at hp
  split at hp
  · rename_i hv
    simp only [Option.some.injEq] at hp
    generalize setDefaults .BUP ((ofBUP cfg).restrict .BUP) = c at hv hp
    have hbv := verify_buf .BUP c hv
    simp only [bufVerify, Facts.maxUint32, Facts.margin] at hbv
    replace hbv := of_decide_eq_true hbv
    have hbv' : c.bufferSize ≤ 4294967288 ∧ c.windowSize ≤ 4294967288 := by
      obtain ⟨⟨_, a⟩, _, ⟨_, b⟩, _⟩ := hbv
      exact ⟨by omega, by omega⟩
    have hhv : hashVerify c.inputLen c.hashBits Facts.maxBucketHashBits = true := by
      simp only [verify, Bool.and_eq_true] at hv; exact hv.1.2
    simp only [hashVerify, Facts.maxInputLen] at hhv
    replace hhv := of_decide_eq_true hhv
    have hhv' : c.inputLen ≤ 8 := hhv.1.2
    have hbuf : (ofBUPs s0).buf = PBuf.init c.bufCfg := by rw [h2, ← hp]
    have hcf : (ofBUPs s0).cfg = c := by rw [h2, ← hp]
    have hpb : p.buf.cfg = c.bufCfg := by rw [← hp]; rfl
    have hI : s0.BUPConfig.InputLen = c.inputLen := congrArg Cfg.inputLen hcf
    have hBC : BCOK p.buf.cfg := by
      rw [hpb]
      exact ⟨by show c.bufferSize.toNat ≤ _; omega, by show c.windowSize.toNat ≤ _; omega⟩
    refine ⟨hBC, h3, ?_, ?_, ?_, ?_⟩
    · rw [hpb]; exact congrArg PBuf.cfg hbuf
    · have : s0.bucketDictionary.ParserBuffer.Data.len = 0 := by
        have := data_length h3.wf.1.data
        have e : s0.bucketDictionary.ParserBuffer.Data.data = [] := congrArg PBuf.data hbuf
        rw [e] at this; exact this.symm
      rw [this]; exact Nat.zero_le _
    · left; exact congrArg PBuf.data hbuf
    · rw [hI]; omega
  · exact absurd hp (by simp)

end LZ.GenBUPHist

#print axioms LZ.GenBUPHist.bdict_reset_frame
#print axioms LZ.GenBUPHist.hist_write
#print axioms LZ.GenBUPHist.hist_reset
#print axioms LZ.GenBUPHist.hist_readFrom
#print axioms LZ.GenBUPHist.hist_parse
#print axioms LZ.GenBUPHist.hist_init
