/-
  LzProofs.GenOSAPHist — `ParseOKO B` (GenOSAPParseLemmas) as an INVARIANT of the translated operations of the optimizing
  suffix-array parser OSAP, operation by operation.  No sorry, no axioms of its own.

  Subject: the functions `tools/extract` regenerates from the Go text
      osap.go             (*optSuffixArrayParser).init / Parse / Reset / Shrink / resetEdges / shortestPath
                          Gen.optSuffixArrayParser_init / _Parse / _Reset / _Shrink  (CodeOSAPInit, CodeOSAPParse, CodeOSAPPath)
      parser_buffer.go    ParserBuffer.Write / ReadFrom      Gen.ParserBuffer_Write (CodePBuf), Gen.ParserBuffer_ReadFrom
  `Write` and `ReadFrom` of a `*optSuffixArrayParser` are the PROMOTED methods of the embedded `ParserBuffer` (osap.go
  declares `init`, `Parse`, `Reset`, `Shrink`, `resetEdges`, `computeEdges`, `shortestPath`): `osap_Write`, `osap_ReadFrom`
  below are the translated function on the embedded field followed by a record update (three lines each, no logic).
  `ReadFrom` is run against the scripted reader (`GenBuf.mRead`, `GenHPHist.rfGo`).  `Parse(nil)` is excluded by the topic
  assumption `blk != nil`.

  OPAQUE callee of the translated `Parse` and its specification hypothesis: `CESpec B ce` (GenOSAPParseLemmas) —
  `computeEdges` = `Idx.computeEdgesChk`, at most `B` edges per position.  (Discharged for the translated `computeEdges`
  in LzProofs/GenOSAPHistGo.lean when that module exists; see notes/osap-history.md.)

  Invariant `HistOKO bc B t` on the GENERATED state `t : Gen.optSuffixArrayParser`: `ParseOKO B t`, the buffer
  configuration is `bc`, `len(Data) ≤ BufferSize`, the capacity invariant `CapOK` (only `ReadFrom` needs it).
  `BCOKO bc`: `BufferSize ≤ MaxInt32` (`OSAPConfig.Verify`), `WindowSize ≤ 2^32 - 8` (`BufConfig.Verify`).
  The model state is `ofOSAPs t` (no ghost component on the Go side: the edge table abstracts directly).

  Results (each for every growth policy of `append`, every state with `HistOKO`):
    hist_init     `init` on `new(optSuffixArrayParser)` returned nil, `MinMatchLen < 2^32`: the model's fresh parser,
                  `HistOKO`, `BCOKO`
    hist_write    `osap_Write`  = `Parser.write`, keeps `HistOKO`
    hist_readFrom `osap_ReadFrom` (translated `ReadFrom`, scripted reader) = `Parser.readFrom`
    hist_shrink   `optSuffixArrayParser_Shrink` = `Parser.shrink` (delta = 0: nothing changes; delta > 0: table dropped)
    hist_reset    `optSuffixArrayParser_Reset`  = `Parser.reset`  (error: nothing changes; success: table dropped)
    hist_parse    `optSuffixArrayParser_Parse`  = `Parser.parse` on states whose model state is REACHABLE
                  (`gen_osap_parse_model`, under `CESpec B ce`); the block returned ABSTRACTS (`ofBlock`) to the model's
  The history-level statements are in LzProofs/GenOSAPHistRun.lean.
-/
import LzProofs.GenOSAPAll
import LzProofs.GenHPHistRF2
import LzProofs.ParseProps
import LzProofs.GlueSuffix

set_option linter.unusedSimpArgs false
set_option linter.unusedVariables false

namespace LZ.GenOSAPHist
open LZ LZ.Gen LZ.GenBuf LZ.GenHash LZ.GenSuffix LZ.GenHPParse LZ.GenProps LZ.GenOSAP
open LZ.GenHPHist (mwrite_eq mreadFrom_eq capOK_shrink ofSeq_seqRep seqsAll_mem mem_le_sum genErr RFun RFSpec rfGo rfGo_spec
  errOfCode_ne_panic)

/-! ## the promoted methods -/

/-- `s.Write(p)` for `s *optSuffixArrayParser`: `ParserBuffer.Write` on the embedded buffer -/
def osap_Write (grow : Nat → Nat → Nat) (s : Gen.optSuffixArrayParser) (p : Slice) :
    Res (Gen.optSuffixArrayParser × Int × Gen.Err) :=
  Res.bind (ParserBuffer_Write grow s.ParserBuffer p) fun r =>
  Res.ok ({ s with ParserBuffer := r.1 }, r.2.1, r.2.2)

/-- `s.ReadFrom(r)` for `s *optSuffixArrayParser`: `ParserBuffer.ReadFrom` on the embedded buffer (`RF` = a rendering of
    it against the scripted reader; `GenHPHist.rfGo extra` is the translated function) -/
def osap_ReadFrom (RF : RFun) (s : Gen.optSuffixArrayParser) (r : Reader) :
    Res (Gen.optSuffixArrayParser × Reader × Int × Gen.Err) :=
  Res.bind (RF s.ParserBuffer r) fun x =>
  Res.ok ({ s with ParserBuffer := x.1 }, x.2.1, x.2.2.1, x.2.2.2)

/-! ## the invariant -/

/-- what `OSAPConfig.Verify` enforces and the proofs below use -/
structure BCOKO (bc : BufCfg) : Prop where
  bmax : bc.bufferSize ≤ 2147483647
  wmax : bc.windowSize ≤ 4294967288

/-- the invariant of a history of translated operations on a Go `optSuffixArrayParser` -/
structure HistOKO (bc : BufCfg) (B : Nat) (t : Gen.optSuffixArrayParser) : Prop where
  pok : ParseOKO B t
  cfg : ofCfg t.ParserBuffer.BufConfig = bc
  len : t.ParserBuffer.Data.len ≤ bc.bufferSize
  cap : (ofPB t.ParserBuffer).CapOK

/-- `HistOKO` implies the hypothesis bundle of `gen_osap_parse` -/
theorem HistOKO.parseOK {bc : BufCfg} {B : Nat} {t : Gen.optSuffixArrayParser} (h : HistOKO bc B t) : ParseOKO B t :=
  h.pok

theorem HistOKO.dataLen {bc : BufCfg} {B : Nat} {t : Gen.optSuffixArrayParser} (h : HistOKO bc B t) :
    (ofPB t.ParserBuffer).data.length = t.ParserBuffer.Data.len := data_length h.pok.pb.data

theorem HistOKO.hw {bc : BufCfg} {B : Nat} {t : Gen.optSuffixArrayParser} (h : HistOKO bc B t) :
    (ofPB t.ParserBuffer).w ≤ (ofPB t.ParserBuffer).data.length := by
  rw [h.dataLen]
  have h1 := h.pok.w
  have h2 := h.pok.pb.w
  show t.ParserBuffer.W.toNat ≤ _
  omega

theorem HistOKO.mlen {bc : BufCfg} {B : Nat} {t : Gen.optSuffixArrayParser} (h : HistOKO bc B t) :
    (ofPB t.ParserBuffer).data.length ≤ (ofPB t.ParserBuffer).cfg.bufferSize := by
  rw [h.dataLen]
  show _ ≤ (ofCfg t.ParserBuffer.BufConfig).bufferSize
  rw [h.cfg]; exact h.len

/-- `HistOKO` after an operation that replaced the buffer and (possibly) the edge table: what has to be known -/
theorem histOK_update {bc : BufCfg} {B : Nat} (hbc : BCOKO bc) {t : Gen.optSuffixArrayParser} (h : HistOKO bc B t)
    (t' : Gen.optSuffixArrayParser)
    (hcf : t'.OSAPConfig = t.OSAPConfig) (hcost : t'.cost = t.cost) (hpb : PBWF t'.ParserBuffer)
    (hcfg : (ofPB t'.ParserBuffer).cfg = bc)
    (hw : (ofPB t'.ParserBuffer).w ≤ (ofPB t'.ParserBuffer).data.length)
    (hlen : (ofPB t'.ParserBuffer).data.length ≤ bc.bufferSize)
    (hcap : (ofPB t'.ParserBuffer).CapOK)
    (hedges : GWF t'.edges) (hq : ∀ q ∈ t'.edges.data, GWF q ∧ q.len ≤ B) (htmp : GWF t'.tmp)
    (hst0 : 0 ≤ t'.start) (hne0 : 0 ≤ t'.nEdges) (hstw : t'.start ≤ t'.ParserBuffer.W) :
    HistOKO bc B t' := by
  have hdl : (ofPB t'.ParserBuffer).data.length = t'.ParserBuffer.Data.len := data_length hpb.data
  rw [hdl] at hw hlen
  have hc : ofCfg t'.ParserBuffer.BufConfig = ofCfg t.ParserBuffer.BufConfig := hcfg.trans h.cfg.symm
  have hws : t'.ParserBuffer.BufConfig.WindowSize.toNat = t.ParserBuffer.BufConfig.WindowSize.toNat :=
    congrArg BufCfg.windowSize hc
  have hbs : t'.ParserBuffer.BufConfig.BlockSize.toNat = t.ParserBuffer.BufConfig.BlockSize.toNat :=
    congrArg BufCfg.blockSize hc
  have hW0 := hpb.w
  have hw' : t'.ParserBuffer.W.toNat ≤ t'.ParserBuffer.Data.len := hw
  have := hbc.bmax
  refine ⟨⟨hpb, hedges, hq, htmp, ?_, hst0, hne0, hstw, ?_, ?_, ?_, ?_, ?_, ?_, ?_, ?_, ?_⟩, hcfg, hlen, hcap⟩
  · rw [hcost]; exact h.pok.cost
  · rw [hcf, hbs]; exact h.pok.cbs
  · rw [hcf]; exact h.pok.bs0
  · rw [hcf]; exact h.pok.mm0
  · rw [hcf]; exact h.pok.mm32
  · omega
  · omega
  · rw [hcf, hws]; exact h.pok.cws
  · rw [hcf]; exact h.pok.ws0
  · rw [hcf]; exact h.pok.mmx

/-! ## Write -/

theorem hist_write {bc : BufCfg} {B : Nat} (hbc : BCOKO bc) (grow : Nat → Nat → Nat) (t : Gen.optSuffixArrayParser)
    (h : HistOKO bc B t) (p : Slice) (hp : SWF p) :
    ∃ t' n e, osap_Write grow t p = Res.ok (t', n, e) ∧ HistOKO bc B t' ∧
      ofOSAPs t' = ((ofOSAPs t).write p.data).1 ∧
      n = (((ofOSAPs t).write p.data).2.1 : Int) ∧
      errOf e = some ((ofOSAPs t).write p.data).2.2 ∧
      (((ofOSAPs t).write p.data).2.2 = .ok ∨ ((ofOSAPs t).write p.data).2.2 = .full) := by
  have hA := gen_pbuf_write grow t.ParserBuffer h.pok.pb p hp
  obtain ⟨c, hc, hcm⟩ := PBuf.write_spec (ofPB t.ParserBuffer) p.data h.mlen
  obtain ⟨a1, a2, a3, a4, a5, a6⟩ := PBuf.write_frame (ofPB t.ParserBuffer) p.data
  have herr : (PBuf.write (ofPB t.ParserBuffer) p.data).2.2 = .ok ∨
      (PBuf.write (ofPB t.ParserBuffer) p.data).2.2 = .full := by
    rw [hc]; simp only []; split
    · right; rfl
    · left; rfl
  rw [mwrite_eq]
  simp only []
  show ∃ t' n e, osap_Write grow t p = Res.ok (t', n, e) ∧ HistOKO bc B t' ∧
      ofOSAPs t' = { ofOSAPs t with buf := (PBuf.write (ofPB t.ParserBuffer) p.data).1 } ∧
      n = ((PBuf.write (ofPB t.ParserBuffer) p.data).2.1 : Int) ∧
      errOf e = some (PBuf.write (ofPB t.ParserBuffer) p.data).2.2 ∧ _
  unfold osap_Write
  cases hr : ParserBuffer_Write grow t.ParserBuffer p with
  | ok v =>
    obtain ⟨b', n, e⟩ := v
    rw [hr] at hA
    obtain ⟨_, hof, hn, he, hwf⟩ := hA
    have hmw := h.hw
    have hdl' : (ofPB b').data.length = b'.Data.len := data_length hwf.data
    have hdl := h.dataLen
    have hlen' : (ofPB b').data.length =
        (ofPB t.ParserBuffer).data.length + (p.data.take (PBuf.write (ofPB t.ParserBuffer) p.data).2.1).length := by
      rw [hof, a1, List.length_append]
    have hWeq : (ofPB b').w = (ofPB t.ParserBuffer).w := by rw [hof, a3]
    refine ⟨{ t with ParserBuffer := b' }, n, e, rfl, ?_, ?_, hn, he, herr⟩
    · refine histOK_update hbc h _ rfl rfl hwf ?_ ?_ ?_ ?_ h.pok.wedges h.pok.wq h.pok.wtmp h.pok.st0 h.pok.ne0 ?_
      · show (ofPB b').cfg = bc
        rw [hof, a5]; exact h.cfg
      · show (ofPB b').w ≤ (ofPB b').data.length
        rw [hlen', hof, a3]; omega
      · show (ofPB b').data.length ≤ bc.bufferSize
        rw [hof, hc]
        simp only [List.length_append, List.length_take]
        have h1 := h.mlen
        have h2 : (ofPB t.ParserBuffer).cfg.bufferSize = bc.bufferSize := by rw [h.cfg.symm]; rfl
        omega
      · show (ofPB b').CapOK
        rw [hof]; exact a6 h.cap
      · show t.start ≤ b'.W
        have h1 := h.pok.stw
        have h2 := h.pok.pb.w
        have h3 := hwf.w
        have h4 : b'.W.toNat = t.ParserBuffer.W.toNat := hWeq
        omega
    · show ({ kind := .OSAP, cfg := ofOSAP t.OSAPConfig, buf := ofPB b', dict := .osap (ofOD t) } : Parser) = _
      rw [hof]; rfl
  | panic =>
    rw [hr] at hA
    have hA' : (PBuf.write (ofPB t.ParserBuffer) p.data).2.2 = .panic := hA
    rcases herr with h1 | h1 <;> rw [h1] at hA' <;> cases hA'
  | fuel =>
    rw [hr] at hA
    exact absurd hA (by intro hc; exact hc)

/-! ## ReadFrom -/

theorem hist_readFrom {bc : BufCfg} {B : Nat} (hbc : BCOKO bc) (RF : RFun) (hRF : RFSpec RF)
    (t : Gen.optSuffixArrayParser) (h : HistOKO bc B t) (r : Reader) :
    ∃ t', osap_ReadFrom RF t r = Res.ok (t', ((ofOSAPs t).readFrom r).2.1, (((ofOSAPs t).readFrom r).2.2.1 : Int),
        genErr ((ofOSAPs t).readFrom r).2.2.2) ∧ HistOKO bc B t' ∧
      ofOSAPs t' = ((ofOSAPs t).readFrom r).1 := by
  rw [mreadFrom_eq]
  simp only []
  show ∃ t', osap_ReadFrom RF t r = Res.ok (t', (PBuf.readFrom (ofPB t.ParserBuffer) r).2.1,
      ((PBuf.readFrom (ofPB t.ParserBuffer) r).2.2.1 : Int),
      genErr (PBuf.readFrom (ofPB t.ParserBuffer) r).2.2.2) ∧ HistOKO bc B t' ∧
      ofOSAPs t' = { ofOSAPs t with buf := (PBuf.readFrom (ofPB t.ParserBuffer) r).1 }
  have hml := h.mlen
  have hmw := h.hw
  obtain ⟨c, pre, hb, -, hn1, hn2, hm, -, -, hcase⟩ :=
    PBuf.readFrom_master hml (r := r) (b' := (PBuf.readFrom (ofPB t.ParserBuffer) r).1)
      (r' := (PBuf.readFrom (ofPB t.ParserBuffer) r).2.1)
      (n := (PBuf.readFrom (ofPB t.ParserBuffer) r).2.2.1)
      (e := (PBuf.readFrom (ofPB t.ParserBuffer) r).2.2.2) rfl
  have hnp : (PBuf.readFrom (ofPB t.ParserBuffer) r).2.2.2 ≠ .panic := by
    rcases hcase with ⟨h1, -⟩ | ⟨h1, -⟩ | ⟨mx, ec, -, -, h1⟩
    · rw [h1]; intro hc; cases hc
    · rw [h1]; intro hc; cases hc
    · rw [h1]; exact errOfCode_ne_panic ec
  obtain ⟨b', hrf, hof, hwf⟩ := hRF t.ParserBuffer r h.pok.pb h.cap hml hnp
  unfold osap_ReadFrom
  rw [hrf]
  have hcfgE : (ofPB t.ParserBuffer).cfg.bufferSize = bc.bufferSize := by rw [← h.cfg]; rfl
  have hdl' : (ofPB b').data.length = b'.Data.len := data_length hwf.data
  have hdl := h.dataLen
  have hlen' : (ofPB b').data.length =
      (ofPB t.ParserBuffer).data.length + (r.payload.take (PBuf.readFrom (ofPB t.ParserBuffer) r).2.2.1).length := by
    rw [hof, hb]; simp only [List.length_append]
  have hWeq : (ofPB b').w = (ofPB t.ParserBuffer).w := by rw [hof, hb]
  refine ⟨{ t with ParserBuffer := b' }, rfl, ?_, ?_⟩
  · refine histOK_update hbc h _ rfl rfl hwf ?_ ?_ ?_ ?_ h.pok.wedges h.pok.wq h.pok.wtmp h.pok.st0 h.pok.ne0 ?_
    · show (ofPB b').cfg = bc
      rw [hof, hb]; exact h.cfg
    · show (ofPB b').w ≤ (ofPB b').data.length
      rw [hlen', hof, hb]
      show (ofPB t.ParserBuffer).w ≤ _
      omega
    · show (ofPB b').data.length ≤ bc.bufferSize
      rw [hlen']; simp only [List.length_take]; omega
    · show (ofPB b').CapOK
      rw [hof, hb]
      have hc := h.cap
      unfold PBuf.CapOK at hc ⊢
      rcases hm hc with ⟨h1, h2⟩ | h2
      · left; simp only; rw [h1, h2]; rfl
      · right; simp only [List.length_append, List.length_take]; omega
    · show t.start ≤ b'.W
      have h1 := h.pok.stw
      have h2 := h.pok.pb.w
      have h3 := hwf.w
      have h4 : b'.W.toNat = t.ParserBuffer.W.toNat := hWeq
      omega
  · show ({ kind := .OSAP, cfg := ofOSAP t.OSAPConfig, buf := ofPB b', dict := .osap (ofOD t) } : Parser) = _
    rw [hof]; rfl

/-! ## Shrink, Reset: model side -/

theorem mshrink_osap (m : Parser) (o : OsapD) (hd : m.dict = .osap o) :
    m.shrink = if m.buf.shrink.2 = 0 then (m, 0)
      else ({ m with buf := m.buf.shrink.1, dict := .osap OsapD.empty }, m.buf.shrink.2) := by
  unfold Parser.shrink
  generalize m.buf.shrink = x
  obtain ⟨b, d⟩ := x
  simp only [hd]

theorem mreset_osap (m : Parser) (o : OsapD) (hd : m.dict = .osap o) (data : List Byte) (ce : Nat) :
    m.reset data ce = if (m.buf.reset data ce).2 = .ok
      then ({ m with buf := (m.buf.reset data ce).1, dict := .osap OsapD.empty }, (m.buf.reset data ce).2)
      else (m, (m.buf.reset data ce).2) := by
  unfold Parser.reset
  generalize m.buf.reset data ce = x
  obtain ⟨b, e⟩ := x
  simp only [Parser.clearDict, hd]

/-- the edge-table clauses of `ParseOKO` after `resetEdges` -/
theorem edgesReset_facts {s s' : Gen.optSuffixArrayParser} (B : Nat) (h : EdgesReset s s') :
    GWF s'.edges ∧ (∀ q ∈ s'.edges.data, GWF q ∧ q.len ≤ B) ∧ GWF s'.tmp ∧ 0 ≤ s'.start ∧ 0 ≤ s'.nEdges ∧
      ofOD s' = OsapD.empty := by
  refine ⟨h.wedges, ?_, h.wtmp, by rw [h.start]; exact Int.le_refl _, by rw [h.nEdges]; exact Int.le_refl _, h.od⟩
  intro q hq
  have : s'.edges.data = [] := by unfold GSlice.data; rw [h.ledges]; rfl
  rw [this] at hq; cases hq

/-! ## Shrink -/

theorem hist_shrink {bc : BufCfg} {B : Nat} (hbc : BCOKO bc) (t : Gen.optSuffixArrayParser) (h : HistOKO bc B t) :
    ∃ t', optSuffixArrayParser_Shrink t = Res.ok (t', ((ofOSAPs t).shrink.2 : Int)) ∧ HistOKO bc B t' ∧
      ofOSAPs t' = (ofOSAPs t).shrink.1 := by
  have hW := h.pok.w
  have hss := h.pok.pb.ss
  obtain ⟨s', hs, hof, hwf, hcf, hcost, hpos, hzero⟩ := gen_osap_shrink t h.pok.pb (by omega)
  obtain ⟨a1, a2, a3, a4, a5, a6⟩ := PBuf.shrink_frame (ofPB t.ParserBuffer)
  have hmw := h.hw
  have hml : (ofPB t.ParserBuffer).data.length ≤ bc.bufferSize := by
    have := h.mlen
    have h2 : (ofPB t.ParserBuffer).cfg.bufferSize = bc.bufferSize := by rw [← h.cfg]; rfl
    omega
  rw [mshrink_osap (ofOSAPs t) (ofOD t) rfl]
  show ∃ t', optSuffixArrayParser_Shrink t = Res.ok (t', ((if (PBuf.shrink (ofPB t.ParserBuffer)).2 = 0 then (ofOSAPs t, 0)
      else ({ ofOSAPs t with buf := (PBuf.shrink (ofPB t.ParserBuffer)).1, dict := .osap OsapD.empty },
        (PBuf.shrink (ofPB t.ParserBuffer)).2)).2 : Int)) ∧ HistOKO bc B t' ∧
      ofOSAPs t' = (if (PBuf.shrink (ofPB t.ParserBuffer)).2 = 0 then (ofOSAPs t, 0)
      else ({ ofOSAPs t with buf := (PBuf.shrink (ofPB t.ParserBuffer)).1, dict := .osap OsapD.empty },
        (PBuf.shrink (ofPB t.ParserBuffer)).2)).1
  by_cases hd : (PBuf.shrink (ofPB t.ParserBuffer)).2 = 0
  · have hk := hzero hd
    have hb : ofPB s'.ParserBuffer = ofPB t.ParserBuffer := by rw [hof]; exact a6 hd
    have hdl' : (ofPB s'.ParserBuffer).data.length = s'.ParserBuffer.Data.len := data_length hwf.data
    have hdl := h.dataLen
    have hWeq : s'.ParserBuffer.W.toNat = t.ParserBuffer.W.toNat := congrArg PBuf.w hb
    rw [if_pos hd]
    refine ⟨s', by rw [hs, hd], ?_, ?_⟩
    · refine histOK_update hbc h s' hcf hcost hwf ?_ ?_ ?_ ?_ (by rw [hk.edges]; exact h.pok.wedges)
        (by rw [hk.edges]; exact h.pok.wq) (by rw [hk.tmp]; exact h.pok.wtmp) (by rw [hk.start]; exact h.pok.st0)
        (by rw [hk.nEdges]; exact h.pok.ne0) ?_
      · rw [hb]; exact h.cfg
      · rw [hb]; exact hmw
      · rw [hb]; exact hml
      · rw [hb]; exact h.cap
      · rw [hk.start]
        have h1 := h.pok.stw
        have h2 := h.pok.pb.w
        have h3 := hwf.w
        omega
    · show ({ kind := .OSAP, cfg := ofOSAP s'.OSAPConfig, buf := ofPB s'.ParserBuffer, dict := .osap (ofOD s') } : Parser) = _
      rw [hb, hcf]
      have : ofOD s' = ofOD t := hk.od
      rw [this]; rfl
  · have hk := hpos (by omega)
    obtain ⟨e1, e2, e3, e4, e5, e6⟩ := edgesReset_facts B hk
    rw [if_neg hd]
    refine ⟨s', hs, ?_, ?_⟩
    · refine histOK_update hbc h s' hcf hcost hwf ?_ ?_ ?_ ?_ e1 e2 e3 e4 e5 ?_
      · rw [hof, a4]; exact h.cfg
      · rw [hof, a1, List.length_drop]; omega
      · rw [hof, a1, List.length_drop]; omega
      · rw [hof]; exact capOK_shrink _ h.cap
      · rw [hk.start]; exact hwf.w
    · show ({ kind := .OSAP, cfg := ofOSAP s'.OSAPConfig, buf := ofPB s'.ParserBuffer, dict := .osap (ofOD s') } : Parser) = _
      rw [hof, hcf, e6]; rfl

/-! ## Reset -/

theorem hist_reset {bc : BufCfg} {B : Nat} (hbc : BCOKO bc) (t : Gen.optSuffixArrayParser) (h : HistOKO bc B t)
    (data : Slice) (hdat : SWF data) :
    ∃ t' e, optSuffixArrayParser_Reset t data = Res.ok (t', e) ∧ HistOKO bc B t' ∧
      ofOSAPs t' = ((ofOSAPs t).reset data.data (data.cap - data.len)).1 ∧
      errOfReset e = some ((ofOSAPs t).reset data.data (data.cap - data.len)).2 := by
  obtain ⟨s', e, hs, hof, herr, hwf, hcf, hcost, hok, hbad⟩ := gen_osap_reset t h.pok.pb data hdat
  have hmw := h.hw
  have hml : (ofPB t.ParserBuffer).data.length ≤ bc.bufferSize := by
    have := h.mlen
    have h2 : (ofPB t.ParserBuffer).cfg.bufferSize = bc.bufferSize := by rw [← h.cfg]; rfl
    omega
  rw [mreset_osap (ofOSAPs t) (ofOD t) rfl]
  have hiff := GenHash.errOfReset_ok_iff e _ herr
  rcases PBuf.reset_frame (ofPB t.ParserBuffer) data.data (data.cap - data.len) with
    ⟨b0, b1, b2, b3, b4, b5⟩ | ⟨b0, b1⟩
  · -- success
    have he : e = Gen.Err.ok := hiff.mpr b0
    have hk := hok he
    obtain ⟨e1, e2, e3, e4, e5, e6⟩ := edgesReset_facts B hk
    have b0' : ((ofOSAPs t).buf.reset data.data (data.cap - data.len)).2 = .ok := b0
    rw [if_pos b0']
    refine ⟨s', e, hs, ?_, ?_, herr⟩
    · refine histOK_update hbc h s' hcf hcost hwf ?_ ?_ ?_ ?_ e1 e2 e3 e4 e5 ?_
      · rw [hof, b4]; exact h.cfg
      · rw [hof, b2]; exact Nat.zero_le _
      · rw [hof, b1]
        have hno : ¬ (ofPB t.ParserBuffer).cfg.bufferSize < data.data.length := by
          intro hc
          have := (PBuf.reset_err_iff _ data.data (data.cap - data.len)).mpr hc
          rw [b0] at this; cases this
        have hcc : (ofPB t.ParserBuffer).cfg.bufferSize = bc.bufferSize := by rw [← h.cfg]; rfl
        omega
      · rw [hof]; exact b5
      · rw [hk.start]; exact hwf.w
    · show ({ kind := .OSAP, cfg := ofOSAP s'.OSAPConfig, buf := ofPB s'.ParserBuffer, dict := .osap (ofOD s') } : Parser) = _
      rw [hof, hcf, e6]; rfl
  · -- error: nothing changes
    have he : e ≠ Gen.Err.ok := fun hc => b0 (hiff.mp hc)
    have hk := hbad he
    have hb : ofPB s'.ParserBuffer = ofPB t.ParserBuffer := by rw [hof]; exact b1
    have hdl' : (ofPB s'.ParserBuffer).data.length = s'.ParserBuffer.Data.len := data_length hwf.data
    have hdl := h.dataLen
    have hWeq : s'.ParserBuffer.W.toNat = t.ParserBuffer.W.toNat := congrArg PBuf.w hb
    have b0' : ¬ ((ofOSAPs t).buf.reset data.data (data.cap - data.len)).2 = .ok := b0
    rw [if_neg b0']
    refine ⟨s', e, hs, ?_, ?_, herr⟩
    · refine histOK_update hbc h s' hcf hcost hwf ?_ ?_ ?_ ?_ (by rw [hk.edges]; exact h.pok.wedges)
        (by rw [hk.edges]; exact h.pok.wq) (by rw [hk.tmp]; exact h.pok.wtmp) (by rw [hk.start]; exact h.pok.st0)
        (by rw [hk.nEdges]; exact h.pok.ne0) ?_
      · rw [hb]; exact h.cfg
      · rw [hb]; exact hmw
      · rw [hb]; exact hml
      · rw [hb]; exact h.cap
      · rw [hk.start]
        have h1 := h.pok.stw
        have h2 := h.pok.pb.w
        have h3 := hwf.w
        omega
    · show ({ kind := .OSAP, cfg := ofOSAP s'.OSAPConfig, buf := ofPB s'.ParserBuffer, dict := .osap (ofOD s') } : Parser) = _
      rw [hb, hcf]
      have : ofOD s' = ofOD t := hk.od
      rw [this]; rfl

/-! ## Parse -/

/-- the facts about one model `parse` of an OSAP state satisfying the history invariant `Inv` of the parser topic
    (every reachable state: `history_inv_all`): only `W` moves, the error is `ok` or `empty`, and the sequences of the
    block fit `uint32`.  (The analogue of `GenHPHist.mparse_frame`, which excludes the `.osap` dictionary.) -/
theorem mparse_frame_osap {c : Cfg} {bc : BufCfg} (hS : Static .OSAP c bc) (s : Parser) (g : Ghost)
    (h : Inv .OSAP c bc (s, g)) (o : OsapD) (hd : s.dict = .osap o) (flags : Nat) (Bd : Nat)
    (hB : s.buf.data.length ≤ Bd) (hws : s.buf.cfg.windowSize ≤ Bd) :
    (s.parse flags).1.buf = { s.buf with w := s.buf.w + (s.parse flags).2.1 } ∧
    (s.parse flags).1.cfg = s.cfg ∧
    ((s.parse flags).2.2.1 = .ok ∨ (s.parse flags).2.2.1 = .empty) ∧
    ∀ q ∈ (s.parse flags).2.2.2.seqs, q.litLen ≤ Bd ∧ q.matchLen ≤ Bd ∧ q.offset ≤ Bd ∧ q.aux = 0 := by
  by_cases hn : s.blockN = 0
  · rw [Parser.parse_empty s flags hn]
    refine ⟨rfl, rfl, Or.inr rfl, ?_⟩
    intro q hq; cases hq
  · have hk := h.kind
    have hc := h.cfg
    have hbc := h.bcfg
    simp only at hk hc hbc
    have hmm : 1 ≤ s.minMatch := by rw [minMatch_eq, hk, hc]; exact hS.mm
    have hD := h.dict
    unfold DictOK at hD
    simp only [hd] at hD
    obtain ⟨hkO, hO⟩ := hD
    have hCE : ∀ data w w' n, w ≤ w' → w' + n ≤ data.length →
        EdgesSoundBlock (data.take (w' + n)) w' s.buf.cfg.windowSize s.cfg.maxMatchLen.toNat n
          (computeEdges data w s.buf.cfg.windowSize s.minMatch s.cfg.maxMatchLen.toNat).edges
          (w' - w) := by
      rw [minMatch_eq, hk, hc, hbc]; exact hS.edges rfl
    obtain ⟨hE', hO'⟩ := OsapOK.next s o h.hw hCE hO
    obtain ⟨s', n, blk, hp, hok, hd'⟩ := Parser.parse_osap_ok_block s flags o hd h.hw hn hmm hE'
    rw [hp]
    refine ⟨hok.buf, hok.cfg, Or.inl rfl, ?_⟩
    intro q hq
    have hlen := hok.block.len
    have hlits := hok.block.lits
    have hnle := hok.n_le
    have hbn := s.blockN_le
    have hw := h.hw
    simp only at hw
    obtain ⟨pos', hq'⟩ := seqsAll_mem _ _ hok.block.all q hq
    have hwf : SeqWF s.buf.cfg.windowSize s.minMatch pos' q := hq'.1.1
    have hl : q.litLen ≤ litSum blk.seqs := mem_le_sum _ _ (List.mem_map.mpr ⟨q, hq, rfl⟩)
    have hm : q.matchLen ≤ matchSum blk.seqs := mem_le_sum _ _ (List.mem_map.mpr ⟨q, hq, rfl⟩)
    have hbl : blk.len = blk.lits.length + matchSum blk.seqs := Block.len_eq blk
    have h2 := hwf.2.1
    exact ⟨by omega, by omega, by omega, hwf.2.2.2.2⟩

/-- the history hypothesis of the parser topic for OSAP: `computeEdges` is sound (as `histHyp_holds` of
    LzProofs/GlueProps.lean, which cannot be imported next to LzProofs/IdxOsap.lean: both declare `LZ.step_fst`) -/
theorem histHyp_osap (s0 : Parser) : HistHyp .OSAP s0 := by
  intro _ data w w' n hw hn
  exact Sap.computeEdges_sound_of_segFacts Sap.segmentsFacts_holds data w _ _ _ hw hn

/-- the history invariant of the parser topic in every reachable OSAP state -/
theorem history_inv_osap (raw : Cfg) (s0 : Parser) (h0 : newParser .OSAP raw = some s0) (ops : List POp) :
    Inv .OSAP s0.cfg s0.buf.cfg (runOps (s0, Ghost.init) ops) :=
  history_inv .OSAP raw s0 h0 (histHyp_osap s0) ops

/-- `Static` for every accepted OSAP configuration -/
theorem static_osap (raw : Cfg) (p0 : Parser) (h0 : newParser .OSAP raw = some p0) :
    Static .OSAP p0.cfg p0.buf.cfg := by
  obtain ⟨-, hmm, hbs⟩ := newParser_inv .OSAP raw p0 h0
  exact ⟨hmm, hbs, histHyp_osap p0⟩

/-- `Parse` on a Go state with `HistOKO` whose model state is REACHABLE from `NewParser`: `gen_osap_parse_model`
    applies; all its hypotheses follow from `HistOKO` and `CESpec B ce`. -/
theorem hist_parse {bc : BufCfg} {B : Nat} (hbc : BCOKO bc) (grow : Nat → Nat → Nat) (fuel : Nat)
    (ce : Gen.optSuffixArrayParser → Res Gen.optSuffixArrayParser) (hCE : CESpec B ce)
    (t : Gen.optSuffixArrayParser) (h : HistOKO bc B t)
    (raw : Cfg) (p0 : Parser) (h0 : newParser .OSAP raw = some p0) (mops : List POp)
    (hreach : ofOSAPs t = (runOps (p0, Ghost.init) mops).1)
    (blk : Gen.Block') (flags : Int) (hfl : 0 ≤ flags)
    (hfuel : t.ParserBuffer.Data.len + B + 5 ≤ fuel) :
    ∃ t' blk', optSuffixArrayParser_Parse grow fuel ce t blk flags =
        Res.ok (t', blk', (((ofOSAPs t).parse flags.toNat).2.1 : Int),
          parseErr ((ofOSAPs t).parse flags.toNat).2.2.1) ∧
      HistOKO bc B t' ∧ ofOSAPs t' = ((ofOSAPs t).parse flags.toNat).1 ∧
      ofBlock blk' = ((ofOSAPs t).parse flags.toNat).2.2.2 ∧ SWF blk'.Literals ∧
      (((ofOSAPs t).parse flags.toNat).2.2.1 = .ok ∨ ((ofOSAPs t).parse flags.toNat).2.2.1 = .empty) := by
  have hbm := hbc.bmax
  have hwm := hbc.wmax
  have hcfgE : (ofPB t.ParserBuffer).cfg = bc := h.cfg
  have hinv : Inv .OSAP p0.cfg p0.buf.cfg (ofOSAPs t, (runOps (p0, Ghost.init) mops).2) := by
    have := history_inv_osap raw p0 h0 mops
    rw [hreach]; exact this
  obtain ⟨f1, f2, herr, f4⟩ := mparse_frame_osap (static_osap raw p0 h0) (ofOSAPs t) _ hinv (ofOD t) rfl flags.toNat
    4294967288
    (by have := h.mlen; rw [hcfgE] at this; show (ofPB t.ParserBuffer).data.length ≤ _; omega)
    (by show (ofPB t.ParserBuffer).cfg.windowSize ≤ _; rw [hcfgE]; exact hwm)
  obtain ⟨t', blk', h1, h2, h5, h6, h7, h8⟩ :=
    gen_osap_parse_model B grow fuel ce hCE t blk flags h.pok hfl hfuel raw p0 h0 mops hreach
  generalize (ofOSAPs t).parse flags.toNat = R at h1 h2 h5 h6 f1 f2 f4 herr ⊢
  obtain ⟨s', n, e, b⟩ := R
  simp only at h1 h2 h5 h6 f1 f2 f4 herr ⊢
  have hbuf : ofPB t'.ParserBuffer = { ofPB t.ParserBuffer with w := (ofPB t.ParserBuffer).w + n } := by
    have := congrArg Parser.buf h2
    rw [f1] at this
    exact this.symm
  refine ⟨t', blk', h1, ?_, h2.symm, ?_, h7, herr⟩
  · refine ⟨h8, ?_, ?_, ?_⟩
    · have : (ofPB t'.ParserBuffer).cfg = (ofPB t.ParserBuffer).cfg := by rw [hbuf]
      exact this.trans h.cfg
    · have e1 : (ofPB t'.ParserBuffer).data = (ofPB t.ParserBuffer).data := by rw [hbuf]
      have e2 := congrArg List.length e1
      have d1 : (ofPB t'.ParserBuffer).data.length = t'.ParserBuffer.Data.len := data_length h8.pb.data
      have d2 := h.dataLen
      have := h.len
      omega
    · have hc := h.cap
      unfold PBuf.CapOK at hc ⊢
      rw [hbuf]; exact hc
  · have hmap : List.map (ofSeq ∘ seqRep) b.seqs = b.seqs := by
      conv => rhs; rw [← List.map_id b.seqs]
      apply List.map_congr_left
      intro q hq
      obtain ⟨g1, g2, g3, g4⟩ := f4 q hq
      exact ofSeq_seqRep q (by omega) (by omega) (by omega) g4
    unfold ofBlock
    rw [h5, h6, List.map_map, hmap]

/-! ## init -/

/-- `init(cfg)` on `new(optSuffixArrayParser)`: if it returns `nil` (and the stored `MinMatchLen` is below `2^32`, which
    `Verify` does not check: notes/osap-translate.md §6 (a)), the configuration is one the model's `NewParser` accepts,
    the Go state abstracts to the model's fresh parser, and `HistOKO` holds for its buffer configuration, for every
    bound `B`. -/
theorem hist_init (B : Nat) (cfg : Gen.OSAPConfig) (s0 : Gen.optSuffixArrayParser)
    (hinit : optSuffixArrayParser_init default cfg = Res.ok (s0, Gen.Err.ok))
    (h32 : s0.OSAPConfig.MinMatchLen < 4294967296) :
    ∃ p, newParser .OSAP (ofOSAP cfg) = some p ∧ ofOSAPs s0 = p ∧ BCOKO p.buf.cfg ∧ HistOKO p.buf.cfg B s0 := by
  have hv : OSAPConfig_Verify (OSAPConfig_SetDefaults cfg) = Gen.Err.ok := by
    by_cases hv : OSAPConfig_Verify (OSAPConfig_SetDefaults cfg) = Gen.Err.ok
    · exact hv
    · have := (gen_osap_init default cfg).1 hv
      rw [hinit] at this
      injection this with this
      injection this with _ this
      exact this.symm
  -- the model's fresh parser
  cases hnp : newParser .OSAP (ofOSAP cfg) with
  | none =>
    have := gen_osap_init_model default (ofOSAP cfg)
    rw [hnp, toOSAP_ofOSAP] at this
    obtain ⟨e, h1, h2⟩ := this
    rw [hinit] at h1
    injection h1 with h1
    injection h1 with _ h1
    exact absurd h1.symm h2
  | some p =>
    obtain ⟨s', h1, h2, -⟩ := gen_osap_init_fresh (ofOSAP cfg) p hnp
    rw [toOSAP_ofOSAP, hinit] at h1
    injection h1 with h1
    injection h1 with h1 _
    subst h1
    have hof : ofOSAPs s0 = p := h2
    -- the invariant
    obtain ⟨s'', k1, kc, -⟩ := gen_osap_init_inv default cfg hv
    rw [hinit] at k1
    injection k1 with k1
    injection k1 with k1 _
    subst k1
    obtain ⟨s'', k1, kP⟩ := gen_osap_init_parseOK B default cfg hv (by rw [← kc]; exact h32)
    rw [hinit] at k1
    injection k1 with k1
    injection k1 with k1 _
    subst k1
    have hbuf : ofPB s0.ParserBuffer = p.buf := congrArg Parser.buf hof
    have hpini : p.buf = PBuf.init (setDefaults .OSAP ((ofOSAP cfg).restrict .OSAP)).bufCfg := by
      unfold newParser at hnp
      simp only [] at hnp
      split at hnp
      · simp only [Option.some.injEq] at hnp
        rw [← hnp]
      · cases hnp
    have hd : (ofPB s0.ParserBuffer).data = [] := by rw [hbuf, hpini]; rfl
    have hlen : s0.ParserBuffer.Data.len = 0 := by
      have := data_length kP.pb.data
      have hd' : s0.ParserBuffer.Data.data = [] := hd
      rw [hd'] at this; exact this.symm
    obtain ⟨hvb, -, -, -, hbmax⟩ := osap_verify_parts _ hv
    have hbv := (bufVerify_iff _).mp ((gen_bufVerify _).mp hvb)
    simp only [ofBuf] at hbv
    have hcfg : (ofPB s0.ParserBuffer).cfg = p.buf.cfg := by rw [hbuf]
    -- the buffer configuration the Go state stores, in terms of the defaults-completed OSAPConfig
    obtain ⟨hi, hvb2⟩ := osap_init_bc cfg hv
    obtain ⟨s3, j1, jof, -⟩ := ((gen_osap_init default cfg).2 hv).2 hvb2
    rw [hinit] at j1
    injection j1 with j1
    injection j1 with j1 _
    subst j1
    rw [hi] at jof
    have hbcE : (ofPB s0.ParserBuffer).cfg = ofCfg ⟨(OSAPConfig_SetDefaults cfg).ShrinkSize,
        (OSAPConfig_SetDefaults cfg).BufferSize, (OSAPConfig_SetDefaults cfg).WindowSize,
        (OSAPConfig_SetDefaults cfg).BlockSize⟩ := by rw [jof]; rfl
    refine ⟨p, rfl, hof, ?_, ?_⟩
    · rw [← hcfg, hbcE]
      refine ⟨?_, ?_⟩
      · show (OSAPConfig_SetDefaults cfg).BufferSize.toNat ≤ _
        omega
      · show (OSAPConfig_SetDefaults cfg).WindowSize.toNat ≤ _
        have := hbv.2.2.1.2
        omega
    · refine ⟨kP, hcfg, by rw [hlen]; exact Nat.zero_le _, Or.inl hd⟩

end LZ.GenOSAPHist

#print axioms LZ.GenOSAPHist.hist_write
#print axioms LZ.GenOSAPHist.hist_readFrom
#print axioms LZ.GenOSAPHist.hist_shrink
#print axioms LZ.GenOSAPHist.hist_reset
#print axioms LZ.GenOSAPHist.mparse_frame_osap
#print axioms LZ.GenOSAPHist.hist_parse
#print axioms LZ.GenOSAPHist.hist_init
