/-
  LzProofs.IdxOsap — C16 ("never panics") for the index / slice expressions of osap.go, and the
  combined statement `parseChk` for the two suffix-array parsers.

  As in LzProofs/IdxGsap.lean: the model of `computeEdges`, `shortestPath` and the path conversion
  (LzModel/Sap.lean, LzModel/Parser.lean) uses the total accessors `getD`, `setIfInBounds`, `drop`,
  `take` and truncated subtraction; here every one of them is range-checked (`none` = Go panics, or
  Go and the model diverge) and `checked = some unchecked` is proved

    §1  checked model            `edgeCallbackChk`, `edgeStepChk`, `computeEdgesChk`,
                                 `relax1Chk`, `relaxLensChk`, `relaxEdgesChk`, `litRelaxChk`, `dpLoopChk`,
                                 `backtrackChk`, `shortestPathChk`, `pathToSeqsChk`, `parseOsapChk`
    §2  the DP and back-tracking `shortestPathChk_eq`   (invariant `Sap.Good` of LzProofs/DpProps.lean)
    §3  the edge table           `computeEdgesChk_eq`   (suffix-array facts `Sap.CEHyps` / `SegHyps`)
    §4  the path conversion      `pathToSeqsChk_eq`     (`Sap.shortestPath_len`)
    §5  one `Parse` call         `parseOsapChk_eq`
    §6  history level            `osap_parseChk_reachable`, `Parser.parseChk`, `C16_index_reachable`
    §7  non-vacuity, `#print axioms`

  Go expression (osap.go)                     checked model expression                bound used
  ------------------------------------------------------------------------------------------------------
  computeEdges
   L265 `k := len(data) - s.start`, `make(k)` `if w ≤ data.length`                     W ≤ len(Data)  (`Inv.hw`)
   L267/273 `s.edges[:k]`, `s.edgeBuf[:k]`    — guarded by `k < cap(...)` in the Go code
   L281 `s.edges[i] = s.edgeBuf[k:k:k+4]`     — `i < len(edges)`, `4i+4 ≤ 4·len(edges) = len(edgeBuf)` (arithmetic of
                                                the two lines above; the model has no `edgeBuf`)
   L295 `t := data[winStart:]`                `sliceFromChk data (w - ws)`              doz(W, ws) ≤ W ≤ len(Data)
   L299 `suffix.LCP`: `sainv[sa[j]] = j`      `invertSAChk`                             sa is a permutation
        `_lcp`: `sainv[i]`, `sa[k-1]`,        `kasaiLoopChk` (LzProofs/Kasai.lean)       `kasai_no_panic`
        `t[i+l:]`, `t[j+l:]`, `lcp[k] =`
   L358 `Segments`: argument panics           `segments32 … = none ↦ none`              len(Data) ≤ MaxInt32 (D18, `Verify`)
        `f(m, sa[lo:hi])`  (segments.go)      `edgeStepChk`: `sliceChk saL lo hi`       `SegHyps.sound`: lo < hi ≤ len(sa)
   L337/344 `seg[j]`, `seg[j-1]`              — `0 < j ≤ len(seg)-1` by the loop header (list pattern in the model)
   L348 `p := &s.edges[k]`  (read)            `edgeCallbackChk`: `edges[k.toNat]?`      k = i + winStart - W, i < len(t) = len(Data) - winStart
   L355 `*p = append(*p, …)` (write)          `edgeCallbackChk`: `setChk edges k.toNat` same
  shortestPath
   L379 `k := s.W - s.start`                  `parseOsapChk`: `if o.start ≤ w`          `OsapOK`: start ≤ W
   L380 `edges := s.edges[k : k+n]`           `shortestPathChk`: `if k0 + n ≤ |edges|`  the test `W+n > start+len(edges)` of `Parse` L454
   L396 `range edges` (`q := edges[i]`)       `dpLoopChk`: `edges[k0 + i]?`             i < n
   L398 `d[i-1]`, `d[i]`, L399 `d[i] =`       `litRelaxChk`: `d[i-1]?`, `relax1Chk d i` i ≤ n, |d| = n+1
   L402 `d[i].c`                              `dpLoopChk`: `d[i]?`                      i < n
   L405/409 `q[k]`                            — `0 ≤ k < len(q)` by the loop header (list in the model)
   L413 `d[j].c`, L414 `d[j] =`  (j = i+m)    `relaxLensChk`: `relax1Chk d (i+m)`       m ≤ max ≤ maxLen = n - i
   L420 `d[n-1]`, `d[n]`, L421 `d[n] =`       `shortestPathChk`: `n = 0 ↦ none`, `litRelaxChk d n`   n ≥ 1 (`Parse` L450), |d| = n+1
   L426 `d[i]` in the back-tracking           `backtrackChk`: `d[i]?`                   i ≤ n
   L428 `i -= m`  (uint32: wraps for m > i)   `backtrackChk`: `if e.m ≤ i`              `Good`: 1 ≤ d[i].m ≤ i
   L425 `for i != 0` (terminates?)            `backtrackChk`: fuel `n`, `none` if it runs out     `Good`: d[i].m ≥ 1
  Parse
   L461 `s.Data[w:s.W]`                       `sliceChk data w (w+n)`                   n ≤ len(Data) - W
   L465 `s.tmp[:0]`                           — constant
   L468 `p := s.Data[:s.W+n]`                 `sliceToChk data (w+n)`                   n ≤ len(Data) - W
   L470 `sp[j]`                               — loop header (list in the model)
   L475 `q := p[litIndex:i]`                  `pathToSeqsChk`: `sliceChk p li i`        li ≤ i, i + (rest of the path) = W + n
   L489 `p[litIndex:]`                        `sliceFromChk p li`                       li ≤ W + n
  Not covered (not transliterated at index level in the model): the interior of `suffix.Sort`
  (`saSpec` is a specification), the stack of `scanLCP` in segments.go (a list in the model; its `lcp[j]`
  reads are guarded by `j < lcp.size` in the model itself), `slices.Sort`, `append`, and uint32 overflow of
  `i`, `litIndex` (`uint32(s.W)`) — positions are `≤ BufferSize ≤ MaxInt32` for every accepted configuration.
-/
import LzProofs.IdxGsap
import LzProofs.Int32AllRuns
namespace LZ
open Parser PBuf
namespace Idx

/-! ## 1. the checked model of OSAP -/

/-- the callback `f(m, seg)` of `computeEdges` with `s.edges[k]` checked (read and write) -/
def edgeCallbackChk (ws : Nat) (w : Int) (m : Nat) :
    List Nat → Array (List Edge) × Nat → Option (Array (List Edge) × Nat)
  | i :: prev :: rest, (edges, cnt) =>
    let k : Int := (i : Int) + w
    if k < 0 then some (edges, cnt)          -- break
    else
      let o := i - prev
      match edges[k.toNat]? with
      | none => none
      | some cur =>
        let skip : Bool := decide (o > ws) || (match cur.getLast? with | some e => decide (e.2 ≤ o) | none => false)
        if skip then edgeCallbackChk ws w m (prev :: rest) (edges, cnt)
        else
          match setChk edges k.toNat (cur ++ [(m, o)]) with
          | none => none
          | some edges' => edgeCallbackChk ws w m (prev :: rest) (edges', cnt + 1)
  | _, acc => some acc

/-- one callback `f(m, sa[lo:hi])` issued by `Segments`: the slice of `sa` checked -/
def edgeStepChk (saL : List Nat) (ws : Nat) (woff : Int) (acc : Array (List Edge) × Nat)
    (cb : Callback) : Option (Array (List Edge) × Nat) :=
  match sliceChk saL cb.2.1 cb.2.2 with
  | none => none
  | some seg0 =>
    edgeCallbackChk ws woff cb.1 (seg0.mergeSort (fun a b => decide (a ≤ b))).reverse acc

/-- `computeEdges()` checked -/
def computeEdgesChk (data : List Byte) (w ws minMatch maxMatch : Nat) : Option OsapD :=
  if w ≤ data.length then
    let k := data.length - w
    let edges0 : Array (List Edge) := Array.replicate k []
    if data.length = 0 then some { edges := edges0, start := w, nEdges := 0 }
    else
      let winStart := w - ws
      match sliceFromChk data winStart with
      | none => none
      | some t =>
        let saL := saSpec t
        let sa := saL.toArray
        match invertSAChk sa with
        | none => none
        | some isa =>
          match kasaiLoopChk t sa isa isa.size 0 0 (Array.replicate t.length 0) with
          | none => none
          | some lcp =>
            let maxLen := min (lcp.foldl max 0) maxMatch
            let woff : Int := (winStart : Int) - (w : Int)
            match segments32 sa.size lcp (minMatch : Int) (maxLen : Int) with
            | none => none
            | some cbs =>
              match cbs.foldlM (edgeStepChk saL ws woff) (edges0, 0) with
              | none => none
              | some r => some { edges := r.1, start := w, nEdges := r.2 }
  else none

/-- `if e.c < d[j].c { d[j] = e }` -/
def relax1Chk (d : Array Opt) (j : Nat) (e : Opt) : Option (Array Opt) :=
  match d[j]? with
  | none => none
  | some x => if e.c < x.c then setChk d j e else some d

def relaxLensChk (minMatch i ci o : Nat) : Nat → Nat → Array Opt → Option (Array Opt)
  | 0, _, d => some d
  | cnt+1, m, d =>
    match relax1Chk d (i + m) ⟨m, o, ci + xzCost m o⟩ with
    | none => none
    | some d' => relaxLensChk minMatch i ci o cnt (m+1) d'

def relaxEdgesChk (minMatch i ci maxLen : Nat) : List Edge → Array Opt → Option (Array Opt)
  | [], d => some d
  | (mx, o) :: rest, d =>
    let mx' := min mx maxLen
    match relaxLensChk minMatch i ci o (mx' + 1 - minMatch) minMatch d with
    | none => none
    | some d' => relaxEdgesChk minMatch i ci maxLen rest d'

/-- `if i > 0 { if c := d[i-1].c + lit; c < d[i].c { d[i] = … } }` -/
def litRelaxChk (d : Array Opt) (i : Nat) : Option (Array Opt) :=
  if i > 0 then
    match d[i-1]? with
    | none => none
    | some x => relax1Chk d i ⟨1, 0, x.c + xzCost 1 0⟩
  else some d

def dpLoopChk (minMatch n : Nat) (edges : Array (List Edge)) (k0 : Nat) :
    Nat → Nat → Array Opt → Option (Array Opt)
  | 0, _, d => some d
  | fuel+1, i, d =>
    match litRelaxChk d i with
    | none => none
    | some d =>
      match d[i]? with
      | none => none
      | some x =>
        match edges[k0 + i]? with
        | none => none
        | some q =>
          match relaxEdgesChk minMatch i x.c (n - i) q.reverse d with
          | none => none
          | some d => dpLoopChk minMatch n edges k0 fuel (i+1) d

/-- back-tracking: `d[i]` checked, `i -= m` must not wrap, and the loop must end within the fuel -/
def backtrackChk (d : Array Opt) : Nat → Nat → List Edge → Option (List Edge)
  | 0, i, acc => if i = 0 then some acc else none
  | fuel+1, i, acc =>
    if i = 0 then some acc
    else
      match d[i]? with
      | none => none
      | some e => if e.m ≤ i then backtrackChk d fuel (i - e.m) ((e.m, e.o) :: acc) else none

def shortestPathChk (minMatch n : Nat) (edges : Array (List Edge)) (k0 : Nat) : Option (List Edge) :=
  if k0 + n ≤ edges.size then
    let d0 : Array Opt := (Array.range (n+1)).map fun i => if i = 0 then ⟨0, 0, 0⟩ else ⟨1, 0, xzCost i 0⟩
    match dpLoopChk minMatch n edges k0 n 0 d0 with
    | none => none
    | some d =>
      if n = 0 then none     -- `d[n-1]`
      else
        match litRelaxChk d n with
        | none => none
        | some d => backtrackChk d n n []
  else none

def pathToSeqsChk (p : List Byte) :
    List Edge → Nat → Nat → List Seq → List Byte → Option (List Seq × List Byte × Nat × Nat)
  | [], i, li, seqs, lits => some (seqs, lits, i, li)
  | (m, o) :: rest, i, li, seqs, lits =>
    if o = 0 then pathToSeqsChk p rest (i + m) li seqs lits
    else
      match sliceChk p li i with
      | none => none
      | some q =>
        pathToSeqsChk p rest (i + m) (i + m)
          (seqs ++ [{ litLen := q.length, matchLen := m, offset := o }]) (lits ++ q)

/-- the `.osap` branch of `Parser.parse`, every index / slice expression checked -/
def parseOsapChk (s : Parser) (o : OsapD) (flags : Nat) : Option (Parser × Nat × Err × Block) :=
  let n := s.blockN
  if n = 0 then some (s, 0, .empty, ⟨[], []⟩)
  else
    let w := s.buf.w
    let data := s.buf.data
    match (if w + n > o.start + o.edges.size then
             computeEdgesChk data w s.buf.cfg.windowSize s.minMatch s.cfg.maxMatchLen.toNat
           else some o) with
    | none => none
    | some o =>
      if o.nEdges = 0 then
        match sliceChk data w (w + n) with
        | none => none
        | some lits =>
          some ({ s with buf := { s.buf with w := w + n }, dict := .osap o }, n, .ok, ⟨[], lits⟩)
      else if o.start ≤ w then
        match shortestPathChk s.minMatch n o.edges (w - o.start) with
        | none => none
        | some path =>
          match sliceToChk data (w + n) with
          | none => none
          | some p =>
            match pathToSeqsChk p path w w [] [] with
            | none => none
            | some r =>
              if flags % 2 = 1 ∧ r.1 ≠ [] then
                some ({ s with buf := { s.buf with w := r.2.2.2 }, dict := .osap o }, r.2.2.2 - w, .ok,
                      ⟨r.1, r.2.1⟩)
              else
                match sliceFromChk p r.2.2.2 with
                | none => none
                | some tail =>
                  some ({ s with buf := { s.buf with w := p.length }, dict := .osap o }, p.length - w, .ok,
                        ⟨r.1, r.2.1 ++ tail⟩)
      else none

/-! ## 2. the DP and the back-tracking -/

open Sap (cst relax1 Good GoodEntry litRelax dFinal)

theorem relax1Chk_eq (d : Array Opt) (j : Nat) (e : Opt) (h : j < d.size) :
    relax1Chk d j e = some (relax1 d j e) := by
  unfold relax1Chk relax1
  rw [getElem?_getD d j default h]
  by_cases hc : e.c < (d.getD j default).c
  · simp only [hc, if_true]; exact setChk_eq _ _ _ h
  · simp only [hc, if_false]

theorem relaxLensChk_eq (minMatch i ci o N : Nat) : ∀ (cnt m : Nat) (d : Array Opt), d.size = N →
    (cnt = 0 ∨ i + m + cnt ≤ N) →
    relaxLensChk minMatch i ci o cnt m d = some (relaxLens minMatch i ci o cnt m d) := by
  intro cnt
  induction cnt with
  | zero => intro m d _ _; rfl
  | succ cnt ih =>
    intro m d hd h
    unfold relaxLensChk relaxLens
    rw [relax1Chk_eq d (i + m) _ (by omega)]
    simp only
    exact ih (m+1) _ (by rw [← hd]; exact Sap.relax1_size _ _ _) (by omega)

theorem relaxLens_size (minMatch i ci o : Nat) : ∀ (cnt m : Nat) (d : Array Opt),
    (relaxLens minMatch i ci o cnt m d).size = d.size := by
  intro cnt
  induction cnt with
  | zero => intro m d; rfl
  | succ cnt ih =>
    intro m d
    unfold relaxLens
    simp only
    rw [ih]
    exact Sap.relax1_size d (i + m) ⟨m, o, ci + xzCost m o⟩

theorem relaxEdgesChk_eq (minMatch i ci maxLen N : Nat) (hN : i + maxLen + 1 ≤ N) :
    ∀ (es : List Edge) (d : Array Opt), d.size = N →
      relaxEdgesChk minMatch i ci maxLen es d = some (relaxEdges minMatch i ci maxLen es d) ∧
      (relaxEdges minMatch i ci maxLen es d).size = N := by
  intro es
  induction es with
  | nil => intro d hd; exact ⟨rfl, hd⟩
  | cons e rest ih =>
    intro d hd
    obtain ⟨mx, o⟩ := e
    unfold relaxEdgesChk relaxEdges
    simp only
    rw [relaxLensChk_eq minMatch i ci o N _ _ d hd (by omega)]
    simp only
    exact ih _ (by rw [relaxLens_size]; exact hd)

theorem litRelaxChk_eq (d : Array Opt) (i : Nat) (h : i < d.size) :
    litRelaxChk d i = some (litRelax d i) := by
  unfold litRelaxChk litRelax
  split
  · rw [getElem?_getD d (i-1) default (by omega)]
    simp only
    exact relax1Chk_eq d i _ h
  · rfl

theorem litRelax_size (d : Array Opt) (i : Nat) : (litRelax d i).size = d.size := by
  unfold litRelax; split
  · exact Sap.relax1_size _ _ _
  · rfl

/-- the forward pass never indexes out of range: `|d| = n + 1`, `k0 + n ≤ |edges|` -/
theorem dpLoopChk_eq (minMatch n : Nat) (edges : Array (List Edge)) (k0 : Nat)
    (he : k0 + n ≤ edges.size) : ∀ (fuel i : Nat) (d : Array Opt), i + fuel = n → d.size = n + 1 →
      dpLoopChk minMatch n edges k0 fuel i d = some (dpLoop minMatch n edges k0 fuel i d) := by
  intro fuel
  induction fuel with
  | zero => intro i d _ _; rfl
  | succ fuel ih =>
    intro i d hi hd
    rw [Sap.dpLoop_step_eq]
    unfold dpLoopChk
    rw [litRelaxChk_eq d i (by omega)]
    simp only
    have hs1 : (litRelax d i).size = n + 1 := by rw [litRelax_size]; exact hd
    rw [getElem?_getD (litRelax d i) i default (by omega),
      getElem?_getD edges (k0 + i) [] (by omega)]
    simp only
    obtain ⟨e1, e2⟩ := relaxEdgesChk_eq minMatch i ((litRelax d i).getD i default).c (n - i) (n + 1)
      (by omega) (edges.getD (k0 + i) []).reverse (litRelax d i) hs1
    rw [e1]
    simp only
    exact ih (i+1) _ (by omega) e2

theorem dpLoop_size (minMatch n : Nat) (edges : Array (List Edge)) (k0 : Nat) :
    ∀ (fuel i : Nat) (d : Array Opt), i + fuel = n → d.size = n + 1 →
      (dpLoop minMatch n edges k0 fuel i d).size = n + 1 := by
  intro fuel
  induction fuel with
  | zero => intro i d _ hd; exact hd
  | succ fuel ih =>
    intro i d hi hd
    rw [Sap.dpLoop_step_eq]
    apply ih (i+1) _ (by omega)
    exact (relaxEdgesChk_eq minMatch i _ (n - i) (n + 1) (by omega) _ _
      (by rw [litRelax_size]; exact hd)).2

/-- the back-tracking never indexes out of range, never wraps and ends within `n` steps: every
    entry of a `Good` table has `1 ≤ m ≤ j` -/
theorem backtrackChk_eq (minMatch n : Nat) (edges : Array (List Edge)) (k0 : Nat) {d : Array Opt}
    (hg : Good minMatch n edges k0 d) (hd : d.size = n + 1) :
    ∀ (fuel i : Nat) (acc : List Edge), i ≤ fuel → i ≤ n →
      backtrackChk d fuel i acc = some (backtrack d fuel i acc) := by
  intro fuel
  induction fuel with
  | zero =>
    intro i acc hi _
    have : i = 0 := by omega
    subst this; rfl
  | succ fuel ih =>
    intro i acc hi hin
    unfold backtrackChk backtrack
    by_cases h0 : i = 0
    · simp only [h0, if_true]
    · simp only [h0, if_false]
      obtain ⟨g1, g2, -, -⟩ := hg i (by omega) hin
      rw [getElem?_getD d i default (by omega)]
      simp only
      rw [if_pos g2]
      exact ih _ _ (by omega) (by omega)

/-- **`shortestPath` never indexes out of range** for a block of `n ≥ 1` bytes covered by the edge
    table (`k0 + n ≤ |edges|`) -/
theorem shortestPathChk_eq (minMatch n : Nat) (edges : Array (List Edge)) (k0 : Nat)
    (hn : n ≠ 0) (he : k0 + n ≤ edges.size) :
    shortestPathChk minMatch n edges k0 = some (shortestPath minMatch n edges k0) := by
  have hd0 : (Sap.d0 n).size = n + 1 := by simp [Sap.d0]
  have hds := dpLoop_size minMatch n edges k0 n 0 (Sap.d0 n) (by omega) hd0
  rw [Sap.shortestPath_eq]
  unfold shortestPathChk
  rw [if_pos he]
  simp only
  have := dpLoopChk_eq minMatch n edges k0 he n 0 (Sap.d0 n) (by omega) hd0
  unfold Sap.d0 at this
  rw [this]
  simp only [hn, if_false]
  have h2 := litRelaxChk_eq (dpLoop minMatch n edges k0 n 0 (Sap.d0 n)) n (by omega)
  unfold Sap.d0 at h2
  rw [h2]
  simp only
  have hc := Sap.dFinal_closed minMatch n edges k0
  exact backtrackChk_eq minMatch n edges k0 hc.good (by
    unfold dFinal; rw [litRelax_size]; exact hds) n n [] (Nat.le_refl _) (Nat.le_refl _)

/-! ## 3. the edge table -/

open Sap (edgeStep sortedSeg ceT ceLcp ceMaxLcp ceMaxLen ceSegs CEHyps SegHyps)

/-- the callback never indexes `s.edges` out of range when every position of the segment, shifted
    by `woff = winStart - W`, lies below `len(s.edges)` -/
theorem edgeCallbackChk_eq (ws : Nat) (woff : Int) (m : Nat) :
    ∀ (desc : List Nat) (edges : Array (List Edge)) (cnt : Nat),
      (∀ x ∈ desc, (x : Int) + woff < (edges.size : Int)) →
      edgeCallbackChk ws woff m desc (edges, cnt) = some (edgeCallback ws woff m desc (edges, cnt)) ∧
      (edgeCallback ws woff m desc (edges, cnt)).1.size = edges.size
  | [], edges, cnt, _ => by simp [edgeCallbackChk, edgeCallback]
  | [a], edges, cnt, _ => by simp [edgeCallbackChk, edgeCallback]
  | i :: prev :: rest, edges, cnt, h => by
    have hrest : ∀ x ∈ prev :: rest, (x : Int) + woff < (edges.size : Int) :=
      fun x hx => h x (List.mem_cons_of_mem _ hx)
    unfold edgeCallbackChk edgeCallback
    simp only
    by_cases hk : (i : Int) + woff < 0
    · simp only [hk, if_true, and_self]
    · simp only [hk, if_false]
      have hlt : ((i : Int) + woff).toNat < edges.size := by
        have := h i List.mem_cons_self
        omega
      rw [getElem?_getD edges _ [] hlt]
      simp only
      generalize (decide (i - prev > ws) || _) = skip
      cases skip with
      | true =>
        simp only [if_true]
        exact edgeCallbackChk_eq ws woff m (prev :: rest) edges cnt hrest
      | false =>
        simp only [Bool.false_eq_true, if_false]
        rw [setChk_eq _ _ _ hlt]
        simp only
        have := edgeCallbackChk_eq ws woff m (prev :: rest)
          (edges.setIfInBounds ((i : Int) + woff).toNat
            (edges.getD ((i : Int) + woff).toNat [] ++ [(m, i - prev)])) (cnt + 1)
          (by simpa using hrest)
        exact ⟨this.1, by rw [this.2]; simp⟩

theorem mem_of_mem_sortedSeg {saL : List Nat} {lo hi x : Nat} (h : x ∈ sortedSeg saL lo hi) : x ∈ saL := by
  obtain ⟨r, -, -, hr, e⟩ := Sap.mem_sortedSeg.1 h
  rw [List.getD_eq_getElem?_getD, List.getElem?_eq_getElem hr] at e
  rw [← e]; exact List.getElem_mem hr

/-- all callbacks of `Segments`: the slices `sa[lo:hi]` are in range and so are the `edges[k]` -/
theorem foldlM_edges (saL : List Nat) (ws : Nat) (woff : Int) (K : Nat)
    (hsa : ∀ x ∈ saL, (x : Int) + woff < (K : Int)) :
    ∀ (cbs : List Callback) (st : Array (List Edge) × Nat), st.1.size = K →
      (∀ cb ∈ cbs, cb.2.1 ≤ cb.2.2 ∧ cb.2.2 ≤ saL.length) →
      cbs.foldlM (edgeStepChk saL ws woff) st = some (cbs.foldl (edgeStep saL ws woff) st) := by
  intro cbs
  induction cbs with
  | nil => intro st _ _; rfl
  | cons cb cbs ih =>
    intro st hst hcb
    obtain ⟨b1, b2⟩ := hcb cb List.mem_cons_self
    rw [List.foldlM_cons, List.foldl_cons]
    have key := edgeCallbackChk_eq ws woff cb.1 (sortedSeg saL cb.2.1 cb.2.2).reverse st.1 st.2
      (by
        intro x hx
        rw [hst]
        exact hsa x (mem_of_mem_sortedSeg (List.mem_reverse.1 hx)))
    have e1 : edgeStepChk saL ws woff st cb = some (edgeStep saL ws woff st cb) := by
      unfold edgeStepChk
      rw [sliceChk_eq saL _ _ b1 b2]
      exact key.1
    rw [e1]
    exact ih _ (by rw [← hst]; exact key.2) (fun cb' h' => hcb cb' (List.mem_cons_of_mem _ h'))

theorem invertSAChk_saSpec (t : List Byte) :
    invertSAChk (saSpec t).toArray = some (invertSA (saSpec t).toArray) := by
  have hsa := Sap.saSpec_isSA t
  have hlen : (saSpec t).toArray.size = t.length := by simpa using hsa.length_eq
  apply invertSAChk_eq
  intro j hj
  have hj' : j < (saSpec t).length := by simpa using hj
  have := hsa.getElem_lt j hj'
  rw [hlen]
  simpa [Array.getD_eq_getD_getElem?, List.getElem?_eq_getElem hj'] using this

/-- `Segments` does not refuse its arguments when the buffer has at most `MaxInt32` bytes -/
theorem ceSegs_isSome (data : List Byte) (w ws mm maxM : Nat) (hlen : data.length ≤ 2147483647) :
    ∃ cbs, ceSegs data w ws mm maxM = some cbs ∧
      ∀ cb ∈ cbs, cb.2.1 ≤ cb.2.2 ∧ cb.2.2 ≤ (saSpec (ceT data w ws)).length := by
  have h := Sap.ceHyps_holds data w ws mm maxM hlen
  by_cases hmm : mm ≤ ceMaxLen data w ws maxM
  · obtain ⟨cbs, h1, h2⟩ := h.segs hmm
    refine ⟨cbs, h1, ?_⟩
    intro cb hcb
    obtain ⟨-, -, a, b, -⟩ := h2.sound cb.1 cb.2.1 cb.2.2 hcb
    exact ⟨by omega, b⟩
  · refine ⟨[], ?_, by simp⟩
    have hle := Sap.ceMaxLen_le_length data w ws maxM
    have hsz : (saSpec (ceT data w ws)).toArray.size = (ceLcp data w ws).size := by
      unfold ceLcp
      rw [Sap.lcpKasai_saSpec]
      simp [lcpSpec]
    unfold ceSegs segments32 segments
    rw [if_neg (by omega), if_neg (by simpa using hsz), if_neg (by omega), if_pos (Or.inl (by omega))]

/-- **`computeEdges` never indexes out of range** for a buffer of at most `MaxInt32` bytes (every
    accepted configuration: `Verify`, D18) with `W ≤ len(Data)` -/
theorem computeEdgesChk_eq (data : List Byte) (w ws mm maxM : Nat) (hw : w ≤ data.length)
    (hlen : data.length ≤ 2147483647) :
    computeEdgesChk data w ws mm maxM = some (computeEdges data w ws mm maxM) := by
  unfold computeEdgesChk
  rw [if_pos hw]
  by_cases hne : data.length = 0
  · rw [Sap.computeEdges_none _ _ _ _ _ (Or.inl hne)]
    simp only [hne, if_true]
  simp only [hne, if_false]
  rw [sliceFromChk_eq data (w - ws) (by omega)]
  simp only
  rw [show data.drop (w - ws) = ceT data w ws from rfl, invertSAChk_saSpec]
  simp only
  have hsa := Sap.saSpec_isSA (ceT data w ws)
  rw [kasai_no_panic hsa _ (by simp)]
  simp only
  have hl : (lcpSpec (ceT data w ws) (saSpec (ceT data w ws))).toArray = ceLcp data w ws := by
    unfold ceLcp; rw [Sap.lcpKasai_saSpec]
  rw [hl]
  obtain ⟨cbs, hseg, hb⟩ := ceSegs_isSome data w ws mm maxM hlen
  have hseg' : segments32 (saSpec (ceT data w ws)).toArray.size (ceLcp data w ws) (mm : Int)
      ((min ((ceLcp data w ws).foldl max 0) maxM : Nat) : Int) = some cbs := hseg
  rw [hseg']
  simp only
  rw [Sap.computeEdges_some _ _ _ _ _ hne hseg]
  rw [foldlM_edges (saSpec (ceT data w ws)) ws _ (data.length - w) ?_ cbs _ (by simp) hb]
  intro x hx
  have hx' : x < (ceT data w ws).length := (hsa.mem_iff x).1 hx
  unfold ceT at hx'
  simp only [List.length_drop] at hx'
  omega

/-! ## 4. the path conversion -/

theorem pathToSeqsChk_eq (p : List Byte) : ∀ (π : List Edge) (i li : Nat) (seqs : List Seq) (lits : List Byte),
    li ≤ i → i + Sap.pathLen π ≤ p.length →
    pathToSeqsChk p π i li seqs lits = some (pathToSeqs p π i li seqs lits)
  | [], i, li, seqs, lits, _, _ => rfl
  | (m, o) :: r, i, li, seqs, lits, h1, h2 => by
    simp only [Sap.pathLen_cons] at h2
    unfold pathToSeqsChk pathToSeqs
    by_cases ho : o = 0
    · simp only [ho, if_true]
      exact pathToSeqsChk_eq p r (i + m) li seqs lits (by omega) (by omega)
    · simp only [ho, if_false]
      rw [sliceChk_eq p li i h1 (by omega)]
      simp only
      exact pathToSeqsChk_eq p r (i + m) (i + m) _ _ (Nat.le_refl _) (by omega)

/-- the literal index the conversion ends with is inside the block -/
theorem pathToSeqs_li_le (p : List Byte) : ∀ (π : List Edge) (i li : Nat) (seqs : List Seq) (lits : List Byte),
    li ≤ i → (pathToSeqs p π i li seqs lits).2.2.2 ≤ i + Sap.pathLen π
  | [], i, li, seqs, lits, h => by simp [pathToSeqs]; omega
  | (m, o) :: r, i, li, seqs, lits, h => by
    simp only [Sap.pathLen_cons]
    unfold pathToSeqs
    by_cases ho : o = 0
    · simp only [ho, if_true]
      have := pathToSeqs_li_le p r (i + m) li seqs lits (by omega)
      omega
    · simp only [ho, if_false]
      have := pathToSeqs_li_le p r (i + m) (i + m)
        (seqs ++ [{ litLen := ((p.drop li).take (i - li)).length, matchLen := m, offset := o }])
        (lits ++ (p.drop li).take (i - li)) (Nat.le_refl _)
      omega

/-! ## 5. one `Parse` call -/

/-- **one `Parse(&blk, flags)` call of OSAP never indexes out of range** on a state with
    `W ≤ len(Data) ≤ MaxInt32` whose edge table starts at or before `W` -/
theorem parseOsapChk_eq (s : Parser) (o : OsapD) (hd : s.dict = .osap o) (flags : Nat)
    (hw : s.buf.w ≤ s.buf.data.length) (hlen : s.buf.data.length ≤ 2147483647)
    (hst : o.start ≤ s.buf.w) :
    parseOsapChk s o flags = some (s.parse flags) := by
  by_cases hn : s.blockN = 0
  · unfold parseOsapChk Parser.parse
    simp only [hn, if_true]
  have hle := Sap.blockN_le s hn
  rw [Sap.parse_osap_eq s o hd flags hn]
  unfold parseOsapChk
  simp only [hn, if_false]
  have hE : (if s.buf.w + s.blockN > o.start + o.edges.size then
        computeEdgesChk s.buf.data s.buf.w s.buf.cfg.windowSize s.minMatch s.cfg.maxMatchLen.toNat
      else some o) = some (Sap.osapEdges s o) := by
    unfold Sap.osapEdges
    split
    · exact computeEdgesChk_eq _ _ _ _ _ hw hlen
    · rfl
  have hst' : (Sap.osapEdges s o).start ≤ s.buf.w ∧
      s.buf.w - (Sap.osapEdges s o).start + s.blockN ≤ (Sap.osapEdges s o).edges.size := by
    unfold Sap.osapEdges
    split
    · rw [Sap.computeEdges_start,
        Sap.computeEdges_size _ _ _ _ _ (Sap.ceHyps_holds _ _ _ _ _ hlen)]
      omega
    · omega
  rw [hE]
  simp only
  by_cases h0 : (Sap.osapEdges s o).nEdges = 0
  · simp only [h0, if_true]
    rw [sliceChk_eq _ _ _ (Nat.le_add_right _ _) hle, Nat.add_sub_cancel_left]
  · simp only [h0, if_false]
    rw [if_pos hst'.1, shortestPathChk_eq _ _ _ _ hn hst'.2]
    simp only
    rw [sliceToChk_eq _ _ hle]
    simp only
    have hpl : (s.buf.data.take (s.buf.w + s.blockN)).length = s.buf.w + s.blockN := by
      simp only [List.length_take]; omega
    have hlen' := Sap.shortestPath_len s.minMatch s.blockN (Sap.osapEdges s o).edges
      (s.buf.w - (Sap.osapEdges s o).start)
    rw [pathToSeqsChk_eq _ _ _ _ _ _ (Nat.le_refl _) (by rw [hpl, hlen']; exact Nat.le_refl _)]
    simp only
    have hli := pathToSeqs_li_le (s.buf.data.take (s.buf.w + s.blockN))
      (shortestPath s.minMatch s.blockN (Sap.osapEdges s o).edges (s.buf.w - (Sap.osapEdges s o).start))
      s.buf.w s.buf.w [] [] (Nat.le_refl _)
    rw [hlen'] at hli
    unfold Sap.osapPath
    split
    · rfl
    · rw [sliceFromChk_eq _ _ (by rw [hpl]; exact hli)]

/-! ## 6. history level -/

/-- what `parseOsapChk_eq` needs holds in every reachable OSAP state: `W ≤ len(Data)` (`Inv.hw`),
    `len(Data) ≤ BufferSize ≤ MaxInt32` (`Sap.BufLen`, `Verify`), and the edge table starts at or before
    `W` (`Sap.OsapHist`) -/
theorem reachable_osap_idx (raw : Cfg) (s0 : Parser) (h0 : newParser .OSAP raw = some s0)
    (ops : List POp) :
    let s := (runOps (s0, Ghost.init) ops).1
    ∃ o, s.dict = .osap o ∧ s.buf.w ≤ s.buf.data.length ∧ s.buf.data.length ≤ 2147483647 ∧
      o.start ≤ s.buf.w := by
  intro s
  have hH : HistHyp .OSAP s0 := fun _ => by
    intro data w w' n hw hn
    exact Sap.computeEdges_sound_of_segFacts Sap.segmentsFacts_holds data w _ _ _ hw hn
  have hI := history_inv .OSAP raw s0 h0 hH ops
  have hs : s = Sap.runOps s0 (ops.map RunsOsap.toSap) := RunsOsap.runOps_fst_sap s0 ops
  obtain ⟨o, hd, hist, -⟩ := reachable_osap_sap_all raw s0 h0 (ops.map RunsOsap.toSap)
  have hbl := (Sap.ceAt_all_histories_all Sap.segmentsFacts_holds raw s0 h0 (ops.map RunsOsap.toSap)).2
  rw [← hs] at hd hist hbl
  refine ⟨o, hd, hI.hw, ?_, ?_⟩
  · have h1 : s.buf.data.length ≤ s.buf.cfg.bufferSize := hbl
    have h2 : s.buf.cfg = s0.buf.cfg := hI.bcfg
    have h3 := Sap.newParser_osap_bufferSize raw s0 h0
    rw [h2] at h1
    omega
  · rcases hist with ⟨-, h⟩ | ⟨data0, w0, e, -, h, -⟩
    · omega
    · rw [e, Sap.computeEdges_start]; exact h

/-- **C16 for the index expressions of osap.go, every history.**  For every accepted OSAP
    configuration and every history of `Write`, `ReadFrom`, `Parse(&blk, flags)`, `Parse(nil)`,
    `Shrink`, `Reset`: the next `Parse(&blk, flags)` evaluated with every array index and slice
    expression of `Parse` / `computeEdges` / `shortestPath` range-checked succeeds, with exactly the
    result of the model. -/
theorem osap_parseChk_reachable (raw : Cfg) (s0 : Parser) (h0 : newParser .OSAP raw = some s0)
    (ops : List POp) (flags : Nat) :
    let s := (runOps (s0, Ghost.init) ops).1
    ∃ o, s.dict = .osap o ∧ parseOsapChk s o flags = some (s.parse flags) := by
  intro s
  obtain ⟨o, hd, hw, hlen, hst⟩ := reachable_osap_idx raw s0 h0 ops
  exact ⟨o, hd, parseOsapChk_eq s o hd flags hw hlen hst⟩

end Idx

/-- `Parse(&blk, flags)` with every index / slice expression of the two suffix-array parsers
    range-checked (`none` = an index-out-of-range / slice-bounds panic of gsap.go / osap.go, or a
    point where the total accessors of the model would silently diverge from Go).  For the five hash
    parsers the model itself returns `.panic` where `s.Data[:inputEnd+7]` is out of range
    (`C16_safe` of LzProofs/SafeProps.lean, `TablesOK` of LzProofs/SafeTables.lean for the tables). -/
def Parser.parseChk (s : Parser) (flags : Nat) : Option (Parser × Nat × Err × Block) :=
  match s.dict with
  | .gsap g => Idx.parseGsapChk s g flags
  | .osap o => Idx.parseOsapChk s o flags
  | _ => some (s.parse flags)

namespace Idx

/-- **C16, index panics of the suffix-array parsers.**  For every parser `NewParser` returns for a
    GSAP or OSAP configuration and every history of `Write`, `ReadFrom`, `Parse`, `Parse(nil)`,
    `Shrink`, `Reset`, the range-checked `Parse` succeeds and agrees with the model:
    `parseChk s flags = some (s.parse flags)`. -/
theorem C16_index_reachable (k : Kind) (hk : k = .GSAP ∨ k = .OSAP) (raw : Cfg) (s0 : Parser)
    (h0 : newParser k raw = some s0) (ops : List POp) (flags : Nat) :
    (runOps (s0, Ghost.init) ops).1.parseChk flags = some ((runOps (s0, Ghost.init) ops).1.parse flags) := by
  rcases hk with rfl | rfl
  · obtain ⟨g, hd, h⟩ := gsap_parseChk_reachable raw s0 h0 ops flags
    unfold Parser.parseChk
    rw [hd]; exact h
  · obtain ⟨o, hd, h⟩ := osap_parseChk_reachable raw s0 h0 ops flags
    unfold Parser.parseChk
    rw [hd]; exact h

/-- with `C16_safe`: the checked `Parse` of a reachable suffix-array parser returns a result, and the
    error of that result is not `.panic` -/
theorem C16_index_no_panic (k : Kind) (hk : k = .GSAP ∨ k = .OSAP) (raw : Cfg) (s0 : Parser)
    (h0 : newParser k raw = some s0) (ops : List POp) (flags : Nat) :
    ∃ r, (runOps (s0, Ghost.init) ops).1.parseChk flags = some r ∧ r.2.2.1 ≠ .panic := by
  refine ⟨_, C16_index_reachable k hk raw s0 h0 ops flags, ?_⟩
  have h := (C16_safe k raw s0 h0 (ops ++ [.parse flags]) ops.length (by simp)).2
  simp only [List.take_left', List.getElem_concat_length, opErr] at h
  exact h

/-! ## 7. non-vacuity: the checks bite -/

section Examples

-- the callback: segment {1, 3} (descending [3, 1]), `woff = 0`, four edge slots: edge (m=2, o=2) at 3
example : edgeCallbackChk 8 0 2 [3, 1] (#[[], [], [], []], 0) = some (#[[], [], [], [(2, 2)]], 1) := by decide
example : edgeCallbackChk 8 0 2 [3, 1] (#[[], [], [], []], 0) =
    some (edgeCallback 8 0 2 [3, 1] (#[[], [], [], []], 0)) := by decide
-- `s.edges` one slot short: `&s.edges[3]` panics; the unchecked model drops the edge silently
example : (edgeCallbackChk 8 0 2 [3, 1] (#[[], [], []], 0)).isNone = true := by decide
example : edgeCallback 8 0 2 [3, 1] (#[[], [], []], 0) = (#[[], [], []], 1) := by decide
-- `k < 0` is the `break` of the Go loop, not a panic
example : edgeCallbackChk 8 (-5) 2 [3, 1] (#[[], [], []], 0) = some (#[[], [], []], 0) := by decide
-- `sa[lo:hi]` out of range
example : (edgeStepChk [2, 0, 3, 1] 8 0 (#[[], [], [], []], 0) (2, 3, 5)).isNone = true := by decide
#guard edgeStepChk [2, 0, 3, 1] 8 0 (#[[], [], [], []], 0) (2, 0, 2) == some (#[[], [], [(2, 2)], []], 1)

-- the DP table
def exD : Array Opt := #[⟨0, 0, 0⟩, ⟨1, 0, 9⟩, ⟨1, 0, 18⟩, ⟨2, 2, 20⟩]
example : (relax1Chk exD 4 ⟨1, 0, 5⟩).isNone = true := by decide
example : (relax1Chk exD 3 ⟨1, 0, 5⟩).isSome = true := by decide
example : (relaxLensChk 2 1 9 2 3 2 exD).isNone = true := by decide      -- `d[1+4]`
example : (relaxLensChk 2 1 9 2 1 2 exD).isSome = true := by decide      -- `d[1+2]`
-- back-tracking over a good table, over a table with `m = 0` (Go: endless loop), over a table with
-- `m > i` (Go: uint32 wrap-around, then an index panic); the unchecked model returns something each time
example : backtrackChk exD 3 3 [] = some [(1, 0), (2, 2)] := by decide
example : (backtrackChk (exD.setIfInBounds 1 ⟨0, 0, 9⟩) 3 3 []).isNone = true := by decide
example : (backtrackChk (exD.setIfInBounds 3 ⟨5, 2, 20⟩) 3 3 []).isNone = true := by decide
example : backtrack (exD.setIfInBounds 3 ⟨5, 2, 20⟩) 3 3 [] = [(5, 2)] := by decide
example : (backtrackChk exD 3 4 []).isNone = true := by decide           -- `d[4]`

-- `shortestPath`: block of 3 bytes, edge table of 3 / of 2 slots (`s.edges[k:k+n]` out of range)
#guard shortestPathChk 2 3 #[[], [(2, 1)], []] 0 == some (shortestPath 2 3 #[[], [(2, 1)], []] 0)
#guard shortestPathChk 2 3 #[[], [(2, 1)], []] 0 == some [(1, 0), (2, 1)]
example : (shortestPathChk 2 3 #[[], [(2, 1)]] 0).isNone = true := by decide
example : (shortestPathChk 2 3 #[[], [(2, 1)], []] 1).isNone = true := by decide
#guard shortestPath 2 3 #[[], [(2, 1)], []] 1 == [(2, 1), (1, 0)]   -- the model does not notice
example : (shortestPathChk 2 0 #[[]] 0).isNone = true := by decide       -- `d[n-1]` for `n = 0`

-- the path conversion: `p[litIndex:i]` with a path that overshoots the block
example : (pathToSeqsChk [97, 98, 97, 98] [(3, 0), (2, 2)] 0 0 [] []).isSome = true := by decide
example : (pathToSeqsChk [97, 98, 97, 98] [(5, 0), (2, 2)] 0 0 [] []).isNone = true := by decide

-- `computeEdges` with `W > len(Data)`: `make([][]edge, len(data) - s.start)` with a negative length
example : (computeEdgesChk [97, 98] 3 8 2 4).isNone = true := by decide

/-- whole `Parse` calls on the OSAP parser of LzProofs/GlueLemmas.lean holding `"abababab"` -/
def exData : List Byte := [97, 98, 97, 98, 97, 98, 97, 98]
def exO : Parser := stepP Sap.glueOsap0 (.write exData)
-- a state that is NOT reachable (`start > W`): `k := s.W - s.start` is negative, `s.edges[k:k+n]` panics
def exOBad : Parser :=
  { exO with dict := .osap { edges := Array.replicate 16 [(2, 2)], start := 3, nEdges := 16 } }

#guard (exO.parseChk 0).map (·.2.2.2) == some (exO.parse 0).2.2.2
#guard (exO.parseChk 0).map (·.2.2.2) == some ⟨[⟨2, 6, 2, 0⟩], [97, 98]⟩
#guard (exOBad.parseChk 0).isNone
#guard (exOBad.parse 0).2.2.1 == .ok        -- the unchecked model "succeeds" on the bad state
-- the second block of a history: stored edges are reused (`W + n ≤ start + len(edges)`)
#guard ((stepP (stepP exO (.parse 1)) (.write exData)).parseChk 0).isSome

/-- the history-level theorems applied to concrete histories -/
example := C16_index_reachable .OSAP (Or.inr rfl) Sap.glueOsapCfg Sap.glueOsap0 Sap.glueOsap0_new
  [.write exData, .parse 1, .parseNil, .write exData, .shrink, .write exData] 0
example := C16_index_reachable .GSAP (Or.inl rfl) exCfg exS0 exS0_new
  [.write exData, .parse 1, .parseNil, .write exData, .shrink, .write exData] 1

end Examples

#print axioms shortestPathChk_eq
#print axioms computeEdgesChk_eq
#print axioms parseOsapChk_eq
#print axioms osap_parseChk_reachable
#print axioms C16_index_reachable
#print axioms C16_index_no_panic

end Idx
end LZ
