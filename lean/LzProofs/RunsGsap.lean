/-
  LzProofs.RunsGsap — property C19, last sentence (the "run clause"), for GSAP:

    "A block of at least 32 bytes that lies inside a run of one repeated byte carries … at most
     MinMatchLen literal bytes for GSAP and OSAP."

  Proved here for GSAP with `BufferSize ≤ WindowSize`, for every state reachable from `NewParser`
  by ANY history of `Write`, `ReadFrom`, `Parse` (any flags), `Parse(nil)`, `Shrink`, `Reset`
  (histories with `Parse(nil)` included — the C12 theorems exclude them).

    C19_run_gsap                   one `Parse` call on a state satisfying `GsapWS`:  ≤ MinMatchLen
    C19_run_gsap_sharp             … and ≤ max 1 (MinMatchLen - 1) when MinMatchLen < n
    gsapWS_stepP                   every operation keeps the invariant
    reachable_gsapWS               every reachable state satisfies the hypotheses
    C19_run_gsap_reachable         the history-level statement
    C19_run_gsap_sharp_reachable   the sharper bound at history level

  The invariant (`GsapW`): the suffix array is absent (`sa.size = 0`: fresh parser, after
  `Reset` / `Shrink` / a truncated block) or it is the sorted suffix array (with inverse) of a
  prefix `t` of the buffer, and the rank set `bits` marks ONLY ranks of positions in front of `W`
  (`BitsSub`; `Parse(nil)` moves `W` without marking anything, so "exactly" (`Sap.BitsOK`) is
  lost, "only" survives).  Inside the block the loop itself marks every position it passes, so
  for every probed position `i > W` the position `i - 1` is in the rank set; in a run it offers a
  match up to the block end and the rank neighbours are at least as good (`Sap.neighbour_max`).

  With `BufferSize > WindowSize` the clause is false for the real code and for the model (a far
  rank neighbour shadows `i - 1` and is filtered by the window afterwards):
  `gsap_run_counterexample` in LzProofs/RunsGsapCex.lean (kernel-checked reachable state, a run block
  of 32 literals with MinMatchLen 3).  The same file shows that the two bounds are attained
  (`gsap_two_literals`, `gsap_minMatch_literals`).
-/
import LzProofs.Runs
import LzProofs.GlueLemmas
namespace LZ
open Parser PBuf

/-! ## the weak rank-set invariant -/

/-- `bits` marks only ranks of positions `< i` (not necessarily all of them) -/
structure BitsSub (sa : Array Nat) (bits : Array Bool) (N i : Nat) : Prop where
  size : bits.size = N
  mark : ∀ r, bits.getD r false = true → r < N ∧ sa.getD r 0 < i

theorem BitsSub.of_ok {sa : Array Nat} {bits : Array Bool} {N i : Nat} (h : Sap.BitsOK sa bits N i) :
    BitsSub sa bits N i :=
  ⟨h.size, fun r hr => (h.mark r).1 hr⟩

theorem BitsSub.mono {sa : Array Nat} {bits : Array Bool} {N i j : Nat} (h : BitsSub sa bits N i)
    (hij : i ≤ j) : BitsSub sa bits N j :=
  ⟨h.size, fun r hr => ⟨(h.mark r hr).1, by have := (h.mark r hr).2; omega⟩⟩

section Probe
variable {t : List Byte} {sa isa : Array Nat} {bits : Array Bool} {i : Nat}

/-- the rank set after inserting the rank of `i` itself: only ranks of positions `≤ i`, and `i`
    only through its own rank -/
theorem bitsSub_set (hs : Sap.SAOK t sa isa) (hb : BitsSub sa bits t.length i) (hi : i < t.length)
    (r : Nat) (hr : (bits.setIfInBounds (isa.getD i 0) true).getD r false = true) :
    r < t.length ∧ (r = isa.getD i 0 ∨ sa.getD r 0 < i) := by
  rw [Sap.getD_setIfInBounds_bool] at hr
  split at hr
  · rename_i hc
    exact ⟨by rw [hc.1]; exact (hs.sa_isa i hi).1, Or.inl hc.1⟩
  · exact ⟨(hb.mark r hr).1, Or.inr (hb.mark r hr).2⟩

theorem set_marked_self (hs : Sap.SAOK t sa isa) (hb : BitsSub sa bits t.length i) (hi : i < t.length) :
    (bits.setIfInBounds (isa.getD i 0) true).getD (isa.getD i 0) false = true := by
  rw [Sap.getD_setIfInBounds_bool, if_pos ⟨rfl, by rw [hb.size]; exact (hs.sa_isa i hi).1⟩]

theorem set_marked_mono (j r : Nat) (h : bits.getD r false = true) :
    (bits.setIfInBounds j true).getD r false = true := by
  rw [Sap.getD_setIfInBounds_bool]
  split
  · rfl
  · exact h

/-- the candidate is at least as good as any MARKED earlier position `f` -/
theorem cand_ge_marked {bits' : Array Bool} {e f : Nat} (hs : Sap.SAOK t sa isa) (hi : i < t.length)
    (hm : ∀ r, bits'.getD r false = true → r < t.length ∧ (r = isa.getD i 0 ∨ sa.getD r 0 < i))
    (hf : f < i) (hrm : bits'.getD (isa.getD f 0) false = true) :
    lcpLen ((t.take e).drop f) ((t.take e).drop i) ≤
      (Sap.gsapCand sa bits' (t.take e) i (isa.getD i 0)).2 := by
  obtain ⟨hj, hsaj⟩ := hs.sa_isa i hi
  obtain ⟨hr, hsar⟩ := hs.sa_isa f (by omega)
  have hlenL : (Sap.sufList t sa).length = t.length := by rw [Sap.sufList_length, hs.size_sa]
  have hm' : ∀ r, bits'.getD r false = true → r < t.length ∧ sa.getD r 0 ≤ i := by
    intro r h
    obtain ⟨a, b⟩ := hm r h
    refine ⟨a, ?_⟩
    rcases b with b | b
    · rw [b, hsaj]; exact Nat.le_refl _
    · omega
  have hne : isa.getD f 0 ≠ isa.getD i 0 := by
    intro h; rw [h, hsaj] at hsar; omega
  rw [← hsar, Sap.clip_lcp hs hi hr (by omega)]
  unfold Sap.gsapCand
  rcases Nat.lt_or_gt_of_ne hne with hlt | hgt
  · cases hmb : memberBefore bits' (isa.getD i 0) with
    | none =>
      have := (Sap.memberBefore_none _ _).1 hmb _ hlt
      rw [hrm] at this; cases this
    | some k1 =>
      obtain ⟨a, b, c⟩ := (Sap.memberBefore_some _ _ _).1 hmb
      obtain ⟨hk1, hsk1⟩ := hm' k1 b
      have hmono := (Sap.neighbour_max hs.sorted
        (fun r => bits'.getD r false = true)
        (j := isa.getD i 0) (k := isa.getD f 0) (by omega) (by omega) hrm).1 hlt k1 a b
        (fun k' h1 h2 => by rw [c k' h1 h2]; simp)
      have hk1c := Sap.clip_lcp (e := e) hs hi hk1 hsk1
      simp only
      cases memberAfter bits' (isa.getD i 0) with
      | none => simp only; rw [hk1c]; omega
      | some k2 =>
        simp only
        split
        · rename_i hc; simp only; rw [hk1c] at hc; omega
        · simp only; rw [hk1c]; omega
  · cases hma : memberAfter bits' (isa.getD i 0) with
    | none =>
      have := (Sap.memberAfter_none _ _).1 hma _ hgt
      rw [hrm] at this; cases this
    | some k2 =>
      obtain ⟨a, b, c⟩ := (Sap.memberAfter_some _ _ _).1 hma
      obtain ⟨hk2, hsk2⟩ := hm' k2 b
      have hmono := (Sap.neighbour_max hs.sorted
        (fun r => bits'.getD r false = true)
        (j := isa.getD i 0) (k := isa.getD f 0) (by omega) (by omega) hrm).2 hgt k2 (by omega) a b
        (fun k' h1 h2 => by rw [c k' h1 h2]; simp)
      have hk2c := Sap.clip_lcp (e := e) hs hi hk2 hsk2
      cases memberBefore bits' (isa.getD i 0) with
      | none =>
        simp only
        split
        · simp only; rw [hk2c]; omega
        · rename_i hc; simp only; rw [hk2c] at hc; omega
      | some k1 =>
        simp only
        split
        · simp only; rw [hk2c]; omega
        · rename_i hc; simp only; rw [hk2c] at hc; omega

/-- the candidate is a real earlier position with exactly the reported common prefix — or it is
    `(0, 0)` -/
theorem cand_att_marked {bits' : Array Bool}
    (hm : ∀ r, bits'.getD r false = true → r < t.length ∧ (r = isa.getD i 0 ∨ sa.getD r 0 < i))
    (p : List Byte) :
    ((Sap.gsapCand sa bits' p i (isa.getD i 0)).1 < i ∧
      (Sap.gsapCand sa bits' p i (isa.getD i 0)).2 =
        lcpLen (p.drop (Sap.gsapCand sa bits' p i (isa.getD i 0)).1) (p.drop i)) ∨
    Sap.gsapCand sa bits' p i (isa.getD i 0) = (0, 0) := by
  unfold Sap.gsapCand
  cases hmb : memberBefore bits' (isa.getD i 0) with
  | none =>
    cases hma : memberAfter bits' (isa.getD i 0) with
    | none => right; rfl
    | some k2 =>
      obtain ⟨a, b, _⟩ := (Sap.memberAfter_some _ _ _).1 hma
      have h2 : sa.getD k2 0 < i := by
        rcases (hm k2 b).2 with h | h
        · omega
        · exact h
      simp only
      split
      · left; exact ⟨h2, rfl⟩
      · right; rfl
  | some k1 =>
    obtain ⟨a, b, _⟩ := (Sap.memberBefore_some _ _ _).1 hmb
    have h1 : sa.getD k1 0 < i := by
      rcases (hm k1 b).2 with h | h
      · omega
      · exact h
    left
    cases hma : memberAfter bits' (isa.getD i 0) with
    | none => exact ⟨h1, rfl⟩
    | some k2 =>
      obtain ⟨a2, b2, _⟩ := (Sap.memberAfter_some _ _ _).1 hma
      have h2 : sa.getD k2 0 < i := by
        rcases (hm k2 b2).2 with h | h
        · omega
        · exact h
      simp only
      split
      · exact ⟨h2, rfl⟩
      · exact ⟨h1, rfl⟩

end Probe

/-! ## the probe under the weak invariant -/

section ProbeW
variable {t : List Byte} {g : GsapD} {i e : Nat} (ws mm li : Nat)

/-- no match reported: only the rank of `i` is inserted -/
theorem gsapProbe_none_dict {p : List Byte} {d : GsapD} (h : gsapProbe ws mm g p i li = (d, none)) :
    d = { g with bits := g.bits.setIfInBounds (g.isa.getD i 0) true } := by
  rw [Sap.gsapProbe_eq] at h
  simp only at h
  split at h
  · exact (Prod.mk.inj h).1.symm
  · split at h
    · exact (Prod.mk.inj h).1.symm
    · simp at h

/-- a match reported under the weak invariant: it starts at `i`, has at least `mm` bytes, ends
    inside the block, and the ranks of the matched positions are inserted -/
theorem gsapProbe_some_dict (hs : Sap.SAOK t g.sa g.isa) (hb : BitsSub g.sa g.bits t.length i)
    (hi : i < t.length) (he : e ≤ t.length) (hmm : 1 ≤ mm) {d : GsapD} {s k o : Nat}
    (h : gsapProbe ws mm g (t.take e) i li = (d, some (s, k, o))) :
    s = i ∧ mm ≤ k ∧ i + k ≤ e ∧
    d = { g with bits := insertRanks g.isa (g.bits.setIfInBounds (g.isa.getD i 0) true) (i + 1) (k - 1) } := by
  rw [Sap.gsapProbe_eq] at h
  simp only at h
  have hat := cand_att_marked (bitsSub_set hs hb hi) (t.take e)
  generalize Sap.gsapCand g.sa (g.bits.setIfInBounds (g.isa.getD i 0) true) (t.take e) i (g.isa.getD i 0) = c
    at h hat
  split at h
  · simp at h
  · split at h
    · simp at h
    · rename_i h1 h2
      simp only [Prod.mk.injEq, Option.some.injEq] at h
      obtain ⟨hd, rfl, rfl, rfl⟩ := h
      refine ⟨rfl, by omega, ?_, hd.symm⟩
      rcases hat with ⟨a, b⟩ | b
      · have := Sap.lcpLen_le_right ((t.take e).drop c.1) ((t.take e).drop i)
        rw [← b] at this
        simp only [List.length_drop, List.length_take] at this
        omega
      · rw [b] at h1; simp only at h1; omega

/-- inside a run that reaches the block end, behind a marked position `i - 1`, with every earlier
    position inside the window: the probe reports nothing only if fewer than `mm` bytes are left -/
theorem gsapProbe_none_run (hs : Sap.SAOK t g.sa g.isa) (hb : BitsSub g.sa g.bits t.length i)
    (hi : i < e) (he : e ≤ t.length) (hmm : 1 ≤ mm) (hws : i < ws) (b : Byte) (hi1 : 1 ≤ i)
    (hrun : ∀ q, i - 1 ≤ q → q < e → (t.take e)[q]? = some b)
    (hmark : g.bits.getD (g.isa.getD (i - 1) 0) false = true) {d : GsapD}
    (h : gsapProbe ws mm g (t.take e) i li = (d, none)) : e - i < mm := by
  have hit : i < t.length := by omega
  have hlen : (t.take e).length = e := by simp only [List.length_take]; omega
  rw [Sap.gsapProbe_eq] at h
  simp only at h
  have hm := bitsSub_set hs hb hit
  have hat := cand_att_marked hm (t.take e)
  have hge := cand_ge_marked (e := e) (f := i - 1) hs hit hm (by omega)
    (set_marked_mono _ _ hmark)
  have hlcp : lcpLen ((t.take e).drop (i - 1)) ((t.take e).drop i) = e - i := by
    have := lcpLen_run (t.take e) b (i - 1) i (by omega) (by omega)
      (fun q h1 h2 => hrun q h1 (by omega))
    rw [this, hlen]
  rw [hlcp] at hge
  generalize Sap.gsapCand g.sa (g.bits.setIfInBounds (g.isa.getD i 0) true) (t.take e) i (g.isa.getD i 0) = c
    at h hat hge
  split at h
  · omega
  · split at h
    · rename_i h1 h2
      exfalso
      rcases hat with ⟨a, _⟩ | b'
      · exact h2 ⟨a, by omega⟩
      · rw [b'] at h1; simp only at h1; omega
    · simp at h

/-- … and a match it reports there reaches the block end -/
theorem gsapProbe_some_run (hs : Sap.SAOK t g.sa g.isa) (hb : BitsSub g.sa g.bits t.length i)
    (hi : i < e) (he : e ≤ t.length) (b : Byte) (hi1 : 1 ≤ i)
    (hrun : ∀ q, i - 1 ≤ q → q < e → (t.take e)[q]? = some b)
    (hmark : g.bits.getD (g.isa.getD (i - 1) 0) false = true) {d : GsapD} {s k o : Nat}
    (h : gsapProbe ws mm g (t.take e) i li = (d, some (s, k, o))) : i + k = e := by
  have hit : i < t.length := by omega
  have hlen : (t.take e).length = e := by simp only [List.length_take]; omega
  rw [Sap.gsapProbe_eq] at h
  simp only at h
  have hm := bitsSub_set hs hb hit
  have hat := cand_att_marked hm (t.take e)
  have hge := cand_ge_marked (e := e) (f := i - 1) hs hit hm (by omega)
    (set_marked_mono _ _ hmark)
  have hlcp : lcpLen ((t.take e).drop (i - 1)) ((t.take e).drop i) = e - i := by
    have := lcpLen_run (t.take e) b (i - 1) i (by omega) (by omega)
      (fun q h1 h2 => hrun q h1 (by omega))
    rw [this, hlen]
  rw [hlcp] at hge
  generalize Sap.gsapCand g.sa (g.bits.setIfInBounds (g.isa.getD i 0) true) (t.take e) i (g.isa.getD i 0) = c
    at h hat hge
  split at h
  · simp at h
  · split at h
    · simp at h
    · simp only [Prod.mk.injEq, Option.some.injEq] at h
      obtain ⟨-, -, rfl, -⟩ := h
      rcases hat with ⟨_, b'⟩ | b'
      · have := Sap.lcpLen_le_right ((t.take e).drop c.1) ((t.take e).drop i)
        rw [← b'] at this
        simp only [List.length_drop, List.length_take] at this
        omega
      · rw [b'] at hge; simp only at hge; omega

end ProbeW

/-! ## the loop keeps the weak invariant -/

section Loop
variable (t : List Byte) (sa isa : Array Nat) (e ws mm : Nat)

/-- bits part of the invariant of the GSAP loop over the block `t.take e` -/
structure GB (st : LoopSt GsapD) : Prop where
  hsa : st.dict.sa = sa
  hisa : st.dict.isa = isa
  bits : BitsSub sa st.dict.bits t.length st.i
  li_le : st.litIndex ≤ st.i
  i_le : st.i ≤ e

theorem gb_none (hs : Sap.SAOK t sa isa) (he : e ≤ t.length) (st : LoopSt GsapD) (d : GsapD)
    (hi : st.i < e) (hJ : GB t sa isa e st)
    (hp : gsapProbe ws mm st.dict (t.take e) st.i st.litIndex = (d, none)) :
    GB t sa isa e { st with dict := d, i := st.i + 1 } ∧
    d.bits.getD (isa.getD st.i 0) false = true ∧
    (∀ r, st.dict.bits.getD r false = true → d.bits.getD r false = true) := by
  have hi' : st.i < t.length := by omega
  have hs' : Sap.SAOK t st.dict.sa st.dict.isa := by rw [hJ.hsa, hJ.hisa]; exact hs
  have hb' : BitsSub st.dict.sa st.dict.bits t.length st.i := by rw [hJ.hsa]; exact hJ.bits
  have hd := gsapProbe_none_dict ws mm st.litIndex hp
  subst hd
  refine ⟨⟨hJ.hsa, hJ.hisa, ⟨?_, ?_⟩, ?_, ?_⟩, ?_, ?_⟩
  · show (st.dict.bits.setIfInBounds _ true).size = _
    rw [Array.size_setIfInBounds]; exact hJ.bits.size
  · intro r hr
    obtain ⟨a, b⟩ := bitsSub_set hs' hb' hi' r hr
    refine ⟨a, ?_⟩
    show sa.getD r 0 < st.i + 1
    rcases b with b | b
    · rw [b, ← hJ.hsa, (hs'.sa_isa st.i hi').2]; omega
    · rw [← hJ.hsa]; omega
  · show st.litIndex ≤ st.i + 1
    have := hJ.li_le; omega
  · show st.i + 1 ≤ e
    omega
  · show (st.dict.bits.setIfInBounds (st.dict.isa.getD st.i 0) true).getD (isa.getD st.i 0) false = true
    rw [← hJ.hisa]
    exact set_marked_self hs' hb' hi'
  · intro r hr
    exact set_marked_mono _ _ hr

theorem gb_some (hs : Sap.SAOK t sa isa) (he : e ≤ t.length) (hmm : 1 ≤ mm) (st : LoopSt GsapD)
    (d : GsapD) (s k o : Nat) (hi : st.i < e) (hJ : GB t sa isa e st)
    (hp : gsapProbe ws mm st.dict (t.take e) st.i st.litIndex = (d, some (s, k, o))) :
    s = st.i ∧ mm ≤ k ∧ st.i + k ≤ e ∧
    GB t sa isa e
      { dict := d, i := s + k, litIndex := s + k,
        seqs := st.seqs ++ [{ litLen := (((t.take e).drop st.litIndex).take (s - st.litIndex)).length,
                              matchLen := k, offset := o }],
        lits := st.lits ++ ((t.take e).drop st.litIndex).take (s - st.litIndex) } ∧
    d.bits.getD (isa.getD (s + k - 1) 0) false = true := by
  have hi' : st.i < t.length := by omega
  have hs' : Sap.SAOK t st.dict.sa st.dict.isa := by rw [hJ.hsa, hJ.hisa]; exact hs
  have hb' : BitsSub st.dict.sa st.dict.bits t.length st.i := by rw [hJ.hsa]; exact hJ.bits
  obtain ⟨rfl, hk, hke, hd⟩ := gsapProbe_some_dict ws mm st.litIndex hs' hb' hi' he hmm hp
  subst hd
  have hsz : (st.dict.bits.setIfInBounds (st.dict.isa.getD st.i 0) true).size = t.length := by
    rw [Array.size_setIfInBounds]; exact hJ.bits.size
  refine ⟨rfl, hk, hke, ⟨hJ.hsa, hJ.hisa, ⟨?_, ?_⟩, Nat.le_refl _, hke⟩, ?_⟩
  · show (insertRanks _ _ _ _).size = _
    rw [Sap.insertRanks_size]; exact hsz
  · intro r hr
    have hr' : (insertRanks st.dict.isa (st.dict.bits.setIfInBounds (st.dict.isa.getD st.i 0) true)
        (st.i + 1) (k - 1)).getD r false = true := hr
    rw [Sap.insertRanks_spec] at hr'
    show r < t.length ∧ sa.getD r 0 < st.i + k
    rcases hr' with h | ⟨a, x, hx, hrx⟩
    · obtain ⟨a, b⟩ := bitsSub_set hs' hb' hi' r h
      refine ⟨a, ?_⟩
      rcases b with b | b
      · rw [b, ← hJ.hsa, (hs'.sa_isa st.i hi').2]; omega
      · rw [← hJ.hsa]; omega
    · rw [hsz] at a
      refine ⟨a, ?_⟩
      have := (hs'.sa_isa (st.i + 1 + x) (by omega)).2
      rw [hrx, hJ.hsa] at this
      omega
  · show (insertRanks st.dict.isa (st.dict.bits.setIfInBounds (st.dict.isa.getD st.i 0) true)
        (st.i + 1) (k - 1)).getD (isa.getD (st.i + k - 1) 0) false = true
    rw [Sap.insertRanks_spec]
    by_cases hk1 : k = 1
    · left
      subst hk1
      have e1 : st.i + 1 - 1 = st.i := by omega
      rw [e1, ← hJ.hisa]
      exact set_marked_self hs' hb' hi'
    · right
      refine ⟨?_, k - 2, by omega, ?_⟩
      · rw [hsz, ← hJ.hisa]
        exact (hs'.sa_isa (st.i + k - 1) (by omega)).1
      · rw [hJ.hisa]
        congr 1; omega

/-- the loop keeps `GB` and runs to the block end -/
theorem gb_loop (hs : Sap.SAOK t sa isa) (he : e ≤ t.length) (hmm : 1 ≤ mm) (st : LoopSt GsapD)
    (hJ : GB t sa isa e st) :
    GB t sa isa e (greedyLoop ⟨gsapProbe ws mm⟩ (t.take e) e st) ∧
    (greedyLoop ⟨gsapProbe ws mm⟩ (t.take e) e st).i = e := by
  have key := Sap.greedyLoop_invariant ⟨gsapProbe ws mm⟩ (t.take e) e (GB t sa isa e) ?_ ?_ st hJ
  · exact ⟨key.1, by have := key.1.i_le; have := key.2; omega⟩
  · intro st d hi hJ hp
    exact (gb_none t sa isa e ws mm hs he st d hi hJ hp).1
  · intro st d s k o hi hJ hp
    obtain ⟨a, b, c, d', _⟩ := gb_some t sa isa e ws mm hs he hmm st d s k o hi hJ hp
    exact ⟨by omega, d'⟩

end Loop

/-! ## the loop on a run block -/

section RunLoop
variable (t : List Byte) (sa isa : Array Nat) (e w ws mm : Nat)

/-- invariant of the GSAP loop on a run block `[w, e)`: `T = lits + pending literals` is bounded -/
structure GR (st : LoopSt GsapD) : Prop where
  gb : GB t sa isa e st
  w_le : w ≤ st.litIndex
  prev : w < st.i → st.dict.bits.getD (isa.getD (st.i - 1) 0) false = true
  cnt1 : st.lits.length + (st.i - st.litIndex) ≤ st.i - w
  cnt2 : st.lits.length + (st.i - st.litIndex) ≤ 1 + (st.i - (e + 1 - mm))
  /-- the sharper count when `mm` is smaller than the block: at most one literal unless the loop is
      inside the last `mm - 1` bytes -/
  cnt3 : mm < e - w →
    st.lits.length + (st.i - st.litIndex) ≤ st.i - (e + 1 - mm) ∨
    (st.lits.length + (st.i - st.litIndex) ≤ 1 ∧ (st.i ≤ w + 1 ∨ st.i = e))

theorem gsap_run_loop (hs : Sap.SAOK t sa isa) (he : e ≤ t.length) (hmm : 1 ≤ mm) (hws : e ≤ ws)
    (b : Byte) (hrun : ∀ q, w ≤ q → q < e → (t.take e)[q]? = some b)
    (st : LoopSt GsapD) (hJ : GR t sa isa e w mm st) :
    GR t sa isa e w mm (greedyLoop ⟨gsapProbe ws mm⟩ (t.take e) e st) ∧
    (greedyLoop ⟨gsapProbe ws mm⟩ (t.take e) e st).i = e := by
  have hlen : (t.take e).length = e := by simp only [List.length_take]; omega
  have key := Sap.greedyLoop_invariant ⟨gsapProbe ws mm⟩ (t.take e) e (GR t sa isa e w mm) ?_ ?_ st hJ
  · exact ⟨key.1, by have := key.1.gb.i_le; have := key.2; omega⟩
  · -- a literal
    intro st d hi hJ hp
    obtain ⟨g1, g2, g3⟩ := gb_none t sa isa e ws mm hs he st d hi hJ.gb hp
    have hli := hJ.gb.li_le
    have c1 := hJ.cnt1
    have c2 := hJ.cnt2
    have hshort : w < st.i → e - st.i < mm := by
      intro hwi
      have hs' : Sap.SAOK t st.dict.sa st.dict.isa := by rw [hJ.gb.hsa, hJ.gb.hisa]; exact hs
      have hb' : BitsSub st.dict.sa st.dict.bits t.length st.i := by rw [hJ.gb.hsa]; exact hJ.gb.bits
      exact gsapProbe_none_run ws mm st.litIndex hs' hb' hi he hmm (by omega) b (by omega)
        (fun q h1 h2 => hrun q (by omega) h2) (by rw [hJ.gb.hisa]; exact hJ.prev hwi) hp
    refine ⟨g1, hJ.w_le, ?_, ?_, ?_, ?_⟩
    · intro _
      show d.bits.getD (isa.getD (st.i + 1 - 1) 0) false = true
      rw [Nat.add_sub_cancel]; exact g2
    · show st.lits.length + (st.i + 1 - st.litIndex) ≤ st.i + 1 - w
      have := hJ.w_le; omega
    · show st.lits.length + (st.i + 1 - st.litIndex) ≤ 1 + (st.i + 1 - (e + 1 - mm))
      by_cases hwi : w < st.i
      · have := hshort hwi
        omega
      · have := hJ.w_le; omega
    · intro hmn
      show st.lits.length + (st.i + 1 - st.litIndex) ≤ st.i + 1 - (e + 1 - mm) ∨
        (st.lits.length + (st.i + 1 - st.litIndex) ≤ 1 ∧ (st.i + 1 ≤ w + 1 ∨ st.i + 1 = e))
      have c3 := hJ.cnt3 hmn
      have hwl := hJ.w_le
      by_cases hwi : w < st.i
      · have := hshort hwi
        rcases c3 with c3 | ⟨c3, c4⟩
        · left; omega
        · exfalso; omega
      · right; omega
  · -- a match
    intro st d s k o hi hJ hp
    obtain ⟨rfl, hk, hke, g1, g2⟩ := gb_some t sa isa e ws mm hs he hmm st d s k o hi hJ.gb hp
    have hli := hJ.gb.li_le
    have c1 := hJ.cnt1
    have c2 := hJ.cnt2
    have hwl := hJ.w_le
    have hend : w < st.i → st.i + k = e := by
      intro hwi
      have hs' : Sap.SAOK t st.dict.sa st.dict.isa := by rw [hJ.gb.hsa, hJ.gb.hisa]; exact hs
      have hb' : BitsSub st.dict.sa st.dict.bits t.length st.i := by rw [hJ.gb.hsa]; exact hJ.gb.bits
      exact gsapProbe_some_run ws mm st.litIndex hs' hb' hi he b (by omega)
        (fun q h1 h2 => hrun q (by omega) h2) (by rw [hJ.gb.hisa]; exact hJ.prev hwi) hp
    refine ⟨by omega, g1, ?_, fun _ => g2, ?_, ?_, ?_⟩
    · show w ≤ st.i + k
      omega
    · show (st.lits ++ ((t.take e).drop st.litIndex).take (st.i - st.litIndex)).length +
        (st.i + k - (st.i + k)) ≤ st.i + k - w
      simp only [List.length_append, List.length_take, List.length_drop, hlen]
      omega
    · show (st.lits ++ ((t.take e).drop st.litIndex).take (st.i - st.litIndex)).length +
        (st.i + k - (st.i + k)) ≤ 1 + (st.i + k - (e + 1 - mm))
      simp only [List.length_append, List.length_take, List.length_drop, hlen]
      omega
    · intro hmn
      show (st.lits ++ ((t.take e).drop st.litIndex).take (st.i - st.litIndex)).length +
          (st.i + k - (st.i + k)) ≤ st.i + k - (e + 1 - mm) ∨
        ((st.lits ++ ((t.take e).drop st.litIndex).take (st.i - st.litIndex)).length +
          (st.i + k - (st.i + k)) ≤ 1 ∧ (st.i + k ≤ w + 1 ∨ st.i + k = e))
      simp only [List.length_append, List.length_take, List.length_drop, hlen]
      have c3 := hJ.cnt3 hmn
      by_cases hwi : w < st.i
      · have := hend hwi
        rcases c3 with c3 | ⟨c3, c4⟩
        · left; omega
        · right; omega
      · left; omega

/-- **block level, GSAP**: `runGreedy` on a run block `[w, e)` that lies inside the window, from a
    rank set that marks only positions in front of `w`, without `NoTrailingLiterals`, emits at most
    `mm` (`MinMatchLen`) literals; at most `max 1 (mm - 1)` if `mm` is smaller than the block -/
theorem gsap_run_block (hs : Sap.SAOK t sa isa) (he : e ≤ t.length) (hmm : 1 ≤ mm) (hws : e ≤ ws)
    (hw : w ≤ e) (b : Byte) (hrun : ∀ q, w ≤ q → q < e → (t.take e)[q]? = some b)
    (g : GsapD) (hsa : g.sa = sa) (hisa : g.isa = isa) (hb : BitsSub sa g.bits t.length w)
    (flags : Nat) (hf : flags % 2 = 0) :
    (Parser.runGreedy ⟨gsapProbe ws mm⟩ g (t.take e) w e flags).2.2.1.lits.length ≤ mm ∧
    (mm < e - w →
      (Parser.runGreedy ⟨gsapProbe ws mm⟩ g (t.take e) w e flags).2.2.1.lits.length ≤ max 1 (mm - 1)) := by
  have hlen : (t.take e).length = e := by simp only [List.length_take]; omega
  have h0 : GR t sa isa e w mm { dict := g, i := w, litIndex := w, seqs := [], lits := [] } :=
    ⟨⟨hsa, hisa, hb, Nat.le_refl _, hw⟩, Nat.le_refl _, fun h => absurd h (Nat.lt_irrefl _),
      by simp, by simp, fun _ => Or.inl (by simp)⟩
  obtain ⟨hJ, hi⟩ := gsap_run_loop t sa isa e w ws mm hs he hmm hws b hrun _ h0
  unfold Parser.runGreedy
  simp only []
  unfold finishBlock
  rw [if_neg (by omega)]
  simp only [List.length_append, List.length_drop, hlen]
  have c1 := hJ.cnt1
  have c2 := hJ.cnt2
  have c3 := hJ.cnt3
  have hli := hJ.gb.li_le
  have hwl := hJ.w_le
  rw [hi] at c1 c2 c3 hli
  refine ⟨by omega, ?_⟩
  intro hmn
  have := c3 hmn
  omega

end RunLoop

/-! ## the state invariant -/

/-- The weak GSAP invariant: the suffix array is absent, or it is the sorted suffix array (with its
    inverse) of a prefix `t` of the buffer and `bits` marks only ranks of positions `< W`. -/
def GsapW (s : Parser) (g : GsapD) : Prop :=
  g.sa.size = 0 ∨
  ∃ t, t <+: s.buf.data ∧ Sap.SAOK t g.sa g.isa ∧ BitsSub g.sa g.bits t.length s.buf.w

/-- the state is a GSAP state satisfying `GsapW` -/
def GsapWS (s : Parser) : Prop := ∃ g, s.dict = .gsap g ∧ GsapW s g

/-- the suffix-array state the `.gsap` branch of `Parse` works with (re-sorted if the block is not
    covered) satisfies the invariant with a text that covers the block -/
theorem gsapW_block (s : Parser) (g : GsapD) (hn : s.blockN ≠ 0) (hw : s.buf.w ≤ s.buf.data.length)
    (h : GsapW s g) :
    ∃ t, t <+: s.buf.data ∧ s.buf.w + s.blockN ≤ t.length ∧
      Sap.SAOK t (if s.buf.w + s.blockN > g.sa.size then gsapSort s.buf.data s.buf.w else g).sa
        (if s.buf.w + s.blockN > g.sa.size then gsapSort s.buf.data s.buf.w else g).isa ∧
      BitsSub (if s.buf.w + s.blockN > g.sa.size then gsapSort s.buf.data s.buf.w else g).sa
        (if s.buf.w + s.blockN > g.sa.size then gsapSort s.buf.data s.buf.w else g).bits t.length s.buf.w := by
  have hle := s.blockN_le
  by_cases hre : s.buf.w + s.blockN > g.sa.size
  · rw [if_pos hre]
    exact ⟨s.buf.data, List.prefix_refl _, by omega, Sap.saok_gsapSort _ _,
      BitsSub.of_ok (Sap.gsapSort_bitsOK _ _ hw (Sap.saok_gsapSort _ _))⟩
  · rw [if_neg hre]
    rcases h with h0 | ⟨t, h1, h2, h3⟩
    · omega
    · exact ⟨t, h1, by have := h2.size_sa; omega, h2, h3⟩

theorem blockPrefix_of_prefix (s : Parser) (t : List Byte) (h1 : t <+: s.buf.data)
    (h2 : s.buf.w + s.blockN ≤ t.length) : s.blockPrefix = t.take (s.buf.w + s.blockN) := by
  obtain ⟨r, hr⟩ := h1
  unfold blockPrefix
  rw [← hr, List.take_append_of_le_length h2]

/-! ## one `Parse` call -/

/-- both bounds of one `Parse` call (see `C19_run_gsap`, `C19_run_gsap_sharp`) -/
theorem C19_run_gsap_both (s : Parser) (hF : GsapWS s) (hw : s.buf.w ≤ s.buf.data.length)
    (hbuf : s.buf.data.length ≤ s.buf.cfg.bufferSize)
    (hbw : s.buf.cfg.bufferSize ≤ s.buf.cfg.windowSize) (hmm : 1 ≤ s.minMatch)
    (flags : Nat) (s' : Parser) (n : Nat) (blk : Block) (b : Byte)
    (hp : s.parse flags = (s', n, .ok, blk)) (hf : flags % 2 = 0) (hn : 32 ≤ n)
    (hrun : ∀ t, t < n → s.buf.data[s.buf.w + t]? = some b) :
    blk.lits.length ≤ s.minMatch ∧ (s.minMatch < n → blk.lits.length ≤ max 1 (s.minMatch - 1)) := by
  obtain ⟨g, hd, hW⟩ := hF
  have hn0 : s.blockN ≠ 0 := by
    intro h0
    rw [parse_empty s flags h0] at hp
    simp at hp
  have hl := s.blockPrefix_length hw
  have hN := s.blockN_le
  obtain ⟨t, h1, h2, h3, h4⟩ := gsapW_block s g hn0 hw hW
  have hpre := blockPrefix_of_prefix s t h1 h2
  rw [parse_gsap s flags g hd hn0] at hp
  simp only [Prod.mk.injEq] at hp
  obtain ⟨-, hn', -, hblk⟩ := hp
  rw [runGreedy_w_even _ _ _ _ _ _ hf] at hn'
  have hnN : n = s.blockN := by omega
  rw [← hblk, hl, hpre]
  have key := gsap_run_block t _ _ (s.buf.w + s.blockN) s.buf.w s.buf.cfg.windowSize s.minMatch h3 h2 hmm
    (by omega) (by omega) b ?_ _ rfl rfl h4 flags hf
  · exact ⟨key.1, fun hlt => key.2 (by omega)⟩
  intro q hq1 hq2
  rw [← hpre]
  unfold blockPrefix
  rw [List.getElem?_take, if_pos hq2]
  have := hrun (q - s.buf.w) (by omega)
  have e : s.buf.w + (q - s.buf.w) = q := by omega
  rw [e] at this; exact this

/-- **C19, run clause, GSAP, one call.**  `s` is a GSAP state satisfying the invariant `GsapWS`
    (every reachable GSAP state does, `reachable_gsapWS`), with at most `BufferSize` bytes buffered,
    `BufferSize ≤ WindowSize` and `MinMatchLen ≥ 1`.  If `Parse(&blk, flags)` without
    `NoTrailingLiterals` returns a block of `n ≥ 32` bytes that all equal `b`, the block has at most
    `MinMatchLen` literals. -/
theorem C19_run_gsap (s : Parser) (hF : GsapWS s) (hw : s.buf.w ≤ s.buf.data.length)
    (hbuf : s.buf.data.length ≤ s.buf.cfg.bufferSize)
    (hbw : s.buf.cfg.bufferSize ≤ s.buf.cfg.windowSize) (hmm : 1 ≤ s.minMatch)
    (flags : Nat) (s' : Parser) (n : Nat) (blk : Block) (b : Byte)
    (hp : s.parse flags = (s', n, .ok, blk)) (hf : flags % 2 = 0) (hn : 32 ≤ n)
    (hrun : ∀ t, t < n → s.buf.data[s.buf.w + t]? = some b) :
    blk.lits.length ≤ s.minMatch :=
  (C19_run_gsap_both s hF hw hbuf hbw hmm flags s' n blk b hp hf hn hrun).1

/-- **The sharper bound** when `MinMatchLen` is smaller than the block (`MinMatchLen < n`, e.g.
    `MinMatchLen ≤ 31`): at most `max 1 (MinMatchLen - 1)` literals — either one literal at the
    block start, or the fewer than `MinMatchLen` bytes behind a first match that ends short of the
    block end.  (For `MinMatchLen = n = 32` a block of 32 literals = `MinMatchLen` is possible.) -/
theorem C19_run_gsap_sharp (s : Parser) (hF : GsapWS s) (hw : s.buf.w ≤ s.buf.data.length)
    (hbuf : s.buf.data.length ≤ s.buf.cfg.bufferSize)
    (hbw : s.buf.cfg.bufferSize ≤ s.buf.cfg.windowSize) (hmm : 1 ≤ s.minMatch)
    (flags : Nat) (s' : Parser) (n : Nat) (blk : Block) (b : Byte)
    (hp : s.parse flags = (s', n, .ok, blk)) (hf : flags % 2 = 0) (hn : 32 ≤ n)
    (hrun : ∀ t, t < n → s.buf.data[s.buf.w + t]? = some b) (hlt : s.minMatch < n) :
    blk.lits.length ≤ max 1 (s.minMatch - 1) :=
  (C19_run_gsap_both s hF hw hbuf hbw hmm flags s' n blk b hp hf hn hrun).2 hlt

/-! ## every operation keeps the invariant -/

theorem gsapWS_write (s : Parser) (p : List Byte) (h : GsapWS s) : GsapWS (s.write p).1 := by
  obtain ⟨g, hd, hW⟩ := h
  obtain ⟨a1, -, a3, -⟩ := write_frame s.buf p
  refine ⟨g, hd, ?_⟩
  rcases hW with h0 | ⟨t, h1, h2, h3⟩
  · exact Or.inl h0
  · refine Or.inr ⟨t, ?_, h2, ?_⟩
    · show t <+: (s.buf.write p).1.data
      rw [a1]; exact h1.trans (List.prefix_append _ _)
    · show BitsSub g.sa g.bits t.length (s.buf.write p).1.w
      rw [a3]; exact h3

theorem gsapWS_readFrom (s : Parser) (r : Reader) (h : GsapWS s) : GsapWS (s.readFrom r).1 := by
  obtain ⟨g, hd, hW⟩ := h
  obtain ⟨a1, -, a3, -⟩ := readFrom_frame s.buf r
  refine ⟨g, hd, ?_⟩
  rcases hW with h0 | ⟨t, h1, h2, h3⟩
  · exact Or.inl h0
  · refine Or.inr ⟨t, ?_, h2, ?_⟩
    · show t <+: (s.buf.readFrom r).1.data
      rw [a1]; exact h1.trans (List.prefix_append _ _)
    · show BitsSub g.sa g.bits t.length (s.buf.readFrom r).1.w
      rw [a3]; exact h3

theorem gsapWS_shrink (s : Parser) (h : GsapWS s) : GsapWS s.shrink.1 := by
  obtain ⟨g, hd, hW⟩ := h
  unfold Parser.shrink
  simp only
  split
  · exact ⟨g, hd, hW⟩
  · simp only [hd]
    exact ⟨GsapD.empty, rfl, Or.inl rfl⟩

theorem gsapWS_reset (s : Parser) (data : List Byte) (capExtra : Nat) (h : GsapWS s) :
    GsapWS (s.reset data capExtra).1 := by
  obtain ⟨g, hd, hW⟩ := h
  unfold Parser.reset
  simp only
  split
  · simp only [Parser.clearDict, hd]
    exact ⟨GsapD.empty, rfl, Or.inl rfl⟩
  · exact ⟨g, hd, hW⟩

theorem gsapWS_parseNil (s : Parser) (h : GsapWS s) : GsapWS s.parseNil.1 := by
  obtain ⟨g, hd, hW⟩ := h
  unfold Parser.parseNil
  simp only
  split
  · exact ⟨g, hd, hW⟩
  · simp only [hd]
    refine ⟨g, rfl, ?_⟩
    rcases hW with h0 | ⟨t, h1, h2, h3⟩
    · exact Or.inl h0
    · exact Or.inr ⟨t, h1, h2, h3.mono (Nat.le_add_right _ _)⟩

/-- `Parse(&blk, flags)` keeps the invariant (any flags, any data): the loop marks only positions
    it has passed; a truncated block drops the suffix array -/
theorem gsapWS_parse (s : Parser) (flags : Nat) (hw : s.buf.w ≤ s.buf.data.length)
    (hmm : 1 ≤ s.minMatch) (h : GsapWS s) : GsapWS (s.parse flags).1 := by
  by_cases hn0 : s.blockN = 0
  · rw [parse_empty s flags hn0]; exact h
  obtain ⟨g, hd, hW⟩ := h
  have hl := s.blockPrefix_length hw
  have hN := s.blockN_le
  obtain ⟨t, h1, h2, h3, h4⟩ := gsapW_block s g hn0 hw hW
  have hpre := blockPrefix_of_prefix s t h1 h2
  rw [parse_gsap s flags g hd hn0]
  simp only []
  rw [hl, hpre]
  generalize hg1 : (if s.buf.w + s.blockN > g.sa.size then gsapSort s.buf.data s.buf.w else g) = g1
    at h3 h4
  have h0 : GB t g1.sa g1.isa (s.buf.w + s.blockN)
      { dict := g1, i := s.buf.w, litIndex := s.buf.w, seqs := [], lits := [] } :=
    ⟨rfl, rfl, h4, Nat.le_refl _, Nat.le_add_right _ _⟩
  obtain ⟨hJ, hi⟩ := gb_loop t g1.sa g1.isa (s.buf.w + s.blockN) s.buf.cfg.windowSize s.minMatch h3 h2 hmm
    _ h0
  have hplen : (t.take (s.buf.w + s.blockN)).length = s.buf.w + s.blockN := by
    simp only [List.length_take]; omega
  unfold Parser.runGreedy
  simp only []
  split
  · exact ⟨_, rfl, Or.inl rfl⟩
  · rename_i hc
    refine ⟨_, rfl, Or.inr ⟨t, h1, ?_, ?_⟩⟩
    · rw [hJ.hsa, hJ.hisa]; exact h3
    · have hb2 := hJ.bits
      rw [hi] at hb2
      have hw' : (finishBlock (t.take (s.buf.w + s.blockN)) flags
          (greedyLoop ⟨gsapProbe s.buf.cfg.windowSize s.minMatch⟩ (t.take (s.buf.w + s.blockN))
            (s.buf.w + s.blockN)
            { dict := g1, i := s.buf.w, litIndex := s.buf.w, seqs := [], lits := [] })).1 =
          s.buf.w + s.blockN := by
        unfold finishBlock
        split
        · rename_i h2'
          have hli := hJ.li_le
          rw [hi] at hli
          simp only
          apply Nat.le_antisymm hli
          apply Nat.le_of_not_lt
          intro hlt
          apply hc
          refine ⟨h2'.1, ?_, hlt⟩
          unfold finishBlock
          rw [if_pos h2']
          exact h2'.2
        · exact hplen
      show BitsSub _ _ t.length (finishBlock _ _ _).1
      rw [hw', hJ.hsa]
      exact hb2

/-- every operation of a history keeps `GsapWS` -/
theorem gsapWS_stepP (s : Parser) (op : POp) (hw : s.buf.w ≤ s.buf.data.length)
    (hmm : 1 ≤ s.minMatch) (h : GsapWS s) : GsapWS (stepP s op) := by
  cases op with
  | write p => exact gsapWS_write s p h
  | readFrom r => exact gsapWS_readFrom s r h
  | parse flags => exact gsapWS_parse s flags hw hmm h
  | parseNil => exact gsapWS_parseNil s h
  | shrink => exact gsapWS_shrink s h
  | reset data capExtra => exact gsapWS_reset s data capExtra h

/-! ## history level -/

/-- a fresh GSAP parser satisfies the invariant (no suffix array yet) -/
theorem newParser_gsapWS {raw : Cfg} {s0 : Parser} (h0 : newParser .GSAP raw = some s0) : GsapWS s0 :=
  ⟨GsapD.empty, Sap.newParser_gsap_dict raw s0 h0, Or.inl rfl⟩

/-- the invariant of GSAP histories: the history invariant `Inv`, `Room` and `GsapWS` -/
theorem runOps_gsapWS {c : Cfg} {bc : BufCfg} (hS : Static .GSAP c bc) (ops : List POp) :
    ∀ (sg : Parser × Ghost), Inv .GSAP c bc sg → Room sg.1.buf → GsapWS sg.1 →
      Inv .GSAP c bc (runOps sg ops) ∧ Room (runOps sg ops).1.buf ∧ GsapWS (runOps sg ops).1 := by
  induction ops with
  | nil => intro sg h1 h2 h3; exact ⟨h1, h2, h3⟩
  | cons op ops ih =>
    intro sg h1 h2 h3
    apply ih (step sg op) (step_inv hS sg h1 op)
    · rw [step_fst]; exact room_stepP sg.1 op h2
    · rw [step_fst]
      refine gsapWS_stepP sg.1 op h1.hw ?_ h3
      rw [minMatch_eq, h1.kind, h1.cfg]; exact hS.mm

/-- every state of a GSAP history (ANY operations, `Parse(nil)` included) satisfies the hypotheses
    of `C19_run_gsap` except `BufferSize ≤ WindowSize`, which is a property of the configuration -/
theorem reachable_gsapWS (raw : Cfg) (s0 : Parser) (h0 : newParser .GSAP raw = some s0)
    (ops : List POp) :
    let s := (runOps (s0, Ghost.init) ops).1
    GsapWS s ∧ s.buf.w ≤ s.buf.data.length ∧ s.buf.data.length ≤ s.buf.cfg.bufferSize ∧
      s.buf.cfg = s0.buf.cfg ∧ 1 ≤ s.minMatch := by
  intro s
  obtain ⟨hi, hmm, hbs⟩ := newParser_inv .GSAP raw s0 h0
  obtain ⟨a1, a2, a3⟩ := runOps_gsapWS ⟨hmm, hbs, histHyp_of_ne .GSAP s0 (by decide)⟩ ops
    (s0, Ghost.init) hi (newParser_room h0) (newParser_gsapWS h0)
  refine ⟨a3, a1.hw, a2.1, a1.bcfg, ?_⟩
  rw [minMatch_eq, a1.kind, a1.cfg]; exact hmm

/-- **C19, run clause, history level, GSAP with `BufferSize ≤ WindowSize`.**  For every accepted
    GSAP configuration whose (defaults-completed) `BufferSize` does not exceed its `WindowSize`,
    every history of `Write`, `ReadFrom`, `Parse` (any flags), `Parse(nil)`, `Shrink`, `Reset`: if
    the next `Parse(&blk, flags)` without `NoTrailingLiterals` returns a block of `n ≥ 32` bytes, all
    equal to one byte `b`, the block carries at most `MinMatchLen` literal bytes. -/
theorem C19_run_gsap_reachable (raw : Cfg) (s0 : Parser) (h0 : newParser .GSAP raw = some s0)
    (hbw : s0.buf.cfg.bufferSize ≤ s0.buf.cfg.windowSize) (ops : List POp)
    (flags : Nat) (s' : Parser) (n : Nat) (blk : Block) (b : Byte) :
    let s := (runOps (s0, Ghost.init) ops).1
    s.parse flags = (s', n, .ok, blk) → flags % 2 = 0 → 32 ≤ n →
    (∀ t, t < n → s.buf.data[s.buf.w + t]? = some b) →
    blk.lits.length ≤ s.minMatch := by
  intro s hp hf hn hrun
  obtain ⟨a1, a2, a3, a4, a5⟩ := reachable_gsapWS raw s0 h0 ops
  exact C19_run_gsap s a1 a2 a3 (by rw [a4]; exact hbw) a5 flags s' n blk b hp hf hn hrun

/-- `C19_run_gsap_sharp` at history level: with `MinMatchLen < n` at most `max 1 (MinMatchLen - 1)`
    literal bytes -/
theorem C19_run_gsap_sharp_reachable (raw : Cfg) (s0 : Parser) (h0 : newParser .GSAP raw = some s0)
    (hbw : s0.buf.cfg.bufferSize ≤ s0.buf.cfg.windowSize) (ops : List POp)
    (flags : Nat) (s' : Parser) (n : Nat) (blk : Block) (b : Byte) :
    let s := (runOps (s0, Ghost.init) ops).1
    s.parse flags = (s', n, .ok, blk) → flags % 2 = 0 → 32 ≤ n →
    (∀ t, t < n → s.buf.data[s.buf.w + t]? = some b) → s.minMatch < n →
    blk.lits.length ≤ max 1 (s.minMatch - 1) := by
  intro s hp hf hn hrun hlt
  obtain ⟨a1, a2, a3, a4, a5⟩ := reachable_gsapWS raw s0 h0 ops
  exact C19_run_gsap_sharp s a1 a2 a3 (by rw [a4]; exact hbw) a5 flags s' n blk b hp hf hn hrun hlt

/-- `MinMatchLen` as configured: the bound of `C19_run_gsap_reachable` is the `MinMatchLen` field of
    the configuration `ParserConfig()` reports -/
theorem reachable_gsap_minMatch (raw : Cfg) (s0 : Parser) (h0 : newParser .GSAP raw = some s0)
    (ops : List POp) : (runOps (s0, Ghost.init) ops).1.minMatch = s0.cfg.minMatchLen.toNat := by
  obtain ⟨hi, hmm, hbs⟩ := newParser_inv .GSAP raw s0 h0
  obtain ⟨a1, -, -⟩ := runOps_gsapWS ⟨hmm, hbs, histHyp_of_ne .GSAP s0 (by decide)⟩ ops
    (s0, Ghost.init) hi (newParser_room h0) (newParser_gsapWS h0)
  unfold Parser.minMatch
  rw [a1.kind, a1.cfg]

/-! ## non-vacuity -/

section Examples

/-- a history WITH `Parse(nil)`: `Write("bbbbbbbb")`, `Parse(nil)`, `Write` of 40 bytes `a` -/
def gsapOpsEx : List POp := [.write (List.replicate 8 98), .parseNil, .write (List.replicate 40 97)]

/-- all hypotheses of `C19_run_gsap_reachable` are satisfiable (configuration `runCfg`:
    WindowSize 64 = BufferSize, BlockSize 32, MinMatchLen 3 by default): after the history
    `gsapOpsEx` the next `Parse` returns the block `[8, 40)` of 32 bytes `a` -/
example : ∃ s' blk,
    let s := (runOps (runS0 .GSAP, Ghost.init) gsapOpsEx).1
    newParser .GSAP runCfg = some (runS0 .GSAP) ∧
    (runS0 .GSAP).buf.cfg.bufferSize ≤ (runS0 .GSAP).buf.cfg.windowSize ∧
    s.parse 0 = (s', 32, .ok, blk) ∧ (∀ t, t < 32 → s.buf.data[s.buf.w + t]? = some 97) ∧
    blk.lits.length ≤ s.minMatch ∧ s.minMatch = 3 := by
  have hv : verify .GSAP (setDefaults .GSAP (runCfg.restrict .GSAP)) = true := by decide
  have hdata : (runOps (runS0 .GSAP, Ghost.init) gsapOpsEx).1.buf.data =
      List.replicate 8 98 ++ List.replicate 40 97 := by decide
  have hw : (runOps (runS0 .GSAP, Ghost.init) gsapOpsEx).1.buf.w = 8 := by decide
  have hbs : (runOps (runS0 .GSAP, Ghost.init) gsapOpsEx).1.buf.cfg.blockSize = 32 := by decide
  have hst := reachable_stateOK .GSAP runCfg (runS0 .GSAP) (runS0_new .GSAP hv) (by decide) gsapOpsEx
  obtain ⟨s', n, blk, hp, -, -, -, -, -, -, -, -, -, -, -, hfull, -⟩ :=
    C01_C02_C03_parse _ 0 hst.1 hst.2 (by rw [hw, hdata]; decide)
  have hn : n = 32 := by
    rw [hfull (Or.inl rfl), hdata, hw, hbs]; decide
  subst hn
  have hrun : ∀ t, t < 32 → (runOps (runS0 .GSAP, Ghost.init) gsapOpsEx).1.buf.data[
      (runOps (runS0 .GSAP, Ghost.init) gsapOpsEx).1.buf.w + t]? = some 97 := by
    intro t ht
    rw [hdata, hw, List.getElem?_append_right (by simp), List.getElem?_replicate,
      if_pos (by simp; omega)]
  have hbw : (runS0 .GSAP).buf.cfg.bufferSize ≤ (runS0 .GSAP).buf.cfg.windowSize := by decide
  refine ⟨s', blk, runS0_new .GSAP hv, hbw, hp, hrun,
    C19_run_gsap_reachable runCfg _ (runS0_new .GSAP hv) hbw gsapOpsEx 0 s' 32 blk 97 hp rfl
      (Nat.le_refl _) hrun, ?_⟩
  rw [reachable_gsap_minMatch runCfg _ (runS0_new .GSAP hv)]
  decide

end Examples

end LZ

