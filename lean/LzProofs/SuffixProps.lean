/-
  LzProofs.SuffixProps — properties C09 (suffix array / LCP table / InvertSA) and
  C10 (Segments reports every shared-prefix group completely, once, children first)
  for the model `LzModel/Suffix.lean`.

  Helper files: Lex (order, sandwich), SuffixLemmas (IsSuffixArray, invertSA), Kasai, Scan, Segments.

  Index
    §1 lexLe_isTotalOrder, suffixes_distinct, sandwich (Lex.lean), sandwich_eq
    §2 saSpec_isSuffixArray, suffixArray_unique, isSuffixArray_iff_eq_saSpec, isSuffixArray_strict,
       checkSA_iff, checkSA_eq_saSpec
    §3 invertSA_get_sa, sa_get_invertSA, invertSA_size_eq
    §4 kasai_correct, kasai_correct_any_init, kasai_no_panic, kasai_entries, lcp_of_saSpec, lcpSpec_le
       (Kasai.lean: kasai_key, kasaiLoopChk_spec = the loop invariant)
    §5 scan_exact, scan_nodup, scan_sound, scan_complete_unique, scan_complete_count, scan_value_le,
       scan_children_first(_split), scan_root, segments_some, segments_empty, segments_maxLen_lt,
       scanLCP_empty; counter-witness scanLCPOld_witness, scanLCPOld_incomplete, scanLCPOld_witness'
       (Scan.lean: popLoop_spec, ScanInv, inv_step, scanFrom_spec, scanLCP_spec)
    §6 lcp_range_min, segmentsOf_some, segmentsOf_saSpec_some, C10_groups_sound,
       C10_groups_complete_unique(_sym), C10_groups_nodup, C10_groups_children_first,
       C10_positions_complete_unique, C10_positions_sound
  Observations on the property texts (e.g. `maxLen ≤ MaxInt32` is needed for "no panic"): NOTES.md.
-/
import LzProofs.Segments
namespace LZ

/-! ## 1. Lexicographic order -/

/-- `lexLe` is a total order on byte strings. -/
theorem lexLe_isTotalOrder :
    (∀ a : List Byte, lexLe a a = true) ∧
    (∀ a b : List Byte, lexLe a b = true ∨ lexLe b a = true) ∧
    (∀ a b c : List Byte, lexLe a b = true → lexLe b c = true → lexLe a c = true) ∧
    (∀ a b : List Byte, lexLe a b = true → lexLe b a = true → a = b) :=
  ⟨lexLe_refl, lexLe_total, lexLe_trans, lexLe_antisymm⟩

/-- Distinct suffixes of one text have different lengths, hence are different strings. -/
theorem suffixes_distinct (t : List Byte) {i j : Nat} (hi : i ≤ t.length) (hj : j ≤ t.length)
    (h : i ≠ j) : (t.drop i).length ≠ (t.drop j).length ∧ t.drop i ≠ t.drop j :=
  ⟨length_drop_ne_of_ne hi hj h, drop_ne_of_ne hi hj h⟩

/-- Sandwich lemma: for `a ≤ b ≤ c` the outer common prefix is the minimum of the inner ones. -/
theorem sandwich_eq (a b c : List Byte) (hab : lexLe a b = true) (hbc : lexLe b c = true) :
    lcpLen a c = min (lcpLen a b) (lcpLen b c) := lcpLen_sandwich_eq a b c hab hbc

/-! ## 2. C09 — the suffix array specification -/

/-- `saSpec t` (the model of `suffix.Sort`) is a suffix array of `t`. -/
theorem saSpec_isSuffixArray (t : List Byte) : IsSuffixArray t (saSpec t) := by
  refine ⟨List.mergeSort_perm _ _, ?_⟩
  exact List.pairwise_mergeSort (le := fun i j => lexLe (t.drop i) (t.drop j))
    (fun a b c => lexLe_trans _ _ _) (fun a b => lexLe_total' _ _) _

/-- There is exactly one suffix array ("the unique permutation"). -/
theorem suffixArray_unique {t : List Byte} {sa sa' : List Nat}
    (h : IsSuffixArray t sa) (h' : IsSuffixArray t sa') : sa = sa' := by
  refine List.Perm.eq_of_pairwise (le := fun i j => lexLe (t.drop i) (t.drop j) = true)
    ?_ h.2 h'.2 (h.1.trans h'.1.symm)
  intro a b ha hb hab hba
  have ha' := (h.mem_iff a).1 ha
  have hb' := (h'.mem_iff b).1 hb
  exact drop_injective_of_le (Nat.le_of_lt ha') (Nat.le_of_lt hb') (lexLe_antisymm _ _ hab hba)

theorem isSuffixArray_iff_eq_saSpec {t : List Byte} {sa : List Nat} :
    IsSuffixArray t sa ↔ sa = saSpec t :=
  ⟨fun h => suffixArray_unique h (saSpec_isSuffixArray t), fun h => h ▸ saSpec_isSuffixArray t⟩

/-- In a suffix array the order is strict: a larger rank has a strictly larger suffix. -/
theorem isSuffixArray_strict {t : List Byte} {sa : List Nat} (h : IsSuffixArray t sa) {a b : Nat}
    (hab : a < b) (hb : b < sa.length) :
    lexLe (t.drop (sa[a]'(by omega))) (t.drop sa[b]) = true ∧
    lexLe (t.drop sa[b]) (t.drop (sa[a]'(by omega))) = false :=
  ⟨h.mono (Nat.le_of_lt hab) hb, h.strict hab hb⟩

/-- The linear-condition checker (permutation + adjacent suffixes strictly increasing)
    certifies exactly the suffix arrays. -/
theorem checkSA_iff (t : List Byte) (sa : List Nat) : checkSA t sa = true ↔ IsSuffixArray t sa := by
  rw [isSuffixArray_iff_adjacent, checkSA, Bool.and_eq_true, isPerm_iff, sortedSuffixes_iff]

/-- Per-input certification of `suffix.Sort`: an output accepted by the checker is `saSpec t`. -/
theorem checkSA_eq_saSpec {t : List Byte} {sa : List Nat} (h : checkSA t sa = true) :
    sa = saSpec t :=
  isSuffixArray_iff_eq_saSpec.1 ((checkSA_iff t sa).1 h)

-- non-vacuity: "banana"
example : IsSuffixArray [98,97,110,97,110,97] [5,3,1,0,4,2] :=
  (checkSA_iff _ _).1 (by decide)
example : IsSuffixArray [] [] := (checkSA_iff _ _).1 (by decide)

/-! ## 3. C09 — `InvertSA` -/

/-- `sainv[sa[j]] = j` -/
theorem invertSA_get_sa {sa : List Nat} (hp : sa.Perm (List.range sa.length)) (j : Nat)
    (hj : j < sa.length) : (invertSA sa.toArray)[sa[j]]? = some j :=
  invertSA_sa hp (List.getElem?_eq_getElem hj)

/-- `sa[sainv[i]] = i` -/
theorem sa_get_invertSA {sa : List Nat} (hp : sa.Perm (List.range sa.length)) (i : Nat)
    (hi : i < sa.length) :
    ∃ k, (invertSA sa.toArray)[i]? = some k ∧ k < sa.length ∧ sa[k]? = some i :=
  sa_invertSA hp hi

theorem invertSA_size_eq (sa : Array Nat) : (invertSA sa).size = sa.size := invertSA_size sa

example : ([5,3,1,0,4,2] : List Nat).Perm (List.range ([5,3,1,0,4,2] : List Nat).length) := by decide

/-! ## 4. C09 — the LCP table (`_lcp`, Kasai / φ algorithm) -/

/-- `_lcp` computes the specified LCP table: `lcp[0] = 0`, `lcp[i] = lcp(suffix sa[i-1], suffix sa[i])`. -/
theorem kasai_correct {t : List Byte} {sa : List Nat} (h : IsSuffixArray t sa) :
    (lcpKasai t sa.toArray (invertSA sa.toArray)).toList = lcpSpec t sa := by
  unfold lcpKasai
  rw [kasaiLoop_correct h (invertSA_isInverse h.isPermOfRange) _ (by simp)]

/-- The same for any inverse table and any previous contents of the `lcp` array
    (`LCP` receives the caller's array). -/
theorem kasai_correct_any_init {t : List Byte} {sa : List Nat} (h : IsSuffixArray t sa)
    {isa : Array Nat} (hinv : IsInverse sa isa) (lcp0 : Array Nat) (h0 : lcp0.size = t.length) :
    kasaiLoop t sa.toArray isa isa.size 0 0 lcp0 = (lcpSpec t sa).toArray :=
  kasaiLoop_correct h hinv lcp0 h0

/-- Model-level "no index/slice panic in `_lcp`": the loop with every index and slice operation
    checked (`sainv[i]`, `sa[k-1]`, `t[i+l:]`, `t[j+l:]`, `lcp[k] = …`; `kasaiLoopChk` returns `none`
    where Go would panic) succeeds and yields the specified table; in particular `i + l ≤ |t|` and
    `j + l ≤ |t|` at every step. -/
theorem kasai_no_panic {t : List Byte} {sa : List Nat} (h : IsSuffixArray t sa)
    (lcp0 : Array Nat) (h0 : lcp0.size = t.length) :
    kasaiLoopChk t sa.toArray (invertSA sa.toArray) (invertSA sa.toArray).size 0 0 lcp0
      = some (lcpSpec t sa).toArray :=
  kasaiChk_correct h (invertSA_isInverse h.isPermOfRange) lcp0 h0

/-- pointwise reading of the result -/
theorem kasai_entries {t : List Byte} {sa : List Nat} (h : IsSuffixArray t sa) (i : Nat)
    (hi : i < sa.length) :
    (lcpKasai t sa.toArray (invertSA sa.toArray))[i]? =
      some (if i = 0 then 0 else lcpLen (t.drop (sa.getD (i-1) 0)) (t.drop (sa.getD i 0))) := by
  have := kasai_correct h
  rw [← Array.getElem?_toList, this, lcpSpec]
  simp [hi]

/-- `LCP(t, nil, nil, lcp)`: with `sa`/`sainv` computed internally -/
theorem lcp_of_saSpec (t : List Byte) :
    (lcpKasai t (saSpec t).toArray (invertSA (saSpec t).toArray)).toList = lcpSpec t (saSpec t) :=
  kasai_correct (saSpec_isSuffixArray t)

/-- every LCP value is at most the text length (so it fits the `int32` of the Go code whenever `|t|` does) -/
theorem lcpSpec_le (t : List Byte) (sa : List Nat) : ∀ v ∈ lcpSpec t sa, v ≤ t.length := by
  intro v hv
  rw [lcpSpec_eq] at hv
  obtain ⟨k, _, e⟩ := List.mem_map.1 hv
  rw [← e]; exact specAt_le t sa k

example : lcpKasai [98,97,110,97,110,97] #[5,3,1,0,4,2] (invertSA #[5,3,1,0,4,2]) = #[0,1,3,0,0,2] := by
  decide

/-! ## 5. C10 — `scanLCP` / `segments` on an arbitrary LCP table

  `clip lcp M x = min lcp[x] M`, `cmin f a b = min {f x | a < x ≤ b}`,
  `LcpInterval f size m lo hi` (Segments.lean): `lo < hi ≤ size`, all `f x ≥ m` for `lo < x < hi`,
  not extensible to the left (`lo = 0 ∨ f lo < m`) nor to the right (`hi = size ∨ f hi < m`),
  and `m` is attained inside (or it is the root `m = 0`, `lo = 0`). -/

section Scan
variable (lcp : Array Nat) (minLen maxLen : Int)

/-- **Exact characterisation.** The callbacks are exactly the LCP-intervals of the clipped table
    whose value is at least `minLen`. -/
theorem scan_exact (hmin : 0 ≤ minLen) (hmm : minLen ≤ maxLen) (hsize : 0 < lcp.size)
    (m lo hi : Nat) :
    (m, lo, hi) ∈ scanLCP lcp minLen maxLen ↔
      minLen.toNat ≤ m ∧ LcpInterval (clip lcp maxLen.toNat) lcp.size m lo hi := by
  rw [scan_exact' lcp minLen maxLen (by omega) hsize]
  constructor
  · rintro ⟨h1, h2⟩; exact ⟨by omega, h2⟩
  · rintro ⟨h1, h2⟩; exact ⟨by omega, h2⟩

/-- No callback is issued twice. -/
theorem scan_nodup (hmin : 0 ≤ minLen) (hmm : minLen ≤ maxLen) (hsize : 0 < lcp.size) :
    (scanLCP lcp minLen maxLen).Nodup :=
  nodup_of_pairwise_cbBefore (scanLCP_spec lcp minLen maxLen (by omega) hsize).2

/-- **Soundness.** Every callback `(m, lo, hi)` (= `f(m, sa[lo:hi])`) has `minLen ≤ m ≤ maxLen`,
    a non-empty in-range segment (at least two suffixes if `m > 0`), all clipped LCP values
    strictly inside are `≥ m`, and the segment is maximal. -/
theorem scan_sound (hmin : 0 ≤ minLen) (hmm : minLen ≤ maxLen) (hsize : 0 < lcp.size)
    {m lo hi : Nat} (h : (m, lo, hi) ∈ scanLCP lcp minLen maxLen) :
    minLen ≤ (m : Int) ∧ (m : Int) ≤ maxLen ∧ lo < hi ∧ hi ≤ lcp.size ∧ (0 < m → lo + 1 < hi) ∧
    (∀ x, lo < x → x < hi → m ≤ clip lcp maxLen.toNat x) ∧
    (lo = 0 ∨ clip lcp maxLen.toNat lo < m) ∧
    (hi = lcp.size ∨ clip lcp maxLen.toNat hi < m) := by
  obtain ⟨h1, h2⟩ := (scan_exact lcp minLen maxLen hmin hmm hsize m lo hi).1 h
  have hle : m ≤ maxLen.toNat := h2.value_le (fun x => by unfold clip; omega)
  exact ⟨by omega, by omega, h2.lt, h2.le, h2.two, h2.ge, h2.left_max, h2.right_max⟩

/-- **Completeness and uniqueness.** For ranks `a < b` whose range minimum `c` of the clipped
    table is `≥ minLen` there is exactly one callback with `m = c` whose segment contains both. -/
theorem scan_complete_unique (hmin : 0 ≤ minLen) (hmm : minLen ≤ maxLen)
    {a b : Nat} (hab : a < b) (hb : b < lcp.size)
    (hc : minLen ≤ (cmin (clip lcp maxLen.toNat) a b : Int)) :
    ∃ cb : Callback, (cb ∈ scanLCP lcp minLen maxLen ∧
        cb.1 = cmin (clip lcp maxLen.toNat) a b ∧ cb.2.1 ≤ a ∧ b < cb.2.2) ∧
      ∀ cb' : Callback, (cb' ∈ scanLCP lcp minLen maxLen ∧
        cb'.1 = cmin (clip lcp maxLen.toNat) a b ∧ cb'.2.1 ≤ a ∧ b < cb'.2.2) → cb' = cb := by
  have hsize : 0 < lcp.size := by omega
  obtain ⟨lo, hi, hiv, hlo, hhi⟩ := lcpInterval_exists (clip lcp maxLen.toNat) hab hb
  refine ⟨(_, lo, hi), ⟨(scan_exact lcp minLen maxLen hmin hmm hsize _ lo hi).2 ⟨by omega, hiv⟩,
    rfl, hlo, hhi⟩, ?_⟩
  rintro ⟨m', lo', hi'⟩ ⟨hmem, hm, hlo', hhi'⟩
  simp only at hm hlo' hhi'
  subst hm
  have hiv' := ((scan_exact lcp minLen maxLen hmin hmm hsize _ lo' hi').1 hmem).2
  obtain ⟨e1, e2⟩ := lcpInterval_unique _ hab hiv hiv' hlo hhi hlo' hhi'
  rw [e1, e2]

/-- … counted with multiplicity: exactly one position of the callback list. -/
theorem scan_complete_count (hmin : 0 ≤ minLen) (hmm : minLen ≤ maxLen)
    {a b : Nat} (hab : a < b) (hb : b < lcp.size)
    (hc : minLen ≤ (cmin (clip lcp maxLen.toNat) a b : Int)) :
    (scanLCP lcp minLen maxLen).countP
      (fun cb => cb.1 == cmin (clip lcp maxLen.toNat) a b && decide (cb.2.1 ≤ a) && decide (b < cb.2.2)) = 1 := by
  obtain ⟨cb, ⟨h1, h2, h3, h4⟩, hu⟩ := scan_complete_unique lcp minLen maxLen hmin hmm hab hb hc
  apply countP_eq_one_of_nodup (scan_nodup lcp minLen maxLen hmin hmm (by omega)) h1
  · simp [h2, h3, h4]
  · intro y hy hp
    simp only [Bool.and_eq_true, beq_iff_eq, decide_eq_true_eq] at hp
    exact hu y ⟨hy, hp.1.1, hp.1.2, hp.2⟩

/-- callbacks containing `a < b` never have a value above the range minimum -/
theorem scan_value_le (hmin : 0 ≤ minLen) (hmm : minLen ≤ maxLen) (hsize : 0 < lcp.size)
    {m lo hi a b : Nat} (h : (m, lo, hi) ∈ scanLCP lcp minLen maxLen) (hab : a < b)
    (hlo : lo ≤ a) (hhi : b < hi) : m ≤ cmin (clip lcp maxLen.toNat) a b :=
  ((scan_exact lcp minLen maxLen hmin hmm hsize m lo hi).1 h).2.value_le_cmin hab hlo hhi

/-- **Children first.** A callback with a larger value nested in another one is issued earlier
    (`[cb₁, cb₂]` is a sublist of the callback list, which has no duplicates). -/
theorem scan_children_first (hmin : 0 ≤ minLen) (hmm : minLen ≤ maxLen) (hsize : 0 < lcp.size)
    {m1 lo1 hi1 m2 lo2 hi2 : Nat}
    (h1 : (m1, lo1, hi1) ∈ scanLCP lcp minLen maxLen) (h2 : (m2, lo2, hi2) ∈ scanLCP lcp minLen maxLen)
    (_hlo : lo2 ≤ lo1) (hhi : hi1 ≤ hi2) (hm : m2 < m1) :
    [(m1, lo1, hi1), (m2, lo2, hi2)].Sublist (scanLCP lcp minLen maxLen) := by
  apply sublist_pair_of_pairwise (scanLCP_spec lcp minLen maxLen (by omega) hsize).2 h1 h2
  · intro e; simp only [Prod.mk.injEq] at e; omega
  · unfold CbBefore; simp only; omega

/-- the same as a split of the callback list: `cb₁` lies in the front part, `cb₂` in the rest -/
theorem scan_children_first_split (hmin : 0 ≤ minLen) (hmm : minLen ≤ maxLen) (hsize : 0 < lcp.size)
    {m1 lo1 hi1 m2 lo2 hi2 : Nat}
    (h1 : (m1, lo1, hi1) ∈ scanLCP lcp minLen maxLen) (h2 : (m2, lo2, hi2) ∈ scanLCP lcp minLen maxLen)
    (hlo : lo2 ≤ lo1) (hhi : hi1 ≤ hi2) (hm : m2 < m1) :
    ∃ r₁ r₂, scanLCP lcp minLen maxLen = r₁ ++ r₂ ∧ (m1, lo1, hi1) ∈ r₁ ∧ (m2, lo2, hi2) ∈ r₂ := by
  have hs := scan_children_first lcp minLen maxLen hmin hmm hsize h1 h2 hlo hhi hm
  obtain ⟨r₁, r₂, e, ha, hb⟩ := List.cons_sublist_iff.1 hs
  exact ⟨r₁, r₂, e, ha, List.singleton_sublist.1 hb⟩

/-- **The root.** For `minLen = 0` the whole range `[0, size)` is reported (once, by `scan_nodup`)
    with `m = 0`; no other callback has `m = 0`; for `minLen > 0` no callback has `m = 0`. -/
theorem scan_root (hmin : 0 ≤ minLen) (hmm : minLen ≤ maxLen) (hsize : 0 < lcp.size) :
    (minLen = 0 → (0, 0, lcp.size) ∈ scanLCP lcp minLen maxLen) ∧
    (∀ lo hi, (0, lo, hi) ∈ scanLCP lcp minLen maxLen → minLen = 0 ∧ lo = 0 ∧ hi = lcp.size) := by
  constructor
  · intro h0
    rw [scan_exact lcp minLen maxLen hmin hmm hsize]
    exact ⟨by omega, hsize, Nat.le_refl _, fun _ _ _ => Nat.zero_le _, Or.inl rfl, Or.inl rfl,
      Or.inl ⟨rfl, rfl⟩⟩
  · intro lo hi h
    obtain ⟨h1, h2⟩ := (scan_exact lcp minLen maxLen hmin hmm hsize 0 lo hi).1 h
    have := h2.left_max
    have := h2.right_max
    omega

/-- `Segments` never panics on consistent arguments and is the scan (or nothing for the empty text). -/
theorem segments_some (saLen : Nat) (hlen : saLen = lcp.size) (hmin : 0 ≤ minLen)
    (hmm : minLen ≤ maxLen) (hmax : maxLen ≤ 2147483647) :
    segments saLen lcp minLen maxLen =
      some (if saLen = 0 then [] else scanLCP lcp minLen maxLen) := by
  subst hlen
  unfold segments
  have h2 : ¬ minLen < 0 := by omega
  have h3 : ¬ maxLen < minLen := by omega
  have h4 : ¬ minLen > 2147483647 := by omega
  have h5 : ¬ maxLen > 2147483647 := by omega
  by_cases h0 : lcp.size = 0 <;> simp [h2, h3, h4, h5, h0]

/-- the empty text: no callbacks, no panic (D9) -/
theorem segments_empty (hmin : 0 ≤ minLen) (hmax : maxLen ≤ 2147483647) (hmin' : minLen ≤ 2147483647) :
    segments 0 #[] minLen maxLen = some [] := by
  unfold segments
  have h2 : ¬ minLen < 0 := by omega
  simp [h2]

/-- an empty table: the scan itself reports nothing -/
theorem scanLCP_empty : scanLCP #[] minLen maxLen = [] := by
  simp [scanLCP, scanFrom]

/-- `maxLen < minLen`: nothing is reported -/
theorem segments_maxLen_lt (saLen : Nat) (hlen : saLen = lcp.size) (hmin : 0 ≤ minLen)
    (hmin' : minLen ≤ 2147483647) (hmax : maxLen ≤ 2147483647) (h : maxLen < minLen) :
    segments saLen lcp minLen maxLen = some [] := by
  unfold segments
  have h2 : ¬ minLen < 0 := by omega
  simp [hlen, h2, h]

end Scan

-- non-vacuity / examples: "abcXabcYabd" has the LCP table below
example : scanLCP #[0,3,2] 1 10 = [(3,0,2),(2,0,3)] := by
  simp [scanLCP, scanFrom, popLoop, Int.min_def]
example : scanLCP #[0,0,0,3,2,0,2,1,0,1,0] 1 10 =
    [(3,2,4),(2,2,5),(2,5,7),(1,5,8),(1,8,10)] := by
  simp [scanLCP, scanFrom, popLoop, Int.min_def]
example : cmin (clip #[0,3,2] 10) 0 2 = 2 := by decide

/-! ### Counter-witness for the UNREPAIRED scan (DESIGN.md §2 D8) -/

/-- the inner loop as in the unrepaired `segments.go`: after pops the new interval is pushed with
    left boundary `j - 1` instead of the left boundary of the interval just closed -/
def popLoopOld (minLen : Int) (n : Int) (j : Nat) :
    List Item → List Callback → Option (List Item) × List Callback
  | [], out => (none, out)
  | top :: rest, out =>
    if n > top.n then (some (⟨n, j - 1⟩ :: top :: rest), out)
    else if n = top.n then (some (top :: rest), out)
    else
      let out' := if top.n ≥ minLen then out ++ [(top.n.toNat, top.j, j)] else out
      match rest with
      | [] => (none, out')
      | _ => popLoopOld minLen n j rest out'

/-- outer loop (explicit fuel `size` so that it evaluates by `decide`) -/
def scanFromOld (lcp : Array Nat) (minLen maxLen : Int) :
    Nat → Nat → List Item → List Callback → List Callback
  | 0, _, _, out => out
  | fuel+1, j, stack, out =>
    let n : Int := if j < lcp.size then min ((lcp.getD j 0 : Nat) : Int) maxLen else -1
    match popLoopOld minLen n j stack out with
    | (none, out') => out'
    | (some st, out') => scanFromOld lcp minLen maxLen fuel (j + 1) st out'

def scanLCPOld (lcp : Array Nat) (minLen maxLen : Int) : List Callback :=
  scanFromOld lcp minLen maxLen lcp.size 1 [⟨0, 0⟩] []

/-- On `lcp = [0,3,2]` the unrepaired scan reports `(2,1,3)` instead of `(2,0,3)` … -/
theorem scanLCPOld_witness : scanLCPOld #[0,3,2] 1 10 = [(3,0,2),(2,1,3)] := by decide

/-- … so the ranks `0 < 2` with range minimum `2 ≥ minLen` are in no reported group of value 2:
    completeness fails. -/
theorem scanLCPOld_incomplete :
    cmin (clip #[0,3,2] 10) 0 2 = 2 ∧
    ¬ ∃ cb ∈ scanLCPOld #[0,3,2] 1 10, cb.1 = 2 ∧ cb.2.1 ≤ 0 ∧ 2 < cb.2.2 := by decide

/-- "abcXabcYabd": the unrepaired scan reports `(2,3,5)`, losing rank 2 (suffix 0). -/
theorem scanLCPOld_witness' :
    scanLCPOld #[0,0,0,3,2,0,2,1,0,1,0] 1 10 = [(3,2,4),(2,3,5),(2,5,7),(1,6,8),(1,8,10)] := by decide


/-! ## 6. C10 lifted to suffixes: the callbacks are the groups of suffixes sharing `m` bytes

  `sufLcp t sa a b` = common-prefix length of the suffixes at the ranks `a`, `b`. -/

section Groups
variable {t : List Byte} {sa : List Nat}

/-- The minimum of the LCP table over the ranks `(a, b]` is the common-prefix length of the
    suffixes at the ranks `a` and `b` (sandwich lemma + induction). -/
theorem lcp_range_min (h : IsSuffixArray t sa) {a b : Nat} (hab : a < b) (hb : b < sa.length) :
    cmin (fun x => (lcpSpec t sa).toArray.getD x 0) a b
      = lcpLen (t.drop (sa[a]'(by omega))) (t.drop sa[b]) := by
  have e1 : sa.getD a 0 = sa[a]'(by omega) := by
    simp [List.getElem?_eq_getElem (show a < sa.length by omega)]
  have e2 : sa.getD b 0 = sa[b] := by simp [List.getElem?_eq_getElem hb]
  rw [← e1, ← e2]
  show _ = sufLcp t sa a b
  rw [← cmin_specAt h a b hab hb]
  apply cmin_congr a b hab
  intro x _ hx
  exact getD_lcpSpec t sa (by omega)

/-- the table computed by `_lcp` is the specified one (array form of `kasai_correct`) -/
theorem lcpKasai_eq (h : IsSuffixArray t sa) :
    lcpKasai t sa.toArray (invertSA sa.toArray) = (lcpSpec t sa).toArray := by
  have := kasai_correct h
  rw [← this]

theorem lcpSpec_size (t : List Byte) (sa : List Nat) : (lcpSpec t sa).toArray.size = sa.length := by
  simp [lcpSpec_eq]

/-- the callbacks `Segments` issues for the text `t` (suffix array `sa`, LCP table by `_lcp`) -/
def segmentsOf (t : List Byte) (sa : List Nat) (minLen maxLen : Int) : Option (List Callback) :=
  segments sa.length (lcpKasai t sa.toArray (invertSA sa.toArray)) minLen maxLen

/-- nothing panics, also for the empty text -/
theorem segmentsOf_some (h : IsSuffixArray t sa) {minLen maxLen : Int} (hmin : 0 ≤ minLen)
    (hmm : minLen ≤ maxLen) (hmax : maxLen ≤ 2147483647) :
    segmentsOf t sa minLen maxLen =
      some (if sa.length = 0 then [] else scanLCP (lcpSpec t sa).toArray minLen maxLen) := by
  unfold segmentsOf
  rw [lcpKasai_eq h]
  exact segments_some _ _ _ _ (lcpSpec_size t sa).symm hmin hmm hmax

theorem mem_segmentsOf (h : IsSuffixArray t sa) {minLen maxLen : Int} (hmin : 0 ≤ minLen)
    (hmm : minLen ≤ maxLen) (hmax : maxLen ≤ 2147483647) {cbs : List Callback}
    (hs : segmentsOf t sa minLen maxLen = some cbs) (cb : Callback) :
    cb ∈ cbs ↔ 0 < sa.length ∧ cb ∈ scanLCP (lcpSpec t sa).toArray minLen maxLen := by
  rw [segmentsOf_some h hmin hmm hmax] at hs
  have := Option.some.inj hs
  subst this
  by_cases h0 : sa.length = 0
  · simp [h0]
  · simp [h0]; omega

/-- **C10, soundness for suffixes.** Every callback `(m, lo, hi)` has `minLen ≤ m ≤ maxLen`, its
    segment `sa[lo:hi]` is a non-empty range of ranks (distinct suffixes, since `sa` has no
    duplicates), any two suffixes in it share their first `m` bytes, and the group is complete:
    no suffix outside the segment shares `m` bytes with a suffix inside. -/
theorem C10_groups_sound (h : IsSuffixArray t sa) {minLen maxLen : Int} (hmin : 0 ≤ minLen)
    (hmm : minLen ≤ maxLen) (hmax : maxLen ≤ 2147483647) {cbs : List Callback}
    (hs : segmentsOf t sa minLen maxLen = some cbs) {m lo hi : Nat} (hcb : (m, lo, hi) ∈ cbs) :
    minLen ≤ (m : Int) ∧ (m : Int) ≤ maxLen ∧ lo < hi ∧ hi ≤ sa.length ∧
    (∀ a b, lo ≤ a → a < b → b < hi → m ≤ sufLcp t sa a b) ∧
    (∀ a r, lo ≤ a → a < hi → r < sa.length → (r < lo ∨ hi ≤ r) → sufLcp t sa a r < m) := by
  obtain ⟨hpos, hmem⟩ := (mem_segmentsOf h hmin hmm hmax hs _).1 hcb
  have hsz := lcpSpec_size t sa
  have hsize : 0 < (lcpSpec t sa).toArray.size := by omega
  obtain ⟨s1, s2, s3, s4, _, _, _, _⟩ := scan_sound _ _ _ hmin hmm hsize hmem
  obtain ⟨_, hiv⟩ := (scan_exact _ _ _ hmin hmm hsize m lo hi).1 hmem
  have hmM : m ≤ maxLen.toNat := by omega
  refine ⟨s1, s2, s3, by omega, ?_, ?_⟩
  · intro a b hla hab hbh
    have := hiv.value_le_cmin hab hla hbh
    rw [cmin_clip_lcpSpec h _ hab (by omega)] at this
    omega
  · intro a r hla hah hr hout
    rcases hout with hrl | hhr
    · -- `r < lo ≤ a`: the value at `lo` is below `m`
      have hlm : clip (lcpSpec t sa).toArray maxLen.toNat lo < m := by
        rcases hiv.left_max with e | e
        · omega
        · exact e
      have hra : r < a := by omega
      have := (cmin_spec (clip (lcpSpec t sa).toArray maxLen.toNat) r a hra).1 lo hrl hla
      rw [cmin_clip_lcpSpec h _ hra (by omega)] at this
      rw [sufLcp_comm]
      omega
    · have hhm : clip (lcpSpec t sa).toArray maxLen.toNat hi < m := by
        rcases hiv.right_max with e | e
        · omega
        · exact e
      have har : a < r := by omega
      have := (cmin_spec (clip (lcpSpec t sa).toArray maxLen.toNat) a r har).1 hi hah hhr
      rw [cmin_clip_lcpSpec h _ har hr] at this
      omega

/-- **C10, completeness and uniqueness for suffixes.** For any two ranks `a < b` whose suffixes have
    a common prefix of length `c ≥ minLen` there is exactly one callback with `m = min c maxLen`
    whose segment contains both. -/
theorem C10_groups_complete_unique (h : IsSuffixArray t sa) {minLen maxLen : Int} (hmin : 0 ≤ minLen)
    (hmm : minLen ≤ maxLen) (hmax : maxLen ≤ 2147483647) {cbs : List Callback}
    (hs : segmentsOf t sa minLen maxLen = some cbs) {a b : Nat} (hab : a < b) (hb : b < sa.length)
    (hc : minLen ≤ (sufLcp t sa a b : Int)) :
    ∃ cb : Callback, (cb ∈ cbs ∧ cb.1 = min (sufLcp t sa a b) maxLen.toNat ∧ cb.2.1 ≤ a ∧ b < cb.2.2) ∧
      ∀ cb' : Callback, (cb' ∈ cbs ∧ cb'.1 = min (sufLcp t sa a b) maxLen.toNat ∧ cb'.2.1 ≤ a ∧
        b < cb'.2.2) → cb' = cb := by
  have hsz := lcpSpec_size t sa
  have hb' : b < (lcpSpec t sa).toArray.size := by omega
  have hcm := cmin_clip_lcpSpec h maxLen.toNat hab hb
  obtain ⟨cb, ⟨h1, h2, h3, h4⟩, hu⟩ := scan_complete_unique (lcpSpec t sa).toArray minLen maxLen
    hmin hmm hab hb' (by rw [hcm]; omega)
  rw [hcm] at h2 hu
  refine ⟨cb, ⟨(mem_segmentsOf h hmin hmm hmax hs cb).2 ⟨by omega, h1⟩, h2, h3, h4⟩, ?_⟩
  rintro cb' ⟨g1, g2, g3, g4⟩
  exact hu cb' ⟨((mem_segmentsOf h hmin hmm hmax hs cb').1 g1).2, g2, g3, g4⟩

/-- … and it is issued at exactly one position of the callback list. -/
theorem C10_groups_nodup (h : IsSuffixArray t sa) {minLen maxLen : Int} (hmin : 0 ≤ minLen)
    (hmm : minLen ≤ maxLen) (hmax : maxLen ≤ 2147483647) {cbs : List Callback}
    (hs : segmentsOf t sa minLen maxLen = some cbs) : cbs.Nodup := by
  rw [segmentsOf_some h hmin hmm hmax] at hs
  have := Option.some.inj hs
  subst this
  by_cases h0 : sa.length = 0
  · simp [h0]
  · simp only [h0, if_false]
    exact scan_nodup _ _ _ hmin hmm (by rw [lcpSpec_size]; omega)

/-- **C10, children first.** Groups with a longer common prefix are reported before the groups that
    contain them. -/
theorem C10_groups_children_first (h : IsSuffixArray t sa) {minLen maxLen : Int} (hmin : 0 ≤ minLen)
    (hmm : minLen ≤ maxLen) (hmax : maxLen ≤ 2147483647) {cbs : List Callback}
    (hs : segmentsOf t sa minLen maxLen = some cbs) {m1 lo1 hi1 m2 lo2 hi2 : Nat}
    (h1 : (m1, lo1, hi1) ∈ cbs) (h2 : (m2, lo2, hi2) ∈ cbs)
    (hlo : lo2 ≤ lo1) (hhi : hi1 ≤ hi2) (hm : m2 < m1) :
    [(m1, lo1, hi1), (m2, lo2, hi2)].Sublist cbs := by
  obtain ⟨hpos, g1⟩ := (mem_segmentsOf h hmin hmm hmax hs _).1 h1
  obtain ⟨_, g2⟩ := (mem_segmentsOf h hmin hmm hmax hs _).1 h2
  rw [segmentsOf_some h hmin hmm hmax] at hs
  have := Option.some.inj hs
  subst this
  have h0 : ¬ sa.length = 0 := by omega
  simp only [h0, if_false]
  exact scan_children_first _ _ _ hmin hmm (by rw [lcpSpec_size]; omega) g1 g2 hlo hhi hm

/-- the whole pipeline `Sort` (specification) → `InvertSA` → `_lcp` → `Segments` never panics -/
theorem segmentsOf_saSpec_some (t : List Byte) {minLen maxLen : Int} (hmin : 0 ≤ minLen)
    (hmm : minLen ≤ maxLen) (hmax : maxLen ≤ 2147483647) :
    ∃ cbs, segmentsOf t (saSpec t) minLen maxLen = some cbs ∧ (t = [] → cbs = []) := by
  refine ⟨_, segmentsOf_some (saSpec_isSuffixArray t) hmin hmm hmax, ?_⟩
  intro ht
  subst ht
  have := (saSpec_isSuffixArray []).length_eq
  simp at this
  simp [this]

/-- symmetric form of `C10_groups_complete_unique` (any two different ranks) -/
theorem C10_groups_complete_unique_sym (h : IsSuffixArray t sa) {minLen maxLen : Int} (hmin : 0 ≤ minLen)
    (hmm : minLen ≤ maxLen) (hmax : maxLen ≤ 2147483647) {cbs : List Callback}
    (hs : segmentsOf t sa minLen maxLen = some cbs) {a b : Nat} (hne : a ≠ b) (ha : a < sa.length)
    (hb : b < sa.length) (hc : minLen ≤ (sufLcp t sa a b : Int)) :
    ∃ cb : Callback, (cb ∈ cbs ∧ cb.1 = min (sufLcp t sa a b) maxLen.toNat ∧
        (cb.2.1 ≤ a ∧ a < cb.2.2) ∧ (cb.2.1 ≤ b ∧ b < cb.2.2)) ∧
      ∀ cb' : Callback, (cb' ∈ cbs ∧ cb'.1 = min (sufLcp t sa a b) maxLen.toNat ∧
        (cb'.2.1 ≤ a ∧ a < cb'.2.2) ∧ (cb'.2.1 ≤ b ∧ b < cb'.2.2)) → cb' = cb := by
  rcases Nat.lt_or_gt_of_ne hne with hab | hba
  · obtain ⟨cb, ⟨h1, h2, h3, h4⟩, hu⟩ := C10_groups_complete_unique h hmin hmm hmax hs hab hb hc
    refine ⟨cb, ⟨h1, h2, ⟨h3, by omega⟩, ⟨by omega, h4⟩⟩, ?_⟩
    rintro cb' ⟨g1, g2, ⟨g3, _⟩, ⟨_, g4⟩⟩
    exact hu cb' ⟨g1, g2, g3, g4⟩
  · rw [sufLcp_comm] at hc ⊢
    obtain ⟨cb, ⟨h1, h2, h3, h4⟩, hu⟩ := C10_groups_complete_unique h hmin hmm hmax hs hba ha hc
    refine ⟨cb, ⟨h1, h2, ⟨by omega, h4⟩, ⟨h3, by omega⟩⟩, ?_⟩
    rintro cb' ⟨g1, g2, ⟨_, g4⟩, ⟨g3, _⟩⟩
    exact hu cb' ⟨g1, g2, g3, g4⟩

/-- **C10 in terms of text positions (completeness, uniqueness).** For every two different
    positions `p`, `q` of the text whose suffixes have a common prefix of length `c ≥ minLen` there is
    exactly one callback with `m = min c maxLen` whose segment `sa[lo:hi]` contains both. -/
theorem C10_positions_complete_unique (h : IsSuffixArray t sa) {minLen maxLen : Int} (hmin : 0 ≤ minLen)
    (hmm : minLen ≤ maxLen) (hmax : maxLen ≤ 2147483647) {cbs : List Callback}
    (hs : segmentsOf t sa minLen maxLen = some cbs) {p q : Nat} (hp : p < t.length) (hq : q < t.length)
    (hpq : p ≠ q) (hc : minLen ≤ (lcpLen (t.drop p) (t.drop q) : Int)) :
    ∃ cb : Callback, (cb ∈ cbs ∧ cb.1 = min (lcpLen (t.drop p) (t.drop q)) maxLen.toNat ∧
        p ∈ segmentOf sa cb.2.1 cb.2.2 ∧ q ∈ segmentOf sa cb.2.1 cb.2.2) ∧
      ∀ cb' : Callback, (cb' ∈ cbs ∧ cb'.1 = min (lcpLen (t.drop p) (t.drop q)) maxLen.toNat ∧
        p ∈ segmentOf sa cb'.2.1 cb'.2.2 ∧ q ∈ segmentOf sa cb'.2.1 cb'.2.2) → cb' = cb := by
  obtain ⟨a, ha⟩ := h.surj? hp
  obtain ⟨b, hb⟩ := h.surj? hq
  have hne : a ≠ b := by
    intro e; subst e; rw [ha] at hb; exact hpq (Option.some.inj hb)
  have hsuf : sufLcp t sa a b = lcpLen (t.drop p) (t.drop q) := by simp [sufLcp, ha, hb]
  obtain ⟨cb, ⟨h1, h2, h3, h4⟩, hu⟩ := C10_groups_complete_unique_sym h hmin hmm hmax hs hne
    (h.some_lt ha).1 (h.some_lt hb).1 (by rw [hsuf]; exact hc)
  rw [hsuf] at h2 hu
  refine ⟨cb, ⟨h1, h2, mem_segmentOf.2 ⟨a, h3.1, h3.2, ha⟩, mem_segmentOf.2 ⟨b, h4.1, h4.2, hb⟩⟩, ?_⟩
  rintro cb' ⟨g1, g2, g3, g4⟩
  obtain ⟨a', g31, g32, g33⟩ := mem_segmentOf.1 g3
  obtain ⟨b', g41, g42, g43⟩ := mem_segmentOf.1 g4
  have ea := h.inj? g33 ha
  have eb := h.inj? g43 hb
  subst ea eb
  exact hu cb' ⟨g1, g2, ⟨g31, g32⟩, ⟨g41, g42⟩⟩

/-- **C10 in terms of text positions (soundness).** Every callback `(m, lo, hi)` has
    `minLen ≤ m ≤ maxLen`; its segment `sa[lo:hi]` is a non-empty list of distinct positions whose
    suffixes all have at least `m` bytes and agree on their first `m` bytes; and no position outside
    the segment shares `m` bytes with a position inside (the group is complete). -/
theorem C10_positions_sound (h : IsSuffixArray t sa) {minLen maxLen : Int} (hmin : 0 ≤ minLen)
    (hmm : minLen ≤ maxLen) (hmax : maxLen ≤ 2147483647) {cbs : List Callback}
    (hs : segmentsOf t sa minLen maxLen = some cbs) {m lo hi : Nat} (hcb : (m, lo, hi) ∈ cbs) :
    minLen ≤ (m : Int) ∧ (m : Int) ≤ maxLen ∧
    (segmentOf sa lo hi).Nodup ∧ (segmentOf sa lo hi).length = hi - lo ∧ 0 < hi - lo ∧
    (∀ p ∈ segmentOf sa lo hi, p < t.length ∧ m ≤ (t.drop p).length) ∧
    (∀ p ∈ segmentOf sa lo hi, ∀ q ∈ segmentOf sa lo hi, (t.drop p).take m = (t.drop q).take m) ∧
    (∀ p ∈ segmentOf sa lo hi, ∀ r, r < t.length → r ∉ segmentOf sa lo hi →
      lcpLen (t.drop p) (t.drop r) < m) := by
  obtain ⟨s1, s2, s3, s4, s5, s6⟩ := C10_groups_sound h hmin hmm hmax hs hcb
  have hlen := h.length_eq
  -- at least two ranks when `m > 0`
  have htwo : 0 < m → lo + 1 < hi := by
    intro hm
    obtain ⟨hpos, hmem⟩ := (mem_segmentsOf h hmin hmm hmax hs _).1 hcb
    exact (scan_sound _ _ _ hmin hmm (by rw [lcpSpec_size]; omega) hmem).2.2.2.2.1 hm
  -- pairs of different ranks inside share `m` bytes
  have hpair : ∀ a b, lo ≤ a → a < hi → lo ≤ b → b < hi → a ≠ b → m ≤ sufLcp t sa a b := by
    intro a b a1 a2 b1 b2 hne
    rcases Nat.lt_or_gt_of_ne hne with c | c
    · exact s5 a b a1 c b2
    · rw [sufLcp_comm]; exact s5 b a b1 c a2
  have hsuf : ∀ {a b p q : Nat}, sa[a]? = some p → sa[b]? = some q →
      sufLcp t sa a b = lcpLen (t.drop p) (t.drop q) := by
    intro a b p q ha hb; simp [sufLcp, ha, hb]
  refine ⟨s1, s2, segmentOf_nodup h.nodup lo hi, by simp [segmentOf]; omega, by omega, ?_, ?_, ?_⟩
  · intro p hp
    obtain ⟨a, a1, a2, ha⟩ := mem_segmentOf.1 hp
    refine ⟨(h.some_lt ha).2, ?_⟩
    by_cases hm : m = 0
    · omega
    · -- another rank in the segment
      have h2 := htwo (by omega)
      obtain ⟨b, b1, b2, hne⟩ : ∃ b, lo ≤ b ∧ b < hi ∧ a ≠ b := by
        by_cases e : a = lo
        · exact ⟨lo + 1, by omega, by omega, by omega⟩
        · exact ⟨lo, by omega, by omega, e⟩
      have hbs : sa[b]? = some sa[b] := List.getElem?_eq_getElem (by omega)
      have := hpair a b a1 a2 b1 b2 hne
      rw [hsuf ha hbs] at this
      exact Nat.le_trans this (lcpLen_le_left _ _)
  · intro p hp q hq
    obtain ⟨a, a1, a2, ha⟩ := mem_segmentOf.1 hp
    obtain ⟨b, b1, b2, hb⟩ := mem_segmentOf.1 hq
    by_cases e : a = b
    · subst e; rw [ha] at hb; rw [Option.some.inj hb]
    · have := hpair a b a1 a2 b1 b2 e
      rw [hsuf ha hb] at this
      exact (take_eq_of_le_lcpLen this).1
  · intro p hp r hr hnot
    obtain ⟨a, a1, a2, ha⟩ := mem_segmentOf.1 hp
    obtain ⟨k, hk⟩ := h.surj? hr
    have hout : k < lo ∨ hi ≤ k := by
      by_cases c : k < lo
      · exact Or.inl c
      · by_cases c' : hi ≤ k
        · exact Or.inr c'
        · exact absurd (mem_segmentOf.2 ⟨k, by omega, by omega, hk⟩) hnot
    have := s6 a k a1 a2 (h.some_lt hk).1 hout
    rw [hsuf ha hk] at this
    exact this

end Groups

-- non-vacuity: "banana", minLen = 1, maxLen = 10: groups "a…" (ranks 0-2), "ana…" (1-2), "na…" (4-5)
example : segmentsOf [98,97,110,97,110,97] [5,3,1,0,4,2] 1 10 = some [(3,1,3),(1,0,3),(2,4,6)] := by
  have e : lcpKasai [98,97,110,97,110,97] #[5,3,1,0,4,2] (invertSA #[5,3,1,0,4,2]) = #[0,1,3,0,0,2] := by
    decide
  simp [segmentsOf, segments, e, scanLCP, scanFrom, popLoop, Int.min_def]

/-! ## axioms -/

#print axioms lexLe_isTotalOrder
#print axioms suffixes_distinct
#print axioms sandwich
#print axioms sandwich_eq
#print axioms saSpec_isSuffixArray
#print axioms suffixArray_unique
#print axioms isSuffixArray_iff_eq_saSpec
#print axioms isSuffixArray_strict
#print axioms checkSA_iff
#print axioms checkSA_eq_saSpec
#print axioms invertSA_get_sa
#print axioms sa_get_invertSA
#print axioms invertSA_size_eq
#print axioms kasai_key
#print axioms kasai_correct
#print axioms kasai_correct_any_init
#print axioms kasai_no_panic
#print axioms kasai_entries
#print axioms lcp_of_saSpec
#print axioms lcpSpec_le
#print axioms scanLCP_spec
#print axioms scan_exact
#print axioms scan_nodup
#print axioms scan_sound
#print axioms scan_complete_unique
#print axioms scan_complete_count
#print axioms scan_value_le
#print axioms scan_children_first
#print axioms scan_children_first_split
#print axioms scan_root
#print axioms segments_some
#print axioms segments_empty
#print axioms segments_maxLen_lt
#print axioms scanLCP_empty
#print axioms segmentsOf_saSpec_some
#print axioms C10_groups_complete_unique_sym
#print axioms scanLCPOld_witness
#print axioms scanLCPOld_incomplete
#print axioms scanLCPOld_witness'
#print axioms lcp_range_min
#print axioms segmentsOf_some
#print axioms C10_groups_sound
#print axioms C10_groups_complete_unique
#print axioms C10_groups_nodup
#print axioms C10_groups_children_first
#print axioms C10_positions_complete_unique
#print axioms C10_positions_sound

end LZ
