/-
  LzProofs.GenOSAPHistNil — histories of the translated operations of OSAP WITH `Parse(nil, flags)`, and property C14
  about the Go text.  Continues GenOSAPHist / GenOSAPHistRun (whose per-operation lemmas are reused unchanged); the new
  operation is `optSuffixArrayParser_Parse_nilable … true ghost flags` (LzProofs/GenOSAPParseNil.lean).  The operation /
  result types `GOpN`, `GResN`, `GOpN.WF`, `GOpN.abs`, `resAgreeN`, `ResultsAgreeN`, `ghostStepN`, `ghostRunN` are those
  of LzProofs/GenHPHistNil.lean (they do not mention the parser).  The opaque callee `computeEdges` enters under
  `CESpec B ce` (needed by `Parse(&blk)` only: the nil path does not call it).  The `…_ce_go` forms with the TRANSLATED
  `computeEdges` are in LzProofs/GenOSAPHistNilGo.lean.  No sorry, no axioms of its own.

    hist_parseNil        one `Parse(nil)`: never panics (every fuel, every `ce`), returns the model's `n` / error, hands the
                         ghost block back unchanged, preserves `HistOKO` (incl. `start ≤ W`), changes only `W`
    stepN, runN          a call = a call of GenOSAPHistRun (`Write`, `ReadFrom`, `Parse(&blk)`, `Shrink`, `Reset`) or
                         `parseNil ghost flags` (every ghost value, every `flags`, also negative)
    stepN_sim, runN_sim, gen_osap_history_nil_inv, gen_osap_history_nil   the simulation (model operation `.parseNil`,
                         ghost log entry `Event.skip`)
    ce_frame             under `CESpec B ce`, on every state with `ParseOKO B` the callee returns and keeps `ParserBuffer`
    parse_pb_frame       the translated `Parse(&blk, flags)` changes NOTHING of `ParserBuffer` but `W`, which it advances by
                         the `n` it returns (read off the generated text; `computeEdges` keeping `ParserBuffer`)
    C14_same_n_osap      model level: `parseNil` and `parse flags` (even flags) of an OSAP state return the same `n`, error
    C01_go_text_osap_nil C01 for histories WITH `Parse(nil)`; C03_go_text_osap_nil, C14_skip_go_text_osap likewise
    C14_go_text_osap     after ANY such history: `Parse(nil, flags)` returns the same `n` and error as `Parse(&blk, 0)`
                         from the same state, leaves the same `Data` and `W`, `n = min(BlockSize, len(Data) - W)`,
                         `ErrEmptyBuffer` iff `n = 0`, writes nothing, and changes NOTHING of the parser but `W`
-/
import LzProofs.GenOSAPParseNil
import LzProofs.GenOSAPHistRun
import LzProofs.GenHPHistNil
import LzProofs.GenNilShared

set_option linter.unusedSimpArgs false
set_option linter.unusedVariables false

namespace LZ.GenOSAPHist
open LZ LZ.Gen LZ.GenBuf LZ.GenHash LZ.GenSuffix LZ.GenHPParse LZ.GenProps LZ.GenOSAP LZ.GenNil
open LZ.GenHPHist (GOp GRes GOp.WF GOp.abs resAgree ResultsAgree ghostStep ghostRun parseErr_ok_iff step_parse_fst
  step_reset_fst bind_ok' GOpR GResR GOpR.WF GOpR.abs resAgreeR ResultsAgreeR ghostStepR ghostRunR genErr RFun RFSpec
  rfGo rfGo_spec GOpN GResN GOpN.WF GOpN.abs resAgreeN ResultsAgreeN ghostStepN ghostRunN step_parseNil_fst)

/-- one `Parse(nil, flags)` on a Go state with `HistOKO`: no hypothesis on `fuel`, `flags`, `ce` -/
theorem hist_parseNil {bc : BufCfg} {B : Nat} (hbc : BCOKO bc) (grow : Nat → Nat → Nat) (fuel : Nat) (ce : CEFun)
    (t : Gen.optSuffixArrayParser) (h : HistOKO bc B t) (ghost : Gen.Block') (flags : Int) :
    ∃ t', optSuffixArrayParser_Parse_nilable grow fuel ce t true ghost flags =
        Res.ok (t', ghost, (((ofOSAPs t).parseNil).2.1 : Int), parseErr ((ofOSAPs t).parseNil).2.2) ∧
      HistOKO bc B t' ∧ ofOSAPs t' = ((ofOSAPs t).parseNil).1 ∧ ofOD t' = ofOD t ∧
      t' = withWO t (t.ParserBuffer.W + (((ofOSAPs t).parseNil).2.1 : Int)) ∧
      t'.ParserBuffer.W = (((ofOSAPs t).parseNil).1.buf.w : Int) := by
  obtain ⟨t', h1, h2, h3, h4, h5, h6, h7⟩ := gen_osap_parseNil B grow fuel ce t ghost flags h.pok
  have hW : t'.ParserBuffer.W = (((ofOSAPs t).parseNil).1.buf.w : Int) := by rw [h5]
  have ht : t' = withWO t t'.ParserBuffer.W := by
    rw [hW]; exact h5
  have hcap : (ofPB t'.ParserBuffer).CapOK := by
    have hc := h.cap
    rw [ht]
    unfold PBuf.CapOK at hc ⊢
    exact hc
  refine ⟨t', h1, ⟨h7, ?_, ?_, hcap⟩, h2, h3, by rw [← h6]; exact ht, hW⟩
  · rw [ht]; exact h.cfg
  · rw [ht]; exact h.len

/-! ## histories with `Parse(nil)` -/

/-- one call, on the translated functions -/
def stepN (extra : Nat) (grow : Nat → Nat → Nat) (fuel : Nat) (ce : CEFun) (s : Gen.optSuffixArrayParser) :
    GOpN → Res (Gen.optSuffixArrayParser × GResN)
  | .r op => Res.bind (stepO extra grow fuel ce s op) fun x => Res.ok (x.1, .r x.2)
  | .parseNil ghost flags =>
    Res.bind (optSuffixArrayParser_Parse_nilable grow fuel ce s true ghost flags) fun x =>
      Res.ok (x.1, .parseNil x.2.1 x.2.2.1 x.2.2.2)

/-- a history of calls; the results in order -/
def runN (extra : Nat) (grow : Nat → Nat → Nat) (fuel : Nat) (ce : CEFun) :
    Gen.optSuffixArrayParser → List GOpN → Res (Gen.optSuffixArrayParser × List GResN)
  | s, [] => Res.ok (s, [])
  | s, op :: ops =>
    Res.bind (stepN extra grow fuel ce s op) fun x =>
    Res.bind (runN extra grow fuel ce x.1 ops) fun q => Res.ok (q.1, x.2 :: q.2)

theorem stepN_sim {bc : BufCfg} {B : Nat} (hbc : BCOKO bc) (ce : CEFun) (hCE : CESpec B ce) (extra : Nat)
    (grow : Nat → Nat → Nat) (fuel : Nat) (hfuel : bc.bufferSize + B + 5 ≤ fuel)
    (raw : Cfg) (p0 : Parser) (h0 : newParser .OSAP raw = some p0) (mops : List POp)
    (t : Gen.optSuffixArrayParser) (gh : Ghost) (h : HistOKO bc B t)
    (hreach : (ofOSAPs t, gh) = runOps (p0, Ghost.init) mops) (op : GOpN) (hop : op.WF) :
    ∃ t' r, stepN extra grow fuel ce t op = Res.ok (t', r) ∧ HistOKO bc B t' ∧
      ofOSAPs t' = (step (ofOSAPs t, gh) op.abs).1 ∧ ghostStepN gh op r = (step (ofOSAPs t, gh) op.abs).2 ∧
      resAgreeN (ofOSAPs t) op r := by
  cases op with
  | r op =>
    obtain ⟨t', r, h1, h2, h3, h4, h5⟩ := stepO_sim hbc ce hCE extra grow fuel hfuel raw p0 h0 mops t gh h hreach op hop
    refine ⟨t', .r r, ?_, h2, h3, h4, h5⟩
    simp only [stepN, h1]; rfl
  | parseNil ghost flags =>
    obtain ⟨t', h1, h2, h3, -, -, -⟩ := hist_parseNil hbc grow fuel ce t h ghost flags
    refine ⟨t', .parseNil ghost _ _, ?_, h2, ?_, ?_, rfl, rfl, rfl⟩
    · simp only [stepN, h1]; rfl
    · rw [GOpN.abs, step_parseNil_fst]; exact h3
    · simp only [ghostStepN, step, GOpN.abs, parseErr_ok_iff _ (parseNil_err _), Int.toNat_natCast]
      split <;> rfl

theorem runN_sim {bc : BufCfg} {B : Nat} (hbc : BCOKO bc) (ce : CEFun) (hCE : CESpec B ce) (extra : Nat)
    (grow : Nat → Nat → Nat) (fuel : Nat) (hfuel : bc.bufferSize + B + 5 ≤ fuel)
    (raw : Cfg) (p0 : Parser) (h0 : newParser .OSAP raw = some p0) :
    ∀ (ops : List GOpN) (mops : List POp) (t : Gen.optSuffixArrayParser) (gh : Ghost), HistOKO bc B t →
      (ofOSAPs t, gh) = runOps (p0, Ghost.init) mops → (∀ op ∈ ops, op.WF) →
      ∃ t' rs, runN extra grow fuel ce t ops = Res.ok (t', rs) ∧ HistOKO bc B t' ∧
        ofOSAPs t' = (runOps (ofOSAPs t, gh) (ops.map GOpN.abs)).1 ∧
        ghostRunN gh ops rs = (runOps (ofOSAPs t, gh) (ops.map GOpN.abs)).2 ∧
        ResultsAgreeN (ofOSAPs t, gh) ops rs := by
  intro ops
  induction ops with
  | nil => intro mops t gh h _ _; exact ⟨t, [], rfl, h, rfl, rfl, trivial⟩
  | cons op ops ih =>
    intro mops t gh h hreach hwf
    obtain ⟨t1, r, h1, h2, h3, h4, h5⟩ :=
      stepN_sim hbc ce hCE extra grow fuel hfuel raw p0 h0 mops t gh h hreach op (hwf op (List.mem_cons_self ..))
    have hsg : step (ofOSAPs t, gh) op.abs = (ofOSAPs t1, ghostStepN gh op r) := by
      rw [h3, h4]
    have hreach1 : (ofOSAPs t1, ghostStepN gh op r) = runOps (p0, Ghost.init) (mops ++ [op.abs]) := by
      rw [runOps_snoc, ← hreach, hsg]
    obtain ⟨t', rs, k1, k2, k3, k4, k5⟩ := ih (mops ++ [op.abs]) t1 (ghostStepN gh op r) h2 hreach1
      (fun o ho => hwf o (List.mem_cons_of_mem _ ho))
    refine ⟨t', r :: rs, ?_, k2, ?_, ?_, h5, ?_⟩
    · show Res.bind (stepN extra grow fuel ce t op) _ = _
      rw [h1]
      show Res.bind (runN extra grow fuel ce t1 ops) _ = _
      rw [k1]; rfl
    · show _ = (runOps (step (ofOSAPs t, gh) op.abs) (ops.map GOpN.abs)).1
      rw [hsg]; exact k3
    · show ghostRunN (ghostStepN gh op r) ops rs = (runOps (step (ofOSAPs t, gh) op.abs) (ops.map GOpN.abs)).2
      rw [hsg]; exact k4
    · show ResultsAgreeN (step (ofOSAPs t, gh) op.abs) ops rs
      rw [hsg]; exact k5

/-- the history theorem with the full invariant (`HistOKO`, `BCOKO`) exported -/
theorem gen_osap_history_nil_inv (B : Nat) (cfg : Gen.OSAPConfig) (s0 : Gen.optSuffixArrayParser)
    (hinit : optSuffixArrayParser_init default cfg = Res.ok (s0, Gen.Err.ok))
    (h32 : s0.OSAPConfig.MinMatchLen < 4294967296) (ce : CEFun) (hCE : CESpec B ce)
    (extra : Nat) (grow : Nat → Nat → Nat) (fuel : Nat)
    (hfuel : s0.ParserBuffer.BufConfig.BufferSize.toNat + B + 5 ≤ fuel)
    (ops : List GOpN) (hwf : ∀ op ∈ ops, op.WF) :
    ∃ p t rs, newParser .OSAP (ofOSAP cfg) = some p ∧ ofOSAPs s0 = p ∧
      runN extra grow fuel ce s0 ops = Res.ok (t, rs) ∧ BCOKO p.buf.cfg ∧ HistOKO p.buf.cfg B t ∧
      p.buf.cfg.bufferSize + B + 5 ≤ fuel ∧
      (ofOSAPs t, ghostRunN Ghost.init ops rs) = runOps (p, Ghost.init) (ops.map GOpN.abs) ∧
      ResultsAgreeN (p, Ghost.init) ops rs := by
  obtain ⟨p, hp, h2, hbc, hH⟩ := hist_init B cfg s0 hinit h32
  have hf : p.buf.cfg.bufferSize + B + 5 ≤ fuel := by
    have : p.buf.cfg = ofCfg s0.ParserBuffer.BufConfig := hH.cfg.symm
    rw [this]; exact hfuel
  obtain ⟨t, rs, k1, k2, k3, k4, k5⟩ := runN_sim hbc ce hCE extra grow fuel hf (ofOSAP cfg) p hp ops [] s0 Ghost.init
    hH (by rw [h2]; rfl) hwf
  rw [h2] at k3 k4 k5
  refine ⟨p, t, rs, hp, h2, k1, hbc, k2, hf, ?_, k5⟩
  rw [k3, k4]

/-- **the simulation from `optSuffixArrayParser.init`** for histories of Write / ReadFrom / Parse(&blk) / Parse(nil) /
    Shrink / Reset, every operation a translated function (`ReadFrom` against the scripted reader; `computeEdges` under
    `CESpec B ce`): no panic, no fuel exhaustion, `ParseOKO B` in the state reached, the model state after the abstracted
    history (`Parse(nil)` ↦ `POp.parseNil`), every returned value the model's. -/
theorem gen_osap_history_nil (B : Nat) (cfg : Gen.OSAPConfig) (s0 : Gen.optSuffixArrayParser)
    (hinit : optSuffixArrayParser_init default cfg = Res.ok (s0, Gen.Err.ok))
    (h32 : s0.OSAPConfig.MinMatchLen < 4294967296) (ce : CEFun) (hCE : CESpec B ce)
    (extra : Nat) (grow : Nat → Nat → Nat) (fuel : Nat)
    (hfuel : s0.ParserBuffer.BufConfig.BufferSize.toNat + B + 5 ≤ fuel)
    (ops : List GOpN) (hwf : ∀ op ∈ ops, op.WF) :
    ∃ p t rs, newParser .OSAP (ofOSAP cfg) = some p ∧ ofOSAPs s0 = p ∧
      runN extra grow fuel ce s0 ops = Res.ok (t, rs) ∧ ParseOKO B t ∧
      ofOSAPs t = (runOps (p, Ghost.init) (ops.map GOpN.abs)).1 ∧
      ghostRunN Ghost.init ops rs = (runOps (p, Ghost.init) (ops.map GOpN.abs)).2 ∧
      ResultsAgreeN (p, Ghost.init) ops rs := by
  obtain ⟨p, t, rs, hp, h2, k1, -, k2, -, k3, k5⟩ :=
    gen_osap_history_nil_inv B cfg s0 hinit h32 ce hCE extra grow fuel hfuel ops hwf
  exact ⟨p, t, rs, hp, h2, k1, k2.pok, by rw [← k3], by rw [← k3], k5⟩

/-! ## the frame of the translated `Parse(&blk, flags)` on `ParserBuffer` -/

/-- under `CESpec B ce` the callee returns on EVERY state with `ParseOKO B` (the range-checked model of `computeEdges` is
    total there) and keeps `ParserBuffer` -/
theorem ce_frame {B : Nat} (ce : CEFun) (hCE : CESpec B ce) (s : Gen.optSuffixArrayParser) (hP : ParseOKO B s) :
    ∃ s1, ce s = Res.ok s1 ∧ s1.ParserBuffer = s.ParserBuffer := by
  have hdl : (ofOSAPs s).buf.data.length = s.ParserBuffer.Data.len := data_length hP.pb.data
  have hw : (ofOSAPs s).buf.w ≤ (ofOSAPs s).buf.data.length := by
    rw [hdl]
    show s.ParserBuffer.W.toNat ≤ _
    have := hP.w; have := hP.pb.w; omega
  have hlen : (ofOSAPs s).buf.data.length ≤ 2147483647 := by rw [hdl]; exact hP.small
  obtain ⟨s1, h1, -, h3, -⟩ := hCE s _ hP (Idx.computeEdgesChk_eq _ _ _ _ _ hw hlen)
  exact ⟨s1, h1, h3⟩

theorem bind_eq_ok {α β : Type} {m : Res α} {f : α → Res β} {b : β} (h : Res.bind m f = Res.ok b) :
    ∃ a, m = Res.ok a ∧ f a = Res.ok b := by
  cases m with
  | ok a => exact ⟨a, rfl, h⟩
  | panic => cases h
  | fuel => cases h

/-- **`Parse(&blk, flags)` changes nothing of `ParserBuffer` but `W`**, which it advances by the `n` it returns — read off
    the generated text of `Parse`; `computeEdges`, IF called, returns `s1` with the `ParserBuffer` it was given. -/
theorem parse_pb_frame (grow : Nat → Nat → Nat) (fuel : Nat) (ce : CEFun) (s s1 : Gen.optSuffixArrayParser)
    (hce : ce s = Res.ok s1) (hpb : s1.ParserBuffer = s.ParserBuffer) (blk : Gen.Block') (flags : Int)
    (r : Gen.optSuffixArrayParser × Gen.Block' × Int × Gen.Err)
    (h : optSuffixArrayParser_Parse grow fuel ce s blk flags = Res.ok r) :
    r.1.ParserBuffer = { s.ParserBuffer with W := s.ParserBuffer.W + r.2.2.1 } := by
  unfold optSuffixArrayParser_Parse optSuffixArrayParser_Parse_nilable at h
  -- the clamp in any spelling is a minimum (so that `split` below meets the tests `n == 0`, `s.nEdges == 0` only)
  simp only [Bool.false_eq_true, if_false, gt_iff_lt, ge_iff_le, ite_lt_min, ite_le_min] at h
  obtain ⟨lit0, -, h⟩ := bind_eq_ok h
  try dsimp only at h
  split at h
  · -- nothing buffered
    injection h with h
    subst h
    show s.ParserBuffer = { s.ParserBuffer with W := s.ParserBuffer.W + 0 }
    rw [Int.add_zero]
  · obtain ⟨v, hv, h⟩ := bind_eq_ok h
    have hvpb : v.ParserBuffer = s.ParserBuffer := by
      split at hv
      · rw [hce] at hv
        injection hv with hv
        rw [← hv]; exact hpb
      · injection hv with hv
        rw [← hv]
    try simp only at h
    split at h
    · -- no edges: the block is literals
      obtain ⟨q, -, h⟩ := bind_eq_ok h
      injection h with h
      subst h
      show ({ v.ParserBuffer with W := v.ParserBuffer.W + _ } : Gen.ParserBuffer) = _
      rw [hvpb]
    · obtain ⟨a1, -, h⟩ := bind_eq_ok h
      obtain ⟨a2, -, h⟩ := bind_eq_ok h
      obtain ⟨a3, -, h⟩ := bind_eq_ok h
      obtain ⟨a4, -, h⟩ := bind_eq_ok h
      obtain ⟨a5, -, h⟩ := bind_eq_ok h
      injection h with h
      subst h
      show ({ v.ParserBuffer with W := Int.ofNat a5.2.toNat } : Gen.ParserBuffer) =
        { s.ParserBuffer with W := s.ParserBuffer.W + (Int.ofNat a5.2.toNat - v.ParserBuffer.W) }
      rw [hvpb]
      have hw : s.ParserBuffer.W + (Int.ofNat a5.2.toNat - s.ParserBuffer.W) = Int.ofNat a5.2.toNat := by omega
      rw [hw]

/-! ## model level: `parseNil` against `parse` for OSAP -/

/-- `Parse(nil)` and `Parse(&blk, flags)` without `NoTrailingLiterals` of an OSAP state: the same `n`, the same error -/
theorem C14_same_n_osap (s : Parser) (o : OsapD) (hd : s.dict = .osap o) (flags : Nat) (hf : flags % 2 = 0) :
    s.parseNil.2.1 = (s.parse flags).2.1 ∧ s.parseNil.2.2 = (s.parse flags).2.2.1 := by
  by_cases hn : s.blockN = 0
  · rw [Parser.parseNil_empty s hn, Parser.parse_empty s flags hn]
    exact ⟨rfl, rfl⟩
  · obtain ⟨s1, h1, -⟩ := Parser.parseNil_ok s hn
    obtain ⟨p1, p2⟩ := Sap.parse_osap_n s o hd flags hn hf
    rw [h1, p1, p2]
    exact ⟨rfl, rfl⟩

/-! ## the property theorems -/

/-- **C01 about the Go text of OSAP, histories WITH `Parse(nil)`.**  Run any history of `Write`, `ReadFrom`,
    `Parse(&blk, flags)`, `Parse(nil, flags)`, `Shrink`, `Reset` on the translated functions (`computeEdges` under
    `CESpec B ce`).  No call panics or runs out of fuel, and the reference decoder, applied to what the calls produced
    since the last successful `Reset` — the blocks of `Parse(&blk)` and, for every `Parse(nil)` that returned `n > 0`, the
    next `n` bytes of the stream VERBATIM (`Event.skip`) —, yields exactly the first `consumed` bytes fed, `consumed` = the
    sum of all returned `n`. -/
theorem C01_go_text_osap_nil (B : Nat) (cfg : Gen.OSAPConfig) (s0 : Gen.optSuffixArrayParser)
    (hinit : optSuffixArrayParser_init default cfg = Res.ok (s0, Gen.Err.ok))
    (h32 : s0.OSAPConfig.MinMatchLen < 4294967296) (ce : CEFun) (hCE : CESpec B ce)
    (extra : Nat) (grow : Nat → Nat → Nat) (fuel : Nat)
    (hfuel : s0.ParserBuffer.BufConfig.BufferSize.toNat + B + 5 ≤ fuel)
    (ops : List GOpN) (hwf : ∀ op ∈ ops, op.WF) :
    ∃ t rs, runN extra grow fuel ce s0 ops = Res.ok (t, rs) ∧
      decode [] (ghostRunN Ghost.init ops rs).log =
        some ((ghostRunN Ghost.init ops rs).fed.take (ghostRunN Ghost.init ops rs).consumed) := by
  obtain ⟨p, t, rs, hp, -, h1, -, -, h4, -⟩ :=
    gen_osap_history_nil B cfg s0 hinit h32 ce hCE extra grow fuel hfuel ops hwf
  refine ⟨t, rs, h1, ?_⟩
  rw [h4]
  exact C01_roundtrip .OSAP (ofOSAP cfg) p hp (histHyp_osap p) (ops.map GOpN.abs)

/-- **C03 about the Go text of OSAP, histories WITH `Parse(nil)`**: blocks and skipped segments tile the consumed
    stream. -/
theorem C03_go_text_osap_nil (B : Nat) (cfg : Gen.OSAPConfig) (s0 : Gen.optSuffixArrayParser)
    (hinit : optSuffixArrayParser_init default cfg = Res.ok (s0, Gen.Err.ok))
    (h32 : s0.OSAPConfig.MinMatchLen < 4294967296) (ce : CEFun) (hCE : CESpec B ce)
    (extra : Nat) (grow : Nat → Nat → Nat) (fuel : Nat)
    (hfuel : s0.ParserBuffer.BufConfig.BufferSize.toNat + B + 5 ≤ fuel)
    (ops : List GOpN) (hwf : ∀ op ∈ ops, op.WF) :
    ∃ t rs, runN extra grow fuel ce s0 ops = Res.ok (t, rs) ∧
      let g := ghostRunN Ghost.init ops rs
      LogAll (fun pos e => 1 ≤ e.n ∧ e.n ≤ s0.ParserBuffer.BufConfig.BlockSize.toNat ∧
        pos + e.n ≤ g.fed.length ∧
        ∀ n fl blk, e = .block n fl blk →
          blk.len = n ∧ expand (g.fed.take pos) blk = some (g.fed.take (pos + n)) ∧
          (fl % 2 = 1 → blk.seqs ≠ [] → blk.lits.length = litSum blk.seqs ∧ n = seqsSpan blk.seqs)) 0 g.log ∧
      logSpan g.log = g.consumed ∧ g.consumed ≤ g.fed.length := by
  obtain ⟨p, t, rs, hp, h0, h1, -, -, h4, -⟩ :=
    gen_osap_history_nil B cfg s0 hinit h32 ce hCE extra grow fuel hfuel ops hwf
  subst h0
  refine ⟨t, rs, h1, ?_⟩
  intro gg
  have hg : gg = (runOps (ofOSAPs s0, Ghost.init) (ops.map GOpN.abs)).2 := h4
  have := C03_contiguous .OSAP (ofOSAP cfg) _ hp (histHyp_osap _) (ops.map GOpN.abs)
  obtain ⟨a1, a2, a3, a4⟩ := this
  rw [hg]
  exact ⟨a1, a2, a4⟩

/-- **C14 (skipped bytes verbatim) about the Go text of OSAP**: every skip entry of the log is a non-empty segment of at
    most `BlockSize` bytes and IS the segment of the fed stream at its position. -/
theorem C14_skip_go_text_osap (B : Nat) (cfg : Gen.OSAPConfig) (s0 : Gen.optSuffixArrayParser)
    (hinit : optSuffixArrayParser_init default cfg = Res.ok (s0, Gen.Err.ok))
    (h32 : s0.OSAPConfig.MinMatchLen < 4294967296) (ce : CEFun) (hCE : CESpec B ce)
    (extra : Nat) (grow : Nat → Nat → Nat) (fuel : Nat)
    (hfuel : s0.ParserBuffer.BufConfig.BufferSize.toNat + B + 5 ≤ fuel)
    (ops : List GOpN) (hwf : ∀ op ∈ ops, op.WF) :
    ∃ t rs, runN extra grow fuel ce s0 ops = Res.ok (t, rs) ∧
      let g := ghostRunN Ghost.init ops rs
      LogAll (fun pos e => ∀ b, e = .skip b →
        1 ≤ b.length ∧ b.length ≤ s0.ParserBuffer.BufConfig.BlockSize.toNat ∧
        b = (g.fed.drop pos).take b.length) 0 g.log := by
  obtain ⟨p, t, rs, hp, h0, h1, -, -, h4, -⟩ :=
    gen_osap_history_nil B cfg s0 hinit h32 ce hCE extra grow fuel hfuel ops hwf
  subst h0
  refine ⟨t, rs, h1, ?_⟩
  intro gg
  have hg : gg = (runOps (ofOSAPs s0, Ghost.init) (ops.map GOpN.abs)).2 := h4
  rw [hg]
  exact C14_skip_verbatim .OSAP (ofOSAP cfg) _ hp (histHyp_osap _) (ops.map GOpN.abs)

/-- the two calls of C14 from a state with `HistOKO` whose model state is reachable (shared by `C14_go_text_osap` and its
    `…_ce_go` form) -/
theorem c14_core {bc : BufCfg} {B : Nat} (hbc : BCOKO bc) (grow : Nat → Nat → Nat) (fuel : Nat) (ce : CEFun)
    (hCE : CESpec B ce) (t : Gen.optSuffixArrayParser) (hH : HistOKO bc B t)
    (raw : Cfg) (p0 : Parser) (h0 : newParser .OSAP raw = some p0) (mops : List POp)
    (hreach : ofOSAPs t = (runOps (p0, Ghost.init) mops).1) (hfuel : bc.bufferSize + B + 5 ≤ fuel)
    (ghost blk : Gen.Block') (flags : Int) :
    ∃ t1 t2 blk' n e,
      optSuffixArrayParser_Parse_nilable grow fuel ce t true ghost flags = Res.ok (t1, ghost, n, e) ∧
      optSuffixArrayParser_Parse grow fuel ce t blk 0 = Res.ok (t2, blk', n, e) ∧
      t1.ParserBuffer.Data = t2.ParserBuffer.Data ∧
      t1.ParserBuffer.W = t2.ParserBuffer.W ∧
      t1.ParserBuffer.Data = t.ParserBuffer.Data ∧
      t1.ParserBuffer.W = t.ParserBuffer.W + n ∧
      n = Min.min t.OSAPConfig.BlockSize ((t.ParserBuffer.Data.len : Int) - t.ParserBuffer.W) ∧
      (n = 0 → e = Gen.ErrEmptyBuffer ∧ t1 = t) ∧ (n ≠ 0 → e = Gen.Err.ok) ∧
      t1 = { t with ParserBuffer := { t.ParserBuffer with W := t.ParserBuffer.W + n } } := by
  have hlen := hH.len
  obtain ⟨t1, e1, hH1, m1, -, ht1, w1⟩ := hist_parseNil hbc grow fuel ce t hH ghost flags
  obtain ⟨t2, blk', e2, -, -, -, -, -⟩ :=
    hist_parse hbc grow fuel ce hCE t hH raw p0 h0 mops hreach blk 0 (Int.le_refl 0) (by omega)
  obtain ⟨s1, hce, hpb⟩ := ce_frame ce hCE t hH.pok
  have pb2 := parse_pb_frame grow fuel ce t s1 hce hpb blk 0 _ e2
  simp only at pb2
  obtain ⟨c1, c2⟩ := C14_same_n_osap (ofOSAPs t) (ofOD t) rfl 0 rfl
  have hz : (0 : Int).toNat = 0 := rfl
  rw [hz] at e2 pb2
  rw [← c1] at pb2
  rw [← c1, ← c2] at e2
  have ht1pb : t1.ParserBuffer =
      { t.ParserBuffer with W := t.ParserBuffer.W + (((ofOSAPs t).parseNil.2.1 : Nat) : Int) } := by rw [ht1]
  have hpb12 : t1.ParserBuffer = t2.ParserBuffer := by rw [ht1pb, pb2]
  -- `n`
  have hdl := hH.dataLen
  have hcbs := hH.pok.cbs
  have hbs0 := hH.pok.bs0
  have hWle := hH.pok.w
  have hW0 := hH.pok.pb.w
  have hbn : (ofOSAPs t).parseNil.2.1 = (ofOSAPs t).blockN := parseNil_n _
  have hbN : (ofOSAPs t).blockN =
      Min.min (t.ParserBuffer.Data.len - t.ParserBuffer.W.toNat) t.ParserBuffer.BufConfig.BlockSize.toNat := by
    show Min.min (t.ParserBuffer.Data.data.length - t.ParserBuffer.W.toNat) t.ParserBuffer.BufConfig.BlockSize.toNat = _
    have : t.ParserBuffer.Data.data.length = t.ParserBuffer.Data.len := hdl
    rw [this]
  have hn : (((ofOSAPs t).parseNil.2.1 : Nat) : Int) =
      Min.min t.OSAPConfig.BlockSize ((t.ParserBuffer.Data.len : Int) - t.ParserBuffer.W) := by
    rw [hbn, hbN, ← hcbs]
    int_omega
  refine ⟨t1, t2, blk', _, _, e1, e2, by rw [hpb12], by rw [hpb12], by rw [ht1pb], by rw [ht1pb], hn, ?_, ?_, ht1⟩
  · intro hn0
    have h0 : (ofOSAPs t).blockN = 0 := by rw [← hbn]; omega
    refine ⟨by rw [Parser.parseNil_empty _ h0]; rfl, ?_⟩
    rw [ht1, hn0, Int.add_zero]
  · intro hn0
    have h0 : (ofOSAPs t).blockN ≠ 0 := by rw [← hbn]; omega
    obtain ⟨s', hs, -⟩ := Parser.parseNil_ok _ h0
    rw [hs]; rfl

/-- **C14 about the Go text of OSAP.**  After ANY history of the translated `Write`, `ReadFrom`, `Parse(&blk)`,
    `Parse(nil)`, `Shrink`, `Reset` from `optSuffixArrayParser.init`, let `t` be the Go state reached.  For every `flags`,
    every ghost value and every block `blk` of the caller: the translated `Parse(nil, flags)` and the translated
    `Parse(&blk, 0)`, both run from `t`, return THE SAME `n` and THE SAME error, and leave THE SAME buffer `Data` and THE
    SAME `W`; `n = min(BlockSize, len(Data) - W)`; the error is `ErrEmptyBuffer` if `n = 0` (the state is then unchanged)
    and `nil` otherwise; `Parse(nil)` hands the ghost block back unchanged (it writes nothing), leaves `Data` as it was,
    and changes NOTHING of the parser but `W` (the edge table, `start`, `nEdges` stay: `computeEdges` is not called). -/
theorem C14_go_text_osap (B : Nat) (cfg : Gen.OSAPConfig) (s0 : Gen.optSuffixArrayParser)
    (hinit : optSuffixArrayParser_init default cfg = Res.ok (s0, Gen.Err.ok))
    (h32 : s0.OSAPConfig.MinMatchLen < 4294967296) (ce : CEFun) (hCE : CESpec B ce)
    (extra : Nat) (grow : Nat → Nat → Nat) (fuel : Nat)
    (hfuel : s0.ParserBuffer.BufConfig.BufferSize.toNat + B + 5 ≤ fuel)
    (ops : List GOpN) (hwf : ∀ op ∈ ops, op.WF) (ghost blk : Gen.Block') (flags : Int) :
    ∃ t rs, runN extra grow fuel ce s0 ops = Res.ok (t, rs) ∧
      ∃ t1 t2 blk' n e,
        optSuffixArrayParser_Parse_nilable grow fuel ce t true ghost flags = Res.ok (t1, ghost, n, e) ∧
        optSuffixArrayParser_Parse grow fuel ce t blk 0 = Res.ok (t2, blk', n, e) ∧
        t1.ParserBuffer.Data = t2.ParserBuffer.Data ∧
        t1.ParserBuffer.W = t2.ParserBuffer.W ∧
        t1.ParserBuffer.Data = t.ParserBuffer.Data ∧
        t1.ParserBuffer.W = t.ParserBuffer.W + n ∧
        n = Min.min t.OSAPConfig.BlockSize ((t.ParserBuffer.Data.len : Int) - t.ParserBuffer.W) ∧
        (n = 0 → e = Gen.ErrEmptyBuffer ∧ t1 = t) ∧ (n ≠ 0 → e = Gen.Err.ok) ∧
        t1 = { t with ParserBuffer := { t.ParserBuffer with W := t.ParserBuffer.W + n } } := by
  obtain ⟨p, t, rs, hp, h2, k1, hbc, k2, hf, k3, -⟩ :=
    gen_osap_history_nil_inv B cfg s0 hinit h32 ce hCE extra grow fuel hfuel ops hwf
  have hr1 : ofOSAPs t = (runOps (p, Ghost.init) (ops.map GOpN.abs)).1 := by rw [← k3]
  exact ⟨t, rs, k1, c14_core hbc grow fuel ce hCE t k2 (ofOSAP cfg) p hp _ hr1 hf ghost blk flags⟩

end LZ.GenOSAPHist

#print axioms LZ.GenOSAPHist.hist_parseNil
#print axioms LZ.GenOSAPHist.stepN_sim
#print axioms LZ.GenOSAPHist.runN_sim
#print axioms LZ.GenOSAPHist.gen_osap_history_nil_inv
#print axioms LZ.GenOSAPHist.gen_osap_history_nil
#print axioms LZ.GenOSAPHist.ce_frame
#print axioms LZ.GenOSAPHist.parse_pb_frame
#print axioms LZ.GenOSAPHist.C14_same_n_osap
#print axioms LZ.GenOSAPHist.C01_go_text_osap_nil
#print axioms LZ.GenOSAPHist.C03_go_text_osap_nil
#print axioms LZ.GenOSAPHist.C14_skip_go_text_osap
#print axioms LZ.GenOSAPHist.c14_core
#print axioms LZ.GenOSAPHist.C14_go_text_osap
