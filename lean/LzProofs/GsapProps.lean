/-
  LzProofs.GsapProps — C12: the rank set of GSAP (`memberBefore`, `memberAfter`,
  `insertRanks`), the neighbour lemma for sorted lists, and the probe.
-/
import LzProofs.SapLemmas
namespace LZ.Sap

/-! ## B6: the rank set -/

/-- `memberBefore bits j` is the largest marked rank `< j` -/
theorem memberBefore_some (bits : Array Bool) : ∀ (j k : Nat),
    memberBefore bits j = some k ↔
      (k < j ∧ bits.getD k false = true ∧ ∀ k', k < k' → k' < j → bits.getD k' false = false) := by
  intro j
  induction j with
  | zero => intro k; simp [memberBefore]
  | succ j ih =>
    intro k
    unfold memberBefore
    by_cases hb : bits.getD j false = true
    · simp only [hb, if_true, Option.some.injEq]
      constructor
      · intro h; subst h
        exact ⟨Nat.lt_succ_self _, hb, fun k' h1 h2 => by omega⟩
      · rintro ⟨h1, h2, h3⟩
        by_cases hjk : j = k
        · exact hjk
        · have := h3 j (by omega) (Nat.lt_succ_self _)
          rw [hb] at this; cases this
    · have hb' : bits.getD j false = false := by simpa using hb
      simp only [hb', Bool.false_eq_true, if_false]
      rw [ih k]
      constructor
      · rintro ⟨h1, h2, h3⟩
        refine ⟨by omega, h2, ?_⟩
        intro k' a b
        by_cases hk' : k' = j
        · subst hk'; exact hb'
        · exact h3 k' a (by omega)
      · rintro ⟨h1, h2, h3⟩
        have : k ≠ j := by
          intro h; subst h; rw [hb'] at h2; cases h2
        exact ⟨by omega, h2, fun k' a b => h3 k' a (by omega)⟩

theorem memberBefore_none (bits : Array Bool) : ∀ (j : Nat),
    memberBefore bits j = none ↔ ∀ k, k < j → bits.getD k false = false := by
  intro j
  induction j with
  | zero => simp [memberBefore]
  | succ j ih =>
    unfold memberBefore
    by_cases hb : bits.getD j false = true
    · simp only [hb, if_true]
      constructor
      · intro h; cases h
      · intro h; have := h j (Nat.lt_succ_self _); rw [hb] at this; cases this
    · have hb' : bits.getD j false = false := by simpa using hb
      simp only [hb', Bool.false_eq_true, if_false]
      rw [ih]
      constructor
      · intro h k hk
        by_cases hkj : k = j
        · subst hkj; exact hb'
        · exact h k (by omega)
      · intro h k hk; exact h k (by omega)

theorem memberFrom_some (bits : Array Bool) : ∀ (fuel j k : Nat),
    memberFrom bits fuel j = some k ↔
      (j ≤ k ∧ k < j + fuel ∧ bits.getD k false = true ∧
        ∀ k', j ≤ k' → k' < k → bits.getD k' false = false) := by
  intro fuel
  induction fuel with
  | zero => intro j k; simp [memberFrom]; intro h1 h2; omega
  | succ fuel ih =>
    intro j k
    unfold memberFrom
    by_cases hb : bits.getD j false = true
    · simp only [hb, if_true, Option.some.injEq]
      constructor
      · intro h; subst h
        exact ⟨Nat.le_refl _, by omega, hb, fun k' h1 h2 => by omega⟩
      · rintro ⟨h1, h2, h3, h4⟩
        by_cases hjk : j = k
        · exact hjk
        · have := h4 j (Nat.le_refl _) (by omega)
          rw [hb] at this; cases this
    · have hb' : bits.getD j false = false := by simpa using hb
      simp only [hb', Bool.false_eq_true, if_false]
      rw [ih (j + 1) k]
      constructor
      · rintro ⟨h1, h2, h3, h4⟩
        refine ⟨by omega, by omega, h3, ?_⟩
        intro k' a b
        by_cases hk' : k' = j
        · subst hk'; exact hb'
        · exact h4 k' (by omega) b
      · rintro ⟨h1, h2, h3, h4⟩
        have : k ≠ j := by
          intro h; subst h; rw [hb'] at h3; cases h3
        exact ⟨by omega, by omega, h3, fun k' a b => h4 k' (by omega) b⟩

theorem memberFrom_none (bits : Array Bool) : ∀ (fuel j : Nat),
    memberFrom bits fuel j = none ↔ ∀ k, j ≤ k → k < j + fuel → bits.getD k false = false := by
  intro fuel
  induction fuel with
  | zero => intro j; simp [memberFrom]; intro k h1 h2; omega
  | succ fuel ih =>
    intro j
    unfold memberFrom
    by_cases hb : bits.getD j false = true
    · simp only [hb, if_true]
      constructor
      · intro h; cases h
      · intro h; have := h j (Nat.le_refl _) (by omega); rw [hb] at this; cases this
    · have hb' : bits.getD j false = false := by simpa using hb
      simp only [hb', Bool.false_eq_true, if_false]
      rw [ih]
      constructor
      · intro h k h1 h2
        by_cases hkj : k = j
        · subst hkj; exact hb'
        · exact h k (by omega) (by omega)
      · intro h k h1 h2; exact h k (by omega) (by omega)

theorem getD_false_of_size_le (bits : Array Bool) {k : Nat} (h : bits.size ≤ k) :
    bits.getD k false = false := by
  simp [Array.getD_eq_getD_getElem?, Array.getElem?_eq_none h]

/-- `memberAfter bits j` is the smallest marked rank `> j` -/
theorem memberAfter_some (bits : Array Bool) (j k : Nat) :
    memberAfter bits j = some k ↔
      (j < k ∧ bits.getD k false = true ∧ ∀ k', j < k' → k' < k → bits.getD k' false = false) := by
  unfold memberAfter
  rw [memberFrom_some]
  constructor
  · rintro ⟨h1, h2, h3, h4⟩
    exact ⟨by omega, h3, fun k' a b => h4 k' (by omega) b⟩
  · rintro ⟨h1, h2, h3⟩
    have hk : k < bits.size := by
      by_cases h : k < bits.size
      · exact h
      · rw [getD_false_of_size_le bits (by omega)] at h2; cases h2
    exact ⟨by omega, by omega, h2, fun k' a b => h3 k' (by omega) b⟩

theorem memberAfter_none (bits : Array Bool) (j : Nat) :
    memberAfter bits j = none ↔ ∀ k, j < k → bits.getD k false = false := by
  unfold memberAfter
  rw [memberFrom_none]
  constructor
  · intro h k hk
    by_cases hs : k < bits.size
    · exact h k (by omega) (by omega)
    · exact getD_false_of_size_le bits (by omega)
  · intro h k h1 h2; exact h k (by omega)

/-- `memberBefore bits j` is the largest marked rank `< j` (or there is none) -/
theorem memberBefore_spec (bits : Array Bool) (j : Nat) :
    match memberBefore bits j with
    | some k => k < j ∧ bits.getD k false = true ∧ ∀ k', k < k' → k' < j → bits.getD k' false = false
    | none => ∀ k, k < j → bits.getD k false = false := by
  cases h : memberBefore bits j with
  | some k => exact (memberBefore_some bits j k).1 h
  | none => exact (memberBefore_none bits j).1 h

/-- `memberAfter bits j` is the smallest marked rank `> j` (or there is none) -/
theorem memberAfter_spec (bits : Array Bool) (j : Nat) :
    match memberAfter bits j with
    | some k => j < k ∧ bits.getD k false = true ∧ ∀ k', j < k' → k' < k → bits.getD k' false = false
    | none => ∀ k, j < k → bits.getD k false = false := by
  cases h : memberAfter bits j with
  | some k => exact (memberAfter_some bits j k).1 h
  | none => exact (memberAfter_none bits j).1 h

/-! ### `insertRanks` -/

theorem getD_setIfInBounds_bool (bits : Array Bool) (j k : Nat) (v : Bool) :
    (bits.setIfInBounds j v).getD k false = if k = j ∧ j < bits.size then v else bits.getD k false := by
  simp only [Array.getD_eq_getD_getElem?, Array.getElem?_setIfInBounds]
  by_cases hk : k = j
  · subst hk
    by_cases hs : k < bits.size <;> simp [hs]
  · have : ¬ j = k := fun h => hk h.symm
    simp [hk, this]

@[simp] theorem insertRanks_size (isa : Array Nat) : ∀ (cnt : Nat) (bits : Array Bool) (a : Nat),
    (insertRanks isa bits a cnt).size = bits.size := by
  intro cnt
  induction cnt with
  | zero => intro bits a; rfl
  | succ cnt ih => intro bits a; simp [insertRanks, ih]

/-- `insertRanks isa bits a cnt` marks exactly the ranks of the positions `a … a+cnt-1`
    (in addition to the ranks marked before) -/
theorem insertRanks_spec (isa : Array Nat) : ∀ (cnt : Nat) (bits : Array Bool) (a r : Nat),
    (insertRanks isa bits a cnt).getD r false = true ↔
      (bits.getD r false = true ∨ (r < bits.size ∧ ∃ t, t < cnt ∧ isa.getD (a + t) 0 = r)) := by
  intro cnt
  induction cnt with
  | zero => intro bits a r; simp [insertRanks]
  | succ cnt ih =>
    intro bits a r
    simp only [insertRanks]
    rw [ih, getD_setIfInBounds_bool, Array.size_setIfInBounds]
    constructor
    · rintro (h | ⟨h1, t, h2, h3⟩)
      · split at h
        · rename_i hc
          exact Or.inr ⟨by omega, 0, by omega, by simpa using hc.1.symm⟩
        · exact Or.inl h
      · exact Or.inr ⟨h1, t + 1, by omega, by rw [← h3]; congr 1; omega⟩
    · rintro (h | ⟨h1, t, h2, h3⟩)
      · left; split
        · rfl
        · exact h
      · rcases Nat.eq_zero_or_pos t with h0 | h0
        · subst h0
          left
          have h3' : isa.getD a 0 = r := h3
          have : r = isa.getD a 0 ∧ isa.getD a 0 < bits.size := ⟨h3'.symm, by omega⟩
          rw [if_pos this]
        · right
          exact ⟨h1, t - 1, by omega, by rw [← h3]; congr 1; omega⟩

/-! ### non-vacuity: a concrete rank set -/

example : memberBefore #[true, false, true, false, false, true, false] 5 = some 2 := by decide
example : memberAfter #[true, false, true, false, false, true, false] 2 = some 5 := by decide
example : memberBefore #[true, false, true, false, false, true, false] 0 = none := by decide
example : memberAfter #[true, false, true, false, false, true, false] 5 = none := by decide
example : insertRanks #[3, 1, 0, 2] #[false, false, false, false] 1 2 = #[true, true, false, false] := by
  decide

/-! ## B7: neighbours in a sorted list -/

/-- sandwich lemma (from the prototype `Lex.lean`): in `a ≤ b ≤ c` the outer pair shares no
    more than either inner pair -/
theorem sandwich : ∀ (a b c : List Byte), lexLe a b = true → lexLe b c = true →
    lcpLen a c ≤ lcpLen a b ∧ lcpLen a c ≤ lcpLen b c := by
  intro a
  induction a with
  | nil => intro b c _ _; simp [lcpLen]
  | cons x xs ih =>
    intro b c hab hbc
    cases b with
    | nil => simp [lexLe] at hab
    | cons y ys =>
      cases c with
      | nil => simp [lexLe] at hbc
      | cons z zs =>
        simp only [lexLe, Bool.or_eq_true, Bool.and_eq_true, decide_eq_true_eq, beq_iff_eq] at hab hbc
        simp only [lcpLen]
        by_cases hxz : x = z
        · subst hxz
          have hxy : x = y := by
            rcases hab with h1 | ⟨h1, _⟩
            · rcases hbc with h2 | ⟨h2, _⟩
              · exact absurd (UInt8.lt_trans h1 h2) (UInt8.lt_irrefl _)
              · subst h2; exact absurd h1 (UInt8.lt_irrefl _)
            · exact h1
          subst hxy
          have h1 : lexLe xs ys = true := by
            rcases hab with h | ⟨_, h⟩
            · exact absurd h (UInt8.lt_irrefl _)
            · exact h
          have h2 : lexLe ys zs = true := by
            rcases hbc with h | ⟨_, h⟩
            · exact absurd h (UInt8.lt_irrefl _)
            · exact h
          have := ih ys zs h1 h2
          simp; omega
        · simp [hxz]

theorem lexLe_refl : ∀ (a : List Byte), lexLe a a = true
  | [] => rfl
  | x :: xs => by simp [lexLe, lexLe_refl xs]

theorem lcpLen_comm : ∀ (a b : List Byte), lcpLen a b = lcpLen b a
  | [], [] => rfl
  | [], _ :: _ => rfl
  | _ :: _, [] => rfl
  | x :: xs, y :: ys => by
    simp only [lcpLen]
    by_cases h : x = y
    · subst h; simp [lcpLen_comm xs ys]
    · have : ¬ y = x := fun h' => h h'.symm
      simp [h, this]

theorem lcpLen_le_left : ∀ (a b : List Byte), lcpLen a b ≤ a.length
  | [], _ => by simp [lcpLen]
  | _ :: _, [] => by simp [lcpLen]
  | x :: xs, y :: ys => by
    simp only [lcpLen]; split
    · have := lcpLen_le_left xs ys; simp; omega
    · simp

theorem lcpLen_le_right (a b : List Byte) : lcpLen a b ≤ b.length := by
  rw [lcpLen_comm]; exact lcpLen_le_left b a

/-- clipping both strings: `lcpLen (a.take x) (b.take y) = min (lcpLen a b) (min x y)` -/
theorem lcpLen_take : ∀ (a b : List Byte) (x y : Nat),
    lcpLen (a.take x) (b.take y) = min (lcpLen a b) (min x y)
  | [], b, x, y => by simp [lcpLen]
  | _ :: _, [], x, y => by simp [lcpLen]
  | a :: as, b :: bs, 0, y => by simp [lcpLen]
  | a :: as, b :: bs, x + 1, 0 => by simp [lcpLen]
  | a :: as, b :: bs, x + 1, y + 1 => by
    simp only [List.take_succ_cons, lcpLen]
    split
    · rw [lcpLen_take as bs x y]; omega
    · simp

/-- the lcp of two suffixes of a clipped buffer is the clipped lcp of the suffixes -/
theorem lcpLen_drop_take (t : List Byte) (e f i : Nat) (hf : f ≤ i) :
    lcpLen ((t.take e).drop f) ((t.take e).drop i) = min (lcpLen (t.drop f) (t.drop i)) (e - i) := by
  rw [List.drop_take, List.drop_take, lcpLen_take]
  omega

/-- the list is sorted w.r.t. `lexLe` -/
def LexSorted (L : List (List Byte)) : Prop := L.Pairwise fun a b => lexLe a b = true

theorem LexSorted.le {L : List (List Byte)} (hs : LexSorted L) {k k' : Nat} (hk : k ≤ k')
    (hk' : k' < L.length) : lexLe (L[k]'(by omega)) L[k'] = true := by
  rcases Nat.lt_or_eq_of_le hk with h | h
  · exact (List.pairwise_iff_getElem.1 hs) k k' (by omega) hk' h
  · subst h; exact lexLe_refl _

/-- monotonicity towards `j` from the left: walking from `k` towards `j` never loses common
    prefix with `L[j]` -/
theorem lcp_mono_left {L : List (List Byte)} (hs : LexSorted L) {k k' j : Nat}
    (h1 : k ≤ k') (h2 : k' ≤ j) (hj : j < L.length) :
    lcpLen (L[k]'(by omega)) L[j] ≤ lcpLen (L[k']'(by omega)) L[j] :=
  (sandwich _ _ _ (hs.le h1 (by omega)) (hs.le h2 hj)).2

/-- … and from the right -/
theorem lcp_mono_right {L : List (List Byte)} (hs : LexSorted L) {k k' j : Nat}
    (h1 : j ≤ k') (h2 : k' ≤ k) (hk : k < L.length) :
    lcpLen L[k] (L[j]'(by omega)) ≤ lcpLen (L[k']'(by omega)) (L[j]'(by omega)) := by
  rw [lcpLen_comm L[k], lcpLen_comm (L[k']'(by omega))]
  exact (sandwich _ _ _ (hs.le h1 (by omega)) (hs.le h2 hk)).1

/-- `neighbour_max`: over any set `S` of indices the best common prefix with `x = L[j]` is
    attained at the predecessor or the successor of `j` in `S`. -/
theorem neighbour_max {L : List (List Byte)} (hs : LexSorted L) (S : Nat → Prop) {j k : Nat}
    (hj : j < L.length) (hk : k < L.length) (hkS : S k) :
    (k < j → ∀ pr (_ : pr < j), S pr → (∀ k', pr < k' → k' < j → ¬ S k') →
      lcpLen L[k] L[j] ≤ lcpLen (L[pr]'(by omega)) L[j]) ∧
    (j < k → ∀ su (hsu : su < L.length), j < su → S su → (∀ k', j < k' → k' < su → ¬ S k') →
      lcpLen L[k] L[j] ≤ lcpLen L[su] L[j]) := by
  constructor
  · intro hkj pr hpr _ hno
    have hle : k ≤ pr := by
      by_cases h : k ≤ pr
      · exact h
      · exact absurd hkS (hno k (by omega) hkj)
    exact lcp_mono_left hs hle (by omega) hj
  · intro hjk su hsu hjs _ hno
    have hle : su ≤ k := by
      by_cases h : su ≤ k
      · exact h
      · exact absurd hkS (hno k hjk (by omega))
    exact lcp_mono_right hs (by omega) hle hk

/-! ## B8: the probe -/

/-- the suffixes of `t` in suffix-array order -/
def sufList (t : List Byte) (sa : Array Nat) : List (List Byte) :=
  (List.range sa.size).map fun r => t.drop (sa.getD r 0)

/-- `sa` is the sorted suffix array of `t` and `isa` its inverse (facts proved for
    `saSpec`/`invertSA` by the suffix-array topic; hypotheses here) -/
structure SAOK (t : List Byte) (sa isa : Array Nat) : Prop where
  size_sa : sa.size = t.length
  isa_sa : ∀ r, r < t.length → isa.getD (sa.getD r 0) 0 = r
  sa_isa : ∀ i, i < t.length → isa.getD i 0 < t.length ∧ sa.getD (isa.getD i 0) 0 = i
  sorted : LexSorted (sufList t sa)

/-- `bits` marks exactly the ranks of the positions `< i` -/
structure BitsOK (sa : Array Nat) (bits : Array Bool) (N i : Nat) : Prop where
  size : bits.size = N
  mark : ∀ r, bits.getD r false = true ↔ (r < N ∧ sa.getD r 0 < i)

/-- the candidate `(f, m)` the probe computes from the two rank neighbours -/
def gsapCand (sa : Array Nat) (bits : Array Bool) (p : List Byte) (i j : Nat) : Nat × Nat :=
  let (f, m) := match memberBefore bits j with
    | some k1 => let f := sa.getD k1 0; (f, lcpLen (p.drop f) (p.drop i))
    | none => (0, 0)
  match memberAfter bits j with
    | some k2 =>
      let f2 := sa.getD k2 0
      let m2 := lcpLen (p.drop f2) (p.drop i)
      if m2 > m ∨ (m2 = m ∧ f2 > f) then (f2, m2) else (f, m)
    | none => (f, m)

theorem gsapProbe_eq (ws minMatch : Nat) (g : GsapD) (p : List Byte) (i li : Nat) :
    gsapProbe ws minMatch g p i li =
      let bits := g.bits.setIfInBounds (g.isa.getD i 0) true
      let c := gsapCand g.sa bits p i (g.isa.getD i 0)
      if c.2 < minMatch then ({ g with bits := bits }, none)
      else if ¬ (c.1 < i ∧ i - c.1 < ws) then ({ g with bits := bits }, none)
      else ({ g with bits := insertRanks g.isa bits (i + 1) (c.2 - 1) }, some (i, c.2, i - c.1)) := by
  rfl

section Probe
variable {t : List Byte} {sa isa : Array Nat} {bits : Array Bool} {i e : Nat}

theorem sufList_getElem (t : List Byte) (sa : Array Nat) {r : Nat} (h : r < (sufList t sa).length) :
    (sufList t sa)[r] = t.drop (sa.getD r 0) := by
  simp [sufList]

theorem sufList_length (t : List Byte) (sa : Array Nat) : (sufList t sa).length = sa.size := by
  simp [sufList]

/-- the rank set after inserting the rank of `i` itself -/
theorem bits_insert (hb : BitsOK sa bits t.length i) (hs : SAOK t sa isa) (hi : i < t.length) (r : Nat) :
    (bits.setIfInBounds (isa.getD i 0) true).getD r false = true ↔
      (r < t.length ∧ sa.getD r 0 ≤ i) := by
  obtain ⟨hj, hsaj⟩ := hs.sa_isa i hi
  rw [getD_setIfInBounds_bool, hb.size]
  by_cases hr : r = isa.getD i 0
  · subst hr
    simp only [hj, and_self, if_true, hsaj, Nat.le_refl]
  · have : ¬ (r = isa.getD i 0 ∧ isa.getD i 0 < t.length) := fun h => hr h.1
    rw [if_neg this, hb.mark]
    constructor
    · rintro ⟨a, b⟩; exact ⟨a, by omega⟩
    · rintro ⟨a, b⟩
      refine ⟨a, ?_⟩
      rcases Nat.lt_or_eq_of_le b with h | h
      · exact h
      · exfalso; apply hr
        rw [← hs.isa_sa r a, h]

/-- clipped common prefix of the suffixes at `f ≤ i` in terms of the suffix list -/
theorem clip_lcp (hs : SAOK t sa isa) (hi : i < t.length) {r : Nat} (hr : r < t.length)
    (hf : sa.getD r 0 ≤ i) :
    lcpLen ((t.take e).drop (sa.getD r 0)) ((t.take e).drop i) =
      min (lcpLen ((sufList t sa)[r]'(by rw [sufList_length, hs.size_sa]; exact hr))
                  ((sufList t sa)[isa.getD i 0]'(by rw [sufList_length, hs.size_sa]; exact (hs.sa_isa i hi).1)))
          (e - i) := by
  rw [lcpLen_drop_take t e _ i hf, sufList_getElem, sufList_getElem, (hs.sa_isa i hi).2]

theorem cand_upper (hs : SAOK t sa isa) (hb : BitsOK sa bits t.length i) (hi : i < t.length)
    (f : Nat) (hf : f < i) :
    lcpLen ((t.take e).drop f) ((t.take e).drop i) ≤
      (gsapCand sa (bits.setIfInBounds (isa.getD i 0) true) (t.take e) i (isa.getD i 0)).2 := by
  obtain ⟨hj, hsaj⟩ := hs.sa_isa i hi
  obtain ⟨hr, hsar⟩ := hs.sa_isa f (by omega)
  have hmark := bits_insert hb hs hi
  have hlenL : (sufList t sa).length = t.length := by rw [sufList_length, hs.size_sa]
  have hrm : (bits.setIfInBounds (isa.getD i 0) true).getD (isa.getD f 0) false = true :=
    (hmark _).2 ⟨hr, by omega⟩
  have hne : isa.getD f 0 ≠ isa.getD i 0 := by
    intro h; rw [h, hsaj] at hsar; omega
  rw [← hsar, clip_lcp hs hi hr (by omega)]
  unfold gsapCand
  rcases Nat.lt_or_gt_of_ne hne with hlt | hgt
  · -- the rank of `f` is below `j`: the predecessor exists and is at least as good
    cases hmb : memberBefore (bits.setIfInBounds (isa.getD i 0) true) (isa.getD i 0) with
    | none =>
      have := (memberBefore_none _ _).1 hmb _ hlt
      rw [hrm] at this; cases this
    | some k1 =>
      obtain ⟨a, b, c⟩ := (memberBefore_some _ _ _).1 hmb
      obtain ⟨hk1, hsk1⟩ := (hmark k1).1 b
      have hmono := (neighbour_max hs.sorted
        (fun r => (bits.setIfInBounds (isa.getD i 0) true).getD r false = true)
        (j := isa.getD i 0) (k := isa.getD f 0) (by omega) (by omega) hrm).1 hlt k1 a b
        (fun k' h1 h2 => by rw [c k' h1 h2]; simp)
      have hk1c := clip_lcp (e := e) hs hi hk1 hsk1
      simp only
      cases memberAfter (bits.setIfInBounds (isa.getD i 0) true) (isa.getD i 0) with
      | none => simp only; rw [hk1c]; omega
      | some k2 =>
        simp only
        split
        · rename_i hc; simp only; rw [hk1c] at hc; omega
        · simp only; rw [hk1c]; omega
  · cases hma : memberAfter (bits.setIfInBounds (isa.getD i 0) true) (isa.getD i 0) with
    | none =>
      have := (memberAfter_none _ _).1 hma _ hgt
      rw [hrm] at this; cases this
    | some k2 =>
      obtain ⟨a, b, c⟩ := (memberAfter_some _ _ _).1 hma
      obtain ⟨hk2, hsk2⟩ := (hmark k2).1 b
      have hmono := (neighbour_max hs.sorted
        (fun r => (bits.setIfInBounds (isa.getD i 0) true).getD r false = true)
        (j := isa.getD i 0) (k := isa.getD f 0) (by omega) (by omega) hrm).2 hgt k2 (by omega) a b
        (fun k' h1 h2 => by rw [c k' h1 h2]; simp)
      have hk2c := clip_lcp (e := e) hs hi hk2 hsk2
      cases memberBefore (bits.setIfInBounds (isa.getD i 0) true) (isa.getD i 0) with
      | none =>
        simp only
        split
        · simp only; rw [hk2c]; omega
        · rename_i hc; simp only; rw [hk2c] at hc; omega
      | some k1 =>
        simp only
        split
        · simp only; rw [hk2c]; omega
        · rename_i hc; simp only; rw [hk2c] at hc; omega

theorem marked_lt (hs : SAOK t sa isa) (hb : BitsOK sa bits t.length i) (hi : i < t.length) {r : Nat}
    (hm : (bits.setIfInBounds (isa.getD i 0) true).getD r false = true) (hne : r ≠ isa.getD i 0) :
    r < t.length ∧ sa.getD r 0 < i := by
  obtain ⟨a, b⟩ := (bits_insert hb hs hi r).1 hm
  refine ⟨a, ?_⟩
  rcases Nat.lt_or_eq_of_le b with h | h
  · exact h
  · exfalso; apply hne; rw [← hs.isa_sa r a, h]

/-- the candidate is a real earlier position with exactly the reported common prefix — or
    there is no earlier position at all -/
theorem cand_attained (hs : SAOK t sa isa) (hb : BitsOK sa bits t.length i) (hi : i < t.length)
    (p : List Byte) :
    ((gsapCand sa (bits.setIfInBounds (isa.getD i 0) true) p i (isa.getD i 0)).1 < i ∧
      (gsapCand sa (bits.setIfInBounds (isa.getD i 0) true) p i (isa.getD i 0)).2 =
        lcpLen (p.drop (gsapCand sa (bits.setIfInBounds (isa.getD i 0) true) p i (isa.getD i 0)).1)
          (p.drop i)) ∨
    (gsapCand sa (bits.setIfInBounds (isa.getD i 0) true) p i (isa.getD i 0) = (0, 0) ∧ i = 0) := by
  obtain ⟨hj, hsaj⟩ := hs.sa_isa i hi
  have hmark := bits_insert hb hs hi
  unfold gsapCand
  cases hmb : memberBefore (bits.setIfInBounds (isa.getD i 0) true) (isa.getD i 0) with
  | none =>
    cases hma : memberAfter (bits.setIfInBounds (isa.getD i 0) true) (isa.getD i 0) with
    | none =>
      right
      refine ⟨rfl, ?_⟩
      rcases Nat.eq_zero_or_pos i with h0 | h0
      · exact h0
      · exfalso
        obtain ⟨hr, hsar⟩ := hs.sa_isa 0 (by omega)
        have hrm : (bits.setIfInBounds (isa.getD i 0) true).getD (isa.getD 0 0) false = true :=
          (hmark _).2 ⟨hr, by omega⟩
        have hne : isa.getD 0 0 ≠ isa.getD i 0 := by
          intro h; rw [h, hsaj] at hsar; omega
        rcases Nat.lt_or_gt_of_ne hne with hlt | hgt
        · have := (memberBefore_none _ _).1 hmb _ hlt
          rw [hrm] at this; cases this
        · have := (memberAfter_none _ _).1 hma _ hgt
          rw [hrm] at this; cases this
    | some k2 =>
      obtain ⟨a, b, _⟩ := (memberAfter_some _ _ _).1 hma
      have := (marked_lt hs hb hi b (by omega)).2
      left
      simp only
      split
      · exact ⟨this, rfl⟩
      · rename_i hc
        have hm0 : lcpLen (List.drop (sa.getD k2 0) p) (List.drop i p) = 0 := by omega
        have hf0 : sa.getD k2 0 = 0 := by omega
        rw [hf0] at this hm0
        exact ⟨this, hm0.symm⟩
  | some k1 =>
    obtain ⟨a, b, _⟩ := (memberBefore_some _ _ _).1 hmb
    have h1 := (marked_lt hs hb hi b (by omega)).2
    left
    cases hma : memberAfter (bits.setIfInBounds (isa.getD i 0) true) (isa.getD i 0) with
    | none => exact ⟨h1, rfl⟩
    | some k2 =>
      obtain ⟨a2, b2, _⟩ := (memberAfter_some _ _ _).1 hma
      have h2 := (marked_lt hs hb hi b2 (by omega)).2
      simp only
      split
      · exact ⟨h2, rfl⟩
      · exact ⟨h1, rfl⟩

end Probe

/-! ### the probe theorems -/

section ProbeThm
variable {t : List Byte} {g : GsapD} {i e : Nat} (ws minMatch li : Nat)

/-- C12 at one position: a match reported by the probe starts at `i`, lies in the window, has
    at least `minMatch` bytes, and its length is the longest common prefix (clipped at the block
    end `e`) that any earlier buffered position offers. -/
theorem gsapProbe_longest (hs : SAOK t g.sa g.isa) (hb : BitsOK g.sa g.bits t.length i)
    (hi : i < t.length) {s m off : Nat}
    (h : (gsapProbe ws minMatch g (t.take e) i li).2 = some (s, m, off)) :
    s = i ∧ 1 ≤ off ∧ off ≤ i ∧ off < ws ∧ minMatch ≤ m ∧
    m = lcpLen ((t.take e).drop (i - off)) ((t.take e).drop i) ∧
    ∀ f, f < i → lcpLen ((t.take e).drop f) ((t.take e).drop i) ≤ m := by
  rw [gsapProbe_eq] at h
  simp only at h
  have hup := cand_upper (e := e) hs hb hi
  have hat := cand_attained hs hb hi (t.take e)
  generalize gsapCand g.sa (g.bits.setIfInBounds (g.isa.getD i 0) true) (t.take e) i (g.isa.getD i 0) = c
    at h hup hat
  split at h
  · cases h
  · split at h
    · cases h
    · rename_i h1 h2
      simp only [Option.some.injEq, Prod.mk.injEq] at h
      obtain ⟨rfl, rfl, rfl⟩ := h
      have h2' : c.1 < i ∧ i - c.1 < ws := by
        by_cases hh : c.1 < i ∧ i - c.1 < ws
        · exact hh
        · exact absurd hh h2
      rcases hat with ⟨a, b⟩ | ⟨_, b⟩
      · have hsub : i - (i - c.1) = c.1 := by omega
        refine ⟨rfl, by omega, by omega, h2'.2, by omega, ?_, hup⟩
        rw [hsub]; exact b
      · omega

/-- when the probe reports nothing, either no earlier position offers `minMatch` bytes, or the
    best earlier position is outside the window -/
theorem gsapProbe_none (hs : SAOK t g.sa g.isa) (hb : BitsOK g.sa g.bits t.length i)
    (hi : i < t.length)
    (h : (gsapProbe ws minMatch g (t.take e) i li).2 = none) :
    (∀ f, f < i → lcpLen ((t.take e).drop f) ((t.take e).drop i) < minMatch) ∨
    (∃ f, f < i ∧ ws ≤ i - f ∧ minMatch ≤ lcpLen ((t.take e).drop f) ((t.take e).drop i) ∧
      ∀ f', f' < i → lcpLen ((t.take e).drop f') ((t.take e).drop i) ≤
        lcpLen ((t.take e).drop f) ((t.take e).drop i)) := by
  rw [gsapProbe_eq] at h
  simp only at h
  have hup := cand_upper (e := e) hs hb hi
  have hat := cand_attained hs hb hi (t.take e)
  generalize gsapCand g.sa (g.bits.setIfInBounds (g.isa.getD i 0) true) (t.take e) i (g.isa.getD i 0) = c
    at h hup hat
  split at h
  · rename_i h1
    left; intro f hf; have := hup f hf; omega
  · rename_i h1
    split at h
    · rename_i h2
      rcases hat with ⟨a, b⟩ | ⟨_, b⟩
      · right
        refine ⟨c.1, a, ?_, by omega, ?_⟩
        · by_cases hh : i - c.1 < ws
          · exact absurd ⟨a, hh⟩ h2
          · omega
        · intro f' hf'; rw [← b]; exact hup f' hf'
      · left; intro f hf; omega
    · cases h

/-- C12, literal clause at one position: if every earlier position is inside the window
    (`i < ws`, which `BufferSize ≤ WindowSize` guarantees), the probe reports nothing only if no
    earlier buffered position offers a match of `minMatch` bytes. -/
theorem gsapProbe_literal_only_if (hs : SAOK t g.sa g.isa) (hb : BitsOK g.sa g.bits t.length i)
    (hi : i < t.length) (hw : i < ws)
    (h : (gsapProbe ws minMatch g (t.take e) i li).2 = none) :
    ∀ f, f < i → lcpLen ((t.take e).drop f) ((t.take e).drop i) < minMatch := by
  rcases gsapProbe_none ws minMatch li hs hb hi h with h1 | ⟨f, a, b, _⟩
  · exact h1
  · omega

end ProbeThm

end LZ.Sap
