/-
  LzProofs.ConfigLemmas — helper lemmas for the configuration properties (C20, C16 clause 1):
  named obligations on the regenerated constants, field-wise description of `setDefaults`
  and `Cfg.restrict`, bounds implied by `verify`, and the fold lemmas behind the JSON
  round trip / rejection theorems.  The readable statements are in `ConfigProps.lean`.
-/
import LzModel.Config
import LzModel.Json
import LzModel.Parser
namespace LZ

/-! ## Named obligations on the regenerated constants (`LzModel/Generated/Facts.lean`)

Every proof below that needs a fact about a constant refers to one of these lemmas; a change
of the Go constant breaks exactly the lemma that names it. -/
namespace FactsOb

theorem defInputLen2Small_ne_zero : Facts.defInputLen2Small ≠ 0 := by decide
theorem defInputLen2Large_ne_zero : Facts.defInputLen2Large ≠ 0 := by decide
theorem defWindowSize_ne_zero : Facts.defWindowSize ≠ 0 := by decide
theorem defBlockSize_ne_zero : Facts.defBlockSize ≠ 0 := by decide
theorem defInputLen_ne_zero : Facts.defInputLen ≠ 0 := by decide
theorem defHashBits_ne_zero : Facts.defHashBits ≠ 0 := by decide
theorem defBucketHashBits_ne_zero : Facts.defBucketHashBits ≠ 0 := by decide
theorem defBucketSize_ne_zero : Facts.defBucketSize ≠ 0 := by decide
theorem defMinMatchLen_ne_zero : Facts.defMinMatchLen ≠ 0 := by decide
theorem defMaxMatchLen_ne_zero : Facts.defMaxMatchLen ≠ 0 := by decide
theorem defCost_ne_empty : Facts.defCost ≠ "" := by decide
theorem maxSize_le : Facts.maxUint32 - (Facts.margin : Int) ≤ 2 ^ 32 - 8 := by decide
theorem minInputLen_ge_two : 2 ≤ Facts.minInputLen := by decide
theorem maxInputLen_le_eight : Facts.maxInputLen ≤ 8 := by decide
theorem maxHashBits_le : Facts.maxHashBits ≤ 24 := by decide
theorem maxBucketHashBits_le : Facts.maxBucketHashBits ≤ 24 := by decide
theorem maxBucketSize_le : Facts.maxBucketSize ≤ 128 := by decide

end FactsOb

/-! ## Configurations are records: extensionality -/

theorem Cfg.ext' {a b : Cfg}
    (h1 : a.shrinkSize = b.shrinkSize) (h2 : a.bufferSize = b.bufferSize)
    (h3 : a.windowSize = b.windowSize) (h4 : a.blockSize = b.blockSize)
    (h5 : a.inputLen = b.inputLen) (h6 : a.hashBits = b.hashBits)
    (h7 : a.inputLen1 = b.inputLen1) (h8 : a.hashBits1 = b.hashBits1)
    (h9 : a.inputLen2 = b.inputLen2) (h10 : a.hashBits2 = b.hashBits2)
    (h11 : a.minMatchLen = b.minMatchLen) (h12 : a.maxMatchLen = b.maxMatchLen)
    (h13 : a.bucketSize = b.bucketSize) (h14 : a.cost = b.cost) : a = b := by
  cases a; cases b; simp_all

/-- the configuration type `k` has the (union) field `f` -/
def Kind.has (k : Kind) (f : String) : Bool := k.fields.contains f

/-! ## `Cfg.restrict`, field by field -/

section restrict
variable (k : Kind) (c : Cfg)

theorem restrict_shrinkSize : (c.restrict k).shrinkSize = c.shrinkSize := rfl
theorem restrict_bufferSize : (c.restrict k).bufferSize = c.bufferSize := rfl
theorem restrict_windowSize : (c.restrict k).windowSize = c.windowSize := rfl
theorem restrict_blockSize : (c.restrict k).blockSize = c.blockSize := rfl
theorem restrict_inputLen : (c.restrict k).inputLen = if k.has "InputLen" then c.inputLen else 0 := rfl
theorem restrict_hashBits : (c.restrict k).hashBits = if k.has "HashBits" then c.hashBits else 0 := rfl
theorem restrict_inputLen1 : (c.restrict k).inputLen1 = if k.has "InputLen1" then c.inputLen1 else 0 := rfl
theorem restrict_hashBits1 : (c.restrict k).hashBits1 = if k.has "HashBits1" then c.hashBits1 else 0 := rfl
theorem restrict_inputLen2 : (c.restrict k).inputLen2 = if k.has "InputLen2" then c.inputLen2 else 0 := rfl
theorem restrict_hashBits2 : (c.restrict k).hashBits2 = if k.has "HashBits2" then c.hashBits2 else 0 := rfl
theorem restrict_minMatchLen : (c.restrict k).minMatchLen = if k.has "MinMatchLen" then c.minMatchLen else 0 := rfl
theorem restrict_maxMatchLen : (c.restrict k).maxMatchLen = if k.has "MaxMatchLen" then c.maxMatchLen else 0 := rfl
theorem restrict_bucketSize : (c.restrict k).bucketSize = if k.has "BucketSize" then c.bucketSize else 0 := rfl
theorem restrict_cost : (c.restrict k).cost = if k.has "Cost" then c.cost else "" := rfl

end restrict

/-- a configuration "is of type `k`": every union field the type does not have is zero -/
structure Cfg.OfKind (k : Kind) (c : Cfg) : Prop where
  inputLen : k.has "InputLen" = false → c.inputLen = 0
  hashBits : k.has "HashBits" = false → c.hashBits = 0
  inputLen1 : k.has "InputLen1" = false → c.inputLen1 = 0
  hashBits1 : k.has "HashBits1" = false → c.hashBits1 = 0
  inputLen2 : k.has "InputLen2" = false → c.inputLen2 = 0
  hashBits2 : k.has "HashBits2" = false → c.hashBits2 = 0
  minMatchLen : k.has "MinMatchLen" = false → c.minMatchLen = 0
  maxMatchLen : k.has "MaxMatchLen" = false → c.maxMatchLen = 0
  bucketSize : k.has "BucketSize" = false → c.bucketSize = 0
  cost : k.has "Cost" = false → c.cost = ""

theorem Cfg.restrict_ofKind (k : Kind) (c : Cfg) : (c.restrict k).OfKind k := by
  constructor <;> intro h <;>
    simp only [restrict_inputLen, restrict_hashBits, restrict_inputLen1, restrict_hashBits1,
      restrict_inputLen2, restrict_hashBits2, restrict_minMatchLen, restrict_maxMatchLen,
      restrict_bucketSize, restrict_cost, h] <;> rfl

theorem Cfg.restrict_eq_self {k : Kind} {c : Cfg} (h : c.OfKind k) : c.restrict k = c := by
  apply Cfg.ext'
  · rfl
  · rfl
  · rfl
  · rfl
  · rw [restrict_inputLen]; cases hk : k.has "InputLen" <;> simp [h.inputLen, hk]
  · rw [restrict_hashBits]; cases hk : k.has "HashBits" <;> simp [h.hashBits, hk]
  · rw [restrict_inputLen1]; cases hk : k.has "InputLen1" <;> simp [h.inputLen1, hk]
  · rw [restrict_hashBits1]; cases hk : k.has "HashBits1" <;> simp [h.hashBits1, hk]
  · rw [restrict_inputLen2]; cases hk : k.has "InputLen2" <;> simp [h.inputLen2, hk]
  · rw [restrict_hashBits2]; cases hk : k.has "HashBits2" <;> simp [h.hashBits2, hk]
  · rw [restrict_minMatchLen]; cases hk : k.has "MinMatchLen" <;> simp [h.minMatchLen, hk]
  · rw [restrict_maxMatchLen]; cases hk : k.has "MaxMatchLen" <;> simp [h.maxMatchLen, hk]
  · rw [restrict_bucketSize]; cases hk : k.has "BucketSize" <;> simp [h.bucketSize, hk]
  · rw [restrict_cost]; cases hk : k.has "Cost" <;> simp [h.cost, hk]

theorem Cfg.ofKind_iff {k : Kind} {c : Cfg} : c.OfKind k ↔ c.restrict k = c :=
  ⟨Cfg.restrict_eq_self, fun h => h ▸ Cfg.restrict_ofKind k c⟩

theorem Cfg.restrict_restrict (k : Kind) (c : Cfg) : (c.restrict k).restrict k = c.restrict k :=
  Cfg.restrict_eq_self (Cfg.restrict_ofKind k c)

/-! ## `setDefaults`, field by field

Each lemma has the shape "the field is kept unless it is zero, in which case it becomes the
documented default"; for fields the type does not have the value is kept unconditionally. -/

section defaults
variable (k : Kind) (c : Cfg)

theorem setDefaults_windowSize :
    (setDefaults k c).windowSize = if c.windowSize = 0 then Facts.defWindowSize else c.windowSize := by
  cases k <;> rfl

theorem setDefaults_bufferSize :
    (setDefaults k c).bufferSize =
      if c.bufferSize = 0 then (setDefaults k c).windowSize else c.bufferSize := by
  cases k <;> rfl

theorem setDefaults_shrinkSize :
    (setDefaults k c).shrinkSize =
      if c.shrinkSize = 0 then
        (if (setDefaults k c).bufferSize < Facts.shrinkSmallLimit then (setDefaults k c).bufferSize >>> 1
         else Facts.defShrinkSize)
      else c.shrinkSize := by
  cases k <;> rfl

theorem setDefaults_blockSize :
    (setDefaults k c).blockSize = if c.blockSize = 0 then Facts.defBlockSize else c.blockSize := by
  cases k <;> rfl

theorem setDefaults_inputLen :
    (setDefaults k c).inputLen =
      if k.has "InputLen" then (if c.inputLen = 0 then Facts.defInputLen else c.inputLen)
      else c.inputLen := by
  cases k <;> rfl

/-- the `HashBits` default is 18 for HP/BHP and 12 for BUP -/
def Kind.defHashBits : Kind → Int
  | .BUP => Facts.defBucketHashBits
  | _ => Facts.defHashBits

theorem setDefaults_hashBits :
    (setDefaults k c).hashBits =
      if k.has "HashBits" then (if c.hashBits = 0 then k.defHashBits else c.hashBits)
      else c.hashBits := by
  cases k <;> rfl

theorem setDefaults_inputLen1 :
    (setDefaults k c).inputLen1 =
      if k.has "InputLen1" then (if c.inputLen1 = 0 then Facts.defInputLen else c.inputLen1)
      else c.inputLen1 := by
  cases k <;> rfl

theorem setDefaults_hashBits1 :
    (setDefaults k c).hashBits1 =
      if k.has "HashBits1" then (if c.hashBits1 = 0 then Facts.defHashBits else c.hashBits1)
      else c.hashBits1 := by
  cases k <;> rfl

/-- the `InputLen2` default depends on the (defaults-completed) `InputLen1`.
    Needs `defInputLen2Small ≠ 0`, `defInputLen2Large ≠ 0` (otherwise the second
    `H2.SetDefaults()` would replace the value again by `defInputLen`). -/
theorem setDefaults_inputLen2 :
    (setDefaults k c).inputLen2 =
      if k.has "InputLen2" then
        (if c.inputLen2 = 0 then
          (if (setDefaults k c).inputLen1 < Facts.dhSmallInputLen then Facts.defInputLen2Small
           else Facts.defInputLen2Large)
         else c.inputLen2)
      else c.inputLen2 := by
  have hS := FactsOb.defInputLen2Small_ne_zero
  have hL := FactsOb.defInputLen2Large_ne_zero
  cases k <;> try rfl
  all_goals
    simp only [setDefaults, bufDefaults, hashDefaults, Kind.has, Kind.fields]
    grind

theorem setDefaults_hashBits2 :
    (setDefaults k c).hashBits2 =
      if k.has "HashBits2" then (if c.hashBits2 = 0 then Facts.defHashBits else c.hashBits2)
      else c.hashBits2 := by
  cases k <;> rfl

theorem setDefaults_minMatchLen :
    (setDefaults k c).minMatchLen =
      if k.has "MinMatchLen" then (if c.minMatchLen = 0 then Facts.defMinMatchLen else c.minMatchLen)
      else c.minMatchLen := by
  cases k <;> rfl

theorem setDefaults_maxMatchLen :
    (setDefaults k c).maxMatchLen =
      if k.has "MaxMatchLen" then (if c.maxMatchLen = 0 then Facts.defMaxMatchLen else c.maxMatchLen)
      else c.maxMatchLen := by
  cases k <;> rfl

theorem setDefaults_bucketSize :
    (setDefaults k c).bucketSize =
      if k.has "BucketSize" then (if c.bucketSize = 0 then Facts.defBucketSize else c.bucketSize)
      else c.bucketSize := by
  cases k <;> rfl

theorem setDefaults_cost :
    (setDefaults k c).cost =
      if k.has "Cost" then (if c.cost = "" then Facts.defCost else c.cost) else c.cost := by
  cases k <;> rfl

end defaults

theorem setDefaults_idem' (k : Kind) (c : Cfg) : setDefaults k (setDefaults k c) = setDefaults k c := by
  cases k <;> apply Cfg.ext' <;> simp only [setDefaults, bufDefaults, hashDefaults] <;> grind

/-- defaults keep a configuration inside its type -/
theorem setDefaults_ofKind {k : Kind} {c : Cfg} (h : c.OfKind k) : (setDefaults k c).OfKind k := by
  constructor <;> intro hk
  · rw [setDefaults_inputLen, hk]; exact h.inputLen hk
  · rw [setDefaults_hashBits, hk]; exact h.hashBits hk
  · rw [setDefaults_inputLen1, hk]; exact h.inputLen1 hk
  · rw [setDefaults_hashBits1, hk]; exact h.hashBits1 hk
  · rw [setDefaults_inputLen2, hk]; exact h.inputLen2 hk
  · rw [setDefaults_hashBits2, hk]; exact h.hashBits2 hk
  · rw [setDefaults_minMatchLen, hk]; exact h.minMatchLen hk
  · rw [setDefaults_maxMatchLen, hk]; exact h.maxMatchLen hk
  · rw [setDefaults_bucketSize, hk]; exact h.bucketSize hk
  · rw [setDefaults_cost, hk]; exact h.cost hk


/-! ## Bounds implied by `verify` -/

theorem bufVerify_bounds {c : Cfg} (h : bufVerify c = true) :
    1 ≤ c.bufferSize ∧ c.bufferSize ≤ 2 ^ 32 - 8 ∧ 0 ≤ c.shrinkSize ∧ c.shrinkSize < c.bufferSize ∧
    0 ≤ c.windowSize ∧ c.windowSize ≤ 2 ^ 32 - 8 ∧ 1 ≤ c.blockSize ∧ c.blockSize ≤ 2 ^ 32 - 8 := by
  have hm := FactsOb.maxSize_le
  simp only [bufVerify, decide_eq_true_eq] at h
  omega

theorem hashVerify_bounds {il hb mb : Int} (h : hashVerify il hb mb = true) :
    Facts.minInputLen ≤ il ∧ il ≤ Facts.maxInputLen ∧ 0 ≤ hb ∧ hb ≤ 8 * il ∧ hb ≤ mb := by
  simp only [hashVerify, decide_eq_true_eq] at h
  split at h <;> omega

theorem verify_bufVerify {k : Kind} {c : Cfg} (h : verify k c = true) : bufVerify c = true := by
  cases k <;> simp only [verify, Bool.and_eq_true] at h <;> simp [h]


/-! ## `asciiLower` made evaluable -/

def lowerChar (c : Char) : Char := if 'A' ≤ c ∧ c ≤ 'Z' then Char.ofNat (c.toNat + 32) else c

theorem asciiLower_eq (s : String) : asciiLower s = String.ofList (s.toList.map lowerChar) := by
  apply String.toList_injective
  simp [asciiLower, String.toList_map, lowerChar]

/-! ## Named obligations on the union record and the type names -/

/-- (a) no two fields of `parserConfigUnion` are equal up to ASCII case -/
theorem unionFields_nodup_lower : (unionFields.map (fun f => asciiLower f.1)).Nodup := by
  simp only [asciiLower_eq]; decide

/-- the first union field is `Type string` -/
theorem unionFields_head : unionFields = ("Type", true) :: unionFields.tail := by decide

theorem asciiLower_Type : asciiLower "Type" = "type" := by
  rw [asciiLower_eq]; decide

/-- (b) every field of every configuration type occurs in the union with the right Go type
    (`Cost` is the only `string` field) -/
theorem kind_fields_in_union (k : Kind) : ∀ f ∈ k.fields, (f, f == "Cost") ∈ unionFields.tail := by
  cases k <;> decide

/-- (c) the type names identify the configuration types -/
theorem kind_ofName_name (k : Kind) : Kind.ofName? k.name = some k := by
  cases k <;> decide

theorem kind_names_injective {k₁ k₂ : Kind} (h : k₁.name = k₂.name) : k₁ = k₂ := by
  have h1 := kind_ofName_name k₁
  rw [h, kind_ofName_name k₂] at h1
  exact (Option.some.inj h1).symm

theorem kind_ofName_eq_some {t : String} {k : Kind} (h : Kind.ofName? t = some k) : t = k.name := by
  unfold Kind.ofName? at h
  split at h <;> first | (cases h; rfl) | (cases h)



/-! ## Key lookup in the union -/

/-- generic: in a list without two names equal up to case, looking up (case-insensitively)
    any key that matches the name of a member finds exactly that member -/
theorem find_of_nodup_lower {l : List (String × Bool)}
    (hnd : (l.map (fun f => asciiLower f.1)).Nodup) {x : String × Bool} (hx : x ∈ l)
    {key : String} (hk : asciiLower x.1 = asciiLower key) :
    l.find? (fun g => asciiLower g.1 = asciiLower key) = some x := by
  induction l with
  | nil => cases hx
  | cons y ys ih =>
    rw [List.map_cons, List.nodup_cons] at hnd
    rcases List.mem_cons.mp hx with rfl | hx'
    · simp [hk]
    · have hne : asciiLower y.1 ≠ asciiLower key := by
        intro h
        apply hnd.1
        rw [h, ← hk]
        exact List.mem_map_of_mem (f := fun f => asciiLower f.1) hx'
      simp only [List.find?_cons, hne, decide_false]
      exact ih hnd.2 hx'

theorem union_find {f : String} {isStr : Bool} (h : (f, isStr) ∈ unionFields) {key : String}
    (hk : asciiLower f = asciiLower key) :
    unionFields.find? (fun g => asciiLower g.1 = asciiLower key) = some (f, isStr) :=
  find_of_nodup_lower unionFields_nodup_lower h hk

theorem union_tail_mem {x : String × Bool} (h : x ∈ unionFields.tail) : x ∈ unionFields := by
  rw [unionFields_head]; exact List.mem_cons_of_mem _ h

/-- a field of the union other than the first does not match the key `Type` -/
theorem union_tail_not_type {x : String × Bool} (h : x ∈ unionFields.tail) :
    asciiLower x.1 ≠ "type" := by
  have hnd := unionFields_nodup_lower
  rw [unionFields_head, List.map_cons, List.nodup_cons] at hnd
  intro he
  apply hnd.1
  show asciiLower "Type" ∈ _
  rw [asciiLower_Type, ← he]
  exact List.mem_map_of_mem (f := fun f => asciiLower f.1) h

theorem union_tail_ne_Type {x : String × Bool} (h : x ∈ unionFields.tail) : x.1 ≠ "Type" := by
  intro he
  apply union_tail_not_type h
  rw [he, asciiLower_Type]

/-! ## `unmarshalMember` -/

/-- one member whose key is exactly the name of a union field -/
theorem unmarshalMember_exact {f : String} {isStr : Bool} (h : (f, isStr) ∈ unionFields)
    (u : UState) (v : JField) :
    unmarshalMember u f v =
      (match v with
       | .null => u
       | .str s =>
         if isStr then (if f = "Type" then { u with typ := s } else { u with cfg := { u.cfg with cost := s } })
         else { u with err := true }
       | .int i => if isStr then { u with err := true } else { u with cfg := u.cfg.setInt f i }
       | _ => { u with err := true }) := by
  unfold unmarshalMember
  rw [union_find h rfl]
  cases v <;> rfl

/-- the error flag of the decoder is sticky and is raised exactly by a member whose key
    matches a union field and whose value has the wrong JSON type -/
def JField.wrongFor (isStr : Bool) : JField → Bool
  | .null => false
  | .str _ => !isStr
  | .int _ => isStr
  | _ => true

/-- the member `key : v` cannot be decoded into `parserConfigUnion` -/
def wrongMember (key : String) (v : JField) : Bool :=
  match unionFields.find? (fun f => asciiLower f.1 = asciiLower key) with
  | none => false
  | some (_, isStr) => v.wrongFor isStr

theorem unmarshalMember_err (u : UState) (key : String) (v : JField) :
    (unmarshalMember u key v).err = (u.err || wrongMember key v) := by
  unfold unmarshalMember wrongMember
  generalize unionFields.find? (fun f => asciiLower f.1 = asciiLower key) = r
  rcases r with _ | ⟨f, isStr⟩
  · simp
  · cases v <;> cases isStr <;> simp [JField.wrongFor]
    split <;> rfl

theorem foldl_err (l : List (String × JField)) (u : UState) :
    (l.foldl (fun u kv => unmarshalMember u kv.1 kv.2) u).err =
      (u.err || l.any (fun kv => wrongMember kv.1 kv.2)) := by
  induction l generalizing u with
  | nil => simp
  | cons x xs ih => simp [List.foldl_cons, ih, unmarshalMember_err, Bool.or_assoc]

theorem unmarshalUnion_isSome (fields : List (String × JField)) :
    (unmarshalUnion fields).isSome = !fields.any (fun kv => wrongMember kv.1 kv.2) := by
  unfold unmarshalUnion
  simp only [foldl_err]
  cases h : fields.any (fun kv => wrongMember kv.1 kv.2) <;> simp

/-! ## Reading back a marshalled configuration -/

/-- the `omitempty` encoding of one union field (other than `Type`) -/
def encField (c : Cfg) (x : String × Bool) : Option (String × JField) :=
  if x.2 then (if c.cost = "" then none else some (x.1, JField.str c.cost))
  else (if c.getInt x.1 = 0 then none else some (x.1, JField.int (c.getInt x.1)))

theorem marshalCfg_eq (k : Kind) (c : Cfg) :
    marshalCfg k c = ("Type", JField.str k.name) :: unionFields.tail.filterMap (encField c) := rfl

theorem getInt_setInt_ne {f g : String} (c : Cfg) (v : Int) (h : f ≠ g) :
    (c.setInt f v).getInt g = c.getInt g := by
  unfold Cfg.setInt
  split <;> (unfold Cfg.getInt; split <;> first | rfl | (exfalso; exact h rfl))

theorem setInt_cost (f : String) (c : Cfg) (v : Int) : (c.setInt f v).cost = c.cost := by
  unfold Cfg.setInt; split <;> rfl

theorem getInt_withCost (g : String) (c : Cfg) (s : String) :
    ({ c with cost := s } : Cfg).getInt g = c.getInt g := by
  unfold Cfg.getInt; split <;> rfl

/-- every `int` field of the union is a real field of `Cfg`: what is stored is read back -/
theorem getInt_setInt_self {f : String} (c : Cfg) (v : Int) (h : (f, false) ∈ unionFields) :
    (c.setInt f v).getInt f = v := by
  simp only [unionFields, List.mem_cons, Prod.mk.injEq, List.mem_nil_iff] at h
  simp only [Bool.false_eq_true, and_false, and_true, false_or, or_false] at h
  rcases h with h | h | h | h | h | h | h | h | h | h | h | h | h <;> subst h <;> rfl

/-- every field of `Cfg` is a field of the union (with the right type): a configuration is
    determined by what the union accessors return -/
theorem Cfg.ext_getInt {a b : Cfg}
    (hi : ∀ f, (f, false) ∈ unionFields.tail → a.getInt f = b.getInt f)
    (hc : ("Cost", true) ∈ unionFields.tail → a.cost = b.cost) : a = b := by
  apply Cfg.ext'
  · exact hi "ShrinkSize" (by decide)
  · exact hi "BufferSize" (by decide)
  · exact hi "WindowSize" (by decide)
  · exact hi "BlockSize" (by decide)
  · exact hi "InputLen" (by decide)
  · exact hi "HashBits" (by decide)
  · exact hi "InputLen1" (by decide)
  · exact hi "HashBits1" (by decide)
  · exact hi "InputLen2" (by decide)
  · exact hi "HashBits2" (by decide)
  · exact hi "MinMatchLen" (by decide)
  · exact hi "MaxMatchLen" (by decide)
  · exact hi "BucketSize" (by decide)
  · exact hc (by decide)

/-- decoding invariant while reading back `marshalCfg k c`: no error, the type is `t`, every
    field holds either the value it has in `c` or still its zero value -/
structure RInv (c : Cfg) (t : String) (u : UState) : Prop where
  err : u.err = false
  typ : u.typ = t
  ints : ∀ g, u.cfg.getInt g = c.getInt g ∨ u.cfg.getInt g = 0
  cost : u.cfg.cost = c.cost ∨ u.cfg.cost = ""

/-- effect of one (possibly omitted) field of the marshalled record -/
def rstep (c : Cfg) (u : UState) (x : String × Bool) : UState :=
  match encField c x with
  | some kv => unmarshalMember u kv.1 kv.2
  | none => u

theorem rstep_spec {c : Cfg} {t : String} {u : UState} {x : String × Bool}
    (hx : x ∈ unionFields.tail) (h : RInv c t u) :
    RInv c t (rstep c u x) ∧
    (∀ g, u.cfg.getInt g = c.getInt g → (rstep c u x).cfg.getInt g = c.getInt g) ∧
    (u.cfg.cost = c.cost → (rstep c u x).cfg.cost = c.cost) ∧
    (x.2 = false → (rstep c u x).cfg.getInt x.1 = c.getInt x.1) ∧
    (x.2 = true → (rstep c u x).cfg.cost = c.cost) := by
  obtain ⟨f, isStr⟩ := x
  have hmem := union_tail_mem hx
  have hT : f ≠ "Type" := union_tail_ne_Type hx
  cases isStr with
  | true =>
    by_cases hc : c.cost = ""
    · have hr : rstep c u (f, true) = u := by simp [rstep, encField, hc]
      rw [hr]
      refine ⟨h, fun _ hg => hg, fun hg => hg, by simp, fun _ => ?_⟩
      rcases h.cost with h1 | h1
      · exact h1
      · rw [h1, hc]
    · have hr : rstep c u (f, true) = { u with cfg := { u.cfg with cost := c.cost } } := by
        simp only [rstep, encField, hc, if_true, if_false]
        rw [unmarshalMember_exact hmem]
        simp [hT]
      rw [hr]
      refine ⟨⟨h.err, h.typ, fun g => ?_, Or.inl rfl⟩, fun g hg => ?_, fun _ => rfl, by simp, fun _ => rfl⟩
      · show Cfg.getInt { u.cfg with cost := c.cost } g = _ ∨ Cfg.getInt { u.cfg with cost := c.cost } g = 0
        rw [getInt_withCost]; exact h.ints g
      · show Cfg.getInt { u.cfg with cost := c.cost } g = _
        rw [getInt_withCost]; exact hg
  | false =>
    by_cases hc : c.getInt f = 0
    · have hr : rstep c u (f, false) = u := by simp [rstep, encField, hc]
      rw [hr]
      refine ⟨h, fun _ hg => hg, fun hg => hg, fun _ => ?_, by simp⟩
      rcases h.ints f with h1 | h1
      · exact h1
      · show u.cfg.getInt f = c.getInt f
        rw [h1, hc]
    · have hr : rstep c u (f, false) = { u with cfg := u.cfg.setInt f (c.getInt f) } := by
        simp only [rstep, encField, hc, if_false, Bool.false_eq_true]
        rw [unmarshalMember_exact hmem]
        rfl
      rw [hr]
      have key : ∀ g, u.cfg.getInt g = c.getInt g ∨ u.cfg.getInt g = 0 →
          (u.cfg.setInt f (c.getInt f)).getInt g = c.getInt g ∨
          (u.cfg.setInt f (c.getInt f)).getInt g = 0 := by
        intro g hg
        by_cases hfg : f = g
        · subst hfg; left; exact getInt_setInt_self _ _ hmem
        · rw [getInt_setInt_ne _ _ hfg]; exact hg
      refine ⟨⟨h.err, h.typ, fun g => key g (h.ints g), ?_⟩, fun g hg => ?_, fun hg => ?_,
        fun _ => getInt_setInt_self _ _ hmem, by simp⟩
      · show (u.cfg.setInt f (c.getInt f)).cost = _ ∨ (u.cfg.setInt f (c.getInt f)).cost = ""
        rw [setInt_cost]; exact h.cost
      · show (u.cfg.setInt f (c.getInt f)).getInt g = _
        by_cases hfg : f = g
        · subst hfg; exact getInt_setInt_self _ _ hmem
        · rw [getInt_setInt_ne _ _ hfg]; exact hg
      · show (u.cfg.setInt f (c.getInt f)).cost = _
        rw [setInt_cost]; exact hg

theorem rfold_spec {c : Cfg} {t : String} (l : List (String × Bool))
    (hl : ∀ x ∈ l, x ∈ unionFields.tail) (u : UState) (h : RInv c t u) :
    RInv c t (l.foldl (rstep c) u) ∧
    (∀ g, u.cfg.getInt g = c.getInt g → (l.foldl (rstep c) u).cfg.getInt g = c.getInt g) ∧
    (u.cfg.cost = c.cost → (l.foldl (rstep c) u).cfg.cost = c.cost) ∧
    (∀ g, (g, false) ∈ l → (l.foldl (rstep c) u).cfg.getInt g = c.getInt g) ∧
    ((∃ g, (g, true) ∈ l) → (l.foldl (rstep c) u).cfg.cost = c.cost) := by
  induction l generalizing u with
  | nil => exact ⟨h, fun _ hg => hg, fun hg => hg, by simp, by simp⟩
  | cons x xs ih =>
    obtain ⟨s1, s2, s3, s4, s5⟩ := rstep_spec (hl x (List.mem_cons_self ..)) h
    obtain ⟨r1, r2, r3, r4, r5⟩ := ih (fun y hy => hl y (List.mem_cons_of_mem _ hy)) (rstep c u x) s1
    rw [List.foldl_cons]
    refine ⟨r1, fun g hg => r2 g (s2 g hg), fun hg => r3 (s3 hg), fun g hg => ?_, fun ⟨g, hg⟩ => ?_⟩
    · rcases List.mem_cons.mp hg with rfl | hg'
      · exact r2 g (s4 rfl)
      · exact r4 g hg'
    · rcases List.mem_cons.mp hg with rfl | hg'
      · exact r3 (s5 rfl)
      · exact r5 ⟨g, hg'⟩

theorem foldl_marshal_tail (c : Cfg) (l : List (String × Bool)) (u : UState) :
    (l.filterMap (encField c)).foldl (fun u kv => unmarshalMember u kv.1 kv.2) u =
      l.foldl (rstep c) u := by
  rw [List.foldl_filterMap]
  congr 1
  funext x y
  unfold rstep
  cases encField c y <;> rfl

/-- **reading back**: decoding the marshalled union record of any `c` (all `Int` values, any
    `cost`) gives back the type name and exactly `c` -/
theorem unmarshalUnion_marshalCfg (k : Kind) (c : Cfg) :
    unmarshalUnion (marshalCfg k c) = some (k.name, c) := by
  have h0 : RInv c k.name { typ := k.name, cfg := {}, err := false } :=
    ⟨rfl, rfl, fun g => Or.inr (by unfold Cfg.getInt; split <;> rfl), Or.inr rfl⟩
  have hstart : unmarshalMember {} "Type" (JField.str k.name) =
      { typ := k.name, cfg := {}, err := false } := by
    rw [unmarshalMember_exact (f := "Type") (isStr := true) (by decide)]; rfl
  obtain ⟨r1, _, _, r4, r5⟩ := rfold_spec (c := c) unionFields.tail (fun _ hx => hx) _ h0
  unfold unmarshalUnion
  rw [marshalCfg_eq, List.foldl_cons, hstart, foldl_marshal_tail]
  show (if (unionFields.tail.foldl (rstep c) _).err = true then none else some _) = _
  rw [r1.err]
  simp only [Bool.false_eq_true, if_false, r1.typ]
  congr 2
  exact Cfg.ext_getInt (fun f hf => r4 f hf) (fun hC => r5 ⟨_, hC⟩)

/-! ## `unmarshalType` -/

/-- the step function of `unmarshalType` -/
def tstep (acc : String × Bool) (kv : String × JField) : String × Bool :=
  if asciiLower kv.1 = "type" then
    match kv.2 with
    | .null => acc
    | .str s => (s, acc.2)
    | _ => (acc.1, true)
  else acc

theorem unmarshalType_eq (fields : List (String × JField)) :
    unmarshalType fields =
      if (fields.foldl tstep ("", false)).2 then none else some (fields.foldl tstep ("", false)).1 := by
  unfold unmarshalType
  have hF : ∀ (F : String × Bool → String × JField → String × Bool), F = tstep →
      (have r := fields.foldl F ("", false); if r.2 then none else some r.1) =
      if (fields.foldl tstep ("", false)).2 then none else some (fields.foldl tstep ("", false)).1 := by
    intro F hF; subst hF; rfl
  apply hF
  funext acc kv; unfold tstep; split
  · cases kv.2 <;> rfl
  · rfl

theorem foldl_tstep_skip (l : List (String × JField)) (h : ∀ kv ∈ l, asciiLower kv.1 ≠ "type")
    (acc : String × Bool) : l.foldl tstep acc = acc := by
  induction l generalizing acc with
  | nil => rfl
  | cons x xs ih =>
    rw [List.foldl_cons]
    have : tstep acc x = acc := by unfold tstep; rw [if_neg (h x (List.mem_cons_self ..))]
    rw [this]
    exact ih (fun kv hkv => h kv (List.mem_cons_of_mem _ hkv)) acc

theorem encField_key {c : Cfg} {x : String × Bool} {kv : String × JField}
    (h : encField c x = some kv) : kv.1 = x.1 := by
  unfold encField at h
  split at h <;> split at h <;> first | (cases h; rfl) | cases h

theorem unmarshalType_marshalCfg (k : Kind) (c : Cfg) :
    unmarshalType (marshalCfg k c) = some k.name := by
  rw [unmarshalType_eq, marshalCfg_eq, List.foldl_cons]
  have h1 : tstep ("", false) ("Type", JField.str k.name) = (k.name, false) := by
    unfold tstep; rw [if_pos asciiLower_Type]
  rw [h1, foldl_tstep_skip]
  · rfl
  · intro kv hkv
    obtain ⟨x, hx, he⟩ := List.mem_filterMap.mp hkv
    rw [encField_key he]
    exact union_tail_not_type hx

/-! ## The two decoders of `ParseJSON` agree on `Type` -/

theorem unmarshalMember_of_find {key f : String} {isStr : Bool}
    (h : unionFields.find? (fun g => asciiLower g.1 = asciiLower key) = some (f, isStr))
    (u : UState) (v : JField) :
    unmarshalMember u key v =
      (match v with
       | .null => u
       | .str s =>
         if isStr then (if f = "Type" then { u with typ := s } else { u with cfg := { u.cfg with cost := s } })
         else { u with err := true }
       | .int i => if isStr then { u with err := true } else { u with cfg := u.cfg.setInt f i }
       | _ => { u with err := true }) := by
  unfold unmarshalMember
  rw [h]
  cases v <;> rfl

theorem unmarshalMember_of_none {key : String}
    (h : unionFields.find? (fun g => asciiLower g.1 = asciiLower key) = none)
    (u : UState) (v : JField) : unmarshalMember u key v = u := by
  unfold unmarshalMember
  rw [h]

theorem unmarshalMember_typ_of_ne {key : String} (hk : asciiLower key ≠ "type") (u : UState)
    (v : JField) : (unmarshalMember u key v).typ = u.typ := by
  cases hf : unionFields.find? (fun g => asciiLower g.1 = asciiLower key) with
  | none => rw [unmarshalMember_of_none hf]
  | some x =>
    obtain ⟨f, isStr⟩ := x
    have hp := List.find?_some hf
    simp only [decide_eq_true_eq] at hp
    have hT : f ≠ "Type" := by
      intro he; apply hk; rw [← hp, he, asciiLower_Type]
    rw [unmarshalMember_of_find hf]
    cases v <;> cases isStr <;> simp [hT]

theorem unmarshalMember_type_key {key : String} (hk : asciiLower key = "type") (u : UState)
    (v : JField) :
    unmarshalMember u key v =
      (match v with
       | .null => u
       | .str s => { u with typ := s }
       | _ => { u with err := true }) := by
  have hf := union_find (f := "Type") (isStr := true) (by decide) (key := key)
    (by rw [asciiLower_Type, hk])
  rw [unmarshalMember_of_find hf]
  cases v <;> rfl

theorem type_folds_agree (l : List (String × JField)) (acc : String × Bool) (u : UState)
    (h1 : acc.1 = u.typ) (h2 : acc.2 = true → u.err = true) :
    (l.foldl tstep acc).1 = (l.foldl (fun u kv => unmarshalMember u kv.1 kv.2) u).typ ∧
    ((l.foldl tstep acc).2 = true →
      (l.foldl (fun u kv => unmarshalMember u kv.1 kv.2) u).err = true) := by
  induction l generalizing acc u with
  | nil => exact ⟨h1, h2⟩
  | cons x xs ih =>
    rw [List.foldl_cons, List.foldl_cons]
    apply ih
    · unfold tstep
      split
      · rename_i hk
        rw [unmarshalMember_type_key hk]
        cases x.2 <;> simp [h1]
      · rename_i hk
        rw [unmarshalMember_typ_of_ne hk]; exact h1
    · unfold tstep
      split
      · rename_i hk
        rw [unmarshalMember_type_key hk]
        cases x.2 <;> simp <;> exact h2
      · intro ha
        rw [unmarshalMember_err, h2 ha]; rfl

/-- if the union decoder succeeds with type `t`, the `struct{Type string}` decoder of
    `ParseJSON` succeeds with the same `t` -/
theorem unmarshalType_of_union {fields : List (String × JField)} {t : String} {c : Cfg}
    (h : unmarshalUnion fields = some (t, c)) : unmarshalType fields = some t := by
  obtain ⟨a1, a2⟩ := type_folds_agree fields ("", false) {} rfl (by simp)
  unfold unmarshalUnion at h
  simp only at h
  split at h
  · cases h
  · rename_i he
    cases h
    rw [unmarshalType_eq]
    split
    · rename_i ht; exact absurd (a2 ht) he
    · rw [a1]

/-! ## What a marshalled configuration of type `k` contains -/

theorem restrict_getInt (k : Kind) (c : Cfg) (f : String) :
    (c.restrict k).getInt f = if k.fields.contains f then c.getInt f else 0 := by
  unfold Cfg.getInt
  split <;> first | rfl | (cases k <;> rfl) | (split <;> rfl)

/-- `Cost` is the only `string` field of the union besides `Type` -/
theorem union_tail_str {g : String} (h : (g, true) ∈ unionFields.tail) : g = "Cost" := by
  simp only [unionFields, List.tail_cons, List.mem_cons, Prod.mk.injEq, List.mem_nil_iff] at h
  simpa using h

theorem encField_restrict_key {k : Kind} {c : Cfg} {x : String × Bool} {kv : String × JField}
    (hx : x ∈ unionFields.tail) (he : encField (c.restrict k) x = some kv) : kv.1 ∈ k.fields := by
  obtain ⟨g, isStr⟩ := x
  rw [encField_key he]
  unfold encField at he
  cases isStr with
  | true =>
    have hg := union_tail_str hx
    subst hg
    simp only [if_true] at he
    split at he
    · cases he
    · rename_i hc
      rw [restrict_cost] at hc
      cases hk : k.has "Cost" with
      | false => rw [hk] at hc; exact absurd rfl hc
      | true => exact List.contains_iff_mem.mp hk
  | false =>
    simp only [Bool.false_eq_true, if_false] at he
    split at he
    · cases he
    · rename_i hc
      rw [restrict_getInt] at hc
      cases hk : k.fields.contains g with
      | false => rw [hk] at hc; exact absurd rfl hc
      | true => exact List.contains_iff_mem.mp hk

end LZ
