/-
  LzProofs.GenBUPHistRun — HISTORIES of translated operations of the bucket parser BUP, and C01/C02/C03 stated about the
  translation of the Go text.  No sorry, no axioms of its own.

  `GOpU`   one call on a Go `*bucketParser`: `Write(p)`, `ReadFrom(r)`, `Parse(&blk, flags)`, `Reset(data)`, `Shrink()` — the
           methods of `bucketParser` that `tools/extract` translates (LzProofs/GenBUPHist.lean explains the promotion through
           the embedded structs).  `Shrink()` is the translated `bucketDictionary.Shrink` (LzProofs/GenBUPShrink.lean) around
           the OPAQUE method `bucketHash.shiftOffsets` = the parameter `SO` under the hypothesis `ShiftSpec SO` (its
           specification against the model's `BucketT.shiftOffsets`).  `Parse(nil, …)`: LzProofs/GenBUPHistNil.lean.  The arguments are Go VALUES: `p`, `data : Gen.Slice`,
           `blk : Gen.Block'`, `flags : Int`; `r : Reader` is the model's scripted reader (it can mimic every sequence of
           `(n ≤ len(p), err)` answers of an `io.Reader`, incl. `(0, nil)`).
  `GResU`  what the call returns (and, for `Parse`, the block after the call).
  `runU RF grow fuel lcp SO s ops`   executes the TRANSLATED functions one after the other, threading the Go state; `RF` is
           the rendering of `(*ParserBuffer).ReadFrom` (in the `…_go_text_…` theorems: `GenHPHist.rfGo extra`, the
           translated function run against the scripted reader), `grow` the capacity policy of `append`, `fuel` the bound
           handed to the loops of `Parse`, `lcp` the opaque callee of `Parse` (hypothesis `LcpSpec lcp`).
  `GOpU.WF` the domain: slices have `len ≤ cap` (every Go slice has), `flags ≥ 0`.
  `ghostRunU`  the bookkeeping of C01 computed from the Go calls and the Go results alone.

  Theorems
    stepU_sim / runU_sim   from ANY Go state with `HistOKU` (GenBUPHist), for every list of well-formed operations, every
                     `RF` with `RFSpec RF`: `runU` is `Res.ok`; `HistOKU` (hence `ParseOKU`) holds in the state reached; that
                     state abstracts to the model state `runOps` reaches with the abstracted operations; every result equals
                     the model's (`ResultsAgreeU`); `ghostRunU` is the model's ghost.
    runU_append      the states `runU` passes through are the final states of `runU` on the prefixes
    gen_bup_history_rf      the same from `bucketParser.init` on `new(bucketParser)` for every configuration it accepts
    gen_bup_history         … with the translated `ReadFrom` (`rfGo extra`; no hypothesis about `ReadFrom` left)
    gen_bup_history_states  … and `ParseOKU` holds after every prefix of the history (every reached state)
    C01_go_text_bup, C02_go_text_bup, C03_go_text_bup   the properties about the translation; the hand model does not
                     occur in the statements.
  (C19: LzProofs/GenBUPHistC19.lean.)
-/
import LzProofs.GenBUPShrink

set_option linter.unusedSimpArgs false
set_option linter.unusedVariables false

namespace LZ.GenBUPHist
open LZ LZ.Gen LZ.GenBuf LZ.GenHash LZ.GenHPParse LZ.GenBUPParse LZ.GenProps
open LZ.GenHPHist (BCOK RFun RFSpec genErr rfGo rfGo_spec bind_ok' parseErr_ok_iff step_parse_fst step_reset_fst)

/-- one call on a Go `*bucketParser` -/
inductive GOpU where
  | write (p : Slice)
  | readFrom (r : Reader)
  | parse (blk : Gen.Block') (flags : Int)
  | reset (data : Slice)
  | shrink

/-- what the call returned -/
inductive GResU where
  | write (n : Int) (err : Gen.Err)
  /-- `n` and the error; the reader after the call is not an input of any later call -/
  | readFrom (n : Int) (err : Gen.Err)
  | parse (blk : Gen.Block') (n : Int) (err : Gen.Err)
  | reset (err : Gen.Err)
  | shrink (delta : Int)
deriving Repr, DecidableEq

/-- the domain of the theorems: Go slices have `len ≤ cap`; `flags ≥ 0` -/
def GOpU.WF : GOpU → Prop
  | .write p => SWF p
  | .readFrom _ => True
  | .parse _ flags => 0 ≤ flags
  | .reset data => SWF data
  | .shrink => True

/-- one call, on the translated functions -/
def stepU (RF : RFun) (grow : Nat → Nat → Nat) (fuel : Nat) (lcp : Slice → Slice → Int) (SO : SOFun) (s : Gen.bucketParser) :
    GOpU → Res (Gen.bucketParser × GResU)
  | .write p => Res.bind (bup_Write grow s p) fun r => Res.ok (r.1, .write r.2.1 r.2.2)
  | .readFrom rd => Res.bind (bup_ReadFrom RF s rd) fun x => Res.ok (x.1, .readFrom x.2.2.1 x.2.2.2)
  | .parse blk flags =>
    Res.bind (bucketParser_Parse grow fuel lcp s blk flags) fun r => Res.ok (r.1, .parse r.2.1 r.2.2.1 r.2.2.2)
  | .reset data => Res.bind (bup_Reset s data) fun r => Res.ok (r.1, .reset r.2)
  | .shrink => Res.bind (bup_Shrink SO s) fun r => Res.ok (r.1, .shrink r.2)

/-- a history of calls; the results in order -/
def runU (RF : RFun) (grow : Nat → Nat → Nat) (fuel : Nat) (lcp : Slice → Slice → Int) (SO : SOFun) :
    Gen.bucketParser → List GOpU → Res (Gen.bucketParser × List GResU)
  | s, [] => Res.ok (s, [])
  | s, op :: ops =>
    Res.bind (stepU RF grow fuel lcp SO s op) fun r =>
    Res.bind (runU RF grow fuel lcp SO r.1 ops) fun q => Res.ok (q.1, r.2 :: q.2)

/-- the model operation a Go call stands for -/
def GOpU.abs : GOpU → POp
  | .write p => .write p.data
  | .readFrom r => .readFrom r
  | .parse _ flags => .parse flags.toNat
  | .reset data => .reset data.data (data.cap - data.len)
  | .shrink => .shrink

/-- the result of one Go call equals the result of the model operation on the model state `m` -/
def resAgreeU (m : Parser) : GOpU → GResU → Prop
  | .write p, .write n e => n = ((m.write p.data).2.1 : Int) ∧ errOf e = some (m.write p.data).2.2
  | .readFrom rd, .readFrom n e => n = ((m.readFrom rd).2.2.1 : Int) ∧ e = genErr (m.readFrom rd).2.2.2
  | .parse _ flags, .parse blk' n e =>
    n = ((m.parse flags.toNat).2.1 : Int) ∧ e = parseErr (m.parse flags.toNat).2.2.1 ∧
    ofBlock blk' = (m.parse flags.toNat).2.2.2 ∧ SWF blk'.Literals
  | .reset data, .reset e => errOfReset e = some (m.reset data.data (data.cap - data.len)).2
  | .shrink, .shrink d => d = (m.shrink.2 : Int)
  | _, _ => False

/-- … along a history -/
def ResultsAgreeU : Parser × Ghost → List GOpU → List GResU → Prop
  | _, [], [] => True
  | sg, op :: ops, r :: rs => resAgreeU sg.1 op r ∧ ResultsAgreeU (step sg op.abs) ops rs
  | _, _, _ => False

/-- the C01 bookkeeping from the Go calls and results alone -/
def ghostStepU (g : Ghost) : GOpU → GResU → Ghost
  | .write p, .write n _ => { g with fed := g.fed ++ p.data.take n.toNat }
  | .readFrom rd, .readFrom n _ => { g with fed := g.fed ++ rd.payload.take n.toNat }
  | .parse _ flags, .parse blk' n e =>
    if e = Gen.Err.ok then
      { g with consumed := g.consumed + n.toNat, log := g.log ++ [.block n.toNat flags.toNat (ofBlock blk')] }
    else g
  | .reset data, .reset e => if e = Gen.Err.ok then { fed := data.data, consumed := 0, log := [] } else g
  | _, _ => g

def ghostRunU : Ghost → List GOpU → List GResU → Ghost
  | g, op :: ops, r :: rs => ghostRunU (ghostStepU g op r) ops rs
  | g, _, _ => g

/-! ## one step -/

theorem stepU_sim {bc : BufCfg} (hbc : BCOK bc) (RF : RFun) (hRF : RFSpec RF) (grow : Nat → Nat → Nat) (fuel : Nat)
    (lcp : Slice → Slice → Int) (hlcp : LcpSpec lcp)
    (SO : SOFun) (hSO : ShiftSpec SO) (hfuel : bc.bufferSize + 3 ≤ fuel)
    (t : Gen.bucketParser) (g : Ghost) (h : HistOKU bc t) (op : GOpU) (hop : op.WF) :
    ∃ t' r, stepU RF grow fuel lcp SO t op = Res.ok (t', r) ∧ HistOKU bc t' ∧
      ofBUPs t' = (step (ofBUPs t, g) op.abs).1 ∧ ghostStepU g op r = (step (ofBUPs t, g) op.abs).2 ∧
      resAgreeU (ofBUPs t) op r := by
  cases op with
  | write p =>
    obtain ⟨t', n, e, h1, h2, h3, h4, h5, h6⟩ := hist_write hbc grow t h p hop
    refine ⟨t', .write n e, ?_, h2, h3, ?_, h4, h5⟩
    · simp only [stepU, h1]; rfl
    · simp only [ghostStepU, step, GOpU.abs, h4, Int.toNat_natCast]
  | readFrom rd =>
    obtain ⟨t', h1, h2, h3⟩ := hist_readFrom hbc RF hRF t h rd
    refine ⟨t', .readFrom _ _, ?_, h2, h3, ?_, rfl, rfl⟩
    · simp only [stepU, h1]; rfl
    · simp only [ghostStepU, step, GOpU.abs, Int.toNat_natCast]
  | parse blk flags =>
    obtain ⟨t', blk', h1, h2, h3, h4, h5, h6⟩ :=
      hist_parse hbc grow fuel lcp hlcp t h blk flags hop (by have := h.len; omega)
    refine ⟨t', .parse blk' _ _, ?_, h2, ?_, ?_, rfl, rfl, h4, h5⟩
    · simp only [stepU, h1]; rfl
    · rw [GOpU.abs, step_parse_fst]; exact h3
    · simp only [ghostStepU, step, GOpU.abs, parseErr_ok_iff _ h6, Int.toNat_natCast, h4]
      split <;> rfl
  | reset data =>
    obtain ⟨t', e, h1, h2, h3, h4⟩ := hist_reset hbc t h data hop
    refine ⟨t', .reset e, ?_, h2, ?_, ?_, h4⟩
    · simp only [stepU, h1]; rfl
    · rw [GOpU.abs, step_reset_fst]; exact h3
    · simp only [ghostStepU, step, GOpU.abs, errOfReset_ok_iff e _ h4]
      split <;> rfl
  | shrink =>
    obtain ⟨t', h1, h2, h3⟩ := hist_shrink hbc SO hSO t h
    refine ⟨t', .shrink _, ?_, h2, h3, rfl, rfl⟩
    simp only [stepU, h1]; rfl

/-! ## histories -/

/-- **Simulation**, from any Go state satisfying the invariant. -/
theorem runU_sim {bc : BufCfg} (hbc : BCOK bc) (RF : RFun) (hRF : RFSpec RF) (grow : Nat → Nat → Nat) (fuel : Nat)
    (lcp : Slice → Slice → Int) (hlcp : LcpSpec lcp)
    (SO : SOFun) (hSO : ShiftSpec SO) (hfuel : bc.bufferSize + 3 ≤ fuel) :
    ∀ (ops : List GOpU) (t : Gen.bucketParser) (g : Ghost), HistOKU bc t → (∀ op ∈ ops, op.WF) →
      ∃ t' rs, runU RF grow fuel lcp SO t ops = Res.ok (t', rs) ∧ HistOKU bc t' ∧
        ofBUPs t' = (runOps (ofBUPs t, g) (ops.map GOpU.abs)).1 ∧
        ghostRunU g ops rs = (runOps (ofBUPs t, g) (ops.map GOpU.abs)).2 ∧
        ResultsAgreeU (ofBUPs t, g) ops rs := by
  intro ops
  induction ops with
  | nil => intro t g h _; exact ⟨t, [], rfl, h, rfl, rfl, trivial⟩
  | cons op ops ih =>
    intro t g h hwf
    obtain ⟨t1, r, h1, h2, h3, h4, h5⟩ :=
      stepU_sim hbc RF hRF grow fuel lcp hlcp SO hSO hfuel t g h op (hwf op (List.mem_cons_self ..))
    obtain ⟨t', rs, k1, k2, k3, k4, k5⟩ := ih t1 (ghostStepU g op r) h2 (fun o ho => hwf o (List.mem_cons_of_mem _ ho))
    have hsg : step (ofBUPs t, g) op.abs = (ofBUPs t1, ghostStepU g op r) := by
      rw [h3, h4]
    refine ⟨t', r :: rs, ?_, k2, ?_, ?_, h5, ?_⟩
    · show Res.bind (stepU RF grow fuel lcp SO t op) _ = _
      rw [h1]
      show Res.bind (runU RF grow fuel lcp SO t1 ops) _ = _
      rw [k1]; rfl
    · show _ = (runOps (step (ofBUPs t, g) op.abs) (ops.map GOpU.abs)).1
      rw [hsg]; exact k3
    · show ghostRunU (ghostStepU g op r) ops rs = (runOps (step (ofBUPs t, g) op.abs) (ops.map GOpU.abs)).2
      rw [hsg]; exact k4
    · show ResultsAgreeU (step (ofBUPs t, g) op.abs) ops rs
      rw [hsg]; exact k5

/-- the states a history passes through are the final states of its prefixes -/
theorem runU_append (RF : RFun) (grow : Nat → Nat → Nat) (fuel : Nat) (lcp : Slice → Slice → Int) (SO : SOFun) :
    ∀ (a b : List GOpU) (s : Gen.bucketParser),
    runU RF grow fuel lcp SO s (a ++ b) =
      Res.bind (runU RF grow fuel lcp SO s a) fun r =>
      Res.bind (runU RF grow fuel lcp SO r.1 b) fun q => Res.ok (q.1, r.2 ++ q.2) := by
  intro a
  induction a with
  | nil =>
    intro b s
    simp only [List.nil_append, runU, bind_ok', List.nil_append]
    cases runU RF grow fuel lcp SO s b with
    | ok v => rfl
    | panic => rfl
    | fuel => rfl
  | cons op a ih =>
    intro b s
    simp only [List.cons_append, runU]
    cases hs : stepU RF grow fuel lcp SO s op with
    | ok v =>
      simp only [bind_ok', ih]
      cases runU RF grow fuel lcp SO v.1 a with
      | ok w =>
        simp only [bind_ok']
        cases runU RF grow fuel lcp SO w.1 b with
        | ok u => rfl
        | panic => rfl
        | fuel => rfl
      | panic => rfl
      | fuel => rfl
    | panic => rfl
    | fuel => rfl

/-- the simulation from `bucketParser.init`, `ReadFrom` any function with `RFSpec` -/
theorem gen_bup_history_rf (cfg : Gen.BUPConfig) (s0 : Gen.bucketParser)
    (hinit : bucketParser_init default cfg = Res.ok (s0, Gen.Err.ok))
    (RF : RFun) (hRF : RFSpec RF) (grow : Nat → Nat → Nat) (fuel : Nat) (lcp : Slice → Slice → Int) (hlcp : LcpSpec lcp)
    (SO : SOFun) (hSO : ShiftSpec SO)
    (hfuel : s0.bucketDictionary.ParserBuffer.BufConfig.BufferSize.toNat + 3 ≤ fuel)
    (ops : List GOpU) (hwf : ∀ op ∈ ops, op.WF) :
    ∃ p t rs, newParser .BUP (ofBUP cfg) = some p ∧ ofBUPs s0 = p ∧
      runU RF grow fuel lcp SO s0 ops = Res.ok (t, rs) ∧ ParseOKU t ∧
      ofBUPs t = (runOps (p, Ghost.init) (ops.map GOpU.abs)).1 ∧
      ghostRunU Ghost.init ops rs = (runOps (p, Ghost.init) (ops.map GOpU.abs)).2 ∧
      ResultsAgreeU (p, Ghost.init) ops rs := by
  obtain ⟨p, hp, h2, hbc, hH⟩ := hist_init cfg s0 hinit
  have hf : p.buf.cfg.bufferSize + 3 ≤ fuel := by
    have : p.buf.cfg = ofCfg s0.bucketDictionary.ParserBuffer.BufConfig := hH.cfg.symm
    rw [this]; exact hfuel
  obtain ⟨t, rs, k1, k2, k3, k4, k5⟩ := runU_sim hbc RF hRF grow fuel lcp hlcp SO hSO hf ops s0 Ghost.init hH hwf
  rw [h2] at k3 k4 k5
  exact ⟨p, t, rs, hp, h2, k1, k2.pok, k3, k4, k5⟩

/-- **`gen_bup_history`.**  `bucketParser.init(cfg)` on `new(bucketParser)` returned `nil`; then for every history of
    well-formed calls `Write` / `ReadFrom` / `Parse` / `Reset` — every one a translated function, `ReadFrom` run against
    the scripted reader — the translated functions never panic and never run out of fuel, the state reached satisfies
    `ParseOKU`, abstracts to the state the model reaches from `NewParser` with the abstracted history, and every returned
    value — `n`, the error, the block — is the model's. -/
theorem gen_bup_history (cfg : Gen.BUPConfig) (s0 : Gen.bucketParser)
    (hinit : bucketParser_init default cfg = Res.ok (s0, Gen.Err.ok))
    (extra : Nat) (grow : Nat → Nat → Nat) (fuel : Nat) (lcp : Slice → Slice → Int) (hlcp : LcpSpec lcp)
    (SO : SOFun) (hSO : ShiftSpec SO)
    (hfuel : s0.bucketDictionary.ParserBuffer.BufConfig.BufferSize.toNat + 3 ≤ fuel)
    (ops : List GOpU) (hwf : ∀ op ∈ ops, op.WF) :
    ∃ p t rs, newParser .BUP (ofBUP cfg) = some p ∧ ofBUPs s0 = p ∧
      runU (rfGo extra) grow fuel lcp SO s0 ops = Res.ok (t, rs) ∧ ParseOKU t ∧
      ofBUPs t = (runOps (p, Ghost.init) (ops.map GOpU.abs)).1 ∧
      ghostRunU Ghost.init ops rs = (runOps (p, Ghost.init) (ops.map GOpU.abs)).2 ∧
      ResultsAgreeU (p, Ghost.init) ops rs :=
  gen_bup_history_rf cfg s0 hinit (rfGo extra) (rfGo_spec extra) grow fuel lcp hlcp SO hSO hfuel ops hwf

/-- … and `ParseOKU` holds in EVERY state the history passes through: after every prefix `ops.take k` the run is
    `Res.ok` with a state satisfying `ParseOKU`, and the whole run continues from that state (`runU_append`). -/
theorem gen_bup_history_states (cfg : Gen.BUPConfig) (s0 : Gen.bucketParser)
    (hinit : bucketParser_init default cfg = Res.ok (s0, Gen.Err.ok))
    (extra : Nat) (grow : Nat → Nat → Nat) (fuel : Nat) (lcp : Slice → Slice → Int) (hlcp : LcpSpec lcp)
    (SO : SOFun) (hSO : ShiftSpec SO)
    (hfuel : s0.bucketDictionary.ParserBuffer.BufConfig.BufferSize.toNat + 3 ≤ fuel)
    (ops : List GOpU) (hwf : ∀ op ∈ ops, op.WF) (k : Nat) :
    ∃ tk rk t rs', runU (rfGo extra) grow fuel lcp SO s0 (ops.take k) = Res.ok (tk, rk) ∧ ParseOKU tk ∧
      runU (rfGo extra) grow fuel lcp SO tk (ops.drop k) = Res.ok (t, rs') ∧
      runU (rfGo extra) grow fuel lcp SO s0 ops = Res.ok (t, rk ++ rs') := by
  obtain ⟨p, hp, h2, hbc, hH⟩ := hist_init cfg s0 hinit
  have hf : p.buf.cfg.bufferSize + 3 ≤ fuel := by
    have : p.buf.cfg = ofCfg s0.bucketDictionary.ParserBuffer.BufConfig := hH.cfg.symm
    rw [this]; exact hfuel
  obtain ⟨tk, rk, k1, k2, -⟩ := runU_sim hbc (rfGo extra) (rfGo_spec extra) grow fuel lcp hlcp SO hSO hf (ops.take k) s0
    Ghost.init hH (fun o ho => hwf o (List.mem_of_mem_take ho))
  obtain ⟨t, rs', j1, -⟩ := runU_sim hbc (rfGo extra) (rfGo_spec extra) grow fuel lcp hlcp SO hSO hf (ops.drop k) tk
    Ghost.init k2 (fun o ho => hwf o (List.mem_of_mem_drop ho))
  refine ⟨tk, rk, t, rs', k1, k2.pok, j1, ?_⟩
  have := runU_append (rfGo extra) grow fuel lcp SO (ops.take k) (ops.drop k) s0
  rw [List.take_append_drop, k1, bind_ok'] at this
  simp only at this
  rw [this, j1]; rfl

/-! ## the property theorems about the translation -/

/-- **C01 about the Go text of BUP.**  `cfg` is any configuration for which the translated `bucketParser.init`, called
    on the zero value, returns `nil`.  Run any history of `Write(p)`, `ReadFrom(r)`, `Parse(&blk, flags)`, `Reset(data)`
    (slices with `len ≤ cap`, `flags ≥ 0`; NO `Shrink()`) on the TRANSLATED functions, with any capacity policy for
    `append`, any `fuel ≥ BufferSize + 3`, any `lcp` with `LcpSpec`.  Then no call panics or runs out of fuel, and the
    reference decoder, applied to the blocks the translated `Parse` returned since the last successful `Reset`, yields
    exactly the first `consumed` bytes of what the translated `Write` / `ReadFrom` / `Reset` accepted since then,
    `consumed` = the sum of the returned `n`. -/
theorem C01_go_text_bup (cfg : Gen.BUPConfig) (s0 : Gen.bucketParser)
    (hinit : bucketParser_init default cfg = Res.ok (s0, Gen.Err.ok))
    (extra : Nat) (grow : Nat → Nat → Nat) (fuel : Nat) (lcp : Slice → Slice → Int) (hlcp : LcpSpec lcp)
    (SO : SOFun) (hSO : ShiftSpec SO)
    (hfuel : s0.bucketDictionary.ParserBuffer.BufConfig.BufferSize.toNat + 3 ≤ fuel)
    (ops : List GOpU) (hwf : ∀ op ∈ ops, op.WF) :
    ∃ t rs, runU (rfGo extra) grow fuel lcp SO s0 ops = Res.ok (t, rs) ∧
      decode [] (ghostRunU Ghost.init ops rs).log =
        some ((ghostRunU Ghost.init ops rs).fed.take (ghostRunU Ghost.init ops rs).consumed) := by
  obtain ⟨p, t, rs, hp, -, h1, -, -, h4, -⟩ := gen_bup_history cfg s0 hinit extra grow fuel lcp hlcp SO hSO hfuel ops hwf
  refine ⟨t, rs, h1, ?_⟩
  rw [h4]
  exact C01_roundtrip .BUP (ofBUP cfg) p hp (histHyp_of_ne .BUP p (by decide)) (ops.map GOpU.abs)

/-- **C02 about the Go text of BUP**: every sequence of every block the translated `Parse` returned has
    `1 ≤ Offset ≤ WindowSize`, `Offset ≤` the stream bytes before its match, `MatchLen ≥ min(3, InputLen)`, `Aux = 0`,
    and the `LitLen`s of a block do not exceed its literals. -/
theorem C02_go_text_bup (cfg : Gen.BUPConfig) (s0 : Gen.bucketParser)
    (hinit : bucketParser_init default cfg = Res.ok (s0, Gen.Err.ok))
    (extra : Nat) (grow : Nat → Nat → Nat) (fuel : Nat) (lcp : Slice → Slice → Int) (hlcp : LcpSpec lcp)
    (SO : SOFun) (hSO : ShiftSpec SO)
    (hfuel : s0.bucketDictionary.ParserBuffer.BufConfig.BufferSize.toNat + 3 ≤ fuel)
    (ops : List GOpU) (hwf : ∀ op ∈ ops, op.WF) :
    ∃ t rs, runU (rfGo extra) grow fuel lcp SO s0 ops = Res.ok (t, rs) ∧
      LogAll (fun pos e => ∀ n fl blk, e = .block n fl blk →
        SeqsAll (SeqWF s0.bucketDictionary.ParserBuffer.BufConfig.WindowSize.toNat
          (Min.min 3 s0.BUPConfig.InputLen.toNat)) pos blk.seqs ∧
        litSum blk.seqs ≤ blk.lits.length) 0 (ghostRunU Ghost.init ops rs).log := by
  obtain ⟨p, t, rs, hp, h0, h1, -, -, h4, -⟩ := gen_bup_history cfg s0 hinit extra grow fuel lcp hlcp SO hSO hfuel ops hwf
  subst h0
  refine ⟨t, rs, h1, ?_⟩
  rw [h4]
  exact C02_wellformed .BUP (ofBUP cfg) _ hp (histHyp_of_ne .BUP _ (by decide)) (ops.map GOpU.abs)

/-- **C03 about the Go text of BUP**: the blocks tile the consumed stream — each has `1 ≤ n ≤ BlockSize`, represents
    exactly `n` bytes (`Block.Len`), expands the stream up to its start to the stream up to its end; the `n` add up
    to `consumed`, which never exceeds what was fed. -/
theorem C03_go_text_bup (cfg : Gen.BUPConfig) (s0 : Gen.bucketParser)
    (hinit : bucketParser_init default cfg = Res.ok (s0, Gen.Err.ok))
    (extra : Nat) (grow : Nat → Nat → Nat) (fuel : Nat) (lcp : Slice → Slice → Int) (hlcp : LcpSpec lcp)
    (SO : SOFun) (hSO : ShiftSpec SO)
    (hfuel : s0.bucketDictionary.ParserBuffer.BufConfig.BufferSize.toNat + 3 ≤ fuel)
    (ops : List GOpU) (hwf : ∀ op ∈ ops, op.WF) :
    ∃ t rs, runU (rfGo extra) grow fuel lcp SO s0 ops = Res.ok (t, rs) ∧
      let g := ghostRunU Ghost.init ops rs
      LogAll (fun pos e => 1 ≤ e.n ∧ e.n ≤ s0.bucketDictionary.ParserBuffer.BufConfig.BlockSize.toNat ∧
        pos + e.n ≤ g.fed.length ∧
        ∀ n fl blk, e = .block n fl blk →
          blk.len = n ∧ expand (g.fed.take pos) blk = some (g.fed.take (pos + n)) ∧
          (fl % 2 = 1 → blk.seqs ≠ [] → blk.lits.length = litSum blk.seqs ∧ n = seqsSpan blk.seqs)) 0 g.log ∧
      logSpan g.log = g.consumed ∧ g.consumed ≤ g.fed.length := by
  obtain ⟨p, t, rs, hp, h0, h1, -, -, h4, -⟩ := gen_bup_history cfg s0 hinit extra grow fuel lcp hlcp SO hSO hfuel ops hwf
  subst h0
  refine ⟨t, rs, h1, ?_⟩
  intro g
  have hg : g = (runOps (ofBUPs s0, Ghost.init) (ops.map GOpU.abs)).2 := h4
  have := C03_contiguous .BUP (ofBUP cfg) _ hp (histHyp_of_ne .BUP _ (by decide)) (ops.map GOpU.abs)
  obtain ⟨a1, a2, a3, a4⟩ := this
  rw [hg]
  exact ⟨a1, a2, a4⟩

end LZ.GenBUPHist

#print axioms LZ.GenBUPHist.stepU_sim
#print axioms LZ.GenBUPHist.runU_sim
#print axioms LZ.GenBUPHist.runU_append
#print axioms LZ.GenBUPHist.gen_bup_history_rf
#print axioms LZ.GenBUPHist.gen_bup_history
#print axioms LZ.GenBUPHist.gen_bup_history_states
#print axioms LZ.GenBUPHist.C01_go_text_bup
#print axioms LZ.GenBUPHist.C02_go_text_bup
#print axioms LZ.GenBUPHist.C03_go_text_bup
