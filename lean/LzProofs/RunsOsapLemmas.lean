/-
  LzProofs.RunsOsapLemmas — path level of the run clause of C19 for OSAP.

  * `litBytes π`                 number of literal bytes of a path (Σ m over the edges with o = 0)
  * `lits_pathToSeqs`            `pathToSeqs` keeps the number of literal bytes (A4 for literals)
  * `osap_block_lits`            literal bytes of the block OSAP emits with even flags
                                 = `litBytes (osapPath s o)` (or `n` when there is no edge at all)
  * `RunSteps`, `run_lz`         in a run block every path of literals and offset-1 matches with
                                 lengths in `[minM, maxM]` that starts behind block position 0 and
                                 stays inside the block is an LZ77 parse (`LzPathOK`)
  * `squeeze`, `squeeze_spec`    drop `k` literals from a parse and set all match offsets to 1:
                                 `k` bytes shorter, at least `9 k` cheaper
  * `xzCost_off1_le`             `XZCost(m, 1) ≤ 14` for every `m`
  * `run_improve`                **exchange lemma**: every LZ77 parse of a run block with more than
                                 `minM` literal bytes (`2 ≤ minM ≤ maxM`, `1 ≤ ws`) has a strictly
                                 cheaper LZ77 parse
  * `run_optimal_lits`           a minimum-cost parse of a run block has at most `minM` literals
-/
import LzProofs.OsapProps
import LzProofs.RunsBlock
namespace LZ.Sap

/-! ## literal bytes of a path -/

/-- number of literal bytes of a path: the sum of `m` over the edges with offset 0 -/
def litBytes : List Edge → Nat
  | [] => 0
  | (m, o) :: r => (if o = 0 then m else 0) + litBytes r

@[simp] theorem litBytes_nil : litBytes [] = 0 := rfl
theorem litBytes_cons (m o : Nat) (r : List Edge) :
    litBytes ((m, o) :: r) = (if o = 0 then m else 0) + litBytes r := rfl

theorem litBytes_replicate (n : Nat) : litBytes (List.replicate n ((1, 0) : Edge)) = n := by
  induction n with
  | zero => rfl
  | succ n ih => rw [List.replicate_succ, litBytes_cons, ih]; simp; omega

theorem pathLen_replicate (n : Nat) : pathLen (List.replicate n ((1, 0) : Edge)) = n := by
  induction n with
  | zero => rfl
  | succ n ih => rw [List.replicate_succ, pathLen_cons, ih]; simp; omega

theorem pathCost_replicate (n : Nat) : pathCost (List.replicate n ((1, 0) : Edge)) = 9 * n := by
  induction n with
  | zero => rfl
  | succ n ih => rw [List.replicate_succ, pathCost_cons, ih]; simp only [xzCost_one_zero]; omega

/-- `pathToSeqs` keeps the number of literal bytes: collected literals and the literal bytes still
    pending together are the literals so far, the pending ones and the literal bytes of the path -/
theorem lits_pathToSeqs (p : List Byte) : ∀ (π : List Edge) (i li : Nat) (seqs : List Seq) (lits : List Byte),
    li ≤ i → i + pathLen π ≤ p.length →
    (pathToSeqs p π i li seqs lits).2.1.length
        + (i + pathLen π - (pathToSeqs p π i li seqs lits).2.2.2)
      = lits.length + (i - li) + litBytes π := by
  intro π
  induction π with
  | nil =>
    intro i li seqs lits h1 h2
    simp [pathToSeqs]
  | cons e r ih =>
    intro i li seqs lits h1 h2
    obtain ⟨m, o⟩ := e
    simp only [pathLen_cons] at h2
    by_cases ho : o = 0
    · subst ho
      have hstep : pathToSeqs p ((m, 0) :: r) i li seqs lits = pathToSeqs p r (i + m) li seqs lits := by
        simp [pathToSeqs]
      rw [hstep]
      have c := ih (i + m) li seqs lits (by omega) (by omega)
      simp only [pathLen_cons, litBytes_cons, if_true]
      have e1 : i + (m + pathLen r) = i + m + pathLen r := by omega
      rw [e1, c]; omega
    · have hstep : pathToSeqs p ((m, o) :: r) i li seqs lits =
          pathToSeqs p r (i + m) (i + m)
            (seqs ++ [{ litLen := ((p.drop li).take (i - li)).length, matchLen := m, offset := o }])
            (lits ++ (p.drop li).take (i - li)) := by
        simp [pathToSeqs, ho]
      rw [hstep]
      have c := ih (i + m) (i + m)
        (seqs ++ [{ litLen := ((p.drop li).take (i - li)).length, matchLen := m, offset := o }])
        (lits ++ (p.drop li).take (i - li)) (Nat.le_refl _) (by omega)
      simp only [pathLen_cons, litBytes_cons, if_neg ho]
      have e1 : i + (m + pathLen r) = i + m + pathLen r := by omega
      have hq : ((p.drop li).take (i - li)).length = i - li := by
        simp [List.length_take, List.length_drop]; omega
      rw [e1, c, List.length_append, hq]
      omega

/-- the literal bytes of the block OSAP emits with even flags: those of the emitted path (or all
    `n` bytes when there is no edge at all) -/
theorem osap_block_lits (s : Parser) (o : OsapD) (hd : s.dict = .osap o) (flags : Nat)
    (hn : s.blockN ≠ 0) (hf : flags % 2 = 0) :
    (s.parse flags).2.2.2.lits.length =
      if (osapEdges s o).nEdges = 0 then s.blockN else litBytes (osapPath s o) := by
  rw [parse_osap_block s o hd flags hn hf]
  have hle := blockN_le s hn
  split
  · simp [List.length_take, List.length_drop]; omega
  · have hlen : pathLen (osapPath s o) = s.blockN := shortestPath_len _ _ _ _
    have hp : (s.buf.data.take (s.buf.w + s.blockN)).length = s.buf.w + s.blockN := by
      simp [List.length_take]; omega
    have c := lits_pathToSeqs (s.buf.data.take (s.buf.w + s.blockN)) (osapPath s o)
      s.buf.w s.buf.w [] [] (Nat.le_refl _) (by rw [hp, hlen]; exact Nat.le_refl _)
    simp only [List.length_append, List.length_drop, hp]
    rw [hlen] at c
    simp at c
    omega

/-! ## LZ77 parses inside a run -/

section Run
variable (p : List Byte) (w ws minM maxM n : Nat)

theorem LzPathOK.len : ∀ {π : List Edge} {a c : Nat}, LzPathOK p w ws minM maxM n a c π → a + pathLen π = c
  | [], a, c, h => by
    have : a = c := h
    simp [this]
  | (m, o) :: r, a, c, h => by
    have := LzPathOK.len h.2
    simp only [pathLen_cons]; omega

/-- all `n` block bytes as literals: an LZ77 parse of any block -/
theorem lz_all_literals : ∀ (k a : Nat), a + k = n →
    LzPathOK p w ws minM maxM n a n (List.replicate k ((1, 0) : Edge))
  | 0, a, h => by
    show a = n
    omega
  | k+1, a, h => by
    rw [List.replicate_succ]
    exact ⟨Or.inl ⟨rfl, rfl, by omega⟩, lz_all_literals k (a + 1) (by omega)⟩

/-- paths made of literals `(1, 0)` and offset-1 matches with admissible lengths -/
def RunSteps : List Edge → Prop
  | [] => True
  | (m, o) :: r => ((m = 1 ∧ o = 0) ∨ (o = 1 ∧ 1 ≤ m ∧ minM ≤ m ∧ m ≤ maxM)) ∧ RunSteps r

variable {p w n}

/-- inside a run every literal / offset-1 path behind the first block byte is an LZ77 parse -/
theorem run_lz {b : Byte} (hlen : p.length = w + n) (hrun : ∀ t, t < n → p[w + t]? = some b)
    (hws : 1 ≤ ws) :
    ∀ (π : List Edge) (a c : Nat), 1 ≤ a → a + pathLen π = c → c ≤ n → RunSteps minM maxM π →
      LzPathOK p w ws minM maxM n a c π := by
  intro π
  induction π with
  | nil =>
    intro a c _ h _ _
    show a = c
    simpa using h
  | cons e r ih =>
    intro a c ha h hc hs
    obtain ⟨m, o⟩ := e
    obtain ⟨hs1, hs2⟩ := hs
    simp only [pathLen_cons] at h
    refine ⟨?_, ih (a + m) c (by omega) (by omega) hc hs2⟩
    rcases hs1 with ⟨rfl, rfl⟩ | ⟨rfl, hm1, hmin, hmax⟩
    · exact Or.inl ⟨rfl, rfl, by omega⟩
    · refine Or.inr ⟨hm1, hmin, hmax, Nat.le_refl _, hws, by omega, Nat.one_pos, by omega, by omega, ?_⟩
      intro t ht
      have e1 := hrun (a + t) (by omega)
      have e2 := hrun (a + t - 1) (by omega)
      have a1 : w + (a + t) = w + a + t := by omega
      have a2 : w + (a + t - 1) = w + a + t - 1 := by omega
      rw [a1] at e1
      rw [a2] at e2
      rw [e1, e2]

variable (p w n)

/-- drop the first `k` literals of a path and set the offset of every match to 1 -/
def squeeze : Nat → List Edge → List Edge
  | _, [] => []
  | k, (m, o) :: r =>
    if o = 0 then
      (match k with
       | 0 => (m, 0) :: squeeze 0 r
       | k+1 => squeeze k r)
    else (m, 1) :: squeeze k r

theorem squeeze_lit_zero (m : Nat) (r : List Edge) :
    squeeze 0 ((m, 0) :: r) = (m, 0) :: squeeze 0 r := by simp [squeeze]
theorem squeeze_lit_succ (k m : Nat) (r : List Edge) :
    squeeze (k + 1) ((m, 0) :: r) = squeeze k r := by simp [squeeze]
theorem squeeze_match (k m o : Nat) (r : List Edge) (ho : o ≠ 0) :
    squeeze k ((m, o) :: r) = (m, 1) :: squeeze k r := by simp [squeeze, ho]

/-- `squeeze k` of an LZ77 parse with at least `k` literals: `k` bytes shorter, at least `9 k`
    cheaper, made of literals and offset-1 matches -/
theorem squeeze_spec : ∀ (π : List Edge) (k a c : Nat), LzPathOK p w ws minM maxM n a c π → k ≤ litBytes π →
    pathLen (squeeze k π) + k = pathLen π ∧ pathCost (squeeze k π) + 9 * k ≤ pathCost π ∧
      RunSteps minM maxM (squeeze k π) := by
  intro π
  induction π with
  | nil =>
    intro k a c _ hk
    simp only [litBytes_nil] at hk
    have : k = 0 := by omega
    subst this
    exact ⟨rfl, Nat.le_refl _, trivial⟩
  | cons e r ih =>
    intro k a c h hk
    obtain ⟨m, o⟩ := e
    obtain ⟨h1, h2⟩ := h
    rcases h1 with ⟨rfl, rfl, _⟩ | ⟨hm1, hmin, hmax, ho1, _, _, _⟩
    · -- a literal
      simp only [litBytes_cons, if_true] at hk
      cases k with
      | zero =>
        obtain ⟨i1, i2, i3⟩ := ih 0 _ _ h2 (Nat.zero_le _)
        rw [squeeze_lit_zero]
        simp only [pathLen_cons, pathCost_cons]
        exact ⟨by omega, by omega, Or.inl ⟨rfl, rfl⟩, i3⟩
      | succ k =>
        obtain ⟨i1, i2, i3⟩ := ih k _ _ h2 (by omega)
        rw [squeeze_lit_succ]
        simp only [pathLen_cons, pathCost_cons, xzCost_one_zero]
        exact ⟨by omega, by omega, i3⟩
    · -- a match
      have ho : o ≠ 0 := by omega
      simp only [litBytes_cons, if_neg ho, Nat.zero_add] at hk
      obtain ⟨i1, i2, i3⟩ := ih k _ _ h2 hk
      rw [squeeze_match k m o r ho]
      have hc := xzCost_mono_offset m (Nat.le_refl 1) ho1
      simp only [pathLen_cons, pathCost_cons]
      exact ⟨by omega, by omega, Or.inr ⟨rfl, hm1, hmin, hmax⟩, i3⟩

end Run

/-- an offset-1 match costs at most 14 bits, whatever its length -/
theorem xzCost_off1_le (m : Nat) : xzCost m 1 ≤ 14 := by
  simp only [xzCost]
  rw [if_neg (by omega)]
  simp only [Nat.sub_self]
  rw [if_pos (by omega)]
  split
  · omega
  · split <;> omega

/-- **Exchange lemma.**  In a block that lies inside a run of one byte (`n ≥ 1` bytes `b` at
    `p[w .. w+n)`), with `2 ≤ minM ≤ maxM` and `1 ≤ ws`: every LZ77 parse with more than `minM`
    literal bytes has a strictly cheaper LZ77 parse (keep the first step, emit one offset-1 match
    of length `minM` in place of `minM` of the later literals, give every later match offset 1). -/
theorem run_improve {p : List Byte} {w n : Nat} {b : Byte} (ws minM maxM : Nat)
    (hlen : p.length = w + n) (hrun : ∀ t, t < n → p[w + t]? = some b)
    (hws : 1 ≤ ws) (hmm : 2 ≤ minM) (hmx : minM ≤ maxM)
    (π : List Edge) (hπ : LzParse p w ws minM maxM n π) (hl : minM < litBytes π) :
    ∃ π', LzParse p w ws minM maxM n π' ∧ pathCost π' < pathCost π := by
  cases π with
  | nil => simp at hl
  | cons e rest =>
    obtain ⟨m0, o0⟩ := e
    obtain ⟨h1, h2⟩ := hπ
    have hm0 : 1 ≤ m0 := by
      rcases h1 with ⟨rfl, _, _⟩ | ⟨hm1, _⟩
      · exact Nat.le_refl _
      · exact hm1
    have hl0 : (if o0 = 0 then m0 else 0) ≤ 1 := by
      rcases h1 with ⟨rfl, rfl, _⟩ | ⟨_, _, _, ho1, _⟩
      · simp
      · rw [if_neg (by omega)]; omega
    rw [litBytes_cons] at hl
    have hk : minM ≤ litBytes rest := by omega
    obtain ⟨s1, s2, s3⟩ := squeeze_spec p w ws minM maxM n rest minM _ _ h2 hk
    have hL := LzPathOK.len p w ws minM maxM n h2
    simp only [Nat.zero_add] at h2 hL
    refine ⟨(m0, o0) :: (minM, 1) :: squeeze minM rest, ⟨h1, ?_⟩, ?_⟩
    · simp only [Nat.zero_add]
      apply run_lz ws minM maxM hlen hrun hws _ m0 n hm0 _ (Nat.le_refl _)
      · exact ⟨Or.inr ⟨rfl, by omega, Nat.le_refl _, hmx⟩, s3⟩
      · simp only [pathLen_cons]; omega
    · have hc := xzCost_off1_le minM
      simp only [pathCost_cons]
      omega

/-- a minimum-cost LZ77 parse of a run block has at most `minM` literal bytes -/
theorem run_optimal_lits {p : List Byte} {w n : Nat} {b : Byte} (ws minM maxM : Nat)
    (hlen : p.length = w + n) (hrun : ∀ t, t < n → p[w + t]? = some b)
    (hws : 1 ≤ ws) (hmm : 2 ≤ minM) (hmx : minM ≤ maxM)
    (π : List Edge) (hπ : LzParse p w ws minM maxM n π)
    (hopt : ∀ π', LzParse p w ws minM maxM n π' → pathCost π ≤ pathCost π') :
    litBytes π ≤ minM := by
  apply Decidable.byContradiction
  intro hgt
  obtain ⟨π', a, c⟩ := run_improve ws minM maxM hlen hrun hws hmm hmx π hπ (by omega)
  have := hopt π' a
  omega

end LZ.Sap
