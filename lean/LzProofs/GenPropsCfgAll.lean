/-
  LzProofs.GenPropsCfgAll — G19 gen_setDefaults / gen_verify: all seven kinds at once, on the
  union record `Cfg` (needs every GenPropsCfg<K>).
-/
import LzProofs.GenPropsCfgHP
import LzProofs.GenPropsCfgBHP
import LzProofs.GenPropsCfgDHP
import LzProofs.GenPropsCfgBDHP
import LzProofs.GenPropsCfgBUP
import LzProofs.GenPropsCfgGSAP
import LzProofs.GenPropsCfgOSAP

namespace LZ.GenProps
open LZ

/-! ### G19 all kinds at once -/

/-- run the generated `SetDefaults` of kind `k` on the union record -/
def genSetDefaults : Kind → Cfg → Cfg
  | .HP, c => ofHP (Gen.HPConfig_SetDefaults (toHP c))
  | .BHP, c => ofBHP (Gen.BHPConfig_SetDefaults (toBHP c))
  | .DHP, c => ofDHP (Gen.DHPConfig_SetDefaults (toDHP c))
  | .BDHP, c => ofBDHP (Gen.BDHPConfig_SetDefaults (toBDHP c))
  | .BUP, c => ofBUP (Gen.BUPConfig_SetDefaults (toBUP c))
  | .GSAP, c => ofGSAP (Gen.GSAPConfig_SetDefaults (toGSAP c))
  | .OSAP, c => ofOSAP (Gen.OSAPConfig_SetDefaults (toOSAP c))

/-- run the generated `Verify` of kind `k` on the union record -/
def genVerify : Kind → Cfg → Gen.Err
  | .HP, c => Gen.HPConfig_Verify (toHP c)
  | .BHP, c => Gen.BHPConfig_Verify (toBHP c)
  | .DHP, c => Gen.DHPConfig_Verify (toDHP c)
  | .BDHP, c => Gen.BDHPConfig_Verify (toBDHP c)
  | .BUP, c => Gen.BUPConfig_Verify (toBUP c)
  | .GSAP, c => Gen.GSAPConfig_Verify (toGSAP c)
  | .OSAP, c => Gen.OSAPConfig_Verify (toOSAP c)

theorem gen_setDefaults (k : Kind) (c : Cfg) :
    genSetDefaults k c = setDefaults k (c.restrict k) := by
  cases k
  · simp only [genSetDefaults, gen_setDefaults_HP, ofHP_toHP]
  · simp only [genSetDefaults, gen_setDefaults_BHP, ofBHP_toBHP]
  · simp only [genSetDefaults, gen_setDefaults_DHP, ofDHP_toDHP]
  · simp only [genSetDefaults, gen_setDefaults_BDHP, ofBDHP_toBDHP]
  · simp only [genSetDefaults, gen_setDefaults_BUP, ofBUP_toBUP]
  · simp only [genSetDefaults, gen_setDefaults_GSAP, ofGSAP_toGSAP]
  · simp only [genSetDefaults, gen_setDefaults_OSAP, ofOSAP_toOSAP]

theorem gen_verify (k : Kind) (c : Cfg) :
    genVerify k c = .ok ↔ verify k (c.restrict k) = true := by
  cases k
  · simp only [genVerify, gen_verify_HP, ofHP_toHP]
  · simp only [genVerify, gen_verify_BHP, ofBHP_toBHP]
  · simp only [genVerify, gen_verify_DHP, ofDHP_toDHP]
  · simp only [genVerify, gen_verify_BDHP, ofBDHP_toBDHP]
  · simp only [genVerify, gen_verify_BUP, ofBUP_toBUP]
  · simp only [genVerify, gen_verify_GSAP, ofGSAP_toGSAP]
  · simp only [genVerify, gen_verify_OSAP, ofOSAP_toOSAP]

end LZ.GenProps
