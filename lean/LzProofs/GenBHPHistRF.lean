/-
  LzProofs.GenBHPHistRF — port of LzProofs/GenHPHistRF.lean + GenHPHistRF2.lean to the backward hash parser BHP:
  histories of Write / ReadFrom / Parse / Shrink / Reset on the translated functions of bhp.go, `ReadFrom` promoted from
  the embedded `ParserBuffer`.
    * relative to `RFSpec RF` (opaque `ReadFrom` that behaves as the model's `PBuf.readFrom`):
        hist_readFrom, stepGR_sim, runGR_sim, gen_bhp_history_rf, C01_go_text_bhp_rf
    * with `RF := rfGo extra` (the translated `(*ParserBuffer).ReadFrom` against the scripted reader; `rfGo_spec`),
      no hypothesis about `ReadFrom` left:
        gen_bhp_history_rf_go, C01_go_text_bhp_rf_go, C02_go_text_bhp_rf_go, C03_go_text_bhp_rf_go
  Everything that does not mention the parser state (`RFun`, `RFSpec`, `genErr`, `rfGo`, `rfGo_spec`, `GOpR`, `GResR`,
  `GOpR.WF`, `GOpR.abs`, `resAgreeR`, `ResultsAgreeR`, `ghostStepR`, `ghostRunR`, `mreadFrom_eq`, `errOfCode_ne_panic`)
  is that of LZ.GenHPHist.  `lcs` stays the opaque parameter of the translation of bhp.go under `LcsSpec`; fuel
  `2·BufferSize + 3` as in GenBHPHistRun.  No sorry, no axioms of its own.
-/
import LzProofs.GenHPHistRF2
import LzProofs.GenBHPHistRun

set_option linter.unusedSimpArgs false
set_option linter.unusedVariables false

namespace LZ.GenBHPHist
open LZ LZ.Gen LZ.GenBuf LZ.GenHash LZ.GenHPParse LZ.GenBHPParse LZ.GenProps
open LZ.GenHPHist (BCOK GOp GRes GOp.WF GOp.abs resAgree ResultsAgree ghostStep ghostRun
  RFun RFSpec genErr rfGo rfGo_spec GOpR GResR GOpR.WF GOpR.abs resAgreeR ResultsAgreeR ghostStepR ghostRunR
  mreadFrom_eq errOfCode_ne_panic)

/-- `s.ReadFrom(r)` for `s *backwardHashParser`: promoted from the embedded `ParserBuffer` -/
def bhp_ReadFrom (RF : RFun) (s : Gen.backwardHashParser) (r : Reader) :
    Res (Gen.backwardHashParser × Reader × Int × Gen.Err) :=
  Res.bind (RF s.hashDictionary.ParserBuffer r) fun x =>
  Res.ok ({ s with hashDictionary := { s.hashDictionary with ParserBuffer := x.1 } }, x.2.1, x.2.2.1, x.2.2.2)

theorem hist_readFrom {bc : BufCfg} (hbc : BCOK bc) (RF : RFun) (hRF : RFSpec RF) (t : Gen.backwardHashParser)
    (h : HistOK bc t) (r : Reader) :
    ∃ t', bhp_ReadFrom RF t r = Res.ok (t', ((ofBHPs t).readFrom r).2.1, (((ofBHPs t).readFrom r).2.2.1 : Int),
        genErr ((ofBHPs t).readFrom r).2.2.2) ∧ HistOK bc t' ∧ ofBHPs t' = ((ofBHPs t).readFrom r).1 := by
  rw [mreadFrom_eq]
  simp only []
  show ∃ t', bhp_ReadFrom RF t r = Res.ok (t', (PBuf.readFrom (ofPB t.hashDictionary.ParserBuffer) r).2.1,
      ((PBuf.readFrom (ofPB t.hashDictionary.ParserBuffer) r).2.2.1 : Int),
      genErr (PBuf.readFrom (ofPB t.hashDictionary.ParserBuffer) r).2.2.2) ∧ HistOK bc t' ∧
      ofBHPs t' = { ofBHPs t with buf := (PBuf.readFrom (ofPB t.hashDictionary.ParserBuffer) r).1 }
  have hml : (ofPB t.hashDictionary.ParserBuffer).data.length ≤ (ofPB t.hashDictionary.ParserBuffer).cfg.bufferSize :=
    h.mlen
  have hmw : (ofPB t.hashDictionary.ParserBuffer).w ≤ (ofPB t.hashDictionary.ParserBuffer).data.length := h.hw
  obtain ⟨c, pre, hb, -, hn1, hn2, hm, -, -, hcase⟩ :=
    PBuf.readFrom_master hml (r := r) (b' := (PBuf.readFrom (ofPB t.hashDictionary.ParserBuffer) r).1)
      (r' := (PBuf.readFrom (ofPB t.hashDictionary.ParserBuffer) r).2.1)
      (n := (PBuf.readFrom (ofPB t.hashDictionary.ParserBuffer) r).2.2.1)
      (e := (PBuf.readFrom (ofPB t.hashDictionary.ParserBuffer) r).2.2.2) rfl
  have hnp : (PBuf.readFrom (ofPB t.hashDictionary.ParserBuffer) r).2.2.2 ≠ .panic := by
    rcases hcase with ⟨h1, -⟩ | ⟨h1, -⟩ | ⟨mx, ec, -, -, h1⟩
    · rw [h1]; intro hc; cases hc
    · rw [h1]; intro hc; cases hc
    · rw [h1]; exact errOfCode_ne_panic ec
  obtain ⟨b', hrf, hof, hwf⟩ := hRF t.hashDictionary.ParserBuffer r h.pok.wf.1 h.cap hml hnp
  unfold bhp_ReadFrom
  rw [hrf]
  refine ⟨_, rfl, ?_, ?_⟩
  · have hcfgE : (ofPB t.hashDictionary.ParserBuffer).cfg.bufferSize = bc.bufferSize := by rw [← h.cfg]; rfl
    refine histOK_update hbc h { t.hashDictionary with ParserBuffer := b' } ⟨hwf, h.pok.wf.2⟩ rfl rfl ?_ ?_ ?_ ?_
    · show (ofPB b').cfg = bc
      rw [hof, hb]; exact h.cfg
    · show (ofPB b').w ≤ (ofPB b').data.length
      rw [hof, hb]; simp only [List.length_append]; omega
    · show (ofPB b').data.length ≤ bc.bufferSize
      rw [hof, hb]; simp only [List.length_append, List.length_take]; omega
    · show (ofPB b').CapOK
      rw [hof, hb]
      have hc := h.cap
      unfold PBuf.CapOK at hc ⊢
      rcases hm hc with ⟨h1, h2⟩ | h2
      · left; simp only; rw [h1, h2]; rfl
      · right; simp only [List.length_append, List.length_take]; omega
  · show ofDict .BHP (ofBHP t.BHPConfig) { t.hashDictionary with ParserBuffer := b' } = _
    simp only [ofDict, hof, ofBHPs]

/-! ## histories with ReadFrom -/

def stepGR (RF : RFun) (grow : Nat → Nat → Nat) (fuel : Nat) (lcs : Slice → Slice → Int)
    (s : Gen.backwardHashParser) : GOpR → Res (Gen.backwardHashParser × GResR)
  | .base op => Res.bind (stepG grow fuel lcs s op) fun x => Res.ok (x.1, .base x.2)
  | .readFrom r => Res.bind (bhp_ReadFrom RF s r) fun x => Res.ok (x.1, .readFrom x.2.2.1 x.2.2.2)

def runGR (RF : RFun) (grow : Nat → Nat → Nat) (fuel : Nat) (lcs : Slice → Slice → Int) :
    Gen.backwardHashParser → List GOpR → Res (Gen.backwardHashParser × List GResR)
  | s, [] => Res.ok (s, [])
  | s, op :: ops =>
    Res.bind (stepGR RF grow fuel lcs s op) fun x =>
    Res.bind (runGR RF grow fuel lcs x.1 ops) fun q => Res.ok (q.1, x.2 :: q.2)

theorem stepGR_sim {bc : BufCfg} (hbc : BCOK bc) (RF : RFun) (hRF : RFSpec RF) (grow : Nat → Nat → Nat) (fuel : Nat)
    (lcs : Slice → Slice → Int) (hlcs : LcsSpec lcs)
    (hfuel : 2 * bc.bufferSize + 3 ≤ fuel) (t : Gen.backwardHashParser) (g : Ghost) (h : HistOK bc t) (op : GOpR)
    (hop : op.WF) :
    ∃ t' r, stepGR RF grow fuel lcs t op = Res.ok (t', r) ∧ HistOK bc t' ∧
      ofBHPs t' = (step (ofBHPs t, g) op.abs).1 ∧ ghostStepR g op r = (step (ofBHPs t, g) op.abs).2 ∧
      resAgreeR (ofBHPs t) op r := by
  cases op with
  | base op =>
    obtain ⟨t', r, h1, h2, h3, h4, h5⟩ := stepG_sim hbc grow fuel lcs hlcs hfuel t g h op hop
    refine ⟨t', .base r, ?_, h2, h3, h4, h5⟩
    simp only [stepGR, h1]; rfl
  | readFrom rd =>
    obtain ⟨t', h1, h2, h3⟩ := hist_readFrom hbc RF hRF t h rd
    refine ⟨t', .readFrom _ _, ?_, h2, h3, ?_, rfl, rfl⟩
    · simp only [stepGR, h1]; rfl
    · simp only [ghostStepR, step, GOpR.abs, Int.toNat_natCast]

theorem runGR_sim {bc : BufCfg} (hbc : BCOK bc) (RF : RFun) (hRF : RFSpec RF) (grow : Nat → Nat → Nat) (fuel : Nat)
    (lcs : Slice → Slice → Int) (hlcs : LcsSpec lcs)
    (hfuel : 2 * bc.bufferSize + 3 ≤ fuel) :
    ∀ (ops : List GOpR) (t : Gen.backwardHashParser) (g : Ghost), HistOK bc t → (∀ op ∈ ops, op.WF) →
      ∃ t' rs, runGR RF grow fuel lcs t ops = Res.ok (t', rs) ∧ HistOK bc t' ∧
        ofBHPs t' = (runOps (ofBHPs t, g) (ops.map GOpR.abs)).1 ∧
        ghostRunR g ops rs = (runOps (ofBHPs t, g) (ops.map GOpR.abs)).2 ∧
        ResultsAgreeR (ofBHPs t, g) ops rs := by
  intro ops
  induction ops with
  | nil => intro t g h _; exact ⟨t, [], rfl, h, rfl, rfl, trivial⟩
  | cons op ops ih =>
    intro t g h hwf
    obtain ⟨t1, r, h1, h2, h3, h4, h5⟩ :=
      stepGR_sim hbc RF hRF grow fuel lcs hlcs hfuel t g h op (hwf op (List.mem_cons_self ..))
    obtain ⟨t', rs, k1, k2, k3, k4, k5⟩ := ih t1 (ghostStepR g op r) h2 (fun o ho => hwf o (List.mem_cons_of_mem _ ho))
    have hsg : step (ofBHPs t, g) op.abs = (ofBHPs t1, ghostStepR g op r) := by
      rw [h3, h4]
    refine ⟨t', r :: rs, ?_, k2, ?_, ?_, h5, ?_⟩
    · show Res.bind (stepGR RF grow fuel lcs t op) _ = _
      rw [h1]
      show Res.bind (runGR RF grow fuel lcs t1 ops) _ = _
      rw [k1]; rfl
    · show _ = (runOps (step (ofBHPs t, g) op.abs) (ops.map GOpR.abs)).1
      rw [hsg]; exact k3
    · show ghostRunR (ghostStepR g op r) ops rs = (runOps (step (ofBHPs t, g) op.abs) (ops.map GOpR.abs)).2
      rw [hsg]; exact k4
    · show ResultsAgreeR (step (ofBHPs t, g) op.abs) ops rs
      rw [hsg]; exact k5

/-- the simulation from `backwardHashParser.init`, for histories with `ReadFrom` (relative to `RFSpec`) -/
theorem gen_bhp_history_rf (cfg : Gen.BHPConfig) (s0 : Gen.backwardHashParser)
    (hinit : backwardHashParser_init default cfg = Res.ok (s0, Gen.Err.ok))
    (RF : RFun) (hRF : RFSpec RF) (grow : Nat → Nat → Nat) (fuel : Nat) (lcs : Slice → Slice → Int) (hlcs : LcsSpec lcs)
    (hfuel : 2 * s0.hashDictionary.ParserBuffer.BufConfig.BufferSize.toNat + 3 ≤ fuel)
    (ops : List GOpR) (hwf : ∀ op ∈ ops, op.WF) :
    ∃ p t rs, newParser .BHP (ofBHP cfg) = some p ∧ ofBHPs s0 = p ∧
      runGR RF grow fuel lcs s0 ops = Res.ok (t, rs) ∧ ParseOKB t ∧
      ofBHPs t = (runOps (p, Ghost.init) (ops.map GOpR.abs)).1 ∧
      ghostRunR Ghost.init ops rs = (runOps (p, Ghost.init) (ops.map GOpR.abs)).2 ∧
      ResultsAgreeR (p, Ghost.init) ops rs := by
  obtain ⟨p, hp, h2, hbc, hH⟩ := hist_init cfg s0 hinit
  have hf : 2 * p.buf.cfg.bufferSize + 3 ≤ fuel := by
    have : p.buf.cfg = ofCfg s0.hashDictionary.ParserBuffer.BufConfig := hH.cfg.symm
    rw [this]; exact hfuel
  obtain ⟨t, rs, k1, k2, k3, k4, k5⟩ := runGR_sim hbc RF hRF grow fuel lcs hlcs hf ops s0 Ghost.init hH hwf
  rw [h2] at k3 k4 k5
  exact ⟨p, t, rs, hp, h2, k1, k2.pok, k3, k4, k5⟩

/-- **C01 about the Go text of BHP, histories with `ReadFrom`** — relative to `RFSpec RF`. -/
theorem C01_go_text_bhp_rf (cfg : Gen.BHPConfig) (s0 : Gen.backwardHashParser)
    (hinit : backwardHashParser_init default cfg = Res.ok (s0, Gen.Err.ok))
    (RF : RFun) (hRF : RFSpec RF) (grow : Nat → Nat → Nat) (fuel : Nat) (lcs : Slice → Slice → Int) (hlcs : LcsSpec lcs)
    (hfuel : 2 * s0.hashDictionary.ParserBuffer.BufConfig.BufferSize.toNat + 3 ≤ fuel)
    (ops : List GOpR) (hwf : ∀ op ∈ ops, op.WF) :
    ∃ t rs, runGR RF grow fuel lcs s0 ops = Res.ok (t, rs) ∧
      decode [] (ghostRunR Ghost.init ops rs).log =
        some ((ghostRunR Ghost.init ops rs).fed.take (ghostRunR Ghost.init ops rs).consumed) := by
  obtain ⟨p, t, rs, hp, -, h1, -, -, h4, -⟩ := gen_bhp_history_rf cfg s0 hinit RF hRF grow fuel lcs hlcs hfuel ops hwf
  refine ⟨t, rs, h1, ?_⟩
  rw [h4]
  exact C01_roundtrip .BHP (ofBHP cfg) p hp (histHyp_of_ne .BHP p (by decide)) (ops.map GOpR.abs)

/-! ## `RFSpec` discharged: `ReadFrom` is the translated function run against the scripted reader -/

/-- the simulation from `backwardHashParser.init` for histories with `ReadFrom`, every operation a translated function -/
theorem gen_bhp_history_rf_go (cfg : Gen.BHPConfig) (s0 : Gen.backwardHashParser)
    (hinit : backwardHashParser_init default cfg = Res.ok (s0, Gen.Err.ok))
    (extra : Nat) (grow : Nat → Nat → Nat) (fuel : Nat) (lcs : Slice → Slice → Int) (hlcs : LcsSpec lcs)
    (hfuel : 2 * s0.hashDictionary.ParserBuffer.BufConfig.BufferSize.toNat + 3 ≤ fuel)
    (ops : List GOpR) (hwf : ∀ op ∈ ops, op.WF) :
    ∃ p t rs, newParser .BHP (ofBHP cfg) = some p ∧ ofBHPs s0 = p ∧
      runGR (rfGo extra) grow fuel lcs s0 ops = Res.ok (t, rs) ∧ ParseOKB t ∧
      ofBHPs t = (runOps (p, Ghost.init) (ops.map GOpR.abs)).1 ∧
      ghostRunR Ghost.init ops rs = (runOps (p, Ghost.init) (ops.map GOpR.abs)).2 ∧
      ResultsAgreeR (p, Ghost.init) ops rs :=
  gen_bhp_history_rf cfg s0 hinit (rfGo extra) (rfGo_spec extra) grow fuel lcs hlcs hfuel ops hwf

/-- **C01 about the Go text of BHP, histories of Write / ReadFrom / Parse / Shrink / Reset** — no hypothesis about
    `ReadFrom` is left: it is the translated function run against the scripted reader. -/
theorem C01_go_text_bhp_rf_go (cfg : Gen.BHPConfig) (s0 : Gen.backwardHashParser)
    (hinit : backwardHashParser_init default cfg = Res.ok (s0, Gen.Err.ok))
    (extra : Nat) (grow : Nat → Nat → Nat) (fuel : Nat) (lcs : Slice → Slice → Int) (hlcs : LcsSpec lcs)
    (hfuel : 2 * s0.hashDictionary.ParserBuffer.BufConfig.BufferSize.toNat + 3 ≤ fuel)
    (ops : List GOpR) (hwf : ∀ op ∈ ops, op.WF) :
    ∃ t rs, runGR (rfGo extra) grow fuel lcs s0 ops = Res.ok (t, rs) ∧
      decode [] (ghostRunR Ghost.init ops rs).log =
        some ((ghostRunR Ghost.init ops rs).fed.take (ghostRunR Ghost.init ops rs).consumed) :=
  C01_go_text_bhp_rf cfg s0 hinit (rfGo extra) (rfGo_spec extra) grow fuel lcs hlcs hfuel ops hwf

/-- **C02 about the Go text of BHP, histories with `ReadFrom`** (as `C02_go_text_bhp`) -/
theorem C02_go_text_bhp_rf_go (cfg : Gen.BHPConfig) (s0 : Gen.backwardHashParser)
    (hinit : backwardHashParser_init default cfg = Res.ok (s0, Gen.Err.ok))
    (extra : Nat) (grow : Nat → Nat → Nat) (fuel : Nat) (lcs : Slice → Slice → Int) (hlcs : LcsSpec lcs)
    (hfuel : 2 * s0.hashDictionary.ParserBuffer.BufConfig.BufferSize.toNat + 3 ≤ fuel)
    (ops : List GOpR) (hwf : ∀ op ∈ ops, op.WF) :
    ∃ t rs, runGR (rfGo extra) grow fuel lcs s0 ops = Res.ok (t, rs) ∧
      LogAll (fun pos e => ∀ n fl blk, e = .block n fl blk →
        SeqsAll (SeqWF s0.hashDictionary.ParserBuffer.BufConfig.WindowSize.toNat
          (Min.min 3 s0.BHPConfig.InputLen.toNat)) pos blk.seqs ∧
        litSum blk.seqs ≤ blk.lits.length) 0 (ghostRunR Ghost.init ops rs).log := by
  obtain ⟨p, t, rs, hp, h0, h1, -, -, h4, -⟩ :=
    gen_bhp_history_rf_go cfg s0 hinit extra grow fuel lcs hlcs hfuel ops hwf
  subst h0
  refine ⟨t, rs, h1, ?_⟩
  rw [h4]
  exact C02_wellformed .BHP (ofBHP cfg) _ hp (histHyp_of_ne .BHP _ (by decide)) (ops.map GOpR.abs)

/-- **C03 about the Go text of BHP, histories with `ReadFrom`** (as `C03_go_text_bhp`) -/
theorem C03_go_text_bhp_rf_go (cfg : Gen.BHPConfig) (s0 : Gen.backwardHashParser)
    (hinit : backwardHashParser_init default cfg = Res.ok (s0, Gen.Err.ok))
    (extra : Nat) (grow : Nat → Nat → Nat) (fuel : Nat) (lcs : Slice → Slice → Int) (hlcs : LcsSpec lcs)
    (hfuel : 2 * s0.hashDictionary.ParserBuffer.BufConfig.BufferSize.toNat + 3 ≤ fuel)
    (ops : List GOpR) (hwf : ∀ op ∈ ops, op.WF) :
    ∃ t rs, runGR (rfGo extra) grow fuel lcs s0 ops = Res.ok (t, rs) ∧
      let g := ghostRunR Ghost.init ops rs
      LogAll (fun pos e => 1 ≤ e.n ∧ e.n ≤ s0.hashDictionary.ParserBuffer.BufConfig.BlockSize.toNat ∧
        pos + e.n ≤ g.fed.length ∧
        ∀ n fl blk, e = .block n fl blk →
          blk.len = n ∧ expand (g.fed.take pos) blk = some (g.fed.take (pos + n)) ∧
          (fl % 2 = 1 → blk.seqs ≠ [] → blk.lits.length = litSum blk.seqs ∧ n = seqsSpan blk.seqs)) 0 g.log ∧
      logSpan g.log = g.consumed ∧ g.consumed ≤ g.fed.length := by
  obtain ⟨p, t, rs, hp, h0, h1, -, -, h4, -⟩ :=
    gen_bhp_history_rf_go cfg s0 hinit extra grow fuel lcs hlcs hfuel ops hwf
  subst h0
  refine ⟨t, rs, h1, ?_⟩
  intro g
  have hg : g = (runOps (ofBHPs s0, Ghost.init) (ops.map GOpR.abs)).2 := h4
  have := C03_contiguous .BHP (ofBHP cfg) _ hp (histHyp_of_ne .BHP _ (by decide)) (ops.map GOpR.abs)
  obtain ⟨a1, a2, a3, a4⟩ := this
  rw [hg]
  exact ⟨a1, a2, a4⟩

end LZ.GenBHPHist

#print axioms LZ.GenBHPHist.hist_readFrom
#print axioms LZ.GenBHPHist.runGR_sim
#print axioms LZ.GenBHPHist.gen_bhp_history_rf
#print axioms LZ.GenBHPHist.C01_go_text_bhp_rf
#print axioms LZ.GenBHPHist.gen_bhp_history_rf_go
#print axioms LZ.GenBHPHist.C01_go_text_bhp_rf_go
#print axioms LZ.GenBHPHist.C02_go_text_bhp_rf_go
#print axioms LZ.GenBHPHist.C03_go_text_bhp_rf_go
