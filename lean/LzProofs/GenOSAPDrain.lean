/-
  LzProofs.GenOSAPDrain — C14 "repeated `Parse(nil)` drains the buffer" about the Go text of OSAP: `C14_drains`
  (LzProofs/ParseProps.lean) transported along `runN_sim` of LzProofs/GenOSAPHistNil.lean, with the parser-independent
  pieces (`nilOps`, `drainRes`, `nSum`, `resultsAgreeN_nil`, `modelNilRes_drain`, `nSum_drainRes`) of
  LzProofs/GenHPDrain.lean.  Stated under `CESpec B ce` and, `…_ce_go`, with the translated `computeEdges` under `EdgeSpecs`
  (the drain calls themselves never call `computeEdges`; the history before them may).  No sorry, no axioms of its own.

    drain_core                    from a state with `HistOKO` whose model state is reachable
    C14_drains_go_text_osap       after ANY history from `init`: the calls `Parse(nil, ·)` return exactly `drainRes bs u 0`
    C14_drains_go_text_osap_ce_go the same with `ce := ceGo`
-/
import LzProofs.GenOSAPHistNilGo
import LzProofs.GenHPDrain

set_option linter.unusedSimpArgs false
set_option linter.unusedVariables false

namespace LZ.GenOSAPHist
open LZ LZ.Gen LZ.GenBuf LZ.GenHash LZ.GenSuffix LZ.GenHPParse LZ.GenProps LZ.GenOSAP LZ.GenNil
open LZ.GenGSAP (SortSpec)
open LZ.GenHPHist (GOpN GResN GOpN.WF GOpN.abs resAgreeN ResultsAgreeN ghostStepN ghostRunN step_parseNil_fst
  nilOps drainRes nSum nilOps_wf resultsAgreeN_nil runOps_nilOps modelNilRes_drain nSum_drainRes rfGo rfGo_spec)

/-- draining from a Go state with `HistOKO` whose model state is reachable from `NewParser` -/
theorem drain_core {bc : BufCfg} {B : Nat} (hbc : BCOKO bc) (ce : CEFun) (hCE : CESpec B ce) (extra : Nat)
    (grow : Nat → Nat → Nat) (fuel : Nat) (hfuel : bc.bufferSize + B + 5 ≤ fuel)
    (raw : Cfg) (p0 : Parser) (h0 : newParser .OSAP raw = some p0) (mops : List POp)
    (t : Gen.optSuffixArrayParser) (gh : Ghost) (hH : HistOKO bc B t)
    (hreach : (ofOSAPs t, gh) = runOps (p0, Ghost.init) mops) (hbc0 : bc = p0.buf.cfg)
    (fl : List (Gen.Block' × Int)) :
    let bs := t.ParserBuffer.BufConfig.BlockSize.toNat
    let u := t.ParserBuffer.Data.len - t.ParserBuffer.W.toNat
    let r := (u + bs - 1) / bs
    ∃ t', runN extra grow fuel ce t (nilOps fl) = Res.ok (t', drainRes bs u 0 fl) ∧
      nSum (drainRes bs u 0 fl) = ((Min.min u (fl.length * bs) : Nat) : Int) ∧
      t'.ParserBuffer.Data.len = t.ParserBuffer.Data.len ∧
      t'.ParserBuffer.W = ((Min.min t.ParserBuffer.Data.len (t.ParserBuffer.W.toNat + fl.length * bs) : Nat) : Int) ∧
      (r ≤ fl.length → nSum (drainRes bs u 0 fl) = (u : Int) ∧ t'.ParserBuffer.W = (t.ParserBuffer.Data.len : Int)) := by
  intro bs u r
  obtain ⟨t', rs', k1, k2, k3, -, k5⟩ :=
    runN_sim hbc ce hCE extra grow fuel hfuel raw p0 h0 (nilOps fl) mops t gh hH hreach (nilOps_wf fl)
  have hw : (ofOSAPs t).buf.w ≤ (ofOSAPs t).buf.data.length := hH.hw
  have hdl : (ofOSAPs t).buf.data.length = t.ParserBuffer.Data.len := hH.dataLen
  have hbs1 : 1 ≤ (ofOSAPs t).buf.cfg.blockSize := by
    have hc : (ofOSAPs t).buf.cfg = bc := hH.cfg
    rw [hc, hbc0]
    exact (newParser_inv .OSAP raw p0 h0).2.2
  have hbsE : (ofOSAPs t).buf.cfg.blockSize = bs := rfl
  have hwE : (ofOSAPs t).buf.w = t.ParserBuffer.W.toNat := rfl
  have huE : (ofOSAPs t).buf.data.length - (ofOSAPs t).buf.w = u := by rw [hdl, hwE]
  have hrs : rs' = drainRes bs u 0 fl := by
    rw [resultsAgreeN_nil fl _ _ k5]
    have := modelNilRes_drain (ofOSAPs t) hw hbs1 fl 0
    rw [hbsE, huE] at this
    exact this
  have hsum := nSum_drainRes bs u fl 0
  rw [Nat.zero_mul, Nat.sub_zero] at hsum
  have hst : ofOSAPs t' = Parser.nilIter fl.length (ofOSAPs t) := by rw [k3, runOps_nilOps]
  have hbuf := Parser.nilIter_buf fl.length (ofOSAPs t) hw
  rw [← hst] at hbuf
  have hW' : t'.ParserBuffer.W.toNat = Min.min t.ParserBuffer.Data.len (t.ParserBuffer.W.toNat + fl.length * bs) := by
    have := congrArg PBuf.w hbuf
    rw [hdl] at this
    exact this
  have hD' : t'.ParserBuffer.Data.len = t.ParserBuffer.Data.len := by
    have := congrArg (fun b => b.data.length) hbuf
    simp only at this
    have e1 : (ofOSAPs t').buf.data.length = t'.ParserBuffer.Data.len := k2.dataLen
    rw [e1, hdl] at this
    exact this
  have hW0 := k2.pok.pb.w
  have hWt0 := hH.pok.pb.w
  have hWle := hH.pok.w
  have hWfin : t'.ParserBuffer.W =
      ((Min.min t.ParserBuffer.Data.len (t.ParserBuffer.W.toNat + fl.length * bs) : Nat) : Int) := by
    rw [← hW']; omega
  refine ⟨t', by rw [← hrs]; exact k1, hsum, hD', hWfin, ?_⟩
  intro hr
  have hle : u ≤ fl.length * bs := by
    have h1 : (u + bs - 1) / bs < fl.length + 1 := by show r < _; omega
    have hbs1' : 1 ≤ bs := hbs1
    rw [Nat.div_lt_iff_lt_mul (by omega), Nat.succ_mul] at h1
    omega
  refine ⟨?_, ?_⟩
  · rw [hsum]
    have : Min.min u (fl.length * bs) = u := by omega
    rw [this]
  · rw [hWfin]
    have : Min.min t.ParserBuffer.Data.len (t.ParserBuffer.W.toNat + fl.length * bs) = t.ParserBuffer.Data.len := by
      have hu : u = t.ParserBuffer.Data.len - t.ParserBuffer.W.toNat := rfl
      omega
    rw [this]

/-- **C14 (repeated `Parse(nil)` drains the buffer) about the Go text of OSAP.**  After any history `ops` of the translated
    `Write`, `ReadFrom`, `Parse(&blk)`, `Parse(nil)`, `Shrink`, `Reset` from `init` (`computeEdges` under `CESpec B ce`), with
    `t` the Go state reached, `u = len(Data) − W`, `bs = BlockSize`, `r = ⌈u / bs⌉`: ANY further sequence of translated
    `Parse(nil, flags_k)` calls runs without panic and returns exactly `drainRes bs u 0 fl` — call `k < r` returns
    `(min(bs, u − k·bs), nil)`, every call `k ≥ r` returns `(0, ErrEmptyBuffer)`, the ghost blocks come back —; the `n` sum to
    `min(u, m·bs)`, `W` ends at `min(len(Data), W + m·bs)`; for `m ≥ r` the `n` sum to `u` and `W = len(Data)`. -/
theorem C14_drains_go_text_osap (B : Nat) (cfg : Gen.OSAPConfig) (s0 : Gen.optSuffixArrayParser)
    (hinit : optSuffixArrayParser_init default cfg = Res.ok (s0, Gen.Err.ok))
    (h32 : s0.OSAPConfig.MinMatchLen < 4294967296) (ce : CEFun) (hCE : CESpec B ce)
    (extra : Nat) (grow : Nat → Nat → Nat) (fuel : Nat)
    (hfuel : s0.ParserBuffer.BufConfig.BufferSize.toNat + B + 5 ≤ fuel)
    (ops : List GOpN) (hwf : ∀ op ∈ ops, op.WF) (fl : List (Gen.Block' × Int)) :
    ∃ t rs, runN extra grow fuel ce s0 ops = Res.ok (t, rs) ∧
      let bs := t.ParserBuffer.BufConfig.BlockSize.toNat
      let u := t.ParserBuffer.Data.len - t.ParserBuffer.W.toNat
      let r := (u + bs - 1) / bs
      ∃ t', runN extra grow fuel ce t (nilOps fl) = Res.ok (t', drainRes bs u 0 fl) ∧
        nSum (drainRes bs u 0 fl) = ((Min.min u (fl.length * bs) : Nat) : Int) ∧
        t'.ParserBuffer.Data.len = t.ParserBuffer.Data.len ∧
        t'.ParserBuffer.W = ((Min.min t.ParserBuffer.Data.len (t.ParserBuffer.W.toNat + fl.length * bs) : Nat) : Int) ∧
        (r ≤ fl.length → nSum (drainRes bs u 0 fl) = (u : Int) ∧ t'.ParserBuffer.W = (t.ParserBuffer.Data.len : Int)) := by
  obtain ⟨p, t, rs, hp, h2, k1, hbc, k2, hf, k3, -⟩ :=
    gen_osap_history_nil_inv B cfg s0 hinit h32 ce hCE extra grow fuel hfuel ops hwf
  exact ⟨t, rs, k1, drain_core hbc ce hCE extra grow fuel hf (ofOSAP cfg) p hp _ t _ k2 k3 rfl fl⟩

section
variable {SS : Slice → GSlice Int32 → Res (GSlice Int32)}
  {LCP : Slice → GSlice Int32 → GSlice Int32 → GSlice Int32 → Res (GSlice Int32)}
  {SEG : GSlice Int32 → GSlice Int32 → Int → Int → Res (List (Int × GSlice Int32))}
  {SRT : GSlice Int32 → Res (GSlice Int32)}

/-- **C14 (drain) about the Go text of OSAP, `computeEdges` translated** -/
theorem C14_drains_go_text_osap_ce_go (cfg : Gen.OSAPConfig) (s0 : Gen.optSuffixArrayParser)
    (hinit : optSuffixArrayParser_init default cfg = Res.ok (s0, Gen.Err.ok))
    (h32 : s0.OSAPConfig.MinMatchLen < 4294967296) (sp : EdgeSpecs SS LCP SEG SRT)
    (grow : Nat → Nat → Nat) (fuelE : Nat) (hfE : 2147483648 ≤ fuelE) (extra fuel : Nat)
    (hfuel : s0.ParserBuffer.BufConfig.BufferSize.toNat + 2147483647 + 5 ≤ fuel)
    (ops : List GOpN) (hwf : ∀ op ∈ ops, op.WF) (fl : List (Gen.Block' × Int)) :
    ∃ t rs, runN extra grow fuel (ceGo grow fuelE SS LCP SEG SRT) s0 ops = Res.ok (t, rs) ∧
      let bs := t.ParserBuffer.BufConfig.BlockSize.toNat
      let u := t.ParserBuffer.Data.len - t.ParserBuffer.W.toNat
      let r := (u + bs - 1) / bs
      ∃ t', runN extra grow fuel (ceGo grow fuelE SS LCP SEG SRT) t (nilOps fl) = Res.ok (t', drainRes bs u 0 fl) ∧
        nSum (drainRes bs u 0 fl) = ((Min.min u (fl.length * bs) : Nat) : Int) ∧
        t'.ParserBuffer.Data.len = t.ParserBuffer.Data.len ∧
        t'.ParserBuffer.W = ((Min.min t.ParserBuffer.Data.len (t.ParserBuffer.W.toNat + fl.length * bs) : Nat) : Int) ∧
        (r ≤ fl.length → nSum (drainRes bs u 0 fl) = (u : Int) ∧ t'.ParserBuffer.W = (t.ParserBuffer.Data.len : Int)) := by
  obtain ⟨p, t, rs, hp, h2, k1, hbc, k2, hf, k3, -⟩ :=
    gen_osap_history_nil_inv 2147483647 cfg s0 hinit h32 _ (cespec_go sp grow fuelE hfE) extra grow fuel hfuel ops hwf
  refine ⟨t, rs, ?_, ?_⟩
  · rw [runN_go_init cfg s0 hinit h32 sp grow fuelE hfE extra fuel hfuel ops hwf]; exact k1
  · rw [runN_go hbc sp grow fuelE hfE extra fuel hf (ofOSAP cfg) p hp (nilOps fl) _ t _ k2 k3 (nilOps_wf fl)]
    exact drain_core hbc _ (cespec_go sp grow fuelE hfE) extra grow fuel hf (ofOSAP cfg) p hp _ t _ k2 k3 rfl fl

end

end LZ.GenOSAPHist

#print axioms LZ.GenOSAPHist.drain_core
#print axioms LZ.GenOSAPHist.C14_drains_go_text_osap
#print axioms LZ.GenOSAPHist.C14_drains_go_text_osap_ce_go
