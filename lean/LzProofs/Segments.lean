/-
  LzProofs.Segments — consequences of `scanLCP_spec` in terms of natural numbers:
  soundness, completeness/uniqueness, children-first, `segments`; range minima of the LCP table.
-/
import LzProofs.Scan
import LzProofs.Kasai
namespace LZ

/-- clipped LCP value `min lcp[x] maxLen` -/
def clip (lcp : Array Nat) (maxLen : Nat) (x : Nat) : Nat := min (lcp.getD x 0) maxLen

/-- minimum of `f` over `a+1 … a+k+1` -/
def minOn (f : Nat → Nat) (a : Nat) : Nat → Nat
  | 0 => f (a+1)
  | k+1 => min (minOn f a k) (f (a+k+2))

/-- `cmin f a b` = minimum of `f` over the indices `a < x ≤ b` (meaningful for `a < b`) -/
def cmin (f : Nat → Nat) (a b : Nat) : Nat := minOn f a (b - a - 1)

theorem cmin_succ_self (f : Nat → Nat) (a : Nat) : cmin f a (a+1) = f (a+1) := by
  simp [cmin, minOn]

theorem cmin_succ (f : Nat → Nat) {a b : Nat} (h : a < b) :
    cmin f a (b+1) = min (cmin f a b) (f (b+1)) := by
  unfold cmin
  have e : b + 1 - a - 1 = (b - a - 1) + 1 := by omega
  rw [e, minOn]
  have : a + (b - a - 1) + 2 = b + 1 := by omega
  rw [this]

/-- `cmin f a b` is a lower bound on `(a, b]` and is attained there -/
theorem cmin_spec (f : Nat → Nat) (a : Nat) : ∀ b, a < b →
    (∀ x, a < x → x ≤ b → cmin f a b ≤ f x) ∧ ∃ x, a < x ∧ x ≤ b ∧ f x = cmin f a b := by
  intro b
  induction b with
  | zero => intro h; omega
  | succ b ih =>
    intro h
    by_cases e : a = b
    · subst e
      rw [cmin_succ_self]
      exact ⟨fun x h1 h2 => by have : x = a+1 := by omega
                               subst this; exact Nat.le_refl _, a+1, by omega, Nat.le_refl _, rfl⟩
    · have hab : a < b := by omega
      obtain ⟨h1, x, hx1, hx2, hx3⟩ := ih hab
      rw [cmin_succ f hab]
      constructor
      · intro y hy1 hy2
        by_cases e' : y = b + 1
        · subst e'; exact Nat.min_le_right _ _
        · exact Nat.le_trans (Nat.min_le_left _ _) (h1 y hy1 (by omega))
      · by_cases hle : cmin f a b ≤ f (b+1)
        · exact ⟨x, hx1, by omega, by rw [hx3, Nat.min_eq_left hle]⟩
        · exact ⟨b+1, by omega, Nat.le_refl _, by rw [Nat.min_eq_right (by omega)]⟩

/-- any value with the two properties of `cmin_spec` is `cmin` -/
theorem cmin_unique (f : Nat → Nat) {a b c : Nat} (h : a < b)
    (h1 : ∀ x, a < x → x ≤ b → c ≤ f x) (h2 : ∃ x, a < x ∧ x ≤ b ∧ f x = c) : c = cmin f a b := by
  obtain ⟨g1, y, hy1, hy2, hy3⟩ := cmin_spec f a b h
  obtain ⟨x, hx1, hx2, hx3⟩ := h2
  have := h1 y hy1 hy2
  have := g1 x hx1 hx2
  omega

theorem cmin_min (g : Nat → Nat) (M : Nat) (a : Nat) : ∀ b, a < b →
    cmin (fun x => min (g x) M) a b = min (cmin g a b) M := by
  intro b
  induction b with
  | zero => intro h; omega
  | succ b ih =>
    intro h
    by_cases e : a = b
    · subst e; simp [cmin_succ_self]
    · have hab : a < b := by omega
      rw [cmin_succ _ hab, cmin_succ _ hab, ih hab]
      omega

/-- `[lo, hi)` (ranks) is an LCP-interval of value `m` of the table `f` with `size` entries:
    all values strictly inside are `≥ m`, it cannot be extended to the left or to the right,
    and the value `m` is attained (or it is the root interval `[0,size)` with `m = 0`). -/
structure LcpInterval (f : Nat → Nat) (size m lo hi : Nat) : Prop where
  lt : lo < hi
  le : hi ≤ size
  ge : ∀ x, lo < x → x < hi → m ≤ f x
  left_max : lo = 0 ∨ f lo < m
  right_max : hi = size ∨ f hi < m
  attained : (m = 0 ∧ lo = 0) ∨ ∃ x, lo < x ∧ x < hi ∧ f x = m

theorem vclip_eq_clip (lcp : Array Nat) {maxLen : Int} (h : 0 ≤ maxLen) (x : Nat) :
    vclip lcp maxLen x = ((clip lcp maxLen.toNat x : Nat) : Int) := by
  unfold vclip clip; omega

theorem isLcpIv_iff {v : Nat → Int} {f : Nat → Nat} (hvf : ∀ x, v x = ((f x : Nat) : Int))
    (size m lo hi : Nat) : IsLcpIv v size (m : Int) lo hi ↔ LcpInterval f size m lo hi := by
  unfold IsLcpIv Open
  simp only [hvf]
  constructor
  · rintro ⟨⟨h1, h2, h3, h4⟩, h5, h6⟩
    have g3 : lo = 0 ∨ f lo < m := by clear h4; omega
    have g6 : hi = size ∨ f hi < m := by clear h4; omega
    refine ⟨h1, h5, fun x a b => by have := h2 x a b; clear h4; omega, g3, g6, ?_⟩
    rcases h4 with ⟨e1, e2⟩ | ⟨x, a, b, c⟩
    · exact Or.inl ⟨by omega, e2⟩
    · exact Or.inr ⟨x, a, b, by omega⟩
  · rintro ⟨h1, h5, h2, h3, h6, h4⟩
    have g3 : lo = 0 ∨ ((f lo : Nat) : Int) < (m : Int) := by clear h4; omega
    have g6 : hi = size ∨ ((f hi : Nat) : Int) < (m : Int) := by clear h4; omega
    refine ⟨⟨h1, fun x a b => by have := h2 x a b; clear h4; omega, g3, ?_⟩, h5, g6⟩
    rcases h4 with ⟨e1, e2⟩ | ⟨x, a, b, c⟩
    · exact Or.inl ⟨by omega, e2⟩
    · exact Or.inr ⟨x, a, b, by omega⟩

/-- the callbacks of `scanLCP` are exactly the LCP-intervals with value `≥ minLen` -/
theorem scan_exact' (lcp : Array Nat) (minLen maxLen : Int) (hmax : 0 ≤ maxLen)
    (hsize : 0 < lcp.size) (m lo hi : Nat) :
    (m, lo, hi) ∈ scanLCP lcp minLen maxLen ↔
      minLen ≤ (m : Int) ∧ LcpInterval (clip lcp maxLen.toNat) lcp.size m lo hi := by
  rw [(scanLCP_spec lcp minLen maxLen hmax hsize).1 m lo hi,
    isLcpIv_iff (vclip_eq_clip lcp hmax)]

/-! ### generic facts on LCP-intervals -/

theorem LcpInterval.value_le {f : Nat → Nat} {size m lo hi M : Nat} (h : LcpInterval f size m lo hi)
    (hf : ∀ x, f x ≤ M) : m ≤ M := by
  rcases h.attained with ⟨e, _⟩ | ⟨x, _, _, e⟩
  · omega
  · rw [← e]; exact hf x

/-- an interval with positive value contains at least two ranks -/
theorem LcpInterval.two {f : Nat → Nat} {size m lo hi : Nat} (h : LcpInterval f size m lo hi)
    (hm : 0 < m) : lo + 1 < hi := by
  rcases h.attained with ⟨e, _⟩ | ⟨x, h1, h2, _⟩ <;> omega

/-- the LCP-interval of value `cmin f a b` around the ranks `a < b` exists -/
theorem lcpInterval_exists (f : Nat → Nat) {size a b : Nat} (hab : a < b) (hb : b < size) :
    ∃ lo hi, LcpInterval f size (cmin f a b) lo hi ∧ lo ≤ a ∧ b < hi := by
  obtain ⟨hc1, x0, hx1, hx2, hx3⟩ := cmin_spec f a b hab
  obtain ⟨lo, l1, l2, l3⟩ := exists_left (v := fun x => ((f x : Nat) : Int)) (cmin f a b : Int) (a+1) (by omega)
  obtain ⟨hi, r1, r2, r3, r4⟩ := exists_right (v := fun x => ((f x : Nat) : Int)) (cmin f a b : Int) size
    (size - b) b (by omega) hb
  refine ⟨lo, hi, ⟨by omega, r2, fun x h1 h2 => ?_, by omega, by omega, Or.inr ⟨x0, by omega, by omega, hx3⟩⟩,
    by omega, r1⟩
  by_cases c1 : x ≤ a
  · have := l2 x h1 (by omega); omega
  · by_cases c2 : x ≤ b
    · exact hc1 x (by omega) c2
    · have := r3 x (by omega) h2; omega

/-- … and is unique -/
theorem lcpInterval_unique (f : Nat → Nat) {size m a b lo hi lo' hi' : Nat} (hab : a < b)
    (h : LcpInterval f size m lo hi) (h' : LcpInterval f size m lo' hi')
    (hlo : lo ≤ a) (hhi : b < hi) (hlo' : lo' ≤ a) (hhi' : b < hi') : lo = lo' ∧ hi = hi' := by
  constructor
  · rcases Nat.lt_trichotomy lo lo' with c | c | c
    · rcases h'.left_max with e | e
      · omega
      · have := h.ge lo' c (by omega); omega
    · exact c
    · rcases h.left_max with e | e
      · omega
      · have := h'.ge lo c (by omega); omega
  · rcases Nat.lt_trichotomy hi hi' with c | c | c
    · rcases h.right_max with e | e
      · have := h'.le; omega
      · have := h'.ge hi (by omega) c; omega
    · exact c
    · rcases h'.right_max with e | e
      · have := h.le; omega
      · have := h.ge hi' (by omega) c; omega

/-- an interval containing `a < b` has a value `≤ cmin f a b`, with equality iff … -/
theorem LcpInterval.value_le_cmin {f : Nat → Nat} {size m lo hi a b : Nat}
    (h : LcpInterval f size m lo hi) (hab : a < b) (hlo : lo ≤ a) (hhi : b < hi) :
    m ≤ cmin f a b := by
  obtain ⟨_, x, h1, h2, h3⟩ := cmin_spec f a b hab
  rw [← h3]; exact h.ge x (by omega) (by omega)

/-! ### order of the callbacks -/

theorem sublist_pair_of_pairwise {α : Type} {R : α → α → Prop} :
    ∀ {l : List α} {a b : α}, l.Pairwise R → a ∈ l → b ∈ l → a ≠ b → ¬ R b a →
      [a, b].Sublist l
  | [], _, _, _, ha, _, _, _ => by simp at ha
  | x :: l, a, b, hp, ha, hb, hne, hr => by
    have hp' := List.pairwise_cons.1 hp
    by_cases e : x = a
    · subst e
      have hb' : b ∈ l := by
        rcases List.mem_cons.1 hb with e | h
        · exact absurd e.symm hne
        · exact h
      exact List.Sublist.cons_cons _ (List.singleton_sublist.2 hb')
    · have ha' : a ∈ l := by
        rcases List.mem_cons.1 ha with e' | h
        · exact absurd e'.symm e
        · exact h
      by_cases e2 : x = b
      · subst e2
        exact absurd (hp'.1 a ha') hr
      · have hb' : b ∈ l := by
          rcases List.mem_cons.1 hb with e' | h
          · exact absurd e'.symm e2
          · exact h
        exact List.Sublist.cons _ (sublist_pair_of_pairwise hp'.2 ha' hb' hne hr)

theorem nodup_of_pairwise_cbBefore {l : List Callback} (h : l.Pairwise CbBefore) : l.Nodup := by
  refine List.Pairwise.imp ?_ h
  intro a b hab e
  subst e
  unfold CbBefore at hab
  omega


theorem countP_eq_one_of_nodup {α : Type} {l : List α} (hn : l.Nodup) {p : α → Bool} {x : α}
    (hx : x ∈ l) (hpx : p x = true) (hu : ∀ y ∈ l, p y = true → y = x) : l.countP p = 1 := by
  induction l with
  | nil => simp at hx
  | cons y l ih =>
    have hn' := List.nodup_cons.1 hn
    by_cases e : y = x
    · subst e
      have hz : l.countP p = 0 := by
        rw [List.countP_eq_zero]
        intro z hz hpz
        have := hu z (List.mem_cons_of_mem _ hz) hpz
        subst this
        exact hn'.1 hz
      rw [List.countP_cons_of_pos hpx, hz]
    · have hx' : x ∈ l := by
        rcases List.mem_cons.1 hx with e' | h
        · exact absurd e'.symm e
        · exact h
      have hpy : ¬ p y = true := fun h => e (hu y List.mem_cons_self h)
      rw [List.countP_cons_of_neg hpy]
      exact ih hn'.2 hx' (fun z hz => hu z (List.mem_cons_of_mem _ hz))

/-! ### range minima of the LCP table of a suffix array -/

theorem cmin_congr {f g : Nat → Nat} (a : Nat) : ∀ b, a < b → (∀ x, a < x → x ≤ b → f x = g x) →
    cmin f a b = cmin g a b := by
  intro b
  induction b with
  | zero => intro h; omega
  | succ b ih =>
    intro h hfg
    by_cases e : a = b
    · subst e; rw [cmin_succ_self, cmin_succ_self]; exact hfg _ (by omega) (by omega)
    · have hab : a < b := by omega
      rw [cmin_succ _ hab, cmin_succ _ hab, ih hab (fun x h1 h2 => hfg x h1 (by omega)),
        hfg (b+1) (by omega) (by omega)]

/-- common-prefix length of the suffixes at the ranks `a` and `b` -/
def sufLcp (t : List Byte) (sa : List Nat) (a b : Nat) : Nat :=
  lcpLen (t.drop (sa.getD a 0)) (t.drop (sa.getD b 0))

theorem sufLcp_comm (t : List Byte) (sa : List Nat) (a b : Nat) : sufLcp t sa a b = sufLcp t sa b a :=
  lcpLen_comm _ _

theorem specAt_succ (t : List Byte) (sa : List Nat) (a : Nat) :
    specAt t sa (a+1) = sufLcp t sa a (a+1) := by
  simp [specAt, sufLcp]

/-- **the minimum of the LCP table over `(a, b]` is the common-prefix length of the suffixes at the
    ranks `a` and `b`** -/
theorem cmin_specAt {t : List Byte} {sa : List Nat} (h : IsSuffixArray t sa) (a : Nat) :
    ∀ b, a < b → b < sa.length → cmin (specAt t sa) a b = sufLcp t sa a b := by
  intro b
  induction b with
  | zero => intro h; omega
  | succ b ih =>
    intro hab hb
    by_cases e : a = b
    · subst e; rw [cmin_succ_self, specAt_succ]
    · have hab' : a < b := by omega
      rw [cmin_succ _ hab', ih hab' (by omega), specAt_succ]
      have ha : sa[a]? = some sa[a] := List.getElem?_eq_getElem (by omega)
      have hb0 : sa[b]? = some sa[b] := List.getElem?_eq_getElem (by omega)
      have hb1 : sa[b+1]? = some sa[b+1] := List.getElem?_eq_getElem hb
      have e1 : sa.getD a 0 = sa[a] := by simp [ha]
      have e2 : sa.getD b 0 = sa[b] := by simp [hb0]
      have e3 : sa.getD (b+1) 0 = sa[b+1] := by simp [hb1]
      unfold sufLcp
      rw [e1, e2, e3]
      exact (lcpLen_sandwich_eq _ _ _ (h.mono? (Nat.le_of_lt hab') ha hb0)
        (h.mono? (Nat.le_succ b) hb0 hb1)).symm

theorem getD_lcpSpec (t : List Byte) (sa : List Nat) {x : Nat} (hx : x < sa.length) :
    (lcpSpec t sa).toArray.getD x 0 = specAt t sa x := by
  simp [lcpSpec_eq, hx]

/-- clipped version, for the table produced by `lcpSpec` (equivalently by `lcpKasai`) -/
theorem cmin_clip_lcpSpec {t : List Byte} {sa : List Nat} (h : IsSuffixArray t sa) (M : Nat)
    {a b : Nat} (hab : a < b) (hb : b < sa.length) :
    cmin (clip (lcpSpec t sa).toArray M) a b = min (sufLcp t sa a b) M := by
  rw [← cmin_specAt h a b hab hb, ← cmin_min _ _ _ _ hab]
  apply cmin_congr a b hab
  intro x _ hx2
  unfold clip
  rw [getD_lcpSpec t sa (by omega)]


/-! ### segments as lists of positions -/

/-- the Go slice `sa[lo:hi]` -/
def segmentOf (sa : List Nat) (lo hi : Nat) : List Nat := (sa.take hi).drop lo

theorem mem_segmentOf {sa : List Nat} {lo hi p : Nat} :
    p ∈ segmentOf sa lo hi ↔ ∃ k, lo ≤ k ∧ k < hi ∧ sa[k]? = some p := by
  unfold segmentOf
  rw [List.mem_iff_getElem?]
  constructor
  · rintro ⟨i, hi'⟩
    rw [List.getElem?_drop, List.getElem?_take] at hi'
    split at hi'
    · exact ⟨lo + i, by omega, by omega, hi'⟩
    · exact absurd hi' (by simp)
  · rintro ⟨k, h1, h2, h3⟩
    refine ⟨k - lo, ?_⟩
    rw [List.getElem?_drop, List.getElem?_take]
    have : lo + (k - lo) = k := by omega
    rw [this]
    simp [h2, h3]

theorem segmentOf_nodup {sa : List Nat} (hn : sa.Nodup) (lo hi : Nat) : (segmentOf sa lo hi).Nodup :=
  (hn.sublist (List.take_sublist _ _)).sublist (List.drop_sublist _ _)

/-- sharing `m` bytes, stated on the strings -/
theorem take_eq_of_le_lcpLen {a b : List Byte} {m : Nat} (h : m ≤ lcpLen a b) :
    a.take m = b.take m ∧ m ≤ a.length ∧ m ≤ b.length := by
  have h1 := take_lcpLen a b
  have h2 := lcpLen_le_left a b
  have h3 := lcpLen_le_right a b
  refine ⟨?_, by omega, by omega⟩
  have := congrArg (List.take m) h1
  rw [List.take_take, List.take_take, Nat.min_eq_left h] at this
  exact this

/-- conversely, common bytes bound `lcpLen` from below -/
theorem le_lcpLen_of_take_eq : ∀ (m : Nat) (a b : List Byte), a.take m = b.take m → m ≤ a.length →
    m ≤ b.length → m ≤ lcpLen a b
  | 0, _, _, _, _, _ => Nat.zero_le _
  | m+1, [], _, _, h, _ => by simp at h
  | m+1, _ :: _, [], _, _, h => by simp at h
  | m+1, x :: xs, y :: ys, he, h1, h2 => by
    simp only [List.take_succ_cons, List.cons.injEq] at he
    obtain ⟨e, he'⟩ := he
    subst e
    have := le_lcpLen_of_take_eq m xs ys he' (by simpa using h1) (by simpa using h2)
    simp [lcpLen]; omega

end LZ
