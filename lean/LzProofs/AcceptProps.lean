/-
  LzProofs.AcceptProps — property C07 ("whatever the parsers emit, the module's Decoder with the
  same window accepts"), decoder side, for the model `LzModel.DecBuf` of decoder_buffer.go.

  FULL STRENGTH IS FALSE for the code and the model (`C07_counter`, `C07_full_strength_false`):
  `Decoder.WriteBlock` writes a sequence atomically and refuses a single sequence with
  `LitLen + MatchLen > BufferSize - WindowSize` with `errMatchLen`, although the block is
  well-formed.  What holds (and is proved here, for every growth function `g`):

    C07_accepts_partial   one `WriteBlock`: a block that is well-formed for the decoder's window
                          over the decoder's log and whose sequences are at most
                          `BufferSize - WindowSize` long is never refused: the result is `nil` or an
                          error of the destination writer; `nil` for a writer that does not fail;
                          on `nil` everything is consumed and the log is the reference expansion
    C07_retry_accepts_partial   ANY writer (errors, short writes): the caller's retry protocol
                          `retryBlock` of C18 ends with `nil` and the writer has received exactly
                          the reference expansion
    C07_events_partial / C07_stream_partial   a whole stream (blocks, and raw bytes passed with
                          `Write`) followed by `Flush`: the writer has received the reference
                          decoding of the stream
    C07_counter           the kernel-checked counter-witness against full strength

  Definitions: LzProofs/AcceptDefs.lean (`WFSeqs`, `WellFormedBlock`, `WellFormedStream`,
  `SeqsFit`, `DEvent`, `Decoder.feedAll`, `refDecode`, …), `Decoder.Good` in AcceptLemmas.lean.
  The parser side (`parser_blocks_wellformed`, …) is LzProofs/AcceptParse.lean; the composition is
  LzProofs/AcceptCompose.lean.
-/
import LzProofs.AcceptLemmas
namespace LZ
open DecBuf Decoder

/-! ## hypotheses are established by Init / Reset and kept by every call -/

/-- `Good` holds for a decoder created by `Init` with any accepted configuration and a writer that
    has not received anything; its log is empty. -/
theorem C07_good_init {ws bs : Int} {precap : Nat} {b : DecBuf} (h : DecBuf.init ws bs precap = some b)
    (wr : Writer) (hw : wr.got = []) :
    Good { buf := b, w := wr } ∧ ({ buf := b, w := wr } : Decoder).log = [] := good_init h wr hw

theorem C07_good_reset {d : Decoder} (h : Good d) (wr : Writer) (hw : wr.got = []) :
    Good (d.reset wr) ∧ (d.reset wr).log = [] := good_reset h wr hw

/-- `Good d` in terms of the invariants of C06 / C18 -/
theorem C07_good_iff (d : Decoder) :
    Good d ↔ DecBuf.Inv d.buf ∧ Hist d ∧ min d.buf.ws d.log.length ≤ d.buf.data.length ∧
      d.buf.off = d.log.length := good_iff d

/-- every Decoder call keeps `Good` (every writer script, every block — valid or not) -/
theorem C07_good_invariant (g : Grow) (d : Decoder) (h : Good d) :
    (∀ c, Good (d.writeByte g c).1) ∧ (∀ p, Good (d.write g p 0).1) ∧
    (∀ seqs lits, Good (d.writeBlock g seqs lits 0 0 0).1) ∧ Good d.flush.1 :=
  ⟨fun c => good_writeByte g d c h, fun p => good_write g d p 0 h,
   fun seqs lits => good_writeBlock g _ _ d seqs lits 0 0 0 rfl rfl h, good_flush h⟩

/-! ## (b) one `WriteBlock` -/

/-- **C07, buffer level.**  `DecoderBuffer.WriteBlock` returns `nil` or `ErrFullBuffer` on a
    well-formed block whose sequences are at most `BufferSize - WindowSize` long. -/
theorem C07_buf_accepts_partial (g : Grow) {b : DecBuf} {w : List Byte} {dl : Nat} (h : Abs b w dl)
    (blk : Block) (hwf : WellFormedBlock b.ws w blk) (hfit : SeqsFit (b.bs - b.ws) blk.seqs) :
    (b.writeBlock g blk).2.2.2.2 = .ok ∨ (b.writeBlock g blk).2.2.2.2 = .full :=
  DecBuf.writeBlock_wf g h blk hwf hfit

/-- **C07 (partial), one `Decoder.WriteBlock`.**
    Hypotheses: `Good d`; the block is well-formed for the decoder's window `d.buf.ws` over the
    decoder's log; every sequence has `LitLen + MatchLen ≤ BufferSize - WindowSize`.
    Then, for every growth function and EVERY writer script:
    * the call is never refused: the result is `nil` or an error of the writer (`WErr`:
      `ErrShortWrite` or the writer's own error);
    * `Good` is kept, `WindowSize` is unchanged, `BufferSize` does not shrink (so the hypotheses
      about the next block are about the same numbers);
    * on `nil`: `k = len(seqs)`, `l = len(lits)`, the new log is `expand log blk` and `n` is the
      number of bytes appended;
    * a writer that has no scripted response left (it accepts everything) gives `nil`.
    Full statement (FALSE, see `C07_counter`): the same without `hfit`. -/
theorem C07_accepts_partial (g : Grow) (d : Decoder) (blk : Block) (h : Good d)
    (hwf : WellFormedBlock d.buf.ws d.log blk) (hfit : SeqsFit (d.buf.bs - d.buf.ws) blk.seqs) :
    let R := d.writeBlock g blk.seqs blk.lits 0 0 0
    (R.2.2.2.2 = .ok ∨ WErr R.2.2.2.2) ∧ Good R.1 ∧ R.1.buf.ws = d.buf.ws ∧ d.buf.bs ≤ R.1.buf.bs ∧
    (R.2.2.2.2 = .ok → R.2.2.1 = blk.seqs.length ∧ R.2.2.2.1 = blk.lits.length ∧
      expand d.log blk = some R.1.log ∧ R.2.1 = (R.1.log.length : Int) - (d.log.length : Int)) ∧
    (d.w.resps = [] → R.2.2.2.2 = .ok) := by
  intro R
  obtain ⟨hnr, hg⟩ := writeBlock_accepts g _ _ d blk.seqs blk.lits 0 0 0 rfl rfl h hwf hfit
  obtain ⟨p1, p2, p3, p4, _, _, p7, _⟩ := writeBlock_post g _ _ d blk.seqs blk.lits 0 0 0 rfl rfl h.inv
  have hhist : Hist d := ((good_iff d).1 h).2.1
  have hexp := (C18_writeBlock_expands' g d blk.seqs blk.lits h.inv hhist).1
  obtain ⟨z, z1, z2, _, _, z5, _⟩ := C18_writeBlock_log g d blk.seqs blk.lits h.inv
  have herr := hnr.ok_or_werr p4
  refine ⟨herr, hg, p2, p3, ?_, ?_⟩
  · intro hok
    obtain ⟨hk, hl⟩ := z5 hok
    refine ⟨hk, hl, ?_, ?_⟩
    · have hk' : R.2.2.1 = blk.seqs.length := hk
      have hl' : R.2.2.2.1 = blk.lits.length := hl
      have hexp' : Expands d.log blk.lits blk.seqs R.2.2.1 R.2.2.2.1 R.1.log := hexp
      rw [hk', hl'] at hexp'
      exact hexp'.full
    · show R.2.1 = _
      have z1' : R.1.log = d.log ++ z := z1
      have z2' : R.2.1 = (z.length : Int) := z2
      rw [z1', z2', List.length_append]; omega
  · intro hr
    rcases herr with he | he
    · exact he
    · have := p7 he
      rw [hr] at this
      simp at this

/-- a decoder whose writer never fails stays such a decoder -/
theorem C07_resps_nil (g : Grow) (d : Decoder) (h : DecBuf.Inv d.buf) (hr : d.w.resps = []) :
    (∀ seqs lits, (d.writeBlock g seqs lits 0 0 0).1.w.resps = []) ∧
    (∀ p, (d.write g p 0).1.w.resps = []) ∧ d.flush.1.w.resps = [] := by
  refine ⟨fun seqs lits => ?_, fun p => ?_, ?_⟩
  · have := (writeBlock_post g _ _ d seqs lits 0 0 0 rfl rfl h).2.2.2.2.2.2.2.1
    rw [hr] at this
    exact List.eq_nil_of_length_eq_zero (by simpa using this)
  · have := (Decoder.write_spec g d p 0 h).2.2.2.2.2.2.1.length_le
    rw [hr] at this
    exact List.eq_nil_of_length_eq_zero (by simpa using this)
  · have := (writeTo_spec d h).2.2.2.2.2.2.2.2.2.2.2.1
    rw [hr] at this
    rw [Decoder.flush_fst]
    exact List.eq_nil_of_length_eq_zero (by simpa using this)

/-! ## any writer: the retry protocol of C18 -/

/-- the flush loop of the retry protocol keeps `WindowSize` and does not lower `BufferSize` -/
theorem retryWrite_geo (g : Grow) : ∀ (fuel : Nat) (a a' : Decoder) (p : List Byte), DecBuf.Inv a.buf →
    retryWrite g fuel a p = some a' → a'.buf.ws = a.buf.ws ∧ a.buf.bs ≤ a'.buf.bs := by
  intro fuel
  induction fuel with
  | zero => intro a a' p _ hh; simp [retryWrite] at hh
  | succ fuel ih2 =>
    intro a a' p ha hh
    rw [retryWrite] at hh
    obtain ⟨w1, w2, w3, _⟩ := Decoder.write_spec g a p 0 ha
    split at hh
    · obtain ⟨j1, j2⟩ := ih2 _ _ _ w1 hh
      exact ⟨by rw [j1, w2], by omega⟩
    · simp only [Decoder.flush_fst, Decoder.flush_snd] at hh
      obtain ⟨t1, t2, t3, _⟩ := writeTo_spec (a.write g p 0).1 w1
      by_cases hc : (a.write g p 0).1.writeTo.2.2 = .ok
      · simp only [hc, ↓reduceIte, Option.some.injEq] at hh
        rw [← hh]
        exact ⟨by rw [t2, w2], by rw [t3]; exact w3⟩
      · simp only [hc, ↓reduceIte] at hh
        obtain ⟨j1, j2⟩ := ih2 _ _ _ t1 hh
        exact ⟨by rw [j1, t2, w2], by omega⟩

/-- **C07 (partial), arbitrary writer.**  Whatever the writer does (errors, short writes, any
    script), the caller's retry protocol of C18 (`retryBlock`: re-submit `(seqs[k:], lits[l:])`
    after a writer fault, finally flush until success; one unit of fuel per scripted response plus
    one) on a well-formed block that fits ends with `nil` — the block is never refused — and the
    writer has received the old log followed by exactly the reference expansion of the block. -/
theorem C07_retry_accepts_partial (g : Grow) : ∀ (fuel : Nat) (d : Decoder) (seqs : List Seq)
    (lits : List Byte), Good d → WellFormedBlock d.buf.ws d.log ⟨seqs, lits⟩ →
    SeqsFit (d.buf.bs - d.buf.ws) seqs → d.w.resps.length < fuel →
    ∃ d', retryBlock g fuel d seqs lits = some (d', .ok) ∧
      expand d.log ⟨seqs, lits⟩ = some d'.w.got ∧ d'.buf.pending = [] ∧ Good d' ∧
      d'.buf.ws = d.buf.ws ∧ d.buf.bs ≤ d'.buf.bs := by
  intro fuel
  induction fuel with
  | zero => intro d seqs lits _ _ _ h; omega
  | succ fuel ih =>
    intro d seqs lits h hwf hfit hf
    have hhist : Hist d := ((good_iff d).1 h).2.1
    obtain ⟨hnr, hg⟩ := writeBlock_accepts g _ _ d seqs lits 0 0 0 rfl rfl h hwf hfit
    obtain ⟨p1, p2, p3, p4, _, _, p7, p8, _⟩ := writeBlock_post g _ _ d seqs lits 0 0 0 rfl rfl h.inv
    have hexp := (C18_writeBlock_expands' g d seqs lits h.inv hhist).1
    have herr := hnr.ok_or_werr p4
    have hspec : ∀ d', retryBlock g (fuel + 1) d seqs lits = some (d', .ok) →
        expand d.log ⟨seqs, lits⟩ = some d'.w.got ∧ d'.buf.pending = [] :=
      fun d' hr => C18_retryBlock_exactly_once g (wbSpec g) _ d d' seqs lits h.inv hhist hr
    have hrb : retryBlock g (fuel + 1) d seqs lits =
        (if (d.writeBlock g seqs lits 0 0 0).2.2.2.2 = .ok then
          (retryWrite g ((d.writeBlock g seqs lits 0 0 0).1.w.resps.length + 1)
            (d.writeBlock g seqs lits 0 0 0).1 []).map (·, Err.ok)
         else if isWriterFault (d.writeBlock g seqs lits 0 0 0).2.2.2.2 then
          retryBlock g fuel (d.writeBlock g seqs lits 0 0 0).1
            (seqs.drop (d.writeBlock g seqs lits 0 0 0).2.2.1)
            (lits.drop (d.writeBlock g seqs lits 0 0 0).2.2.2.1)
         else some ((d.writeBlock g seqs lits 0 0 0).1, (d.writeBlock g seqs lits 0 0 0).2.2.2.2)) := by
      rw [retryBlock]
    generalize d.writeBlock g seqs lits 0 0 0 = R at *
    obtain ⟨d1, n, k, l, e⟩ := R
    simp only at hnr hg p1 p2 p3 p4 p7 p8 hexp herr hrb
    rcases herr with he | he
    · subst he
      simp only [↓reduceIte] at hrb
      obtain ⟨d'', i1, i2, i3, i4, _⟩ := retryWrite_spec g (d1.w.resps.length + 1) d1 [] p1 (by omega)
      have hr : retryBlock g (fuel + 1) d seqs lits = some (d'', .ok) := by rw [hrb, i1]; rfl
      obtain ⟨s1, s2⟩ := hspec d'' hr
      have hg'' := good_retryWrite g _ d1 d'' [] hg i1
      have hgeo := retryWrite_geo g _ d1 d'' [] p1 i1
      exact ⟨d'', hr, s1, s2, hg'', by rw [hgeo.1, p2], by omega⟩
    · have hne : e ≠ .ok := he.ne_ok
      have hwf' : isWriterFault e = true := (isWriterFault_iff e).mpr he
      simp only [hne, ↓reduceIte, hwf'] at hrb
      have hlt := p7 he
      have hwf2 : WellFormedBlock d1.buf.ws d1.log ⟨seqs.drop k, lits.drop l⟩ := by
        show WFSeqs _ _ _ _
        rw [p2]
        exact Expands.wf_rest hwf hexp
      have hfit2 : SeqsFit (d1.buf.bs - d1.buf.ws) (seqs.drop k) := by
        apply SeqsFit.drop
        apply WFSeqs.mono_fit hfit
        rw [p2]; omega
      obtain ⟨d', j1, j2, j3, j4, j5, j6⟩ := ih d1 (seqs.drop k) (lits.drop l) hg hwf2 hfit2 (by omega)
      have hr : retryBlock g (fuel + 1) d seqs lits = some (d', .ok) := by rw [hrb, j1]
      obtain ⟨s1, s2⟩ := hspec d' hr
      exact ⟨d', hr, s1, s2, j4, by rw [j5, p2], by omega⟩

/-! ## a whole stream -/

/-- **C07 (partial), a stream of items, any writer.**  `Good d`, the items (blocks / raw bytes)
    well-formed for the decoder's window over its log, all sequences at most
    `BufferSize - WindowSize` long.  Feeding the items in order (`feedAll`, stops at the first
    error) is never stopped by a refusal of the decoder: the result is `nil` or a writer error; on
    `nil` the log of the decoder is the reference decoding (`refDecode`) of the stream. -/
theorem C07_events_never_refused (g : Grow) : ∀ (es : List DEvent) (d : Decoder), Good d →
    WellFormedEvents d.buf.ws d.log es → EventsFit (d.buf.bs - d.buf.ws) es →
    ((d.feedAll g es).2 = .ok ∨ WErr (d.feedAll g es).2) ∧ Good (d.feedAll g es).1 ∧
    (d.feedAll g es).1.w.resps.length ≤ d.w.resps.length ∧
    ((d.feedAll g es).2 = .ok → refDecode d.log es = some (d.feedAll g es).1.log) := by
  intro es
  induction es with
  | nil => intro d h _ _; exact ⟨Or.inl rfl, h, Nat.le_refl _, fun _ => rfl⟩
  | cons e es ih =>
    intro d h hwf hfit
    cases e with
    | block blk =>
      obtain ⟨hwf1, h', hx, hwf2⟩ := hwf
      obtain ⟨hfit1, hfit2⟩ := hfit
      obtain ⟨a1, a2, a3, a4, a5, _⟩ := C07_accepts_partial g d blk h hwf1 hfit1
      have hres := (writeBlock_post g _ _ d blk.seqs blk.lits 0 0 0 rfl rfl h.inv).2.2.2.2.2.2.2.1
      by_cases hok : (d.feed g (.block blk)).2 = .ok
      · rw [Decoder.feedAll_cons_ok g d _ es hok,
          show (d.feed g (.block blk)).1 = (d.writeBlock g blk.seqs blk.lits 0 0 0).1 from rfl]
        have hok : (d.writeBlock g blk.seqs blk.lits 0 0 0).2.2.2.2 = .ok := hok
        obtain ⟨_, _, b3, _⟩ := a5 hok
        rw [hx] at b3
        have b3' : h' = (d.writeBlock g blk.seqs blk.lits 0 0 0).1.log := by simpa using b3
        obtain ⟨i1, i2, i3, i4⟩ := ih _ a2 (by rw [a3, ← b3']; exact hwf2)
          (EventsFit.mono (by rw [a3]; omega) _ hfit2)
        refine ⟨i1, i2, by omega, fun he => ?_⟩
        simp only [refDecode, hx]
        rw [b3']
        exact i4 he
      · rw [Decoder.feedAll_cons_err g d _ es hok]
        exact ⟨a1, a2, hres, fun he => absurd he hok⟩
    | raw p =>
      have hwf2 : WellFormedEvents d.buf.ws (d.log ++ p) es := hwf
      have hfit2 : EventsFit (d.buf.bs - d.buf.ws) es := hfit
      obtain ⟨w1, w2, w3, w4, ⟨n, w5, w6, w7, w8⟩, _, w10, _⟩ := Decoder.write_spec g d p 0 h.inv
      have hg := good_write g d p 0 h
      by_cases hok : (d.feed g (.raw p)).2 = .ok
      · rw [Decoder.feedAll_cons_ok g d _ es hok,
          show (d.feed g (.raw p)).1 = (d.write g p 0).1 from rfl]
        have hok : (d.write g p 0).2.2 = .ok := hok
        have hn := w8 hok
        rw [hn, List.take_length] at w7
        obtain ⟨i1, i2, i3, i4⟩ := ih _ hg (by rw [w2, w7]; exact hwf2)
          (EventsFit.mono (by rw [w2]; omega) _ hfit2)
        have := w10.length_le
        refine ⟨i1, i2, by omega, fun he => ?_⟩
        simp only [refDecode]
        rw [← w7]
        exact i4 he
      · rw [Decoder.feedAll_cons_err g d _ es hok]
        exact ⟨w4, hg, w10.length_le, fun he => absurd he hok⟩

/-- **C07 (partial), a stream of items followed by `Flush`.**  With a writer that does not fail
    (no scripted response left: it accepts everything) every item is accepted, `Flush` succeeds
    and the writer has received exactly the reference decoding of the stream on top of the log
    before (for a fresh decoder: the original bytes). -/
theorem C07_events_partial (g : Grow) (es : List DEvent) (d : Decoder) (h : Good d)
    (hw : d.w.resps = []) (hwf : WellFormedEvents d.buf.ws d.log es)
    (hfit : EventsFit (d.buf.bs - d.buf.ws) es) :
    (d.feedAll g es).2 = .ok ∧ (d.feedAll g es).1.flush.2 = .ok ∧
    refDecode d.log es = some (d.feedAll g es).1.flush.1.w.got ∧
    (d.feedAll g es).1.flush.1.buf.pending = [] := by
  obtain ⟨a1, a2, a3, a4⟩ := C07_events_never_refused g es d h hwf hfit
  have hr : (d.feedAll g es).1.w.resps = [] := by
    rw [hw] at a3
    exact List.eq_nil_of_length_eq_zero (by simpa using a3)
  have hok : (d.feedAll g es).2 = .ok := by
    rcases a1 with a1 | a1
    · exact a1
    · -- a writer error would have consumed a scripted response
      exfalso
      have hgen : ∀ (es : List DEvent) (d : Decoder), DecBuf.Inv d.buf → WErr (d.feedAll g es).2 →
          (d.feedAll g es).1.w.resps.length < d.w.resps.length := by
        intro es
        induction es with
        | nil => intro d _ he; exact absurd rfl he.ne_ok
        | cons e es ih =>
          intro d hi he
          cases e with
          | block blk =>
            obtain ⟨p1, _, _, _, _, _, p7, p8, _⟩ :=
              writeBlock_post g _ _ d blk.seqs blk.lits 0 0 0 rfl rfl hi
            by_cases hok : (d.feed g (.block blk)).2 = .ok
            · rw [Decoder.feedAll_cons_ok g d _ es hok,
                show (d.feed g (.block blk)).1 = (d.writeBlock g blk.seqs blk.lits 0 0 0).1 from rfl] at he ⊢
              have := ih _ p1 he; omega
            · rw [Decoder.feedAll_cons_err g d _ es hok] at he ⊢
              exact p7 he
          | raw p =>
            obtain ⟨w1, _, _, _, _, _, w10, w11⟩ := Decoder.write_spec g d p 0 hi
            by_cases hok : (d.feed g (.raw p)).2 = .ok
            · rw [Decoder.feedAll_cons_ok g d _ es hok,
                show (d.feed g (.raw p)).1 = (d.write g p 0).1 from rfl] at he ⊢
              have := ih _ w1 he
              have := w10.length_le; omega
            · rw [Decoder.feedAll_cons_err g d _ es hok] at he ⊢
              exact w11 he.ne_ok
      have := hgen es d h.inv a1
      rw [hw] at this
      simp at this
  obtain ⟨t1, t2, t3, t4, t5, t6, t7, t8, t9, t10, t11, t12, t13⟩ := writeTo_spec (d.feedAll g es).1 a2.inv
  have hfl : (d.feedAll g es).1.flush.2 = .ok := by
    rcases t9 with t9 | t9
    · exact t9
    · have := t13 t9.ne_ok
      rw [hr] at this
      simp at this
  have hpend := (C18_writeTo_exact (d.feedAll g es).1 a2.inv).2.2.2.2.2 hfl
  have hlog := writeTo_log (d.feedAll g es).1 a2.inv
  refine ⟨hok, hfl, ?_, hpend⟩
  rw [a4 hok, ← hlog]
  show some ((d.feedAll g es).1.writeTo.1.w.got ++ (d.feedAll g es).1.writeTo.1.buf.pending) = _
  rw [hpend, List.append_nil]
  rfl

/-- `WriteBlock` on every block of the stream in turn, stopping at the first error -/
def Decoder.writeBlocks (g : Grow) (d : Decoder) (blks : List Block) : Decoder × Err :=
  d.feedAll g (blks.map .block)

/-- **C07 (partial), a stream of blocks followed by `Flush`** (the statement of the property with
    the size bound added): for a decoder in a `Good` state (e.g. fresh from `Init`/`Reset`) whose
    writer does not fail, a stream of blocks that is well-formed for the decoder's window over the
    log, with every sequence at most `BufferSize - WindowSize` long, is accepted without error and
    after `Flush` the writer has received the reference expansion of the whole stream.
    Full statement (FALSE, `C07_counter`): the same without `hfit`. -/
theorem C07_stream_partial (g : Grow) (blks : List Block) (d : Decoder) (h : Good d)
    (hw : d.w.resps = []) (hwf : WellFormedStream d.buf.ws d.log blks)
    (hfit : ∀ b ∈ blks, SeqsFit (d.buf.bs - d.buf.ws) b.seqs) :
    (d.writeBlocks g blks).2 = .ok ∧ (d.writeBlocks g blks).1.flush.2 = .ok ∧
    expandStream d.log blks = some (d.writeBlocks g blks).1.flush.1.w.got := by
  obtain ⟨a1, a2, a3, _⟩ := C07_events_partial g (blks.map .block) d h hw
    (wellFormedEvents_blocks _ _ _ hwf) (eventsFit_blocks _ _ hfit)
  rw [refDecode_blocks] at a3
  exact ⟨a1, a2, a3⟩

/-! ## (d) the counter-witness -/

namespace AcceptEx

def gId : Grow := fun _ n => n

/-- WindowSize 4, BufferSize 6: accepted by `DecoderConfig.Verify` -/
def d0 : Decoder := { buf := ⟨[], 0, 0, 4, 6, 0⟩, w := ⟨[], []⟩ }

/-- one literal `a` followed by a match of length 20 at offset 1 (21 times `a`) -/
def blkLong : Block := ⟨[⟨1, 20, 1, 0⟩], [97]⟩

example : DecBuf.init 4 6 0 = some d0.buf := by rfl
theorem d0_good : Good d0 := (good_init (ws := 4) (bs := 6) (precap := 0) (by rfl) ⟨[], []⟩ rfl).1
theorem blkLong_wf : WellFormedBlock d0.buf.ws d0.log blkLong := by
  simp [WellFormedBlock, WFSeqs, blkLong, d0, Decoder.log, DecBuf.pending]
example : expand d0.log blkLong = some (List.replicate 21 97) := by decide
example : ¬ SeqsFit (d0.buf.bs - d0.buf.ws) blkLong.seqs := by
  simp [SeqsFit, blkLong, d0]

end AcceptEx

open AcceptEx in
/-- **C07, counter-witness.**  WindowSize 4, BufferSize 6, a fresh decoder whose writer accepts
    everything; the block `[⟨LitLen 1, MatchLen 20, Offset 1⟩]`, literals `"a"` is well-formed
    (its reference expansion is `"a"` 21 times) but `Decoder.WriteBlock` refuses it with
    `errMatchLen`, consuming nothing: 21 > BufferSize - WindowSize = 2. -/
theorem C07_counter :
    Good d0 ∧ WellFormedBlock d0.buf.ws d0.log blkLong ∧
    (expand d0.log blkLong).isSome = true ∧
    (d0.writeBlock gId blkLong.seqs blkLong.lits 0 0 0).2 = (0, 0, 0, Err.matchLen) := by
  refine ⟨d0_good, blkLong_wf, by decide, ?_⟩
  simp [Decoder.writeBlock, DecBuf.writeBlock, DecBuf.seqLoop, DecBuf.shrink, d0, blkLong]

/-- the full-strength statement of C07 is false for the model -/
theorem C07_full_strength_false :
    ¬ ∀ (g : Grow) (d : Decoder) (blk : Block), Good d → d.w.resps = [] →
        WellFormedBlock d.buf.ws d.log blk →
        (d.writeBlock g blk.seqs blk.lits 0 0 0).2.2.2.2 = .ok := by
  intro h
  have := h AcceptEx.gId AcceptEx.d0 AcceptEx.blkLong C07_counter.1 rfl C07_counter.2.1
  rw [C07_counter.2.2.2] at this
  cases this

/-! ## non-vacuity: a stream that meets the hypotheses -/

namespace AcceptEx

/-- WindowSize 4, BufferSize 8 (`BufferSize - WindowSize = 4`) -/
def d1 : Decoder := { buf := ⟨[], 0, 0, 4, 8, 0⟩, w := ⟨[], []⟩ }

/-- "abc" + match(3, offset 3) | raw "xy" | match(2, offset 2) + literal "z" + match(4, offset 1):
    12 bytes through an 8 byte buffer -/
def evs : List DEvent :=
  [.block ⟨[⟨3, 1, 3, 0⟩, ⟨0, 2, 3, 0⟩], [97, 98, 99]⟩, .raw [120, 121],
   .block ⟨[⟨0, 2, 2, 0⟩, ⟨1, 3, 1, 0⟩], [122]⟩]

theorem d1_good : Good d1 := (good_init (ws := 4) (bs := 8) (precap := 0) (by rfl) ⟨[], []⟩ rfl).1

theorem evs_wf : WellFormedEvents d1.buf.ws d1.log evs := by
  refine ⟨?_, [97, 98, 99, 97, 98, 99], by decide, ?_, [97, 98, 99, 97, 98, 99, 120, 121, 120, 121, 122, 122, 122, 122],
    by decide, trivial⟩
  · simp [WellFormedBlock, WFSeqs, d1, Decoder.log, DecBuf.pending]
  · simp [WellFormedBlock, WFSeqs, d1]

theorem evs_fit : EventsFit (d1.buf.bs - d1.buf.ws) evs := by
  simp [EventsFit, SeqsFit, evs, d1]

/-- the hypotheses of `C07_events_partial` are met by `d1`, `evs`; its conclusion for them -/
example : (d1.feedAll gId evs).2 = .ok ∧ (d1.feedAll gId evs).1.flush.2 = .ok ∧
    some (d1.feedAll gId evs).1.flush.1.w.got =
      some [97, 98, 99, 97, 98, 99, 120, 121, 120, 121, 122, 122, 122, 122] := by
  obtain ⟨a1, a2, a3, _⟩ := C07_events_partial gId evs d1 d1_good rfl evs_wf evs_fit
  refine ⟨a1, a2, ?_⟩
  rw [← a3]
  decide

/-- a faulty writer (short write, then error 7, then fine) and the retry protocol -/
def d2 : Decoder := { buf := ⟨[], 0, 0, 4, 8, 0⟩, w := ⟨[(1, 0), (0, 7)], []⟩ }

example : ∃ d', retryBlock gId 3 d2 [⟨3, 1, 3, 0⟩, ⟨0, 4, 3, 0⟩, ⟨0, 4, 1, 0⟩] [97, 98, 99] = some (d', .ok) ∧
    d'.w.got = [97, 98, 99, 97, 98, 99, 97, 98, 98, 98, 98, 98] := by
  have hg : Good d2 := (good_init (ws := 4) (bs := 8) (precap := 0) (b := d2.buf) (by rfl) d2.w rfl).1
  obtain ⟨d', h1, h2, _⟩ := C07_retry_accepts_partial gId 3 d2
    [⟨3, 1, 3, 0⟩, ⟨0, 4, 3, 0⟩, ⟨0, 4, 1, 0⟩] [97, 98, 99] hg
    (by simp [WellFormedBlock, WFSeqs, d2, Decoder.log, DecBuf.pending])
    (by simp [SeqsFit, d2]) (by simp [d2])
  refine ⟨d', h1, ?_⟩
  have : expand d2.log ⟨[⟨3, 1, 3, 0⟩, ⟨0, 4, 3, 0⟩, ⟨0, 4, 1, 0⟩], [97, 98, 99]⟩ =
      some [97, 98, 99, 97, 98, 99, 97, 98, 98, 98, 98, 98] := by decide
  rw [this] at h2
  exact (Option.some.inj h2).symm

/-- why the hypothesis is `Good` and not just `Inv ∧ Hist` of C06/C18: the window condition
    (`min WindowSize |log| ≤ len(Data)`, a consequence of how `shrink` works) is needed.  This
    state — unreachable from `Init` — satisfies `Inv` and `Hist`, its log is `[1,2,3]`, the block
    "copy 1 byte from 2 back" is well-formed over it, and the decoder answers `errOffset`. -/
example :
    let d : Decoder := ⟨⟨[], 0, 3, 4, 8, 0⟩, ⟨[], [1, 2, 3]⟩⟩
    DecBuf.Inv d.buf ∧ Hist d ∧ d.log = [1, 2, 3] ∧
    WellFormedBlock d.buf.ws d.log ⟨[⟨0, 1, 2, 0⟩], []⟩ ∧ ¬ Good d ∧
    (d.writeBlock gId [⟨0, 1, 2, 0⟩] [] 0 0 0).2.2.2.2 = .offset := by
  intro d
  refine ⟨by unfold DecBuf.Inv; decide, ⟨[1, 2, 3], rfl⟩, rfl, ?_, ?_, ?_⟩
  · simp [WellFormedBlock, WFSeqs, d, Decoder.log, DecBuf.pending]
  · intro hg
    have := hg.win
    simp [d, Decoder.log, DecBuf.pending] at this
  · simp [Decoder.writeBlock, DecBuf.writeBlock, DecBuf.seqLoop, d]

end AcceptEx

end LZ

#print axioms LZ.C07_good_init
#print axioms LZ.C07_good_reset
#print axioms LZ.C07_good_iff
#print axioms LZ.C07_good_invariant
#print axioms LZ.C07_buf_accepts_partial
#print axioms LZ.C07_accepts_partial
#print axioms LZ.C07_resps_nil
#print axioms LZ.C07_retry_accepts_partial
#print axioms LZ.C07_events_never_refused
#print axioms LZ.C07_events_partial
#print axioms LZ.C07_stream_partial
#print axioms LZ.C07_counter
#print axioms LZ.C07_full_strength_false
