/-
  LzProofs.GenOSAPHistGoEx — NON-VACUITY of LzProofs/GenOSAPHistGo.lean: the hypothesis bundle `EdgeSpecs` is satisfiable, and
  the history of LzProofs/GenOSAPHistEx.lean run with the TRANSLATED `computeEdges` (`ceGo`).

    srtK, sliceSortSpec_srtK   `slices.Sort` := `List.mergeSort` on the elements up to `len`
    lcpK2, lcpSpec_lcpK2       `suffix.LCP(t, sa, nil, lcp)` := the specification table `lcpSpec t (saSpec t)` as int32 values
    segGo                      `suffix.Segments` := the TRANSLATION `Gen.suffix_Segments` (its log), `segSpec_go`
    edgeSpecsK                 `EdgeSpecs sortK lcpK2 segGo srtK` (`sortK`, `SortSpec`: LzProofs/GenGSAPHistEx.lean)
    #guard                     the 11-call history on the translated functions INCLUDING the translated `computeEdges`: the
                               same results as with the hand model `ceK` (first four `Parse` = the real-Go values), and the
                               edge table after the first `Parse` = the table the real Go run printed
                               (notes/osap-translate.md §6) — a test by the evaluator, not a theorem
    examples                   the `…_ce_go` theorems instantiated
  No sorry, no axioms of its own, no native_decide.
-/
import LzProofs.GenOSAPHistGo
import LzProofs.GenGSAPHistEx

set_option linter.unusedSimpArgs false
set_option linter.unusedVariables false

namespace LZ.GenOSAPHist
open LZ LZ.Gen LZ.GenBuf LZ.GenHash LZ.GenSuffix LZ.GenHPParse LZ.GenProps LZ.GenOSAP
open LZ.GenGSAP (SortSpec)
open LZ.GenHPHist (GOp GRes GOpR GResR GOpR.WF ghostRunR)

/-! ## `slices.Sort` -/

def srtK (seg : GSlice Int32) : Res (GSlice Int32) :=
  Res.ok { seg with arr := (seg.arr.take seg.len).mergeSort (fun a b => decide (a.toInt ≤ b.toInt)) ++ seg.arr.drop seg.len }

theorem sliceSortSpec_srtK : SliceSortSpec srtK := by
  intro seg hw
  unfold GWF at hw
  have hl : ((seg.arr.take seg.len).mergeSort (fun a b => decide (a.toInt ≤ b.toInt))).length = seg.len := by
    rw [(List.mergeSort_perm _ _).length_eq, List.length_take]; omega
  refine ⟨_, rfl, rfl, ?_, ?_, ?_, ?_⟩
  · show List.length (_ ++ _) = _
    rw [List.length_append, hl, List.length_drop]; omega
  · show List.drop seg.len (_ ++ _) = _
    rw [List.drop_append_of_le_length (by omega), List.drop_of_length_le (by omega), List.nil_append]
  · show List.Perm (List.take seg.len (_ ++ _)) _
    rw [List.take_append_of_le_length (by omega), List.take_of_length_le (by omega)]
    exact List.mergeSort_perm _ _
  · show List.Pairwise _ (List.take seg.len (_ ++ _))
    rw [List.take_append_of_le_length (by omega), List.take_of_length_le (by omega)]
    have := List.pairwise_mergeSort (le := fun (a b : Int32) => decide (a.toInt ≤ b.toInt))
      (fun a b c hab hbc => by simp only [decide_eq_true_eq] at *; omega)
      (fun a b => by simp only [Bool.or_eq_true, decide_eq_true_eq]; omega) (seg.arr.take seg.len)
    exact this.imp (fun h => by simpa using h)

/-! ## `suffix.LCP` -/

def lcpK2 (t : Slice) (sa sainv lcp : GSlice Int32) : Res (GSlice Int32) :=
  Res.ok { arr := (lcpSpec t.data (saSpec t.data)).map o32, len := t.len }

theorem lcpSpec_lcpK2 : LCPSpec lcpK2 := by
  intro t sa lcp ht h31 _ _ _ _ _
  have hdl : t.data.length = t.len := data_length ht
  have hsl : (saSpec t.data).length = t.len := by rw [(Sap.saSpec_isSA t.data).length_eq, hdl]
  have hlen : (lcpSpec t.data (saSpec t.data)).length = t.len := by
    rw [lcpSpec_eq, List.length_map, List.length_range, hsl]
  have hle : ∀ v ∈ lcpSpec t.data (saSpec t.data), v < 2147483648 := by
    intro v hv
    rw [lcpSpec_eq] at hv
    obtain ⟨k, _, e⟩ := List.mem_map.1 hv
    have := specAt_le t.data (saSpec t.data) k
    omega
  have hdata : ({ arr := (lcpSpec t.data (saSpec t.data)).map o32, len := t.len } : GSlice Int32).data =
      (lcpSpec t.data (saSpec t.data)).map o32 := by
    unfold GSlice.data
    simp only
    rw [List.take_of_length_le (by rw [List.length_map, hlen]; exact Nat.le_refl _)]
  refine ⟨_, rfl, by unfold GWF; simp [hlen], rfl, ?_, ?_⟩
  · intro i hi
    simp only at hi
    have hil : i < ((lcpSpec t.data (saSpec t.data)).map o32).length := by rw [List.length_map, hlen]; exact hi
    show 0 ≤ ((((lcpSpec t.data (saSpec t.data)).map o32)[i]?).getD 0).toInt
    rw [List.getElem?_eq_getElem hil, Option.getD_some, List.getElem_map]
    have hm : (lcpSpec t.data (saSpec t.data))[i]'(by rw [List.length_map] at hil; exact hil) ∈ lcpSpec t.data (saSpec t.data) :=
      List.getElem_mem _
    rw [o32_toInt _ (hle _ hm)]
    omega
  · rw [Sap.lcpKasai_saSpec]
    unfold absI32
    rw [hdata, List.map_map]
    congr 1
    conv => rhs; rw [← List.map_id (lcpSpec t.data (saSpec t.data))]
    apply List.map_congr_left
    intro v hv
    exact i32n_o32 v (hle v hv)

/-! ## `suffix.Segments`: the translation -/

/-- the translated `suffix.Segments` (topic SuffixSegments): its result is the log of the callback calls -/
def segGo (grow : Nat → Nat → Nat) (fuelS : Nat) : GSlice Int32 → GSlice Int32 → Int → Int → Res (List (Int × GSlice Int32)) :=
  fun sa lcp a b => suffix_Segments grow fuelS sa lcp a b

/-- **the bundle is satisfiable** -/
theorem edgeSpecsK (grow : Nat → Nat → Nat) (fuelS : Nat) (hf : 2 * 2147483647 + 3 ≤ fuelS) :
    EdgeSpecs LZ.GenGSAPHist.sortK lcpK2 (segGo grow fuelS) srtK :=
  ⟨LZ.GenGSAPHist.specsK.sort, lcpSpec_lcpK2, segSpec_go grow fuelS hf, sliceSortSpec_srtK⟩

/-! ## the history of GenOSAPHistEx with the translated `computeEdges` -/

def exFuelE : Nat := 2147483648
def exFuelS : Nat := 2 * 2147483647 + 3

/-- the translated `computeEdges` with the instances of its callees -/
def exCE : CEFun := ceGo exGrow exFuelE LZ.GenGSAPHist.sortK lcpK2 (segGo exGrow exFuelS) srtK

def exShowGo : Res (List (Int × Bool × List (UInt32 × UInt32 × UInt32) × List UInt8)) :=
  Res.bind (runO 0 exGrow exFuelN exCE exS0 exOps) fun r =>
  Res.ok (r.2.map fun
    | .base (.write n e) => (n, e == Gen.Err.ok, [], [])
    | .base (.parse b n e) => (n, e == Gen.Err.ok, b.Sequences.map (fun q => (q.LitLen, q.MatchLen, q.Offset)), b.Literals.data)
    | .base (.shrink d) => (d, true, [], [])
    | .base (.reset e) => (0, e == Gen.Err.ok, [], [])
    | .readFrom n _ => (n, true, [], []))

-- the same results as with the hand model, the first five as printed by the real Go run
#guard (match exShowGo, exShow with
  | .ok l, .ok l' => l == l' && l.take 5 == [(31, true, [], []), (12, true, [(3, 8, 3)], [97, 98, 99, 120]),
      (10, true, [(2, 3, 3), (0, 5, 11)], [121, 122]), (9, true, [(1, 3, 1), (0, 5, 9)], [81]), (0, false, [], [])]
  | _, _ => false)

/-- the edge table the translated `computeEdges` leaves after `Write("abcabcabcabxyzxyzabcabQQQQabcab")`, `Parse(&blk, 0)`:
    the non-empty entries `(position, [(m, o), …])`, `start`, `len(edges)`, `nEdges` -/
def exEdges : Res (List (Nat × List (UInt32 × UInt32)) × Int × Nat × Int) :=
  Res.bind (runO 0 exGrow exFuelN exCE exS0 (exOps.take 2)) fun r =>
  Res.ok (((r.1.edges.data.zipIdx.filter (fun x => x.1.len > 0)).map fun x => (x.2, x.1.data.map fun e => (e.m, e.o))),
    r.1.start, r.1.edges.len, r.1.nEdges)

-- the table of the real Go run (notes/osap-translate.md §6): start=0 len(edges)=31 nEdges=21
#guard (match exEdges with
  | .ok (tab, st, n, ne) => st == 0 && n == 31 && ne == 21 && tab ==
      [(3, [(8, 3)]), (4, [(7, 3)]), (5, [(6, 3)]), (6, [(5, 3)]), (7, [(4, 3)]), (8, [(3, 3)]), (9, [(2, 3)]),
       (14, [(3, 3)]), (15, [(2, 3)]), (17, [(5, 11), (2, 8)]), (18, [(4, 11)]), (19, [(3, 11)]), (20, [(2, 3)]),
       (23, [(3, 1)]), (24, [(2, 1)]), (26, [(5, 9), (2, 6)]), (27, [(4, 9)]), (28, [(3, 9)]), (29, [(2, 3)])]
  | _ => false)

theorem exFuelS_ok : 2 * 2147483647 + 3 ≤ exFuelS := Nat.le_refl _

example := gen_osap_history_ce_go exCfg exS0 exInit ex32 (edgeSpecsK exGrow exFuelS exFuelS_ok) exGrow exFuelE (Nat.le_refl _) 0
  exFuelN exFuel exOps exWF
example := C01_go_text_osap_ce_go exCfg exS0 exInit ex32 (edgeSpecsK exGrow exFuelS exFuelS_ok) exGrow exFuelE (Nat.le_refl _) 0
  exFuelN exFuel exOps exWF
example := C02_go_text_osap_ce_go exCfg exS0 exInit ex32 (edgeSpecsK exGrow exFuelS exFuelS_ok) exGrow exFuelE (Nat.le_refl _) 0
  exFuelN exFuel exOps exWF
example := C03_go_text_osap_ce_go exCfg exS0 exInit ex32 (edgeSpecsK exGrow exFuelS exFuelS_ok) exGrow exFuelE (Nat.le_refl _) 0
  exFuelN exFuel exOps exWF
example := C11_go_text_osap_ce_go exCfg exS0 exInit ex32 (edgeSpecsK exGrow exFuelS exFuelS_ok) exGrow exFuelE (Nat.le_refl _) 0
  exFuelN exFuel (exOps.take 1) (fun o ho => exWF o (List.mem_of_mem_take ho)) default 0 (by decide) (by decide)

end LZ.GenOSAPHist

#print axioms LZ.GenOSAPHist.sliceSortSpec_srtK
#print axioms LZ.GenOSAPHist.lcpSpec_lcpK2
#print axioms LZ.GenOSAPHist.edgeSpecsK
