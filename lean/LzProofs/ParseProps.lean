/-
  LzProofs.ParseProps — the property theorems about the parser model
  (C01 round trip, C02 well-formed sequences, C03 accounting/progress, C14 Parse(nil),
  C19 maximality), at four levels:

    probe   : the match finders of HP/BHP, DHP/BDHP, BUP, GSAP satisfy `ProbeOK` for
              ARBITRARY dictionary states (verify-then-emit)
    block   : `runGreedy` with any finder satisfying `ProbeOK`
    parser  : one `Parser.parse` / `Parser.parseNil` call on an arbitrary state
    history : arbitrary sequences of Write / ReadFrom / Parse / Parse(nil) / Shrink / Reset
              starting from `newParser`

  Helper files: ParseLemmas (lcpLen, lcsLen, backExt, copyRef, expandSeqs), ParseProbe,
  ParseLoop, ParseParser, ParseOsap, ParseBuf, ParseHist.
-/
import LzProofs.ParseHist
import LzProofs.ParseEval
namespace LZ
open Parser

/-! ## 1. probe level: verify-then-emit -/

/-- HP (`back = false`) and BHP (`back = true`): whatever the hash table `h` contains -/
theorem probeOK_hp (ws mm inputEnd : Nat) (back : Bool) (hmm : 1 ≤ mm) (p : List Byte) :
    ProbeOK ⟨hpProbe ws mm inputEnd back⟩ p ws mm :=
  (hpProbe_verifying ws mm inputEnd back p).probeOK hmm

/-- DHP and BDHP: whatever the two hash tables contain -/
theorem probeOK_dhp (ws mm e1 e2 : Nat) (back : Bool) (hmm : 1 ≤ mm) (p : List Byte) :
    ProbeOK ⟨dhpProbe ws mm e1 e2 back⟩ p ws mm :=
  (dhpProbe_verifying ws mm e1 e2 back p).probeOK hmm

/-- BUP: whatever the buckets and ring indexes contain -/
theorem probeOK_bup (ws mm inputEnd : Nat) (hmm : 1 ≤ mm) (p : List Byte) :
    ProbeOK ⟨bupProbe ws mm inputEnd⟩ p ws mm :=
  (bupProbe_verifying ws mm inputEnd hmm p).probeOK hmm

/-- GSAP: whatever `sa`, `isa` and `bits` contain (they need not be a suffix array at all) -/
theorem probeOK_gsap (ws mm : Nat) (hmm : 1 ≤ mm) (p : List Byte) :
    ProbeOK ⟨gsapProbe ws mm⟩ p ws mm :=
  (gsapProbe_verifying ws mm hmm p).probeOK hmm

/-- C19 at probe level: right-maximality for all four finders -/
theorem C19_probe_right_maximal (ws mm : Nat) (hmm : 1 ≤ mm) (p : List Byte) :
    (∀ inputEnd back, ProbeRightMax ⟨hpProbe ws mm inputEnd back⟩ p) ∧
    (∀ e1 e2 back, ProbeRightMax ⟨dhpProbe ws mm e1 e2 back⟩ p) ∧
    (∀ inputEnd, ProbeRightMax ⟨bupProbe ws mm inputEnd⟩ p) ∧
    ProbeRightMax ⟨gsapProbe ws mm⟩ p :=
  ⟨fun ie b => (hpProbe_verifying ws mm ie b p).rightMax hmm,
   fun e1 e2 b => (dhpProbe_verifying ws mm e1 e2 b p).rightMax hmm,
   fun ie => (bupProbe_verifying ws mm ie hmm p).rightMax hmm,
   (gsapProbe_verifying ws mm hmm p).rightMax hmm⟩

/-- C19 at probe level: left-maximality for the backward-extending finders (BHP, BDHP) -/
theorem C19_probe_left_maximal (ws mm : Nat) (hmm : 1 ≤ mm) (p : List Byte) :
    (∀ inputEnd, ProbeLeftMax ⟨hpProbe ws mm inputEnd true⟩ p) ∧
    (∀ e1 e2, ProbeLeftMax ⟨dhpProbe ws mm e1 e2 true⟩ p) :=
  ⟨fun ie => (hpProbe_verifying ws mm ie true p).leftMax hmm,
   fun e1 e2 => (dhpProbe_verifying ws mm e1 e2 true p).leftMax hmm⟩

/-! ## 2. block level -/

/-- C01/C02/C03 for one block of any greedy parser: for a finder that satisfies the probe
    contract, `runGreedy` from head `w` on the block prefix `p` returns a new head `w'` and
    a block `blk` such that
    * `expand (p.take w) blk = some (p.take w')`                                   (C01)
    * every sequence is well-formed at its position, `Σ litLen ≤ |lits|`            (C02)
    * `w ≤ w' ≤ |p|`, `w < w'` if `w < |p|`, `w + blk.len = w'`,
      `w' = |p|` without NoTrailingLiterals or without match, otherwise the block ends
      with its last match and carries exactly the claimed literals                 (C03) -/
theorem C01_C02_C03_block {δ} (F : Finder δ) (d : δ) (p : List Byte) (ws mm w stop flags : Nat)
    (hF : ProbeOK F p ws mm) (hw : w ≤ p.length) :
    BlockOK p w flags (fun pos s => SeqWF ws mm pos s ∧ SeqGenuine p pos s)
      (runGreedy F d p w stop flags).2.1 (runGreedy F d p w stop flags).2.2.1 := by
  apply runGreedy_ok F d p ws mm w stop flags _ hF _ hw
  intro d i li d' s k o hli hp
  obtain ⟨h1, h2, h3, h4, h5, h6⟩ := hF d i li d' s k o hli hp
  have e : li + (s - li) = s := by omega
  refine ⟨⟨h4.1, h5, ?_, h6, rfl⟩, ?_⟩
  · simp only [e]; exact h4.2.1
  · simp only [SeqGenuine, e]; exact h4

/-! ## 3. parser level: one call on an arbitrary state -/

/-- Light well-formedness of a parser state.  Nothing is assumed about the search
    structure (`s.dict`): tables, buckets, `sa`/`isa`/`bits` may hold anything. -/
structure StateOK (s : Parser) : Prop where
  w_le : s.buf.w ≤ s.buf.data.length
  minMatch : 1 ≤ s.minMatch
  blockSize : 1 ≤ s.buf.cfg.blockSize
  /-- the `ParserBuffer` capacity invariant (7 spare bytes), so the margin guard cannot fire -/
  cap : s.buf.data = [] ∨ s.buf.data.length + Facts.margin ≤ s.buf.cap

/-- the state belongs to one of the six greedy parsers -/
def Greedy (s : Parser) : Prop := ∀ o, s.dict ≠ .osap o

/-- C03: without unparsed data `Parse` returns `ErrEmptyBuffer`, `n = 0`, an emptied block and
    leaves the state alone (all seven parsers, any state) -/
theorem C03_parse_empty (s : Parser) (flags : Nat) (h : s.buf.data.length ≤ s.buf.w) :
    s.parse flags = (s, 0, .empty, ⟨[], []⟩) :=
  parse_empty s flags (by unfold blockN; omega)

/-- C01, C02, C03 for one `Parse(&blk, flags)` of HP, BHP, DHP, BDHP, BUP, GSAP on an
    arbitrary state with unparsed data. -/
theorem C01_C02_C03_parse (s : Parser) (flags : Nat) (hs : StateOK s) (hg : Greedy s)
    (hlt : s.buf.w < s.buf.data.length) :
    ∃ s' n blk, s.parse flags = (s', n, .ok, blk) ∧
      -- only `W` moves, by `n`
      s'.buf = { s.buf with w := s.buf.w + n } ∧ s'.kind = s.kind ∧ s'.cfg = s.cfg ∧ Greedy s' ∧
      -- C03: progress and bound
      1 ≤ n ∧ n ≤ s.buf.cfg.blockSize ∧ s.buf.w + n ≤ s.buf.data.length ∧
      -- C01
      expand (s.buf.data.take s.buf.w) blk = some (s.buf.data.take (s.buf.w + n)) ∧
      -- C03: `n` is what the block represents
      blk.len = n ∧
      -- C02
      SeqsAll (SeqWF s.buf.cfg.windowSize s.minMatch) s.buf.w blk.seqs ∧
      litSum blk.seqs ≤ blk.lits.length ∧
      -- C03: the two flag cases
      ((flags % 2 = 0 ∨ blk.seqs = []) →
        n = min (s.buf.data.length - s.buf.w) s.buf.cfg.blockSize) ∧
      (flags % 2 = 1 → blk.seqs ≠ [] →
        blk.lits.length = litSum blk.seqs ∧ n = seqsSpan blk.seqs) := by
  have hn : s.blockN ≠ 0 := by
    rw [ne_eq, blockN_eq_zero_iff s hs.w_le hs.blockSize]; omega
  obtain ⟨s', n, blk, hp, hok, hd⟩ :=
    parse_greedy_ok s flags hs.w_le hn hs.minMatch (marginOK_of_cap s hs.cap hn) hg
  have hN := s.blockN_le
  have hl := s.blockPrefix_length hs.w_le
  refine ⟨s', n, blk, hp, hok.buf, hok.kind, hok.cfg, hd, hok.n_pos, ?_, hok.w_le hs.w_le,
    hok.roundtrip, ?_, ?_, hok.block.lits, ?_, ?_⟩
  · have := hok.n_le; omega
  · have := hok.block.len; omega
  · exact SeqsAll.mono (fun _ _ h => h.1) _ _ hok.block.all
  · intro h
    have := hok.block.full h
    rw [hl] at this
    show n = s.blockN
    omega
  · intro h1 h2
    have := hok.block.trunc h1 h2
    exact ⟨this.1, by omega⟩

/-- C03: `ErrEmptyBuffer` exactly when no unparsed data is buffered (six greedy parsers) -/
theorem C03_parse_empty_iff (s : Parser) (flags : Nat) (hs : StateOK s) (hg : Greedy s) :
    (s.parse flags).2.2.1 = .empty ↔ s.buf.w = s.buf.data.length := by
  constructor
  · intro h
    by_cases hlt : s.buf.w < s.buf.data.length
    · obtain ⟨s', n, blk, hp, -⟩ := C01_C02_C03_parse s flags hs hg hlt
      rw [hp] at h; simp at h
    · have := hs.w_le; omega
  · intro h
    rw [C03_parse_empty s flags (by omega)]

/-- C02, GSAP: the offsets are even strictly below `WindowSize` (gsap.go uses `o < WindowSize`) -/
theorem C02_gsap_offset_lt (s : Parser) (flags : Nat) (g : GsapD) (hd : s.dict = .gsap g)
    (hs : StateOK s) (hlt : s.buf.w < s.buf.data.length) :
    SeqsAll (fun _ sq => sq.offset < s.buf.cfg.windowSize) s.buf.w (s.parse flags).2.2.2.seqs := by
  have hn : s.blockN ≠ 0 := by
    rw [ne_eq, blockN_eq_zero_iff s hs.w_le hs.blockSize]; omega
  have hl := s.blockPrefix_length hs.w_le
  rw [parse_gsap s flags g hd hn]
  have hv := gsapProbe_verifying s.buf.cfg.windowSize s.minMatch hs.minMatch s.blockPrefix
  exact (runGreedy_ok _ _ _ _ _ _ _ _ _ (hv.probeOK hs.minMatch)
    (fun d i li d' st k o _ hp => gsapProbe_offset_lt _ _ d _ i li d' st k o hp) (by omega)).all

/-- C19: every match emitted by `Parse` of a greedy parser is right-maximal within the block
    prefix (it ends at the block end or the next byte differs from the byte `Offset` back),
    and for the backward-extending parsers (BHP, BDHP) also left-maximal.
    `SeqsAll_iff` spells `SeqsAll` out per sequence. -/
theorem C19_right_maximal (s : Parser) (flags : Nat) (hs : StateOK s) (hg : Greedy s)
    (hlt : s.buf.w < s.buf.data.length) :
    SeqsAll (SeqRightMax s.blockPrefix) s.buf.w (s.parse flags).2.2.2.seqs := by
  have hn : s.blockN ≠ 0 := by
    rw [ne_eq, blockN_eq_zero_iff s hs.w_le hs.blockSize]; omega
  obtain ⟨s', n, blk, hp, hok, -⟩ :=
    parse_greedy_ok s flags hs.w_le hn hs.minMatch (marginOK_of_cap s hs.cap hn) hg
  rw [hp]
  exact SeqsAll.mono (fun _ _ h => h.2.2.1) _ _ hok.block.all

theorem C19_left_maximal (s : Parser) (flags : Nat) (hs : StateOK s) (hg : Greedy s)
    (hlt : s.buf.w < s.buf.data.length) (hb : s.backward = true) :
    SeqsAll (SeqLeftMax s.blockPrefix) s.buf.w (s.parse flags).2.2.2.seqs := by
  have hn : s.blockN ≠ 0 := by
    rw [ne_eq, blockN_eq_zero_iff s hs.w_le hs.blockSize]; omega
  obtain ⟨s', n, blk, hp, hok, -⟩ :=
    parse_greedy_ok s flags hs.w_le hn hs.minMatch (marginOK_of_cap s hs.cap hn) hg
  rw [hp]
  exact SeqsAll.mono (fun _ _ h => h.2.2.2 hb) _ _ hok.block.all

/-- `backward` is what one expects for well-formed states: BHP over a single table, BDHP over
    two tables -/
theorem backward_iff (s : Parser) :
    s.backward = true ↔ (∃ h, s.dict = .single h ∧ s.kind = .BHP) ∨ (∃ d, s.dict = .double d ∧ s.kind = .BDHP) := by
  unfold backward
  cases hd : s.dict <;> simp

/-- C01 (and C02, C03) for OSAP, RELATIVE to the soundness of the edge table the call uses.
    `EdgesSoundBlock p w ws maxM n edges k0`: every stored edge `(mx, o)` of block position
    `i < n` (table index `k0 + i`) has `1 ≤ o ≤ ws`, `mx ≤ maxM` and is a genuine match
    `MatchOK p (w + i) m o` for every length `m ≤ mx` that stays inside the block.
    OSAP does not re-verify its matches, so this hypothesis is exactly what `computeEdges`
    (suffix sort, LCP, segments) must deliver; it has the shape of `computeEdges_sound` in the
    OSAP edge proofs.  Proving it is not part of this file.
    Full statement (not proved here): the same without `hE`. -/
theorem C01_osap_partial (s : Parser) (flags : Nat) (o : OsapD) (hd : s.dict = .osap o)
    (hw : s.buf.w ≤ s.buf.data.length) (hmm : 1 ≤ s.minMatch) (hbs : 1 ≤ s.buf.cfg.blockSize)
    (hlt : s.buf.w < s.buf.data.length)
    (hE : EdgesSoundBlock s.blockPrefix s.buf.w s.buf.cfg.windowSize s.cfg.maxMatchLen.toNat
      s.blockN (s.osapEdges o).edges (s.buf.w - (s.osapEdges o).start)) :
    ∃ s' n blk, s.parse flags = (s', n, .ok, blk) ∧
      s'.buf = { s.buf with w := s.buf.w + n } ∧
      1 ≤ n ∧ n ≤ s.buf.cfg.blockSize ∧ s.buf.w + n ≤ s.buf.data.length ∧
      expand (s.buf.data.take s.buf.w) blk = some (s.buf.data.take (s.buf.w + n)) ∧
      blk.len = n ∧
      SeqsAll (SeqWFmax s.buf.cfg.windowSize s.minMatch s.cfg.maxMatchLen.toNat) s.buf.w blk.seqs ∧
      litSum blk.seqs ≤ blk.lits.length := by
  have hn : s.blockN ≠ 0 := by
    rw [ne_eq, blockN_eq_zero_iff s hw hbs]; omega
  obtain ⟨s', n, blk, hp, hok, -⟩ := parse_osap_ok_block s flags o hd hw hn hmm hE
  have hN := s.blockN_le
  refine ⟨s', n, blk, hp, hok.buf, hok.n_pos, ?_, hok.w_le hw, hok.roundtrip, ?_, ?_, hok.block.lits⟩
  · have := hok.n_le; omega
  · have := hok.block.len; omega
  · exact SeqsAll.mono (fun _ _ h => h.1) _ _ hok.block.all

/-- the hypothesis of `C01_osap_partial` follows from a buffer-wide soundness of the table
    (`EdgesSound`: every edge `(m, o)` stored for buffer position `i` has `MatchOK data i m o`,
    `o ≤ ws`, `m ≤ maxM`) when the table starts at or before `W` -/
theorem edgesSoundBlock_of_edgesSound (s : Parser) (o : OsapD)
    (hS : EdgesSound s.buf.data s.buf.cfg.windowSize s.cfg.maxMatchLen.toNat o)
    (hst : o.start ≤ s.buf.w) :
    EdgesSoundBlock s.blockPrefix s.buf.w s.buf.cfg.windowSize s.cfg.maxMatchLen.toNat
      s.blockN o.edges (s.buf.w - o.start) :=
  EdgesSound.block hS hst

/-- C03 for OSAP without any hypothesis on the edge table: with unparsed data `Parse` never
    returns an error -/
theorem C03_osap_err (s : Parser) (flags : Nat) (o : OsapD) (hd : s.dict = .osap o)
    (hbs : 1 ≤ s.buf.cfg.blockSize) (hlt : s.buf.w < s.buf.data.length) :
    (s.parse flags).2.2.1 = .ok := by
  have hn : s.blockN ≠ 0 := by unfold blockN; omega
  rw [parse_osap s flags o hd hn]
  simp only []
  split <;> rfl

/-- C14: `Parse(nil)` consumes `min BlockSize unparsed` bytes, changes nothing else in the
    buffer, and returns `ErrEmptyBuffer` (state untouched) iff nothing is unparsed
    (all seven parsers, any state) -/
theorem C14_parseNil (s : Parser) (hbs : 1 ≤ s.buf.cfg.blockSize) :
    (s.buf.data.length ≤ s.buf.w → s.parseNil = (s, 0, .empty)) ∧
    (s.buf.w < s.buf.data.length → ∃ s',
      s.parseNil = (s', min s.buf.cfg.blockSize (s.buf.data.length - s.buf.w), .ok) ∧
      s'.buf = { s.buf with w := s.buf.w + min s.buf.cfg.blockSize (s.buf.data.length - s.buf.w) } ∧
      s'.kind = s.kind ∧ s'.cfg = s.cfg) := by
  constructor
  · intro h; exact parseNil_empty s (by unfold blockN; omega)
  · intro h
    have hn : s.blockN ≠ 0 := by unfold blockN; omega
    obtain ⟨s', h1, h2, h3, h4⟩ := parseNil_ok s hn
    have e : s.blockN = min s.buf.cfg.blockSize (s.buf.data.length - s.buf.w) := by
      unfold blockN; omega
    rw [e] at h1 h4
    exact ⟨s', h1, h4, h2, h3⟩

/-- C14: repeated `Parse(nil)` drains the buffer: with `u` unparsed bytes exactly `⌈u/BlockSize⌉`
    calls succeed, the `k`-th (from 0) returning `min BlockSize (u - k·BlockSize)`; all later
    calls return `ErrEmptyBuffer` with `W = len(Data)` -/
theorem C14_drains (s : Parser) (hw : s.buf.w ≤ s.buf.data.length) (hbs : 1 ≤ s.buf.cfg.blockSize) :
    let bs := s.buf.cfg.blockSize
    let u := s.buf.data.length - s.buf.w
    let r := (u + bs - 1) / bs
    (∀ k, k < r → ∃ s', (nilIter k s).parseNil = (s', min bs (u - k * bs), .ok)) ∧
    (∀ k, r ≤ k → (nilIter k s).parseNil = (nilIter k s, 0, .empty) ∧
      (nilIter k s).buf = { s.buf with w := s.buf.data.length }) :=
  nilIter_drains s hw hbs

/-! ## 4. history level -/

/-- the named hypothesis of the OSAP history results: `computeEdges` only stores genuine
    matches — for every block `[w', w'+n)` behind the head `w` it was computed for
    (the conclusion of `computeEdges_sound` of the OSAP edge proofs, for all buffers) -/
def ComputeEdgesSound (ws mm mx : Nat) : Prop :=
  ∀ data w w' n, w ≤ w' → w' + n ≤ data.length →
    EdgesSoundBlock (data.take (w' + n)) w' ws mx n (computeEdges data w ws mm mx).edges (w' - w)

/-- the parser kinds for which the history theorems are unconditional -/
def HistHyp (k : Kind) (s0 : Parser) : Prop :=
  k = .OSAP → ComputeEdgesSound s0.buf.cfg.windowSize (mmOf k s0.cfg) s0.cfg.maxMatchLen.toNat

theorem histHyp_of_ne (k : Kind) (s0 : Parser) (h : k ≠ .OSAP) : HistHyp k s0 :=
  fun hk => absurd hk h

/-- The history invariant holds after any sequence of operations on a parser created by
    `NewParser` (all accepted configurations).  Unconditional for HP, BHP, DHP, BDHP, BUP,
    GSAP (`histHyp_of_ne`); for OSAP relative to `ComputeEdgesSound`. -/
theorem history_inv (k : Kind) (raw : Cfg) (s0 : Parser) (h0 : newParser k raw = some s0)
    (hH : HistHyp k s0) (ops : List POp) :
    Inv k s0.cfg s0.buf.cfg (runOps (s0, Ghost.init) ops) := by
  obtain ⟨hi, hmm, hbs⟩ := newParser_inv k raw s0 h0
  exact runOps_inv ⟨hmm, hbs, hH⟩ ops _ hi

/-- **C01** at history level: decoding the log of all blocks emitted since the last Reset
    (skipped segments contribute their bytes verbatim) with the reference expander yields
    exactly the consumed prefix of the bytes fed since that Reset — for every input, every
    accepted configuration, every interleaving of Write, ReadFrom, Parse (both flags),
    Parse(nil), Shrink and Reset. -/
theorem C01_roundtrip (k : Kind) (raw : Cfg) (s0 : Parser) (h0 : newParser k raw = some s0)
    (hH : HistHyp k s0) (ops : List POp) :
    let g := (runOps (s0, Ghost.init) ops).2
    decode [] g.log = some (g.fed.take g.consumed) := by
  intro g
  have h := history_inv k raw s0 h0 hH ops
  have := decode_of_logAll g.fed _ _ _ g.log 0 (Nat.zero_le _) h.log
  rw [h.span] at this
  simpa using this

/-- **C02** at history level: every sequence of every emitted block has
    `1 ≤ Offset ≤ WindowSize`, `Offset ≤` number of stream bytes since the last Reset that
    precede the match, `MatchLen ≥ minMatch`, `Aux = 0`; and the `LitLen`s of a block do not
    exceed its literals.  (`pos` = stream bytes before the block.) -/
theorem C02_wellformed (k : Kind) (raw : Cfg) (s0 : Parser) (h0 : newParser k raw = some s0)
    (hH : HistHyp k s0) (ops : List POp) :
    let g := (runOps (s0, Ghost.init) ops).2
    LogAll (fun pos e => ∀ n fl blk, e = .block n fl blk →
      SeqsAll (SeqWF s0.buf.cfg.windowSize (mmOf k s0.cfg)) pos blk.seqs ∧
      litSum blk.seqs ≤ blk.lits.length) 0 g.log := by
  intro g
  have h := history_inv k raw s0 h0 hH ops
  refine LogAll.mono ?_ _ _ h.log
  intro pos e he n fl blk heq
  subst heq
  exact ⟨he.2.2.2.2.2.1, he.2.2.2.2.2.2.1⟩

/-- **C03** at history level: the events tile the consumed stream without gap or overlap:
    the event starting at stream position `pos` has `1 ≤ n ≤ BlockSize`, a block expands
    `fed[0,pos)` to `fed[0,pos+n)` and represents `n = Block.Len` bytes; the `n` add up to
    `consumed`, which is `Off + W` of the model state and never exceeds what was fed. -/
theorem C03_contiguous (k : Kind) (raw : Cfg) (s0 : Parser) (h0 : newParser k raw = some s0)
    (hH : HistHyp k s0) (ops : List POp) :
    let sg := runOps (s0, Ghost.init) ops
    LogAll (fun pos e => 1 ≤ e.n ∧ e.n ≤ s0.buf.cfg.blockSize ∧ pos + e.n ≤ sg.2.fed.length ∧
      ∀ n fl blk, e = .block n fl blk →
        blk.len = n ∧ expand (sg.2.fed.take pos) blk = some (sg.2.fed.take (pos + n)) ∧
        (fl % 2 = 1 → blk.seqs ≠ [] →
          blk.lits.length = litSum blk.seqs ∧ n = seqsSpan blk.seqs)) 0 sg.2.log ∧
    logSpan sg.2.log = sg.2.consumed ∧
    sg.2.consumed = sg.1.buf.off + sg.1.buf.w ∧
    sg.2.consumed ≤ sg.2.fed.length := by
  intro sg
  have h := history_inv k raw s0 h0 hH ops
  refine ⟨LogAll.mono ?_ _ _ h.log, h.span, h.consumed, ?_⟩
  · intro pos e he
    cases e with
    | block n fl blk =>
      obtain ⟨a1, a2, a3, a4, a5, -, -, a8⟩ := he
      refine ⟨a1, a2, a3, ?_⟩
      intro n' fl' blk' heq
      cases heq
      exact ⟨a5, a4, a8⟩
    | skip b =>
      obtain ⟨a1, a2, a3, -⟩ := he
      exact ⟨a1, a2, a3, fun _ _ _ heq => by cases heq⟩
  · obtain ⟨dropped, hf, hdl⟩ := h.fed
    have := h.hw
    rw [h.consumed, hf]; simp; omega

/-- **C14** at history level: a `Parse(nil)` at stream position `pos` skips exactly the next
    stream bytes `fed[pos, pos+n)`; together with `C01_roundtrip` / `C03_contiguous` the blocks
    parsed afterwards are correct for a decoder that received those bytes verbatim. -/
theorem C14_skip_verbatim (k : Kind) (raw : Cfg) (s0 : Parser) (h0 : newParser k raw = some s0)
    (hH : HistHyp k s0) (ops : List POp) :
    let g := (runOps (s0, Ghost.init) ops).2
    LogAll (fun pos e => ∀ b, e = .skip b →
      1 ≤ b.length ∧ b.length ≤ s0.buf.cfg.blockSize ∧ b = (g.fed.drop pos).take b.length) 0 g.log := by
  intro g
  have h := history_inv k raw s0 h0 hH ops
  refine LogAll.mono ?_ _ _ h.log
  intro pos e he b heq
  subst heq
  exact ⟨he.1, he.2.1, he.2.2.2⟩

/-- the buffer always holds the tail of the stream: `fed = dropped ++ Data`, `|dropped| = Off` -/
theorem stream_buffer (k : Kind) (raw : Cfg) (s0 : Parser) (h0 : newParser k raw = some s0)
    (hH : HistHyp k s0) (ops : List POp) :
    let sg := runOps (s0, Ghost.init) ops
    ∃ dropped, sg.2.fed = dropped ++ sg.1.buf.data ∧ dropped.length = sg.1.buf.off :=
  (history_inv k raw s0 h0 hH ops).fed

/-- Every state reachable from `NewParser` by any history satisfies the hypotheses of the
    parser-level theorems (`C01_C02_C03_parse`, `C19_right_maximal`, `C19_left_maximal`,
    `C14_parseNil`, `C14_drains`), so those hold for every call of every history. -/
theorem reachable_stateOK (k : Kind) (raw : Cfg) (s0 : Parser) (h0 : newParser k raw = some s0)
    (hk : k ≠ .OSAP) (ops : List POp) :
    StateOK (runOps (s0, Ghost.init) ops).1 ∧ Greedy (runOps (s0, Ghost.init) ops).1 := by
  have h := history_inv k raw s0 h0 (histHyp_of_ne k s0 hk) ops
  obtain ⟨-, hmm, hbs⟩ := newParser_inv k raw s0 h0
  refine ⟨⟨h.hw, ?_, ?_, h.cap⟩, ?_⟩
  · rw [minMatch_eq, h.kind, h.cfg]; exact hmm
  · rw [h.bcfg]; exact hbs
  · intro o ho
    have hD := h.dict
    unfold DictOK at hD
    rw [ho] at hD
    exact hk hD.1

/-! ## 5. non-vacuity -/

section Examples

/-- "abcabcabcab" -/
def exData : List Byte := [97, 98, 99, 97, 98, 99, 97, 98, 99, 97, 98]

def exCfg : Cfg :=
  { windowSize := 64, bufferSize := 64, blockSize := 32, shrinkSize := 16, inputLen := 3, hashBits := 4 }

/-- `NewParser` accepts the configuration for HP -/
example : (newParser .HP exCfg).isSome = true := by decide

/-- the HP state after `Write("abcabcabcab")` (fresh table) -/
def exState : Parser :=
  { kind := .HP, cfg := setDefaults .HP (exCfg.restrict .HP),
    buf := { data := exData, w := 0, off := 0, cap := 71,
             cfg := (setDefaults .HP (exCfg.restrict .HP)).bufCfg },
    dict := freshDict .HP (setDefaults .HP (exCfg.restrict .HP)) }

/-- the hypotheses of the parser-level theorems hold for a concrete state with unparsed data -/
example : StateOK exState ∧ Greedy exState ∧ exState.buf.w < exState.buf.data.length := by
  refine ⟨⟨by decide, by decide, by decide, Or.inr (by decide)⟩, ?_, by decide⟩
  intro o h; simp [exState, freshDict] at h

/-- … and for a state whose table is garbage (positions beyond the buffer, wrong values):
    the theorems do not care -/
def exGarbage : Parser :=
  { exState with dict := .single { tbl := Array.replicate 16 (1000, 7), inputLen := 3, hashBits := 4 } }

example : StateOK exGarbage ∧ Greedy exGarbage := by
  refine ⟨⟨by decide, by decide, by decide, Or.inr (by decide)⟩, ?_⟩
  intro o h; simp [exGarbage] at h

def exBlock : Block := ⟨[{ litLen := 3, matchLen := 8, offset := 3 }], [97, 98, 99]⟩

/-- a concrete HP parse evaluated inside the kernel (through the fuel-based copy of the loop,
    `greedyLoop_eq_fuel`): "abcabcabcab" ↦ 3 literals + one match of length 8, offset 3 -/
example : (exState.parse 0).2 = (11, .ok, exBlock) := by
  rw [parse_single exState 0 _ rfl (by decide) (marginOK_of_cap _ (Or.inr (by decide)) (by decide))]
  simp only [runGreedy_eq_fuel]
  decide

/-- "xabcdyabcdabcd" -/
def exData2 : List Byte := [120, 97, 98, 99, 100, 121, 97, 98, 99, 100, 97, 98, 99, 100]

def exBHP : Parser :=
  { kind := .BHP, cfg := setDefaults .BHP (exCfg.restrict .BHP),
    buf := { data := exData2, w := 0, off := 0, cap := 71,
             cfg := (setDefaults .BHP (exCfg.restrict .BHP)).bufCfg },
    dict := .single (HashT.new 3 4) }

/-- a concrete BHP parse with `NoTrailingLiterals`: two matches, the block ends with the last -/
example : (exBHP.parse 1).2 =
    (14, .ok, ⟨[⟨6, 4, 5, 0⟩, ⟨0, 4, 4, 0⟩], [120, 97, 98, 99, 100, 121]⟩) := by
  rw [parse_single exBHP 1 _ rfl (by decide) (marginOK_of_cap _ (Or.inr (by decide)) (by decide))]
  simp only [runGreedy_eq_fuel]
  decide

/-- GSAP on the same data with its suffix array already computed (`#eval gsapSort exData2 0`) -/
def exGSAP : Parser :=
  { kind := .GSAP, cfg := setDefaults .GSAP ({ exCfg with minMatchLen := 3 }.restrict .GSAP),
    buf := { data := exData2, w := 0, off := 0, cap := 71,
             cfg := (setDefaults .BHP (exCfg.restrict .BHP)).bufCfg },
    dict := .gsap { sa := #[10, 6, 1, 11, 7, 2, 12, 8, 3, 13, 9, 4, 0, 5],
                    isa := #[12, 2, 5, 8, 11, 13, 1, 4, 7, 10, 0, 3, 6, 9],
                    bits := Array.replicate 14 false } }

example : (exGSAP.parse 0).2 =
    (14, .ok, ⟨[⟨6, 4, 5, 0⟩, ⟨0, 4, 4, 0⟩], [120, 97, 98, 99, 100, 121]⟩) := by
  rw [parse_gsap exGSAP 0 _ rfl (by decide)]
  simp only [runGreedy_eq_fuel]
  decide

/-- garbage in the search structure may cost compression, never correctness: GSAP with a
    nonsensical "suffix array" (every rank points to position 1) still emits a block that
    round-trips — here with a different second offset (9 instead of 4) -/
def exGSAPbad : Parser :=
  { exGSAP with dict := .gsap { sa := Array.replicate 14 1, isa := Array.replicate 14 0,
                                bits := Array.replicate 14 true } }

def exBlockBad : Block := ⟨[⟨6, 4, 5, 0⟩, ⟨0, 4, 9, 0⟩], [120, 97, 98, 99, 100, 121]⟩

example : (exGSAPbad.parse 0).2 = (14, .ok, exBlockBad) := by
  rw [parse_gsap exGSAPbad 0 _ rfl (by decide)]
  simp only [runGreedy_eq_fuel]
  decide

example : expand [] exBlockBad = some exData2 := by decide

example : expand [] exBlock = some exData := by decide
example : exBlock.len = 11 := by decide
example : SeqsAll (SeqWF 64 3) 0 exBlock.seqs := by
  simp only [exBlock, SeqsAll, SeqWF]; decide
example : MatchOK exData 3 8 3 := by
  refine ⟨by decide, by decide, by decide, ?_⟩
  intro t ht
  have : t = 0 ∨ t = 1 ∨ t = 2 ∨ t = 3 ∨ t = 4 ∨ t = 5 ∨ t = 6 ∨ t = 7 := by omega
  rcases this with h | h | h | h | h | h | h | h <;> subst h <;> decide

/-- a genuine, maximal candidate: `lcpLen` of "abcabcabcab" at 0 and 3 is 8 -/
example : lcpLen (exData.drop 0) (exData.drop 3) = 8 := by decide

/-- a sound (non-empty) edge table for OSAP on the example data -/
example : EdgesSound exData 64 273 { edges := #[[], [], [], [(8, 3)]], start := 0, nEdges := 1 } := by
  intro idx e he
  have hidx : idx = 3 := by
    rcases Nat.lt_or_ge idx 4 with h | h
    · have : idx = 0 ∨ idx = 1 ∨ idx = 2 ∨ idx = 3 := by omega
      rcases this with h | h | h | h <;> subst h <;> simp at he ⊢
    · simp [Array.getD, show ¬ idx < 4 by omega] at he
  subst hidx
  simp at he
  subst he
  refine ⟨⟨by decide, by decide, by decide, ?_⟩, by decide, by decide⟩
  intro t ht
  have : t = 0 ∨ t = 1 ∨ t = 2 ∨ t = 3 ∨ t = 4 ∨ t = 5 ∨ t = 6 ∨ t = 7 := by
    simp only at ht; omega
  rcases this with h | h | h | h | h | h | h | h <;> subst h <;> decide

/-- an OSAP state with exactly that sound table; its `Parse` evaluated in the kernel
    (`decide +kernel`: kernel reduction only, no compiler, no extra axioms) -/
def exOSAP : Parser :=
  { kind := .OSAP,
    cfg := setDefaults .OSAP ({ exCfg with minMatchLen := 3, maxMatchLen := 20 }.restrict .OSAP),
    buf := { data := exData, w := 0, off := 0, cap := 71,
             cfg := (setDefaults .HP (exCfg.restrict .HP)).bufCfg },
    dict := .osap { edges := #[[], [], [], [(8, 3)], [], [], [], [], [], [], []],
                    start := 0, nEdges := 1 } }

theorem exOSAP_parse : (exOSAP.parse 0).2 = (11, .ok, exBlock) := by
  rw [parse_osap exOSAP 0 _ rfl (by decide)]
  decide +kernel

/-- the history theorems apply to a concrete history -/
example : ∃ s0, newParser .HP exCfg = some s0 ∧ HistHyp .HP s0 := by
  have h : (newParser .HP exCfg).isSome = true := by decide
  obtain ⟨s0, hs⟩ := Option.isSome_iff_exists.mp h
  exact ⟨s0, hs, histHyp_of_ne _ _ (by decide)⟩

end Examples

end LZ

/-! ## axioms -/
#print axioms LZ.probeOK_hp
#print axioms LZ.probeOK_dhp
#print axioms LZ.probeOK_bup
#print axioms LZ.probeOK_gsap
#print axioms LZ.C19_probe_right_maximal
#print axioms LZ.C19_probe_left_maximal
#print axioms LZ.greedyLoop_inv
#print axioms LZ.C01_C02_C03_block
#print axioms LZ.C03_parse_empty
#print axioms LZ.C01_C02_C03_parse
#print axioms LZ.C03_parse_empty_iff
#print axioms LZ.C02_gsap_offset_lt
#print axioms LZ.C19_right_maximal
#print axioms LZ.C19_left_maximal
#print axioms LZ.C01_osap_partial
#print axioms LZ.C03_osap_err
#print axioms LZ.reachable_stateOK
#print axioms LZ.exOSAP_parse
#print axioms LZ.C14_parseNil
#print axioms LZ.C14_drains
#print axioms LZ.history_inv
#print axioms LZ.C01_roundtrip
#print axioms LZ.C02_wellformed
#print axioms LZ.C03_contiguous
#print axioms LZ.C14_skip_verbatim
#print axioms LZ.stream_buffer
#print axioms LZ.lcpLen_le_min
#print axioms LZ.lcpLen_getElem?
#print axioms LZ.lcpLen_maximal
#print axioms LZ.lcpLen_drop_matchOK
#print axioms LZ.backExt_matchOK
#print axioms LZ.backExt_maximal
#print axioms LZ.Parser.parse_progress
